(* C19 part D: lal's avc.ParseSps reads every SPS the encoder model of
   CodecSpsAvcSpec.v can produce, and reports the standard's picture size. *)
From Lal Require Import Common.LBytes Common.LBytesProofs Common.Res
  Codec.CodecBits Codec.CodecGolomb Codec.CodecRdM Codec.CodecSpsAvc Codec.CodecSpsAvcSpec
  Codec.CodecGolombProofs Codec.CodecRdMProofs Codec.CodecEpbProofs.
From Coq Require Import Lia ZifyN ZifyNat ZifyBool.
Open Scope N_scope.

Ltac unfold_g := unfold g_bits8, g_bits16, g_ue, g_se in *.

(* ---------- parseSpsBasic ---------- *)
Definition basic_log (s : sps_syntax) : spslog :=
  [(F_spsid, ss_id s); (F_level, ss_level_idc s);
   (F_cs2, N.b2n (N.testbit (ss_constraint_flags s) 5));
   (F_cs1, N.b2n (N.testbit (ss_constraint_flags s) 6));
   (F_cs0, N.b2n (N.testbit (ss_constraint_flags s) 7));
   (F_profile, ss_profile_idc s)].

Lemma bits8_split c :
  bits_of_val 8 c = N.testbit c 7 :: N.testbit c 6 :: N.testbit c 5 :: bits_of_val 5 c.
Proof. reflexivity. Qed.

Lemma parse_basic_ok s hdr r :
  ss_profile_idc s < 256 -> ss_level_idc s < 256 -> ss_id s <= 31 -> r <> [] ->
  parse_sps_basic (st (bits_of_byte hdr ++ write_u 8 (ss_profile_idc s) ++ write_u 8 (ss_constraint_flags s)
                       ++ write_u 8 (ss_level_idc s) ++ write_ue (ss_id s) ++ r), [])
  = Ok (Some tt, (st r, basic_log s)).
Proof.
  intros Hp Hl Hid Hr. unfold parse_sps_basic. unfold_g.
  change (bits_of_byte hdr) with (bits_of_val 8 hdr).
  rewrite (ubits 8 8) by (cbn; lia).
  unfold write_u.
  rewrite (ubits_small 8 8) by (cbn; lia). rewrite uset.
  rewrite (bits8_split (ss_constraint_flags s)). cbn [app].
  rewrite (uflag 8) by lia. rewrite uset.
  rewrite (uflag 8) by lia. rewrite uset.
  rewrite (uflag 8) by lia. rewrite uset.
  rewrite (ubits 8 5) by (cbn; lia).
  rewrite (ubits_small 8 8) by (cbn; lia). rewrite uset.
  rewrite uue by (try assumption; lia). rewrite uset.
  replace (32 <=? ss_id s) with false by (symmetry; apply N.leb_gt; lia).
  reflexivity.
Qed.

(* ---------- scaling lists ---------- *)
Lemma delta_okb_range d : delta_okb d = true -> (-128 <= d <= 127)%Z.
Proof. unfold delta_okb. intro H. apply andb_prop in H. destruct H as [H1 H2]. lia. Qed.

Lemma scaling_list_ok : forall j last next ds r lg,
  forallb delta_okb ds = true -> r <> [] ->
  scaling_list j last next (st (enc_scaling_list j last next ds ++ r), lg) = Ok (Some tt, (st r, lg)).
Proof.
  induction j as [|j IH]; intros last next ds r lg Hds Hr; [reflexivity|].
  cbn [scaling_list enc_scaling_list].
  destruct (next =? 0)%Z eqn:En; [now apply IH|].
  assert (Hd : (-128 <= hd 0%Z ds <= 127)%Z).
  { destruct ds as [|d ds']; cbn [hd]; [lia|]. cbn [forallb] in Hds. apply andb_prop in Hds.
    destruct Hds as [H1 _]. apply delta_okb_range. exact H1. }
  assert (Htl : forallb delta_okb (tl ds) = true).
  { destruct ds as [|d ds']; [reflexivity|]. cbn [forallb] in Hds. apply andb_prop in Hds. apply Hds. }
  cbv zeta. rewrite <- app_assoc. unfold_g.
  rewrite use by (try lia; ne).
  rewrite se_of_ue_of_se by lia.
  replace ((last + hd 0%Z ds + 256) mod 256)%Z with ((last + hd 0%Z ds) mod 256)%Z
    by (rewrite <- (Z.mod_add (last + hd 0%Z ds) 1 256) by lia; f_equal; lia).
  now apply IH.
Qed.

Lemma scaling_lists_ok : forall ls i r lg,
  forallb (fun o => match o with None => true | Some ds => forallb delta_okb ds end) ls = true -> r <> [] ->
  scaling_lists (length ls) i (st (enc_scaling_lists i ls ++ r), lg) = Ok (Some tt, (st r, lg)).
Proof.
  induction ls as [|o ls IH]; intros i r lg Hls Hr; [reflexivity|].
  cbn [forallb] in Hls. apply andb_prop in Hls. destruct Hls as [Ho Hls].
  cbn [length scaling_lists enc_scaling_lists]. unfold_g.
  destruct o as [ds|].
  - cbn [app]. rewrite (uflag 8) by lia. cbn [N.b2n N.eqb Pos.eqb].
    rewrite <- app_assoc.
    unfold g_bind at 1. rewrite scaling_list_ok by (try assumption; ne).
    now apply IH.
  - cbn [app]. rewrite (uflag 8) by lia. cbn [N.b2n N.eqb Pos.eqb]. now apply IH.
Qed.

(* ---------- chroma part ---------- *)
Definition chroma_log (s : sps_syntax) : spslog :=
  if high_profile (ss_profile_idc s) then
    let c := ss_chroma s in
    [(F_bypass, N.b2n (cs_qpprime_bypass c)); (F_bdc, u32add (cs_bit_depth_chroma_minus8 c) 8);
     (F_bdl, u32add (cs_bit_depth_luma_minus8 c) 8)]
    ++ (if cs_format_idc c =? 3 then [(F_rct, N.b2n (cs_separate_planes c))] else [])
    ++ [(F_chroma, cs_format_idc c)]
  else [(F_bdc, 8); (F_bdl, 8); (F_chroma, 1)].

Lemma high_profile_eq p : is_high_profile p = high_profile p.
Proof. reflexivity. Qed.

Lemma chroma_part_ok s r lg :
  (if high_profile (ss_profile_idc s) then chroma_okb (ss_chroma s) else true) = true -> r <> [] ->
  gamma_chroma_part (ss_profile_idc s)
    (st ((if high_profile (ss_profile_idc s) then enc_chroma (ss_chroma s) else []) ++ r), lg)
  = Ok (Some tt, (st r, chroma_log s ++ lg)).
Proof.
  intros Hok Hr. unfold gamma_chroma_part, chroma_log. rewrite high_profile_eq.
  destruct (high_profile (ss_profile_idc s)); [|reflexivity].
  set (c := ss_chroma s) in *.
  unfold chroma_okb in Hok. apply andb_prop in Hok. destruct Hok as [Hok Hsc].
  apply andb_prop in Hok. destruct Hok as [Hok Hbdc]. apply andb_prop in Hok. destruct Hok as [Hcf Hbdl].
  apply N.leb_le in Hcf, Hbdl, Hbdc.
  unfold enc_chroma. rewrite <- !app_assoc. unfold_g.
  rewrite uue by (try lia; ne). rewrite uset.
  assert (Hmid : forall (k : unit -> gm unit) r' lg',
    g_bind (if cs_format_idc c =? 3 then do* f <- g_read (read_bits 8 1); g_set F_rct f else g_ret tt) k
      (st ((if cs_format_idc c =? 3 then [cs_separate_planes c] else []) ++ r'), lg')
    = k tt (st r', (if cs_format_idc c =? 3 then [(F_rct, N.b2n (cs_separate_planes c))] else []) ++ lg')).
  { intros k r' lg'. destruct (cs_format_idc c =? 3); [|reflexivity].
    cbn [app]. rewrite bind_assoc. rewrite (uflag 8) by lia. reflexivity. }
  rewrite Hmid.
  rewrite uue by (try lia; ne). rewrite uset.
  rewrite uue by (try lia; ne). rewrite uset.
  cbn [app]. rewrite (uflag 8) by lia. rewrite uset.
  destruct (cs_scaling c) as [ls|] eqn:Els.
  - cbn [app]. rewrite (uflag 8) by lia. cbn [N.b2n N.eqb Pos.eqb].
    unfold scaling_okb in Hsc. rewrite Els in Hsc. apply andb_prop in Hsc. destruct Hsc as [Hlen Hls].
    apply Nat.eqb_eq in Hlen. rewrite <- Hlen.
    rewrite scaling_lists_ok by assumption.
    try reflexivity.
  - cbn [app]. rewrite (uflag 8) by lia. cbn [N.b2n N.eqb Pos.eqb].
    reflexivity.
Qed.

(* ---------- pic_order_cnt part ---------- *)
Lemma se_okb_range z : se_okb z = true -> (-2147483648 < z < 2147483648)%Z.
Proof. unfold se_okb. intro H. apply andb_prop in H. lia. Qed.

Lemma write_se_len_pos z : (1 <= length (write_se z))%nat.
Proof.
  unfold write_se. pose proof (write_ue_nonempty (ue_of_se z)) as H.
  destruct (write_ue (ue_of_se z)); [congruence|cbn; lia].
Qed.

Lemma concat_se_len offs : (length offs <= length (concat (map write_se offs)))%nat.
Proof.
  induction offs as [|o offs IH]; [cbn; lia|].
  cbn [map concat length]. rewrite app_length. pose proof (write_se_len_pos o). lia.
Qed.

Lemma skip_se_ok : forall offs fuel r lg,
  (length offs <= fuel)%nat -> forallb se_okb offs = true -> r <> [] ->
  skip_se fuel (lenN offs) (st (concat (map write_se offs) ++ r), lg) = Ok (Some tt, (st r, lg)).
Proof.
  induction offs as [|o offs IH]; intros fuel r lg Hf Hok Hr.
  - destruct fuel; reflexivity.
  - cbn [length] in Hf. destruct fuel as [|fuel]; [lia|].
    cbn [forallb] in Hok. apply andb_prop in Hok. destruct Hok as [Ho Hok].
    cbn [skip_se].
    replace (lenN (o :: offs) =? 0) with false by (symmetry; apply N.eqb_neq; unfold lenN; cbn [length]; lia).
    cbn [map concat]. rewrite <- app_assoc. unfold_g.
    rewrite use by (try (now apply se_okb_range); ne).
    replace (lenN (o :: offs) - 1) with (lenN offs) by (unfold lenN; cbn [length]; lia).
    apply IH; [lia|assumption|assumption].
Qed.

Definition poc_log (p : poc_syntax) : spslog :=
  match p with
  | Poc0 l => [(F_log2poc, u32add l 4); (F_poctype, 0)]
  | Poc1 _ _ _ _ => [(F_poctype, 1)]
  | Poc2 => [(F_poctype, 2)]
  end.

Lemma poc_part_ok p r lg :
  poc_okb p = true -> r <> [] ->
  gamma_poc_part (st (enc_poc p ++ r), lg) = Ok (Some tt, (st r, poc_log p ++ lg)).
Proof.
  intros Hok Hr. unfold gamma_poc_part. unfold_g.
  destruct p as [l|dz o1 o2 offs|]; cbn [enc_poc poc_okb poc_log] in *.
  - apply N.leb_le in Hok. rewrite <- app_assoc.
    rewrite uue by (try lia; ne). rewrite uset. cbn [N.eqb].
    rewrite uue by (try lia; ne). reflexivity.
  - apply andb_prop in Hok. destruct Hok as [Hok Hoffs]. apply andb_prop in Hok. destruct Hok as [Hok Hlen].
    apply andb_prop in Hok. destruct Hok as [Ho1 Ho2]. apply N.leb_le in Hlen.
    rewrite <- !app_assoc.
    rewrite uue by (try lia; ne). rewrite uset. cbn [N.eqb Pos.eqb].
    cbn [app]. rewrite (uflag_ign 8) by lia.
    rewrite use_ign by (try (now apply se_okb_range); ne).
    rewrite use_ign by (try (now apply se_okb_range); ne).
    rewrite ucheck.
    rewrite uue by (try lia; ne).
    cbn [fst br_rem st].
    apply skip_se_ok; try assumption.
    rewrite app_length. pose proof (concat_se_len offs). lia.
  - rewrite uue by (try lia; ne). rewrite uset. reflexivity.
Qed.

(* ---------- VUI aspect ratio ---------- *)
Definition vui_log (v : option vui_syntax) : spslog :=
  match v with
  | Some (mk_vui_syntax (Some (idc, sw, sh))) =>
    if idc =? 255 then [(F_sarden, sh); (F_sarnum, sw)]
    else if idc <? 17 then [(F_sarden, snd (nth (N.to_nat idc) sar_table (0, 0)));
                            (F_sarnum, fst (nth (N.to_nat idc) sar_table (0, 0)))]
    else []
  | _ => []
  end.

Lemma vui_part_ok v r lg :
  vui_okb v = true ->
  gamma_vui_part (st (enc_vui v ++ r), lg) = Ok (Some tt, (st r, vui_log v ++ lg)).
Proof.
  intro Hok. unfold gamma_vui_part. unfold_g.
  destruct v as [[[[[idc sw] sh]|]]|]; cbn [enc_vui vs_aspect vui_log app].
  - cbn [vui_okb] in Hok. apply andb_prop in Hok. destruct Hok as [Hok Hsh].
    apply andb_prop in Hok. destruct Hok as [Hidc Hsw]. apply N.ltb_lt in Hidc, Hsw, Hsh.
    rewrite (uflag 8) by lia. cbn [N.b2n N.eqb Pos.eqb].
    rewrite (uflag 8) by lia. cbn [N.b2n N.eqb Pos.eqb].
    unfold write_u. rewrite <- app_assoc.
    rewrite (ubits_small 8 8) by (cbn; lia).
    destruct (idc =? 255) eqn:E255.
    + rewrite <- app_assoc.
      rewrite (ubits_small 16 16) by (cbn; lia). rewrite uset.
      rewrite (ubits_small 16 16) by (cbn; lia). reflexivity.
    + cbn [app]. destruct (idc <? 17); reflexivity.
  - rewrite (uflag 8) by lia. cbn [N.b2n N.eqb Pos.eqb].
    rewrite (uflag 8) by lia. reflexivity.
  - rewrite (uflag 8) by lia. reflexivity.
Qed.

(* ---------- frame size, cropping ---------- *)
Definition crop_log (c : option (N * N * N * N)) : spslog :=
  match c with
  | None => []
  | Some (l, r, t, b) => [(F_cb, b); (F_ct, t); (F_cr, r); (F_cl, l)]
  end.

Definition frame_log (s : sps_syntax) : spslog :=
  crop_log (ss_crop s)
  ++ [(F_cropflag, N.b2n (match ss_crop s with Some _ => true | None => false end));
      (F_d8x8, N.b2n (ss_direct_8x8 s))]
  ++ (if ss_frame_mbs_only s then [] else [(F_mbaff, N.b2n (ss_mbaff s))])
  ++ [(F_fmo, N.b2n (ss_frame_mbs_only s)); (F_hmap, ss_height_map_units_minus1 s);
      (F_wmbs, ss_width_mbs_minus1 s); (F_gaps, N.b2n (ss_gaps_allowed s));
      (F_numref, ss_max_num_ref_frames s)].

Definition gamma_log0 (s : sps_syntax) (lg : spslog) : spslog :=
  vui_log (ss_vui s) ++ frame_log s ++ poc_log (ss_poc s)
  ++ [(F_log2fn, ss_log2_max_frame_num_minus4 s)] ++ chroma_log s ++ lg.

Definition gamma_log (s : sps_syntax) (lg : spslog) : spslog :=
  (if sps_get F_sarden (gamma_log0 s lg) =? 0 then [(F_sarden, 1); (F_sarnum, 1)] else [])
  ++ gamma_log0 s lg.

(* everything parseSpsGamma reads, i.e. encode_sps without its first four
   fields; z = what follows the aspect-ratio info (rest of the VUI, stop bit,
   alignment) *)
Definition enc_gamma_k (s : sps_syntax) (z : bits) : bits :=
  (if high_profile (ss_profile_idc s) then enc_chroma (ss_chroma s) else [])
  ++ write_ue (ss_log2_max_frame_num_minus4 s)
  ++ enc_poc (ss_poc s)
  ++ write_ue (ss_max_num_ref_frames s)
  ++ [ss_gaps_allowed s]
  ++ write_ue (ss_width_mbs_minus1 s)
  ++ write_ue (ss_height_map_units_minus1 s)
  ++ [ss_frame_mbs_only s]
  ++ (if ss_frame_mbs_only s then [] else [ss_mbaff s])
  ++ [ss_direct_8x8 s]
  ++ enc_crop (ss_crop s)
  ++ enc_vui (ss_vui s)
  ++ z.
Definition enc_gamma (s : sps_syntax) : bits := enc_gamma_k s (ss_tail s ++ [true]).

Lemma enc_gamma_app s pad : enc_gamma s ++ pad = enc_gamma_k s ((ss_tail s ++ [true]) ++ pad).
Proof. unfold enc_gamma, enc_gamma_k. repeat rewrite <- app_assoc. reflexivity. Qed.

Lemma encode_sps_split s :
  encode_sps s = write_u 8 (ss_profile_idc s) ++ write_u 8 (ss_constraint_flags s) ++ write_u 8 (ss_level_idc s)
                 ++ write_ue (ss_id s) ++ enc_gamma s.
Proof. reflexivity. Qed.

Lemma okb_fields s : sps_ok s ->
  (1 <= ss_nal_ref_idc s <= 3) /\ ss_profile_idc s < 256 /\ ss_level_idc s < 256 /\ ss_id s <= 31
  /\ (if high_profile (ss_profile_idc s) then chroma_okb (ss_chroma s) else true) = true
  /\ ss_log2_max_frame_num_minus4 s <= 12 /\ poc_okb (ss_poc s) = true
  /\ ss_max_num_ref_frames s + 1 < 4294967296
  /\ 16 * (ss_width_mbs_minus1 s + 1) < 4294967296 /\ 32 * (ss_height_map_units_minus1 s + 1) < 4294967296
  /\ match ss_crop s with
     | None => True
     | Some (l, r, t, b) => l + 1 < 4294967296 /\ r + 1 < 4294967296 /\ t + 1 < 4294967296 /\ b + 1 < 4294967296
     end
  /\ (0 < spec_width s)%Z /\ (0 < spec_height s)%Z /\ vui_okb (ss_vui s) = true.
Proof.
  unfold sps_ok, sps_okb. intro H.
  repeat (match type of H with (_ && _ = true) => apply andb_prop in H; let H2 := fresh "H" in destruct H as [H H2] end).
  repeat match goal with
         | [ H : (_ <=? _) = true |- _ ] => apply N.leb_le in H
         | [ H : (_ <? _) = true |- _ ] => apply N.ltb_lt in H
         | [ H : (_ <? _)%Z = true |- _ ] => apply Z.ltb_lt in H
         | [ H : ue_okb _ = true |- _ ] => unfold ue_okb in H
         end.
  repeat split; try assumption; try lia.
  destruct (ss_crop s) as [[[[l r] t] b]|]; [|exact I].
  match goal with [ H : _ && _ = true |- _ ] => rename H into Hc end.
  unfold ue_okb in Hc.
  repeat (match type of Hc with (_ && _ = true) => apply andb_prop in Hc; let H2 := fresh "H" in destruct Hc as [Hc H2] end).
  repeat match goal with [ H : (_ <? _) = true |- _ ] => apply N.ltb_lt in H end.
  repeat split; assumption.
Qed.

(* ---------- parseSpsGamma on the encoder's output ---------- *)
Lemma gamma_ok s z lg :
  sps_ok s -> z <> [] ->
  parse_sps_gamma (ss_profile_idc s) (st (enc_gamma_k s z), lg)
  = Ok (Some tt, (st z, gamma_log s lg)).
Proof.
  intros Hok Hz. destruct (okb_fields s Hok) as (Hnri & Hp & Hl & Hid & Hch & Hfn & Hpoc & Hnr & Hw & Hh & Hcrop & _ & _ & Hvui).
  unfold parse_sps_gamma, enc_gamma_k. unfold_g.
  unfold g_bind at 1. rewrite chroma_part_ok by (try assumption; ne). cbv beta iota.
  rewrite uue by (try lia; ne). rewrite uset.
  unfold g_bind at 1. rewrite poc_part_ok by (try assumption; ne). cbv beta iota.
  rewrite uue_ign by (try lia; ne). rewrite uset.
  cbn [app]. rewrite (uflag_ign 8) by lia. rewrite uset.
  rewrite uue_ign by (try lia; ne). rewrite uset.
  rewrite uue_ign by (try lia; ne). rewrite uset.
  rewrite ucheck.
  cbn [app]. rewrite (uflag 8) by lia. rewrite uset.
  assert (Hmb : forall (k : unit -> gm unit) r' lg',
    g_bind (if N.b2n (ss_frame_mbs_only s) =? 0 then do* m <- g_read (read_bits 8 1); g_set F_mbaff m else g_ret tt) k
      (st ((if ss_frame_mbs_only s then [] else [ss_mbaff s]) ++ r'), lg')
    = k tt (st r', (if ss_frame_mbs_only s then [] else [(F_mbaff, N.b2n (ss_mbaff s))]) ++ lg')).
  { intros k r' lg'. destruct (ss_frame_mbs_only s); [reflexivity|].
    cbn [N.b2n N.eqb app]. rewrite bind_assoc. rewrite (uflag 8) by lia. reflexivity. }
  rewrite Hmb.
  cbn [app]. rewrite (uflag 8) by lia. rewrite uset.
  assert (Hcr : forall (k : unit -> gm unit) r' lg', r' <> [] ->
    g_bind (g_read (read_bits 8 1)) (fun cf => g_bind (g_set F_cropflag cf) (fun _ =>
      g_bind (if cf =? 1 then
                do* l <- g_read_ign 0 read_ue; do* _ <- g_set F_cl l;
                do* r <- g_read_ign 0 read_ue; do* _ <- g_set F_cr r;
                do* t <- g_read_ign 0 read_ue; do* _ <- g_set F_ct t;
                do* b <- g_read_ign 0 read_ue; do* _ <- g_set F_cb b; g_check_err
              else g_ret tt) k))
      (st (enc_crop (ss_crop s) ++ r'), lg')
    = k tt (st r', crop_log (ss_crop s)
                   ++ (F_cropflag, N.b2n (match ss_crop s with Some _ => true | None => false end)) :: lg')).
  { intros k r' lg' Hr'. destruct (ss_crop s) as [[[[l r] t] b]|]; cbn [enc_crop app crop_log].
    - destruct Hcrop as (Hl' & Hr'' & Ht' & Hb').
      rewrite (uflag 8) by lia. rewrite uset. cbn [N.b2n N.eqb Pos.eqb].
      rewrite <- !app_assoc. rewrite !bind_assoc.
      rewrite uue_ign by (try lia; ne). rewrite bind_assoc, uset.
      rewrite bind_assoc. rewrite uue_ign by (try lia; ne). rewrite bind_assoc, uset.
      rewrite bind_assoc. rewrite uue_ign by (try lia; ne). rewrite bind_assoc, uset.
      rewrite bind_assoc. rewrite uue_ign by (try lia; ne). rewrite bind_assoc, uset.
      rewrite ucheck. reflexivity.
    - rewrite (uflag 8) by lia. rewrite uset. reflexivity. }
  rewrite Hcr by ne.
  unfold g_bind at 1. rewrite vui_part_ok by assumption. cbv beta iota.
  rewrite uget.
  unfold gamma_log.
  assert (Elog : vui_log (ss_vui s) ++
     crop_log (ss_crop s) ++
     (F_cropflag, N.b2n match ss_crop s with Some _ => true | None => false end)
     :: (F_d8x8, N.b2n (ss_direct_8x8 s))
        :: (if ss_frame_mbs_only s then [] else [(F_mbaff, N.b2n (ss_mbaff s))]) ++
           (F_fmo, N.b2n (ss_frame_mbs_only s))
           :: (F_hmap, ss_height_map_units_minus1 s)
              :: (F_wmbs, ss_width_mbs_minus1 s)
                 :: (F_gaps, N.b2n (ss_gaps_allowed s))
                    :: (F_numref, ss_max_num_ref_frames s)
                       :: poc_log (ss_poc s) ++
                          (F_log2fn, ss_log2_max_frame_num_minus4 s) :: chroma_log s ++ lg
     = gamma_log0 s lg).
  { unfold gamma_log0, frame_log. rewrite <- !app_assoc. reflexivity. }
  rewrite Elog.
  destruct (sps_get F_sarden (gamma_log0 s lg) =? 0); reflexivity.
Qed.

(* ---------- reading fields back from the final log ---------- *)
Lemma keys_vui v : keys_in [26; 27] (vui_log v) = true.
Proof.
  destruct v as [[[[[idc sw] sh]|]]|]; try reflexivity.
  cbn [vui_log]. destruct (idc =? 255); [reflexivity|]. destruct (idc <? 17); reflexivity.
Qed.

Lemma keys_crop c : keys_in [22; 23; 24; 25] (crop_log c) = true.
Proof. destruct c as [[[[l r] t] b]|]; reflexivity. Qed.

Lemma keys_frame s : keys_in [14; 15; 16; 17; 18; 19; 20; 21; 22; 23; 24; 25] (frame_log s) = true.
Proof.
  unfold frame_log. destruct (ss_crop s) as [[[[l r] t] b]|]; destruct (ss_frame_mbs_only s); reflexivity.
Qed.

Lemma keys_poc p : keys_in [12; 13] (poc_log p) = true.
Proof. destruct p; reflexivity. Qed.

Lemma keys_chroma s : keys_in [6; 7; 8; 9; 10] (chroma_log s) = true.
Proof.
  unfold chroma_log. destruct (high_profile (ss_profile_idc s)); [|reflexivity].
  cbn [app]. destruct (cs_format_idc (ss_chroma s) =? 3); reflexivity.
Qed.

Definition sar_default (l : spslog) : spslog :=
  if sps_get F_sarden l =? 0 then [(F_sarden, 1); (F_sarnum, 1)] else [].
Lemma keys_sar l : keys_in [26; 27] (sar_default l) = true.
Proof. unfold sar_default. destruct (sps_get F_sarden l =? 0); reflexivity. Qed.

Lemma gamma_log_eq s lg : gamma_log s lg = sar_default (gamma_log0 s lg) ++ gamma_log0 s lg.
Proof. reflexivity. Qed.

(* a key that none of the VUI/SAR entries uses *)
Lemma get_below_vui f s lg :
  existsb (N.eqb f) [26; 27] = false ->
  sps_get f (gamma_log s lg)
  = sps_get f (frame_log s ++ poc_log (ss_poc s) ++ [(F_log2fn, ss_log2_max_frame_num_minus4 s)] ++ chroma_log s ++ lg).
Proof.
  intro Hf. rewrite gamma_log_eq.
  rewrite (sps_get_skip f [26; 27]) by (try apply keys_sar; assumption).
  unfold gamma_log0. rewrite (sps_get_skip f [26; 27]) by (try apply keys_vui; assumption).
  reflexivity.
Qed.

Ltac split_frame s :=
  unfold frame_log, crop_log;
  destruct (ss_crop s) as [[[[?l ?r] ?t] ?b]|]; destruct (ss_frame_mbs_only s); cbn [app].

Lemma get_wmbs s lg : sps_get F_wmbs (gamma_log s lg) = ss_width_mbs_minus1 s.
Proof. rewrite get_below_vui by reflexivity. split_frame s; reflexivity. Qed.

Lemma get_hmap s lg : sps_get F_hmap (gamma_log s lg) = ss_height_map_units_minus1 s.
Proof. rewrite get_below_vui by reflexivity. split_frame s; reflexivity. Qed.

Lemma get_fmo s lg : sps_get F_fmo (gamma_log s lg) = N.b2n (ss_frame_mbs_only s).
Proof. rewrite get_below_vui by reflexivity. split_frame s; reflexivity. Qed.

Definition crop_n (s : sps_syntax) : N * N * N * N :=
  match ss_crop s with Some c => c | None => (0, 0, 0, 0) end.

Ltac split_rest s :=
  unfold poc_log, chroma_log;
  destruct (ss_poc s); destruct (high_profile (ss_profile_idc s));
  try destruct (cs_format_idc (ss_chroma s) =? 3); cbn [app].

Lemma get_crop s :
  (sps_get F_cl (gamma_log s (basic_log s)) = fst (fst (fst (crop_n s)))) /\
  (sps_get F_cr (gamma_log s (basic_log s)) = snd (fst (fst (crop_n s)))) /\
  (sps_get F_ct (gamma_log s (basic_log s)) = snd (fst (crop_n s))) /\
  (sps_get F_cb (gamma_log s (basic_log s)) = snd (crop_n s)).
Proof.
  rewrite !get_below_vui by reflexivity. unfold crop_n.
  split_frame s; try (repeat split; reflexivity); split_rest s; repeat split; reflexivity.
Qed.

Lemma get_chroma s :
  sps_get F_chroma (gamma_log s (basic_log s)) = spec_chroma_format_idc s.
Proof.
  rewrite get_below_vui by reflexivity. unfold spec_chroma_format_idc.
  split_frame s; split_rest s; reflexivity.
Qed.

Lemma get_level s : sps_get F_level (gamma_log s (basic_log s)) = ss_level_idc s.
Proof. rewrite get_below_vui by reflexivity. split_frame s; split_rest s; reflexivity. Qed.

(* ---------- ParseSps on the NAL unit of the encoder model ---------- *)
Lemma wrap32_small z : (0 <= z < 4294967296)%Z -> Z.of_N (wrap32 z) = z.
Proof. intro H. unfold wrap32. rewrite Z.mod_small by lia. lia. Qed.

Lemma crop_units_agree s :
  avc_crop_unit_x (gamma_log s (basic_log s)) = spec_crop_unit_x s /\
  avc_crop_unit_y (gamma_log s (basic_log s)) = spec_crop_unit_y s.
Proof.
  unfold avc_crop_unit_x, avc_crop_unit_y. rewrite get_chroma, get_fmo.
  unfold spec_crop_unit_x, spec_crop_unit_y, spec_chroma_array_type, spec_sub_width_c, spec_sub_height_c,
    spec_separate_planes, spec_fmo, spec_chroma_format_idc.
  destruct (high_profile (ss_profile_idc s)); cbn [andb].
  - destruct (N.eqb_spec (cs_format_idc (ss_chroma s)) 3) as [E3|N3].
    + rewrite E3. cbn [N.eqb Pos.eqb orb andb].
      destruct (cs_separate_planes (ss_chroma s)), (ss_frame_mbs_only s); cbn; split; reflexivity.
    + cbn [andb].
      destruct (N.eqb_spec (cs_format_idc (ss_chroma s)) 1) as [E1|N1];
      destruct (N.eqb_spec (cs_format_idc (ss_chroma s)) 2) as [E2|N2];
      destruct (N.eqb_spec (cs_format_idc (ss_chroma s)) 0) as [E0|N0];
      try lia; destruct (ss_frame_mbs_only s); cbn; split; lia.
  - destruct (ss_frame_mbs_only s); cbn; split; reflexivity.
Qed.

Lemma parse_sps_raw_encoded s pad :
  sps_ok s ->
  exists ctx,
    parse_sps_avc_raw ((ss_nal_ref_idc s * 32 + 7) :: bytes_of_bits (encode_sps s) ++ pad) = Ok ctx /\
    ac_profile ctx = ss_profile_idc s /\ ac_level ctx = ss_level_idc s /\
    Z.of_N (ac_width ctx) = spec_width s /\ Z.of_N (ac_height ctx) = spec_height s.
Proof.
  intro Hok. destruct (okb_fields s Hok) as (Hnri & Hp & Hl & Hid & Hch & Hfn & Hpoc & Hnr & Hw & Hh & Hcrop & Hsw & Hsh & Hvui).
  unfold parse_sps_avc_raw, br_new. cbn [bits_of_bytes]. rewrite bits_of_bytes_app.
  destruct (bits_of_bytes_of_bits (encode_sps s)) as [pad' Hpad]. rewrite Hpad.
  rewrite encode_sps_split. repeat rewrite <- app_assoc.
  fold (st (bits_of_byte (ss_nal_ref_idc s * 32 + 7) ++ write_u 8 (ss_profile_idc s)
            ++ write_u 8 (ss_constraint_flags s) ++ write_u 8 (ss_level_idc s) ++ write_ue (ss_id s)
            ++ enc_gamma s ++ pad' ++ bits_of_bytes pad)).
  rewrite parse_basic_ok; try assumption.
  2:{ intro E. apply app_eq_nil in E. destruct E as [E _]. revert E. unfold enc_gamma, enc_gamma_k. ne. }
  change (sps_get F_profile (snd (st (enc_gamma s ++ pad' ++ bits_of_bytes pad), basic_log s)))
    with (ss_profile_idc s).
  rewrite enc_gamma_app.
  rewrite gamma_ok by (try assumption; rewrite <- app_assoc; ne).
  cbn [snd]. eexists. split; [reflexivity|]. cbn [ac_profile ac_level ac_width ac_height].
  split; [reflexivity|]. split; [apply get_level|].
  destruct (crop_units_agree s) as [Hux Huy].
  destruct (get_crop s) as (Hcl & Hcr & Hct & Hcb).
  unfold avc_width, avc_height. rewrite Hux, Huy, get_wmbs, get_hmap, get_fmo, Hcl, Hcr, Hct, Hcb.
  unfold spec_width, spec_height, spec_crop, crop_n in *.
  assert (Hfmo : Z.of_N (N.b2n (ss_frame_mbs_only s)) = spec_fmo s)
    by (unfold spec_fmo; destruct (ss_frame_mbs_only s); reflexivity).
  rewrite Hfmo.
  assert (Hux_pos : (1 <= spec_crop_unit_x s <= 2)%Z).
  { unfold spec_crop_unit_x, spec_sub_width_c. destruct (spec_chroma_array_type s =? 0); [lia|].
    destruct ((spec_chroma_format_idc s =? 1) || (spec_chroma_format_idc s =? 2)); lia. }
  assert (Hfmo_r : (0 <= spec_fmo s <= 1)%Z) by (unfold spec_fmo; destruct (ss_frame_mbs_only s); lia).
  assert (Huy_pos : (1 <= spec_crop_unit_y s <= 4)%Z).
  { unfold spec_crop_unit_y, spec_sub_height_c. destruct (spec_chroma_array_type s =? 0); [lia|].
    destruct (spec_chroma_format_idc s =? 1); lia. }
  destruct (ss_crop s) as [[[[l r] t] b]|]; cbn [fst snd] in *.
  - split; (rewrite wrap32_small; [lia|]); nia.
  - split; (rewrite wrap32_small; [lia|]); nia.
Qed.

(* the NAL unit with emulation prevention, as ParseSps receives it *)
Theorem dims_avc s :
  sps_ok s ->
  exists ctx,
    parse_sps_avc (sps_nal s) = Ok ctx /\
    ac_profile ctx = ss_profile_idc s /\ ac_level ctx = ss_level_idc s /\
    Z.of_N (ac_width ctx) = spec_width s /\ Z.of_N (ac_height ctx) = spec_height s.
Proof.
  intro Hok. destruct (okb_fields s Hok) as (Hnri & _).
  unfold parse_sps_avc, parse_sps_avc_f, sps_nal. rewrite nal2rbsp_nal by lia.
  (* the zero byte ParseSps appends to the RBSP copy is one more byte of trailing data *)
  exact (parse_sps_raw_encoded s [0] Hok).
Qed.

(* anything may follow the NAL unit in the buffer handed to ParseSps (lal's own
   test passes the SPS followed by the PPS record) *)
Theorem dims_avc_trailing s extra :
  sps_ok s -> bytes_of_bits (encode_sps s) = epb_insert (bytes_of_bits (encode_sps s)) ->
  exists ctx,
    parse_sps_avc_raw (sps_nal s ++ extra) = Ok ctx /\
    Z.of_N (ac_width ctx) = spec_width s /\ Z.of_N (ac_height ctx) = spec_height s.
Proof.
  intros Hok Hepb. unfold sps_nal. rewrite <- Hepb. cbn [app].
  destruct (parse_sps_raw_encoded s extra Hok) as (ctx & H1 & _ & _ & H2 & H3).
  exists ctx. repeat split; assumption.
Qed.

(* ---------- the two defects of the pinned tree (DESIGN F-06) ---------- *)
Definition sps_1080i : sps_syntax :=
  mk_sps_syntax 3 77 64 40 0 (mk_chroma_syntax 1 false 0 0 false None) 0 (Poc0 2) 4 false
    119 33 false true true (Some (0, 0, 0, 2)) None [].

(* before the fix the cropping offsets were always counted in units of 2:
   1920x1080 interlaced (34 map units of 32 lines, bottom crop 2 x 4 lines) came out as 1084 *)
Lemma dims_avc_pinned_refuted :
  exists s ctx, sps_ok s /\ parse_sps_avc (sps_nal s) = Ok ctx /\
                spec_height s = 1080%Z /\ avc_height_pinned (ac_sps ctx) = 1084 /\ ac_height ctx = 1080.
Proof.
  exists sps_1080i. eexists. split; [vm_compute; reflexivity|]. split; [vm_compute; reflexivity|].
  repeat split; vm_compute; reflexivity.
Qed.

Definition sps_epb_early : sps_syntax :=
  mk_sps_syntax 3 66 0 30 0 (mk_chroma_syntax 1 false 0 0 false None) 0 (Poc1 false 4194304 1 []) 1 false
    119 67 true false true (Some (0, 0, 0, 4)) None [].

(* before the second fix ParseSps read the NAL unit without removing the
   emulation prevention bytes: a valid 1920x1080 SPS whose
   offset_for_non_ref_pic needs one was reported with other dimensions *)
Lemma dims_avc_raw_epb_refuted :
  exists s ctx, sps_ok s /\ parse_sps_avc_raw (sps_nal s) = Ok ctx /\
                spec_width s = 1920%Z /\ spec_height s = 1080%Z /\
                (ac_width ctx, ac_height ctx) <> (1920, 1080).
Proof.
  exists sps_epb_early. eexists. split; [vm_compute; reflexivity|]. split; [vm_compute; reflexivity|].
  split; [vm_compute; reflexivity|]. split; [vm_compute; reflexivity|]. vm_compute. discriminate.
Qed.

(* non-vacuity and a link to a real stream: the encoder model reproduces, byte
   for byte, the SPS of lal's own test vector goldenSps2 (1280x720 ... as
   720x1280 portrait), and ParseSps reads 720x1280 from it *)
Definition sps_golden2 : sps_syntax :=
  mk_sps_syntax 1 100 0 31 0 (mk_chroma_syntax 1 false 0 0 false None) 1 (Poc0 2) 1 false
    44 79 true false true None None [].

Lemma sps_golden2_bytes :
  sps_ok sps_golden2 /\ sps_nal sps_golden2 = [39; 100; 0; 31; 172; 86; 128; 180; 10; 25]
  /\ spec_width sps_golden2 = 720%Z /\ spec_height sps_golden2 = 1280%Z.
Proof. repeat split; vm_compute; reflexivity. Qed.
