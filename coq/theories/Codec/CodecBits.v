(* naza/pkg/nazabits BitReader, as lal uses it (ParseSps & co).
   The Go reader keeps (core, avail, index, pos, err); observationally it is a
   cursor into the MSB-first bit string of [core] plus a sticky error flag:
     - reserve n   : error flag set -> error; fewer than n bits left -> set flag, error
     - ReadBitsW n : the next n bits as a big-endian number, truncated to W bits
                     (pieces shifted beyond the machine width vanish)
     - ReadBits32 0 (only reached from ReadUeGolomb): touches core[index]; this
       is an index-out-of-range PANIC when the cursor sits at the very end of
       the buffer (index = len core), and 0 otherwise          (DESIGN F-13)
   The model keeps the remaining bits; "cursor at the end" = no bits remain.
   No proofs here. *)
From Lal Require Export Common.LBytes Common.Res.
Open Scope N_scope.

Definition site_nazabits_zero_read : N := 1.

(* error enums shared by the codec models (printed by name by the drivers) *)
Definition err_short : N := 2.     (* base.ErrShortBuffer *)
Definition err_avc : N := 3.       (* base.ErrAvc *)
Definition err_bits : N := 4.      (* nazabits.ErrNazaBits *)
Definition err_hevc : N := 5.      (* base.ErrHevc *)

(* bytes.Replace(nal, {0,0,3}, {0,0}, -1): leftmost non-overlapping matches *)
Fixpoint nal2rbsp (l : bytes) : bytes :=
  match l with
  | 0 :: 0 :: 3 :: t => 0 :: 0 :: nal2rbsp t
  | b :: t => b :: nal2rbsp t
  | [] => []
  end.

(* uint32 result of integer arithmetic *)
Definition wrap32 (z : Z) : N := Z.to_N (z mod 4294967296).

Definition bits := list bool.

Definition bits_of_byte (b : N) : bits :=
  [N.testbit b 7; N.testbit b 6; N.testbit b 5; N.testbit b 4;
   N.testbit b 3; N.testbit b 2; N.testbit b 1; N.testbit b 0].

Fixpoint bits_of_bytes (l : bytes) : bits :=
  match l with
  | [] => []
  | b :: t => bits_of_byte b ++ bits_of_bytes t
  end.

(* big-endian value of a bit string *)
Fixpoint bits_val_acc (acc : N) (l : bits) : N :=
  match l with
  | [] => acc
  | b :: t => bits_val_acc (if b then N.succ_double acc else N.double acc) t
  end.
Definition bits_val (l : bits) : N := bits_val_acc 0 l.

Record bitrd := mk_bitrd { br_rem : bits; br_err : bool }.

Definition br_new (b : bytes) : bitrd := mk_bitrd (bits_of_bytes b) false.
Definition br_fail (s : bitrd) : bitrd := mk_bitrd (br_rem s) true.

(* split off exactly n bits; None when fewer remain *)
Fixpoint bits_split (n : nat) (l : bits) : option (bits * bits) :=
  match n with
  | O => Some ([], l)
  | S k => match l with
           | [] => None
           | b :: t => match bits_split k t with
                       | Some (a, r) => Some (b :: a, r)
                       | None => None
                       end
           end
  end.

(* result of one reader call: Ok (Some v, s') value; Ok (None, s') the call
   returned ErrNazaBits (flag now set); Panic *)
Definition rd (A : Type) := res (option A * bitrd).

(* ReadBits8 / ReadBits16 / ReadBits32 / ReadBits64 with w = 8/16/32/64 *)
Definition read_bits (w : N) (n : nat) (s : bitrd) : rd N :=
  if br_err s then Ok (None, s)
  else match bits_split n (br_rem s) with
       | None => Ok (None, br_fail s)
       | Some (a, r) =>
         match n with
         | O => match br_rem s with
                | [] => Panic site_nazabits_zero_read
                | _ => Ok (Some 0, s)
                end
         | _ => Ok (Some (bits_val a mod 2 ^ w), mk_bitrd r false)
         end
       end.

(* ReadBit *)
Definition read_bit (s : bitrd) : rd N := read_bits 8 1 s.

(* the leading-zero loop of ReadUeGolomb: number of zero bits before the first
   one bit, and the reader state after that one bit *)
Fixpoint ue_zeros (l : bits) (n : nat) : option (nat * bits) :=
  match l with
  | [] => None
  | true :: t => Some (n, t)
  | false :: t => ue_zeros t (S n)
  end.

(* 1<<n as uint32 *)
Definition shl1_u32 (n : nat) : N := if Nat.ltb n 32 then 2 ^ N.of_nat n else 0.

(* ReadUeGolomb / ReadGolomb: v = 1<<n + m - 1 in uint32 *)
Definition read_ue (s : bitrd) : rd N :=
  if br_err s then Ok (None, s)
  else match ue_zeros (br_rem s) O with
       | None => Ok (None, br_fail s)
       | Some (n, r) =>
         match read_bits 32 n (mk_bitrd r false) with
         | Ok (Some m, s') => Ok (Some ((shl1_u32 n + m + 4294967295) mod 4294967296), s')
         | Ok (None, s') => Ok (None, s')
         | Err e => Err e
         | Panic p => Panic p
         end
       end.

(* ReadSeGolomb: int32 arithmetic
     v = int32(vv) + 1; sign = -(v & 1); v = ((v >> 1) ^ sign) - sign *)
Definition se_of_ue (vv : N) : Z :=
  let k := ((Z.of_N vv + 1) mod 4294967296)%Z in
  let v := if (k <? 2147483648)%Z then k else (k - 4294967296)%Z in
  if Z.odd v then (- (Z.shiftr v 1))%Z else Z.shiftr v 1.

Definition read_se (s : bitrd) : rd Z :=
  match read_ue s with
  | Ok (Some vv, s') => Ok (Some (se_of_ue vv), s')
  | Ok (None, s') => Ok (None, s')
  | Err e => Err e
  | Panic p => Panic p
  end.

(* bit WRITER side (nazabits.BitWriter as used by aac): the low n bits of v,
   MSB first *)
Fixpoint bits_of_val (n : nat) (v : N) : bits :=
  match n with
  | O => []
  | S k => N.testbit v (N.of_nat k) :: bits_of_val k v
  end.

Fixpoint bytes_of_bits (l : bits) : bytes :=
  match l with
  | b7 :: b6 :: b5 :: b4 :: b3 :: b2 :: b1 :: b0 :: t =>
    bits_val [b7; b6; b5; b4; b3; b2; b1; b0] :: bytes_of_bits t
  | [] => []
  | rest => [bits_val (rest ++ repeat false (8 - length rest))]
  end.
