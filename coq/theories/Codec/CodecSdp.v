(* lal pkg/sdp: Pack (pack.go), ParseSdp2RawContext and the line parsers
   (parse_raw.go), ParseSdp2LogicContext (parse_logic.go), ParseAsc /
   ParseSpsPps / ParseVpsSpsPps (avconfig.go).  base64.StdEncoding and
   encoding/hex are external code: Section variables (function parameters of
   the closed definitions).  None of the anchored functions indexes or slices
   without a preceding length check, so the model has no panic site.
   No proofs here. *)
From Coq Require Import Strings.String.
From Lal Require Export Codec.CodecSdpText.
Open Scope N_scope.

Definition err_sdp : N := 6.       (* base.ErrSdp *)
Definition err_other : N := 7.     (* *strconv.NumError, fmt.Errorf *)

(* base.AvPacketPt *)
Definition pt_unknown : Z := (-1)%Z.
Definition pt_g711u : Z := 0%Z.
Definition pt_g711a : Z := 8%Z.
Definition pt_mp2 : Z := 14%Z.
Definition pt_avc : Z := 96%Z.
Definition pt_aac : Z := 97%Z.
Definition pt_hevc : Z := 98%Z.
Definition pt_opus : Z := 101%Z.

(* text constants *)
Definition k_m : bytes := Eval compute in s2b "m=".
Definition k_a : bytes := Eval compute in s2b "a=".
Definition k_rtpmap : bytes := Eval compute in s2b "a=rtpmap".
Definition k_fmtp : bytes := Eval compute in s2b "a=fmtp".
Definition k_control : bytes := Eval compute in s2b "a=control".
Definition k_control_colon : bytes := Eval compute in s2b "a=control:".
Definition k_audio : bytes := Eval compute in s2b "audio".
Definition k_video : bytes := Eval compute in s2b "video".
Definition k_h264 : bytes := Eval compute in s2b "H264".
Definition k_h265 : bytes := Eval compute in s2b "H265".
Definition k_aac : bytes := Eval compute in s2b "MPEG4-GENERIC".
Definition k_pcma : bytes := Eval compute in s2b "PCMA".
Definition k_pcmu : bytes := Eval compute in s2b "PCMU".
Definition k_opus : bytes := Eval compute in s2b "opus".
Definition k_config : bytes := Eval compute in s2b "config".
Definition k_sprop : bytes := Eval compute in s2b "sprop-parameter-sets".
Definition k_sprop_vps : bytes := Eval compute in s2b "sprop-vps".
Definition k_sprop_sps : bytes := Eval compute in s2b "sprop-sps".
Definition k_sprop_pps : bytes := Eval compute in s2b "sprop-pps".
Definition k_rtsp : bytes := Eval compute in s2b "rtsp://".

(* ---- RawContext ---- *)
Record m_line := { m_media : bytes; m_pt : Z }.
Record rtpmap := { rm_pt : Z; rm_name : bytes; rm_rate : Z; rm_params : bytes }.
Record fmtp := { fp_format : Z; fp_params : list (bytes * bytes) }.
Record media_desc := { md_m : m_line; md_rtpmap : rtpmap; md_fmtp : option fmtp; md_control : bytes }.

Definition rtpmap_zero : rtpmap := {| rm_pt := 0; rm_name := []; rm_rate := 0; rm_params := [] |}.

(* ParseM: the error of Atoi is dropped, its value kept *)
Definition parse_m (s : bytes) : res m_line :=
  match split1 32 (trim_prefix k_m s) with
  | [] => Err err_sdp
  | media :: rest =>
    Ok {| m_media := media;
          m_pt := match rest with _ :: _ :: p :: _ => fst (atoi p) | _ => 0%Z end |}
  end.

Definition parse_a_rtpmap (s : bytes) : res rtpmap :=
  match break1 58 s with
  | (_, None) => Err err_sdp
  | (_, Some r) =>
    match break1 32 r with
    | (_, None) => Err err_sdp
    | (p, Some r2) =>
      let (pt, e) := atoi p in
      if negb (e =? 0) then Err err_other
      else match break1 47 r2 with
           | (_, None) => Err err_sdp
           | (name, Some r3) =>
             let (ratetxt, params) := match break1 47 r3 with
                                      | (x, None) => (x, [])
                                      | (x, Some y) => (x, y)
                                      end in
             let (rate, e2) := atoi ratetxt in
             if negb (e2 =? 0) then Err err_other
             else Ok {| rm_pt := pt; rm_name := name; rm_rate := rate; rm_params := params |}
           end
    end
  end.

Fixpoint fmtp_params (items : list bytes) (m : list (bytes * bytes)) : res (list (bytes * bytes)) :=
  match items with
  | [] => Ok m
  | pp :: rest =>
    match break1 61 (trim_space pp) with
    | (_, None) => Err err_sdp
    | (k, Some v) => fmtp_params rest (map_set k v m)
    end
  end.

Definition parse_a_fmtp (s : bytes) : res fmtp :=
  match break1 58 s with
  | (_, None) => Err err_sdp
  | (_, Some r) =>
    match break1 32 r with
    | (_, None) => Err err_sdp
    | (p, Some r2) =>
      let (fmt, e) := atoi p in
      if negb (e =? 0) then Err err_other
      else let* m := fmtp_params (split1 59 (trim_right_c 59 (trim_left_c 59 r2))) [] in
           Ok {| fp_format := fmt; fp_params := m |}
    end
  end.

Definition parse_a_control (s : bytes) : res bytes :=
  if has_prefix k_control_colon s then Ok (trim_prefix k_control_colon s) else Err err_sdp.

(* parseSdp2RawContext: acc = MediaDescList so far, md = the description being
   filled.  The four prefix tests are independent `if`s in the Go code. *)
Definition upd_md (md : option media_desc) (f : media_desc -> media_desc) : option media_desc :=
  match md with Some d => Some (f d) | None => None end.

Fixpoint raw_loop (lines : list bytes) (acc : list media_desc) (md : option media_desc)
  : res (list media_desc) :=
  match lines with
  | [] => Ok (acc ++ match md with Some d => [d] | None => [] end)
  | line :: rest =>
    let* (acc1, md1) :=
       (if has_prefix k_m line then
          let* m := parse_m line in
          Ok (acc ++ match md with Some d => [d] | None => [] end,
              Some {| md_m := m; md_rtpmap := rtpmap_zero; md_fmtp := None; md_control := [] |})
        else Ok (acc, md)) in
    let* md2 :=
       (if has_prefix k_rtpmap line then
          let* r := parse_a_rtpmap line in
          Ok (upd_md md1 (fun d => {| md_m := md_m d; md_rtpmap := r; md_fmtp := md_fmtp d; md_control := md_control d |}))
        else Ok md1) in
    let* md3 :=
       (if has_prefix k_fmtp line then
          let* f := parse_a_fmtp line in
          Ok (upd_md md2 (fun d => {| md_m := md_m d; md_rtpmap := md_rtpmap d; md_fmtp := Some f; md_control := md_control d |}))
        else Ok md2) in
    let* md4 :=
       (if has_prefix k_control line then
          let* c := parse_a_control line in
          Ok (upd_md md3 (fun d => {| md_m := md_m d; md_rtpmap := md_rtpmap d; md_fmtp := md_fmtp d; md_control := c |}))
        else Ok md3) in
    raw_loop rest acc1 md4
  end.

(* the second pass of ParseSdp2RawContext: lines after an a=fmtp line that
   start with neither "m=" nor "a=" are glued to it (cur = line being glued) *)
Fixpoint rescue (cur : option bytes) (lines : list bytes) : list bytes :=
  match lines with
  | [] => match cur with Some c => [c] | None => [] end
  | l :: rest =>
    match cur with
    | Some c => if negb (has_prefix k_m l) && negb (has_prefix k_a l)
                then rescue (Some (c ++ l)) rest
                else if has_prefix k_fmtp l then c :: rescue (Some l) rest
                else c :: l :: rescue None rest
    | None => if has_prefix k_fmtp l then rescue (Some l) rest else l :: rescue None rest
    end
  end.

Definition parse_sdp_raw (b : bytes) : res (list media_desc) :=
  let lines := split_crlf b in
  match raw_loop lines [] None with
  | Ok c => Ok c
  | _ => raw_loop (rescue None lines) [] None
  end.

(* ---- LogicContext: per track every field is assigned by each media
   description of that kind, the parameter sets only by some ---- *)
Record track := { tk_has : bool; tk_rate : Z; tk_base : Z; tk_orig : Z; tk_ctl : bytes }.
Record logic_ctx := { lc_raw : bytes; lc_audio : track; lc_video : track;
                      lc_asc : option bytes; lc_vps : option bytes;
                      lc_sps : option bytes; lc_pps : option bytes }.
Definition track_zero : track := {| tk_has := false; tk_rate := 0; tk_base := pt_unknown; tk_orig := 0; tk_ctl := [] |}.

Definition make_setup_uri (uri ctl : bytes) : bytes :=
  if has_prefix k_rtsp ctl then ctl else uri ++ [47] ++ ctl.

(* ---- Pack ---- *)
Record video_info := { vi_pt : Z; vi_vps : option bytes; vi_sps : option bytes; vi_pps : option bytes }.
Record audio_info := { ai_pt : Z; ai_rate : Z; ai_asc : option bytes }.

Definition t_m_video : bytes := Eval compute in s2b "m=video 0 RTP/AVP ".
Definition t_m_audio : bytes := Eval compute in s2b "m=audio 0 RTP/AVP ".
Definition t_rtpmap_h264 : bytes := Eval compute in s2b "a=rtpmap:96 H264/90000".
Definition t_rtpmap_h265 : bytes := Eval compute in s2b "a=rtpmap:98 H265/90000".
Definition t_fmtp_avc_1 : bytes := Eval compute in s2b "a=fmtp:96 packetization-mode=1; sprop-parameter-sets=".
Definition t_fmtp_avc_2 : bytes := Eval compute in s2b "; profile-level-id=640016".
Definition t_fmtp_hevc_1 : bytes := Eval compute in s2b "a=fmtp:98 profile-id=1;sprop-sps=".
Definition t_fmtp_hevc_2 : bytes := Eval compute in s2b ";sprop-pps=".
Definition t_fmtp_hevc_3 : bytes := Eval compute in s2b ";sprop-vps=".
Definition t_control : bytes := Eval compute in s2b "a=control:streamid=".
Definition t_b_as : bytes := Eval compute in s2b "b=AS:128".
Definition t_rtpmap : bytes := Eval compute in s2b "a=rtpmap:".
Definition t_fmtp : bytes := Eval compute in s2b "a=fmtp:".
Definition t_aac_1 : bytes := Eval compute in s2b " MPEG4-GENERIC/".
Definition t_aac_2 : bytes := Eval compute in s2b "/2".
Definition t_fmtp_aac : bytes := Eval compute in s2b " profile-level-id=1;mode=AAC-hbr;sizelength=13;indexlength=3;indexdeltalength=3; config=".
Definition t_pcma : bytes := Eval compute in s2b " PCMA/".
Definition t_pcmu : bytes := Eval compute in s2b " PCMU/".
Definition t_opus : bytes := Eval compute in s2b " opus/48000/2".
Definition t_header : list bytes := Eval compute in
  map s2b ["v=0"; "o=- 0 0 IN IP4 127.0.0.1"; "s=No Name"; "c=IN IP4 127.0.0.1"; "t=0 0"]%string.
Definition t_tool : bytes := Eval compute in s2b "a=tool:".


Section Codecs.
  (* encoding/base64 StdEncoding and encoding/hex: DecodeString returns the
     bytes decoded before the first error together with the error *)
  Variable b64_dec hex_dec : bytes -> bytes * bool.
  Variable b64_enc hex_enc : bytes -> bytes.

  (* ParseAsc: nil on a missing / short / odd-length config, else whatever
     hex.DecodeString returned (the error is only logged) *)
  Definition parse_asc (f : fmtp) : option bytes :=
    match map_get k_config (fp_params f) with
    | None => None
    | Some v => if (lenN v <? 4) || negb (lenN v mod 2 =? 0) then None
                else Some (fst (hex_dec v))
    end.

  Definition parse_sps_pps (f : fmtp) : option bytes * option bytes :=
    match map_get k_sprop (fp_params f) with
    | None => (None, None)
    | Some v =>
      match break1 44 v with
      | (_, None) => (None, None)
      | (a, Some b) =>
        let (sps, ok) := b64_dec a in
        if ok then (Some sps, Some (fst (b64_dec b))) else (None, None)
      end
    end.

  Definition dec_param (k : bytes) (f : fmtp) : option bytes :=
    match map_get k (fp_params f) with
    | None => None
    | Some v => let (x, ok) := b64_dec v in if ok then Some x else None
    end.
  Definition parse_vps_sps_pps (f : fmtp) : option bytes * option bytes * option bytes :=
    match dec_param k_sprop_vps f with
    | None => (None, None, None)
    | Some vps =>
      match dec_param k_sprop_sps f with
      | None => (None, None, None)
      | Some sps =>
        match dec_param k_sprop_pps f with
        | None => (None, None, None)
        | Some pps => (Some vps, Some sps, Some pps)
        end
      end
    end.

  Definition audio_track (md : media_desc) : track :=
    let r := md_rtpmap md in
    let t b := {| tk_has := true; tk_rate := rm_rate r; tk_base := b; tk_orig := rm_pt r; tk_ctl := md_control md |} in
    let s b := {| tk_has := true; tk_rate := if (rm_rate r =? 0)%Z then 8000%Z else rm_rate r;
                  tk_base := b; tk_orig := b; tk_ctl := md_control md |} in
    if equal_fold (rm_name r) k_aac then t pt_aac
    else if equal_fold (rm_name r) k_pcma then t pt_g711a
    else if equal_fold (rm_name r) k_pcmu then t pt_g711u
    else if equal_fold (rm_name r) k_opus then t pt_opus
    else if (m_pt (md_m md) =? pt_g711u)%Z then s pt_g711u
    else if (m_pt (md_m md) =? pt_g711a)%Z then s pt_g711a
    else if (m_pt (md_m md) =? pt_mp2)%Z then s pt_mp2
    else t pt_unknown.

  Definition video_track (md : media_desc) : track :=
    let r := md_rtpmap md in
    {| tk_has := true; tk_rate := rm_rate r;
       tk_base := if beqb (rm_name r) k_h264 then pt_avc
                  else if beqb (rm_name r) k_h265 then pt_hevc else pt_unknown;
       tk_orig := rm_pt r; tk_ctl := md_control md |}.

  Definition logic_step (c : logic_ctx) (md : media_desc) : logic_ctx :=
    if beqb (m_media (md_m md)) k_audio then
      {| lc_raw := lc_raw c; lc_audio := audio_track md; lc_video := lc_video c;
         lc_asc := if equal_fold (rm_name (md_rtpmap md)) k_aac
                   then match md_fmtp md with Some f => parse_asc f | None => lc_asc c end
                   else lc_asc c;
         lc_vps := lc_vps c; lc_sps := lc_sps c; lc_pps := lc_pps c |}
    else if beqb (m_media (md_m md)) k_video then
      let name := rm_name (md_rtpmap md) in
      match md_fmtp md with
      | Some f =>
        if beqb name k_h264 then
          {| lc_raw := lc_raw c; lc_audio := lc_audio c; lc_video := video_track md;
             lc_asc := lc_asc c; lc_vps := lc_vps c;
             lc_sps := fst (parse_sps_pps f); lc_pps := snd (parse_sps_pps f) |}
        else if beqb name k_h265 then
          {| lc_raw := lc_raw c; lc_audio := lc_audio c; lc_video := video_track md;
             lc_asc := lc_asc c; lc_vps := fst (fst (parse_vps_sps_pps f));
             lc_sps := snd (fst (parse_vps_sps_pps f)); lc_pps := snd (parse_vps_sps_pps f) |}
        else
          {| lc_raw := lc_raw c; lc_audio := lc_audio c; lc_video := video_track md;
             lc_asc := lc_asc c; lc_vps := lc_vps c; lc_sps := lc_sps c; lc_pps := lc_pps c |}
      | None =>
        {| lc_raw := lc_raw c; lc_audio := lc_audio c; lc_video := video_track md;
           lc_asc := lc_asc c; lc_vps := lc_vps c; lc_sps := lc_sps c; lc_pps := lc_pps c |}
      end
    else c.

  (* both payload type bases start as AvPacketPtUnknown (lal fix efdbfb7; the
     zero value of AvPacketPt is G711U) *)
  Definition logic_zero (b : bytes) : logic_ctx :=
    {| lc_raw := b; lc_audio := track_zero; lc_video := track_zero;
       lc_asc := None; lc_vps := None; lc_sps := None; lc_pps := None |}.

  (* ParseSdp2LogicContext *)
  Definition parse_sdp_logic (b : bytes) : res logic_ctx :=
    let* mds := parse_sdp_raw b in
    Ok (fold_left logic_step mds (logic_zero b)).

  (* ---- Pack ---- *)
  (* the templates as lists of lines; every template line ends in "\n" *)
  Definition video_lines (v : video_info) (streamid : Z) : list bytes :=
    if (vi_pt v =? pt_avc)%Z then
      match vi_sps v, vi_pps v with
      | Some sps, Some pps =>
        [t_m_video ++ fmt_d pt_avc;
         t_rtpmap_h264;
         t_fmtp_avc_1 ++ b64_enc sps ++ [44] ++ b64_enc pps ++ t_fmtp_avc_2;
         t_control ++ fmt_d streamid]
      | _, _ => []
      end
    else if (vi_pt v =? pt_hevc)%Z then
      match vi_sps v, vi_pps v, vi_vps v with
      | Some sps, Some pps, Some vps =>
        [t_m_video ++ fmt_d pt_hevc;
         t_rtpmap_h265;
         t_fmtp_hevc_1 ++ b64_enc sps ++ t_fmtp_hevc_2 ++ b64_enc pps ++ t_fmtp_hevc_3 ++ b64_enc vps;
         t_control ++ fmt_d streamid]
      | _, _, _ => []
      end
    else [].

  Definition audio_lines (a : audio_info) (streamid : Z) : list bytes :=
    if (ai_pt a =? pt_aac)%Z then
      match ai_asc a with
      | Some asc =>
        [t_m_audio ++ fmt_d pt_aac;
         t_b_as;
         t_rtpmap ++ fmt_d pt_aac ++ t_aac_1 ++ fmt_d (ai_rate a) ++ t_aac_2;
         t_fmtp ++ fmt_d pt_aac ++ t_fmtp_aac ++ hex_enc asc;
         t_control ++ fmt_d streamid]
      | None => []
      end
    else if (ai_pt a =? pt_g711a)%Z then
      [t_m_audio ++ fmt_d pt_g711a;
       t_rtpmap ++ fmt_d pt_g711a ++ t_pcma ++ fmt_d (ai_rate a);
       t_control ++ fmt_d streamid]
    else if (ai_pt a =? pt_g711u)%Z then
      [t_m_audio ++ fmt_d pt_g711u;
       t_rtpmap ++ fmt_d pt_g711u ++ t_pcmu ++ fmt_d (ai_rate a);
       t_control ++ fmt_d streamid]
    else if (ai_pt a =? pt_opus)%Z then
      [t_m_audio ++ fmt_d pt_opus;
       t_rtpmap ++ fmt_d pt_opus ++ t_opus;
       t_control ++ fmt_d streamid]
    else [].

  Definition join_nl (lines : list bytes) : bytes := concat (map (fun l => l ++ [10]) lines).

  (* the lines of the text Pack builds, None when it refuses *)
  Definition pack_lines (tool : bytes) (v : video_info) (a : audio_info) : option (list bytes) :=
    let vl := video_lines v 0 in
    let al := audio_lines a (match vl with [] => 0%Z | _ => 1%Z end) in
    match vl, al with
    | [], [] => None
    | _, _ => Some (t_header ++ [t_tool ++ tool] ++ vl ++ al)
    end.

  Definition sdp_pack_text (tool : bytes) (v : video_info) (a : audio_info) : option bytes :=
    match pack_lines tool v a with
    | Some ls => Some (replace_nl (join_nl ls))
    | None => None
    end.

  (* Pack: tool = base.LalPackSdp *)
  Definition sdp_pack (tool : bytes) (v : video_info) (a : audio_info) : res logic_ctx :=
    match sdp_pack_text tool v a with
    | Some raw => parse_sdp_logic raw
    | None => Err err_other
    end.
End Codecs.
