(* F-13 repair: lal hands nazabits the RBSP copy with one zero byte appended.
   Reader invariant: the LAST remaining bit is 0 (or nothing remains).  It holds
   for a buffer that ends with a zero byte, every read keeps it (the remaining
   bits are always a suffix), and under it the zero-width read that finishes a
   ue(v) code word of value 0 never sits at the end of the buffer: the code
   word's 1 bit is not the last bit, so at least one bit - hence one byte of
   core[] - is behind the reader position.  Consequences: avc.ParseSps and
   hevc.ParseSps (padded) never panic and never run out of fuel. *)
From Lal Require Import Common.LBytes Common.Res Codec.CodecBits Codec.CodecRdM Codec.CodecSpsAvc Codec.CodecSpsHevc.
From Coq Require Import Lia ZifyN ZifyNat ZifyBool.
Open Scope N_scope.

Definition tail0 (l : bits) : Prop := last l false = false.

Lemma last_cons_ne {A} (x : A) t d : t <> [] -> last (x :: t) d = last t d.
Proof. destruct t; [congruence|reflexivity]. Qed.

Lemma tail0_cons b t : tail0 (b :: t) -> tail0 t.
Proof. unfold tail0. destruct t; [reflexivity|]. rewrite last_cons_ne by discriminate. exact (fun H => H). Qed.

(* a 1 bit is never the last bit *)
Lemma tail0_true t : tail0 (true :: t) -> t <> [].
Proof. unfold tail0. destruct t; [cbn; discriminate|discriminate]. Qed.

Lemma bits_of_bytes_app a b : bits_of_bytes (a ++ b) = bits_of_bytes a ++ bits_of_bytes b.
Proof. induction a as [|x a IH]; cbn [app bits_of_bytes]; [reflexivity|]. now rewrite IH, app_assoc. Qed.

(* the padded buffer satisfies the invariant *)
Lemma tail0_padded l : tail0 (bits_of_bytes (l ++ [0])).
Proof.
  unfold tail0. rewrite bits_of_bytes_app.
  replace (bits_of_bytes [0]) with ([false; false; false; false; false; false; false] ++ [false]) by reflexivity.
  rewrite app_assoc, last_last. reflexivity.
Qed.

Lemma bits_split_suffix n : forall l a r, bits_split n l = Some (a, r) ->
  (tail0 l -> tail0 r) /\ (length r + n = length l)%nat.
Proof.
  induction n as [|k IH]; intros l a r H; cbn [bits_split] in H.
  - inversion H; subst. split; [exact (fun x => x)|lia].
  - destruct l as [|b t]; [discriminate|]. destruct (bits_split k t) as [[a' r']|] eqn:E; [|discriminate].
    inversion H; subst. destruct (IH t a' r E) as [H1 H2]. split.
    + intro Ht. apply H1. exact (tail0_cons b t Ht).
    + cbn [length]. lia.
Qed.

(* what a reader call may do to a state that satisfies the invariant *)
Definition rgood {A} (s : bitrd) (r : rd A) : Prop :=
  match r with
  | Ok (o, s') => tail0 (br_rem s') /\ (length (br_rem s') <= length (br_rem s))%nat /\
                  (o <> None -> (length (br_rem s') < length (br_rem s))%nat)
  | _ => False
  end.

(* ReadBits8/16/32/64 with a positive width: inside the buffer or an error, never a panic *)
Lemma read_bits_good w n s : (0 < n)%nat -> tail0 (br_rem s) -> rgood s (read_bits w n s).
Proof.
  intros Hn Ht. unfold read_bits. destruct (br_err s).
  { cbn. split; [exact Ht|]. split; [lia|congruence]. }
  destruct (bits_split n (br_rem s)) as [[a r]|] eqn:E.
  - destruct (bits_split_suffix n _ _ _ E) as [H1 H2]. destruct n; [lia|].
    cbn [rgood br_rem]. split; [exact (H1 Ht)|]. split; lia.
  - cbn. split; [exact Ht|]. split; [lia|congruence].
Qed.

Lemma ue_zeros_good l : forall k n r, ue_zeros l k = Some (n, r) -> tail0 l ->
  r <> [] /\ tail0 r /\ (length r < length l)%nat.
Proof.
  induction l as [|b t IH]; intros k n r H Ht; cbn [ue_zeros] in H; [discriminate|].
  destruct b.
  - inversion H; subst. split; [exact (tail0_true r Ht)|]. split; [exact (tail0_cons true r Ht)|cbn; lia].
  - destruct (IH (S k) n r H (tail0_cons false t Ht)) as (H1 & H2 & H3). repeat split; try assumption. cbn [length]. lia.
Qed.

(* ReadUeGolomb: the zero-width read of a value-0 code word has at least one bit behind it *)
Lemma read_ue_good s : tail0 (br_rem s) -> rgood s (read_ue s).
Proof.
  intro Ht. unfold read_ue. destruct (br_err s) eqn:Eerr.
  { cbn. split; [exact Ht|]. split; [lia|congruence]. }
  destruct (ue_zeros (br_rem s) 0) as [[n r]|] eqn:E.
  2:{ cbn. split; [exact Ht|]. split; [lia|congruence]. }
  destruct (ue_zeros_good _ _ _ _ E Ht) as (Hne & Htr & Hlen).
  unfold read_bits. cbn [br_err br_rem].
  destruct (bits_split n r) as [[a r2]|] eqn:E2.
  - destruct (bits_split_suffix n _ _ _ E2) as [H1 H2]. destruct n.
    + (* zero-width read: r is not empty *)
      destruct r as [|b t]; [congruence|]. cbn [rgood br_rem]. split; [exact Htr|]. split; [lia|]. intros _. lia.
    + cbn [rgood br_rem]. split; [exact (H1 Htr)|]. split; lia.
  - cbn [rgood br_rem br_fail]. split; [exact Htr|]. split; [lia|congruence].
Qed.

Lemma read_se_good s : tail0 (br_rem s) -> rgood s (read_se s).
Proof.
  intro Ht. unfold read_se. pose proof (read_ue_good s Ht) as H.
  destruct (read_ue s) as [[[v|] s']| |]; cbn [rgood] in *; try contradiction.
  - destruct H as (H1 & H2 & H3). split; [exact H1|]. split; [exact H2|]. intros _. apply H3. congruence.
  - destruct H as (H1 & H2 & H3). split; [exact H1|]. split; [exact H2|congruence].
Qed.

(* ---- the parser monad ----------------------------------------------------------- *)
Definition ginv (st : gst) : Prop := tail0 (br_rem (fst st)).
Definition glen (st : gst) : nat := length (br_rem (fst st)).
Definition ggood {A} (st : gst) (r : res (option A * gst)) : Prop :=
  match r with
  | Ok (_, st') => ginv st' /\ (glen st' <= glen st)%nat
  | _ => False
  end.
Definition safe {A} (m : gm A) : Prop := forall st, ginv st -> ggood st (m st).

Lemma safe_ret {A} (a : A) : safe (g_ret a).
Proof. intros st H. cbn. split; [exact H|lia]. Qed.
Lemma safe_stop {A} : safe (@g_stop A).
Proof. intros st H. cbn. split; [exact H|lia]. Qed.
Lemma safe_set f v : safe (g_set f v).
Proof. intros st H. unfold g_set, ggood, ginv, glen in *. cbn [fst]. split; [exact H|lia]. Qed.
Lemma safe_get f : safe (g_get f).
Proof. intros st H. cbn. split; [exact H|lia]. Qed.
Lemma safe_check_err : safe g_check_err.
Proof. intros st H. unfold g_check_err. destruct (br_err (fst st)); cbn; (split; [exact H|lia]). Qed.

Lemma safe_bind {A B} (m : gm A) (k : A -> gm B) : safe m -> (forall a, safe (k a)) -> safe (g_bind m k).
Proof.
  intros Hm Hk st H. unfold g_bind. specialize (Hm st H).
  destruct (m st) as [[[a|] st']| |]; cbn [ggood] in Hm; try contradiction.
  - destruct Hm as [H1 H2]. specialize (Hk a st' H1). destruct (k a st') as [[o st'']| |]; cbn [ggood] in *; try contradiction.
    destruct Hk as [H3 H4]. split; [exact H3|lia].
  - exact Hm.
Qed.

Lemma safe_read {A} (r : bitrd -> rd A) : (forall s, tail0 (br_rem s) -> rgood s (r s)) -> safe (g_read r).
Proof.
  intros Hr st H. unfold g_read. specialize (Hr (fst st) H).
  destruct (r (fst st)) as [[[v|] s']| |]; cbn [rgood] in Hr; try contradiction; cbn; destruct Hr as (H1 & H2 & _); split; assumption.
Qed.
Lemma safe_read_ign {A} (d : A) (r : bitrd -> rd A) : (forall s, tail0 (br_rem s) -> rgood s (r s)) -> safe (g_read_ign d r).
Proof.
  intros Hr st H. unfold g_read_ign. specialize (Hr (fst st) H).
  destruct (r (fst st)) as [[[v|] s']| |]; cbn [rgood] in Hr; try contradiction; cbn; destruct Hr as (H1 & H2 & _); split; assumption.
Qed.

Lemma safe_bits8 n : (0 < n)%nat -> safe (g_bits8 n).
Proof. intro H. apply safe_read. intros s Hs. now apply read_bits_good. Qed.
Lemma safe_bits16 n : (0 < n)%nat -> safe (g_bits16 n).
Proof. intro H. apply safe_read. intros s Hs. now apply read_bits_good. Qed.
Lemma safe_bits32 n : (0 < n)%nat -> safe (g_bits32 n).
Proof. intro H. apply safe_read. intros s Hs. now apply read_bits_good. Qed.
Lemma safe_bits64 n : (0 < n)%nat -> safe (g_bits64 n).
Proof. intro H. apply safe_read. intros s Hs. now apply read_bits_good. Qed.
Lemma safe_bit : safe g_bit.
Proof. apply safe_read. intros s Hs. unfold read_bit. apply read_bits_good; [lia|exact Hs]. Qed.
Lemma safe_ue : safe g_ue.
Proof. apply safe_read. exact read_ue_good. Qed.
Lemma safe_se : safe g_se.
Proof. apply safe_read. exact read_se_good. Qed.

Ltac safe_step :=
  first [ apply safe_bind; [|intro]
        | apply safe_ret | apply safe_stop | apply safe_set | apply safe_get | apply safe_check_err
        | apply safe_ue | apply safe_se | apply safe_bit
        | apply safe_bits8; lia | apply safe_bits16; lia | apply safe_bits32; lia | apply safe_bits64; lia
        | apply safe_read_ign; [intros ? ?; first [apply read_ue_good; assumption | apply read_se_good; assumption | apply read_bits_good; [lia|assumption]]]
        | match goal with
          | |- safe (if ?c then _ else _) => destruct c
          | |- safe (match ?x with _ => _ end) => destruct x
          | |- safe (let '(_, _) := ?x in _) => destruct x
          end ].
Ltac safe_auto := repeat safe_step.

(* ---- avc ---------------------------------------------------------------------- *)
Lemma safe_scaling_list j : forall last next, safe (scaling_list j last next).
Proof. induction j as [|j IH]; intros last next; cbn [scaling_list]; [apply safe_ret|]. destruct (next =? 0)%Z; [apply IH|]. apply safe_bind; [apply safe_se|intro; apply IH]. Qed.

Lemma safe_scaling_lists cnt : forall i, safe (scaling_lists cnt i).
Proof.
  induction cnt as [|c IH]; intro i; cbn [scaling_lists]; [apply safe_ret|].
  apply safe_bind; [apply safe_bits8; lia|intro flag]. destruct (flag =? 0); [apply IH|].
  apply safe_bind; [apply safe_scaling_list|intro; apply IH].
Qed.

(* the offset_for_ref_frame loop: fuel = remaining bits + 1 is enough, every successful
   se(v) consumes at least one bit *)
Lemma skip_se_good f : forall cnt st, ginv st -> (glen st < f)%nat -> ggood st (skip_se f cnt st).
Proof.
  induction f as [|f IH]; intros cnt st Hi Hl; [lia|]. cbn [skip_se].
  destruct (cnt =? 0); [cbn; split; [exact Hi|lia]|].
  unfold g_bind, g_se, g_read. pose proof (read_se_good (fst st) Hi) as Hr.
  destruct (read_se (fst st)) as [[[v|] s']| |]; cbn [rgood] in Hr; try contradiction.
  - destruct Hr as (H1 & H2 & H3). specialize (H3 ltac:(congruence)).
    specialize (IH (cnt - 1) (s', snd st) H1). unfold glen in *. cbn [fst] in *. specialize (IH ltac:(lia)).
    destruct (skip_se f (cnt - 1) (s', snd st)) as [[o st'']| |]; cbn [ggood] in *; try contradiction.
    destruct IH as [H4 H5]. split; [exact H4|]. unfold glen in *. cbn [fst] in *. lia.
  - destruct Hr as (H1 & H2 & _). cbn. split; [exact H1|exact H2].
Qed.

Lemma safe_gamma_chroma p : safe (gamma_chroma_part p).
Proof. unfold gamma_chroma_part. safe_auto; apply safe_scaling_lists. Qed.

Lemma safe_gamma_poc : safe gamma_poc_part.
Proof.
  unfold gamma_poc_part. safe_auto.
  intros st Hi. apply skip_se_good; [exact Hi|unfold glen; lia].
Qed.

Lemma safe_gamma_vui : safe gamma_vui_part.
Proof. unfold gamma_vui_part. safe_auto. Qed.

Lemma safe_sps_gamma p : safe (parse_sps_gamma p).
Proof.
  unfold parse_sps_gamma.
  apply safe_bind; [apply safe_gamma_chroma|intro].
  apply safe_bind; [apply safe_ue|intro]. apply safe_bind; [apply safe_set|intro].
  apply safe_bind; [apply safe_gamma_poc|intro].
  repeat (first [apply safe_bind; [first [apply safe_gamma_vui | safe_step]|intro] | safe_step]).
Qed.

Lemma safe_sps_basic : safe parse_sps_basic.
Proof. unfold parse_sps_basic. safe_auto. Qed.

(* avc.ParseSps after the repair: a value or an ordinary error *)
Theorem parse_sps_avc_total payload :
  (exists ctx, parse_sps_avc payload = Ok ctx) \/ (exists e, parse_sps_avc payload = Err e /\ e <> err_out_of_fuel).
Proof.
  unfold parse_sps_avc, parse_sps_avc_f, parse_sps_avc_raw.
  assert (Hi : ginv (br_new (nal2rbsp payload ++ [0]), [])) by (unfold ginv, br_new; cbn [fst br_rem]; apply tail0_padded).
  pose proof (safe_sps_basic _ Hi) as Hb.
  destruct (parse_sps_basic (br_new (nal2rbsp payload ++ [0]), [])) as [[[u|] st]| |]; cbn [ggood] in Hb; try contradiction.
  - destruct Hb as [Hi2 _]. pose proof (safe_sps_gamma (sps_get F_profile (snd st)) st Hi2) as Hg.
    destruct (parse_sps_gamma (sps_get F_profile (snd st)) st) as [[o st']| |]; cbn [ggood] in Hg; try contradiction.
    left. eexists. reflexivity.
  - right. eexists. split; [reflexivity|]. destruct (br_err (fst st)); discriminate.
Qed.

(* ---- hevc --------------------------------------------------------------------- *)
Lemma safe_ptl_flags cnt : safe (ptl_flags cnt).
Proof. induction cnt as [|c IH]; cbn [ptl_flags]; [apply safe_ret|]. safe_auto. exact IH. Qed.
Lemma safe_ptl_skip2 cnt : safe (ptl_skip2 cnt).
Proof. induction cnt as [|c IH]; cbn [ptl_skip2]; [apply safe_ret|]. apply safe_bind; [apply safe_bits8; lia|intro; exact IH]. Qed.
Lemma safe_ptl_sub fl : safe (ptl_sub fl).
Proof. induction fl as [|[p l] t IH]; cbn [ptl_sub]; [apply safe_ret|]. safe_auto; exact IH. Qed.
Lemma safe_update_ptl a b c d e f : safe (update_ptl a b c d e f).
Proof. unfold update_ptl. safe_auto. Qed.
Lemma safe_parse_ptl m : safe (parse_ptl m).
Proof.
  unfold parse_ptl.
  repeat (apply safe_bind; [first [apply safe_update_ptl | safe_step]|intro]).
  destruct (m =? 0); [apply safe_ret|].
  apply safe_bind; [apply safe_ptl_flags|intro]. apply safe_bind; [apply safe_ptl_skip2|intro]. apply safe_ptl_sub.
Qed.
Lemma safe_bump_ntl m : safe (bump_ntl m).
Proof. unfold bump_ntl. safe_auto. Qed.
Lemma safe_skip_ue cnt : safe (skip_ue cnt).
Proof. induction cnt as [|c IH]; cbn [skip_ue]; [apply safe_ret|]. apply safe_bind; [apply safe_ue|intro; exact IH]. Qed.

Lemma safe_sps_hevc_body : safe parse_sps_hevc_body.
Proof.
  unfold parse_sps_hevc_body.
  repeat (first [apply safe_bind; [first [apply safe_bump_ntl | apply safe_parse_ptl | apply safe_skip_ue | safe_step]|intro]
                | apply safe_skip_ue | safe_step]).
Qed.

(* hevc.ParseSps after the repair: a value or an ordinary error *)
Theorem hevc_parse_sps_total sps ctx :
  (exists c, hevc_parse_sps sps ctx = Ok c) \/ (exists e, hevc_parse_sps sps ctx = Err e /\ e <> err_out_of_fuel).
Proof.
  unfold hevc_parse_sps, hevc_parse_sps_f, hevc_run.
  destruct (lenN sps <? 2); [right; eexists; split; [reflexivity|discriminate]|].
  assert (Hi : ginv (br_new (nal2rbsp (skipn 2 sps) ++ [0]), ctx)) by (unfold ginv, br_new; cbn [fst br_rem]; apply tail0_padded).
  pose proof (safe_sps_hevc_body _ Hi) as Hb.
  destruct (parse_sps_hevc_body (br_new (nal2rbsp (skipn 2 sps) ++ [0]), ctx)) as [[[u|] st]| |]; cbn [ggood] in Hb; try contradiction.
  - left. eexists. reflexivity.
  - right. eexists. split; [reflexivity|discriminate].
Qed.
