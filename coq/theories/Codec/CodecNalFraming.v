(* lal pkg/avc/avc.go and pkg/h2645/h2645.go: NAL unit framing.
     IterateNaluStartCode, IterateNaluAnnexb (SplitNaluAnnexb), IterateNaluAvcc
     (SplitNaluAvcc), Avcc2Annexb, Annexb2Avcc, CaptureAvcc2Annexb, JoinNaluAvcc.
   An iterator is observed as (the list of handler calls, the returned error):
   IterateNaluAnnexb / IterateNaluAvcc call the handler AND return an error in
   some branches, so both are part of the result.  Only non-nil inputs are
   modelled (the harness never passes a nil slice).
   Slice expressions of the Go code: every one of the iterators is guarded
   (nals[pos:] with pos <= len, nals[pos:epos] with epos <= len, nals[start:pos]
   with start < pos <= len), so the iterators have no panic site; only
   CaptureAvcc2Annexb indexes unguarded.  No proofs here. *)
From Lal Require Export Common.LBytes Common.Res Codec.CodecBits Codec.CodecAvcSeqHeader.
Open Scope N_scope.

Definition site_capture_avcc : N := 2.

(* result of an iterator: handler calls in order, error (None = nil) *)
Definition framed := (list bytes * option N)%type.

(* ---------------------------------------------------------------- start codes
   The scanning loop of IterateNaluStartCode, from a position where [zs] zero
   bytes have just been seen (Go: count).  A start code is a 01 byte preceded by
   at least two 00 bytes; ALL the zero bytes directly in front of the 01 belong
   to it (pos = i - count, length = count + 1).
   Result: (the bytes in front of the start code, counted from where the [zs]
   pending zeros began; the start code length; the bytes after the start code). *)
Fixpoint next_sc (zs : nat) (l : bytes) : option (bytes * nat * bytes) :=
  match l with
  | [] => None
  | b :: t =>
    if b =? 0 then next_sc (S zs) t
    else if (b =? 1) && (Nat.leb 2 zs) then Some ([], S zs, t)
    else match next_sc 0 t with
         | Some (pre, n, r) => Some (repeat 0 zs ++ b :: pre, n, r)
         | None => None
         end
  end.

(* IterateNaluStartCode(nalu, start) for start >= 0: None is (-1, -1) *)
Definition iterate_nalu_start_code (nalu : bytes) (start : N) : option (N * N) :=
  if lenN nalu <=? start then None
  else match next_sc 0 (skipn (N.to_nat start) nalu) with
       | Some (pre, n, _) => Some (start + lenN pre, N.of_nat n)
       | None => None
       end.

(* trailing zero bytes removed (the loop added by the c19_annexb_trailing_zeros fix) *)
Fixpoint trim_zeros (l : bytes) : bytes :=
  match l with
  | [] => []
  | b :: t => match trim_zeros t with
              | [] => if b =? 0 then [] else [b]
              | t' => b :: t'
              end
  end.

(* ---------------------------------------------------------------- Annex B
   The for loop of IterateNaluAnnexb; [rest] = nals[start:].  [trim] = false is
   the pinned tree (the last unit is nals[start:], trailing_zero_8bits
   included); [trim] = true is the code after the fix (trailing zero bytes of
   the last unit are dropped; nothing left = the empty-unit error).
   Each round consumes at least the 3 bytes of a start code: fuel = length. *)
Fixpoint annexb_loop (trim : bool) (fuel : nat) (rest : bytes) : framed :=
  match fuel with
  | O => ([], Some err_out_of_fuel)
  | S f =>
    match next_sc 0 rest with
    | None =>
      match (if trim then trim_zeros rest else rest) with
      | [] => ([], Some err_avc)
      | last => ([last], None)
      end
    | Some (pre, _, r) =>
      match pre with
      | [] => ([], Some err_avc)
      | _ => let (us, e) := annexb_loop trim f r in (pre :: us, e)
      end
    end
  end.

Definition iterate_nalu_annexb_gen (trim : bool) (nals : bytes) : framed :=
  match next_sc 0 nals with
  | None => ([nals], Some err_avc)
  | Some (_, _, r) => annexb_loop trim (S (length nals)) r
  end.

Definition iterate_nalu_annexb := iterate_nalu_annexb_gen true.
(* the pinned tree, kept for the _refuted lemma *)
Definition iterate_nalu_annexb_pinned := iterate_nalu_annexb_gen false.

(* ---------------------------------------------------------------- AVCC
   The for loop of IterateNaluAvcc; [rest] = nals[pos:].  length is
   int(uint32): non-negative, compared in N against the remaining length
   before it is used as a count. *)
Fixpoint avcc_loop (fuel : nat) (rest : bytes) : framed :=
  match fuel with
  | O => ([], Some err_out_of_fuel)
  | S f =>
    match split_exact 4 rest with
    | None => ([], Some err_short)
    | Some (l4, r) =>
      let len := be_get l4 in
      match r with
      | [] => ([], Some err_short)
      | _ =>
        if len <? lenN r then
          if len =? 0 then avcc_loop f r
          else let (us, e) := avcc_loop f (skipn (N.to_nat len) r) in
               (firstn (N.to_nat len) r :: us, e)
        else if len =? lenN r then
          if len =? 0 then avcc_loop f r else ([r], None)
        else ([r], Some err_short)
      end
    end
  end.

Definition iterate_nalu_avcc (nals : bytes) : framed := avcc_loop (S (length nals)) nals.

(* ---------------------------------------------------------------- converters *)
Definition avcc_unit (u : bytes) : bytes := be_put 4 (lenN u) ++ u.

(* Avcc2Annexb: bytes and error are both returned *)
Definition avcc2annexb (nals : bytes) : bytes * option N :=
  let (us, e) := iterate_nalu_avcc nals in (annexb_join4 us, e).

(* Annexb2Avcc: uint32(len(nal)) big endian, then the unit *)
Definition annexb2avcc_gen (trim : bool) (nals : bytes) : bytes * option N :=
  let (us, e) := iterate_nalu_annexb_gen trim nals in (concat (map avcc_unit us), e).
Definition annexb2avcc := annexb2avcc_gen true.
Definition annexb2avcc_pinned := annexb2avcc_gen false.

(* h2645.JoinNaluAvcc (nil for no argument prints like the empty slice) *)
Definition join_nalu_avcc (us : list bytes) : bytes := concat (map avcc_unit us).

(* CaptureAvcc2Annexb: what is written to w.  payload[0], payload[1],
   payload[5:], BeUint32 of fewer than 4 bytes and payload[i:i+naluLen] are
   unguarded.  (The harness passes a slice with cap = len.) *)
Definition capture_avcc2annexb (p : bytes) : res bytes :=
  match p with
  | [] => Panic site_capture_avcc
  | b0 :: t =>
    let* is_seq :=
      (if b0 =? 23 then match t with
                        | [] => Panic site_capture_avcc
                        | b1 :: _ => Ok (b1 =? 0)
                        end
       else Ok false) in
    if (is_seq : bool) then avc_seq_header2annexb p
    else if lenN p =? 5 then Ok []
    else if lenN p <? 9 then Panic site_capture_avcc
    else
      let len := be_get (firstn 4 (skipn 5 p)) in
      match split_exactN len (skipn 9 p) with
      | None => Panic site_capture_avcc
      | Some (u, _) => Ok (start_code4 ++ u)
      end
  end.
