(* Independent reference for the RTMP chunk stream, written from the "Adobe
   RTMP Specification 1.0": 5.3.1 (chunk format: basic header, message header
   types 0-3, extended timestamp), 5.4.1 (Set Chunk Size) and 7.1.6 (aggregate
   message).  It does not mention lal's code or its model.

     ref_decode   : a conforming chunk stream reader
     enc_run      : a conforming chunk stream WRITER with every choice the
                    specification leaves open made explicit in a script
                    (per chunk: which chunk stream continues, which header
                    format starts a message, 2- or 3-byte basic header,
                    interleaving, Set Chunk Size at any point, aggregates).
                    "cs is a legal chunking of msgs" := some script produces
                    (cs, msgs).
   No proofs in this file. *)
From Lal Require Import Common.LBytes Common.LBytesRead Common.NAssoc.
Open Scope N_scope.

(* a message as the specification sees it; g_csid = chunk stream it travels on *)
Record smsg := mk_smsg { g_csid : N; g_type : N; g_msid : N; g_ts : N; g_payload : bytes }.

Definition be24 (a b c : N) : N := a * 65536 + b * 256 + c.
Definition be32 (a b c d : N) : N := a * 16777216 + b * 65536 + c * 256 + d.
Definition le32 (a b c d : N) : N := a + b * 256 + c * 65536 + d * 16777216.
Definition ts_escape : N := 16777215.   (* 0xFFFFFF in the 3-byte field announces the 4-byte field *)
Definition two32 : N := 4294967296.
Definition set_chunk_size_type : N := 1.
Definition aggregate_type : N := 22.

(* ------------------------------------------------------------------ 7.1.6 *)
(* aggregate body = sequence of  header(11) data back-pointer(4);  the
   aggregate's message stream id overrides the sub-messages'; sub timestamps
   are renormalised by (aggregate ts - first sub ts). *)
Fixpoint spec_split_agg (fuel : nat) (csid msid ts : N) (first : option N) (body : bytes)
  : option (list smsg) :=
  match body with
  | [] => Some []
  | ty :: l2 :: l1 :: l0 :: t2 :: t1 :: t0 :: te :: _ :: _ :: _ :: r =>
      match fuel with
      | O => None
      | S f =>
          let sublen := be24 l2 l1 l0 in
          let subts := te * 16777216 + be24 t2 t1 t0 in
          let first_ts := match first with Some x => x | None => subts end in
          match takeN r sublen with
          | None => None
          | Some (data, r1) =>
              match r1 with
              | _ :: _ :: _ :: _ :: r2 =>
                  match spec_split_agg f csid msid ts (Some first_ts) r2 with
                  | None => None
                  | Some ms => Some (mk_smsg csid ty msid ((ts + subts + two32 - first_ts) mod two32) data :: ms)
                  end
              | _ => None
              end
          end
      end
  | _ => None
  end.

(* what a receiver hands to the application for one completed message *)
Definition spec_deliver (m : smsg) : option (list smsg) :=
  if g_type m =? aggregate_type
  then spec_split_agg (length (g_payload m)) (g_csid m) (g_msid m) (g_ts m) None (g_payload m)
  else Some [m].

(* chunk size in force after a completed message (5.4.1: 31 bits) *)
Definition spec_chunk_after (chunk : N) (m : smsg) : N :=
  if g_type m =? set_chunk_size_type then
    match g_payload m with
    | a :: b :: c :: d :: _ => be32 a b c d mod 2147483648
    | _ => chunk
    end
  else chunk.

(* ------------------------------------------------------------------ 5.3.1 reader *)
Record dmem := mk_dmem {
  d_ts : N;          (* timestamp of the current / last message on this chunk stream *)
  d_delta : N;       (* last timestamp delta (after a type 0 chunk: its timestamp) *)
  d_len : N; d_type : N; d_msid : N;
  d_ext : bool;      (* the most recent type 0/1/2 chunk carried the extended timestamp field *)
  d_open : bool;     (* a message is being assembled *)
  d_rpart : bytes;   (* its payload so far, reversed *)
  d_got : N
}.
Record dstate := mk_dstate { ds_chunk : N; ds_mem : list (N * dmem) }.

Definition spec_basic (l : bytes) : option (N * N * bytes) :=
  match l with
  | [] => None
  | b0 :: r =>
      let fmt := b0 / 64 in
      let cs := b0 mod 64 in
      if cs =? 0 then match r with b1 :: r' => Some (fmt, b1 + 64, r') | _ => None end
      else if cs =? 1 then match r with b1 :: b2 :: r' => Some (fmt, b2 * 256 + b1 + 64, r') | _ => None end
      else Some (fmt, cs, r)
  end.

Definition spec_ext (present : bool) (l : bytes) : option (N * bytes) :=
  if present then
    match l with a :: b :: c :: d :: r => Some (be32 a b c d, r) | _ => None end
  else Some (0, l).

(* message header of type fmt against the chunk stream memory: the memory with
   the new message opened (or the open one unchanged), and the rest *)
Definition spec_header (fmt : N) (mem : option dmem) (l : bytes) : option (dmem * bytes) :=
  if fmt =? 0 then
    match l with
    | t2 :: t1 :: t0 :: l2 :: l1 :: l0 :: ty :: i0 :: i1 :: i2 :: i3 :: r =>
        let f := be24 t2 t1 t0 in
        let ext := f =? ts_escape in
        match (match mem with Some m => negb (d_open m) | None => true end), spec_ext ext r with
        | true, Some (e, r') =>
            let ts := if ext then e else f in
            Some (mk_dmem ts ts (be24 l2 l1 l0) ty (le32 i0 i1 i2 i3) ext true [] 0, r')
        | _, _ => None
        end
    | _ => None
    end
  else if fmt =? 1 then
    match mem, l with
    | Some m, t2 :: t1 :: t0 :: l2 :: l1 :: l0 :: ty :: r =>
        let f := be24 t2 t1 t0 in
        let ext := f =? ts_escape in
        match d_open m, spec_ext ext r with
        | false, Some (e, r') =>
            let delta := if ext then e else f in
            Some (mk_dmem ((d_ts m + delta) mod two32) delta (be24 l2 l1 l0) ty (d_msid m) ext true [] 0, r')
        | _, _ => None
        end
    | _, _ => None
    end
  else if fmt =? 2 then
    match mem, l with
    | Some m, t2 :: t1 :: t0 :: r =>
        let f := be24 t2 t1 t0 in
        let ext := f =? ts_escape in
        match d_open m, spec_ext ext r with
        | false, Some (e, r') =>
            let delta := if ext then e else f in
            Some (mk_dmem ((d_ts m + delta) mod two32) delta (d_len m) (d_type m) (d_msid m) ext true [] 0, r')
        | _, _ => None
        end
    | _, _ => None
    end
  else if fmt =? 3 then
    match mem with
    | Some m =>
        match spec_ext (d_ext m) l with
        | Some (_, r') =>
            if d_open m then Some (m, r')
            else Some (mk_dmem ((d_ts m + d_delta m) mod two32) (d_delta m) (d_len m) (d_type m) (d_msid m)
                               (d_ext m) true [] 0, r')
        | None => None
        end
    | None => None
    end
  else None.

(* chunk data for the message open in m (memory of chunk stream csid) *)
Definition spec_body (st : dstate) (csid : N) (m : dmem) (l2 : bytes) : option (dstate * option smsg * bytes) :=
  let n := N.min (ds_chunk st) (d_len m - d_got m) in
  match read_body l2 n (d_rpart m) with
  | None => None
  | Some (rpart, l3) =>
      let got := d_got m + n in
      if got =? d_len m then
        let msg := mk_smsg csid (d_type m) (d_msid m) (d_ts m) (rev_append rpart []) in
        let m' := mk_dmem (d_ts m) (d_delta m) (d_len m) (d_type m) (d_msid m) (d_ext m) false [] 0 in
        Some (mk_dstate (spec_chunk_after (ds_chunk st) msg) (nset csid m' (ds_mem st)), Some msg, l3)
      else
        let m' := mk_dmem (d_ts m) (d_delta m) (d_len m) (d_type m) (d_msid m) (d_ext m) true rpart got in
        Some (mk_dstate (ds_chunk st) (nset csid m' (ds_mem st)), None, l3)
  end.

(* one chunk: new state, completed message (if any), rest of the input *)
Definition spec_chunk (st : dstate) (l : bytes) : option (dstate * option smsg * bytes) :=
  match spec_basic l with
  | None => None
  | Some (fmt, csid, l1) =>
      match spec_header fmt (nget csid (ds_mem st)) l1 with
      | None => None
      | Some (m, l2) => spec_body st csid m l2
      end
  end.

Fixpoint spec_loop (fuel : nat) (st : dstate) (l : bytes) : option (dstate * list smsg) :=
  match l with
  | [] => Some (st, [])
  | _ =>
      match fuel with
      | O => None
      | S f =>
          match spec_chunk st l with
          | None => None
          | Some (st', om, rest) =>
              match (match om with Some m => spec_deliver m | None => Some [] end) with
              | None => None
              | Some out =>
                  match spec_loop f st' rest with
                  | None => None
                  | Some (st'', outs) => Some (st'', out ++ outs)
                  end
              end
          end
      end
  end.

(* the reference reader: messages delivered from a chunk stream that ends at a
   chunk boundary; None = not a chunk stream *)
Definition ref_decode_from (st : dstate) (l : bytes) : option (dstate * list smsg) :=
  spec_loop (length l) st l.
Definition ref_decode (chunk : N) (l : bytes) : option (list smsg) :=
  match ref_decode_from (mk_dstate chunk []) l with
  | Some (_, ms) => Some ms
  | None => None
  end.
Definition dmem_idle (m : dmem) : Prop := d_open m = false.

(* ------------------------------------------------------------------ 5.3.1 writer *)
Record emem := mk_emem {
  e_ts : N; e_delta : N; e_len : N; e_type : N; e_msid : N;
  e_ext : bool;               (* the message header in force carries the extended timestamp *)
  e_rest : option (smsg * bytes)   (* the open message and its payload still to send *)
}.
Record estate := mk_estate { es_chunk : N; es_mem : list (N * emem) }.

Inductive eact :=
| EStart (fmt : N) (wide : bool) (m : smsg)   (* first chunk of m with a type-fmt header *)
| ECont (csid : N) (wide : bool).             (* next chunk (type 3) of the message open on csid *)

Definition msg_wf (m : smsg) : bool :=
  (2 <=? g_csid m) && (g_csid m <=? 65599) && (g_type m <? 256) && (g_msid m <? two32)
  && (g_ts m <? two32) && (lenN (g_payload m) <? 16777216) && bytes_okb (g_payload m)
  && (if g_type m =? set_chunk_size_type then
        match g_payload m with
        | [a; b; c; d] => (1 <=? be32 a b c d) && (be32 a b c d <? 2147483648)
        | _ => false
        end
      else true)
  && (if g_type m =? aggregate_type then
        match spec_deliver m with Some _ => true | None => false end
      else true).

(* 5.3.1.1: ids 2-63 in one byte, 64-319 in two, 64-65599 in three *)
Definition enc_basic (fmt csid : N) (wide : bool) : option bytes :=
  if (2 <=? csid) && (csid <=? 63) then (if wide then None else Some [fmt * 64 + csid])
  else if (64 <=? csid) && (csid <=? 319) && negb wide then Some [fmt * 64; csid - 64]
  else if (64 <=? csid) && (csid <=? 65599) then Some [fmt * 64 + 1; (csid - 64) mod 256; (csid - 64) / 256]
  else None.

Definition put24 (v : N) : bytes := [v / 65536; (v / 256) mod 256; v mod 256].
Definition put32 (v : N) : bytes := [v / 16777216; (v / 65536) mod 256; (v / 256) mod 256; v mod 256].
Definition put32le (v : N) : bytes := [v mod 256; (v / 256) mod 256; (v / 65536) mod 256; v / 16777216].

(* payload of the next chunk and what remains *)
Definition enc_cut (chunk : N) (p : bytes) : bytes * bytes :=
  match takeN p (N.min chunk (lenN p)) with
  | Some (a, r) => (a, r)
  | None => (p, [])
  end.

Definition enc_step (st : estate) (a : eact) : option (estate * bytes * option smsg) :=
  if es_chunk st =? 0 then None else
  match a with
  | EStart fmt wide m =>
      let csid := g_csid m in
      let mem := nget csid (es_mem st) in
      let len := lenN (g_payload m) in
      let closed := match mem with Some e => match e_rest e with None => true | Some _ => false end | None => true end in
      if negb (msg_wf m && closed) then None else
      match enc_basic fmt csid wide with
      | None => None
      | Some bh =>
        (* message header of the chosen type, when the memory allows it:
           bytes, delta to remember, extended-timestamp flag *)
        let hdr : option (bytes * N * bool) :=
          if fmt =? 0 then
            let ext := ts_escape <=? g_ts m in
            Some (put24 (if ext then ts_escape else g_ts m) ++ put24 len ++ [g_type m] ++ put32le (g_msid m)
                  ++ (if ext then put32 (g_ts m) else []), g_ts m, ext)
          else
            match mem with
            | None => None
            | Some e =>
                let delta := (g_ts m + two32 - e_ts e) mod two32 in
                if negb ((g_msid m =? e_msid e) && (delta <? ts_escape)) then None
                else if fmt =? 1 then Some (put24 delta ++ put24 len ++ [g_type m], delta, false)
                else if negb ((len =? e_len e) && (g_type m =? e_type e)) then None
                else if fmt =? 2 then Some (put24 delta, delta, false)
                else if (fmt =? 3) && (delta =? e_delta e) && negb (e_ext e) then Some ([], delta, false)
                else None
            end in
        match hdr with
        | None => None
        | Some (hb, delta, ext) =>
            let '(data, rest) := enc_cut (es_chunk st) (g_payload m) in
            let mem' (o : option (smsg * bytes)) := mk_emem (g_ts m) delta len (g_type m) (g_msid m) ext o in
            match rest with
            | [] => Some (mk_estate (spec_chunk_after (es_chunk st) m) (nset csid (mem' None) (es_mem st)),
                          bh ++ hb ++ data, Some m)
            | _ => Some (mk_estate (es_chunk st) (nset csid (mem' (Some (m, rest))) (es_mem st)),
                         bh ++ hb ++ data, None)
            end
        end
      end
  | ECont csid wide =>
      match nget csid (es_mem st), enc_basic 3 csid wide with
      | Some e, Some bh =>
          match e_rest e with
          | None => None
          | Some (m, p) =>
              let '(data, rest) := enc_cut (es_chunk st) p in
              let eb := if e_ext e then put32 (e_ts e) else [] in
              let mem' (o : option (smsg * bytes)) :=
                mk_emem (e_ts e) (e_delta e) (e_len e) (e_type e) (e_msid e) (e_ext e) o in
              match rest with
              | [] => Some (mk_estate (spec_chunk_after (es_chunk st) m) (nset csid (mem' None) (es_mem st)),
                            bh ++ eb ++ data, Some m)
              | _ => Some (mk_estate (es_chunk st) (nset csid (mem' (Some (m, rest))) (es_mem st)),
                           bh ++ eb ++ data, None)
              end
          end
      | _, _ => None
      end
  end.

(* run a script: the chunk stream and the messages completed, in order *)
Fixpoint enc_run (st : estate) (script : list eact) : option (estate * bytes * list smsg) :=
  match script with
  | [] => Some (st, [], [])
  | a :: t =>
      match enc_step st a with
      | None => None
      | Some (st1, chunk, om) =>
          match enc_run st1 t with
          | None => None
          | Some (st2, bs, ms) =>
              Some (st2, chunk ++ bs, (match om with Some m => [m] | None => [] end) ++ ms)
          end
      end
  end.

Definition init_estate (chunk : N) : estate := mk_estate chunk [].

(* cs is a legal chunking (by a writer whose chunk size starts at [chunk]) of
   the message sequence msgs *)
Definition legal_chunking (chunk : N) (msgs : list smsg) (cs : bytes) : Prop :=
  exists script st, enc_run (init_estate chunk) script = Some (st, cs, msgs).

(* what the application receives from a list of completed messages *)
Fixpoint deliver_all (ms : list smsg) : list smsg :=
  match ms with
  | [] => []
  | m :: t => (match spec_deliver m with Some l => l | None => [] end) ++ deliver_all t
  end.

(* 7.1.6 writer side: an aggregate body from sub-messages; [ids] are the
   (ignored) stream-id fields the writer happens to put in the sub headers *)
Definition agg_sub (m : smsg) (id : N) : bytes :=
  [g_type m] ++ put24 (lenN (g_payload m)) ++ put24 (g_ts m mod 16777216) ++ [g_ts m / 16777216]
  ++ put24 id ++ g_payload m ++ put32 (11 + lenN (g_payload m)).
Fixpoint agg_body (subs : list (smsg * N)) : bytes :=
  match subs with
  | [] => []
  | (m, id) :: t => agg_sub m id ++ agg_body t
  end.
