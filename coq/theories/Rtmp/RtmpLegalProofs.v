(* R1: lal's chunk composer (model of the working tree) reconstructs the
   messages of every legal chunking produced by the reference writer. *)
From Lal Require Import Common.LBytes Common.Res Common.LBytesRead Common.NAssoc
  Common.LBytesProofs Common.LBytesReadProofs Common.NAssocProofs
  Rtmp.RtmpChunk Rtmp.RtmpComposer Rtmp.RtmpComposerProofs Rtmp.RtmpChunkSpec Rtmp.RtmpChunkSpecProofs.
From Coq Require Import Lia ZifyN ZifyNat ZifyBool.
Ltac Zify.zify_post_hook ::= Z.div_mod_to_equations.
Open Scope N_scope.

(* what lal delivers, seen as a specification-level message *)
Definition rview (m : rmsg) : smsg :=
  mk_smsg (h_csid (m_hdr m)) (h_type (m_hdr m)) (h_msid (m_hdr m)) (h_ts (m_hdr m)) (m_payload m).
Definition rlen_ok (m : rmsg) : Prop := h_len (m_hdr m) = lenN (m_payload m).

Lemma be_get_3 a b c : be_get [a; b; c] = be24 a b c.
Proof. unfold be_get, be24. cbn [be_get_acc]. lia. Qed.
Lemma be_get_4 a b c d : be_get [a; b; c; d] = be32 a b c d.
Proof. unfold be_get, be32. cbn [be_get_acc]. lia. Qed.
Lemma le_get_4 a b c d : le_get [a; b; c; d] = le32 a b c d.
Proof. unfold le32. cbn [le_get]. lia. Qed.

(* ------------------------------------------------------------------ stages *)
Lemma read_basic_enc fmt csid wide bh X :
  fmt < 4 -> enc_basic fmt csid wide = Some bh -> read_basic (bh ++ X) = Ok (fmt, csid, X).
Proof.
  intros Hf. unfold enc_basic.
  destruct ((2 <=? csid) && (csid <=? 63)) eqn:E1.
  { destruct wide; [discriminate|]. intro H; inversion H; subst. cbn [app read_basic].
    assert ((fmt * 64 + csid) mod 64 = csid) as -> by lia.
    assert (((fmt * 64 + csid) / 64) mod 4 = fmt) as -> by lia.
    destruct (csid =? 0) eqn:E2; [lia|]. destruct (csid =? 1) eqn:E3; [lia|]. reflexivity. }
  destruct ((64 <=? csid) && (csid <=? 319) && negb wide) eqn:E2.
  { intro H; inversion H; subst. cbn [app read_basic].
    assert ((fmt * 64) mod 64 = 0) as -> by lia.
    assert (((fmt * 64) / 64) mod 4 = fmt) as -> by lia.
    cbn [N.eqb]. f_equal. f_equal. f_equal. lia. }
  destruct ((64 <=? csid) && (csid <=? 65599)) eqn:E3; [|discriminate].
  intro H; inversion H; subst. cbn [app read_basic].
  assert ((fmt * 64 + 1) mod 64 = 1) as -> by lia.
  assert (((fmt * 64 + 1) / 64) mod 4 = fmt) as -> by lia.
  cbn [N.eqb Pos.eqb]. f_equal. f_equal. f_equal. lia.
Qed.

Lemma read_msg_header_0 s f len ty msid X :
  f < 16777216 -> len < 16777216 -> msid < two32 ->
  read_msg_header 0 s (put24 f ++ put24 len ++ [ty] ++ put32le msid ++ X)
  = Ok (mk_stream (mk_hdr (h_csid (s_hdr s)) len ty msid f) (s_rbuf s) (s_len s) true f, X).
Proof.
  intros Hf Hl Hm. unfold read_msg_header. cbn [N.eqb].
  rewrite !app_assoc. rewrite (takeN_app_n (((put24 f ++ put24 len) ++ [ty]) ++ put32le msid) X 11) by reflexivity.
  unfold put24, put32le. cbn [app firstn skipn nth].
  rewrite !be_get_3, le_get_4, !be24_put, le32_put by assumption. reflexivity.
Qed.

Lemma read_msg_header_1 s f len ty X :
  f < 16777216 -> len < 16777216 ->
  read_msg_header 1 s (put24 f ++ put24 len ++ [ty] ++ X)
  = Ok (mk_stream (mk_hdr (h_csid (s_hdr s)) len ty (h_msid (s_hdr s)) (h_ts (s_hdr s))) (s_rbuf s) (s_len s) (s_abs s) f, X).
Proof.
  intros Hf Hl. unfold read_msg_header. cbn [N.eqb Pos.eqb].
  rewrite !app_assoc. rewrite (takeN_app_n ((put24 f ++ put24 len) ++ [ty]) X 7) by reflexivity.
  unfold put24. cbn [app firstn skipn nth].
  rewrite !be_get_3, !be24_put by assumption. reflexivity.
Qed.

Lemma read_msg_header_2 s f X :
  f < 16777216 ->
  read_msg_header 2 s (put24 f ++ X) = Ok (mk_stream (s_hdr s) (s_rbuf s) (s_len s) (s_abs s) f, X).
Proof.
  intros Hf. unfold read_msg_header. cbn [N.eqb Pos.eqb].
  rewrite (takeN_app_n (put24 f) X 3) by reflexivity.
  unfold put24. rewrite be_get_3, be24_put by assumption. reflexivity.
Qed.

Lemma read_msg_header_3 s X : read_msg_header 3 s X = Ok (s, X).
Proof. reflexivity. Qed.

Lemma read_ext_ts_no fmt s X : s_ts s < max_ts -> read_ext_ts fmt s X = Ok (s, X).
Proof. intro H. unfold read_ext_ts. assert (max_ts <=? s_ts s = false) as -> by (apply N.leb_gt; exact H). reflexivity. Qed.

Lemma read_ext_ts_yes fmt s v X :
  max_ts <= s_ts s -> v < two32 ->
  read_ext_ts fmt s (put32 v ++ X)
  = Ok (mk_stream (set_hdr_ts (s_hdr s)
                     (if fmt =? 0 then v
                      else if (fmt =? 1) || (fmt =? 2) then u32 (h_ts (s_hdr s) + 4294967296 - max_ts + v)
                      else h_ts (s_hdr s)))
                  (s_rbuf s) (s_len s) (s_abs s) v, X).
Proof.
  intros H Hv. unfold read_ext_ts. assert (max_ts <=? s_ts s = true) as -> by (apply N.leb_le; exact H).
  rewrite (takeN_app_n (put32 v) X 4) by reflexivity.
  unfold put32. rewrite be_get_4, be32_put by exact Hv. reflexivity.
Qed.

(* ------------------------------------------------------------------ aggregate *)
Definition fo_first (fo : option N) : bool := match fo with None => true | Some _ => false end.
Definition fo_base (fo : option N) : N := match fo with None => 0 | Some b => b end.

Lemma agg_loop_spec : forall fuel buf fo csid len ty msid ts subs,
  spec_split_agg fuel csid msid ts fo buf = Some subs ->
  exists ms, agg_loop fuel rv_fixed (mk_hdr csid len ty msid ts) (fo_first fo) (fo_base fo) buf = (ms, [], None)
             /\ map rview ms = subs /\ Forall rlen_ok ms.
Proof.
  induction fuel as [|f IH]; intros buf fo csid len ty msid ts subs H.
  - destruct buf as [|b0 buf].
    + cbn in H. inversion H; subst. exists []. repeat split; constructor.
    + cbn in H. destruct buf as [|? [|? [|? [|? [|? [|? [|? [|? [|? [|? ?]]]]]]]]]]; discriminate.
  - destruct buf as [|sty buf].
    + cbn in H. inversion H; subst. exists []. repeat split; constructor.
    + destruct buf as [|l2 [|l1 [|l0 [|t2 [|t1 [|t0 [|te [|i2 [|i1 [|i0 r]]]]]]]]]]; try (cbn in H; discriminate).
      cbn [spec_split_agg] in H.
      destruct (takeN r (be24 l2 l1 l0)) as [[data r1]|] eqn:Et; [|discriminate].
      destruct r1 as [|p3 [|p2 [|p1 [|p0 r2]]]]; try discriminate.
      destruct (spec_split_agg f csid msid ts
                  (Some match fo with Some x => x | None => te * 16777216 + be24 t2 t1 t0 end) r2) as [ms'|] eqn:Er; [|discriminate].
      inversion H; subst. clear H.
      destruct (IH _ _ csid len ty msid ts _ Er) as (ms & Hl & Hv & Hok).
      cbn [agg_loop].
      change (sty :: l2 :: l1 :: l0 :: t2 :: t1 :: t0 :: te :: i2 :: i1 :: i0 :: r)
        with ([sty; l2; l1; l0; t2; t1; t0; te; i2; i1; i0] ++ r).
      rewrite (takeN_app_n [sty; l2; l1; l0; t2; t1; t0; te; i2; i1; i0] r 11) by reflexivity.
      cbn [firstn skipn nth]. rewrite !be_get_3. rewrite Et.
      change (p3 :: p2 :: p1 :: p0 :: r2) with ([p3; p2; p1; p0] ++ r2).
      rewrite (takeN_app_n [p3; p2; p1; p0] r2 4) by reflexivity.
      cbn [rv_agg_msid rv_agg_payload rv_fixed h_msid h_csid h_ts].
      assert ((if fo_first fo then be24 t2 t1 t0 + te * 16777216 else fo_base fo)
              = match fo with Some x => x | None => te * 16777216 + be24 t2 t1 t0 end) as Hb.
      { destruct fo; cbn [fo_first fo_base]; [reflexivity|lia]. }
      rewrite Hb.
      change false with (fo_first (Some match fo with Some x => x | None => te * 16777216 + be24 t2 t1 t0 end)).
      change (match fo with Some x => x | None => te * 16777216 + be24 t2 t1 t0 end)
        with (fo_base (Some match fo with Some x => x | None => te * 16777216 + be24 t2 t1 t0 end)) at 2.
      rewrite Hl.
      eexists. split; [reflexivity|]. split.
      * cbn [map]. f_equal; [|exact Hv]. unfold rview. cbn [m_hdr m_payload h_csid h_type h_msid h_ts].
        f_equal. unfold u32, two32. f_equal. lia.
      * constructor; [|exact Hok]. unfold rlen_ok. cbn [m_hdr m_payload h_len].
        apply takeN_some in Et. symmetry. apply Et.
Qed.

(* ------------------------------------------------------------------ chunk data + completion *)
Lemma spec_chunk_after_lal chunk m :
  msg_wf m = true ->
  (if (g_type m =? type_set_chunk_size) && (4 <=? lenN (g_payload m))
   then be_get (firstn 4 (g_payload m)) else chunk) = spec_chunk_after chunk m.
Proof.
  intro Hwf. pose proof (msg_wf_inv m Hwf) as (_ & _ & _ & _ & _ & _ & Hscs & _).
  unfold spec_chunk_after. change type_set_chunk_size with set_chunk_size_type.
  destruct (g_type m =? set_chunk_size_type) eqn:E; [|reflexivity].
  apply N.eqb_eq in E. destruct (Hscs E) as (a & b & c & d & -> & Hr).
  cbn [andb firstn]. change (4 <=? lenN [a; b; c; d]) with true. cbn iota.
  rewrite be_get_4. symmetry. apply N.mod_small. lia.
Qed.

Lemma compose_body_enc rd csid s2 done p data rest X m :
  s_rbuf s2 = rev done -> s_len s2 = lenN done ->
  msg_wf m = true -> g_csid m = csid -> g_payload m = done ++ p ->
  h_len (s_hdr s2) = lenN (g_payload m) -> h_type (s_hdr s2) = g_type m -> h_msid (s_hdr s2) = g_msid m ->
  (if s_abs s2 then h_ts (s_hdr s2) else u32 (h_ts (s_hdr s2) + s_ts s2)) = g_ts m ->
  enc_cut (cs_chunk rd) p = (data, rest) ->
  match rest with
  | [] =>
      exists out,
        compose_body rv_fixed rd csid s2 (data ++ X)
        = Next (mk_cstate (spec_chunk_after (cs_chunk rd) m)
                  (nset csid (mk_stream (mk_hdr csid (lenN (g_payload m)) (g_type m) (g_msid m) (g_ts m)) [] 0 false (s_ts s2))
                        (cs_streams rd))) out X
        /\ spec_deliver m = Some (map rview out) /\ Forall rlen_ok out
  | _ =>
      compose_body rv_fixed rd csid s2 (data ++ X)
      = Next (mk_cstate (cs_chunk rd)
                (nset csid (mk_stream (s_hdr s2) (rev (done ++ data)) (lenN (done ++ data)) (s_abs s2) (s_ts s2))
                      (cs_streams rd))) [] X
  end.
Proof.
  intros Hrb Hsl Hwf Hcs Hpay Hlen Hty Hms Hts Hcut.
  pose proof (msg_wf_inv m Hwf) as (_ & _ & _ & _ & Hl24 & _ & _ & Hagg).
  pose proof (enc_cut_rest_nil _ _ _ _ Hcut) as Hnil.
  apply enc_cut_spec in Hcut. destruct Hcut as [Hp Hd].
  assert (lenN (g_payload m) = lenN done + lenN p) as Hlp by (rewrite Hpay; apply lenN_app).
  unfold compose_body.
  assert ((rv_grow_received rv_fixed && (h_len (s_hdr s2) <? s_len s2)) = false) as ->
    by (cbn [rv_grow_received rv_fixed andb]; apply N.ltb_ge; lia).
  assert (needed_size rv_fixed (cs_chunk rd) s2 = lenN data) as ->.
  { unfold needed_size. cbn [rv_needed_remaining rv_fixed negb andb]. rewrite Hlen, Hsl. unfold u32. lia. }
  rewrite Hrb, read_body_app. cbn [s_len s_hdr s_abs s_ts]. rewrite Hsl, Hlen.
  destruct rest as [|r0 rest].
  - assert (lenN data = lenN p) as Hdp by (apply Hnil; reflexivity).
    assert (lenN done + lenN data =? lenN (g_payload m) = true) as -> by (apply N.eqb_eq; lia).
    assert (frev (rev data ++ rev done) = g_payload m) as Hbuf.
    { rewrite frev_rev, rev_app_distr, !rev_involutive. rewrite Hpay, Hp, app_nil_r. reflexivity. }
    rewrite Hbuf. rewrite Hty, Hms, Hts.
    assert (lenN done + lenN data = lenN (g_payload m)) as -> by lia.
    rewrite (spec_chunk_after_lal (cs_chunk rd) m Hwf).
    cbn [h_type].
    destruct (g_type m =? type_aggregate) eqn:Ea.
    + apply N.eqb_eq in Ea. destruct (Hagg Ea) as [subs Hsub].
      unfold spec_deliver in Hsub. change aggregate_type with type_aggregate in Hsub.
      rewrite Ea, N.eqb_refl in Hsub.
      destruct (agg_loop_spec _ _ None csid (lenN (g_payload m)) (g_type m) (g_msid m) (g_ts m) subs
                  ltac:(rewrite <- Hcs; exact Hsub)) as (ms & Hloop & Hv & Hok).
      cbn [fo_first fo_base] in Hloop. rewrite Hloop.
      exists ms. split; [reflexivity|]. split; [|exact Hok].
      unfold spec_deliver. change aggregate_type with type_aggregate. rewrite Ea, N.eqb_refl.
      rewrite Hv. exact Hsub.
    + eexists. split; [reflexivity|]. split.
      * unfold spec_deliver. change aggregate_type with type_aggregate. rewrite Ea.
        cbn [map]. unfold rview. cbn [m_hdr m_payload h_csid h_type h_msid h_ts].
        rewrite <- Hcs. destruct m; reflexivity.
      * constructor; [|constructor]. unfold rlen_ok. reflexivity.
  - assert (lenN done + lenN data =? lenN (g_payload m) = false) as ->.
    { apply N.eqb_neq. intro E. assert (lenN data = lenN p) as E2 by lia. apply Hnil in E2. discriminate. }
    assert (lenN (g_payload m) <? lenN done + lenN data = false) as ->.
    { apply N.ltb_ge. lia. }
    unfold put_stream, set_stream. rewrite rev_app_distr, (lenN_app done data). reflexivity.
Qed.

(* ------------------------------------------------------------------ simulation invariant (DESIGN A.4) *)
Definition srel (e : emem) (s : stream) : Prop :=
  h_len (s_hdr s) = e_len e /\ h_type (s_hdr s) = e_type e /\ h_msid (s_hdr s) = e_msid e /\
  s_ts s = e_delta e /\
  match e_rest e with
  | None => s_rbuf s = [] /\ s_len s = 0 /\ s_abs s = false /\ h_ts (s_hdr s) = e_ts e
  | Some (m, rest) =>
      exists done, g_payload m = done ++ rest /\ s_rbuf s = rev done /\ s_len s = lenN done /\
                   (if s_abs s then h_ts (s_hdr s) else u32 (h_ts (s_hdr s) + s_ts s)) = e_ts e
  end.
Definition rinv (enc : estate) (rd : cstate) : Prop :=
  cs_chunk rd = es_chunk enc /\
  forall csid, match nget csid (es_mem enc) with
               | None => nget csid (cs_streams rd) = None
               | Some e => exists s, nget csid (cs_streams rd) = Some s /\ srel e s
               end.

Lemma rinv_init chunk : rinv (init_estate chunk) (init_cstate chunk).
Proof. split; [reflexivity|]. intro csid. reflexivity. Qed.

Lemma rinv_set enc rd chunk csid e s :
  rinv enc rd -> srel e s ->
  rinv (mk_estate chunk (nset csid e (es_mem enc))) (mk_cstate chunk (nset csid s (cs_streams rd))).
Proof.
  intros [Hc Hm] Hr. split; [reflexivity|]. intro k. cbn [es_mem cs_streams]. rewrite !nget_nset.
  destruct (csid =? k); [eauto|apply Hm].
Qed.

(* one chunk of the reference writer is one iteration of lal's RunLoop *)
Lemma compose_chunk_enc enc rd a enc' chunk om X :
  estate_wf enc -> rinv enc rd -> enc_step enc a = Some (enc', chunk, om) ->
  exists rd' out,
    compose_chunk rv_fixed rd (chunk ++ X) = Next rd' out X /\ rinv enc' rd' /\ Forall rlen_ok out /\
    match om with Some m => spec_deliver m = Some (map rview out) | None => out = [] end.
Proof.
  intros Hwf Hinv H. pose proof Hinv as [Hchunk Hmem].
  destruct a as [fmt wide m|csid wide].
  - apply enc_step_start in H.
    destruct H as (Hc0 & Hm & Hcl & bh & hb & delta & ext & data & rest & Hb & Hh & Hcut & -> & Hres).
    pose proof (msg_wf_inv m Hm) as (Hcs & Hty & Hms & Hts & Hlen & _).
    pose proof (enc_hdr_fmt _ _ _ _ Hh) as Hfmt.
    unfold compose_chunk. rewrite <- !app_assoc. rewrite (read_basic_enc _ _ _ _ _ Hfmt Hb).
    specialize (Hmem (g_csid m)).
    (* header + extended timestamp stages *)
    assert (exists s2, (match read_msg_header fmt (get_or_new (g_csid m) rd) (hb ++ data ++ X) with
                        | Ok (s1, l2) => read_ext_ts fmt s1 l2
                        | Err e => Err e | Panic e => Panic e end) = Ok (s2, data ++ X) /\
                       s_rbuf s2 = [] /\ s_len s2 = 0 /\
                       h_len (s_hdr s2) = lenN (g_payload m) /\ h_type (s_hdr s2) = g_type m /\
                       h_msid (s_hdr s2) = g_msid m /\ s_ts s2 = delta /\
                       (if s_abs s2 then h_ts (s_hdr s2) else u32 (h_ts (s_hdr s2) + s_ts s2)) = g_ts m)
      as (s2 & Hstage & Hrb & Hsl & Hl2 & Ht2 & Hm2 & Hd2 & Hts2).
    { (* the chunk stream is idle in lal's memory *)
      assert (s_rbuf (get_or_new (g_csid m) rd) = [] /\ s_len (get_or_new (g_csid m) rd) = 0 /\
              s_abs (get_or_new (g_csid m) rd) = false) as (Hi1 & Hi2 & Hi3).
      { unfold get_or_new, get_stream. destruct (nget (g_csid m) (es_mem enc)) as [e|] eqn:Ee.
        - destruct Hmem as (s & -> & Hrel). unfold mem_closed in Hcl. destruct Hrel as (_ & _ & _ & _ & Hrest).
          destruct (e_rest e); [discriminate|]. destruct Hrest as (? & ? & ? & _). auto.
        - rewrite Hmem. cbn. auto. }
      apply enc_hdr_inv in Hh.
      destruct Hh as [(-> & -> & -> & ->)|(e & He & Hd & Hmsid & Hdl & -> & Hcase)].
      - rewrite <- !app_assoc.
        destruct (ts_escape <=? g_ts m) eqn:E.
        + rewrite read_msg_header_0 by (try assumption; unfold ts_escape; lia).
          rewrite read_ext_ts_yes by (cbn [s_ts]; try assumption; unfold max_ts, ts_escape; lia).
          eexists. split; [reflexivity|]. cbn [s_rbuf s_len s_hdr s_abs s_ts set_hdr_ts h_len h_type h_msid h_ts N.eqb].
          auto 10.
        + apply N.leb_gt in E.
          rewrite read_msg_header_0 by (try assumption; unfold ts_escape in E; lia).
          cbn [app].
          rewrite read_ext_ts_no by (cbn [s_ts]; unfold max_ts, ts_escape in *; lia).
          eexists. split; [reflexivity|]. cbn [s_rbuf s_len s_hdr s_abs s_ts h_len h_type h_msid h_ts].
          auto 10.
      - rewrite He in Hmem, Hcl. destruct Hmem as (s & Hgs & Hrel).
        unfold get_or_new, get_stream in *. rewrite Hgs in *.
        destruct Hrel as (Hsl & Hst & Hsm & Hsd & Hrest).
        unfold mem_closed in Hcl. destruct (e_rest e) eqn:Er; [discriminate|].
        destruct Hrest as (_ & _ & _ & Hsts).
        pose proof Hwf as [_ Hw]. specialize (Hw _ _ He). destruct Hw as (Hets & _).
        assert (u32 (h_ts (s_hdr s) + delta) = g_ts m) as Hnts.
        { rewrite Hsts, Hd. unfold u32, two32 in *. lia. }
        assert (delta < 16777216) as Hd24 by (unfold ts_escape in Hdl; lia).
        destruct Hcase as [(-> & ->)|[(-> & Hl & Ht & ->)|(-> & Hl & Ht & Hde & Hex & ->)]].
        + rewrite <- !app_assoc. rewrite read_msg_header_1 by assumption.
          rewrite read_ext_ts_no by (cbn [s_ts]; unfold max_ts, ts_escape in *; lia).
          eexists. split; [reflexivity|]. cbn [s_rbuf s_len s_hdr s_abs s_ts h_len h_type h_msid h_ts].
          rewrite Hi3, Hsm. auto 10.
        + rewrite read_msg_header_2 by assumption.
          rewrite read_ext_ts_no by (cbn [s_ts]; unfold max_ts, ts_escape in *; lia).
          eexists. split; [reflexivity|]. cbn [s_rbuf s_len s_hdr s_abs s_ts].
          rewrite Hi3, Hsm, Hsl, Hst, Hl, Ht. auto 10.
        + cbn [app]. rewrite read_msg_header_3.
          rewrite read_ext_ts_no by (rewrite Hsd, <- Hde; unfold max_ts, ts_escape in *; lia).
          eexists. split; [reflexivity|].
          rewrite Hi3, Hsm, Hsl, Hst, Hl, Ht, Hsd, <- Hde. auto 10. }
    cbn zeta.
    destruct (read_msg_header fmt (get_or_new (g_csid m) rd) (hb ++ data ++ X)) as [[s1 l2]|e|e]; try discriminate.
    rewrite Hstage.
    pose proof (compose_body_enc rd (g_csid m) s2 [] (g_payload m) data rest X m) as Hbody.
    cbn [rev app lenN length N.of_nat] in Hbody.
    specialize (Hbody Hrb Hsl Hm eq_refl eq_refl Hl2 Ht2 Hm2 Hts2 ltac:(rewrite Hchunk; exact Hcut)).
    destruct rest as [|r0 rest]; destruct Hres as [-> ->].
    + destruct Hbody as (out & Hb1 & Hb2 & Hb3). rewrite Hb1.
      eexists. exists out. split; [reflexivity|]. split; [|split; assumption].
      rewrite Hchunk. apply rinv_set; [exact Hinv|].
      unfold srel. cbn. rewrite Hd2. repeat split; reflexivity.
    + rewrite Hbody. eexists. exists []. split; [reflexivity|]. split; [|split; [constructor|reflexivity]].
      rewrite Hchunk. apply rinv_set; [exact Hinv|].
      unfold srel. cbn [s_hdr s_rbuf s_len s_abs s_ts e_len e_type e_msid e_delta e_rest e_ts].
      repeat split; try assumption.
      exists data. apply enc_cut_spec in Hcut. destruct Hcut as [Hp _]. repeat split; try reflexivity; assumption.
  - apply enc_step_cont in H.
    destruct H as (Hc0 & e & bh & m & p & data & rest & Hg & Hb & Hr & Hcut & -> & Hres).
    specialize (Hmem csid). rewrite Hg in Hmem. destruct Hmem as (s & Hs & Hrel).
    destruct Hrel as (Hsl & Hst & Hsm & Hsd & Hrest). rewrite Hr in Hrest.
    destruct Hrest as (done & Hpay & Hrb & Hslen & Hsts).
    pose proof Hwf as [Hck Hw]. pose proof (Hw _ _ Hg) as He. unfold emem_wf in He. rewrite Hr in He.
    destruct He as (H1 & H2 & H3 & H4 & H5 & H6 & Hmwf & Hcs & Hne & _ & H7 & H8 & H9 & H10).
    unfold compose_chunk. rewrite <- !app_assoc. rewrite (read_basic_enc 3 _ _ _ _ ltac:(lia) Hb).
    unfold get_or_new, get_stream. rewrite Hs. cbn zeta. rewrite read_msg_header_3.
    (* extended timestamp: repeated absolute timestamp, leaves the memory as it is *)
    assert (read_ext_ts 3 s ((if e_ext e then put32 (e_ts e) else []) ++ data ++ X) = Ok (s, data ++ X)) as ->.
    { destruct (e_ext e) eqn:Ex.
      - symmetry in H5. apply N.leb_le in H5.
        rewrite read_ext_ts_yes by (try assumption; rewrite Hsd; unfold max_ts, ts_escape in *; lia).
        cbn [N.eqb Pos.eqb orb]. specialize (H6 eq_refl). rewrite <- H6, <- Hsd.
        destruct s as [[? ? ? ? ?] ? ? ? ?]. reflexivity.
      - symmetry in H5. apply N.leb_gt in H5.
        cbn [app]. apply read_ext_ts_no. rewrite Hsd. unfold max_ts, ts_escape in *. lia. }
    pose proof (compose_body_enc rd csid s done p data rest X m Hrb Hslen Hmwf Hcs Hpay
                  ltac:(congruence) ltac:(congruence) ltac:(congruence) ltac:(congruence)
                  ltac:(rewrite Hchunk; exact Hcut)) as Hbody.
    destruct rest as [|r0 rest]; destruct Hres as [-> ->].
    + destruct Hbody as (out & Hb1 & Hb2 & Hb3). rewrite Hb1.
      eexists. exists out. split; [reflexivity|]. split; [|split; assumption].
      rewrite Hchunk. apply rinv_set; [exact Hinv|].
      unfold srel. cbn. repeat split; congruence.
    + rewrite Hbody. eexists. exists []. split; [reflexivity|]. split; [|split; [constructor|reflexivity]].
      rewrite Hchunk. apply rinv_set; [exact Hinv|].
      unfold srel. cbn [s_hdr s_rbuf s_len s_abs s_ts e_len e_type e_msid e_delta e_rest e_ts].
      repeat split; try assumption.
      exists (done ++ data). apply enc_cut_spec in Hcut. destruct Hcut as [Hp _].
      repeat split; try reflexivity; try assumption. rewrite Hpay, Hp, <- app_assoc. reflexivity.
Qed.

Lemma run_composer_enc : forall script enc rd enc' bs msgs,
  estate_wf enc -> rinv enc rd -> enc_run enc script = Some (enc', bs, msgs) ->
  exists rd' out,
    run_composer rd bs = (rd', out, err_eof) /\ rinv enc' rd' /\
    map rview out = deliver_all msgs /\ Forall rlen_ok out.
Proof.
  induction script as [|a t IH]; intros enc rd enc' bs msgs Hwf Hinv Hrun.
  - cbn in Hrun. inversion Hrun; subst. exists rd, [].
    split; [reflexivity|]. split; [exact Hinv|]. split; [reflexivity|constructor].
  - cbn [enc_run] in Hrun.
    destruct (enc_step enc a) as [[[st1 chunk] om]|] eqn:Es; [|discriminate].
    destruct (enc_run st1 t) as [[[st2 bs'] ms']|] eqn:Er; [|discriminate].
    inversion Hrun; subst. clear Hrun.
    destruct (compose_chunk_enc enc rd a st1 chunk om bs' Hwf Hinv Es) as (rd1 & out1 & Hc & Hinv1 & Hok1 & Hom).
    pose proof (enc_step_wf _ _ _ _ _ Hwf Es) as Hwf1.
    destruct (IH st1 rd1 enc' bs' ms' Hwf1 Hinv1 Er) as (rd2 & out2 & Hrun2 & Hinv2 & Hv2 & Hok2).
    exists rd2, (out1 ++ out2).
    unfold run_composer in *. rewrite (run_composer_next _ _ _ _ _ _ Hc). rewrite Hrun2.
    split; [reflexivity|]. split; [exact Hinv2|]. split; [|apply Forall_app; split; assumption].
    rewrite map_app, Hv2. destruct om as [m|].
    + cbn [deliver_all app]. rewrite Hom. reflexivity.
    + subst out1. reflexivity.
Qed.

(* R1 *)
Theorem lal_reads_legal chunk msgs cs :
  chunk < two32 -> legal_chunking chunk msgs cs ->
  exists rd' out,
    run_composer (init_cstate chunk) cs = (rd', out, err_eof) /\
    map rview out = deliver_all msgs /\ Forall rlen_ok out.
Proof.
  intros Hc (script & st & Hrun).
  destruct (run_composer_enc script _ _ _ _ _ (init_estate_wf chunk Hc) (rinv_init chunk) Hrun)
    as (rd' & out & H1 & _ & H2 & H3).
  eauto.
Qed.

(* every chunk stream on which the writer has no open message is idle in lal's memory *)
Lemma rinv_idle enc rd csid :
  rinv enc rd ->
  match nget csid (es_mem enc) with Some e => e_rest e = None | None => True end ->
  idle_at rd csid.
Proof.
  intros [_ Hm] Hc. specialize (Hm csid). unfold idle_at, get_stream.
  destruct (nget csid (es_mem enc)) as [e|].
  - destruct Hm as (s & -> & (_ & _ & _ & _ & Hrest)). rewrite Hc in Hrest.
    destruct Hrest as (? & ? & ? & _). repeat split; assumption.
  - rewrite Hm. exact I.
Qed.
