(* Proofs about the metadata helpers (RtmpMetadata.v). *)
From Lal Require Import Common.LBytes Common.Res Common.LBytesProofs Rtmp.RtmpAmf0 Rtmp.RtmpAmf0Proofs Rtmp.RtmpMetadata.
From Coq Require Import Lia ZifyN ZifyNat ZifyBool.
Ltac Zify.zify_post_hook ::= Z.div_mod_to_equations.
Open Scope N_scope.

Lemma bytes_eqb_spec a : forall b, bytes_eqb a b = true <-> a = b.
Proof.
  induction a as [|x a IH]; intros [|y b]; cbn [bytes_eqb]; split; intro H; try reflexivity; try discriminate.
  - apply andb_true_iff in H. destruct H as [H1 H2]. apply N.eqb_eq in H1. apply IH in H2. now subst.
  - inversion H; subst. apply andb_true_iff. split; [apply N.eqb_refl|now apply IH].
Qed.

Lemma bytes_eqb_refl a : bytes_eqb a a = true.
Proof. now apply bytes_eqb_spec. Qed.

Lemma read_string_sdf_prefix b : read_string (sdf_prefix ++ b) = Ok (sdf_name, 16, b).
Proof. unfold sdf_prefix. rewrite read_string_write by reflexivity. reflexivity. Qed.
Local Opaque sdf_prefix.

(* --- adding / stripping @setDataFrame ------------------------------------ *)

(* both functions are total (no panic) *)
Lemma ensure_with_total b : exists out e, metadata_ensure_with_sdf b = Ok (out, e).
Proof.
  unfold metadata_ensure_with_sdf. destruct (read_string_okr b) as (_ & H2 & _).
  destruct (read_string b) as [[[v l] rest]|e|s].
  - destruct (bytes_eqb v sdf_name); eauto.
  - eauto.
  - exfalso. exact (H2 s eq_refl).
Qed.

Lemma ensure_without_total b : exists out e, metadata_ensure_without_sdf b = Ok (out, e).
Proof.
  unfold metadata_ensure_without_sdf. destruct (read_string_okr b) as (_ & H2 & _).
  destruct (read_string b) as [[[v l] rest]|e|s].
  - destruct (bytes_eqb v sdf_name); eauto.
  - eauto.
  - exfalso. exact (H2 s eq_refl).
Qed.

(* adding: the input comes back unchanged, or unchanged behind the 16 prefix bytes *)
Lemma ensure_with_shape b out e :
  metadata_ensure_with_sdf b = Ok (out, e) ->
  out = b \/ (out = sdf_prefix ++ b /\ e = None).
Proof.
  unfold metadata_ensure_with_sdf. destruct (read_string b) as [[[v l] rest]|e'|s]; [|intro H; inversion H; now left|discriminate].
  destruct (bytes_eqb v sdf_name); intro H; inversion H; [now left|right; now split].
Qed.

(* stripping: the input comes back unchanged, or it is exactly the bytes that
   followed one leading AMF0 string "@setDataFrame" (short or long form) *)
Lemma ensure_without_shape b out e :
  metadata_ensure_without_sdf b = Ok (out, e) ->
  out = b \/ (e = None /\ exists pre, b = pre ++ out /\ read_string b = Ok (sdf_name, lenN pre, out)).
Proof.
  unfold metadata_ensure_without_sdf. destruct (read_string_okr b) as (_ & _ & H3).
  destruct (read_string b) as [[[v l] rest]|e'|s]; [|intro H; inversion H; now left|discriminate].
  destruct (bytes_eqb v sdf_name) eqn:E; intro H; inversion H; subst; [|now left].
  right. split; [reflexivity|]. destruct (H3 _ _ _ eq_refl) as [_ [pre [Hb Hl]]].
  exists pre. split; [exact Hb|]. apply bytes_eqb_spec in E. now subst.
Qed.

(* with (with b) = with b *)
Lemma ensure_with_idem b out e :
  metadata_ensure_with_sdf b = Ok (out, e) -> metadata_ensure_with_sdf out = Ok (out, e).
Proof.
  unfold metadata_ensure_with_sdf at 1. destruct (read_string b) as [[[v l] rest]|e'|s] eqn:R; [| |discriminate].
  - destruct (bytes_eqb v sdf_name) eqn:E; intro H; inversion H; subst.
    + unfold metadata_ensure_with_sdf. now rewrite R, E.
    + unfold metadata_ensure_with_sdf. now rewrite read_string_sdf_prefix, bytes_eqb_refl.
  - intro H; inversion H; subst. unfold metadata_ensure_with_sdf. now rewrite R.
Qed.

(* without (with b) = without b *)
Lemma ensure_without_with b out e :
  metadata_ensure_with_sdf b = Ok (out, e) -> metadata_ensure_without_sdf out = metadata_ensure_without_sdf b.
Proof.
  unfold metadata_ensure_with_sdf. destruct (read_string b) as [[[v l] rest]|e'|s] eqn:R; [| |discriminate].
  - destruct (bytes_eqb v sdf_name) eqn:E; intro H; inversion H; subst; [reflexivity|].
    unfold metadata_ensure_without_sdf. now rewrite read_string_sdf_prefix, bytes_eqb_refl, R, E.
  - intro H; inversion H; subst. reflexivity.
Qed.

(* stripping what was just added gives the original bytes back *)
Lemma ensure_without_added b :
  metadata_ensure_without_sdf (sdf_prefix ++ b) = Ok (b, None).
Proof. unfold metadata_ensure_without_sdf. now rewrite read_string_sdf_prefix, bytes_eqb_refl. Qed.

(* without (without b) = without b unless the prefix was doubled *)
Lemma ensure_without_idem b out e :
  metadata_ensure_without_sdf b = Ok (out, e) ->
  (forall l rest, read_string out <> Ok (sdf_name, l, rest)) ->
  exists e', metadata_ensure_without_sdf out = Ok (out, e').
Proof.
  intros _ Hn. unfold metadata_ensure_without_sdf. destruct (read_string_okr out) as (_ & H2 & _).
  destruct (read_string out) as [[[v l] rest]|e'|s] eqn:R.
  - destruct (bytes_eqb v sdf_name) eqn:E; [|eauto].
    apply bytes_eqb_spec in E. subst. exfalso. exact (Hn l rest eq_refl).
  - eauto.
  - exfalso. exact (H2 s eq_refl).
Qed.

(* --- BuildMetadata read back by ParseMetadata ------------------------------ *)

Definition int64_ok (z : Z) : Prop := (- 9223372036854775808 <= z < 9223372036854775808)%Z.

Lemma opt_field_wf k z :
  lenN k < 65536 -> int64_ok z ->
  Forall (fun kv => lenN (fst kv) < 65536 /\ wval_ok cfg_fixed (snd kv)) (opt_field k z).
Proof.
  intros Hk Hz. unfold opt_field. destruct (z =? -1)%Z; constructor; [|constructor].
  split; [exact Hk|]. cbn [snd wval_ok]. apply f64_of_Z_bound, Hz.
Qed.

Lemma metadata_fields_wf enc ver w h a v :
  lenN enc < 4294967296 -> lenN ver < 4294967296 ->
  int64_ok w -> int64_ok h -> int64_ok a -> int64_ok v ->
  Forall (fun kv => lenN (fst kv) < 65536 /\ wval_ok cfg_fixed (snd kv)) (metadata_fields enc ver w h a v).
Proof.
  intros He Hv Hw Hh Ha Hvv. unfold metadata_fields.
  repeat (apply Forall_app; split); try (apply opt_field_wf; [reflexivity|assumption]).
  constructor; [|constructor; [|constructor]].
  - split; [reflexivity|]. cbn [snd wval_ok]. split; [exact He|now left].
  - split; [reflexivity|]. cbn [snd wval_ok]. split; [exact Hv|now left].
Qed.

Lemma parse_build_metadata enc ver w h a v :
  lenN enc < 4294967296 -> lenN ver < 4294967296 ->
  int64_ok w -> int64_ok h -> int64_ok a -> int64_ok v ->
  parse_metadata cfg_fixed (build_metadata enc ver w h a v)
  = (Ok (map (fun kv => (fst kv, aval_of_wval (snd kv))) (metadata_fields enc ver w h a v)), 1).
Proof.
  intros He Hv Hw Hh Ha Hvv. unfold parse_metadata, build_metadata.
  rewrite read_string_write by reflexivity. rewrite dbind_lift_ok.
  change (bytes_eqb on_meta_data sdf_name) with false. cbv iota.
  unfold read_object_or_array. unfold write_object at 1 2. cbn [len_ltb byte0]. rewrite dbind_lift_ok.
  change (3 =? 3) with true. cbv iota.
  change (3 :: write_pairs (metadata_fields enc ver w h a v)) with (write_object (metadata_fields enc ver w h a v)).
  rewrite <- (app_nil_r (write_object _)).
  rewrite read_object_write; [|reflexivity|apply metadata_fields_wf; assumption].
  reflexivity.
Qed.

(* --- ParseMetadata on arbitrary bytes: total, bounded ------------------------ *)

Lemma read_object_or_array_depth cfg m b :
  cfg_limit cfg = Some m -> snd (read_object_or_array cfg b) <= m.
Proof.
  intro H. pose proof (decode_depth cfg m H EObjectOrArray b) as D. cbn [decode] in D.
  eapply N.le_trans; [|exact D]. apply snd_dbind_ge.
Qed.

Definition no_crash {A} (r : res A) : Prop := r <> Err err_out_of_fuel /\ forall s, r <> Panic s.

Lemma roa_tail_no_crash cfg b :
  no_crash (fst (dbind (read_object_or_array cfg b) (fun '(opa, _, _) => dret opa))).
Proof.
  rewrite dbind_fst. destruct (read_object_or_array_okd cfg b) as (H1 & H2 & _).
  destruct (fst (read_object_or_array cfg b)) as [[[opa l] r]|e|s]; split; try discriminate.
  - intro E; inversion E; subst. contradiction.
  - intros s' E; inversion E; subst. exact (H2 s' eq_refl).
Qed.

Lemma parse_metadata_no_crash cfg b : no_crash (fst (parse_metadata cfg b)).
Proof.
  unfold parse_metadata. rewrite dbind_fst. cbn [dlift fst].
  destruct (read_string_okr b) as (H1 & H2 & _).
  destruct (read_string b) as [[[v l] rest]|e|s].
  - destruct (bytes_eqb v sdf_name); [|apply roa_tail_no_crash].
    rewrite dbind_fst. cbn [dlift fst].
    destruct (read_string_okr rest) as (G1 & G2 & _).
    destruct (read_string rest) as [[[v2 l2] rest2]|e|s].
    + apply roa_tail_no_crash.
    + split; [intro E; inversion E; subst; contradiction|discriminate].
    + exfalso. exact (G2 s eq_refl).
  - split; [intro E; inversion E; subst; contradiction|discriminate].
  - exfalso. exact (H2 s eq_refl).
Qed.

Lemma parse_metadata_depth cfg m b : cfg_limit cfg = Some m -> snd (parse_metadata cfg b) <= m.
Proof.
  intro H. unfold parse_metadata.
  apply snd_dbind_le; [apply snd_dlift|]. intros [[v l] rest].
  destruct (bytes_eqb v sdf_name).
  - apply snd_dbind_le; [apply snd_dlift|]. intros [[v2 l2] rest2].
    apply snd_dbind_le; [apply read_object_or_array_depth, H|]. intros [[opa l3] r3]. cbn. lia.
  - apply snd_dbind_le; [apply read_object_or_array_depth, H|]. intros [[opa l3] r3]. cbn. lia.
Qed.
