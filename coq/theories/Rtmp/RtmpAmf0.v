(* Model of pkg/rtmp/amf0.go: Amf0.Write* and Amf0.Read* (ReadObject /
   ReadArray / ReadStrictArray / read).  No proofs in this file.

   Numbers are 64-bit IEEE-754 bit patterns (an N below 2^64), never floats.
   Strings are byte lists (Go strings are arbitrary byte sequences).

   The readers are parameterised by [amf_cfg] so that the tree as pinned
   ([cfg_pinned]: no nesting limit, long-string marker refused inside
   containers) and the tree after the two fix commits ([cfg_fixed]) are both
   executable; the correspondence check runs [cfg_fixed].

   Every container reader returns, next to its ordinary result, the largest
   nesting depth it was entered at ([dres]): one level = one pair of Go frames
   (Amf0.read + Amf0.ReadObject/ReadArray/ReadStrictArray), reported on error
   paths too, because a stack exhaustion happens before any error is returned. *)
From Lal Require Import Common.LBytes Common.Res.
Open Scope N_scope.

(* error enum: base.ErrAmfTooShort, rtmp.ErrAmfNestingTooDeep (added by the
   fix), base.NewErrAmfInvalidType(b) *)
Definition e_short : N := 1.
Definition e_deep : N := 2.
Definition e_type (b : N) : N := 256 + b.

(* ------------------------------------------------------------------------ *)
(* values as the Go readers return them: float64 | bool | string |
   ObjectPairArray (object, ECMA array and strict array all become a pair
   list; strict array elements have the key "") *)
Inductive aval : Type :=
| ANum (bits : N)
| ABool (b : bool)
| AStr (s : bytes)
| APairs (l : list (bytes * aval)).
Definition plist := list (bytes * aval).

(* ------------------------------------------------------------------------ *)
(* float64(int): conversion of a Go int to the nearest binary64 (ties to
   even), as a bit pattern.  Used by WriteObject for int values. *)
Definition f64_of_Z (z : Z) : N :=
  match z with
  | Z0 => 0
  | _ =>
    let s := if (z <? 0)%Z then 9223372036854775808 else 0 in
    let m := Z.to_N (Z.abs z) in
    let e := N.log2 m in
    if e <=? 52 then s + (e + 1023) * 4503599627370496 + (m * 2 ^ (52 - e) - 4503599627370496)
    else
      let sh := e - 52 in
      let q := m / 2 ^ sh in
      let r := m mod 2 ^ sh in
      let half := 2 ^ (sh - 1) in
      let q' := if (half <? r) || ((r =? half) && N.odd q) then q + 1 else q in
      s + (e + 1023) * 4503599627370496 + (q' - 4503599627370496)
  end.

(* ------------------------------------------------------------------------ *)
(* writers *)

(* WriteNumber: marker 0x00, binary.Write(BigEndian, float64) *)
Definition write_number (bits : N) : bytes := 0 :: be_put 8 bits.

(* WriteString: len < 65536 -> 0x02 uint16(len) ; else 0x0c uint32(len) *)
Definition write_string (s : bytes) : bytes :=
  if lenN s <? 65536 then 2 :: be_put 2 (lenN s) ++ s
  else 12 :: be_put 4 (lenN s) ++ s.

Definition write_null : bytes := [5].
Definition write_boolean (b : bool) : bytes := [1; if b then 1 else 0].

(* the value kinds WriteObject accepts (anything else is Log.Panicf) *)
Inductive wval : Type :=
| WStr (s : bytes)
| WNum (bits : N)
| WInt (z : Z)
| WBool (b : bool).

Definition write_wval (v : wval) : bytes :=
  match v with
  | WStr s => write_string s
  | WNum n => write_number n
  | WInt z => write_number (f64_of_Z z)
  | WBool b => write_boolean b
  end.

Definition end_marker : bytes := [0; 0; 9].

(* key: uint16(len(key)) then the key bytes (all of them) *)
Fixpoint write_pairs (l : list (bytes * wval)) : bytes :=
  match l with
  | [] => end_marker
  | (k, v) :: t => be_put 2 (lenN k) ++ k ++ write_wval v ++ write_pairs t
  end.
Definition write_object (l : list (bytes * wval)) : bytes := 3 :: write_pairs l.

(* what the readers return for a written value *)
Definition aval_of_wval (v : wval) : aval :=
  match v with
  | WStr s => AStr s
  | WNum n => ANum n
  | WInt z => ANum (f64_of_Z z)
  | WBool b => ABool b
  end.

(* ------------------------------------------------------------------------ *)
(* checked accessors: Panic exactly when the Go index / slice expression
   would panic *)

(* len(b) < n, for the small constants of the explicit length checks *)
Fixpoint len_ltb (b : bytes) (n : nat) {struct n} : bool :=
  match n with
  | O => false
  | S k => match b with [] => true | _ :: t => len_ltb t k end
  end.

(* b[0] *)
Definition byte0 (site : N) (b : bytes) : res N :=
  match b with x :: _ => Ok x | [] => Panic site end.

(* bele.BeUintXX(b) / BeFloat64(b): reads n bytes, panics when fewer *)
Definition be_chk (site : N) (n : nat) (b : bytes) : res N :=
  if len_ltb b n then Panic site else Ok (be_get (firstn n b)).

(* "l > len(b)" test fused with the slice b[:l] / b[l:]; walks l elements
   only (l is attacker controlled: compared against the input before use) *)
Fixpoint take_n (b : bytes) (n : N) {struct b} : option (bytes * bytes) :=
  if n =? 0 then Some ([], b)
  else match b with
       | [] => None
       | x :: t => match take_n t (N.pred n) with
                   | Some (a, r) => Some (x :: a, r)
                   | None => None
                   end
       end.

(* ------------------------------------------------------------------------ *)
(* primitive readers.  Each returns (value, consumed, rest) with
   rest = b[consumed:]. *)

Definition read_string_wo (b : bytes) : res (bytes * N * bytes) :=
  if len_ltb b 2 then Err e_short
  else
    let* l := be_chk 1 2 b in
    match take_n (skipn 2 b) l with          (* l > len(b)-2 *)
    | None => Err e_short
    | Some (s, rest) => Ok (s, 2 + l, rest)
    end.

Definition read_long_string_wo (b : bytes) : res (bytes * N * bytes) :=
  if len_ltb b 4 then Err e_short
  else
    let* l := be_chk 2 4 b in
    match take_n (skipn 4 b) l with
    | None => Err e_short
    | Some (s, rest) => Ok (s, 4 + l, rest)
    end.

Definition read_string (b : bytes) : res (bytes * N * bytes) :=
  if len_ltb b 1 then Err e_short
  else
    let* m := byte0 3 b in
    if m =? 2 then
      let* (s, l, rest) := read_string_wo (skipn 1 b) in Ok (s, l + 1, rest)
    else if m =? 12 then
      let* (s, l, rest) := read_long_string_wo (skipn 1 b) in Ok (s, l + 1, rest)
    else Err (e_type m).

Definition read_number (b : bytes) : res (N * N * bytes) :=
  if len_ltb b 9 then Err e_short
  else
    let* m := byte0 4 b in
    if negb (m =? 0) then Err (e_type m)
    else let* v := be_chk 5 8 (skipn 1 b) in Ok (v, 9, skipn 9 b).

Definition read_boolean (b : bytes) : res (bool * N * bytes) :=
  if len_ltb b 2 then Err e_short
  else
    let* m := byte0 6 b in
    if negb (m =? 1) then Err (e_type m)
    else let* v := byte0 7 (skipn 1 b) in Ok (negb (v =? 0), 2, skipn 2 b).

Definition read_null (b : bytes) : res (N * bytes) :=
  if len_ltb b 1 then Err e_short
  else
    let* m := byte0 8 b in
    if negb (m =? 5) then Err (e_type m) else Ok (1, skipn 1 b).

Definition read_undefined_or_unsupported (b : bytes) : res (N * bytes) :=
  if len_ltb b 1 then Err e_short else Ok (1, skipn 1 b).

(* len(b)-index >= 3 && bytes.Equal(b[index:index+3], {0,0,9}) *)
Definition is_end (b : bytes) : bool :=
  match b with
  | 0 :: 0 :: 9 :: _ => true
  | _ => false
  end.

(* ------------------------------------------------------------------------ *)
(* configuration: pinned tree vs fixed tree *)
Record amf_cfg := mk_cfg {
  cfg_limit : option N;      (* Amf0MaxNestingDepth (None = unlimited) *)
  cfg_long_in_container : bool   (* `read` accepts marker 0x0c *)
}.
Definition max_nesting : N := 32.
Definition cfg_pinned : amf_cfg := {| cfg_limit := None; cfg_long_in_container := false |}.
Definition cfg_fixed : amf_cfg := {| cfg_limit := Some max_nesting; cfg_long_in_container := true |}.

Definition too_deep (cfg : amf_cfg) (depth : N) : bool :=
  match cfg_limit cfg with Some m => m <? depth | None => false end.

(* result + largest nesting depth reached while computing it *)
Definition dres (A : Type) : Type := (res A * N)%type.
Definition dlift {A} (r : res A) : dres A := (r, 0).
Definition dret {A} (a : A) : dres A := (Ok a, 0).
Definition dbind {A B} (r : dres A) (f : A -> dres B) : dres B :=
  match fst r with
  | Ok a => let r2 := f a in (fst r2, N.max (snd r) (snd r2))
  | Err e => (Err e, snd r)
  | Panic s => (Panic s, snd r)
  end.
Definition denter {A} (d : N) (r : dres A) : dres A := (fst r, N.max d (snd r)).

(* container reader signature: depth -> input -> (pairs, consumed, rest) *)
Definition creader := N -> bytes -> dres (plist * N * bytes).

(* Amf0.read(b, index, k, ops) on the suffix b[index:]: Some v = a pair (k, v)
   is appended, None = nothing appended (null / undefined / unsupported).
   [depth] is the depth of the container whose element is being read. *)
Definition elem_body (cfg : amf_cfg) (robj rarr rstrict : creader) (depth : N) (b : bytes)
  : dres (option aval * N * bytes) :=
  if len_ltb b 1 then dlift (Err e_short)
  else
    dbind (dlift (byte0 9 b)) (fun vt =>
    if vt =? 0 then
      dlift (let* (v, l, rest) := read_number b in Ok (Some (ANum v), l, rest))
    else if vt =? 1 then
      dlift (let* (v, l, rest) := read_boolean b in Ok (Some (ABool v), l, rest))
    else if (vt =? 2) || (cfg_long_in_container cfg && (vt =? 12)) then
      dlift (let* (v, l, rest) := read_string b in Ok (Some (AStr v), l, rest))
    else if vt =? 5 then
      dlift (let* (l, rest) := read_null b in Ok (None, l, rest))
    else if vt =? 3 then
      dbind (robj (depth + 1) b) (fun '(ops, l, rest) => dret (Some (APairs ops), l, rest))
    else if vt =? 8 then
      dbind (rarr (depth + 1) b) (fun '(ops, l, rest) => dret (Some (APairs ops), l, rest))
    else if vt =? 10 then
      dbind (rstrict (depth + 1) b) (fun '(ops, l, rest) => dret (Some (APairs ops), l, rest))
    else if (vt =? 6) || (vt =? 13) then
      dlift (let* (l, rest) := read_undefined_or_unsupported b in Ok (None, l, rest))
    else dlift (Err (e_type vt))).

Definition push_pair (k : bytes) (ov : option aval) (ops : plist) : plist :=
  match ov with Some v => (k, v) :: ops | None => ops end.

(* ReadObject: nesting check (fix), len(b) < 1, marker, then the pair loop *)
Definition object_body (cfg : amf_cfg) (loop : N -> bytes -> dres (plist * N * bytes))
           (depth : N) (b : bytes) : dres (plist * N * bytes) :=
  if too_deep cfg depth then dlift (Err e_deep)
  else denter depth (
    if len_ltb b 1 then dlift (Err e_short)
    else
      dbind (dlift (byte0 10 b)) (fun m =>
      if negb (m =? 3) then dlift (Err (e_type m))
      else dbind (loop depth (skipn 1 b)) (fun '(ops, l, rest) => dret (ops, 1 + l, rest)))).

(* ReadArray (ECMA array): len(b) < 5, marker, uint32 count, count pairs,
   optional end marker *)
Definition array_body (cfg : amf_cfg) (loop : N -> N -> bytes -> dres (plist * N * bytes))
           (depth : N) (b : bytes) : dres (plist * N * bytes) :=
  if too_deep cfg depth then dlift (Err e_deep)
  else denter depth (
    if len_ltb b 5 then dlift (Err e_short)
    else
      dbind (dlift (byte0 11 b)) (fun m =>
      if negb (m =? 8) then dlift (Err (e_type m))
      else
        dbind (dlift (be_chk 12 4 (skipn 1 b))) (fun count =>
        dbind (loop depth count (skipn 5 b)) (fun '(ops, l, rest) =>
        if is_end rest then dret (ops, 5 + l + 3, skipn 3 rest)
        else dret (ops, 5 + l, rest))))).

(* ReadStrictArray: len(b) < 5, marker, uint32 count, count values *)
Definition strict_body (cfg : amf_cfg) (loop : N -> N -> bytes -> dres (plist * N * bytes))
           (depth : N) (b : bytes) : dres (plist * N * bytes) :=
  if too_deep cfg depth then dlift (Err e_deep)
  else denter depth (
    if len_ltb b 5 then dlift (Err e_short)
    else
      dbind (dlift (byte0 13 b)) (fun m =>
      if negb (m =? 10) then dlift (Err (e_type m))
      else
        dbind (dlift (be_chk 14 4 (skipn 1 b))) (fun count =>
        dbind (loop depth count (skipn 5 b)) (fun '(ops, l, rest) => dret (ops, 5 + l, rest))))).

(* the three loops; fuel = remaining input length + 1 is enough because every
   recursive call is made on a strictly shorter input *)
Fixpoint obj_loop (fuel : nat) (cfg : amf_cfg) (depth : N) (b : bytes) {struct fuel}
  : dres (plist * N * bytes) :=
  match fuel with
  | O => dlift (Err err_out_of_fuel)
  | S f =>
    if is_end b then dret ([], 3, skipn 3 b)
    else
      dbind (dlift (read_string_wo b)) (fun '(k, l, b1) =>
      dbind (elem_body cfg (object_body cfg (obj_loop f cfg)) (array_body cfg (arr_loop f cfg))
                       (strict_body cfg (strict_loop f cfg)) depth b1) (fun '(ov, l2, b2) =>
      dbind (obj_loop f cfg depth b2) (fun '(ops, l3, b3) =>
      dret (push_pair k ov ops, l + l2 + l3, b3))))
  end
with arr_loop (fuel : nat) (cfg : amf_cfg) (depth : N) (count : N) (b : bytes) {struct fuel}
  : dres (plist * N * bytes) :=
  match fuel with
  | O => dlift (Err err_out_of_fuel)
  | S f =>
    if count =? 0 then dret ([], 0, b)
    else
      dbind (dlift (read_string_wo b)) (fun '(k, l, b1) =>
      dbind (elem_body cfg (object_body cfg (obj_loop f cfg)) (array_body cfg (arr_loop f cfg))
                       (strict_body cfg (strict_loop f cfg)) depth b1) (fun '(ov, l2, b2) =>
      dbind (arr_loop f cfg depth (N.pred count) b2) (fun '(ops, l3, b3) =>
      dret (push_pair k ov ops, l + l2 + l3, b3))))
  end
with strict_loop (fuel : nat) (cfg : amf_cfg) (depth : N) (count : N) (b : bytes) {struct fuel}
  : dres (plist * N * bytes) :=
  match fuel with
  | O => dlift (Err err_out_of_fuel)
  | S f =>
    if count =? 0 then dret ([], 0, b)
    else
      dbind (elem_body cfg (object_body cfg (obj_loop f cfg)) (array_body cfg (arr_loop f cfg))
                       (strict_body cfg (strict_loop f cfg)) depth b) (fun '(ov, l2, b2) =>
      dbind (strict_loop f cfg depth (N.pred count) b2) (fun '(ops, l3, b3) =>
      dret (push_pair [] ov ops, l2 + l3, b3)))
  end.

Definition fuel_for (b : bytes) : nat := S (length b).

(* exported entry points: a top-level container is at depth 1 *)
Definition read_object (cfg : amf_cfg) (b : bytes) : dres (plist * N * bytes) :=
  object_body cfg (obj_loop (fuel_for b) cfg) 1 b.
Definition read_array (cfg : amf_cfg) (b : bytes) : dres (plist * N * bytes) :=
  array_body cfg (arr_loop (fuel_for b) cfg) 1 b.
Definition read_strict_array (cfg : amf_cfg) (b : bytes) : dres (plist * N * bytes) :=
  strict_body cfg (strict_loop (fuel_for b) cfg) 1 b.

Definition read_object_or_array (cfg : amf_cfg) (b : bytes) : dres (plist * N * bytes) :=
  if len_ltb b 1 then dlift (Err e_short)
  else
    dbind (dlift (byte0 15 b)) (fun m =>
    if m =? 3 then read_object cfg b
    else if m =? 8 then read_array cfg b
    else dlift (Err (e_type m))).

(* ------------------------------------------------------------------------ *)
(* one decoder over all exported readers, for the totality theorem and the
   correspondence op *)
Inductive entry : Type :=
| EStringWo | ELongStringWo | EString | ENumber | EBoolean | ENull | EUndefined
| EObject | EArray | EStrictArray | EObjectOrArray.

Inductive dval : Type :=
| DNone | DNum (bits : N) | DBool (b : bool) | DStr (s : bytes) | DPairs (l : plist).

Definition decode (cfg : amf_cfg) (e : entry) (b : bytes) : dres (dval * N * bytes) :=
  match e with
  | EStringWo => dlift (let* (s, l, r) := read_string_wo b in Ok (DStr s, l, r))
  | ELongStringWo => dlift (let* (s, l, r) := read_long_string_wo b in Ok (DStr s, l, r))
  | EString => dlift (let* (s, l, r) := read_string b in Ok (DStr s, l, r))
  | ENumber => dlift (let* (v, l, r) := read_number b in Ok (DNum v, l, r))
  | EBoolean => dlift (let* (v, l, r) := read_boolean b in Ok (DBool v, l, r))
  | ENull => dlift (let* (l, r) := read_null b in Ok (DNone, l, r))
  | EUndefined => dlift (let* (l, r) := read_undefined_or_unsupported b in Ok (DNone, l, r))
  | EObject => dbind (read_object cfg b) (fun '(o, l, r) => dret (DPairs o, l, r))
  | EArray => dbind (read_array cfg b) (fun '(o, l, r) => dret (DPairs o, l, r))
  | EStrictArray => dbind (read_strict_array cfg b) (fun '(o, l, r) => dret (DPairs o, l, r))
  | EObjectOrArray => dbind (read_object_or_array cfg b) (fun '(o, l, r) => dret (DPairs o, l, r))
  end.

(* ------------------------------------------------------------------------ *)
(* Independent reference: AMF0 value trees and their encoding as in the
   "Action Message Format -- AMF 0" specification (sections 2.2-2.13). *)
Inductive sval : Type :=
| SNum (bits : N)                      (* 2.2 number-type *)
| SBool (b : bool)                     (* 2.3 boolean-type *)
| SStr (s : bytes)                     (* 2.4 string-type / 2.14 long-string-type by length *)
| SObj (l : list (bytes * sval))       (* 2.5 object-type *)
| SNull                                (* 2.7 *)
| SUndef                               (* 2.8 *)
| SEcma (l : list (bytes * sval))      (* 2.10 ecma-array-type, count = number of pairs *)
| SStrict (l : list sval)              (* 2.12 strict-array-type *)
| SUnsupported.                        (* 2.13 *)

Fixpoint enc (v : sval) : bytes :=
  match v with
  | SNum n => 0 :: be_put 8 n
  | SBool b => [1; if b then 1 else 0]
  | SStr s => if lenN s <? 65536 then 2 :: be_put 2 (lenN s) ++ s else 12 :: be_put 4 (lenN s) ++ s
  | SObj l =>
      3 :: (fix go (l : list (bytes * sval)) : bytes :=
              match l with
              | [] => [0; 0; 9]
              | (k, x) :: t => be_put 2 (lenN k) ++ k ++ enc x ++ go t
              end) l
  | SNull => [5]
  | SUndef => [6]
  | SEcma l =>
      8 :: be_put 4 (lenN l) ++
        (fix go (l : list (bytes * sval)) : bytes :=
           match l with
           | [] => [0; 0; 9]
           | (k, x) :: t => be_put 2 (lenN k) ++ k ++ enc x ++ go t
           end) l
  | SStrict l =>
      10 :: be_put 4 (lenN l) ++
        (fix go (l : list sval) : bytes :=
           match l with
           | [] => []
           | x :: t => enc x ++ go t
           end) l
  | SUnsupported => [13]
  end.

(* how lal's readers present a spec value: container kinds collapse to a pair
   list, strict-array elements get the key "", null / undefined / unsupported
   members are dropped *)
Fixpoint interp (v : sval) : option aval :=
  match v with
  | SNum n => Some (ANum n)
  | SBool b => Some (ABool b)
  | SStr s => Some (AStr s)
  | SObj l =>
      Some (APairs ((fix go (l : list (bytes * sval)) : plist :=
                       match l with
                       | [] => []
                       | (k, x) :: t => push_pair k (interp x) (go t)
                       end) l))
  | SEcma l =>
      Some (APairs ((fix go (l : list (bytes * sval)) : plist :=
                       match l with
                       | [] => []
                       | (k, x) :: t => push_pair k (interp x) (go t)
                       end) l))
  | SStrict l =>
      Some (APairs ((fix go (l : list sval) : plist :=
                       match l with
                       | [] => []
                       | x :: t => push_pair [] (interp x) (go t)
                       end) l))
  | SNull | SUndef | SUnsupported => None
  end.

(* nesting depth of a value: scalars 0, a container 1 + its deepest member *)
Fixpoint sdepth (v : sval) : N :=
  match v with
  | SObj l | SEcma l =>
      1 + (fix go (l : list (bytes * sval)) : N :=
             match l with [] => 0 | (_, x) :: t => N.max (sdepth x) (go t) end) l
  | SStrict l =>
      1 + (fix go (l : list sval) : N :=
             match l with [] => 0 | x :: t => N.max (sdepth x) (go t) end) l
  | _ => 0
  end.

(* field widths respected: numbers below 2^64, keys below 2^16 bytes, strings
   and element counts below 2^32 *)
Fixpoint swf (v : sval) : bool :=
  match v with
  | SNum n => n <? 18446744073709551616
  | SStr s => lenN s <? 4294967296
  | SObj l | SEcma l =>
      (lenN l <? 4294967296) &&
      (fix go (l : list (bytes * sval)) : bool :=
         match l with [] => true | (k, x) :: t => (lenN k <? 65536) && swf x && go t end) l
  | SStrict l =>
      (lenN l <? 4294967296) &&
      (fix go (l : list sval) : bool :=
         match l with [] => true | x :: t => swf x && go t end) l
  | _ => true
  end.
