(* Fuel-free equations for the chunk composer model and stage lemmas. *)
From Lal Require Import Common.LBytes Common.Res Common.LBytesRead Common.NAssoc
  Common.LBytesProofs Common.LBytesReadProofs Common.NAssocProofs Rtmp.RtmpChunk Rtmp.RtmpComposer.
From Coq Require Import Lia ZifyN ZifyNat ZifyBool.
Ltac Zify.zify_post_hook ::= Z.div_mod_to_equations.
Open Scope N_scope.

Lemma frev_rev l : frev l = rev l.
Proof. unfold frev. symmetry. apply rev_alt. Qed.

(* ------------------------------------------------------------------ *)
(* every stage consumes a prefix *)
Lemma read_basic_length l fmt csid l1 :
  read_basic l = Ok (fmt, csid, l1) -> (length l1 < length l)%nat.
Proof.
  unfold read_basic. destruct l as [|b0 l0]; [discriminate|].
  destruct (b0 mod 64 =? 0).
  - destruct l0 as [|b1 l2]; [discriminate|]. intro H; inversion H; subst. cbn [length]. lia.
  - destruct (b0 mod 64 =? 1).
    + destruct l0 as [|b1 [|b2 l2]]; try discriminate. intro H; inversion H; subst. cbn [length]. lia.
    + intro H; inversion H; subst. cbn [length]. lia.
Qed.

Lemma read_msg_header_length fmt s l s' l' :
  read_msg_header fmt s l = Ok (s', l') -> (length l' <= length l)%nat.
Proof.
  unfold read_msg_header.
  destruct (fmt =? 0).
  { destruct (takeN l 11) as [[b r]|] eqn:E; [|discriminate]. intro H; inversion H; subst. eapply takeN_length; eauto. }
  destruct (fmt =? 1).
  { destruct (takeN l 7) as [[b r]|] eqn:E; [|discriminate]. intro H; inversion H; subst. eapply takeN_length; eauto. }
  destruct (fmt =? 2).
  { destruct (takeN l 3) as [[b r]|] eqn:E; [|discriminate]. intro H; inversion H; subst. eapply takeN_length; eauto. }
  intro H; inversion H; subst. lia.
Qed.

Lemma read_ext_ts_length fmt s l s' l' :
  read_ext_ts fmt s l = Ok (s', l') -> (length l' <= length l)%nat.
Proof.
  unfold read_ext_ts. destruct (max_ts <=? s_ts s).
  - destruct (takeN l 4) as [[b r]|] eqn:E; [|discriminate]. intro H; inversion H; subst. eapply takeN_length; eauto.
  - intro H; inversion H; subst. lia.
Qed.

Lemma compose_chunk_consumes v st l st' out rest :
  compose_chunk v st l = Next st' out rest -> (length rest < length l)%nat.
Proof.
  unfold compose_chunk.
  destruct (read_basic l) as [[[fmt csid] l1]|e|e] eqn:E1; try discriminate.
  apply read_basic_length in E1.
  destruct (read_msg_header fmt (get_or_new csid st) l1) as [[s1 l2]|e|e] eqn:E2; try discriminate.
  apply read_msg_header_length in E2.
  destruct (read_ext_ts fmt s1 l2) as [[s2 l3]|e|e] eqn:E3; try discriminate.
  apply read_ext_ts_length in E3.
  unfold compose_body.
  destruct (rv_grow_received v && (h_len (s_hdr s2) <? s_len s2)); [discriminate|].
  destruct (read_body l3 (needed_size v (cs_chunk st) s2) (s_rbuf s2)) as [[rbuf l4]|] eqn:E4; try discriminate.
  apply read_body_length in E4.
  cbn [s_len s_hdr].
  match goal with |- (if ?c then _ else _) = _ -> _ => destruct c end.
  - match goal with |- (if ?c then _ else _) = _ -> _ => destruct c end.
    + destruct (agg_loop _ _ _ _ _ _) as [[ms lft] [e|]]; intro H; inversion H; subst. lia.
    + intro H; inversion H; subst. lia.
  - match goal with |- (if ?c then _ else _) = _ -> _ => destruct c end; intro H; inversion H; subst. lia.
Qed.

(* ------------------------------------------------------------------ *)
(* fuel is irrelevant once it exceeds the input length *)
Lemma run_loop_fuel v : forall n f st l,
  (length l < n)%nat -> (length l < f)%nat ->
  run_loop f v st l = run_loop (S (length l)) v st l.
Proof.
  induction n as [|n IH]; intros f st l Hn Hf; [lia|].
  destruct f as [|f]; [lia|].
  cbn [run_loop].
  destruct (compose_chunk v st l) as [st' out rest|st' out e] eqn:E; [|reflexivity].
  apply compose_chunk_consumes in E.
  rewrite (IH f st' rest) by lia.
  rewrite (IH (length l) st' rest) by lia.
  reflexivity.
Qed.

Lemma run_composer_next v st l st' out rest :
  compose_chunk v st l = Next st' out rest ->
  run_composer_v v st l =
    let '(st'', outs, e) := run_composer_v v st' rest in (st'', out ++ outs, e).
Proof.
  intro E. unfold run_composer_v. cbn [run_loop]. rewrite E.
  pose proof (compose_chunk_consumes _ _ _ _ _ _ E) as Hlt.
  rewrite (run_loop_fuel v (S (length l)) (length l) st' rest) by lia.
  reflexivity.
Qed.

Lemma run_composer_stop v st l st' out e :
  compose_chunk v st l = Stop st' out e -> run_composer_v v st l = (st', out, e).
Proof. intro E. unfold run_composer_v. cbn [run_loop]. now rewrite E. Qed.

Lemma run_composer_nil v st : run_composer_v v st [] = (st, [], err_eof).
Proof. reflexivity. Qed.
