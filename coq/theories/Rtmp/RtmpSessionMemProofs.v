(* Memory bound of the repaired chunk composer: what the message buffers of one
   session hold is proportional to the bytes the peer actually sent. *)
From Lal Require Import Common.LBytes Common.Res Common.LBytesRead Common.NAssoc
  Common.LBytesProofs Common.LBytesReadProofs Common.NAssocProofs
  Rtmp.RtmpChunk Rtmp.RtmpComposer Rtmp.RtmpComposerProofs Rtmp.RtmpHandshake Rtmp.RtmpHandshakeProofs
  Rtmp.RtmpSession Rtmp.RtmpSessionProofs.
From Coq Require Import Lia ZifyN ZifyNat ZifyBool.
Ltac Zify.zify_post_hook ::= Z.div_mod_to_equations.
Open Scope N_scope.

(* ------------------------------------------------------------------------ *)
(* nazabytes.Buffer.Grow *)

Lemma pow2_ceil_lt n : 1 < n -> pow2_ceil n < 2 * n.
Proof.
  intro H. unfold pow2_ceil.
  pose proof (N.log2_up_spec n H) as [H1 _].
  pose proof (N.log2_up_pos n H) as Hp.
  replace (N.log2_up n) with (N.succ (N.pred (N.log2_up n))) by (apply N.succ_pred; lia).
  rewrite N.pow_succ_r'. lia.
Qed.

Lemma grow_cap_bound cap len p :
  p <= N.max len init_msg_len -> grow_cap cap len p <= N.max cap (3 * len + 8192).
Proof.
  unfold grow_cap, init_msg_len. intro Hp.
  destruct (p <=? cap - len); [lia|].
  destruct (N.leb_spec p 128); [lia|].
  destruct (N.ltb_spec p 1048576); [|lia].
  pose proof (pow2_ceil_lt p ltac:(lia)). lia.
Qed.

(* the piece loop: the capacity never exceeds 3 * (bytes held) + 8192, whatever was declared *)
Definition piece_inv (len0 avail0 need0 cap0 : N) (st : N * N * N * N * bool) : Prop :=
  let '(lft, avail, len, cap, stopped) := st in
  cap <= N.max cap0 (3 * len + 8192) /\ len + avail = len0 + avail0 /\ len + lft = len0 + need0.

Lemma piece_step_inv mlen len0 avail0 need0 cap0 st :
  piece_inv len0 avail0 need0 cap0 st -> piece_inv len0 avail0 need0 cap0 (piece_step mlen st).
Proof.
  destruct st as [[[[lft avail] len] cap] stopped]. unfold piece_inv, piece_step.
  intros (H1 & H2 & H3).
  destruct (stopped || (lft =? 0)); [repeat split; assumption|].
  set (p := N.min lft (N.max len init_msg_len)).
  set (room := N.min (mlen - len) (N.max len init_msg_len)).
  pose proof (grow_cap_bound cap len room ltac:(subst room; lia)) as Hg.
  set (cap' := if p <=? cap - len then cap else grow_cap cap len room).
  assert (Hc : cap' <= N.max cap0 (3 * len + 8192)) by (subst cap'; destruct (p <=? cap - len); lia).
  destruct (N.leb_spec p avail).
  - repeat split; [|lia|subst p; lia]. unfold init_msg_len in *. lia.
  - repeat split; [lia|assumption|assumption].
Qed.

Lemma pieces_cap_bound mlen need avail len cap :
  pieces_cap mlen need avail len cap <= N.max cap (3 * (len + N.min need avail) + 8192).
Proof.
  unfold pieces_cap.
  pose proof (N.iter_invariant 40 _ (piece_step mlen) (piece_inv len avail need cap)
                (fun x Hx => piece_step_inv mlen len avail need cap x Hx) (need, avail, len, cap, false)) as H.
  destruct (N.iter 40 (piece_step mlen) (need, avail, len, cap, false)) as [[[[lft av] ln] cp] stp].
  unfold piece_inv in H. destruct H as (H1 & H2 & H3); [repeat split; lia|]. lia.
Qed.

Lemma avail_upto_spec : forall l n acc, avail_upto l n acc = acc + N.min n (lenN l).
Proof.
  induction l as [|x t IH]; intros n acc; cbn [avail_upto].
  - destruct (N.eqb_spec n 0); rewrite lenN_nil; lia.
  - destruct (N.eqb_spec n 0); [subst; lia|]. rewrite IH, lenN_cons. lia.
Qed.

(* ------------------------------------------------------------------------ *)
(* bookkeeping over the shadow *)

Definition got_sum (m : mem) : N := fold_right (fun e acc => me_got (snd e) + acc) 0 m.
Definition me_ok (e : mentry) : Prop := me_cap e <= 3 * me_got e + 8192.
Definition all_ok (m : mem) : Prop := Forall (fun p => me_ok (snd p)) m.

Lemma nset_all_ok k e m : all_ok m -> me_ok e -> all_ok (nset k e m).
Proof.
  unfold all_ok. induction m as [|[k0 e0] t IH]; intros Hm He; cbn [nset].
  - constructor; [exact He|constructor].
  - inversion Hm; subst. destruct (k0 =? k); constructor; auto.
Qed.

Lemma nget_all_ok k e m : all_ok m -> nget k m = Some e -> me_ok e.
Proof.
  unfold all_ok. induction m as [|[k0 e0] t IH]; intros Hm Hg; cbn [nget] in Hg; [discriminate|].
  inversion Hm; subst. destruct (k0 =? k); [inversion Hg; subst; assumption|auto].
Qed.

Lemma mem_get_ok k m : all_ok m -> me_ok (mem_get k m).
Proof.
  intro H. unfold mem_get. destruct (nget k m) as [e|] eqn:E; [eapply nget_all_ok; eassumption|].
  unfold me_ok, init_msg_len. cbn. lia.
Qed.

(* replacing or appending one entry *)
Lemma nset_sums k e m :
  got_sum (nset k e m) + me_got (mem_get k m) = got_sum m + me_got e /\
  lenN (nset k e m) <= lenN m + 1 /\
  (forall e0, nget k m = Some e0 -> lenN (nset k e m) = lenN m).
Proof.
  unfold mem_get, got_sum. induction m as [|[k0 e0] t IH]; cbn [nset nget fold_right snd].
  - cbn. split; [lia|]. split; [lia|discriminate].
  - destruct (k0 =? k) eqn:Ek.
    + cbn [fold_right snd]. split; [lia|]. split; [rewrite !lenN_cons; lia|intros; rewrite !lenN_cons; reflexivity].
    + destruct IH as (I1 & I2 & I3). cbn [fold_right snd].
      split; [lia|]. split; [rewrite !lenN_cons; lia|intros e1 H1; rewrite !lenN_cons, (I3 e1 H1); reflexivity].
Qed.

Lemma reserved_bound m : all_ok m -> mem_reserved m <= 3 * got_sum m + 8192 * lenN m.
Proof.
  unfold all_ok, mem_reserved, got_sum. induction m as [|[k e] t IH]; intro H; cbn [fold_right snd].
  - cbn. lia.
  - inversion H; subst. specialize (IH H3). unfold me_ok in H2. cbn [snd] in H2. rewrite lenN_cons. lia.
Qed.

Lemma mem_get_nset_same k e m : mem_get k (nset k e m) = e.
Proof. unfold mem_get. now rewrite nget_nset_same. Qed.
Lemma mem_get_nset_other k k' e m : k <> k' -> mem_get k' (nset k e m) = mem_get k' m.
Proof. intro H. unfold mem_get. now rewrite nget_nset_other. Qed.

(* ------------------------------------------------------------------------ *)
(* facts about the composer's stages *)

Lemma read_msg_header_slen fmt s l s' l' : read_msg_header fmt s l = Ok (s', l') -> s_len s' = s_len s.
Proof.
  unfold read_msg_header.
  destruct (fmt =? 0); [destruct (takeN l 11) as [[b r]|]; [|discriminate]; intro H; inversion H; reflexivity|].
  destruct (fmt =? 1); [destruct (takeN l 7) as [[b r]|]; [|discriminate]; intro H; inversion H; reflexivity|].
  destruct (fmt =? 2); [destruct (takeN l 3) as [[b r]|]; [|discriminate]; intro H; inversion H; reflexivity|].
  intro H; inversion H; reflexivity.
Qed.

Lemma read_ext_ts_slen fmt s l s' l' : read_ext_ts fmt s l = Ok (s', l') -> s_len s' = s_len s.
Proof.
  unfold read_ext_ts. destruct (max_ts <=? s_ts s).
  - destruct (takeN l 4) as [[b r]|]; [|discriminate]. intro H; inversion H; reflexivity.
  - intro H; inversion H; reflexivity.
Qed.

Lemma agg_loop_none : forall fuel v parent first base buf ms lft,
  agg_loop fuel v parent first base buf = (ms, lft, None) -> lft = [].
Proof.
  induction fuel as [|f IH]; intros v parent first base buf ms lft; cbn [agg_loop].
  - destruct buf; intro H; inversion H; reflexivity.
  - destruct buf as [|b0 bt]; [intro H; inversion H; reflexivity|].
    destruct (takeN (b0 :: bt) 11) as [[hd r1]|]; [|intro H; inversion H].
    match goal with |- context [takeN r1 ?n] => destruct (takeN r1 n) as [[body r2]|] end; [|intro H; inversion H].
    destruct (takeN r2 4) as [[p r3]|]; [|intro H; inversion H].
    match goal with |- context [agg_loop f ?a ?b ?c ?d ?e] => destruct (agg_loop f a b c d e) as [[ms' lft'] e'] eqn:E end.
    intro H; inversion H; subst. eapply IH; eassumption.
Qed.

Lemma get_or_new_set_same csid s chunk streams :
  get_or_new csid (mk_cstate chunk (set_stream csid s streams)) = s.
Proof. unfold get_or_new, get_stream, set_stream. cbn [cs_streams]. now rewrite nget_nset_same. Qed.
Lemma get_or_new_set_other csid c s chunk st :
  c <> csid -> get_or_new c (mk_cstate chunk (set_stream csid s (cs_streams st))) = get_or_new c st.
Proof.
  intro H. unfold get_or_new, get_stream, set_stream. cbn [cs_streams].
  rewrite nget_nset_other by (intro; subst; contradiction). reflexivity.
Qed.

Lemma read_body_len l n acc a r : read_body l n acc = Some (a, r) -> lenN l = n + lenN r.
Proof.
  rewrite read_body_takeN. destruct (takeN l n) as [[x y]|] eqn:E; [|discriminate].
  intro H; inversion H; subst. apply takeN_some in E. destruct E as [-> Hl]. rewrite lenN_app. lia.
Qed.

(* a chunk of the repaired composer that went through: the body bytes it asked for were all there,
   the chunk stream holds at most what it held plus those bytes, the others are untouched *)
Lemma compose_body_next st csid s2 l3 st' out rest :
  compose_body rv_fixed st csid s2 l3 = Next st' out rest ->
  (h_len (s_hdr s2) <? s_len s2) = false /\
  lenN l3 = needed_size rv_fixed (cs_chunk st) s2 + lenN rest /\
  s_len (get_or_new csid st') <= s_len s2 + needed_size rv_fixed (cs_chunk st) s2 /\
  (forall c, c <> csid -> get_or_new c st' = get_or_new c st).
Proof.
  unfold compose_body. cbn [rv_grow_received rv_fixed andb].
  destruct (h_len (s_hdr s2) <? s_len s2) eqn:El; [discriminate|].
  set (need := needed_size rv_fixed (cs_chunk st) s2).
  destruct (read_body l3 need (s_rbuf s2)) as [[rbuf l4]|] eqn:E4; [|discriminate].
  apply read_body_len in E4.
  cbn [s_len s_hdr s_abs s_ts].
  match goal with |- (if ?c then _ else _) = _ -> _ => destruct c end.
  - match goal with |- (if ?c then _ else _) = _ -> _ => destruct c end.
    + destruct (agg_loop _ _ _ _ _ _) as [[ms lft] [e|]] eqn:Ea; intro H; inversion H; subst.
      apply agg_loop_none in Ea. subst lft.
      split; [reflexivity|]. split; [exact E4|]. split.
      * rewrite get_or_new_set_same. cbn [s_len]. rewrite lenN_nil. lia.
      * intros c Hc. apply get_or_new_set_other, Hc.
    + intro H; inversion H; subst.
      split; [reflexivity|]. split; [exact E4|]. split.
      * rewrite get_or_new_set_same. cbn [s_len]. lia.
      * intros c Hc. apply get_or_new_set_other, Hc.
  - match goal with |- (if ?c then _ else _) = _ -> _ => destruct c end; intro H; inversion H; subst.
    split; [reflexivity|]. split; [exact E4|]. unfold put_stream. split.
    + rewrite get_or_new_set_same. cbn [s_len]. lia.
    + intros c Hc. apply get_or_new_set_other, Hc.
Qed.

Lemma compose_chunk_stages v st l st' out rest :
  compose_chunk v st l = Next st' out rest ->
  exists fmt csid l1 s1 l2 s2 l3,
    read_basic l = Ok (fmt, csid, l1) /\
    read_msg_header fmt (get_or_new csid st) l1 = Ok (s1, l2) /\
    read_ext_ts fmt s1 l2 = Ok (s2, l3) /\
    compose_body v st csid s2 l3 = Next st' out rest.
Proof.
  unfold compose_chunk.
  destruct (read_basic l) as [[[fmt csid] l1]|e|e] eqn:E1; try discriminate.
  destruct (read_msg_header fmt (get_or_new csid st) l1) as [[s1 l2]|e|e] eqn:E2; try discriminate.
  destruct (read_ext_ts fmt s1 l2) as [[s2 l3]|e|e] eqn:E3; try discriminate.
  intro H. exists fmt, csid, l1, s1, l2, s2, l3. split; [reflexivity|]. split; [exact E2|]. split; [exact E3|exact H].
Qed.

(* ------------------------------------------------------------------------ *)
(* one iteration of the read loop *)

(* a chunk stream never holds more bytes of a message than were received on it *)
Definition Bnd (cst : cstate) (m : mem) : Prop :=
  forall c, s_len (get_or_new c cst) <= me_got (mem_get c m).

Lemma entry_same csid m cap g0 c0 (l : bytes) :
  mem_get csid m = mk_me c0 g0 -> all_ok m -> cap <= 3 * g0 + 8192 -> l <> [] ->
  all_ok (nset csid (mk_me cap g0) m) /\
  got_sum (nset csid (mk_me cap g0) m) + lenN (nset csid (mk_me cap g0) m) <= got_sum m + lenN m + lenN l.
Proof.
  intros Hg Hok Hc Hl. split; [apply nset_all_ok; [assumption|exact Hc]|].
  destruct (nset_sums csid (mk_me cap g0) m) as (S1 & S2 & _). rewrite Hg in S1. cbn [me_got] in S1.
  assert (1 <= lenN l) by (destruct l; [contradiction|rewrite lenN_cons; lia]). lia.
Qed.

(* whatever happens to the chunk (also when the input ends inside it) *)
Lemma mem_chunk_any cst l m :
  all_ok m -> Bnd cst m ->
  all_ok (mem_chunk rv_fixed cst l m) /\
  got_sum (mem_chunk rv_fixed cst l m) + lenN (mem_chunk rv_fixed cst l m) <= got_sum m + lenN m + lenN l.
Proof.
  intros Hok HB. unfold mem_chunk.
  destruct (read_basic l) as [[[fmt csid] l1]|e|e] eqn:E1; [|split; [assumption|lia]..].
  assert (Hl : l <> []) by (intro; subst; discriminate).
  apply read_basic_length in E1.
  destruct (mem_get csid m) as [c0 g0] eqn:Eg.
  pose proof (mem_get_ok csid m Hok) as He0. rewrite Eg in He0. unfold me_ok in He0. cbn [me_cap me_got] in He0.
  pose proof (HB csid) as Hb. rewrite Eg in Hb. cbn [me_got] in Hb.
  cbn [rv_grow_received rv_fixed negb andb me_cap me_got].
  destruct (read_msg_header fmt (get_or_new csid cst) l1) as [[s1 l2]|e|e] eqn:E2;
    [|apply (entry_same csid m c0 g0 c0 l Eg Hok He0 Hl)..].
  pose proof (read_msg_header_slen _ _ _ _ _ E2) as Hs1. apply read_msg_header_length in E2.
  destruct (read_ext_ts fmt s1 l2) as [[s2 l3]|e|e] eqn:E3;
    [|apply (entry_same csid m c0 g0 c0 l Eg Hok He0 Hl)..].
  pose proof (read_ext_ts_slen _ _ _ _ _ E3) as Hs2. apply read_ext_ts_length in E3.
  destruct (h_len (s_hdr s2) <? s_len s2); [apply (entry_same csid m c0 g0 c0 l Eg Hok He0 Hl)|].
  rewrite avail_upto_spec, N.add_0_l.
  set (need := needed_size rv_fixed (cs_chunk cst) s2).
  set (avail := N.min need (lenN l3)).
  pose proof (pieces_cap_bound (h_len (s_hdr s2)) need avail (s_len s2) c0) as Hp.
  assert (Ha : avail + 1 <= lenN l) by (subst avail; unfold lenN in *; lia).
  split.
  - apply nset_all_ok; [assumption|]. unfold me_ok. cbn [me_cap me_got]. lia.
  - destruct (nset_sums csid (mk_me (pieces_cap (h_len (s_hdr s2)) need avail (s_len s2) c0) (g0 + avail)) m) as (S1 & S2 & _).
    rewrite Eg in S1. cbn [me_got] in S1. lia.
Qed.

(* ... and when it went through *)
Lemma mem_chunk_next cst l m cst' out rest :
  compose_chunk rv_fixed cst l = Next cst' out rest ->
  all_ok m -> Bnd cst m ->
  let m1 := mem_chunk rv_fixed cst l m in
  all_ok m1 /\ Bnd cst' m1 /\
  got_sum m1 + lenN m1 + lenN rest <= got_sum m + lenN m + lenN l /\
  (forall fmt csid l1, read_basic l = Ok (fmt, csid, l1) -> nget csid m1 <> None).
Proof.
  intros Hc Hok HB.
  destruct (compose_chunk_stages _ _ _ _ _ _ Hc) as (fmt & csid & l1 & s1 & l2 & s2 & l3 & E1 & E2 & E3 & Eb).
  destruct (compose_body_next _ _ _ _ _ _ _ Eb) as (Hlt & Hlen & Hsl & Hoth).
  cbn zeta. unfold mem_chunk. rewrite E1, E2, E3.
  destruct (mem_get csid m) as [c0 g0] eqn:Eg.
  pose proof (mem_get_ok csid m Hok) as He0. rewrite Eg in He0. unfold me_ok in He0. cbn [me_cap me_got] in He0.
  pose proof (HB csid) as Hb. rewrite Eg in Hb. cbn [me_got] in Hb.
  pose proof (read_msg_header_slen _ _ _ _ _ E2) as Hs1.
  pose proof (read_ext_ts_slen _ _ _ _ _ E3) as Hs2.
  cbn [rv_grow_received rv_fixed negb andb me_cap me_got]. rewrite Hlt.
  rewrite avail_upto_spec, N.add_0_l.
  set (need := needed_size rv_fixed (cs_chunk cst) s2) in *.
  assert (Hav : N.min need (lenN l3) = need) by lia. rewrite Hav.
  pose proof (pieces_cap_bound (h_len (s_hdr s2)) need need (s_len s2) c0) as Hp.
  apply read_basic_length in E1. apply read_msg_header_length in E2. apply read_ext_ts_length in E3.
  set (e1 := mk_me (pieces_cap (h_len (s_hdr s2)) need need (s_len s2) c0) (g0 + need)).
  split; [apply nset_all_ok; [assumption|unfold me_ok; subst e1; cbn [me_cap me_got]; lia]|].
  split.
  - intro c. destruct (N.eq_dec c csid) as [->|Hne].
    + rewrite mem_get_nset_same. subst e1. cbn [me_got]. lia.
    + rewrite mem_get_nset_other by (intro; subst; contradiction). rewrite (Hoth c Hne). apply HB.
  - split.
    + destruct (nset_sums csid e1 m) as (S1 & S2 & _). rewrite Eg in S1. subst e1. cbn [me_got] in S1.
      unfold lenN in *. lia.
    + intros fmt' csid' l1' Hx. inversion Hx; subst. rewrite nget_nset_same. discriminate.
Qed.

Lemma mem_done_ok cst' l out m1 :
  all_ok m1 -> Bnd cst' m1 ->
  (forall fmt csid l1, read_basic l = Ok (fmt, csid, l1) -> nget csid m1 <> None) ->
  all_ok (mem_done cst' l out m1) /\ Bnd cst' (mem_done cst' l out m1) /\
  got_sum (mem_done cst' l out m1) + lenN (mem_done cst' l out m1) = got_sum m1 + lenN m1.
Proof.
  intros Hok HB Hin. unfold mem_done, completed_plain.
  destruct out as [|msg [|? ?]]; try (repeat split; auto; fail).
  destruct (read_basic l) as [[[fmt csid] l1]|e|e] eqn:E1; try (repeat split; auto; fail).
  destruct (get_stream csid (cs_streams cst')) as [s|]; try (repeat split; auto; fail).
  destruct (h_type (s_hdr s) =? type_aggregate); try (repeat split; auto; fail).
  specialize (Hin _ _ _ eq_refl).
  set (e := mk_me 0 (me_got (mem_get csid m1))).
  split; [apply nset_all_ok; [assumption|unfold me_ok; subst e; cbn [me_cap me_got]; lia]|].
  split.
  - intro c. destruct (N.eq_dec c csid) as [->|Hne].
    + rewrite mem_get_nset_same. subst e. cbn [me_got]. apply HB.
    + rewrite mem_get_nset_other by (intro; subst; contradiction). apply HB.
  - destruct (nset_sums csid e m1) as (S1 & _ & S3).
    destruct (nget csid m1) as [e0|] eqn:Eg; [|contradiction].
    rewrite (S3 e0 eq_refl). subst e. cbn [me_got] in S1. lia.
Qed.

(* ------------------------------------------------------------------------ *)
(* the read loop and the session *)

Lemma sess_loop_mem v env : sv_rv v = rv_fixed -> forall fuel total cst a mm l T,
  all_ok mm -> Bnd cst mm -> got_sum mm + lenN mm + lenN l <= T ->
  let '(_, _, mm') := sess_loop v env fuel total cst a mm l in
  all_ok mm' /\ got_sum mm' + lenN mm' <= T.
Proof.
  intro Hrv. induction fuel as [|f IH]; intros total cst a mm l T Hok HB HT.
  - cbn [sess_loop]. split; [assumption|lia].
  - cbn [sess_loop]. rewrite Hrv.
    destruct (compose_chunk rv_fixed cst l) as [cst' out rest|cst' out e] eqn:E.
    + destruct (mem_chunk_next _ _ mm _ _ _ E Hok HB) as (Hok1 & HB1 & Hs1 & Hin).
      assert (Hfin : all_ok (mem_chunk rv_fixed cst l mm) /\
                     got_sum (mem_chunk rv_fixed cst l mm) + lenN (mem_chunk rv_fixed cst l mm) <= T)
        by (split; [assumption|lia]).
      destruct (trace_guard (sv_fx v) (e_trace env) cst' l out); [| |exact Hfin].
      all: match goal with |- context [run_cbs _ _ ?c ?o ?a0] =>
             destruct (run_cbs v env c o a0) as [[x|e'|s'] a1] end; try exact Hfin.
      all: destruct (mem_done_ok cst' l out _ Hok1 HB1 Hin) as (Hok2 & HB2 & Hs2).
      all: apply IH; [assumption|assumption|lia].
    + destruct (mem_chunk_any cst l mm Hok HB) as (Hok1 & Hs1).
      assert (Hfin : all_ok (mem_chunk rv_fixed cst l mm) /\
                     got_sum (mem_chunk rv_fixed cst l mm) + lenN (mem_chunk rv_fixed cst l mm) <= T)
        by (split; [assumption|lia]).
      match goal with |- context [run_cbs _ _ ?c ?o ?a0] =>
        destruct (run_cbs v env c o a0) as [[x|e'|s'] a1] end; try exact Hfin.
      destruct (is_eof e); exact Hfin.
Qed.

Lemma Bnd_init chunk : Bnd (init_cstate chunk) [].
Proof. intro c. cbn. lia. Qed.

(* what the message buffers of a session hold, in terms of what the peer sent *)
Theorem run_session_mem hmac v env input :
  sv_rv v = rv_fixed ->
  let m := r_mem (run_session hmac v env input) in
  mem_reserved m <= 3 * lenN input + 8192 * mem_streams m /\
  mem_streams m <= lenN input /\
  mem_reserved m <= 8192 * lenN input.
Proof.
  intro Hrv. unfold run_session.
  destruct (run_handshake hmac (e_now env) (e_rnd env) input) as [simple w rest|w e|s] eqn:E;
    cbn [r_mem]; try (cbn; repeat split; lia).
  apply run_handshake_rest in E.
  pose proof (sess_loop_mem v env Hrv (S (length rest)) (lenN input) (init_cstate default_chunk_size)
                (init_acc env) [] rest (lenN rest) (Forall_nil _) (Bnd_init _) ltac:(cbn; lia)) as H.
  destruct (sess_loop v env (S (length rest)) (lenN input) (init_cstate default_chunk_size) (init_acc env) [] rest)
    as [[o a] mm]. destruct H as (Hok & Hs). cbn [r_mem].
  pose proof (reserved_bound mm Hok) as Hr. unfold mem_streams.
  assert (lenN rest <= lenN input) by (unfold lenN; lia).
  repeat split; lia.
Qed.
