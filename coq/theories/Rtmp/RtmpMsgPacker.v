(* Model of pkg/rtmp/message_packer.go, the whole MessagePacker: every
   signalling writer (protocol control, user control, connect / _result /
   createStream / play / publish / onStatus) as the sequence of Write calls it
   makes on the packer's Buffer, and ChunkAndWrite with its two paths:
     body <= LocalChunkSize : writeSingleChunkHeader into the 12 reserved bytes
     body >  LocalChunkSize : base.RtmpHeader{csid, len, type, streamid, ts 0}
                              through Message2Chunks
   Buffer (grow / Write / ModWritePos / Bytes / Reset) and the AMF0 writers as
   Write sequences are reused from RtmpMsgPackerBuf.v (C17, repaired grow);
   the chunk divider and the single chunk header from RtmpChunk.v; float64(int)
   from RtmpAmf0.v.  No proofs in this file. *)
From Lal Require Import Common.LBytes Common.Res Rtmp.RtmpChunk Rtmp.RtmpMsgPackerBuf Rtmp.RtmpAmf0.
From Coq Require Import List ZArith.
Import ListNotations.
Open Scope N_scope.

(* ---- ChunkAndWrite ------------------------------------------------------------ *)
(* the bytes handed to the writer, and the buffer after WriteTo / Reset *)
Definition packer_chunk_and_write (b : buf) (csid typeid streamid : N) : res (bytes * buf) :=
  let body_len := b_w b - 12 in                       (* packer.b.Len() - 12 *)
  let* body := buf_body b in                          (* packer.b.Bytes() *)
  let b' := mk_buf (b_cap b) 0 [] in
  if body_len <=? RtmpChunk.local_chunk_size then
    let* hb := single_chunk_header csid body_len typeid streamid in
    Ok (hb ++ body, b')
  else
    let* bs := message2chunks_default (mk_hdr csid (u32 body_len) (u8 typeid) streamid 0) body in
    Ok (bs, b').

(* what ChunkAndWrite puts on the wire for a body, whatever the buffer went through *)
Definition packer_emit (body : bytes) (csid typeid streamid : N) : res bytes :=
  if lenN body <=? RtmpChunk.local_chunk_size then
    let* hb := single_chunk_header csid (lenN body) typeid streamid in Ok (hb ++ body)
  else message2chunks_default (mk_hdr csid (u32 (lenN body)) (u8 typeid) streamid 0) body.

(* ---- the writers ---------------------------------------------------------------- *)
Definition s_result : bytes := [95; 114; 101; 115; 117; 108; 116].   (* "_result" *)
Definition s_fmsVer : bytes := [102; 109; 115; 86; 101; 114].   (* "fmsVer" *)
Definition s_fmsVer_val : bytes := [70; 77; 83; 47; 51; 44; 48; 44; 49; 44; 49; 50; 51].   (* "FMS/3,0,1,123" *)
Definition s_capabilities : bytes := [99; 97; 112; 97; 98; 105; 108; 105; 116; 105; 101; 115].   (* "capabilities" *)
Definition s_level : bytes := [108; 101; 118; 101; 108].   (* "level" *)
Definition s_status : bytes := [115; 116; 97; 116; 117; 115].   (* "status" *)
Definition s_code : bytes := [99; 111; 100; 101].   (* "code" *)
Definition s_nc_success : bytes := [78; 101; 116; 67; 111; 110; 110; 101; 99; 116; 105; 111; 110; 46; 67; 111; 110; 110; 101; 99; 116; 46; 83; 117; 99; 99; 101; 115; 115].   (* "NetConnection.Connect.Success" *)
Definition s_description : bytes := [100; 101; 115; 99; 114; 105; 112; 116; 105; 111; 110].   (* "description" *)
Definition s_conn_succeeded : bytes := [67; 111; 110; 110; 101; 99; 116; 105; 111; 110; 32; 115; 117; 99; 99; 101; 101; 100; 101; 100; 46].   (* "Connection succeeded." *)
Definition s_objectEncoding : bytes := [111; 98; 106; 101; 99; 116; 69; 110; 99; 111; 100; 105; 110; 103].   (* "objectEncoding" *)
Definition s_version : bytes := [118; 101; 114; 115; 105; 111; 110].   (* "version" *)
Definition s_onStatus : bytes := [111; 110; 83; 116; 97; 116; 117; 115].   (* "onStatus" *)
Definition s_publish_start : bytes := [78; 101; 116; 83; 116; 114; 101; 97; 109; 46; 80; 117; 98; 108; 105; 115; 104; 46; 83; 116; 97; 114; 116].   (* "NetStream.Publish.Start" *)
Definition s_start_publishing : bytes := [83; 116; 97; 114; 116; 32; 112; 117; 98; 108; 105; 115; 104; 105; 110; 103].   (* "Start publishing" *)
Definition s_play_start : bytes := [78; 101; 116; 83; 116; 114; 101; 97; 109; 46; 80; 108; 97; 121; 46; 83; 116; 97; 114; 116].   (* "NetStream.Play.Start" *)
Definition s_start_live : bytes := [83; 116; 97; 114; 116; 32; 108; 105; 118; 101].   (* "Start live" *)

Definition amf_int (z : Z) : list bytes := amf_number (be_put 8 (f64_of_Z z)).
Definition AInt (z : Z) : amf_val := ANumber (be_put 8 (f64_of_Z z)).

Inductive pcmd :=
| PChunkSize (val : N)                       (* writeChunkSize *)
| PWinAckSize (val : N)                      (* writeWinAckSize *)
| PPeerBandwidth (val limit : N)             (* writePeerBandwidth *)
| PConnect (app tc_url flash_ver : bytes)    (* writeConnect; flash_ver = the string the tree builds *)
| PConnectResult (tid objenc : Z) (version : bytes)
| PCreateStream
| PCreateStreamResult (tid : Z)
| PPlay (stream : bytes) (msid : N)
| PPublish (stream : bytes) (msid : N)
| POnStatusPublish (msid : N)
| POnStatusPlay (msid : N)
| PStreamIsRecorded (id : N)
| PStreamBegin (id : N)
| PPingRequest (ts : N)
| PAck (seq : N)
| PPingResponse (ts : N)
| PRaw (csid typeid msid : N) (body : bytes).   (* ModWritePos(12); Write(body); ChunkAndWrite(csid, typeid, msid) *)

Definition csid_protocol_control : N := 2.
Definition csid_over_connection : N := 3.
Definition csid_over_stream : N := 5.
Definition type_cmd_amf0 : N := 20.

Definition on_status_writes (code desc : bytes) : list bytes :=
  amf_string s_onStatus ++ amf_int 0 ++ amf_null ++
  amf_object [(s_level, AString s_status); (s_code, AString code); (s_description, AString desc)].

(* Write sequence, csid, type id, message stream id *)
Definition pcmd_parts (c : pcmd) : list bytes * N * N * N :=
  match c with
  | PChunkSize v => ([be_put 4 v], csid_protocol_control, 1, 0)
  | PWinAckSize v => ([be_put 4 v], csid_protocol_control, 5, 0)
  | PPeerBandwidth v l => ([be_put 4 v; [u8 l]], csid_protocol_control, 6, 0)
  | PConnect app tc fv => (connect_writes app tc fv, csid_over_connection, type_cmd_amf0, 0)
  | PConnectResult tid oe ver =>
      (amf_string s_result ++ amf_int tid
       ++ amf_object [(s_fmsVer, AString s_fmsVer_val); (s_capabilities, AInt 31)]
       ++ amf_object [(s_level, AString s_status); (s_code, AString s_nc_success);
                      (s_description, AString s_conn_succeeded); (s_objectEncoding, AInt oe);
                      (s_version, AString ver)],
       csid_over_connection, type_cmd_amf0, 0)
  | PCreateStream => (create_stream_writes, csid_over_connection, type_cmd_amf0, 0)
  | PCreateStreamResult tid =>
      (amf_string s_result ++ amf_int tid ++ amf_null ++ amf_int 1, csid_over_connection, type_cmd_amf0, 0)
  | PPlay s msid => (play_writes s, csid_over_stream, type_cmd_amf0, msid)
  | PPublish s msid => (publish_writes s, csid_over_stream, type_cmd_amf0, msid)
  | POnStatusPublish msid => (on_status_writes s_publish_start s_start_publishing, csid_over_stream, type_cmd_amf0, msid)
  | POnStatusPlay msid => (on_status_writes s_play_start s_start_live, csid_over_stream, type_cmd_amf0, msid)
  | PStreamIsRecorded id => ([be_put 2 4; be_put 4 id], csid_protocol_control, 4, 0)
  | PStreamBegin id => ([be_put 2 0; be_put 4 id], csid_protocol_control, 4, 0)
  | PPingRequest ts => ([be_put 2 6; be_put 4 ts], csid_protocol_control, 4, 0)
  | PAck n => ([be_put 4 n], csid_protocol_control, 3, 0)
  | PPingResponse ts => ([be_put 2 7; be_put 4 ts], csid_protocol_control, 4, 0)
  | PRaw csid ty msid body => ([body], csid, ty, msid)
  end.

Definition pcmd_body (c : pcmd) : bytes := concat (fst (fst (fst (pcmd_parts c)))).
Definition pcmd_csid (c : pcmd) : N := snd (fst (fst (pcmd_parts c))).
Definition pcmd_type (c : pcmd) : N := snd (fst (pcmd_parts c)).
Definition pcmd_msid (c : pcmd) : N := snd (pcmd_parts c).

(* one writer on the packer's buffer: ModWritePos(12), the writes, ChunkAndWrite *)
Definition packer_step (b : buf) (c : pcmd) : res (bytes * buf) :=
  let '(ws, csid, ty, msid) := pcmd_parts c in
  let* b1 := buf_writes true (mod_write_pos12 b) ws in
  packer_chunk_and_write b1 csid ty msid.

(* NewMessagePacker(): Buffer of 256 *)
Definition new_packer : buf := new_buf 256.

(* a session's writers on ONE packer, in order; the bytes of each message *)
Fixpoint packer_run (b : buf) (cs : list pcmd) : list (res bytes) :=
  match cs with
  | [] => []
  | c :: t => match packer_step b c with
              | Ok (out, b') => Ok out :: packer_run b' t
              | Err e => [Err e]
              | Panic s => [Panic s]
              end
  end.
