(* Model of pkg/rtmp/message_packer.go: Buffer (grow, Write, Bytes, ModWritePos,
   WriteTo/Reset), MessagePacker.ChunkAndWrite and the client-side signalling
   messages writeChunkSize, writeConnect, writeCreateStream, writePublish,
   writePlay, with the AMF0 writers of pkg/rtmp/amf0.go as the sequence of Write
   calls they make (the size of each single Write matters for Buffer.grow).

   Buffer is used with readPos = 0 throughout (every message starts with
   ModWritePos(12) on a Reset buffer), so readPos is not modelled.  The first 12
   bytes of the buffer are the room for the chunk header, which
   writeSingleChunkHeader overwrites completely; [b_body] is the content from
   offset 12 to min(writePos, cap).

   [fixed] = false is the pinned tree (grow doubles once), true the repaired one.
   No proofs in this file. *)
From Lal Require Import Common.LBytes Common.Res.
From Coq Require Import List.
Import ListNotations.
Open Scope N_scope.

Record buf := mk_buf { b_cap : N; b_w : N; b_body : bytes }.

Definition new_buf (n : N) : buf := mk_buf n 0 [].

(* panic sites *)
Definition site_grow_slice : N := 1.    (* copy(buf, b.core[b.readPos:b.writePos]) with writePos > cap *)
Definition site_write_slice : N := 2.   (* b.core[b.writePos:] with writePos > len *)
Definition site_bytes_slice : N := 3.   (* b.core[b.readPos:b.writePos] with writePos > cap *)

(* ModWritePos(12) on a Reset buffer *)
Definition mod_write_pos12 (b : buf) : buf := mk_buf (b_cap b) 12 [].

(* grow(n) *)
Definition grow (fixed : bool) (b : buf) (n : N) : res buf :=
  if (b_w b <=? b_cap b) && (n <=? b_cap b - b_w b) then Ok b
  else
    let dbl := if b_cap b =? 0 then 128 else b_cap b * 2 in
    let new_len := if fixed && (dbl <? b_w b + n) then b_w b + n else dbl in
    if b_cap b <? b_w b then Panic site_grow_slice
    else Ok (mk_buf new_len (b_w b) (b_body b)).

(* Write(p): grow, copy what fits, advance writePos by len(p) *)
Definition buf_write (fixed : bool) (b : buf) (p : bytes) : res buf :=
  let* b1 := grow fixed b (lenN p) in
  if b_cap b1 <? b_w b1 then Panic site_write_slice
  else
    let room := b_cap b1 - b_w b1 in
    Ok (mk_buf (b_cap b1) (b_w b1 + lenN p)
               (b_body b1 ++ firstn (N.to_nat (N.min room (lenN p))) p)).

Fixpoint buf_writes (fixed : bool) (b : buf) (ps : list bytes) : res buf :=
  match ps with
  | [] => Ok b
  | p :: t => let* b1 := buf_write fixed b p in buf_writes fixed b1 t
  end.

(* Bytes()[12:] *)
Definition buf_body (b : buf) : res bytes :=
  if b_cap b <? b_w b then Panic site_bytes_slice else Ok (b_body b).

(* ---- AMF0 writers as sequences of Write calls ------------------------------- *)
Definition amf_string (v : bytes) : list bytes :=
  if lenN v <? 65536 then [[2]; be_put 2 (lenN v); v] else [[12]; be_put 4 (lenN v); v].
Definition amf_number (be8 : bytes) : list bytes := [[0]; be8].
Definition amf_null : list bytes := [[5]].
Definition amf_bool (v : bool) : list bytes := [[1]; [if v then 1 else 0]].

Inductive amf_val := AString (v : bytes) | ANumber (be8 : bytes) | ABool (v : bool).
Definition amf_value (v : amf_val) : list bytes :=
  match v with AString s => amf_string s | ANumber n => amf_number n | ABool b => amf_bool b end.
Definition amf_object (ps : list (bytes * amf_val)) : list bytes :=
  [[3]] ++ flat_map (fun kv => [be_put 2 (lenN (fst kv)); fst kv] ++ amf_value (snd kv)) ps ++ [[0; 0; 9]].

(* float64 big-endian of the transaction ids *)
Definition f64_1 : bytes := [63; 240; 0; 0; 0; 0; 0; 0].
Definition f64_2 : bytes := [64; 0; 0; 0; 0; 0; 0; 0].
Definition f64_3 : bytes := [64; 8; 0; 0; 0; 0; 0; 0].

(* ASCII constants *)
Definition s_connect : bytes := [99; 111; 110; 110; 101; 99; 116].
Definition s_app : bytes := [97; 112; 112].
Definition s_type : bytes := [116; 121; 112; 101].
Definition s_nonprivate : bytes := [110; 111; 110; 112; 114; 105; 118; 97; 116; 101].
Definition s_flashVer : bytes := [102; 108; 97; 115; 104; 86; 101; 114].
Definition s_fpad : bytes := [102; 112; 97; 100].
Definition s_tcUrl : bytes := [116; 99; 85; 114; 108].
Definition s_createStream : bytes := [99; 114; 101; 97; 116; 101; 83; 116; 114; 101; 97; 109].
Definition s_publish : bytes := [112; 117; 98; 108; 105; 115; 104].
Definition s_play : bytes := [112; 108; 97; 121].
Definition s_live : bytes := [108; 105; 118; 101].

(* bodies of the client messages, as Write sequences *)
Definition connect_writes (app tc_url flash_ver : bytes) : list bytes :=
  amf_string s_connect ++ amf_number f64_1 ++
  amf_object [(s_app, AString app); (s_type, AString s_nonprivate); (s_flashVer, AString flash_ver);
              (s_fpad, ABool false); (s_tcUrl, AString tc_url)].
Definition create_stream_writes : list bytes := amf_string s_createStream ++ amf_number f64_2 ++ amf_null.
Definition publish_writes (stream : bytes) : list bytes :=
  amf_string s_publish ++ amf_number f64_3 ++ amf_null ++ amf_string stream ++ amf_string s_live.
Definition play_writes (stream : bytes) : list bytes :=
  amf_string s_play ++ amf_number f64_3 ++ amf_null ++ amf_string stream.
Definition chunk_size_writes : list bytes := [be_put 4 4096].

(* ---- chunking ------------------------------------------------------------------ *)
Definition local_chunk_size : N := 4096.

(* writeSingleChunkHeader / calcHeader fmt 0, csid <= 63, timestamp 0 *)
Definition chunk_header0 (csid body_len typeid streamid : N) : bytes :=
  [u8 csid; 0; 0; 0] ++ be_put 3 (u24 body_len) ++ [u8 typeid] ++ le_put 4 (u32 streamid).

(* Message2Chunks for a message longer than one chunk: the first chunk has the
   fmt-0 header, every following one the 1-byte fmt-3 header *)
Fixpoint split_chunks (fuel : nat) (csid : N) (body : bytes) : bytes :=
  match fuel with
  | O => []
  | S f =>
    if lenN body <=? local_chunk_size then body
    else firstn (N.to_nat local_chunk_size) body ++ [192 + u8 csid]
         ++ split_chunks f csid (skipn (N.to_nat local_chunk_size) body)
  end.

(* ChunkAndWrite: the bytes handed to the connection, and the buffer after Reset *)
Definition chunk_and_write (b : buf) (csid typeid streamid : N) : res (bytes * buf) :=
  let body_len := b_w b - 12 in
  let* body := buf_body b in
  let out := if body_len <=? local_chunk_size
             then chunk_header0 csid body_len typeid streamid ++ body
             else chunk_header0 csid body_len typeid streamid ++ split_chunks (length body) csid body in
  Ok (out, mk_buf (b_cap b) 0 []).

(* one signalling message: ModWritePos(12), the AMF0 writes, ChunkAndWrite *)
Definition pack_msg (fixed : bool) (b : buf) (ws : list bytes) (csid typeid streamid : N) : res (bytes * buf) :=
  let* b1 := buf_writes fixed (mod_write_pos12 b) ws in
  chunk_and_write b1 csid typeid streamid.

(* the client session's sequence on ONE packer: SetChunkSize, connect, createStream, publish | play *)
Definition pack_seq (fixed : bool) (app tc_url flash_ver stream : bytes) (is_push : bool) : res bytes :=
  let b0 := new_buf 256 in
  let* (o1, b1) := pack_msg fixed b0 chunk_size_writes 2 1 0 in
  let* (o2, b2) := pack_msg fixed b1 (connect_writes app tc_url flash_ver) 3 20 0 in
  let* (o3, b3) := pack_msg fixed b2 create_stream_writes 3 20 0 in
  let* (o4, b4) := pack_msg fixed b3 (if is_push then publish_writes stream else play_writes stream) 5 20 1 in
  Ok (o1 ++ o2 ++ o3 ++ o4).

(* ---- specification: what a conforming peer must receive --------------------------- *)
Definition spec_msg (ws : list bytes) (csid typeid streamid : N) : bytes :=
  let body := concat ws in
  if lenN body <=? local_chunk_size
  then chunk_header0 csid (lenN body) typeid streamid ++ body
  else chunk_header0 csid (lenN body) typeid streamid ++ split_chunks (length body) csid body.

Definition spec_seq (app tc_url flash_ver stream : bytes) (is_push : bool) : bytes :=
  spec_msg chunk_size_writes 2 1 0
  ++ spec_msg (connect_writes app tc_url flash_ver) 3 20 0
  ++ spec_msg create_stream_writes 3 20 0
  ++ spec_msg (if is_push then publish_writes stream else play_writes stream) 5 20 1.
