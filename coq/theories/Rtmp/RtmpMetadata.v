(* Model of pkg/rtmp/metadata.go: ParseMetadata, MetadataEnsureWithSdf,
   MetadataEnsureWithoutSdf, BuildMetadata.  No proofs in this file. *)
From Lal Require Import Common.LBytes Common.Res Rtmp.RtmpAmf0.
Open Scope N_scope.

(* "@setDataFrame" *)
Definition sdf_name : bytes := [64; 115; 101; 116; 68; 97; 116; 97; 70; 114; 97; 109; 101].
(* "onMetaData" *)
Definition on_meta_data : bytes := [111; 110; 77; 101; 116; 97; 68; 97; 116; 97].

Fixpoint bytes_eqb (a b : bytes) : bool :=
  match a, b with
  | [], [] => true
  | x :: a', y :: b' => (x =? y) && bytes_eqb a' b'
  | _, _ => false
  end.

(* the 16 bytes MetadataEnsureWithSdf prepends: Amf0.WriteString("@setDataFrame") *)
Definition sdf_prefix : bytes := write_string sdf_name.

(* ParseMetadata: a string, optionally a second string when the first one is
   "@setDataFrame", then ReadObjectOrArray; only the pairs are returned *)
Definition parse_metadata (cfg : amf_cfg) (b : bytes) : dres plist :=
  dbind (dlift (read_string b)) (fun '(v, _, rest) =>
  if bytes_eqb v sdf_name then
    dbind (dlift (read_string rest)) (fun '(_, _, rest2) =>
    dbind (read_object_or_array cfg rest2) (fun '(opa, _, _) => dret opa))
  else
    dbind (read_object_or_array cfg rest) (fun '(opa, _, _) => dret opa)).

(* both Ensure functions return a copy of the (possibly modified) input and an
   error; on error the input comes back unchanged *)
Definition metadata_ensure_with_sdf (b : bytes) : res (bytes * option N) :=
  match read_string b with
  | Ok (v, _, _) => if bytes_eqb v sdf_name then Ok (b, None) else Ok (sdf_prefix ++ b, None)
  | Err e => Ok (b, Some e)
  | Panic s => Panic s
  end.

Definition metadata_ensure_without_sdf (b : bytes) : res (bytes * option N) :=
  match read_string b with
  | Ok (v, _, rest) => if bytes_eqb v sdf_name then Ok (rest, None) else Ok (b, None)
  | Err e => Ok (b, Some e)
  | Panic s => Panic s
  end.

(* BuildMetadata(width, height, audiocodecid, videocodecid): a field is left
   out when its argument is -1; [encoder] = base.LalRtmpBuildMetadataEncoder,
   [version] = base.LalVersionDot (constants of the tree, passed in) *)
Definition opt_field (name : bytes) (z : Z) : list (bytes * wval) :=
  if (z =? -1)%Z then [] else [(name, WInt z)].

Definition k_width : bytes := [119; 105; 100; 116; 104].
Definition k_height : bytes := [104; 101; 105; 103; 104; 116].
Definition k_audiocodecid : bytes := [97; 117; 100; 105; 111; 99; 111; 100; 101; 99; 105; 100].
Definition k_videocodecid : bytes := [118; 105; 100; 101; 111; 99; 111; 100; 101; 99; 105; 100].
Definition k_version : bytes := [118; 101; 114; 115; 105; 111; 110].
Definition k_lal : bytes := [108; 97; 108].

Definition metadata_fields (encoder version : bytes) (w h a v : Z) : list (bytes * wval) :=
  opt_field k_width w ++ opt_field k_height h ++ opt_field k_audiocodecid a ++ opt_field k_videocodecid v
  ++ [(k_version, WStr encoder); (k_lal, WStr version)].

Definition build_metadata (encoder version : bytes) (w h a v : Z) : bytes :=
  write_string on_meta_data ++ write_object (metadata_fields encoder version w h a v).

(* ObjectPairArray.Find *)
Fixpoint pairs_find (key : bytes) (l : plist) : option aval :=
  match l with
  | [] => None
  | (k, v) :: t => if bytes_eqb k key then Some v else pairs_find key t
  end.
