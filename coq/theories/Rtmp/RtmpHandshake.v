(* Model of the server side of pkg/rtmp/handshake.go (HandshakeServer.ReadC0C1,
   WriteS0S1S2, ReadC2; parseChallenge, findDigest, makeDigestWithoutCenterPart,
   makeDigest).  No proofs here.

   HMAC-SHA256 is a Section variable [hmac key msg]: no law about it is needed
   for panic-freedom (Go copies its result with copy(), which never panics);
   the correspondence driver instantiates it with a real HMAC-SHA256.

   Every Go index / slice expression on the received bytes is a checked
   accessor that yields [Panic site] exactly when Go would panic. *)
From Lal Require Import Common.LBytes Common.Res Common.LBytesRead.
Open Scope N_scope.

Definition c0c1_len : N := 1537.
Definition c2_len : N := 1536.
Definition key_len : N := 32.

Definition key_tail : bytes :=
  [240; 238; 194; 74; 128; 104; 190; 232; 46; 0; 208; 209; 2; 158; 126; 87;
   110; 236; 93; 45; 41; 128; 111; 171; 147; 184; 230; 54; 207; 235; 49; 174].
(* "Genuine Adobe Flash Player 001" *)
Definition client_part_key : bytes :=
  [71; 101; 110; 117; 105; 110; 101; 32; 65; 100; 111; 98; 101; 32; 70; 108; 97; 115; 104; 32;
   80; 108; 97; 121; 101; 114; 32; 48; 48; 49].
(* "Genuine Adobe Flash Media Server 001" *)
Definition server_part_key : bytes :=
  [71; 101; 110; 117; 105; 110; 101; 32; 65; 100; 111; 98; 101; 32; 70; 108; 97; 115; 104; 32;
   77; 101; 100; 105; 97; 32; 83; 101; 114; 118; 101; 114; 32; 48; 48; 49].
Definition server_full_key : bytes := server_part_key ++ key_tail.
Definition server_version : bytes := [13; 14; 10; 13].

(* panic sites *)
Definition site_hs_index : N := 20.     (* b[i] *)
Definition site_hs_slice : N := 21.     (* b[lo:hi] *)
Definition site_hs_be32 : N := 22.      (* bele.BeUint32 on a short slice *)

(* b[i] *)
Definition idx_chk (b : bytes) (i : N) : res N :=
  match nth_error b (N.to_nat i) with Some x => Ok x | None => Panic site_hs_index end.
(* b[off:off+n]  (the offsets are at most 1536+32) *)
Definition sub_chk (b : bytes) (off n : N) : res bytes :=
  if off + n <=? lenN b then Ok (firstn (N.to_nat n) (skipn (N.to_nat off) b)) else Panic site_hs_slice.
(* b[off:] *)
Definition from_chk (b : bytes) (off : N) : res bytes :=
  if off <=? lenN b then Ok (skipn (N.to_nat off) b) else Panic site_hs_slice.

(* copy(dst, src): min(len) bytes, dst keeps its length *)
Definition copy_into (dst src : bytes) : bytes :=
  firstn (length dst) src ++ skipn (length src) dst.
(* copy(dst[off:], src) for off <= len(dst) *)
Definition copy_at (dst : bytes) (off : N) (src : bytes) : bytes :=
  firstn (N.to_nat off) dst ++ copy_into (skipn (N.to_nat off) dst) src.

Definition zeros (n : nat) : bytes := repeat 0 n.

Fixpoint bytes_eqb (a b : bytes) : bool :=
  match a, b with
  | [], [] => true
  | x :: a', y :: b' => (x =? y) && bytes_eqb a' b'
  | _, _ => false
  end.

Section Handshake.
Variable hmac : bytes -> bytes -> bytes.    (* key, message *)

(* makeDigestWithoutCenterPart(b, offs, key, out): the MAC of b[:offs] ++ b[offs+32:] *)
Definition digest_wo_center (b : bytes) (offs : N) (key : bytes) : res bytes :=
  let* lft := sub_chk b 0 offs in
  let* rgt := (if offs + key_len <? lenN b then from_chk b (offs + key_len) else Ok []) in
  Ok (hmac key (lft ++ rgt)).

(* findDigest(b, base, key): Some offs when the digest stored at the computed offset verifies *)
Definition find_digest (b : bytes) (base : N) (key : bytes) : res (option N) :=
  let* b0 := idx_chk b base in
  let* b1 := idx_chk b (base + 1) in
  let* b2 := idx_chk b (base + 2) in
  let* b3 := idx_chk b (base + 3) in
  let offs := (b0 + b1 + b2 + b3) mod 728 + base + 4 in
  let* mac := digest_wo_center b offs key in
  let digest := copy_into (zeros 32) mac in
  let* stored := sub_chk b offs key_len in
  Ok (if bytes_eqb digest stored then Some offs else None).

(* parseChallenge(b = c0c1, peerKey, key): None = simple handshake *)
Definition parse_challenge (b peer_key key : bytes) : res (option bytes) :=
  let* t := from_chk b 5 in
  let* ver := (if lenN t <? 4 then Panic site_hs_be32 else Ok (be_get (firstn 4 t))) in
  if ver =? 0 then Ok None
  else
    let* c1 := from_chk b 1 in
    let* o1 := find_digest c1 772 peer_key in
    let* o := (match o1 with Some o => Ok (Some o) | None => find_digest c1 8 peer_key end) in
    match o with
    | None => Ok None
    | Some offs => let* d := sub_chk b (1 + offs) key_len in Ok (Some (hmac key d))
    end.

(* HandshakeServer.ReadC0C1 on a complete c0c1: (isSimpleMode, s0s1s2).
   [now] = uint32(time.Now().UnixNano()), [rnd] = base.LalRtmpRandom1528Buf *)
Definition server_s0s1s2 (now : N) (rnd : bytes) (c0c1 : bytes) : res (bool * bytes) :=
  let* s2key := parse_challenge c0c1 client_part_key server_full_key in
  let simple := match s2key with None => true | Some k => match k with [] => true | _ => false end end in
  let s1a := be_put 4 (u32 now) ++ zeros 4 ++ copy_into (zeros 1528) rnd in
  if simple then
    let* c1 := from_chk c0c1 1 in
    Ok (true, 3 :: s1a ++ copy_into (zeros 1536) c1)
  else
    let s1b := copy_at s1a 4 server_version in
    let* b0 := idx_chk s1b 8 in
    let* b1 := idx_chk s1b 9 in
    let* b2 := idx_chk s1b 10 in
    let* b3 := idx_chk s1b 11 in
    let offs := (b0 + b1 + b2 + b3) mod 728 + 12 in
    let* d1 := digest_wo_center s1b offs server_part_key in
    let* _ := from_chk s1b offs in
    let s1 := copy_at s1b offs d1 in
    let s2a := copy_into (zeros 1536) rnd in
    let key := match s2key with Some k => k | None => [] end in
    let* d2 := digest_wo_center s2a 1504 key in
    let* _ := from_chk s2a 1504 in
    Ok (false, 3 :: s1 ++ copy_at s2a 1504 d2).

Inductive hs_result :=
| HsDone (simple : bool) (s0s1s2 : bytes) (rest : bytes)   (* C0C1 and C2 read *)
| HsShort (written : bytes) (e : N)                       (* input ended: io.EOF (1) / io.ErrUnexpectedEOF (2) *)
| HsPanic (site : N).

Definition hs_short_err (l : bytes) : N := match l with [] => 1 | _ => 2 end.

(* ServerSession.handshake over a finite input *)
Definition run_handshake (now : N) (rnd : bytes) (input : bytes) : hs_result :=
  match takeN input c0c1_len with
  | None => HsShort [] (hs_short_err input)
  | Some (c0c1, r1) =>
      match server_s0s1s2 now rnd c0c1 with
      | Panic s => HsPanic s
      | Err e => HsPanic e
      | Ok (simple, out) =>
          match takeN r1 c2_len with
          | None => HsShort out (hs_short_err r1)
          | Some (_, r2) => HsDone simple out r2
          end
      end
  end.

End Handshake.
