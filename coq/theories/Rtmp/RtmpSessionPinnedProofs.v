(* The tree before the C04 repairs ([sv_pinned]): concrete peers that terminate
   the server, and what the repaired tree does with the same bytes.  Every
   witness starts with a simple handshake (C1 version field 0), so no HMAC is
   ever computed and the statements hold for any HMAC function. *)
From Lal Require Import Common.LBytes Common.Res Rtmp.RtmpChunk Rtmp.RtmpComposer Rtmp.RtmpHandshake Rtmp.RtmpSession.
From Lal Require Media.MediaMsgChecked.
Open Scope N_scope.

(* C0 = 3, C1 = 1536 zero bytes, C2 = 1536 zero bytes *)
Definition w_handshake : bytes := 3 :: repeat 0 3072.
(* audio message, 1 byte, chunk stream 6 *)
Definition w_av : bytes := [6; 0; 0; 0; 0; 0; 1; 8; 1; 0; 0; 0; 175].
(* user control message with a 1-byte body *)
Definition w_uc1 : bytes := [2; 0; 0; 0; 0; 0; 1; 4; 0; 0; 0; 0; 0].
(* user control ping request (event 6) with 1 of its 4 timestamp bytes *)
Definition w_ping3 : bytes := [2; 0; 0; 0; 0; 0; 3; 4; 0; 0; 0; 0; 0; 6; 1].
(* publish(3, null, "s") *)
Definition w_pub : bytes := [5; 0; 0; 0; 0; 0; 24; 20; 1; 0; 0; 0; 2; 0; 7; 112; 117; 98; 108; 105; 115; 104; 0; 64; 8; 0; 0; 0; 0; 0; 0; 5; 2; 0; 1; 115].
(* play(3, null, "s") *)
Definition w_play : bytes := [5; 0; 0; 0; 0; 0; 21; 20; 1; 0; 0; 0; 2; 0; 4; 112; 108; 97; 121; 0; 64; 8; 0; 0; 0; 0; 0; 0; 5; 2; 0; 1; 115].
(* connect(1, {app: "live"}) *)
Definition w_conn : bytes := [3; 0; 0; 0; 0; 0; 35; 20; 0; 0; 0; 0; 2; 0; 7; 99; 111; 110; 110; 101; 99; 116; 0; 63; 240; 0; 0; 0; 0; 0; 0; 3; 0; 3; 97; 112; 112; 2; 0; 4; 108; 105; 118; 101; 0; 0; 9].
(* audio message, 3 bytes *)
Definition w_aud : bytes := [6; 0; 0; 0; 0; 0; 3; 8; 1; 0; 0; 0; 175; 1; 2].

Definition w_env : senv := mk_env [48; 44; 51; 55; 44; 52] [] 0 true true false 0 0.
(* the same with "log": {"level": 0} (trace) *)
Definition w_env_trace : senv := mk_env [48; 44; 51; 55; 44; 52] [] 0 true true true 0 0.

Section Pinned.
Variable hmac : bytes -> bytes -> bytes.

Notation out_of v l := (r_out (run_session hmac v w_env (w_handshake ++ l))) (only parsing).

(* F-20: audio before any publish: s.avObserver is nil *)
Lemma pinned_av_before_publish :
  out_of sv_pinned w_av = OPanic site_av_nil /\ out_of sv_fixed w_av = OClose e_unexpected_msg.
Proof. split; vm_compute; reflexivity. Qed.

(* the same after connect + play: a subscriber has no avObserver either *)
Lemma pinned_av_from_subscriber :
  out_of sv_pinned (w_conn ++ w_play ++ w_aud) = OPanic site_av_nil /\
  out_of sv_fixed (w_conn ++ w_play ++ w_aud) = OClose e_unexpected_msg.
Proof. split; vm_compute; reflexivity. Qed.

(* user control message shorter than its 2-byte event type *)
Lemma pinned_short_user_control :
  out_of sv_pinned w_uc1 = OPanic site_uc_be16 /\ out_of sv_fixed w_uc1 = OClose e_short_buffer.
Proof. split; vm_compute; reflexivity. Qed.

(* ping request shorter than event type + timestamp *)
Lemma pinned_short_ping :
  out_of sv_pinned w_ping3 = OPanic site_uc_be32 /\ out_of sv_fixed w_ping3 = OClose e_short_buffer.
Proof. split; vm_compute; reflexivity. Qed.

(* a second publish (or a play after a publish) on one session: modConnProps runs twice *)
Lemma pinned_publish_twice :
  out_of sv_pinned (w_pub ++ w_pub) = OPanic site_mod_wchan /\
  out_of sv_pinned (w_pub ++ w_play) = OPanic site_mod_wchan /\
  out_of sv_fixed (w_pub ++ w_pub) = OClose e_unexpected_msg /\
  out_of sv_fixed (w_pub ++ w_play) = OClose e_unexpected_msg.
Proof. split; [|split; [|split]]; vm_compute; reflexivity. Qed.

(* a well-formed session on the repaired tree: connect, publish, one audio
   message; the session is then blocked reading (nothing is wrong with it) and
   the shell reports its end exactly once *)
Lemma fixed_valid_session :
  let r := run_session hmac sv_fixed w_env (w_handshake ++ w_conn ++ w_pub ++ w_aud) in
  r_out r = OContinue err_eof /\
  r_ev r = [EvConnect 1 [108; 105; 118; 101];
            EvNewPub RPub [108; 105; 118; 101] [115] [] [47; 115] true;
            EvAv (mk_rmsg (mk_hdr 6 3 8 1 0) [175; 1; 2] 0)] /\
  lenN (concat (r_wr r)) = 386 /\
  handle_tcp_connect hmac sv_fixed w_env (w_handshake ++ w_conn ++ w_pub ++ w_aud)
    = Some (r_ev r ++ [EvDelPub]).
Proof.
  cbv zeta. split; [vm_compute; reflexivity|]. split; [vm_compute; reflexivity|].
  split; vm_compute; reflexivity.
Qed.

(* a video message with an empty payload / an audio message of one byte while the log level is trace:
   RunLoop's trace logging calls IsAvcKeySeqHeader / IsAacSeqHeader, which indexed Payload[0], Payload[1]
   unguarded before C05's repairs *)
Definition w_video0 : bytes := [7; 0; 0; 0; 0; 0; 0; 9; 1; 0; 0; 0].
Definition w_audio1 : bytes := [6; 0; 0; 0; 0; 0; 1; 8; 1; 0; 0; 0; 175].
Lemma pinned_trace_logging :
  r_out (run_session hmac sv_pinned w_env_trace (w_handshake ++ w_video0)) = OPanic MediaMsgChecked.s_avcsh /\
  r_out (run_session hmac sv_pinned w_env_trace (w_handshake ++ w_audio1)) = OPanic MediaMsgChecked.s_aacsh /\
  r_out (run_session hmac sv_fixed w_env_trace (w_handshake ++ w_video0)) = OClose e_unexpected_msg /\
  r_out (run_session hmac sv_fixed w_env_trace (w_handshake ++ w_audio1)) = OClose e_unexpected_msg.
Proof. split; [|split; [|split]]; vm_compute; reflexivity. Qed.

(* the composer's old memory rule ([sv_premem]): four chunks (12-byte header declaring a 16 MiB message, 128
   bytes of body) on four chunk stream ids: 64 MiB reserved for 3633 bytes received *)
Definition w_decl (csid : N) : bytes := [csid; 0; 0; 0; 255; 255; 255; 9; 1; 0; 0; 0] ++ repeat 0 128.
Definition w_decl4 : bytes := w_decl 3 ++ w_decl 4 ++ w_decl 5 ++ w_decl 6.
Lemma premem_declared_length :
  let input := w_handshake ++ w_decl4 in
  lenN input = 3633 /\
  mem_reserved (r_mem (run_session hmac sv_premem w_env input)) = 67108860 /\
  mem_reserved (r_mem (run_session hmac sv_fixed w_env input)) = 16384.
Proof. cbv zeta. split; [|split]; vm_compute; reflexivity. Qed.

(* 128 of 300 bytes of a message, Set Chunk Size 0xFFFFFFFF, then a header that declares 100 bytes for the
   same message: the remaining length wraps to 2^32 - 28 and is reserved in one piece *)
Definition w_shrink : bytes :=
  [6; 0; 0; 0; 0; 1; 44; 8; 1; 0; 0; 0] ++ repeat 0 128 ++
  [2; 0; 0; 0; 0; 0; 4; 1; 0; 0; 0; 0; 255; 255; 255; 255] ++
  [6; 0; 0; 0; 0; 0; 100; 8; 1; 0; 0; 0].
Lemma premem_shrinking_header :
  4294967296 <= mem_reserved (r_mem (run_session hmac sv_premem w_env (w_handshake ++ w_shrink))) /\
  r_out (run_session hmac sv_premem w_env (w_handshake ++ w_shrink)) = OContinue err_eof /\
  mem_reserved (r_mem (run_session hmac sv_fixed w_env (w_handshake ++ w_shrink))) = 4096 /\
  r_out (run_session hmac sv_fixed w_env (w_handshake ++ w_shrink)) = OClose err_len_bigger.
Proof. split; [|split; [|split]]; vm_compute; try reflexivity. discriminate. Qed.

(* a connect command after publish: before C20's repair the session accepted it (rewriting appName / tcUrl of a
   session the upper layer already reads, and - F-C04-4 - queueing four replies that shared one buffer); the
   upper layer was notified of a connect on a session that already is a publisher *)
Lemma pinned_connect_after_publish :
  (exists evs, handle_tcp_connect hmac sv_pinned w_env (w_handshake ++ w_pub ++ w_conn) = Some evs /\ shell_ok evs = false) /\
  r_out (run_session hmac sv_fixed w_env (w_handshake ++ w_pub ++ w_conn)) = OClose e_unexpected_msg.
Proof.
  split; [|vm_compute; reflexivity].
  eexists. split; [vm_compute; reflexivity|vm_compute; reflexivity].
Qed.

End Pinned.
