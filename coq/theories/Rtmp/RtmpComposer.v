(* Model of pkg/rtmp/chunk_composer.go (ChunkComposer.RunLoop over a finite
   input) and of the rtmp.Stream memory it keeps per chunk stream id.
   No proofs here.

   [rv_fixed] is the working tree after the C08 repairs, [rv_pinned] the pinned
   snapshot e30f1c4; see [rvariant] for the three places where they differ. *)
From Lal Require Import Common.LBytes Common.Res Common.LBytesRead Common.NAssoc Rtmp.RtmpChunk.
Open Scope N_scope.

Record rvariant := mk_rv4 {
  rv_needed_remaining : bool; (* true: neededSize = min(MsgLen - Len, peer) always (fixed);
                                 false: MsgLen <= peer short-cut reads MsgLen (pinned) *)
  rv_agg_payload : bool;      (* true: aggregate sub-message payload handed to the callback (fixed);
                                 false: NewBufferRefBytes leaves wpos = 0, payload empty (pinned) *)
  rv_agg_msid : bool;         (* true: sub-messages carry the aggregate's message stream id (fixed);
                                 false: the 24-bit id of the sub-header (pinned) *)
  rv_grow_received : bool     (* true (C04 memory repair): a header whose MsgLen is below what the message in
                                 progress already holds is refused before anything is read, and the chunk body
                                 is read in pieces of at most max(Len, initMsgLen) bytes, each flushed on arrival;
                                 false: one io.ReadFull of the whole chunk body, length check after it *)
}.
(* the three C08 switches, body read in one piece (the tree before the C04 memory repair) *)
Definition mk_rv (a b c : bool) : rvariant := mk_rv4 a b c false.
Definition rv_fixed := mk_rv4 true true true true.
Definition rv_pinned := mk_rv false false false.

(* rtmp.Stream.  The message buffer is kept reversed (newest byte first) with
   its length next to it so that appending a chunk body costs its own length. *)
Record stream := mk_stream {
  s_hdr : rtmp_header;
  s_rbuf : bytes;      (* stream.msg.buff.Bytes(), reversed *)
  s_len : N;           (* stream.msg.Len() *)
  s_abs : bool;        (* absTsFlag *)
  s_ts : N             (* timestamp: raw value of the chunk header field / extension *)
}.
Definition new_stream : stream := mk_stream (mk_hdr 0 0 0 0 0) [] 0 false 0.
(* linear-time reverse (List.rev is quadratic); rev_alt: rev l = rev_append l [] *)
Definition frev (l : bytes) : bytes := rev_append l [].
Definition s_buf (s : stream) : bytes := frev (s_rbuf s).

Record cstate := mk_cstate {
  cs_chunk : N;                     (* peerChunkSize *)
  cs_streams : list (N * stream)    (* csid2stream *)
}.
Definition default_chunk_size : N := 128.
Definition init_cstate (chunk : N) : cstate := mk_cstate chunk [].

Definition get_stream (csid : N) (l : list (N * stream)) : option stream := nget csid l.
Definition set_stream (csid : N) (s : stream) (l : list (N * stream)) : list (N * stream) := nset csid s l.
(* getOrCreateStream *)
Definition get_or_new (csid : N) (st : cstate) : stream :=
  match get_stream csid (cs_streams st) with Some s => s | None => new_stream end.
Definition put_stream (csid : N) (s : stream) (st : cstate) : cstate :=
  mk_cstate (cs_chunk st) (set_stream csid s (cs_streams st)).

(* what the callback receives: Stream.toAvMsg() and Stream.timestamp *)
Record rmsg := mk_rmsg { m_hdr : rtmp_header; m_payload : bytes; m_rawts : N }.

(* errors RunLoop returns *)
Definition err_eof : N := 1.              (* io.EOF: no byte available for this read *)
Definition err_unexpected_eof : N := 2.   (* io.ErrUnexpectedEOF: some but not enough *)
Definition err_agg_header : N := 3.       (* aggregate: sub message header short *)
Definition err_agg_body : N := 4.         (* aggregate: sub message body short *)
Definition err_agg_prev : N := 5.         (* aggregate: previous-size field short *)
Definition err_len_bigger : N := 6.       (* buffer longer than MsgLen *)

(* io.ReadAtLeast / io.ReadFull error on a finite input *)
Definition short_err (l : bytes) : N :=
  match l with [] => err_eof | _ => err_unexpected_eof end.

Inductive step :=
| Next (st : cstate) (out : list rmsg) (rest : bytes)
| Stop (st : cstate) (out : list rmsg) (e : N).

(* 5.3.1.1 basic header: fmt, csid, rest *)
Definition read_basic (l : bytes) : res (N * N * bytes) :=
  match l with
  | [] => Err err_eof
  | b0 :: l1 =>
      let fmt := (b0 / 64) mod 4 in
      let cs := b0 mod 64 in
      if cs =? 0 then
        match l1 with
        | b1 :: l2 => Ok (fmt, 64 + b1, l2)
        | _ => Err (short_err l1)
        end
      else if cs =? 1 then
        match l1 with
        | b1 :: b2 :: l2 => Ok (fmt, 64 + b1 + b2 * 256, l2)
        | _ => Err (short_err l1)
        end
      else Ok (fmt, cs, l1)
  end.

Definition set_hdr_ts (h : rtmp_header) (ts : N) : rtmp_header :=
  mk_hdr (h_csid h) (h_len h) (h_type h) (h_msid h) ts.
Definition set_hdr_csid (h : rtmp_header) (csid : N) : rtmp_header :=
  mk_hdr csid (h_len h) (h_type h) (h_msid h) (h_ts h).

(* 5.3.1.2 message header of the given fmt applied to the stream memory *)
Definition read_msg_header (fmt : N) (s : stream) (l : bytes) : res (stream * bytes) :=
  if fmt =? 0 then
    match takeN l 11 with
    | Some (b, r) =>
        let ts := be_get (firstn 3 b) in
        Ok (mk_stream (mk_hdr (h_csid (s_hdr s)) (be_get (firstn 3 (skipn 3 b))) (nth 6 b 0)
                              (le_get (skipn 7 b)) ts)
                      (s_rbuf s) (s_len s) true ts, r)
    | None => Err (short_err l)
    end
  else if fmt =? 1 then
    match takeN l 7 with
    | Some (b, r) =>
        Ok (mk_stream (mk_hdr (h_csid (s_hdr s)) (be_get (firstn 3 (skipn 3 b))) (nth 6 b 0)
                              (h_msid (s_hdr s)) (h_ts (s_hdr s)))
                      (s_rbuf s) (s_len s) (s_abs s) (be_get (firstn 3 b)), r)
    | None => Err (short_err l)
    end
  else if fmt =? 2 then
    match takeN l 3 with
    | Some (b, r) => Ok (mk_stream (s_hdr s) (s_rbuf s) (s_len s) (s_abs s) (be_get b), r)
    | None => Err (short_err l)
    end
  else Ok (s, l).

(* 5.3.1.3 extended timestamp: read whenever the remembered field is >= 0xFFFFFF *)
Definition read_ext_ts (fmt : N) (s : stream) (l : bytes) : res (stream * bytes) :=
  if max_ts <=? s_ts s then
    match takeN l 4 with
    | Some (b, r) =>
        let nts := be_get b in
        let abs' := if fmt =? 0 then nts
                    else if (fmt =? 1) || (fmt =? 2)
                         then u32 (h_ts (s_hdr s) + 4294967296 - max_ts + nts)
                         else h_ts (s_hdr s) in
        Ok (mk_stream (set_hdr_ts (s_hdr s) abs') (s_rbuf s) (s_len s) (s_abs s) nts, r)
    | None => Err (short_err l)
    end
  else Ok (s, l).

Definition needed_size (v : rvariant) (peer : N) (s : stream) : N :=
  let mlen := h_len (s_hdr s) in
  if negb (rv_needed_remaining v) && (mlen <=? peer) then mlen
  else N.min (u32 (mlen + 4294967296 - s_len s)) peer.

Definition type_set_chunk_size : N := 1.
Definition type_aggregate : N := 22.

(* the aggregate sub-message loop over the completed buffer.
   Returns delivered sub messages, what is left in stream.msg, and the error. *)
Fixpoint agg_loop (fuel : nat) (v : rvariant) (parent : rtmp_header) (first : bool) (base : N)
         (buf : bytes) : list rmsg * bytes * option N :=
  match buf with
  | [] => ([], [], None)
  | _ =>
    match fuel with
    | O => ([], buf, Some err_out_of_fuel)
    | S f =>
      match takeN buf 11 with
      | None => ([], buf, Some err_agg_header)
      | Some (hd, r1) =>
          let ty := nth 0 hd 0 in
          let sublen := be_get (firstn 3 (skipn 1 hd)) in
          let ts := be_get (firstn 3 (skipn 4 hd)) + nth 7 hd 0 * 16777216 in
          let msid := be_get (skipn 8 hd) in
          let base' := if first then ts else base in
          let abs := u32 (h_ts parent + ts + 4294967296 - base') in
          match takeN r1 sublen with
          | None => ([], r1, Some err_agg_body)
          | Some (body, r2) =>
              let m := mk_rmsg (mk_hdr (h_csid parent) sublen ty
                                       (if rv_agg_msid v then h_msid parent else msid) abs)
                               (if rv_agg_payload v then body else []) ts in
              match takeN r2 4 with
              | None => ([m], r2, Some err_agg_prev)
              | Some (_, r3) =>
                  let '(ms, lft, e) := agg_loop f v parent false base' r3 in
                  (m :: ms, lft, e)
              end
          end
      end
    end
  end.

(* chunk data, and what happens when the message is complete *)
(* rtmp.initMsgLen *)
Definition init_msg_len : N := 4096.

(* the chunk body read piece by piece (each piece at most max(Len, initMsgLen) bytes, flushed when it
   arrived): what the message buffer holds when the input ends inside the body *)
Fixpoint pieces_read (fuel : nat) (l : bytes) (left len : N) (racc : bytes) : bytes * N :=
  match fuel with
  | O => (racc, len)
  | S f =>
      if left =? 0 then (racc, len)
      else
        let p := N.min left (N.max len init_msg_len) in
        match read_body l p racc with
        | None => (racc, len)
        | Some (racc', l') => pieces_read f l' (left - p) (len + p) racc'
        end
  end.

Definition compose_body (v : rvariant) (st : cstate) (csid : N) (s2 : stream) (l3 : bytes) : step :=
  if rv_grow_received v && (h_len (s_hdr s2) <? s_len s2) then Stop (put_stream csid s2 st) [] err_len_bigger
  else
  let need := needed_size v (cs_chunk st) s2 in
  match read_body l3 need (s_rbuf s2) with
  | None =>
      let s2' := if rv_grow_received v
                 then let '(racc, len) := pieces_read (S (length l3)) l3 need (s_len s2) (s_rbuf s2) in
                      mk_stream (s_hdr s2) racc len (s_abs s2) (s_ts s2)
                 else s2 in
      Stop (put_stream csid s2' st) [] (short_err l3)
  | Some (rbuf, l4) =>
    let s3 := mk_stream (s_hdr s2) rbuf (s_len s2 + need) (s_abs s2) (s_ts s2) in
    if s_len s3 =? h_len (s_hdr s3) then
      (* message complete *)
      let buf := frev rbuf in
      let chunk' := if (h_type (s_hdr s3) =? type_set_chunk_size) && (4 <=? s_len s3)
                    then be_get (firstn 4 buf) else cs_chunk st in
      let abs' := if s_abs s3 then h_ts (s_hdr s3) else u32 (h_ts (s_hdr s3) + s_ts s3) in
      let hdr' := mk_hdr csid (h_len (s_hdr s3)) (h_type (s_hdr s3)) (h_msid (s_hdr s3)) abs' in
      if h_type hdr' =? type_aggregate then
        let '(ms, lft, e) := agg_loop (length buf) v hdr' true 0 buf in
        let s4 := mk_stream hdr' (frev lft) (lenN lft) false (s_ts s3) in
        let st' := mk_cstate chunk' (set_stream csid s4 (cs_streams st)) in
        match e with
        | Some e => Stop st' ms e
        | None => Next st' ms l4
        end
      else
        let s4 := mk_stream hdr' [] 0 false (s_ts s3) in
        Next (mk_cstate chunk' (set_stream csid s4 (cs_streams st)))
             [mk_rmsg hdr' buf (s_ts s3)] l4
    else if h_len (s_hdr s3) <? s_len s3 then
      Stop (put_stream csid s3 st) [] err_len_bigger
    else Next (put_stream csid s3 st) [] l4
  end.

(* one iteration of the RunLoop for-loop *)
Definition compose_chunk (v : rvariant) (st : cstate) (l : bytes) : step :=
  match read_basic l with
  | Err e => Stop st [] e
  | Panic e => Stop st [] e
  | Ok (fmt, csid, l1) =>
    let s0 := get_or_new csid st in
    match read_msg_header fmt s0 l1 with
    | Err e => Stop (put_stream csid s0 st) [] e
    | Panic e => Stop (put_stream csid s0 st) [] e
    | Ok (s1, l2) =>
      match read_ext_ts fmt s1 l2 with
      | Err e => Stop (put_stream csid s1 st) [] e
      | Panic e => Stop (put_stream csid s1 st) [] e
      | Ok (s2, l3) => compose_body v st csid s2 l3
      end
    end
  end.

(* RunLoop over a finite input: always ends with an error (io.EOF at best) *)
Fixpoint run_loop (fuel : nat) (v : rvariant) (st : cstate) (l : bytes) : cstate * list rmsg * N :=
  match fuel with
  | O => (st, [], err_out_of_fuel)
  | S f =>
      match compose_chunk v st l with
      | Stop st' out e => (st', out, e)
      | Next st' out rest =>
          let '(st'', outs, e) := run_loop f v st' rest in
          (st'', out ++ outs, e)
      end
  end.

Definition run_composer_v (v : rvariant) (st : cstate) (l : bytes) : cstate * list rmsg * N :=
  run_loop (S (length l)) v st l.

Definition run_composer := run_composer_v rv_fixed.
Definition run_composer_pinned := run_composer_v rv_pinned.

(* a chunk stream is idle: no partially assembled message *)
Definition stream_idle (s : stream) : Prop := s_rbuf s = [] /\ s_len s = 0 /\ s_abs s = false.
Definition idle_at (st : cstate) (csid : N) : Prop :=
  match get_stream csid (cs_streams st) with
  | None => True
  | Some s => stream_idle s
  end.
