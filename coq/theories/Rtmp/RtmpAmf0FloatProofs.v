(* float64(int) is exact below 2^53: the number BuildMetadata / WriteObject
   write for an int field denotes that very integer (IEEE-754 binary64). *)
From Lal Require Import Common.LBytes Rtmp.RtmpAmf0.
From Coq Require Import Lia ZifyN ZifyNat ZifyBool.
Ltac Zify.zify_post_hook ::= Z.div_mod_to_equations.
Open Scope N_scope.

(* IEEE-754 binary64: the integer a bit pattern denotes, when it denotes one *)
Definition f64_int_value (bits : N) : option Z :=
  let neg := bits / 9223372036854775808 mod 2 =? 1 in
  let E := bits / 4503599627370496 mod 2048 in
  let M := bits mod 4503599627370496 in
  let sgn (v : N) : Z := if neg then (- Z.of_N v)%Z else Z.of_N v in
  if E =? 0 then (if M =? 0 then Some 0%Z else None)
  else if E =? 2047 then None
  else
    let S := 4503599627370496 + M in
    if 1075 <=? E then Some (sgn (S * 2 ^ (E - 1075)))
    else if S mod 2 ^ (1075 - E) =? 0 then Some (sgn (S / 2 ^ (1075 - E))) else None.

Lemma f64_of_Z_exact z :
  (- 9007199254740992 < z < 9007199254740992)%Z -> f64_int_value (f64_of_Z z) = Some z.
Proof.
  intro Hz. destruct z as [|p|p]; [reflexivity| |].
  all: unfold f64_of_Z.
  all: set (m := Z.to_N (Z.abs _)); set (s := if (_ <? 0)%Z then _ else 0).
  all: assert (Hm0 : 0 < m) by (subst m; lia).
  all: assert (Hm : m < 2 ^ 53) by (subst m; change (2 ^ 53) with 9007199254740992; lia).
  all: pose proof (N.log2_spec m Hm0) as [L1 L2]; set (e := N.log2 m) in *.
  all: assert (He : e <= 52)
    by (destruct (N.le_gt_cases e 52) as [?|G]; [assumption|];
        exfalso; assert (2 ^ 53 <= 2 ^ e) by (apply N.pow_le_mono_r; lia); lia).
  all: destruct (N.leb_spec e 52) as [_|?]; [|lia].
  all: set (t := 52 - e).
  all: assert (Pp : 0 < 2 ^ t) by (apply N.neq_0_lt_0, N.pow_nonzero; discriminate).
  all: assert (P1 : m * 2 ^ t < 2 ^ 53)
      by (replace 53 with (N.succ e + t) by (subst t; lia); rewrite N.pow_add_r;
          apply N.mul_lt_mono_pos_r; assumption).
  all: assert (P2 : 2 ^ 52 <= m * 2 ^ t)
      by (replace 52 with (e + t) at 1 by (subst t; lia); rewrite N.pow_add_r;
          apply N.mul_le_mono_r; assumption).
  all: change (2 ^ 53) with 9007199254740992 in P1; change (2 ^ 52) with 4503599627370496 in P2.
  all: set (X := m * 2 ^ t) in *.
  all: unfold f64_int_value.
  (* positive *)
  - assert (Es : s = 0) by reflexivity. rewrite Es. clear Es.
    set (bits := 0 + (e + 1023) * 4503599627370496 + (X - 4503599627370496)).
    assert (B1 : bits / 9223372036854775808 mod 2 = 0) by (subst bits; lia).
    assert (B2 : bits / 4503599627370496 mod 2048 = e + 1023) by (subst bits; lia).
    assert (B3 : bits mod 4503599627370496 = X - 4503599627370496) by (subst bits; lia).
    rewrite B1, B2, B3. change (0 =? 1) with false. cbv zeta.
    destruct (N.eqb_spec (e + 1023) 0) as [?|_]; [lia|].
    destruct (N.eqb_spec (e + 1023) 2047) as [?|_]; [lia|].
    replace (4503599627370496 + (X - 4503599627370496)) with X by lia.
    destruct (N.leb_spec 1075 (e + 1023)) as [H|H].
    + assert (e = 52) by lia. subst X t. replace (e + 1023 - 1075) with 0 by lia.
      replace (52 - e) with 0 by lia. cbn [N.pow]. rewrite !N.mul_1_r. subst m. f_equal; try lia.
    + replace (1075 - (e + 1023)) with t by (subst t; lia). subst X.
      rewrite N.mod_mul by lia. cbn [N.eqb]. rewrite N.div_mul by lia. subst m. f_equal; try lia.
  (* negative *)
  - assert (Es : s = 9223372036854775808) by reflexivity. rewrite Es. clear Es.
    set (bits := 9223372036854775808 + (e + 1023) * 4503599627370496 + (X - 4503599627370496)).
    assert (B1 : bits / 9223372036854775808 mod 2 = 1) by (subst bits; lia).
    assert (B2 : bits / 4503599627370496 mod 2048 = e + 1023) by (subst bits; lia).
    assert (B3 : bits mod 4503599627370496 = X - 4503599627370496) by (subst bits; lia).
    rewrite B1, B2, B3. change (1 =? 1) with true. cbv zeta.
    destruct (N.eqb_spec (e + 1023) 0) as [?|_]; [lia|].
    destruct (N.eqb_spec (e + 1023) 2047) as [?|_]; [lia|].
    replace (4503599627370496 + (X - 4503599627370496)) with X by lia.
    destruct (N.leb_spec 1075 (e + 1023)) as [H|H].
    + assert (e = 52) by lia. subst X t. replace (e + 1023 - 1075) with 0 by lia.
      replace (52 - e) with 0 by lia. cbn [N.pow]. rewrite !N.mul_1_r. subst m. f_equal; try lia.
    + replace (1075 - (e + 1023)) with t by (subst t; lia). subst X.
      rewrite N.mod_mul by lia. cbn [N.eqb]. rewrite N.div_mul by lia. subst m. f_equal; try lia.
Qed.
