(* Machine-checked witnesses: what was false of the pinned snapshot e30f1c4
   (the models of the pinned code are the *_pinned / variant instances kept in
   RtmpChunk.v and RtmpComposer.v).  Each witness was replayed on the Go code. *)
From Lal Require Import Common.LBytes Common.Res Common.LBytesRead Common.NAssoc
  Rtmp.RtmpChunk Rtmp.RtmpComposer Rtmp.RtmpChunkSpec Rtmp.RtmpLegalProofs Rtmp.RtmpRoundtripProofs.
Open Scope N_scope.

Definition delivered (r : cstate * list rmsg * N) : list smsg := map rview (snd (fst r)).
Definition end_error (r : cstate * list rmsg * N) : N := snd r.

(* F-01: timestamp exactly 0xFFFFFF - the pinned writer omits the extended
   timestamp, every reader expects it *)
Lemma f01_pinned_refuted :
  exists c h p bs,
    0 < c /\ hdr_ok h /\ lenN p = h_len h /\ bytes_ok p /\ h_type h <> 1 /\ h_type h <> 22 /\
    message2chunks_pinned c h None p = Ok bs /\
    delivered (run_composer_pinned (init_cstate c) bs) = [] /\
    delivered (run_composer (init_cstate c) bs) = [] /\
    ref_decode c bs = None.
Proof.
  exists 128, (mk_hdr 4 3 9 1 16777215), [1; 2; 3], [4; 255; 255; 255; 0; 0; 3; 9; 1; 0; 0; 0; 1; 2; 3].
  repeat split; try (vm_compute; congruence); try reflexivity.
  repeat constructor.
Qed.

(* zero-length message: the pinned writer emits no chunk at all *)
Lemma empty_pinned_refuted :
  exists c h, 0 < c /\ hdr_ok h /\ h_len h = 0 /\ message2chunks_pinned c h None [] = Ok [].
Proof. exists 128, (mk_hdr 4 0 9 1 5). repeat split; try (vm_compute; congruence); reflexivity. Qed.

(* a legal chunking carrying one aggregate message with one sub-message
   (type 9, timestamp 5, payload aa bb cc, stream-id field 1; aggregate on
   message stream 7 at timestamp 100) *)
Definition agg_witness : smsg :=
  mk_smsg 3 22 7 100 [9; 0; 0; 3; 0; 0; 5; 0; 0; 0; 1; 170; 187; 204; 0; 0; 0; 14].
Definition agg_witness_bytes : bytes :=
  [3; 0; 0; 100; 0; 0; 18; 22; 7; 0; 0; 0; 9; 0; 0; 3; 0; 0; 5; 0; 0; 0; 1; 170; 187; 204; 0; 0; 0; 14].

Lemma agg_witness_legal : legal_chunking 128 [agg_witness] agg_witness_bytes.
Proof. exists [EStart 0 false agg_witness]. eexists. vm_compute. reflexivity. Qed.

Lemma agg_witness_delivery : deliver_all [agg_witness] = [mk_smsg 3 9 7 100 [170; 187; 204]].
Proof. vm_compute. reflexivity. Qed.

(* pinned: NewBufferRefBytes leaves the write position at 0, the callback sees an empty payload *)
Lemma agg_payload_pinned_refuted :
  legal_chunking 128 [agg_witness] agg_witness_bytes /\
  delivered (run_composer_v (mk_rv true false true) (init_cstate 128) agg_witness_bytes)
  = [mk_smsg 3 9 7 100 []].
Proof. split; [exact agg_witness_legal|vm_compute; reflexivity]. Qed.

(* pinned: sub-message keeps the 24-bit id of its own header instead of the aggregate's stream id *)
Lemma agg_msid_pinned_refuted :
  legal_chunking 128 [agg_witness] agg_witness_bytes /\
  delivered (run_composer_v (mk_rv true true false) (init_cstate 128) agg_witness_bytes)
  = [mk_smsg 3 9 1 100 [170; 187; 204]].
Proof. split; [exact agg_witness_legal|vm_compute; reflexivity]. Qed.

(* pinned: Set Chunk Size (2 -> 128) between two chunks of a 3-byte message on
   another chunk stream: the short-cut "MsgLen <= peerChunkSize" reads 3 bytes
   instead of the remaining 1 *)
Definition scs_msg_a : smsg := mk_smsg 4 9 1 5 [1; 2; 3].
Definition scs_msg_b : smsg := mk_smsg 2 1 0 0 [0; 0; 0; 128].
Definition scs_script : list eact :=
  [EStart 0 false scs_msg_a; EStart 0 false scs_msg_b; ECont 2 false; ECont 4 false].
Definition scs_witness_bytes : bytes :=
  [4; 0; 0; 5; 0; 0; 3; 9; 1; 0; 0; 0; 1; 2;  2; 0; 0; 0; 0; 0; 4; 1; 0; 0; 0; 0; 0; 0;  194; 0; 128;  196; 3].

Lemma scs_witness_legal : legal_chunking 2 [scs_msg_b; scs_msg_a] scs_witness_bytes.
Proof. exists scs_script. eexists. vm_compute. reflexivity. Qed.

Lemma needed_size_pinned_refuted :
  legal_chunking 2 [scs_msg_b; scs_msg_a] scs_witness_bytes /\
  delivered (run_composer_v (mk_rv false true true) (init_cstate 2) scs_witness_bytes) = [scs_msg_b] /\
  end_error (run_composer_v (mk_rv false true true) (init_cstate 2) scs_witness_bytes) = err_unexpected_eof /\
  delivered (run_composer (init_cstate 2) scs_witness_bytes) = [scs_msg_b; scs_msg_a].
Proof. split; [exact scs_witness_legal|]. repeat split; vm_compute; reflexivity. Qed.

(* all five together: the pinned writer and reader as they were *)
Lemma pinned_reader_refuted :
  exists chunk msgs cs,
    legal_chunking chunk msgs cs /\ delivered (run_composer_pinned (init_cstate chunk) cs) <> deliver_all msgs.
Proof.
  exists 128, [agg_witness], agg_witness_bytes. split; [exact agg_witness_legal|].
  vm_compute. intro H. discriminate H.
Qed.

(* Not a finding (every caller passes prevHeader = nil), recorded: the
   previous-header compression of message2Chunks is not decodable.  A second
   message with the same stream id / length / type / timestamp as the first is
   written with a type 3 header meaning "same timestamp"; every reader adds the
   remembered timestamp field again (1000 -> 2000). *)
Lemma prev_header_compression_unreadable :
  let h := mk_hdr 4 2 9 1 1000 in
  exists b1 b2,
    message2chunks 128 h None [1; 2] = Ok b1 /\ message2chunks 128 h (Some h) [3; 4] = Ok b2 /\
    delivered (run_composer (init_cstate 128) (b1 ++ b2))
    = [mk_smsg 4 9 1 1000 [1; 2]; mk_smsg 4 9 1 2000 [3; 4]] /\
    ref_decode 128 (b1 ++ b2) = Some [mk_smsg 4 9 1 1000 [1; 2]; mk_smsg 4 9 1 2000 [3; 4]].
Proof. eexists. eexists. repeat split; vm_compute; reflexivity. Qed.
