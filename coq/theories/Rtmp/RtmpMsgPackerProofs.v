(* MessagePacker: every writer puts on the wire exactly what the chunk divider
   would produce for (csid, body length, type, stream id, timestamp 0, body), on
   both paths of ChunkAndWrite; hence a legal chunking that lal's reader and the
   reference reader decode to that message. *)
From Lal Require Import Common.LBytes Common.Res Common.LBytesRead Common.NAssoc
  Common.LBytesProofs Common.LBytesReadProofs Common.NAssocProofs
  Rtmp.RtmpChunk Rtmp.RtmpComposer Rtmp.RtmpComposerProofs Rtmp.RtmpChunkSpec Rtmp.RtmpChunkSpecProofs
  Rtmp.RtmpLegalProofs Rtmp.RtmpRoundtripProofs
  Rtmp.RtmpMsgPackerBuf Rtmp.RtmpMsgPackerBufProofs Rtmp.RtmpMsgPacker.
From Coq Require Import Lia ZifyN ZifyNat ZifyBool.
Ltac Zify.zify_post_hook ::= Z.div_mod_to_equations.
Open Scope N_scope.

Definition packer_hdr (body : bytes) (csid ty msid : N) : rtmp_header := mk_hdr csid (lenN body) ty msid 0.

(* ------------------------------------------------------------------ the buffer plays no role *)
Lemma packer_step_emit b c out :
  idle b ->
  packer_emit (pcmd_body c) (pcmd_csid c) (pcmd_type c) (pcmd_msid c) = Ok out ->
  exists b', packer_step b c = Ok (out, b') /\ idle b'.
Proof.
  intros Hi He. unfold packer_step, pcmd_body, pcmd_csid, pcmd_type, pcmd_msid in *.
  destruct (pcmd_parts c) as [[[ws csid] ty] msid]. cbn [fst snd] in He.
  assert (Hh : healthy (mod_write_pos12 b)).
  { unfold healthy, mod_write_pos12, idle in *. cbn [b_cap b_w b_body]. change (lenN (@nil N)) with 0. split; lia. }
  destruct (buf_writes_fixed ws _ Hh) as [b1 [E1 [[Hw Hc] B1]]]. rewrite E1.
  cbn [mod_write_pos12 b_body app] in B1. cbn [bind].
  unfold packer_chunk_and_write, buf_body.
  assert ((b_cap b1 <? b_w b1) = false) as -> by (apply N.ltb_ge; exact Hc). cbn [bind].
  assert (b_w b1 - 12 = lenN (concat ws)) as -> by (rewrite Hw, B1; lia).
  rewrite B1. unfold packer_emit in He.
  destruct (lenN (concat ws) <=? RtmpChunk.local_chunk_size).
  - destruct (single_chunk_header csid (lenN (concat ws)) ty msid) as [hb|e|e]; cbn [bind] in *; try discriminate.
    inversion He; subst. eexists. split; [reflexivity|]. unfold idle in *. cbn [b_cap]. lia.
  - rewrite He. cbn [bind]. eexists. split; [reflexivity|]. unfold idle in *. cbn [b_cap]. lia.
Qed.

(* ------------------------------------------------------------------ both paths = the chunk divider *)
Lemma packer_emit_eq body csid ty msid :
  2 <= csid <= 63 -> ty < 256 -> msid < 4294967296 -> lenN body < 16777216 ->
  packer_emit body csid ty msid = message2chunks 4096 (packer_hdr body csid ty msid) None body.
Proof.
  intros Hc Ht Hm Hl. unfold packer_emit, packer_hdr. change RtmpChunk.local_chunk_size with 4096.
  rewrite (m2c_ok 4096) by lia.
  destruct (lenN body <=? 4096) eqn:E.
  - apply N.leb_le in E.
    destruct (packer_header_eq csid ty msid body (N.to_nat 4096) Hc Ht Hm Hl) as (hb & Hh & Heq).
    { unfold lenN in E. lia. } { lia. }
    rewrite Hh. cbn [bind]. rewrite Heq. reflexivity.
  - unfold message2chunks_default. change RtmpChunk.local_chunk_size with 4096. rewrite (m2c_ok 4096) by lia.
    assert (u32 (lenN body) = lenN body) as -> by (unfold u32; lia).
    assert (u8 ty = ty) as -> by (unfold u8; lia). reflexivity.
Qed.

Lemma packer_hdr_ok body csid ty msid :
  2 <= csid <= 63 -> ty < 256 -> msid < 4294967296 -> lenN body < 16777216 ->
  hdr_ok (packer_hdr body csid ty msid).
Proof. intros. unfold hdr_ok, packer_hdr. cbn. lia. Qed.

(* ------------------------------------------------------------------ every message of the packer *)
Theorem packer_message body csid ty msid :
  2 <= csid <= 63 -> ty < 256 -> msid < 4294967296 -> lenN body < 16777216 -> bytes_ok body ->
  ty <> 1 -> ty <> 22 ->
  let h := packer_hdr body csid ty msid in
  exists bs,
    packer_emit body csid ty msid = Ok bs /\
    legal_chunking 4096 [msg_of h body] bs /\
    ref_decode 4096 bs = Some [msg_of h body] /\
    forall st, cs_chunk st = 4096 -> idle_at st csid ->
      exists raw,
        run_composer st bs = (mk_cstate 4096 (nset csid (done_stream h) (cs_streams st)), [mk_rmsg h body raw], err_eof).
Proof.
  intros Hc Ht Hm Hl Hb H1 H22 h.
  pose proof (packer_hdr_ok body csid ty msid Hc Ht Hm Hl) as Hh. fold h in Hh.
  assert (Hp : lenN body = h_len h) by reflexivity.
  exists (message2chunks_core wv_fixed (N.to_nat 4096) h None body).
  split; [rewrite packer_emit_eq by assumption; apply m2c_ok; lia|].
  assert (Hok : Forall hp_ok [(h, body)]).
  { constructor; [|constructor]. exact (conj Hh (conj Hp (conj Hb (conj H1 H22)))). }
  split.
  { pose proof (writer_legal (N.to_nat 4096) [(h, body)] ltac:(lia) Hok) as HL.
    rewrite N2Nat.id in HL. cbn [m2c_all flat_map fst snd msgs_of map] in HL. rewrite app_nil_r in HL. exact HL. }
  split.
  { pose proof (write_read_spec 4096 [(h, body)] ltac:(lia) Hok) as HS.
    cbn [m2c_all flat_map fst snd msgs_of map] in HS. rewrite app_nil_r in HS. exact HS. }
  intros st Hchunk Hidle.
  destruct (write_read_lal 4096 h body st ltac:(lia) Hh Hp Hb H1 H22 Hchunk Hidle) as (bs & raw & Hbs & Hrun & _).
  rewrite (m2c_ok 4096) in Hbs by lia. inversion Hbs; subst bs. exists raw. exact Hrun.
Qed.

(* Set Chunk Size (type 1) is the one writer whose message changes the reader:
   the message comes back and the reader's chunk size becomes the value *)
Theorem packer_set_chunk_size v st :
  1 <= v < 2147483648 -> cs_chunk st = 4096 -> idle_at st 2 ->
  let h := mk_hdr 2 4 1 0 0 in
  exists bs raw,
    packer_emit (be_put 4 v) 2 1 0 = Ok bs /\
    legal_chunking 4096 [msg_of h (be_put 4 v)] bs /\
    ref_decode 4096 bs = Some [msg_of h (be_put 4 v)] /\
    run_composer st bs = (mk_cstate v (nset 2 (done_stream h) (cs_streams st)), [mk_rmsg h (be_put 4 v) raw], err_eof).
Proof.
  intros Hv Hchunk Hidle h.
  assert (Hbp : be_put 4 v = put32 v) by (apply be_put_4; lia).
  assert (Hh : hdr_ok h) by (unfold hdr_ok, h; cbn; lia).
  assert (Hp : lenN (be_put 4 v) = h_len h) by reflexivity.
  assert (Hwf : msg_wf (msg_of h (be_put 4 v)) = true).
  { unfold msg_wf, msg_of, h. cbn [g_csid g_type g_msid g_ts g_payload h_csid h_type h_msid h_ts].
    rewrite Hbp. unfold put32. cbn [N.eqb Pos.eqb set_chunk_size_type aggregate_type].
    rewrite be32_put by lia.
    assert (bytes_okb [v / 16777216; (v / 65536) mod 256; (v / 256) mod 256; v mod 256] = true) as ->.
    { apply bytes_okb_spec. repeat constructor; lia. }
    unfold two32. change (lenN [v / 16777216; (v / 65536) mod 256; (v / 256) mod 256; v mod 256]) with 4. lia. }
  assert (Hafter : spec_chunk_after 4096 (msg_of h (be_put 4 v)) = v).
  { unfold spec_chunk_after, msg_of, h. cbn [g_type g_payload h_type N.eqb Pos.eqb set_chunk_size_type].
    rewrite Hbp. unfold put32. rewrite be32_put by lia. apply N.mod_small. lia. }
  destruct (idle_get_or_new st 2 Hidle) as [Hrb Hsl].
  destruct (lal_reads_message h (be_put 4 v) (N.to_nat 4096) st [] Hh Hp Hwf ltac:(lia)
              ltac:(rewrite N2Nat.id; exact Hchunk) Hrb Hsl) as (out & Hrun & Hd & Hok).
  rewrite (spec_deliver_plain h (be_put 4 v)) in Hd by (unfold h; cbn; lia). inversion Hd as [Hvw]. symmetry in Hvw.
  destruct (rview_plain_inv out h _ Hvw Hok Hp) as (raw & ->).
  exists (message2chunks_core wv_fixed (N.to_nat 4096) h None (be_put 4 v)), raw.
  split.
  { change (mk_hdr 2 4 1 0 0) with (packer_hdr (be_put 4 v) 2 1 0) in h.
    rewrite packer_emit_eq by (try lia; reflexivity). apply m2c_ok. lia. }
  destruct (writer_one h (be_put 4 v) (N.to_nat 4096) (init_estate 4096) Hh Hp Hwf ltac:(lia) ltac:(cbn; lia) I)
    as (script & Hscript).
  assert (HL : legal_chunking 4096 [msg_of h (be_put 4 v)] (message2chunks_core wv_fixed (N.to_nat 4096) h None (be_put 4 v))).
  { exists script. eexists. exact Hscript. }
  split; [exact HL|]. split.
  { rewrite (ref_decode_legal 4096 _ _ ltac:(unfold two32; lia) HL). cbn [deliver_all].
    rewrite spec_deliver_plain by (unfold h; cbn; lia). reflexivity. }
  specialize (Hrun _ _ _ (run_composer_nil rv_fixed (final_state h (be_put 4 v) st))).
  rewrite app_nil_r in Hrun. unfold final_state in Hrun. rewrite Hchunk, Hafter in Hrun. exact Hrun.
Qed.

(* ------------------------------------------------------------------ the concrete writers *)
Definition pcmd_args_ok (c : pcmd) : Prop :=
  match c with
  | PPlay _ msid | PPublish _ msid | POnStatusPublish msid | POnStatusPlay msid => msid < 4294967296
  | PRaw csid ty msid _ => 2 <= csid <= 63 /\ ty < 256 /\ msid < 4294967296
  | _ => True
  end.

Lemma pcmd_params c : pcmd_args_ok c ->
  2 <= pcmd_csid c <= 63 /\ pcmd_type c < 256 /\ pcmd_msid c < 4294967296.
Proof.
  destruct c; unfold pcmd_csid, pcmd_type, pcmd_msid; cbn [pcmd_parts fst snd pcmd_args_ok];
    unfold csid_protocol_control, csid_over_connection, csid_over_stream, type_cmd_amf0; intro H; lia.
Qed.

(* one writer on a packer in use: the buffer state is irrelevant, the wire
   carries a legal chunking of exactly (csid, type, msid, timestamp 0, body) *)
Theorem packer_writer b c :
  idle b -> pcmd_args_ok c -> lenN (pcmd_body c) < 16777216 -> bytes_ok (pcmd_body c) ->
  pcmd_type c <> 1 -> pcmd_type c <> 22 ->
  let h := packer_hdr (pcmd_body c) (pcmd_csid c) (pcmd_type c) (pcmd_msid c) in
  exists out b',
    packer_step b c = Ok (out, b') /\ idle b' /\
    legal_chunking 4096 [msg_of h (pcmd_body c)] out /\
    ref_decode 4096 out = Some [msg_of h (pcmd_body c)] /\
    forall st, cs_chunk st = 4096 -> idle_at st (pcmd_csid c) ->
      exists raw,
        run_composer st out
        = (mk_cstate 4096 (nset (pcmd_csid c) (done_stream h) (cs_streams st)), [mk_rmsg h (pcmd_body c) raw], err_eof).
Proof.
  intros Hi Ha Hl Hb H1 H22 h.
  destruct (pcmd_params c Ha) as (Hc & Ht & Hm).
  destruct (packer_message (pcmd_body c) (pcmd_csid c) (pcmd_type c) (pcmd_msid c) Hc Ht Hm Hl Hb H1 H22)
    as (bs & He & HL & HS & HR).
  destruct (packer_step_emit b c bs Hi He) as (b' & Hs & Hi').
  exists bs, b'. repeat split; assumption.
Qed.
