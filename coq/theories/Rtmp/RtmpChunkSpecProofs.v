(* Facts about the reference codec alone: the reference reader decodes every
   legal chunking (consistency of RtmpChunkSpec.v with itself). *)
From Lal Require Import Common.LBytes Common.LBytesRead Common.NAssoc
  Common.LBytesProofs Common.LBytesReadProofs Common.NAssocProofs Rtmp.RtmpChunkSpec.
From Coq Require Import Lia ZifyN ZifyNat ZifyBool.
Ltac Zify.zify_post_hook ::= Z.div_mod_to_equations.
Open Scope N_scope.

(* ------------------------------------------------------------------ bytes *)
Lemma be24_put v : v < 16777216 -> be24 (v / 65536) ((v / 256) mod 256) (v mod 256) = v.
Proof. intro H. unfold be24. lia. Qed.
Lemma be32_put v : v < 4294967296 ->
  be32 (v / 16777216) ((v / 65536) mod 256) ((v / 256) mod 256) (v mod 256) = v.
Proof. intro H. unfold be32. lia. Qed.
Lemma le32_put v : v < 4294967296 ->
  le32 (v mod 256) ((v / 256) mod 256) ((v / 65536) mod 256) (v / 16777216) = v.
Proof. intro H. unfold le32. lia. Qed.

Lemma enc_cut_spec chunk p data rest :
  enc_cut chunk p = (data, rest) -> p = data ++ rest /\ lenN data = N.min chunk (lenN p).
Proof.
  unfold enc_cut. destruct (takeN p (N.min chunk (lenN p))) as [[a r]|] eqn:E.
  - intro H; inversion H; subst. now apply takeN_some in E.
  - apply takeN_none in E. lia.
Qed.

Lemma enc_cut_rest_nil chunk p data rest :
  enc_cut chunk p = (data, rest) -> (rest = [] <-> lenN data = lenN p).
Proof.
  intro H. apply enc_cut_spec in H. destruct H as [-> H].
  rewrite lenN_app. split.
  - intros ->. change (lenN (@nil N)) with 0. lia.
  - intro E. apply lenN_0. lia.
Qed.

(* ------------------------------------------------------------------ basic header *)
Lemma spec_basic_enc fmt csid wide bh X :
  fmt < 4 -> enc_basic fmt csid wide = Some bh -> spec_basic (bh ++ X) = Some (fmt, csid, X).
Proof.
  intros Hf. unfold enc_basic.
  destruct ((2 <=? csid) && (csid <=? 63)) eqn:E1.
  { destruct wide; [discriminate|]. intro H; inversion H; subst. cbn [app spec_basic].
    assert ((fmt * 64 + csid) mod 64 = csid) as -> by lia.
    assert ((fmt * 64 + csid) / 64 = fmt) as -> by lia.
    destruct (csid =? 0) eqn:E2; [lia|]. destruct (csid =? 1) eqn:E3; [lia|]. reflexivity. }
  destruct ((64 <=? csid) && (csid <=? 319) && negb wide) eqn:E2.
  { intro H; inversion H; subst. cbn [app spec_basic].
    assert ((fmt * 64) mod 64 = 0) as -> by lia.
    assert ((fmt * 64) / 64 = fmt) as -> by lia.
    cbn [N.eqb]. f_equal. f_equal. f_equal. lia. }
  destruct ((64 <=? csid) && (csid <=? 65599)) eqn:E3; [|discriminate].
  intro H; inversion H; subst. cbn [app spec_basic].
  assert ((fmt * 64 + 1) mod 64 = 1) as -> by lia.
  assert ((fmt * 64 + 1) / 64 = fmt) as -> by lia.
  cbn [N.eqb Pos.eqb]. f_equal. f_equal. f_equal. lia.
Qed.

(* ------------------------------------------------------------------ well-formed writer state *)
Definition emem_wf (csid : N) (e : emem) : Prop :=
  e_ts e < two32 /\ e_len e < 16777216 /\ e_type e < 256 /\ e_msid e < two32 /\
  e_ext e = (ts_escape <=? e_delta e) /\ (e_ext e = true -> e_delta e = e_ts e) /\
  match e_rest e with
  | None => True
  | Some (m, rest) =>
      msg_wf m = true /\ g_csid m = csid /\ rest <> [] /\ (exists done, g_payload m = done ++ rest) /\
      e_len e = lenN (g_payload m) /\ e_type e = g_type m /\ e_msid e = g_msid m /\ e_ts e = g_ts m
  end.
Definition estate_wf (st : estate) : Prop :=
  es_chunk st < two32 /\ forall csid e, nget csid (es_mem st) = Some e -> emem_wf csid e.

Lemma msg_wf_inv m : msg_wf m = true ->
  2 <= g_csid m <= 65599 /\ g_type m < 256 /\ g_msid m < two32 /\ g_ts m < two32 /\
  lenN (g_payload m) < 16777216 /\ bytes_ok (g_payload m) /\
  (g_type m = set_chunk_size_type ->
     exists a b c d, g_payload m = [a; b; c; d] /\ 1 <= be32 a b c d < 2147483648) /\
  (g_type m = aggregate_type -> exists l, spec_deliver m = Some l).
Proof.
  unfold msg_wf. rewrite !andb_true_iff. intros [[[[[[[[H1 H2] H3] H4] H5] H6] H7] H8] H9].
  apply bytes_okb_spec in H7.
  repeat split; try lia; try assumption.
  - intro Ht. rewrite Ht, N.eqb_refl in H8.
    destruct (g_payload m) as [|a [|b [|c [|d [|x t]]]]]; try discriminate.
    exists a, b, c, d. split; [reflexivity|lia].
  - intro Ht. rewrite Ht, N.eqb_refl in H9.
    destruct (spec_deliver m) as [l|]; [eauto|discriminate].
Qed.

Lemma spec_chunk_after_bound chunk m : chunk < two32 -> spec_chunk_after chunk m < two32.
Proof.
  intro H. unfold spec_chunk_after. destruct (g_type m =? set_chunk_size_type); [|exact H].
  destruct (g_payload m) as [|a [|b [|c [|d t]]]]; try exact H. unfold two32. lia.
Qed.

Lemma init_estate_wf chunk : chunk < two32 -> estate_wf (init_estate chunk).
Proof. intro H. split; [exact H|]. intros csid e. cbn. discriminate. Qed.

Lemma estate_wf_set st chunk csid e :
  estate_wf st -> chunk < two32 -> emem_wf csid e ->
  estate_wf (mk_estate chunk (nset csid e (es_mem st))).
Proof.
  intros [Hc Hm] Hc' He. split; [exact Hc'|].
  intros k e0. cbn [es_mem]. rewrite nget_nset.
  destruct (csid =? k) eqn:E.
  - apply N.eqb_eq in E. subst k. intro H; inversion H; subst. exact He.
  - apply Hm.
Qed.

(* the message header chosen by the writer *)
Definition enc_hdr (fmt : N) (mem : option emem) (m : smsg) : option (bytes * N * bool) :=
  let len := lenN (g_payload m) in
  if fmt =? 0 then
    let ext := ts_escape <=? g_ts m in
    Some (put24 (if ext then ts_escape else g_ts m) ++ put24 len ++ [g_type m] ++ put32le (g_msid m)
          ++ (if ext then put32 (g_ts m) else []), g_ts m, ext)
  else
    match mem with
    | None => None
    | Some e =>
        let delta := (g_ts m + two32 - e_ts e) mod two32 in
        if negb ((g_msid m =? e_msid e) && (delta <? ts_escape)) then None
        else if fmt =? 1 then Some (put24 delta ++ put24 len ++ [g_type m], delta, false)
        else if negb ((len =? e_len e) && (g_type m =? e_type e)) then None
        else if fmt =? 2 then Some (put24 delta, delta, false)
        else if (fmt =? 3) && (delta =? e_delta e) && negb (e_ext e) then Some ([], delta, false)
        else None
    end.

Definition mem_closed (mem : option emem) : bool :=
  match mem with Some e => match e_rest e with None => true | Some _ => false end | None => true end.

(* enc_step, EStart case, in named pieces *)
Lemma enc_step_start st fmt wide m st' chunk om :
  enc_step st (EStart fmt wide m) = Some (st', chunk, om) ->
  es_chunk st <> 0 /\ msg_wf m = true /\ mem_closed (nget (g_csid m) (es_mem st)) = true /\
  exists bh hb delta ext data rest,
    enc_basic fmt (g_csid m) wide = Some bh /\
    enc_hdr fmt (nget (g_csid m) (es_mem st)) m = Some (hb, delta, ext) /\
    enc_cut (es_chunk st) (g_payload m) = (data, rest) /\
    chunk = bh ++ hb ++ data /\
    let mem' o := mk_emem (g_ts m) delta (lenN (g_payload m)) (g_type m) (g_msid m) ext o in
    match rest with
    | [] => st' = mk_estate (spec_chunk_after (es_chunk st) m) (nset (g_csid m) (mem' None) (es_mem st)) /\ om = Some m
    | _ => st' = mk_estate (es_chunk st) (nset (g_csid m) (mem' (Some (m, rest))) (es_mem st)) /\ om = None
    end.
Proof.
  unfold enc_step. destruct (es_chunk st =? 0) eqn:E0; [discriminate|]. apply N.eqb_neq in E0.
  fold (mem_closed (nget (g_csid m) (es_mem st))).
  destruct (msg_wf m && mem_closed (nget (g_csid m) (es_mem st))) eqn:E1; [|discriminate].
  apply andb_true_iff in E1. destruct E1 as [Hwf Hcl]. cbn [negb].
  destruct (enc_basic fmt (g_csid m) wide) as [bh|] eqn:E2; [|discriminate].
  fold (enc_hdr fmt (nget (g_csid m) (es_mem st)) m).
  destruct (enc_hdr fmt (nget (g_csid m) (es_mem st)) m) as [[[hb delta] ext]|] eqn:E3; [|discriminate].
  destruct (enc_cut (es_chunk st) (g_payload m)) as [data rest] eqn:E4.
  intro H. split; [exact E0|]. split; [exact Hwf|]. split; [exact Hcl|].
  exists bh, hb, delta, ext, data, rest.
  repeat split; try reflexivity; try assumption.
  - destruct rest; inversion H; reflexivity.
  - destruct rest; inversion H; subst; cbn zeta; split; reflexivity.
Qed.

Lemma enc_step_cont st csid wide st' chunk om :
  enc_step st (ECont csid wide) = Some (st', chunk, om) ->
  es_chunk st <> 0 /\
  exists e bh m p data rest,
    nget csid (es_mem st) = Some e /\ enc_basic 3 csid wide = Some bh /\ e_rest e = Some (m, p) /\
    enc_cut (es_chunk st) p = (data, rest) /\
    chunk = bh ++ (if e_ext e then put32 (e_ts e) else []) ++ data /\
    let mem' o := mk_emem (e_ts e) (e_delta e) (e_len e) (e_type e) (e_msid e) (e_ext e) o in
    match rest with
    | [] => st' = mk_estate (spec_chunk_after (es_chunk st) m) (nset csid (mem' None) (es_mem st)) /\ om = Some m
    | _ => st' = mk_estate (es_chunk st) (nset csid (mem' (Some (m, rest))) (es_mem st)) /\ om = None
    end.
Proof.
  unfold enc_step. destruct (es_chunk st =? 0) eqn:E0; [discriminate|]. apply N.eqb_neq in E0.
  destruct (nget csid (es_mem st)) as [e|] eqn:E1; [|discriminate].
  destruct (enc_basic 3 csid wide) as [bh|] eqn:E2; [|discriminate].
  destruct (e_rest e) as [[m p]|] eqn:E3; [|discriminate].
  destruct (enc_cut (es_chunk st) p) as [data rest] eqn:E4.
  intro H. split; [exact E0|].
  exists e, bh, m, p, data, rest.
  repeat split; try reflexivity; try assumption.
  - destruct rest; inversion H; reflexivity.
  - destruct rest; inversion H; subst; cbn zeta; split; reflexivity.
Qed.

Lemma enc_hdr_inv fmt mem m hb delta ext :
  enc_hdr fmt mem m = Some (hb, delta, ext) ->
  (fmt = 0 /\ ext = (ts_escape <=? g_ts m) /\ delta = g_ts m /\
   hb = put24 (if ext then ts_escape else g_ts m) ++ put24 (lenN (g_payload m)) ++ [g_type m] ++ put32le (g_msid m)
        ++ (if ext then put32 (g_ts m) else []))
  \/ (exists e, mem = Some e /\ delta = (g_ts m + two32 - e_ts e) mod two32 /\ g_msid m = e_msid e /\
        delta < ts_escape /\ ext = false /\
        ((fmt = 1 /\ hb = put24 delta ++ put24 (lenN (g_payload m)) ++ [g_type m])
         \/ (fmt = 2 /\ lenN (g_payload m) = e_len e /\ g_type m = e_type e /\ hb = put24 delta)
         \/ (fmt = 3 /\ lenN (g_payload m) = e_len e /\ g_type m = e_type e /\ delta = e_delta e /\
             e_ext e = false /\ hb = []))).
Proof.
  unfold enc_hdr. destruct (fmt =? 0) eqn:E0.
  { apply N.eqb_eq in E0. intro H; inversion H; subst. left. repeat split; reflexivity. }
  destruct mem as [e|]; [|discriminate].
  destruct ((g_msid m =? e_msid e) && ((g_ts m + two32 - e_ts e) mod two32 <? ts_escape)) eqn:E1; [|discriminate].
  apply andb_true_iff in E1. destruct E1 as [Em Ed]. apply N.eqb_eq in Em. apply N.ltb_lt in Ed. cbn [negb].
  intro H. right. exists e.
  destruct (fmt =? 1) eqn:E2.
  { apply N.eqb_eq in E2. inversion H; subst. repeat split; try assumption; try reflexivity. left. split; reflexivity. }
  destruct ((lenN (g_payload m) =? e_len e) && (g_type m =? e_type e)) eqn:E3; [|discriminate].
  apply andb_true_iff in E3. destruct E3 as [El Et]. apply N.eqb_eq in El. apply N.eqb_eq in Et. cbn [negb] in H.
  destruct (fmt =? 2) eqn:E4.
  { apply N.eqb_eq in E4. inversion H; subst. repeat split; try assumption; try reflexivity. right; left. repeat split; assumption. }
  destruct ((fmt =? 3) && ((g_ts m + two32 - e_ts e) mod two32 =? e_delta e) && negb (e_ext e)) eqn:E5; [|discriminate].
  apply andb_true_iff in E5. destruct E5 as [E5 Ex]. apply andb_true_iff in E5. destruct E5 as [Ef Edd].
  apply N.eqb_eq in Ef. apply N.eqb_eq in Edd. apply negb_true_iff in Ex.
  inversion H; subst. repeat split; try assumption; try reflexivity. right; right. repeat split; assumption.
Qed.

Lemma enc_hdr_fmt fmt mem m x : enc_hdr fmt mem m = Some x -> fmt < 4.
Proof.
  destruct x as [[hb delta] ext]. intro H. apply enc_hdr_inv in H.
  destruct H as [[-> _]|[e [_ [_ [_ [_ [_ [[-> _]|[[-> _]|[-> _]]]]]]]]]]; lia.
Qed.

(* the memory after starting m is well formed *)
Lemma enc_hdr_wf fmt csid e_old m hb delta ext o :
  (forall e, e_old = Some e -> emem_wf csid e) ->
  msg_wf m = true -> g_csid m = csid ->
  enc_hdr fmt e_old m = Some (hb, delta, ext) ->
  match o with
  | None => True
  | Some (m', rest) => m' = m /\ rest <> [] /\ exists done, g_payload m = done ++ rest
  end ->
  emem_wf csid (mk_emem (g_ts m) delta (lenN (g_payload m)) (g_type m) (g_msid m) ext o).
Proof.
  intros Hold Hwf Hc Hh Ho.
  pose proof (msg_wf_inv m Hwf) as (_ & Ht & Hm & Hts & Hl & _).
  unfold emem_wf. cbn [e_ts e_len e_type e_msid e_ext e_delta e_rest].
  apply enc_hdr_inv in Hh.
  assert (ext = (ts_escape <=? delta) /\ (ext = true -> delta = g_ts m)) as [Hx1 Hx2].
  { destruct Hh as [(_ & -> & -> & _)|(e & _ & _ & _ & Hd & -> & _)].
    - split; [reflexivity|auto].
    - split; [symmetry; apply N.leb_gt; exact Hd|discriminate]. }
  repeat split; try assumption.
  destruct o as [[m' rest]|]; [|exact I].
  destruct Ho as (-> & Hr & Hd). repeat split; try assumption; reflexivity.
Qed.

Lemma enc_step_wf st a st' chunk om :
  estate_wf st -> enc_step st a = Some (st', chunk, om) -> estate_wf st'.
Proof.
  intros Hst H. destruct a as [fmt wide m|csid wide].
  - apply enc_step_start in H.
    destruct H as (Hc0 & Hwf & Hcl & bh & hb & delta & ext & data & rest & Hb & Hh & Hcut & -> & Hres).
    pose proof (enc_cut_spec _ _ _ _ Hcut) as [Hp Hl].
    assert (forall e, nget (g_csid m) (es_mem st) = Some e -> emem_wf (g_csid m) e) as Hold by (apply Hst).
    destruct rest as [|r0 rest].
    + destruct Hres as [-> _]. apply estate_wf_set; [exact Hst|apply spec_chunk_after_bound; apply Hst|].
      eapply enc_hdr_wf; eauto.
    + destruct Hres as [-> _]. apply estate_wf_set; [exact Hst|apply Hst|].
      eapply enc_hdr_wf; eauto. cbn. split; [reflexivity|]. split; [discriminate|]. eauto.
  - apply enc_step_cont in H.
    destruct H as (Hc0 & e & bh & m & p & data & rest & Hg & Hb & Hr & Hcut & -> & Hres).
    pose proof (enc_cut_spec _ _ _ _ Hcut) as [Hp Hl].
    destruct Hst as [Hchunk Hmem].
    pose proof (Hmem _ _ Hg) as He. unfold emem_wf in He. rewrite Hr in He.
    destruct He as (H1 & H2 & H3 & H4 & H5 & H6 & Hwf & Hcs & Hne & [done Hd] & H7 & H8 & H9 & H10).
    destruct rest as [|r0 rest].
    + destruct Hres as [-> _]. apply estate_wf_set; [split; assumption|apply spec_chunk_after_bound; exact Hchunk|].
      unfold emem_wf. cbn [e_ts e_len e_type e_msid e_ext e_delta e_rest]. repeat split; assumption.
    + destruct Hres as [-> _]. apply estate_wf_set; [split; assumption|exact Hchunk|].
      unfold emem_wf. cbn [e_ts e_len e_type e_msid e_ext e_delta e_rest].
      repeat split; try assumption; try discriminate.
      exists (done ++ data). rewrite Hd, Hp, <- app_assoc. reflexivity.
Qed.

(* ------------------------------------------------------------------ reference reader vs writer *)
Definition drel (e : emem) (d : dmem) : Prop :=
  d_ts d = e_ts e /\ d_delta d = e_delta e /\ d_len d = e_len e /\ d_type d = e_type e /\
  d_msid d = e_msid e /\ d_ext d = e_ext e /\
  match e_rest e with
  | None => d_open d = false
  | Some (m, rest) =>
      d_open d = true /\ exists done, g_payload m = done ++ rest /\ d_rpart d = rev done /\ d_got d = lenN done
  end.
Definition dinv (enc : estate) (dec : dstate) : Prop :=
  ds_chunk dec = es_chunk enc /\
  forall csid, match nget csid (es_mem enc) with
               | None => nget csid (ds_mem dec) = None
               | Some e => exists d, nget csid (ds_mem dec) = Some d /\ drel e d
               end.

Lemma dinv_init chunk : dinv (init_estate chunk) (mk_dstate chunk []).
Proof. split; [reflexivity|]. intro csid. reflexivity. Qed.

Lemma dinv_set enc dec chunk csid e d :
  dinv enc dec -> drel e d ->
  dinv (mk_estate chunk (nset csid e (es_mem enc))) (mk_dstate chunk (nset csid d (ds_mem dec))).
Proof.
  intros [Hc Hm] Hr. split; [reflexivity|]. intro k. cbn [es_mem ds_mem]. rewrite !nget_nset.
  destruct (csid =? k); [eauto|apply Hm].
Qed.

Lemma spec_ext_false X : spec_ext false X = Some (0, X).
Proof. reflexivity. Qed.
Lemma spec_ext_true v X : v < two32 -> spec_ext true (put32 v ++ X) = Some (v, X).
Proof. intro H. unfold spec_ext, put32. cbn [app]. rewrite be32_put by exact H. reflexivity. Qed.

Lemma spec_header_0 mem ts len ty msid X :
  match mem with Some d => d_open d = false | None => True end ->
  ts < two32 -> len < 16777216 -> msid < two32 ->
  spec_header 0 mem
    (put24 (if ts_escape <=? ts then ts_escape else ts) ++ put24 len ++ [ty] ++ put32le msid
     ++ (if ts_escape <=? ts then put32 ts else []) ++ X)
  = Some (mk_dmem ts ts len ty msid (ts_escape <=? ts) true [] 0, X).
Proof.
  intros Hm Hts Hlen Hmsid. unfold spec_header. cbn [N.eqb].
  assert ((match mem with Some m => negb (d_open m) | None => true end) = true) as Hneg.
  { destruct mem as [d|]; [rewrite Hm|]; reflexivity. }
  unfold put24, put32le. cbn [app].
  rewrite (be24_put len) by exact Hlen. rewrite (le32_put msid) by exact Hmsid. rewrite Hneg.
  destruct (ts_escape <=? ts) eqn:E.
  - rewrite be24_put by (unfold ts_escape; lia). rewrite N.eqb_refl.
    rewrite spec_ext_true by exact Hts. reflexivity.
  - apply N.leb_gt in E. rewrite be24_put by (unfold ts_escape in E; lia).
    assert (ts =? ts_escape = false) as -> by (apply N.eqb_neq; lia).
    cbn [app]. rewrite spec_ext_false. reflexivity.
Qed.

Lemma spec_header_1 d delta len ty X :
  d_open d = false -> delta < ts_escape -> len < 16777216 ->
  spec_header 1 (Some d) (put24 delta ++ put24 len ++ [ty] ++ X)
  = Some (mk_dmem ((d_ts d + delta) mod two32) delta len ty (d_msid d) false true [] 0, X).
Proof.
  intros Ho Hd Hl. unfold spec_header. cbn [N.eqb Pos.eqb]. unfold put24. cbn [app].
  rewrite be24_put by (unfold ts_escape in Hd; lia). rewrite (be24_put len) by exact Hl.
  assert (delta =? ts_escape = false) as -> by (apply N.eqb_neq; lia).
  rewrite Ho, spec_ext_false. reflexivity.
Qed.

Lemma spec_header_2 d delta X :
  d_open d = false -> delta < ts_escape ->
  spec_header 2 (Some d) (put24 delta ++ X)
  = Some (mk_dmem ((d_ts d + delta) mod two32) delta (d_len d) (d_type d) (d_msid d) false true [] 0, X).
Proof.
  intros Ho Hd. unfold spec_header. cbn [N.eqb Pos.eqb]. unfold put24. cbn [app].
  rewrite be24_put by (unfold ts_escape in Hd; lia).
  assert (delta =? ts_escape = false) as -> by (apply N.eqb_neq; lia).
  rewrite Ho, spec_ext_false. reflexivity.
Qed.

Lemma spec_header_3_new d X :
  d_open d = false -> d_ext d = false ->
  spec_header 3 (Some d) X
  = Some (mk_dmem ((d_ts d + d_delta d) mod two32) (d_delta d) (d_len d) (d_type d) (d_msid d) false true [] 0, X).
Proof.
  intros Ho Hx. unfold spec_header. cbn [N.eqb Pos.eqb]. rewrite Hx, spec_ext_false, Ho. reflexivity.
Qed.

Lemma spec_header_3_cont d v X :
  d_open d = true -> v < two32 ->
  spec_header 3 (Some d) ((if d_ext d then put32 v else []) ++ X) = Some (d, X).
Proof.
  intros Ho Hv. unfold spec_header. cbn [N.eqb Pos.eqb].
  destruct (d_ext d).
  - rewrite spec_ext_true by exact Hv. rewrite Ho. reflexivity.
  - cbn [app]. rewrite spec_ext_false, Ho. reflexivity.
Qed.

Lemma rev_append_nil {A} (l : list A) : rev_append l [] = rev l.
Proof. symmetry. apply rev_alt. Qed.

Lemma spec_body_enc dec csid m0 done p data rest X :
  d_rpart m0 = rev done -> d_got m0 = lenN done -> d_len m0 = lenN (done ++ p) ->
  enc_cut (ds_chunk dec) p = (data, rest) ->
  spec_body dec csid m0 (data ++ X) =
    match rest with
    | [] =>
        let msg := mk_smsg csid (d_type m0) (d_msid m0) (d_ts m0) (done ++ p) in
        Some (mk_dstate (spec_chunk_after (ds_chunk dec) msg)
                        (nset csid (mk_dmem (d_ts m0) (d_delta m0) (d_len m0) (d_type m0) (d_msid m0) (d_ext m0) false [] 0)
                              (ds_mem dec)), Some msg, X)
    | _ =>
        Some (mk_dstate (ds_chunk dec)
                        (nset csid (mk_dmem (d_ts m0) (d_delta m0) (d_len m0) (d_type m0) (d_msid m0) (d_ext m0) true
                                            (rev (done ++ data)) (lenN (done ++ data)))
                              (ds_mem dec)), None, X)
    end.
Proof.
  intros Hr Hg Hl Hcut.
  pose proof (enc_cut_rest_nil _ _ _ _ Hcut) as Hnil.
  apply enc_cut_spec in Hcut. destruct Hcut as [Hp Hd].
  unfold spec_body. rewrite Hg, Hl, Hr.
  assert (N.min (ds_chunk dec) (lenN (done ++ p) - lenN done) = lenN data) as ->.
  { rewrite lenN_app. rewrite Hd. f_equal. lia. }
  rewrite read_body_app.
  destruct rest as [|r0 rest].
  - assert (lenN data = lenN p) as Hdp by (apply Hnil; reflexivity).
    assert (lenN done + lenN data =? lenN (done ++ p) = true) as ->.
    { apply N.eqb_eq. rewrite lenN_app. lia. }
    rewrite rev_append_nil, rev_app_distr, !rev_involutive.
    rewrite Hp, app_nil_r. reflexivity.
  - assert (lenN done + lenN data =? lenN (done ++ p) = false) as ->.
    { apply N.eqb_neq. rewrite lenN_app. intro E.
      assert (lenN data = lenN p) as E2 by lia. apply Hnil in E2. discriminate. }
    rewrite rev_app_distr, (lenN_app done data). reflexivity.
Qed.

Lemma enc_basic_nonempty fmt csid wide bh : enc_basic fmt csid wide = Some bh -> bh <> [].
Proof.
  unfold enc_basic. destruct ((2 <=? csid) && (csid <=? 63)).
  { destruct wide; [discriminate|]. intro H; inversion H. discriminate. }
  destruct ((64 <=? csid) && (csid <=? 319) && negb wide); [intro H; inversion H; discriminate|].
  destruct ((64 <=? csid) && (csid <=? 65599)); [intro H; inversion H; discriminate|discriminate].
Qed.

Lemma enc_step_nonempty st a st' chunk om : enc_step st a = Some (st', chunk, om) -> chunk <> [].
Proof.
  intro H. destruct a as [fmt wide m|csid wide].
  - apply enc_step_start in H. destruct H as (_ & _ & _ & bh & hb & delta & ext & data & rest & Hb & _ & _ & -> & _).
    apply enc_basic_nonempty in Hb. destruct bh; [contradiction|discriminate].
  - apply enc_step_cont in H. destruct H as (_ & e & bh & m & p & data & rest & _ & Hb & _ & _ & -> & _).
    apply enc_basic_nonempty in Hb. destruct bh; [contradiction|discriminate].
Qed.

(* one chunk of the writer is one chunk of the reference reader *)
Lemma spec_chunk_enc enc dec a enc' chunk om X :
  estate_wf enc -> dinv enc dec -> enc_step enc a = Some (enc', chunk, om) ->
  exists dec', spec_chunk dec (chunk ++ X) = Some (dec', om, X) /\ dinv enc' dec'.
Proof.
  intros Hwf Hinv H. pose proof Hinv as [Hchunk Hmem].
  destruct a as [fmt wide m|csid wide].
  - apply enc_step_start in H.
    destruct H as (Hc0 & Hm & Hcl & bh & hb & delta & ext & data & rest & Hb & Hh & Hcut & -> & Hres).
    pose proof (msg_wf_inv m Hm) as (Hcs & Hty & Hms & Hts & Hlen & _).
    pose proof (enc_hdr_fmt _ _ _ _ Hh) as Hfmt.
    unfold spec_chunk. rewrite <- !app_assoc. rewrite (spec_basic_enc _ _ _ _ _ Hfmt Hb).
    specialize (Hmem (g_csid m)).
    (* header stage *)
    assert (exists m0, spec_header fmt (nget (g_csid m) (ds_mem dec)) (hb ++ data ++ X) = Some (m0, data ++ X) /\
                       m0 = mk_dmem (g_ts m) delta (lenN (g_payload m)) (g_type m) (g_msid m) ext true [] 0) as (m0 & Hhdr & Hm0).
    { eexists. split; [|reflexivity].
      apply enc_hdr_inv in Hh.
      destruct Hh as [(-> & -> & -> & ->)|(e & He & Hd & Hmsid & Hdl & -> & Hcase)].
      - rewrite <- !app_assoc. apply spec_header_0; try assumption.
        destruct (nget (g_csid m) (es_mem enc)) as [e|] eqn:Ee.
        + destruct Hmem as (d & -> & Hrel). unfold mem_closed in Hcl. destruct Hrel as (_ & _ & _ & _ & _ & _ & Hrest).
          destruct (e_rest e); [discriminate|exact Hrest].
        + rewrite Hmem. exact I.
      - rewrite He in Hmem, Hcl. destruct Hmem as (d & -> & Hrel).
        destruct Hrel as (Hdts & Hdd & Hdlen & Hdty & Hdms & Hdx & Hrest).
        unfold mem_closed in Hcl. destruct (e_rest e) eqn:Er; [discriminate|].
        assert ((d_ts d + delta) mod two32 = g_ts m) as Hnts.
        { rewrite Hdts, Hd. pose proof (Hwf) as [_ Hw]. specialize (Hw _ _ He). destruct Hw as (Hets & _). unfold two32 in *. lia. }
        destruct Hcase as [(-> & ->)|[(-> & Hl & Ht & ->)|(-> & Hl & Ht & Hde & Hex & ->)]].
        + rewrite <- !app_assoc. rewrite spec_header_1 by assumption. rewrite Hnts, Hdms, Hmsid. reflexivity.
        + rewrite spec_header_2 by assumption. rewrite Hnts, Hdms, Hmsid, Hdlen, Hdty, Hl, Ht. reflexivity.
        + cbn [app]. rewrite spec_header_3_new by (try assumption; congruence).
          rewrite Hdd, <- Hde, Hnts, Hdms, Hmsid, Hdlen, Hdty, Hl, Ht. reflexivity. }
    rewrite Hhdr.
    rewrite (spec_body_enc dec (g_csid m) m0 [] (g_payload m) data rest X); subst m0; cbn [d_rpart d_got d_len d_type d_msid d_ts d_delta d_ext app rev];
      try reflexivity; [|rewrite Hchunk; exact Hcut].
    destruct rest as [|r0 rest]; destruct Hres as [-> ->].
    + destruct m as [mc mt mi mts mp]. cbn [g_csid g_type g_msid g_ts g_payload] in *.
      eexists. split; [rewrite Hchunk; reflexivity|].
      apply dinv_set; [exact Hinv|]. unfold drel. cbn. repeat split; reflexivity.
    + eexists. split; [reflexivity|]. rewrite Hchunk.
      apply dinv_set; [exact Hinv|]. unfold drel. cbn [d_ts d_delta d_len d_type d_msid d_ext d_open d_rpart d_got e_ts e_delta e_len e_type e_msid e_ext e_rest].
      repeat split; try reflexivity.
      exists data. apply enc_cut_spec in Hcut. destruct Hcut as [Hp _]. repeat split; try reflexivity. exact Hp.
  - apply enc_step_cont in H.
    destruct H as (Hc0 & e & bh & m & p & data & rest & Hg & Hb & Hr & Hcut & -> & Hres).
    specialize (Hmem csid). rewrite Hg in Hmem. destruct Hmem as (d & Hd & Hrel).
    destruct Hrel as (Hdts & Hdd & Hdlen & Hdty & Hdms & Hdx & Hrest). rewrite Hr in Hrest.
    destruct Hrest as (Hopen & done & Hpay & Hrp & Hgot).
    destruct Hwf as [Hck Hw]. pose proof (Hw _ _ Hg) as He. unfold emem_wf in He. rewrite Hr in He.
    destruct He as (H1 & H2 & H3 & H4 & H5 & H6 & Hmwf & Hcs & Hne & _ & H7 & H8 & H9 & H10).
    unfold spec_chunk. rewrite <- !app_assoc. rewrite (spec_basic_enc 3 _ _ _ _ ltac:(lia) Hb). rewrite Hd.
    rewrite <- Hdx. rewrite spec_header_3_cont by assumption.
    rewrite (spec_body_enc dec csid d done p data rest X); try assumption;
      [|rewrite Hdlen, H7, Hpay; reflexivity|rewrite Hchunk; exact Hcut].
    destruct rest as [|r0 rest]; destruct Hres as [-> ->].
    + assert (mk_smsg csid (d_type d) (d_msid d) (d_ts d) (done ++ p) = m) as Hmsg.
      { rewrite <- Hpay, Hdty, Hdms, Hdts, H8, H9, H10, <- Hcs. destruct m; reflexivity. }
      cbn zeta. rewrite Hmsg.
      eexists. split; [reflexivity|].
      rewrite Hchunk, Hdts, Hdd, Hdlen, Hdty, Hdms, Hdx.
      apply dinv_set; [exact Hinv|]. unfold drel. cbn. repeat split; reflexivity.
    + eexists. split; [reflexivity|]. rewrite Hchunk.
      rewrite Hdts, Hdd, Hdlen, Hdty, Hdms, Hdx.
      apply dinv_set; [exact Hinv|]. unfold drel.
      cbn [d_ts d_delta d_len d_type d_msid d_ext d_open d_rpart d_got e_ts e_delta e_len e_type e_msid e_ext e_rest].
      repeat split; try reflexivity.
      exists (done ++ data). apply enc_cut_spec in Hcut. destruct Hcut as [Hp _].
      repeat split; try reflexivity. rewrite Hpay, Hp, <- app_assoc. reflexivity.
Qed.

Lemma enc_step_msg_wf st a st' chunk m :
  estate_wf st -> enc_step st a = Some (st', chunk, Some m) -> msg_wf m = true.
Proof.
  intros Hwf H. destruct a as [fmt wide m0|csid wide].
  - apply enc_step_start in H.
    destruct H as (_ & Hm & _ & bh & hb & delta & ext & data & rest & _ & _ & _ & _ & Hres).
    destruct rest; destruct Hres as [_ Ho]; inversion Ho; subst; assumption.
  - apply enc_step_cont in H.
    destruct H as (_ & e & bh & m1 & p & data & rest & Hg & _ & Hr & _ & _ & Hres).
    destruct Hwf as [_ Hw]. pose proof (Hw _ _ Hg) as He. unfold emem_wf in He. rewrite Hr in He.
    destruct He as (_ & _ & _ & _ & _ & _ & Hmwf & _).
    destruct rest; destruct Hres as [_ Ho]; inversion Ho; subst; assumption.
Qed.

Lemma spec_deliver_wf m : msg_wf m = true -> exists l, spec_deliver m = Some l.
Proof.
  intro H. pose proof (msg_wf_inv m H) as (_ & _ & _ & _ & _ & _ & _ & Hagg).
  destruct (g_type m =? aggregate_type) eqn:E.
  - apply N.eqb_eq in E. apply Hagg in E. exact E.
  - unfold spec_deliver. rewrite E. eauto.
Qed.

Lemma spec_loop_enc : forall script enc dec enc' bs msgs fuel,
  estate_wf enc -> dinv enc dec -> enc_run enc script = Some (enc', bs, msgs) ->
  (length bs <= fuel)%nat ->
  exists dec', spec_loop fuel dec bs = Some (dec', deliver_all msgs) /\ dinv enc' dec'.
Proof.
  induction script as [|a t IH]; intros enc dec enc' bs msgs fuel Hwf Hinv Hrun Hfuel.
  - cbn in Hrun. inversion Hrun; subst. exists dec. split; [destruct fuel; reflexivity|exact Hinv].
  - cbn [enc_run] in Hrun.
    destruct (enc_step enc a) as [[[st1 chunk] om]|] eqn:Es; [|discriminate].
    destruct (enc_run st1 t) as [[[st2 bs'] ms']|] eqn:Er; [|discriminate].
    inversion Hrun; subst. clear Hrun.
    pose proof (enc_step_nonempty _ _ _ _ _ Es) as Hne.
    destruct (spec_chunk_enc enc dec a st1 chunk om bs' Hwf Hinv Es) as (dec1 & Hsc & Hinv1).
    pose proof (enc_step_wf _ _ _ _ _ Hwf Es) as Hwf1.
    rewrite app_length in Hfuel.
    destruct chunk as [|c0 ch]; [contradiction|]. cbn [length] in Hfuel.
    destruct fuel as [|f]; [lia|].
    destruct (IH st1 dec1 enc' bs' ms' f Hwf1 Hinv1 Er ltac:(lia)) as (dec2 & Hloop & Hinv2).
    exists dec2. split; [|exact Hinv2].
    cbn [spec_loop app]. cbn [app] in Hsc. rewrite Hsc.
    destruct om as [m|].
    + pose proof (enc_step_msg_wf _ _ _ _ _ Hwf Es) as Hm.
      destruct (spec_deliver_wf m Hm) as [l Hl]. rewrite Hl, Hloop.
      cbn [deliver_all app]. rewrite Hl. reflexivity.
    + rewrite Hloop. reflexivity.
Qed.

(* R2: the reference reader decodes every legal chunking *)
Theorem ref_decode_legal chunk msgs cs :
  chunk < two32 -> legal_chunking chunk msgs cs -> ref_decode chunk cs = Some (deliver_all msgs).
Proof.
  intros Hc (script & st & Hrun).
  destruct (spec_loop_enc script (init_estate chunk) (mk_dstate chunk []) st cs msgs (length cs)
              (init_estate_wf chunk Hc) (dinv_init chunk) Hrun (le_n _)) as (dec' & Hl & _).
  unfold ref_decode, ref_decode_from. rewrite Hl. reflexivity.
Qed.

(* ------------------------------------------------------------------ 7.1.6 writer side *)
Definition sub_ok (mi : smsg * N) : Prop :=
  g_type (fst mi) < 256 /\ g_ts (fst mi) < two32 /\ lenN (g_payload (fst mi)) < 16777216 /\ snd mi < 16777216.

Definition agg_norm (csid msid ts first_ts : N) (mi : smsg * N) : smsg :=
  mk_smsg csid (g_type (fst mi)) msid ((ts + g_ts (fst mi) + two32 - first_ts) mod two32) (g_payload (fst mi)).

Lemma spec_split_agg_body : forall subs fuel csid msid ts first,
  Forall sub_ok subs -> (length subs <= fuel)%nat ->
  spec_split_agg fuel csid msid ts first (agg_body subs)
  = Some (map (agg_norm csid msid ts
                 (match first with Some x => x | None => match subs with (m, _) :: _ => g_ts m | [] => 0 end end)) subs).
Proof.
  induction subs as [|[m id] subs IH]; intros fuel csid msid ts first Hok Hfuel.
  - destruct fuel; reflexivity.
  - inversion Hok as [|? ? (Ht & Hts & Hl & Hid) Hok']; subst. cbn [fst snd] in *.
    destruct fuel as [|f]; [cbn in Hfuel; lia|].
    cbn [agg_body]. unfold agg_sub. unfold put24. rewrite <- !app_assoc. cbn [app].
    cbn [spec_split_agg].
    rewrite (be24_put (lenN (g_payload m))) by exact Hl.
    assert (g_ts m / 16777216 * 16777216 + be24 (g_ts m mod 16777216 / 65536) ((g_ts m mod 16777216 / 256) mod 256) (g_ts m mod 16777216 mod 256) = g_ts m) as Hsub.
    { unfold be24. lia. }
    rewrite Hsub.
    rewrite takeN_app. unfold put32. cbn [app].
    rewrite (IH f csid msid ts (Some match first with Some x => x | None => g_ts m end) Hok' ltac:(cbn in Hfuel; lia)).
    cbn [map]. unfold agg_norm. cbn [fst]. destruct first; reflexivity.
Qed.

(* an aggregate message built from sub-messages is delivered as those
   sub-messages, on the aggregate's message stream, timestamps shifted by
   (aggregate timestamp - first sub timestamp) *)
Lemma spec_deliver_agg_body csid msid ts subs :
  Forall sub_ok subs ->
  spec_deliver (mk_smsg csid aggregate_type msid ts (agg_body subs))
  = Some (map (agg_norm csid msid ts (match subs with (m, _) :: _ => g_ts m | [] => 0 end)) subs).
Proof.
  intro Hok. unfold spec_deliver. cbn [g_type g_payload g_csid g_msid g_ts]. rewrite N.eqb_refl.
  apply (spec_split_agg_body subs _ csid msid ts None Hok).
  clear Hok. induction subs as [|[m id] subs IH]; [cbn; lia|].
  cbn [agg_body]. unfold agg_sub. rewrite app_length. cbn [app length]. lia.
Qed.
