(* Model of pkg/rtmp/chunk_divider.go (calcHeader, message2Chunks) and of
   writeSingleChunkHeader in pkg/rtmp/message_packer.go.  No proofs here.

   Two variants of the writer are kept:
     [wv_fixed]  = the code of the working tree (after the C08 repairs)
     [wv_pinned] = the code of the pinned snapshot e30f1c4 (kept so that the
                   refutation witnesses stay machine-checked)
   They differ in two comparisons, see [wvariant]. *)
From Lal Require Import Common.LBytes Common.Res.
Open Scope N_scope.

(* base.RtmpHeader *)
Record rtmp_header := mk_hdr {
  h_csid : N;      (* Csid int *)
  h_len : N;       (* MsgLen uint32 *)
  h_type : N;      (* MsgTypeId uint8 *)
  h_msid : N;      (* MsgStreamId int *)
  h_ts : N         (* TimestampAbs uint32 *)
}.

Definition max_ts : N := 16777215.        (* maxTimestampInMessageHeader 0xFFFFFF *)
Definition max_header_size : N := 18.

Record wvariant := mk_wv {
  wv_ext_ge : bool;       (* true: extended timestamp when ts >= 0xFFFFFF (fixed); false: ts > 0xFFFFFF (pinned) *)
  wv_empty_chunk : bool   (* true: a zero-length message is one header-only chunk (fixed); false: no bytes at all (pinned) *)
}.
Definition wv_fixed := mk_wv true true.
Definition wv_pinned := mk_wv false false.

(* the writer's "needs the 4-byte extension" test *)
Definition w_ext (v : wvariant) (ts : N) : bool :=
  if wv_ext_ge v then max_ts <=? ts else max_ts <? ts.

(* fmt and the value of the timestamp field (absolute or delta) *)
Definition calc_fmt_ts (v : wvariant) (h : rtmp_header) (prev : option rtmp_header) : N * N :=
  match prev with
  | None => (0, h_ts h)
  | Some p =>
      if h_msid h =? h_msid p then
        let fmt := if (h_len h =? h_len p) && (h_type h =? h_type p)
                   then (if h_ts h =? h_ts p then 3 else 2) else 1 in
        (fmt, if w_ext v (h_ts h) then h_ts h else u32 (h_ts h + 4294967296 - h_ts p))
      else (0, h_ts h)
  end.

(* chunk basic header: 1, 2 or 3 bytes.  Csid is a Go int: for csid < 64 in the
   3-byte branch (csid 0 or 1) the subtraction is negative and uint8() keeps the
   two's complement low bytes. *)
Definition basic_header (fmt csid : N) : bytes :=
  if (2 <=? csid) && (csid <=? 63) then [fmt * 64 + csid]
  else if (64 <=? csid) && (csid <=? 319) then [fmt * 64; u8 (csid - 64)]
  else if csid <? 64 then [fmt * 64 + 1; u8 (csid + 192); 255]
  else [fmt * 64 + 1; u8 (csid - 64); u8 ((csid - 64) / 256)].

(* calcHeader: the bytes of one chunk header *)
Definition calc_header (v : wvariant) (h : rtmp_header) (prev : option rtmp_header) : bytes :=
  let '(fmt, ts) := calc_fmt_ts v h prev in
  basic_header fmt (h_csid h)
  ++ (if fmt <=? 2 then
        be_put 3 (if max_ts <? ts then max_ts else ts)
        ++ (if fmt <=? 1 then
              be_put 3 (h_len h) ++ [u8 (h_type h)]
              ++ (if fmt =? 0 then le_put 4 (h_msid h) else [])
            else [])
      else [])
  ++ (if w_ext v ts then be_put 4 ts else []).

(* message body cut into pieces of c bytes (the last one may be shorter) *)
Fixpoint split_chunks (fuel : nat) (c : nat) (p : bytes) : list bytes :=
  match fuel with
  | O => []
  | S f => match p with
           | [] => []
           | _ => firstn c p :: split_chunks f c (skipn c p)
           end
  end.

Definition message_pieces (v : wvariant) (c : nat) (p : bytes) : list bytes :=
  match p with
  | [] => if wv_empty_chunk v then [[]] else []
  | _ => split_chunks (length p) c p
  end.

(* message2Chunks for chunkSize = c > 0 *)
Definition message2chunks_core (v : wvariant) (c : nat) (h : rtmp_header) (prev : option rtmp_header) (p : bytes) : bytes :=
  match message_pieces v c p with
  | [] => []
  | b0 :: bs => calc_header v h prev ++ b0 ++ flat_map (fun b => calc_header v h (Some h) ++ b) bs
  end.

Definition site_m2c_divide : N := 1.   (* len(message) / chunkSize with chunkSize = 0 *)

Definition message2chunks_v (v : wvariant) (c : N) (h : rtmp_header) (prev : option rtmp_header) (p : bytes) : res bytes :=
  if c =? 0 then Panic site_m2c_divide
  else Ok (message2chunks_core v (N.to_nat c) h prev p).

Definition message2chunks := message2chunks_v wv_fixed.
Definition message2chunks_pinned := message2chunks_v wv_pinned.

(* rtmp.LocalChunkSize (var.go) *)
Definition local_chunk_size : N := 4096.
(* exported entry point: Message2Chunks(message, header) *)
Definition message2chunks_default (h : rtmp_header) (p : bytes) : res bytes :=
  message2chunks local_chunk_size h None p.

(* writeSingleChunkHeader(out, csid, bodyLen, typeid, streamid): 12 bytes,
   fmt 0, timestamp 0; panics when csid > 63.  uint8(format<<6 | csid) keeps the
   low byte of csid. *)
Definition site_sch_csid : N := 2.
Definition single_chunk_header (csid body_len typeid msid : N) : res bytes :=
  if 63 <? csid then Panic site_sch_csid
  else Ok ([u8 csid; 0; 0; 0] ++ be_put 3 body_len ++ [u8 typeid] ++ le_put 4 msid).
