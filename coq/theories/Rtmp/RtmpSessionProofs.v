(* Proofs about the RTMP server session model (RtmpSession.v): the session
   invariant, panic-freedom of every handler on every input, bounded AMF depth,
   termination within the fuel, and the observer-call discipline of the shell. *)
From Lal Require Import Common.LBytes Common.Res Common.LBytesRead Common.NAssoc
  Common.LBytesProofs Common.LBytesReadProofs
  Rtmp.RtmpChunk Rtmp.RtmpComposer Rtmp.RtmpComposerProofs Rtmp.RtmpAmf0 Rtmp.RtmpAmf0Proofs
  Rtmp.RtmpHandshake Rtmp.RtmpHandshakeProofs Rtmp.RtmpSession.
From Lal Require Media.MediaMsgChecked Media.MediaMsgProofs.
From Coq Require Import Lia ZifyN ZifyNat ZifyBool.
Ltac Zify.zify_post_hook ::= Z.div_mod_to_equations.
Open Scope N_scope.

(* ------------------------------------------------------------------------ *)
(* the reply packer *)

Lemma pk_writes_fit : forall ws cap wpos,
  wpos + lenN (concat ws) <= cap -> pk_writes cap wpos ws = Ok (cap, wpos + lenN (concat ws)).
Proof.
  induction ws as [|w t IH]; intros cap wpos H; cbn [pk_writes concat].
  - rewrite lenN_nil, N.add_0_r. reflexivity.
  - cbn [concat] in H. rewrite lenN_app in H.
    destruct (N.ltb_spec cap wpos) as [?|_]; [lia|].
    destruct (N.leb_spec (lenN w) (cap - wpos)) as [_|?]; [|lia].
    rewrite IH by lia. rewrite lenN_app. do 2 f_equal. lia.
Qed.

Definition pack_bytes (csid typeid msid : N) (ws : list bytes) : bytes :=
  ([u8 csid; 0; 0; 0] ++ be_put 3 (lenN (concat ws)) ++ [u8 typeid] ++ le_put 4 msid) ++ concat ws.

Lemma chunk_and_write_fit cap csid ty msid ws :
  12 + lenN (concat ws) <= cap -> lenN (concat ws) <= 4096 -> csid <= 63 ->
  chunk_and_write cap csid ty msid ws = Ok (cap, pack_bytes csid ty msid ws).
Proof.
  intros H1 H2 H3. unfold chunk_and_write. rewrite pk_writes_fit by exact H1. cbn [bind].
  destruct (N.ltb_spec cap (12 + lenN (concat ws))) as [?|_]; [lia|].
  replace (12 + lenN (concat ws) - 12) with (lenN (concat ws)) by lia.
  unfold local_chunk_size. destruct (N.leb_spec (lenN (concat ws)) 4096) as [_|?]; [|lia].
  unfold single_chunk_header. destruct (N.ltb_spec 63 csid) as [?|_]; [lia|].
  reflexivity.
Qed.

(* ------------------------------------------------------------------------ *)
(* monad equations *)

Definition push (a : acc) (b : bytes) : acc :=
  if ss_async (a_st a)
  then mk_acc (a_st a) (a_ev a) (a_wr a) (b :: a_awr a) (a_depth a)
  else mk_acc (a_st a) (a_ev a) (b :: a_wr a) (a_awr a) (a_depth a).
Definition with_st (a : acc) (s : sstate) : acc := mk_acc s (a_ev a) (a_wr a) (a_awr a) (a_depth a).
Definition with_ev (a : acc) (e : event) : acc := mk_acc (a_st a) (e :: a_ev a) (a_wr a) (a_awr a) (a_depth a).
Definition with_depth (a : acc) (d : N) : acc :=
  mk_acc (a_st a) (a_ev a) (a_wr a) (a_awr a) (N.max (a_depth a) d).

Lemma bind_run {A B} (m : M A) (f : A -> M B) a x a' : m a = (Ok x, a') -> mbind m f a = f x a'.
Proof. intro E. unfold mbind. now rewrite E. Qed.
Lemma bind_err {A B} (m : M A) (f : A -> M B) a e a' : m a = (Err e, a') -> mbind m f a = (Err e, a').
Proof. intro E. unfold mbind. now rewrite E. Qed.
Lemma bind_get {B} (f : sstate -> M B) a : mbind mget f a = f (a_st a) a.
Proof. reflexivity. Qed.
Lemma bind_put {B} s (f : unit -> M B) a : mbind (mput s) f a = f tt (with_st a s).
Proof. reflexivity. Qed.
Lemma bind_ret {A B} (x : A) (f : A -> M B) a : mbind (mret x) f a = f x a.
Proof. reflexivity. Qed.
Lemma bind_fail {A B} e (f : A -> M B) a : mbind (mfail e) f a = (Err e, a).
Proof. reflexivity. Qed.
Lemma bind_panic {A B} s (f : A -> M B) a : mbind (mpanic s) f a = (Panic s, a).
Proof. reflexivity. Qed.
Lemma bind_emit {B} e (f : unit -> M B) a : mbind (memit e) f a = f tt (with_ev a e).
Proof. reflexivity. Qed.
Lemma bind_amf {A B} (r : dres A) (f : A -> M B) a :
  mbind (mamf r) f a =
  match fst r with
  | Ok x => f x (with_depth a (snd r))
  | Err e => (Err (amf_err e), with_depth a (snd r))
  | Panic s => (Panic s, with_depth a (snd r))
  end.
Proof. unfold mbind, mamf, with_depth. destruct (fst r); reflexivity. Qed.
Lemma bind_assoc {A B C} (m : M A) (f : A -> M B) (g : B -> M C) a :
  mbind (mbind m f) g a = mbind m (fun x => mbind (f x) g) a.
Proof. unfold mbind. destruct (m a) as [[x|e|s] a']; reflexivity. Qed.

Lemma set_pcap_same st : set_pcap st (ss_pcap st) = st.
Proof. destruct st; reflexivity. Qed.

Lemma mpack_run csid ty msid ws a :
  ss_pcap (a_st a) = 256 -> 12 + lenN (concat ws) <= 256 -> csid <= 63 ->
  mpack csid ty msid ws a = (Ok tt, push a (pack_bytes csid ty msid ws)).
Proof.
  intros Hp Hl Hc. unfold mpack. rewrite bind_get, Hp.
  rewrite chunk_and_write_fit by (try assumption; lia).
  rewrite bind_put. rewrite <- Hp, set_pcap_same.
  unfold mwrite, push, with_st. destruct a as [st ev wr awr d]; cbn. destruct (ss_async st); reflexivity.
Qed.

(* a reply writer: succeeds and only appends to the replies *)
Definition writer (m : M unit) : Prop :=
  forall a, ss_pcap (a_st a) = 256 -> exists out, m a = (Ok tt, push a out).

Lemma writer_mpack csid ty msid ws :
  12 + lenN (concat ws) <= 256 -> csid <= 63 -> writer (mpack csid ty msid ws).
Proof. intros Hl Hc a Hp. eexists. apply mpack_run; assumption. Qed.

Lemma lenN_be_put' n v : lenN (be_put n v) = N.of_nat n.
Proof. unfold lenN. now rewrite be_put_length. Qed.
(* evaluate closed lengths (N.of_nat of a literal, lenN of a constant) and finish with lia *)
Ltac is_num v := match v with N0 => idtac | Npos ?p => is_pnum p end
with is_pnum p := match p with xH => idtac | xO ?q => is_pnum q | xI ?q => is_pnum q end.
Ltac closed t := tryif (match t with context [?x] => is_var x end) then fail else idtac.
Ltac lenstep :=
  match goal with
  | |- context [N.of_nat ?n] =>
      closed n; let v := eval vm_compute in (N.of_nat n) in is_num v; progress change (N.of_nat n) with v
  | |- context [lenN ?l] =>
      closed l; let v := eval vm_compute in (lenN l) in is_num v; progress change (lenN l) with v
  end.
Ltac lenfin := repeat lenstep; rewrite ?RtmpAmf0Proofs.lenN_cons, ?lenN_nil; lia.
Lemma lenN_one (x : N) : lenN [x] = 1.
Proof. reflexivity. Qed.

Lemma writer_proto_ctrl ty val : writer (w_proto_ctrl ty val).
Proof.
  apply writer_mpack; [|unfold csid_protocol_control; lia].
  cbn [concat]. rewrite app_nil_r, lenN_be_put'. lenfin.
Qed.
Lemma writer_peer_bandwidth val lt : writer (w_peer_bandwidth val lt).
Proof.
  apply writer_mpack; [|unfold csid_protocol_control; lia].
  cbn [concat]. rewrite !lenN_app, lenN_be_put'. lenfin.
Qed.
Lemma writer_user_control ev val : writer (w_user_control ev val).
Proof.
  apply writer_mpack; [|unfold csid_protocol_control; lia].
  cbn [concat]. rewrite !lenN_app, !lenN_be_put'. lenfin.
Qed.

Lemma concat_app' {A} (l1 l2 : list (list A)) : concat (l1 ++ l2) = concat l1 ++ concat l2.
Proof. apply concat_app. Qed.

Lemma len_p_num x : lenN (concat (p_num x)) = 9.
Proof. unfold p_num. cbn [concat]. rewrite app_nil_r, lenN_app, lenN_be_put'. reflexivity. Qed.
Lemma len_p_str s : lenN s < 65536 -> lenN (concat (p_str s)) = 3 + lenN s.
Proof.
  intro H. unfold p_str. apply N.ltb_lt in H. rewrite H. cbn [concat].
  rewrite app_nil_r, !lenN_app, lenN_be_put'. lenfin.
Qed.
Lemma len_p_wval_int z : lenN (concat (p_wval (WInt z))) = 9.
Proof. apply len_p_num. Qed.
Lemma len_p_wval_str s : lenN s < 65536 -> lenN (concat (p_wval (WStr s))) = 3 + lenN s.
Proof. apply len_p_str. Qed.
Lemma len_p_pairs_cons k v t :
  lenN (concat (p_pairs ((k, v) :: t))) = 2 + lenN k + lenN (concat (p_wval v)) + lenN (concat (p_pairs t)).
Proof.
  cbn [p_pairs concat]. rewrite !lenN_app, concat_app, lenN_app, lenN_be_put'. lenfin.
Qed.
Lemma len_p_pairs_nil : lenN (concat (p_pairs [])) = 3.
Proof. reflexivity. Qed.
Lemma len_p_obj l : lenN (concat (p_obj l)) = 1 + lenN (concat (p_pairs l)).
Proof. unfold p_obj. cbn [concat]. rewrite lenN_app. reflexivity. Qed.

Lemma writer_create_stream_result tid : writer (w_create_stream_result tid).
Proof.
  apply writer_mpack; [|unfold csid_over_connection; lia].
  rewrite !concat_app, !lenN_app, !len_p_num, len_p_str by lenfin. cbn. lia.
Qed.

Lemma writer_on_status code desc :
  lenN code + lenN desc <= 100 -> writer (w_on_status code desc).
Proof.
  intro H. apply writer_mpack; [|unfold csid_over_stream; lia].
  rewrite !concat_app, !lenN_app, !len_p_num, len_p_str by lenfin.
  rewrite len_p_obj, !len_p_pairs_cons, len_p_pairs_nil, !len_p_wval_str by lenfin.
  lenfin.
Qed.

Lemma writer_connect_result ver tid oe :
  lenN ver <= 32 -> writer (w_connect_result ver tid oe).
Proof.
  intro H. apply writer_mpack; [|unfold csid_over_connection; lia].
  rewrite !concat_app, !lenN_app, !len_p_num, len_p_str by lenfin.
  rewrite !len_p_obj, !len_p_pairs_cons, len_p_pairs_nil, !len_p_wval_str, !len_p_wval_int by lenfin.
  lenfin.
Qed.

(* ------------------------------------------------------------------------ *)
(* the session invariant *)

Definition astate_of (st : sstate) : astate :=
  if ss_dbo st then ARej
  else match ss_role st with RUnknown => A0 | RPub => APub | RSub => ASub end.

(* the observer calls made so far are a run of the specification automaton that
   ends in the state the session's role stands for *)
Definition J (a : acc) : Prop := arun A0 (rev (a_ev a)) = Some (astate_of (a_st a)).

Definition Inv (a : acc) : Prop :=
  ss_pcap (a_st a) = 256 /\ a_depth a <= 32 /\ ss_dbo (a_st a) = false /\ J a /\
  (ss_role (a_st a) = RUnknown ->
     ss_async (a_st a) = false /\ ss_rto (a_st a) = false /\ ss_wto (a_st a) = false) /\
  (ss_role (a_st a) = RPub -> ss_av (a_st a) = true).

(* what is known when a handler returned an error (the session then closes) *)
Definition InvE (a : acc) : Prop := a_depth a <= 32 /\ J a.

Lemma Inv_InvE a : Inv a -> InvE a.
Proof. intros (_ & Hd & _ & HJ & _). split; assumption. Qed.

Definition post {A} (r : res A * acc) : Prop :=
  match r with
  | (Ok _, a') => Inv a'
  | (Err _, a') => InvE a'
  | (Panic _, _) => False
  end.
Definition ht {A} (m : M A) : Prop := forall a, Inv a -> post (m a).

Lemma ht_ret {A} (x : A) : ht (mret x).
Proof. intros a H. exact H. Qed.
Lemma ht_fail {A} e : ht (@mfail A e).
Proof. intros a H. apply Inv_InvE, H. Qed.
Lemma ht_bind {A B} (m : M A) (f : A -> M B) : ht m -> (forall x, ht (f x)) -> ht (mbind m f).
Proof.
  intros Hm Hf a Ha. unfold mbind. specialize (Hm a Ha).
  destruct (m a) as [[x|e|s] a']; cbn [post] in *; [apply Hf, Hm|exact Hm|exact Hm].
Qed.

(* the part of the accumulator the invariant talks about *)
Definition score (st : sstate) :=
  (ss_role st, ss_av st, ss_async st, ss_rto st, ss_wto st, ss_dbo st, ss_pcap st).
Definition core (a : acc) := (score (a_st a), a_ev a, a_depth a).

Lemma Inv_core a a' : core a' = core a -> Inv a -> Inv a'.
Proof.
  unfold core, score. intro H. injection H as E1 E2 E3 E4 E5 E6 E7 E8 E9.
  unfold Inv, J, astate_of. rewrite E1, E2, E3, E4, E5, E6, E7, E8, E9. trivial.
Qed.
Lemma InvE_core a a' : core a' = core a -> InvE a -> InvE a'.
Proof.
  unfold core, score. intro H. injection H as E1 E2 E3 E4 E5 E6 E7 E8 E9.
  unfold InvE, J, astate_of. rewrite E1, E6, E8, E9. trivial.
Qed.

Lemma core_push a out : core (push a out) = core a.
Proof. unfold core, push. destruct (ss_async (a_st a)); reflexivity. Qed.
Lemma core_with_st a s : score s = score (a_st a) -> core (with_st a s) = core a.
Proof. unfold core, with_st. cbn. intros ->. reflexivity. Qed.
Lemma pcap_of_core a a' : core a' = core a -> ss_pcap (a_st a') = ss_pcap (a_st a).
Proof. unfold core, score. intro H. injection H as E1 E2 E3 E4 E5 E6 E7 E8 E9. exact E7. Qed.

(* handlers that leave that part alone *)
Definition keeps {A} (m : M A) : Prop :=
  forall a, ss_pcap (a_st a) = 256 ->
  match m a with
  | (Panic _, _) => False
  | (_, a') => core a' = core a
  end.

Lemma keeps_ht {A} (m : M A) : keeps m -> ht m.
Proof.
  intros Hk a Ha. pose proof Ha as (Hp & _). specialize (Hk a Hp).
  destruct (m a) as [[x|e|s] a']; cbn [post].
  - eapply Inv_core; eassumption.
  - eapply InvE_core; [eassumption|apply Inv_InvE, Ha].
  - exact Hk.
Qed.

Lemma keeps_ret {A} (x : A) : keeps (mret x).
Proof. intros a _. reflexivity. Qed.
Lemma keeps_fail {A} e : keeps (@mfail A e).
Proof. intros a _. reflexivity. Qed.
Lemma keeps_bind {A B} (m : M A) (f : A -> M B) : keeps m -> (forall x, keeps (f x)) -> keeps (mbind m f).
Proof.
  intros Hm Hf a Hp. unfold mbind. specialize (Hm a Hp).
  destruct (m a) as [[x|e|s] a']; [|exact Hm|exact Hm].
  assert (Hp' : ss_pcap (a_st a') = 256) by (rewrite (pcap_of_core _ _ Hm); exact Hp).
  specialize (Hf x a' Hp'). destruct (f x a') as [[y|e|s] a'']; [| |exact Hf]; congruence.
Qed.
Lemma keeps_writer m : writer m -> keeps m.
Proof. intros Hw a Hp. destruct (Hw a Hp) as [out E]. rewrite E. apply core_push. Qed.

Lemma keeps_win_ack b : keeps (do_win_ack_size b).
Proof.
  intros a Hp. unfold do_win_ack_size. destruct (len_ltb b 4); [reflexivity|].
  rewrite bind_get. unfold mput. apply core_with_st. reflexivity.
Qed.

Lemma keeps_do_ack b : keeps (do_ack b).
Proof. intros a Hp. unfold do_ack. destruct (len_ltb b 4); reflexivity. Qed.

Lemma keeps_write_ack consumed : keeps (write_ack_if_needed consumed).
Proof.
  intros a Hp. unfold write_ack_if_needed. rewrite bind_get.
  destruct (ss_win (a_st a) =? 0); [reflexivity|].
  match goal with |- context [if ?c then mret tt else _] => destruct c end; [reflexivity|].
  rewrite bind_put.
  match goal with |- context [w_proto_ctrl ?t ?s (with_st a ?st)] =>
    destruct (writer_proto_ctrl t s (with_st a st)) as [out E]; [exact Hp|]; rewrite E end.
  rewrite core_push. apply core_with_st. reflexivity.
Qed.

Lemma buf_skip_len b n : (n <= length b)%nat -> length (buf_skip b n) = (length b - n)%nat.
Proof.
  intro H. unfold buf_skip. destruct (Nat.ltb_spec (length b) n); [lia|]. apply skipn_length.
Qed.

Lemma keeps_user_control b : keeps (do_user_control sv_fixed b).
Proof.
  intros a Hp. unfold do_user_control. cbn [sv_uc_guard sv_fixed andb].
  rewrite !len_ltb_spec.
  destruct (Nat.ltb_spec (length b) 2) as [?|H2]; [reflexivity|].
  rewrite bind_ret.
  destruct (_ =? 6); [|reflexivity].
  destruct (Nat.ltb_spec (length b) 6) as [?|H6]; [reflexivity|].
  rewrite buf_skip_len by lia.
  destruct (Nat.ltb_spec (length b - 2) 4) as [?|_]; [lia|].
  rewrite bind_ret.
  match goal with |- context [w_user_control ?e ?t a] =>
    destruct (writer_user_control e t a Hp) as [out E]; rewrite E end.
  apply core_push.
Qed.

(* ------------------------------------------------------------------------ *)
(* the AMF0 readers the handlers use (C18): never a panic, depth within the limit *)

Lemma okr_np {X} b m (r : res (X * N * bytes)) s : okr b m r -> r <> Panic s.
Proof. intros (_ & H & _). apply H. Qed.
Lemma read_string_np b s : read_string b <> Panic s.
Proof. eapply okr_np, read_string_okr. Qed.
Lemma read_number_np b s : read_number b <> Panic s.
Proof. eapply okr_np, read_number_okr. Qed.
Lemma read_null_np b s : read_null b <> Panic s.
Proof.
  intro E. pose proof (read_null_okr b) as H. unfold okr2 in H.
  eapply okr_np in H. apply H. rewrite E. reflexivity.
Qed.
Lemma read_object_np b s : fst (read_object cfg_fixed b) <> Panic s.
Proof. eapply okr_np. apply (read_object_okd cfg_fixed b). Qed.
Lemma read_object_depth b : snd (read_object cfg_fixed b) <= 32.
Proof.
  pose proof (decode_depth cfg_fixed max_nesting eq_refl EObject b) as H.
  cbn [decode] in H. eapply N.le_trans; [|exact H]. apply snd_dbind_ge.
Qed.

Lemma with_depth_0 a : with_depth a 0 = a.
Proof. destruct a. unfold with_depth. cbn. now rewrite N.max_0_r. Qed.

Lemma Inv_with_depth a d : d <= 32 -> Inv a -> Inv (with_depth a d).
Proof.
  intros Hd (H1 & H2 & H3 & H4 & H5 & H6). unfold Inv, J, with_depth. cbn.
  repeat split; try assumption; try (apply H5; assumption); try (apply H6; assumption). lia.
Qed.
Lemma InvE_with_depth a d : d <= 32 -> InvE a -> InvE (with_depth a d).
Proof. intros Hd (H1 & H2). unfold InvE, J, with_depth. cbn. split; [lia|exact H2]. Qed.

Lemma ht_amf {A} (r : dres A) : (forall s, fst r <> Panic s) -> snd r <= 32 -> ht (mamf r).
Proof.
  intros Hnp Hd a Ha. unfold mamf. fold (with_depth a (snd r)).
  destruct (fst r) as [x|e|s] eqn:E; cbn [post].
  - apply Inv_with_depth; assumption.
  - apply InvE_with_depth; [assumption|apply Inv_InvE, Ha].
  - exact (Hnp s eq_refl).
Qed.

Lemma keeps_amf_lift {A} (r : res A) : (forall s, r <> Panic s) -> keeps (mamf (dlift r)).
Proof.
  intros Hnp a Hp. unfold mamf. cbn [fst snd dlift]. fold (with_depth a 0). rewrite with_depth_0.
  destruct r as [x|e|s]; [reflexivity|reflexivity|exact (Hnp s eq_refl)].
Qed.

(* ------------------------------------------------------------------------ *)
(* invariant-preserving steps *)

Lemma arun_app s l1 l2 :
  arun s (l1 ++ l2) = match arun s l1 with Some s' => arun s' l2 | None => None end.
Proof.
  revert s. induction l1 as [|e t IH]; intro s; cbn [arun app]; [reflexivity|].
  destruct (astep s e); [apply IH|reflexivity].
Qed.

Lemma J_emit a e s' :
  J a -> astep (astate_of (a_st a)) e = Some s' ->
  arun A0 (rev (a_ev (with_ev a e))) = Some s'.
Proof.
  unfold J. intros HJ Hs. cbn [with_ev a_ev rev]. rewrite arun_app, HJ. cbn [arun]. now rewrite Hs.
Qed.

Lemma Inv_with_st a s : score s = score (a_st a) -> Inv a -> Inv (with_st a s).
Proof. intros Hs Ha. eapply Inv_core; [apply core_with_st, Hs|exact Ha]. Qed.

Lemma Inv_emit_connect a n app :
  Inv a -> ss_role (a_st a) = RUnknown -> Inv (with_ev a (EvConnect n app)).
Proof.
  intros (H1 & H2 & H3 & H4 & H5 & H6) Er.
  unfold Inv. cbn [with_ev a_st a_depth]. repeat split; try assumption;
    try (apply H5; assumption); try (apply H6; assumption).
  unfold J. erewrite J_emit; [reflexivity|exact H4|].
  cbn [with_ev a_st]. unfold astate_of. rewrite H3, Er. reflexivity.
Qed.

Section Fixed.
Variable env : senv.
Hypothesis Hinst : e_install env = true.
Hypothesis Hver : lenN (e_ver env) <= 32.

Lemma ht_do_connect tid b : ht (do_connect sv_fixed env tid b).
Proof.
  intros a Ha. unfold do_connect. rewrite bind_get. cbn [sv_connect_guard sv_fixed].
  destruct (ss_role (a_st a)) eqn:Er;
    [rewrite bind_ret|rewrite bind_fail; apply Inv_InvE, Ha|rewrite bind_fail; apply Inv_InvE, Ha].
  rewrite bind_amf.
  pose proof (read_object_depth b) as Hd.
  destruct (fst (read_object cfg_fixed b)) as [[[opa l] rest]|e|s] eqn:Eo;
    [|cbn [post]; apply InvE_with_depth; [exact Hd|apply Inv_InvE, Ha]|exact (read_object_np _ _ Eo)].
  set (a1 := with_depth a (snd (read_object cfg_fixed b))).
  assert (Ha1 : Inv a1) by (apply Inv_with_depth; assumption).
  assert (Er1 : ss_role (a_st a1) = RUnknown) by exact Er.
  clearbody a1. clear Ha Er.
  destruct (find_string k_app opa) as [app|].
  - rewrite bind_get, bind_put, bind_emit.
    match goal with |- post (_ ?x) => assert (Hx : Inv x); [|revert Hx; generalize x] end.
    { apply Inv_emit_connect; [apply Inv_with_st; [reflexivity|exact Ha1]|exact Er1]. }
    apply keeps_ht.
    apply keeps_bind; [apply keeps_writer, writer_proto_ctrl|intros _].
    apply keeps_bind; [apply keeps_writer, writer_peer_bandwidth|intros _].
    apply keeps_bind; [apply keeps_writer, writer_proto_ctrl|intros _].
    apply keeps_writer, writer_connect_result, Hver.
  - rewrite bind_get, bind_put. unfold mfail. cbn [post].
    apply Inv_InvE, Inv_with_st; [reflexivity|exact Ha1].
Qed.

Lemma keeps_read_stream_name b : keeps (read_stream_name b).
Proof.
  unfold read_stream_name.
  apply keeps_bind; [apply keeps_amf_lift, read_null_np|intros [l b1]].
  apply keeps_bind; [apply keeps_amf_lift, read_string_np|intros [[snrq l2] b2]].
  intros a Hp. rewrite bind_get, bind_put. unfold mret. apply core_with_st. reflexivity.
Qed.

Lemma st_push a out : a_st (push a out) = a_st a.
Proof. unfold push. destruct (ss_async (a_st a)); reflexivity. Qed.
Lemma ev_push a out : a_ev (push a out) = a_ev a.
Proof. unfold push. destruct (ss_async (a_st a)); reflexivity. Qed.
Lemma depth_push a out : a_depth (push a out) = a_depth a.
Proof. unfold push. destruct (ss_async (a_st a)); reflexivity. Qed.

Lemma mod_conn_props_run a :
  ss_async (a_st a) = false -> ss_rto (a_st a) = false -> ss_wto (a_st a) = false ->
  mod_conn_props a =
  (@Ok unit tt, with_st a (match ss_role (a_st a) with
                     | RPub => set_conn_props (a_st a) true true (ss_wto (a_st a))
                     | RSub => set_conn_props (a_st a) true (ss_rto (a_st a)) true
                     | RUnknown => set_conn_props (a_st a) true (ss_rto (a_st a)) (ss_wto (a_st a))
                     end)).
Proof.
  intros H1 H2 H3. unfold mod_conn_props. rewrite bind_get, H1, H2, H3.
  destruct (ss_role (a_st a)); reflexivity.
Qed.

(* the facts a publish / play handler needs from the state it starts in *)
Lemma core_fields a a' :
  core a' = core a ->
  ss_role (a_st a') = ss_role (a_st a) /\ ss_async (a_st a') = ss_async (a_st a) /\
  ss_rto (a_st a') = ss_rto (a_st a) /\ ss_wto (a_st a') = ss_wto (a_st a) /\
  ss_dbo (a_st a') = ss_dbo (a_st a) /\ ss_pcap (a_st a') = ss_pcap (a_st a) /\
  a_ev a' = a_ev a /\ a_depth a' = a_depth a.
Proof.
  unfold core, score. intro H. injection H as E1 E2 E3 E4 E5 E6 E7 E8 E9. repeat split; assumption.
Qed.

Lemma ht_do_publish b : ht (do_publish sv_fixed env b).
Proof.
  intros a Ha. pose proof Ha as (Hp & Hd & Hdbo & HJ & Hun & _).
  unfold do_publish, role_guard. rewrite bind_assoc, bind_get. cbn [sv_role_guard sv_fixed].
  destruct (ss_role (a_st a)) eqn:Er;
    [rewrite bind_ret|rewrite bind_fail; apply Inv_InvE, Ha|rewrite bind_fail; apply Inv_InvE, Ha].
  destruct (Hun eq_refl) as (Has & Hrto & Hwto).
  pose proof (keeps_read_stream_name b a Hp) as Hk. unfold mbind at 1.
  destruct (read_stream_name b a) as [[x|e|s] a1]; [|eapply InvE_core; [exact Hk|apply Inv_InvE, Ha]|exact Hk].
  destruct (core_fields _ _ Hk) as (Fr & Fa & Frt & Fwt & Fd & Fp & Fe & Fdp).
  assert (Hp1 : ss_pcap (a_st a1) = 256) by congruence.
  match goal with |- context [w_on_status ?c ?d] =>
    destruct (writer_on_status c d ltac:(lenfin) a1 Hp1) as [out E]; rewrite (bind_run _ _ _ _ _ E) end.
  rewrite bind_get, bind_put.
  set (a2 := with_st (push a1 out) (set_role (a_st (push a1 out)) RPub)).
  assert (E2 : mod_conn_props a2 = (Ok tt, with_st a2 (set_conn_props (a_st a2) true true (ss_wto (a_st a2))))).
  { rewrite mod_conn_props_run; subst a2; cbn [with_st a_st set_role ss_async ss_rto ss_wto ss_role];
      rewrite ?st_push; congruence. }
  rewrite (bind_run _ _ _ _ _ E2), bind_get, bind_emit.
  unfold J in HJ.
  destruct (e_accept env).
  - rewrite Hinst. unfold mput. cbn [post].
    unfold Inv, J, astate_of, with_st, with_ev. subst a2.
    cbn [a_st a_ev a_depth with_st ss_pcap ss_dbo ss_role ss_av ss_async ss_rto ss_wto set_role set_conn_props set_av].
    rewrite ?st_push, ?ev_push, ?depth_push, Fp, Fd, Fe, Fdp, Hp, Hdbo.
    repeat split; try assumption; try discriminate.
    cbn [rev]. rewrite arun_app, HJ. unfold astate_of. rewrite Hdbo, Er. reflexivity.
  - rewrite bind_put. unfold mfail. cbn [post].
    unfold InvE, J, astate_of, with_st, with_ev. subst a2.
    cbn [a_st a_ev a_depth with_st ss_pcap ss_dbo ss_role ss_av ss_async ss_rto ss_wto set_role set_conn_props set_dbo].
    rewrite ?st_push, ?ev_push, ?depth_push, Fe, Fdp.
    split; [assumption|].
    cbn [rev]. rewrite arun_app, HJ. unfold astate_of. rewrite Hdbo, Er. reflexivity.
Qed.

Lemma ht_do_play b : ht (do_play sv_fixed env b).
Proof.
  intros a Ha. pose proof Ha as (Hp & Hd & Hdbo & HJ & Hun & _).
  unfold do_play, role_guard. rewrite bind_assoc, bind_get. cbn [sv_role_guard sv_fixed].
  destruct (ss_role (a_st a)) eqn:Er;
    [rewrite bind_ret|rewrite bind_fail; apply Inv_InvE, Ha|rewrite bind_fail; apply Inv_InvE, Ha].
  destruct (Hun eq_refl) as (Has & Hrto & Hwto).
  pose proof (keeps_read_stream_name b a Hp) as Hk. unfold mbind at 1.
  destruct (read_stream_name b a) as [[x|e|s] a1]; [|eapply InvE_core; [exact Hk|apply Inv_InvE, Ha]|exact Hk].
  destruct (core_fields _ _ Hk) as (Fr & Fa & Frt & Fwt & Fd & Fp & Fe & Fdp).
  assert (Hp1 : ss_pcap (a_st a1) = 256) by congruence.
  destruct (writer_user_control 4 1 a1 Hp1) as [o1 E1]. rewrite (bind_run _ _ _ _ _ E1).
  assert (Hp2 : ss_pcap (a_st (push a1 o1)) = 256) by (rewrite st_push; exact Hp1).
  destruct (writer_user_control 0 1 _ Hp2) as [o2 E2]. rewrite (bind_run _ _ _ _ _ E2).
  assert (Hp3 : ss_pcap (a_st (push (push a1 o1) o2)) = 256) by (rewrite st_push; exact Hp2).
  match goal with |- context [w_on_status ?c ?d] =>
    destruct (writer_on_status c d ltac:(lenfin) _ Hp3) as [out E]; rewrite (bind_run _ _ _ _ _ E) end.
  rewrite bind_get, bind_put.
  set (a0 := push (push (push a1 o1) o2) out).
  assert (F0 : a_st a0 = a_st a1) by (subst a0; now rewrite !st_push).
  assert (F0e : a_ev a0 = a_ev a1) by (subst a0; now rewrite !ev_push).
  assert (F0d : a_depth a0 = a_depth a1) by (subst a0; now rewrite !depth_push).
  set (a2 := with_st a0 (set_role (a_st a0) RSub)).
  assert (E3 : mod_conn_props a2 = (Ok tt, with_st a2 (set_conn_props (a_st a2) true (ss_rto (a_st a2)) true))).
  { rewrite mod_conn_props_run; subst a2; cbn [with_st a_st set_role ss_async ss_rto ss_wto ss_role];
      rewrite ?F0; congruence. }
  rewrite (bind_run _ _ _ _ _ E3), bind_get, bind_emit.
  unfold J in HJ.
  destruct (e_accept env).
  - unfold mret. cbn [post].
    unfold Inv, J, astate_of, with_st, with_ev. subst a2.
    cbn [a_st a_ev a_depth with_st ss_pcap ss_dbo ss_role ss_av ss_async ss_rto ss_wto set_role set_conn_props].
    rewrite ?F0, ?F0e, ?F0d, Fp, Fd, Fe, Fdp, Hp, Hdbo.
    repeat split; try assumption; try discriminate.
    cbn [rev]. rewrite arun_app, HJ. unfold astate_of. rewrite Hdbo, Er. reflexivity.
  - rewrite bind_put. unfold mfail. cbn [post].
    unfold InvE, J, astate_of, with_st, with_ev. subst a2.
    cbn [a_st a_ev a_depth with_st ss_pcap ss_dbo ss_role ss_av ss_async ss_rto ss_wto set_role set_conn_props set_dbo].
    rewrite ?F0, ?F0e, ?F0d, Fe, Fdp.
    split; [assumption|].
    cbn [rev]. rewrite arun_app, HJ. unfold astate_of. rewrite Hdbo, Er. reflexivity.
Qed.

Lemma ht_do_command b : ht (do_command sv_fixed env b).
Proof.
  unfold do_command.
  apply ht_bind; [apply ht_amf; [apply read_string_np|cbn; lia]|intros [[cmd l] b1]].
  apply ht_bind; [apply ht_amf; [apply read_number_np|cbn; lia]|intros [[tidbits l2] b2]].
  destruct (bytes_eqb cmd k_connect); [apply ht_do_connect|].
  destruct (bytes_eqb cmd k_createStream); [apply keeps_ht, keeps_writer, writer_create_stream_result|].
  destruct (bytes_eqb cmd k_publish); [apply ht_do_publish|].
  destruct (bytes_eqb cmd k_play); [apply ht_do_play|].
  apply ht_ret.
Qed.

(* media reaches the observer only in a session that is a publisher *)
Lemma ht_call_av_pub m a : Inv a -> ss_role (a_st a) = RPub -> post (call_av m a).
Proof.
  intros Ha Er. pose proof Ha as (Hp & Hd & Hdbo & HJ & Hun & Hav).
  unfold call_av. rewrite bind_get, (Hav Er). unfold memit. cbn [post].
  fold (with_ev a (EvAv m)).
  unfold Inv. cbn [with_ev a_st a_depth]. repeat split; try assumption.
  all: try congruence.
  unfold J. erewrite J_emit; [reflexivity|exact HJ|].
  cbn [with_ev a_st]. unfold astate_of. rewrite Hdbo, Er. reflexivity.
Qed.

Lemma ht_do_av m : ht (do_av sv_fixed m).
Proof.
  intros a Ha. unfold do_av. rewrite bind_get.
  destruct (ss_role (a_st a)) eqn:Er; cbn [sv_av_guard sv_fixed].
  - apply Inv_InvE, Ha.
  - apply ht_call_av_pub; assumption.
  - apply Inv_InvE, Ha.
Qed.

Lemma ht_do_data m : ht (do_data_amf0 m).
Proof.
  intros a Ha. unfold do_data_amf0. rewrite bind_get.
  destruct (ss_role (a_st a)) eqn:Er; [apply Inv_InvE, Ha| |apply Inv_InvE, Ha].
  rewrite bind_amf. cbn [fst snd dlift]. rewrite with_depth_0.
  destruct (read_string (m_payload m)) as [[[val l] rest]|e|s] eqn:E.
  - destruct (bytes_eqb val k_RtmpSampleAccess_bar); [exact Ha|apply ht_call_av_pub; assumption].
  - apply Inv_InvE, Ha.
  - exact (read_string_np _ _ E).
Qed.

Lemma ht_dispatch m : ht (dispatch sv_fixed env m).
Proof.
  unfold dispatch.
  destruct (_ =? 5); [apply keeps_ht, keeps_win_ack|].
  destruct (_ =? 1); [apply ht_ret|].
  destruct (_ =? 20); [apply ht_do_command|].
  destruct (_ =? 17); [apply ht_do_command|].
  destruct (_ =? 18); [apply ht_do_data|].
  destruct (_ =? 3); [apply keeps_ht, keeps_do_ack|].
  destruct (_ =? 4); [apply keeps_ht, keeps_user_control|].
  destruct (_ || _); [apply ht_do_av|apply ht_ret].
Qed.

Lemma ht_do_msg consumed m : ht (do_msg sv_fixed env consumed m).
Proof.
  unfold do_msg. apply ht_bind; [apply keeps_ht, keeps_write_ack|intros _; apply ht_dispatch].
Qed.

Lemma ht_run_cbs consumed ms : ht (run_cbs sv_fixed env consumed ms).
Proof.
  induction ms as [|m t IH]; cbn [run_cbs]; [apply ht_ret|].
  apply ht_bind; [apply ht_do_msg|intros _; exact IH].
Qed.

(* ------------------------------------------------------------------------ *)
(* the read loop *)

Lemma Inv_commit a : Inv a -> Inv (commit a).
Proof. apply Inv_core. reflexivity. Qed.
Lemma InvE_commit a : InvE a -> InvE (commit a).
Proof. apply InvE_core. reflexivity. Qed.
Lemma InvE_discard a : InvE a -> InvE (discard a).
Proof. apply InvE_core. reflexivity. Qed.

Definition good_outcome (o : outcome) : Prop :=
  match o with
  | OContinue e => e = err_eof \/ e = err_unexpected_eof
  | OClose _ => True
  | OPanic _ => False
  | OFuel => False
  end.

Lemma is_eof_spec e : is_eof e = true -> e = err_eof \/ e = err_unexpected_eof.
Proof.
  unfold is_eof. intro H. apply orb_true_iff in H. destruct H as [H|H]; apply N.eqb_eq in H; auto.
Qed.

(* RunLoop's trace logging calls the payload helpers of base/t_rtmp.go; after C05's
   repairs they check the payload length before they index it *)
Lemma trace_guard_fixed trace cst' l out s :
  trace_guard MediaMsgChecked.fixes_all trace cst' l out <> Panic s.
Proof.
  unfold trace_guard. destruct trace; [|discriminate].
  destruct (completed_plain cst' l out) as [[csid msg]|]; [|discriminate].
  match goal with |- MediaMsgChecked.orr ?x ?y <> _ =>
    assert (H : MediaMsgProofs.is_ok (MediaMsgChecked.orr x y)) end.
  { apply MediaMsgProofs.orr_ok; [apply MediaMsgProofs.vsh_total; reflexivity|apply MediaMsgProofs.aacsh_total; reflexivity]. }
  destruct H as [b ->]. discriminate.
Qed.

Lemma sess_loop_good : forall fuel total cst a mm l,
  (length l < fuel)%nat -> Inv a ->
  let '(o, a', _) := sess_loop sv_fixed env fuel total cst a mm l in good_outcome o /\ InvE a'.
Proof.
  induction fuel as [|f IH]; intros total cst a mm l Hf Ha; [lia|].
  cbn [sess_loop sv_rv sv_fixed sv_fx].
  destruct (compose_chunk rv_fixed cst l) as [cst' out rest|cst' out e] eqn:E.
  - apply compose_chunk_consumes in E.
    destruct (trace_guard MediaMsgChecked.fixes_all (e_trace env) cst' l out) as [b|e0|s] eqn:Et;
      [| |exfalso; exact (trace_guard_fixed _ _ _ _ _ Et)].
    all: match goal with |- context [run_cbs _ _ ?c ?o ?a0] => pose proof (ht_run_cbs c o a0 Ha) as Hr;
      destruct (run_cbs sv_fixed env c o a0) as [[x|e'|s'] a1] end; cbn [post] in Hr.
    all: try contradiction.
    all: try (apply IH; [lia|apply Inv_commit, Hr]).
    all: split; [exact I|apply InvE_discard, Hr].
  - match goal with |- context [run_cbs _ _ ?c out a] => pose proof (ht_run_cbs c out a Ha) as Hr;
      destruct (run_cbs sv_fixed env c out a) as [[x|e'|s] a1] end; cbn [post] in Hr.
    + destruct (is_eof e) eqn:Ee.
      * split; [apply is_eof_spec, Ee|apply InvE_commit, Inv_InvE, Hr].
      * split; [exact I|apply InvE_discard, Inv_InvE, Hr].
    + split; [exact I|apply InvE_discard, Hr].
    + contradiction.
Qed.

Lemma Inv_init : Inv (init_acc env).
Proof.
  unfold Inv, J, init_acc, init_sstate_at, astate_of. cbn. repeat split; try reflexivity; try discriminate; try lia.
Qed.

End Fixed.

(* ------------------------------------------------------------------------ *)
(* the whole session *)
Section Whole.
Variable hmac : bytes -> bytes -> bytes.
Variable env : senv.
Hypothesis Hinst : e_install env = true.
Hypothesis Hver : lenN (e_ver env) <= 32.

Lemma run_session_good input :
  let r := run_session hmac sv_fixed env input in
  good_outcome (r_out r) /\ r_depth r <= 32 /\ arun A0 (r_ev r) = Some (astate_of (r_st r)).
Proof.
  unfold run_session.
  destruct (run_handshake hmac (e_now env) (e_rnd env) input) as [simple w rest|w e|s] eqn:E.
  - pose proof (sess_loop_good env Hinst Hver (S (length rest)) (lenN input)
                  (init_cstate default_chunk_size) (init_acc env) [] rest (Nat.lt_succ_diag_r _) (Inv_init env)) as H.
    destruct (sess_loop sv_fixed env (S (length rest)) (lenN input) (init_cstate default_chunk_size) (init_acc env) [] rest)
      as [[o a] mm]. destruct H as (Ho & Hd & HJ). cbn [r_out r_depth r_ev r_st]. repeat split; assumption.
  - cbn [r_out r_depth r_ev r_st]. repeat split; [|lia].
    unfold run_handshake in E.
    destruct (takeN input c0c1_len) as [[c0c1 r1]|].
    + destruct (server_s0s1s2 hmac (e_now env) (e_rnd env) c0c1) as [[sm out]|?|?]; try discriminate.
      destruct (takeN r1 c2_len) as [[c2 r2]|]; [discriminate|]. inversion E; subst.
      unfold hs_short_err. destruct r1; cbn; auto.
    + inversion E; subst. unfold hs_short_err. destruct input; cbn; auto.
  - exfalso. exact (run_handshake_no_panic hmac _ _ _ _ E).
Qed.

Lemma shell_good input :
  exists evs, handle_tcp_connect hmac sv_fixed env input = Some evs /\ shell_ok evs = true.
Proof.
  unfold handle_tcp_connect. pose proof (run_session_good input) as (Ho & _ & HJ). cbn zeta in Ho, HJ.
  set (r := run_session hmac sv_fixed env input) in *.
  destruct (r_out r) eqn:Eo; cbn [good_outcome] in Ho; try contradiction.
  all: eexists; split; [reflexivity|]; unfold shell_ok; rewrite arun_app, HJ; unfold astate_of.
  all: destruct (ss_dbo (r_st r)); [reflexivity|]; destruct (ss_role (r_st r)); reflexivity.
Qed.
End Whole.

(* ------------------------------------------------------------------------ *)
(* the AMF nesting depth is bounded for every variant, every environment and
   every input, on every path (also when a later step panics or fails) *)
Definition dm {A} (m : M A) : Prop := forall a, a_depth a <= 32 -> a_depth (snd (m a)) <= 32.

Lemma dm_bind {A B} (m : M A) (f : A -> M B) : dm m -> (forall x, dm (f x)) -> dm (mbind m f).
Proof.
  intros Hm Hf a Ha. unfold mbind. specialize (Hm a Ha).
  destruct (m a) as [[x|e|s] a']; cbn [snd] in *; [apply Hf, Hm|exact Hm|exact Hm].
Qed.
Lemma dm_same {A} (m : M A) : (forall a, a_depth (snd (m a)) = a_depth a) -> dm m.
Proof. intros H a Ha. now rewrite H. Qed.
Lemma dm_amf {A} (r : dres A) : snd r <= 32 -> dm (mamf r).
Proof. intros Hr a Ha. unfold mamf. cbn. lia. Qed.

Lemma dm_mwrite b : dm (mwrite b).
Proof. apply dm_same. intro a. unfold mwrite. cbn. destruct (ss_async (a_st a)); reflexivity. Qed.

Ltac dmt :=
  repeat first
    [ apply dm_bind; [|intros ?]
    | apply dm_mwrite
    | apply dm_same; intros ?; reflexivity
    | apply dm_amf; first [apply read_object_depth | cbn; lia]
    | match goal with
      | |- dm (if ?c then _ else _) => destruct c
      | |- dm (match ?x with _ => _ end) => destruct x
      | |- dm (let '(_, _) := ?x in _) => destruct x
      end ].

Lemma dm_mpack csid ty msid ws : dm (mpack csid ty msid ws).
Proof. unfold mpack. dmt. Qed.

Section Depth.
Variable v : svariant.
Variable env : senv.

Lemma dm_call_av m : dm (call_av m).
Proof. unfold call_av. dmt. Qed.
Lemma dm_mod_conn_props : dm mod_conn_props.
Proof. unfold mod_conn_props. dmt. Qed.
Lemma dm_read_stream_name b : dm (read_stream_name b).
Proof. unfold read_stream_name. dmt. Qed.

Lemma dm_do_msg consumed m : dm (do_msg v env consumed m).
Proof.
  unfold do_msg, write_ack_if_needed, dispatch, do_win_ack_size, do_ack, do_user_control, do_command,
    do_data_amf0, do_av, do_connect, do_publish, do_play, role_guard,
    w_proto_ctrl, w_peer_bandwidth, w_user_control, w_connect_result, w_create_stream_result, w_on_status.
  dmt; try apply dm_mpack; try apply dm_call_av; try apply dm_mod_conn_props; try apply dm_read_stream_name.
Qed.

Lemma dm_run_cbs consumed ms : dm (run_cbs v env consumed ms).
Proof.
  induction ms as [|m t IH]; cbn [run_cbs]; [apply dm_same; reflexivity|].
  apply dm_bind; [apply dm_do_msg|intros _; exact IH].
Qed.

Lemma sess_loop_depth : forall fuel total cst a mm l,
  a_depth a <= 32 -> a_depth (snd (fst (sess_loop v env fuel total cst a mm l))) <= 32.
Proof.
  induction fuel as [|f IH]; intros total cst a mm l Ha; [exact Ha|].
  cbn [sess_loop].
  destruct (compose_chunk (sv_rv v) cst l) as [cst' out rest|cst' out e].
  - destruct (trace_guard (sv_fx v) (e_trace env) cst' l out); [| |exact Ha].
    all: match goal with |- context [run_cbs _ _ ?c ?o ?a0] => pose proof (dm_run_cbs c o a0 Ha) as Hr;
      destruct (run_cbs v env c o a0) as [[x|e'|s'] a1] end; cbn [snd fst] in *; try exact Hr.
    all: apply IH; exact Hr.
  - match goal with |- context [run_cbs _ _ ?c out a] => pose proof (dm_run_cbs c out a Ha) as Hr;
      destruct (run_cbs v env c out a) as [[x|e'|s] a1] end; cbn [snd fst] in *; try exact Hr.
    destruct (is_eof e); exact Hr.
Qed.

Lemma run_session_depth hmac input : r_depth (run_session hmac v env input) <= 32.
Proof.
  unfold run_session.
  destruct (run_handshake hmac (e_now env) (e_rnd env) input) as [simple w rest|w e|s]; cbn [r_depth]; try lia.
  pose proof (sess_loop_depth (S (length rest)) (lenN input) (init_cstate default_chunk_size) (init_acc env) [] rest) as H.
  destruct (sess_loop v env (S (length rest)) (lenN input) (init_cstate default_chunk_size) (init_acc env) [] rest) as [[o a] mm].
  cbn [r_depth snd fst] in *. apply H. cbn. lia.
Qed.
End Depth.
