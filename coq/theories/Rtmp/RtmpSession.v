(* Model of the RTMP server session on arbitrary input bytes:
     pkg/rtmp/server_session.go  (RunLoop, handshake, doMsg and every do* handler,
                                  writeAcknowledgementIfNeeded, modConnProps)
     pkg/rtmp/stream.go          (StreamMsg read helpers over the AMF0 readers)
     pkg/rtmp/message_packer.go  (the replies a server session writes; Buffer.grow)
     pkg/rtmp/server.go          (handleTcpConnect: the shell around one session)
   on top of the C08 chunk composer (RtmpComposer.compose_chunk), the C18 AMF0
   readers (RtmpAmf0) and the handshake (RtmpHandshake).  No proofs here.

   The connection is a finite byte list: the connection reader blocks until the
   exact number of bytes each stage asks for has arrived, so how the peer
   fragments its bytes over TCP segments cannot be observed by the session.
   Input exhausted = the session is blocked in a read ([OContinue]).

   Two variants: [sv_fixed] is the working tree after the C04 repairs,
   [sv_pinned] the tree before them (kept so that the refutation witnesses stay
   machine-checked). *)
From Lal Require Import Common.LBytes Common.Res Common.LBytesRead Common.NAssoc
  Rtmp.RtmpChunk Rtmp.RtmpComposer Rtmp.RtmpAmf0 Rtmp.RtmpHandshake.
From Lal Require Media.MediaMsgChecked.
Open Scope N_scope.

(* ASCII constants (byte lists; Coq strings are not used so that no String module is extracted) *)
Definition k_result : bytes := [95; 114; 101; 115; 117; 108; 116].   (* "_result" *)
Definition k_FMS_3_0_1_123 : bytes := [70; 77; 83; 47; 51; 44; 48; 44; 49; 44; 49; 50; 51].   (* "FMS/3,0,1,123" *)
Definition k_status : bytes := [115; 116; 97; 116; 117; 115].   (* "status" *)
Definition k_NetConnection_Connect_Success : bytes := [78; 101; 116; 67; 111; 110; 110; 101; 99; 116; 105; 111; 110; 46; 67; 111; 110; 110; 101; 99; 116; 46; 83; 117; 99; 99; 101; 115; 115].   (* "NetConnection.Connect.Success" *)
Definition k_Connection_succeeded : bytes := [67; 111; 110; 110; 101; 99; 116; 105; 111; 110; 32; 115; 117; 99; 99; 101; 101; 100; 101; 100; 46].   (* "Connection succeeded." *)
Definition k_onStatus : bytes := [111; 110; 83; 116; 97; 116; 117; 115].   (* "onStatus" *)
Definition k_RtmpSampleAccess_bar : bytes := [124; 82; 116; 109; 112; 83; 97; 109; 112; 108; 101; 65; 99; 99; 101; 115; 115].   (* "|RtmpSampleAccess" *)
Definition k_app : bytes := [97; 112; 112].   (* "app" *)
Definition k_tcUrl : bytes := [116; 99; 85; 114; 108].   (* "tcUrl" *)
Definition k_objectEncoding : bytes := [111; 98; 106; 101; 99; 116; 69; 110; 99; 111; 100; 105; 110; 103].   (* "objectEncoding" *)
Definition k_NetStream_Publish_Start : bytes := [78; 101; 116; 83; 116; 114; 101; 97; 109; 46; 80; 117; 98; 108; 105; 115; 104; 46; 83; 116; 97; 114; 116].   (* "NetStream.Publish.Start" *)
Definition k_Start_publishing : bytes := [83; 116; 97; 114; 116; 32; 112; 117; 98; 108; 105; 115; 104; 105; 110; 103].   (* "Start publishing" *)
Definition k_NetStream_Play_Start : bytes := [78; 101; 116; 83; 116; 114; 101; 97; 109; 46; 80; 108; 97; 121; 46; 83; 116; 97; 114; 116].   (* "NetStream.Play.Start" *)
Definition k_Start_live : bytes := [83; 116; 97; 114; 116; 32; 108; 105; 118; 101].   (* "Start live" *)
Definition k_connect : bytes := [99; 111; 110; 110; 101; 99; 116].   (* "connect" *)
Definition k_createStream : bytes := [99; 114; 101; 97; 116; 101; 83; 116; 114; 101; 97; 109].   (* "createStream" *)
Definition k_publish : bytes := [112; 117; 98; 108; 105; 115; 104].   (* "publish" *)
Definition k_play : bytes := [112; 108; 97; 121].   (* "play" *)
Definition k_fmsVer : bytes := [102; 109; 115; 86; 101; 114].   (* "fmsVer" *)
Definition k_capabilities : bytes := [99; 97; 112; 97; 98; 105; 108; 105; 116; 105; 101; 115].   (* "capabilities" *)
Definition k_level : bytes := [108; 101; 118; 101; 108].   (* "level" *)
Definition k_code : bytes := [99; 111; 100; 101].   (* "code" *)
Definition k_description : bytes := [100; 101; 115; 99; 114; 105; 112; 116; 105; 111; 110].   (* "description" *)
Definition k_version : bytes := [118; 101; 114; 115; 105; 111; 110].   (* "version" *)

(* ------------------------------------------------------------------------ *)
(* environment, variants *)

Record senv := mk_env {
  e_ver : bytes;      (* base.LalRtmpConnectResultVersion *)
  e_rnd : bytes;      (* base.LalRtmpRandom1528Buf *)
  e_now : N;          (* uint32(time.Now().UnixNano()) taken by the handshake *)
  e_accept : bool;    (* OnNewRtmpPubSession / OnNewRtmpSubSession return nil *)
  e_install : bool;   (* an accepting OnNewRtmpPubSession calls SetPubSessionObserver *)
  e_trace : bool;     (* the configured log level is "trace" (lalserver.conf.json "log": {"level": 0}) *)
  e_lastack0 : N;     (* recvLastAck when the session starts (0 in production; the harness presets it) *)
  e_seq0 : N          (* seqNum when the session starts (0 in production) *)
}.

Record svariant := mk_sv {
  sv_av_guard : bool;    (* audio / video from a session that is not a publisher: error before the observer is called *)
  sv_uc_guard : bool;    (* doUserControl checks the body length before reading *)
  sv_role_guard : bool;  (* publish / play are refused once the session has a role *)
  sv_connect_guard : bool;   (* connect is refused once the session has a role (C20's repair: it rewrote appName / tcUrl
                                under readers in other goroutines) *)
  sv_rv : rvariant;      (* the chunk composer; rv_grow_received = buffers grow with the bytes that arrive *)
  sv_fx : MediaMsgChecked.fixes   (* the payload helpers of base/t_rtmp.go the trace logging of RunLoop calls (C05) *)
}.
Definition sv_fixed := mk_sv true true true true rv_fixed MediaMsgChecked.fixes_all.
(* the repaired tree but for the composer's memory rule: the declared message length is reserved when the
   header arrives, the chunk body is read in one piece, the length check comes after the read *)
Definition sv_premem := mk_sv true true true true (mk_rv true true true) MediaMsgChecked.fixes_all.
(* the tree before the C04 repairs (after the C08 ones) *)
Definition sv_pinned := mk_sv false false false false (mk_rv true true true) MediaMsgChecked.fixes_pinned.

(* ------------------------------------------------------------------------ *)
(* errors a session closes with (the composer's 1..6 are the err_ constants of RtmpComposer) *)
Definition e_short_buffer : N := 10.     (* base.ErrRtmpShortBuffer from a do* handler *)
Definition e_unexpected_msg : N := 11.   (* base.ErrRtmpUnexpectedMsg *)
Definition e_amf_not_exist : N := 12.    (* base.ErrAmfNotExist (connect without app) *)
Definition e_observer : N := 13.         (* the error OnNewRtmp*Session returned *)
Definition amf_err (e : N) : N := 256 + e.   (* 0x101 short, 0x102 too deep, 0x200+b invalid marker b *)

(* panic sites *)
Definition site_uc_be16 : N := 40.       (* doUserControl: bele.BeUint16 on < 2 bytes *)
Definition site_uc_be32 : N := 41.       (* doUserControl: bele.BeUint32 on < 4 bytes *)
Definition site_av_nil : N := 42.        (* s.avObserver.OnReadRtmpAvMsg with a nil observer *)
Definition site_mod_wchan : N := 43.     (* connection.ModWriteChanSize called twice *)
Definition site_mod_rto : N := 44.       (* connection.ModReadTimeoutMs called twice *)
Definition site_mod_wto : N := 45.       (* connection.ModWriteTimeoutMs called twice *)
Definition site_pk_grow : N := 46.       (* Buffer.grow: b.core[b.readPos:b.writePos] with writePos > cap *)
Definition site_pk_bytes : N := 47.      (* Buffer.Bytes with writePos > cap *)

(* ------------------------------------------------------------------------ *)
(* session state *)
Inductive role := RUnknown | RPub | RSub.

Record sstate := mk_ss {
  ss_role : role;       (* sessionStat.BaseType: PUBSUB / PUB / SUB *)
  ss_av : bool;         (* avObserver != nil *)
  ss_app : bytes;
  ss_tcurl : bytes;
  ss_snrq : bytes;      (* streamNameWithRawQuery *)
  ss_sname : bytes;
  ss_rawq : bytes;
  ss_url : bytes;
  ss_win : N;           (* peerWinAckSize *)
  ss_lastack : N;       (* recvLastAck *)
  ss_seq : N;           (* seqNum *)
  ss_pcap : N;          (* cap(packer.b.core) *)
  ss_async : bool;      (* connection write channel installed *)
  ss_rto : bool;        (* connection read timeout installed *)
  ss_wto : bool;        (* connection write timeout installed *)
  ss_dbo : bool         (* DisposeByObserverFlag *)
}.
Definition init_sstate_at (lastack seq : N) : sstate :=
  mk_ss RUnknown false [] [] [] [] [] [] 0 lastack seq 256 false false false false.
Definition init_sstate : sstate := init_sstate_at 0 0.

Definition set_win (s : sstate) (v : N) : sstate :=
  mk_ss (ss_role s) (ss_av s) (ss_app s) (ss_tcurl s) (ss_snrq s) (ss_sname s) (ss_rawq s) (ss_url s)
        v (ss_lastack s) (ss_seq s) (ss_pcap s) (ss_async s) (ss_rto s) (ss_wto s) (ss_dbo s).
Definition set_ack (s : sstate) (lastack seq : N) : sstate :=
  mk_ss (ss_role s) (ss_av s) (ss_app s) (ss_tcurl s) (ss_snrq s) (ss_sname s) (ss_rawq s) (ss_url s)
        (ss_win s) lastack seq (ss_pcap s) (ss_async s) (ss_rto s) (ss_wto s) (ss_dbo s).
Definition set_pcap (s : sstate) (v : N) : sstate :=
  mk_ss (ss_role s) (ss_av s) (ss_app s) (ss_tcurl s) (ss_snrq s) (ss_sname s) (ss_rawq s) (ss_url s)
        (ss_win s) (ss_lastack s) (ss_seq s) v (ss_async s) (ss_rto s) (ss_wto s) (ss_dbo s).
Definition set_connect (s : sstate) (app tcurl : bytes) : sstate :=
  mk_ss (ss_role s) (ss_av s) app tcurl (ss_snrq s) (ss_sname s) (ss_rawq s) (ss_url s)
        (ss_win s) (ss_lastack s) (ss_seq s) (ss_pcap s) (ss_async s) (ss_rto s) (ss_wto s) (ss_dbo s).
Definition set_names (s : sstate) (snrq sname rawq url : bytes) : sstate :=
  mk_ss (ss_role s) (ss_av s) (ss_app s) (ss_tcurl s) snrq sname rawq url
        (ss_win s) (ss_lastack s) (ss_seq s) (ss_pcap s) (ss_async s) (ss_rto s) (ss_wto s) (ss_dbo s).
Definition set_role (s : sstate) (r : role) : sstate :=
  mk_ss r (ss_av s) (ss_app s) (ss_tcurl s) (ss_snrq s) (ss_sname s) (ss_rawq s) (ss_url s)
        (ss_win s) (ss_lastack s) (ss_seq s) (ss_pcap s) (ss_async s) (ss_rto s) (ss_wto s) (ss_dbo s).
Definition set_av (s : sstate) (v : bool) : sstate :=
  mk_ss (ss_role s) v (ss_app s) (ss_tcurl s) (ss_snrq s) (ss_sname s) (ss_rawq s) (ss_url s)
        (ss_win s) (ss_lastack s) (ss_seq s) (ss_pcap s) (ss_async s) (ss_rto s) (ss_wto s) (ss_dbo s).
Definition set_conn_props (s : sstate) (async rto wto : bool) : sstate :=
  mk_ss (ss_role s) (ss_av s) (ss_app s) (ss_tcurl s) (ss_snrq s) (ss_sname s) (ss_rawq s) (ss_url s)
        (ss_win s) (ss_lastack s) (ss_seq s) (ss_pcap s) async rto wto (ss_dbo s).
Definition set_dbo (s : sstate) (v : bool) : sstate :=
  mk_ss (ss_role s) (ss_av s) (ss_app s) (ss_tcurl s) (ss_snrq s) (ss_sname s) (ss_rawq s) (ss_url s)
        (ss_win s) (ss_lastack s) (ss_seq s) (ss_pcap s) (ss_async s) (ss_rto s) (ss_wto s) v.

(* what the upper layer (IServerSessionObserver / IServerObserver / IPubSessionObserver) is told *)
Inductive event :=
| EvConnect (npairs : N) (app : bytes)
| EvNewPub (seen : role) (app sname rawq url : bytes) (accepted : bool)   (* seen = BaseType the observer finds on the session *)
| EvNewSub (seen : role) (app sname rawq url : bytes) (accepted : bool)
| EvAv (m : rmsg)
| EvDelPub
| EvDelSub.

(* ------------------------------------------------------------------------ *)
(* the handler monad: session state, observer calls, replies, AMF depth.
   Replies written while the connection has its write channel are queued
   ([a_awr]); they are certain to reach the peer only when the session goes on
   reading afterwards. *)
Record acc := mk_acc {
  a_st : sstate;
  a_ev : list event;     (* newest first *)
  a_wr : list bytes;     (* written, newest first *)
  a_awr : list bytes;    (* queued since the last read, newest first *)
  a_depth : N            (* largest AMF nesting depth entered so far *)
}.
Definition M (A : Type) : Type := acc -> res A * acc.
Definition mret {A} (x : A) : M A := fun a => (Ok x, a).
Definition mbind {A B} (m : M A) (f : A -> M B) : M B :=
  fun a => match m a with
           | (Ok x, a') => f x a'
           | (Err e, a') => (Err e, a')
           | (Panic s, a') => (Panic s, a')
           end.
Notation "x <- m ;; k" := (mbind m (fun x => k)) (at level 100, m at next level, right associativity).
Notation "' p <- m ;; k" := (mbind m (fun p => k)) (at level 100, p pattern, m at next level, right associativity).
Definition mfail {A} (e : N) : M A := fun a => (Err e, a).
Definition mpanic {A} (s : N) : M A := fun a => (Panic s, a).
Definition mget : M sstate := fun a => (Ok (a_st a), a).
Definition mput (s : sstate) : M unit :=
  fun a => (Ok tt, mk_acc s (a_ev a) (a_wr a) (a_awr a) (a_depth a)).
Definition memit (e : event) : M unit :=
  fun a => (Ok tt, mk_acc (a_st a) (e :: a_ev a) (a_wr a) (a_awr a) (a_depth a)).
Definition mwrite (b : bytes) : M unit :=
  fun a => (Ok tt, if ss_async (a_st a)
                   then mk_acc (a_st a) (a_ev a) (a_wr a) (b :: a_awr a) (a_depth a)
                   else mk_acc (a_st a) (a_ev a) (b :: a_wr a) (a_awr a) (a_depth a)).
(* an AMF0 reader: ordinary errors become the session's error, the depth is recorded *)
Definition mamf {A} (r : dres A) : M A :=
  fun a => (match fst r with Ok x => Ok x | Err e => Err (amf_err e) | Panic s => Panic s end,
            mk_acc (a_st a) (a_ev a) (a_wr a) (a_awr a) (N.max (a_depth a) (snd r))).

(* ------------------------------------------------------------------------ *)
(* message_packer.go *)

(* Buffer.Write / WriteByte of each piece starting at writePos: grow doubles the
   capacity and, since the repair of DESIGN F-15 (C03, lal 495c27d), extends it
   to writePos + n when doubling is not enough.  Before that repair copy()
   silently truncated and the overrun surfaced at the next grow or at Bytes();
   those two slice expressions are still checked here. *)
Fixpoint pk_writes (cap wpos : N) (ws : list bytes) : res (N * N) :=
  match ws with
  | [] => Ok (cap, wpos)
  | w :: t =>
      if cap <? wpos then Panic site_pk_grow
      else
        let n := lenN w in
        let dbl := if cap =? 0 then 128 else cap * 2 in
        let cap' := if n <=? cap - wpos then cap else (if dbl - wpos <? n then wpos + n else dbl) in
        pk_writes cap' (wpos + n) t
  end.

(* ModWritePos(12); the writes; ChunkAndWrite(csid, typeid, streamid) *)
Definition chunk_and_write (cap csid typeid msid : N) (pieces : list bytes) : res (N * bytes) :=
  let* (cap', wpos) := pk_writes cap 12 pieces in
  if cap' <? wpos then Panic site_pk_bytes
  else
    let body := concat pieces in
    let body_len := wpos - 12 in
    if body_len <=? local_chunk_size then
      let* h := single_chunk_header csid body_len typeid msid in Ok (cap', h ++ body)
    else
      let* chunks := message2chunks_default (mk_hdr csid body_len typeid msid 0) body in Ok (cap', chunks).

Definition mpack (csid typeid msid : N) (pieces : list bytes) : M unit :=
  st <- mget ;;
  match chunk_and_write (ss_pcap st) csid typeid msid pieces with
  | Ok (cap', out) => _ <- mput (set_pcap st cap') ;; mwrite out
  | Err e => mfail e
  | Panic s => mpanic s
  end.

(* one list element per Write call of the Amf0 writers *)
Definition p_num (bits : N) : list bytes := [[0]; be_put 8 bits].
Definition p_str (s : bytes) : list bytes :=
  if lenN s <? 65536 then [[2]; be_put 2 (lenN s); s] else [[12]; be_put 4 (lenN s); s].
Definition p_null : list bytes := [[5]].
Definition p_wval (v : wval) : list bytes :=
  match v with
  | WStr s => p_str s
  | WNum n => p_num n
  | WInt z => p_num (f64_of_Z z)
  | WBool b => [[1]; [if b then 1 else 0]]
  end.
Fixpoint p_pairs (l : list (bytes * wval)) : list bytes :=
  match l with
  | [] => [end_marker]
  | (k, v) :: t => be_put 2 (lenN k) :: k :: p_wval v ++ p_pairs t
  end.
Definition p_obj (l : list (bytes * wval)) : list bytes := [3] :: p_pairs l.

Definition csid_protocol_control : N := 2.
Definition csid_over_connection : N := 3.
Definition csid_over_stream : N := 5.
Definition window_ack_size : N := 5000000.
Definition peer_bandwidth : N := 5000000.

Definition w_proto_ctrl (typeid val : N) : M unit :=
  mpack csid_protocol_control typeid 0 [be_put 4 (u32 val)].
Definition w_peer_bandwidth (val limit : N) : M unit :=
  mpack csid_protocol_control 6 0 [be_put 4 (u32 val); [limit]].
Definition w_user_control (ev val : N) : M unit :=
  mpack csid_protocol_control 4 0 [be_put 2 ev; be_put 4 (u32 val)].
Definition w_connect_result (ver : bytes) (tid oe : Z) : M unit :=
  mpack csid_over_connection 20 0
    (p_str k_result ++ p_num (f64_of_Z tid)
     ++ p_obj [(k_fmsVer, WStr k_FMS_3_0_1_123); (k_capabilities, WInt 31)]
     ++ p_obj [(k_level, WStr k_status);
               (k_code, WStr k_NetConnection_Connect_Success);
               (k_description, WStr k_Connection_succeeded);
               (k_objectEncoding, WInt oe);
               (k_version, WStr ver)]).
Definition w_create_stream_result (tid : Z) : M unit :=
  mpack csid_over_connection 20 0
    (p_str k_result ++ p_num (f64_of_Z tid) ++ p_null ++ p_num (f64_of_Z 1)).
Definition w_on_status (code desc : bytes) : M unit :=
  mpack csid_over_stream 20 1
    (p_str k_onStatus ++ p_num 0 ++ p_null
     ++ p_obj [(k_level, WStr k_status); (k_code, WStr code); (k_description, WStr desc)]).

(* ------------------------------------------------------------------------ *)
(* Go's int(float64) on amd64 (CVTTSD2SQ): truncation toward zero; NaN, the
   infinities and everything outside the int64 range give -2^63 *)
Definition int_indef : Z := (-9223372036854775808)%Z.
Definition f64_to_int (bits : N) : Z :=
  let neg := bits / 9223372036854775808 mod 2 =? 1 in
  let E := bits / 4503599627370496 mod 2048 in
  let M := bits mod 4503599627370496 in
  if E =? 2047 then int_indef
  else if E <? 1023 then 0%Z
  else if 1086 <=? E then int_indef
  else
    let S := 4503599627370496 + M in
    let mag := if 1075 <=? E then S * 2 ^ (E - 1075) else S / 2 ^ (1075 - E) in
    if neg then (- Z.of_N mag)%Z else Z.of_N mag.

(* ObjectPairArray.FindString / FindNumber: the first pair with that key AND that kind of value *)
Fixpoint find_string (k : bytes) (l : plist) : option bytes :=
  match l with
  | [] => None
  | (k0, v) :: t =>
      if bytes_eqb k0 k then match v with AStr s => Some s | _ => find_string k t end
      else find_string k t
  end.
Fixpoint find_number (k : bytes) (l : plist) : option N :=
  match l with
  | [] => None
  | (k0, v) :: t =>
      if bytes_eqb k0 k then match v with ANum n => Some n | _ => find_number k t end
      else find_number k t
  end.

(* strings.Split(s, sep) for a one-byte separator: never empty *)
Fixpoint split_on (c : N) (s : bytes) : list bytes :=
  match s with
  | [] => [[]]
  | x :: t =>
      if x =? c then [] :: split_on c t
      else match split_on c t with
           | h :: r => (x :: h) :: r
           | [] => [[x]]
           end
  end.

(* nazabytes.Buffer.Skip(n) on the readable part: more than available resets the buffer *)
Definition buf_skip (b : bytes) (n : nat) : bytes :=
  if Nat.ltb (length b) n then [] else skipn n b.

(* ------------------------------------------------------------------------ *)
(* server_session.go: the handlers.  [b] is stream.msg.buff.Bytes(). *)
Section Handlers.
Variable v : svariant.
Variable env : senv.

(* writeAcknowledgementIfNeeded; [consumed] = conn.GetStat().ReadBytesSum *)
Definition write_ack_if_needed (consumed : N) : M unit :=
  st <- mget ;;
  if ss_win st =? 0 then mret tt
  else
    let delta := u32 (consumed + 18446744073709551616 - ss_lastack st) in
    if delta <? window_ack_size / 2 then mret tt
    else
      let seq0 := u32 (ss_seq st + delta) in
      let seq := if 4026531840 <? seq0 then delta else seq0 in
      _ <- mput (set_ack st consumed seq) ;;
      w_proto_ctrl 3 seq.

Definition do_win_ack_size (b : bytes) : M unit :=
  if len_ltb b 4 then mfail e_short_buffer
  else st <- mget ;; mput (set_win st (be_get (firstn 4 b))).

Definition do_ack (b : bytes) : M unit :=
  if len_ltb b 4 then mfail e_short_buffer else mret tt.

Definition do_user_control (b : bytes) : M unit :=
  if sv_uc_guard v && len_ltb b 2 then mfail e_short_buffer
  else
    ty <- (if len_ltb b 2 then mpanic site_uc_be16 else mret (be_get (firstn 2 b))) ;;
    if ty =? 6 then
      if sv_uc_guard v && len_ltb b 6 then mfail e_short_buffer
      else
        let b2 := buf_skip b 2 in
        ts <- (if len_ltb b2 4 then mpanic site_uc_be32 else mret (be_get (firstn 4 b2))) ;;
        w_user_control 7 ts
    else mret tt.

(* s.avObserver.OnReadRtmpAvMsg(stream.toAvMsg()) *)
Definition call_av (m : rmsg) : M unit :=
  st <- mget ;;
  if ss_av st then memit (EvAv m) else mpanic site_av_nil.

Definition do_data_amf0 (m : rmsg) : M unit :=
  st <- mget ;;
  match ss_role st with
  | RPub =>
      '(val, _, _) <- mamf (dlift (read_string (m_payload m))) ;;
      if bytes_eqb val k_RtmpSampleAccess_bar then mret tt else call_av m
  | _ => mfail e_unexpected_msg
  end.

Definition do_av (m : rmsg) : M unit :=
  st <- mget ;;
  match ss_role st with
  | RPub => call_av m
  | _ =>
      if sv_av_guard v then mfail e_unexpected_msg
      else _ <- call_av m ;; mfail e_unexpected_msg
  end.

(* modConnProps *)
Definition mod_conn_props : M unit :=
  st <- mget ;;
  if ss_async st then mpanic site_mod_wchan
  else
    match ss_role st with
    | RPub => if ss_rto st then mpanic site_mod_rto else mput (set_conn_props st true true (ss_wto st))
    | RSub => if ss_wto st then mpanic site_mod_wto else mput (set_conn_props st true (ss_rto st) true)
    | RUnknown => mput (set_conn_props st true (ss_rto st) (ss_wto st))
    end.

Definition do_connect (tid : Z) (b : bytes) : M unit :=
  st0 <- mget ;;
  _ <- (if sv_connect_guard v
        then match ss_role st0 with RUnknown => mret tt | _ => mfail e_unexpected_msg end
        else mret tt) ;;
  '(opa, _, _) <- mamf (read_object cfg_fixed b) ;;
  match find_string k_app opa with
  | None => st <- mget ;; _ <- mput (set_connect st [] (ss_tcurl st)) ;; mfail e_amf_not_exist
  | Some app =>
      let tcurl := match find_string k_tcUrl opa with Some u => u | None => [] end in
      st <- mget ;;
      _ <- mput (set_connect st app tcurl) ;;
      _ <- memit (EvConnect (lenN opa) app) ;;
      _ <- w_proto_ctrl 5 window_ack_size ;;
      _ <- w_peer_bandwidth peer_bandwidth 2 ;;
      _ <- w_proto_ctrl 1 local_chunk_size ;;
      let oe0 := match find_number k_objectEncoding opa with Some n => f64_to_int n | None => (-1)%Z end in
      let oe := if (oe0 =? 0)%Z || (oe0 =? 3)%Z then oe0 else 0%Z in
      w_connect_result (e_ver env) tid oe
  end.

(* the name part shared by doPublish and doPlay *)
Definition read_stream_name (b : bytes) : M bytes :=
  '(_, b1) <- mamf (dlift (read_null b)) ;;
  '(snrq, _, b2) <- mamf (dlift (read_string b1)) ;;
  st <- mget ;;
  let ss := split_on 63 snrq in
  let sname := match ss with h :: _ => h | [] => [] end in
  let rawq := match ss with [_; q] => q | _ => ss_rawq st end in
  _ <- mput (set_names st snrq sname rawq (ss_tcurl st ++ [47] ++ snrq)) ;;
  mret b2.

Definition role_guard : M unit :=
  st <- mget ;;
  if sv_role_guard v then
    match ss_role st with RUnknown => mret tt | _ => mfail e_unexpected_msg end
  else mret tt.

Definition do_publish (b : bytes) : M unit :=
  _ <- role_guard ;;
  _ <- read_stream_name b ;;
  _ <- w_on_status k_NetStream_Publish_Start k_Start_publishing ;;
  st <- mget ;;
  _ <- mput (set_role st RPub) ;;
  _ <- mod_conn_props ;;
  st <- mget ;;
  _ <- memit (EvNewPub (ss_role st) (ss_app st) (ss_sname st) (ss_rawq st) (ss_url st) (e_accept env)) ;;
  if e_accept env then
    (if e_install env then mput (set_av st true) else mret tt)
  else
    _ <- mput (set_dbo st true) ;; mfail e_observer.

Definition do_play (b : bytes) : M unit :=
  _ <- role_guard ;;
  _ <- read_stream_name b ;;
  _ <- w_user_control 4 1 ;;
  _ <- w_user_control 0 1 ;;
  _ <- w_on_status k_NetStream_Play_Start k_Start_live ;;
  st <- mget ;;
  _ <- mput (set_role st RSub) ;;
  _ <- mod_conn_props ;;
  st <- mget ;;
  _ <- memit (EvNewSub (ss_role st) (ss_app st) (ss_sname st) (ss_rawq st) (ss_url st) (e_accept env)) ;;
  if e_accept env then mret tt
  else _ <- mput (set_dbo st true) ;; mfail e_observer.

Definition do_command (b : bytes) : M unit :=
  '(cmd, _, b1) <- mamf (dlift (read_string b)) ;;
  '(tidbits, _, b2) <- mamf (dlift (read_number b1)) ;;
  let tid := f64_to_int tidbits in
  if bytes_eqb cmd k_connect then do_connect tid b2
  else if bytes_eqb cmd k_createStream then w_create_stream_result tid
  else if bytes_eqb cmd k_publish then do_publish b2
  else if bytes_eqb cmd k_play then do_play b2
  else mret tt.

(* doMsg, after writeAcknowledgementIfNeeded *)
Definition dispatch (m : rmsg) : M unit :=
  let ty := h_type (m_hdr m) in
  let b := m_payload m in
  if ty =? 5 then do_win_ack_size b
  else if ty =? 1 then mret tt
  else if ty =? 20 then do_command b
  else if ty =? 17 then do_command (buf_skip b 1)
  else if ty =? 18 then do_data_amf0 m
  else if ty =? 3 then do_ack b
  else if ty =? 4 then do_user_control b
  else if (ty =? 8) || (ty =? 9) then do_av m
  else mret tt.

Definition do_msg (consumed : N) (m : rmsg) : M unit :=
  _ <- write_ack_if_needed consumed ;; dispatch m.

(* the callbacks of one RunLoop iteration, in order, until one fails *)
Fixpoint run_cbs (consumed : N) (ms : list rmsg) : M unit :=
  match ms with
  | [] => mret tt
  | m :: t => _ <- do_msg consumed m ;; run_cbs consumed t
  end.

(* ------------------------------------------------------------------------ *)
(* the read loop *)
Inductive outcome :=
| OContinue (e : N)      (* input exhausted, the session is blocked in a read: 1 at a chunk boundary, 2 inside a chunk *)
| OClose (e : N)         (* RunLoop returned e: this connection is closed *)
| OPanic (site : N)      (* the goroutine panics: the process dies *)
| OFuel.

(* where the input stands after the chunk that [compose_chunk] just completed
   (only needed when that chunk ended in an aggregate error after delivering
   sub-messages; in the Next case compose_chunk returns it) *)
Definition chunk_rest (rv : rvariant) (st : cstate) (l : bytes) : bytes :=
  match read_basic l with
  | Ok (fmt, csid, l1) =>
      match read_msg_header fmt (get_or_new csid st) l1 with
      | Ok (s1, l2) =>
          match read_ext_ts fmt s1 l2 with
          | Ok (s2, l3) =>
              match read_body l3 (needed_size rv (cs_chunk st) s2) (s_rbuf s2) with
              | Some (_, l4) => l4
              | None => []
              end
          | _ => []
          end
      | _ => []
      end
  | _ => []
  end.

(* ------------------------------------------------------------------------ *)
(* Memory: what the composer's message buffers hold (nazabytes.Buffer capacities),
   as a lengths-only shadow of the read loop.  One entry per chunk stream id:
   capacity of its buffer and (ghost, for the theorem) the body bytes ever
   received on it.  Message length and bytes held come from the composer state. *)
Record mentry := mk_me { me_cap : N; me_got : N }.
Definition mem : Type := list (N * mentry).
Definition mem_reserved (m : mem) : N := fold_right (fun e acc => me_cap (snd e) + acc) 0 m.
Definition mem_streams (m : mem) : N := lenN m.

(* nazabytes.roundUpPowerOfTwo for n > 128 *)
Definition pow2_ceil (n : N) : N := 2 ^ N.log2_up n.
(* nazabytes.Buffer.Grow(n) on a buffer with rpos = 0, wpos = len: the new capacity *)
Definition grow_cap (cap len n : N) : N :=
  if n <=? cap - len then cap
  else len + (if n <=? 128 then 128 else if n <? 1048576 then pow2_ceil n else n).

(* min(n, len l), walking at most n elements *)
Fixpoint avail_upto (l : bytes) (n acc : N) {struct l} : N :=
  if n =? 0 then acc
  else match l with
       | [] => acc
       | _ :: t => avail_upto t (N.pred n) (N.succ acc)
       end.

(* the piece loop of the repaired composer, on lengths: (left, avail, len, cap, stopped).
   Room for a piece is made (Grow) before it is read; at most 22 pieces for need < 2^32
   (the piece size doubles from initMsgLen on), 40 iterations are plenty. *)
Definition piece_step (mlen : N) (st : N * N * N * N * bool) : N * N * N * N * bool :=
  let '(lft, avail, len, cap, stopped) := st in
  if stopped || (lft =? 0) then (lft, avail, len, cap, true)
  else
    let limit := N.max len init_msg_len in
    let p := N.min lft limit in
    (* no room for the piece: grow by what has arrived (at least initMsgLen), never beyond the message *)
    let cap' := if p <=? cap - len then cap else grow_cap cap len (N.min (mlen - len) limit) in
    if p <=? avail then (lft - p, avail - p, len + p, cap', false)
    else (lft, avail, len, cap', true).
Definition pieces_cap (mlen need avail len cap : N) : N :=
  let '(_, _, _, cap', _) := N.iter 40 (piece_step mlen) (need, avail, len, cap, false) in cap'.

Definition mem_get (csid : N) (m : mem) : mentry :=
  match nget csid m with Some e => e | None => mk_me init_msg_len 0 end.   (* NewStream: nazabytes.NewBuffer(initMsgLen) *)

(* one iteration of RunLoop *)
Definition mem_chunk (rv : rvariant) (cst : cstate) (l : bytes) (m : mem) : mem :=
  match read_basic l with
  | Ok (fmt, csid, l1) =>
      let e0 := mem_get csid m in
      match read_msg_header fmt (get_or_new csid cst) l1 with
      | Ok (s1, l2) =>
          (* before the repair: stream.msg.Grow(MsgLen) when a type 0 / 1 header arrives *)
          let cap1 := if negb (rv_grow_received rv) && (fmt <=? 1)
                      then grow_cap (me_cap e0) (s_len s1) (h_len (s_hdr s1))
                      else me_cap e0 in
          match read_ext_ts fmt s1 l2 with
          | Ok (s2, l3) =>
              let len := s_len s2 in
              if rv_grow_received rv && (h_len (s_hdr s2) <? len) then nset csid (mk_me cap1 (me_got e0)) m
              else
                let need := needed_size rv (cs_chunk cst) s2 in
                let avail := avail_upto l3 need 0 in
                let cap2 := if rv_grow_received rv then pieces_cap (h_len (s_hdr s2)) need avail len cap1
                            else grow_cap cap1 len need in     (* ReserveBytes(neededSize) in one piece *)
                nset csid (mk_me cap2 (me_got e0 + avail)) m
          | _ => nset csid (mk_me cap1 (me_got e0)) m
          end
      | _ => nset csid e0 m
      end
  | _ => m
  end.

(* the chunk completed a message that is not an aggregate: its chunk stream id and the message *)
Definition completed_plain (cst' : cstate) (l : bytes) (out : list rmsg) : option (N * rmsg) :=
  match out, read_basic l with
  | [msg], Ok (_, csid, _) =>
      match get_stream csid (cs_streams cst') with
      | Some s => if h_type (s_hdr s) =? type_aggregate then None else Some (csid, msg)
      | None => None
      end
  | _, _ => None
  end.

(* stream.msg.ResetAndFree() after the callback of a plain message returned nil *)
Definition mem_done (cst' : cstate) (l : bytes) (out : list rmsg) (m : mem) : mem :=
  match completed_plain cst' l out with
  | Some (csid, _) => let e := mem_get csid m in nset csid (mk_me 0 (me_got e)) m
  | None => m
  end.

(* RunLoop's trace logging of a completed message:
   tmpMsg.IsVideoKeySeqHeader() || tmpMsg.IsAacSeqHeader() (aggregates: neither a video nor an audio message) *)
Definition trace_guard (fx : MediaMsgChecked.fixes) (trace : bool) (cst' : cstate) (l : bytes) (out : list rmsg) : res bool :=
  if trace then
    match completed_plain cst' l out with
    | Some (_, msg) =>
        let mm := MediaMsgChecked.mk_mmsg (h_type (m_hdr msg)) (h_ts (m_hdr msg)) (m_payload msg) in
        MediaMsgChecked.orr (MediaMsgChecked.is_video_key_seq_header fx mm) (MediaMsgChecked.is_aac_seq_header fx mm)
    | None => Ok false
    end
  else Ok false.

(* replies queued during the callbacks reach the peer once the session reads again *)
Definition commit (a : acc) : acc :=
  mk_acc (a_st a) (a_ev a) (a_awr a ++ a_wr a) [] (a_depth a).
(* ... and are not certain to when it closes instead *)
Definition discard (a : acc) : acc :=
  mk_acc (a_st a) (a_ev a) (a_wr a) [] (a_depth a).

Definition is_eof (e : N) : bool := (e =? err_eof) || (e =? err_unexpected_eof).

(* [total] = number of bytes of the whole connection input; ReadBytesSum after a
   chunk = total - what is left (only looked at once the peer sent a Window
   Acknowledgement Size) *)
Fixpoint sess_loop (fuel : nat) (total : N) (cst : cstate) (a : acc) (mm : mem) (l : bytes) : outcome * acc * mem :=
  match fuel with
  | O => (OFuel, a, mm)
  | S f =>
      let rv := sv_rv v in
      let mm1 := mem_chunk rv cst l mm in
      match compose_chunk rv cst l with
      | Next cst' out rest =>
          match trace_guard (sv_fx v) (e_trace env) cst' l out with
          | Panic s => (OPanic s, discard a, mm1)
          | _ =>
              let consumed := if ss_win (a_st a) =? 0 then 0 else total - lenN rest in
              match run_cbs consumed out a with
              | (Ok _, a') => sess_loop f total cst' (commit a') (mem_done cst' l out mm1) rest
              | (Err e, a') => (OClose e, discard a', mm1)
              | (Panic s, a') => (OPanic s, discard a', mm1)
              end
          end
      | Stop cst' out e =>
          let consumed := if ss_win (a_st a) =? 0 then 0
                          else match out with [] => 0 | _ => total - lenN (chunk_rest rv cst l) end in
          match run_cbs consumed out a with
          | (Ok _, a') => if is_eof e then (OContinue e, commit a', mm1) else (OClose e, discard a', mm1)
          | (Err e', a') => (OClose e', discard a', mm1)
          | (Panic s, a') => (OPanic s, discard a', mm1)
          end
      end
  end.

End Handlers.

(* ------------------------------------------------------------------------ *)
(* ServerSession.RunLoop over a finite input *)
Record sresult := mk_sres {
  r_out : outcome;
  r_hs : bytes;             (* S0S1S2 as written *)
  r_ev : list event;        (* observer calls, oldest first *)
  r_wr : list bytes;        (* replies after the handshake, oldest first *)
  r_depth : N;
  r_st : sstate;
  r_mem : mem               (* the composer's message buffers when the session stands still *)
}.

Section Session.
Variable hmac : bytes -> bytes -> bytes.
Variable v : svariant.
Variable env : senv.

Definition init_acc : acc := mk_acc (init_sstate_at (e_lastack0 env) (e_seq0 env)) [] [] [] 0.

Definition run_session (input : bytes) : sresult :=
  match run_handshake hmac (e_now env) (e_rnd env) input with
  | HsPanic s => mk_sres (OPanic s) [] [] [] 0 init_sstate []
  | HsShort w e => mk_sres (OContinue e) w [] [] 0 init_sstate []
  | HsDone simple w rest =>
      let '(o, a, mm) := sess_loop v env (S (length rest)) (lenN input) (init_cstate default_chunk_size) init_acc [] rest in
      mk_sres o w (rev (a_ev a)) (rev (a_wr a)) (a_depth a) (a_st a) mm
  end.

(* Server.handleTcpConnect: RunLoop, then the end of a pub / sub session is
   reported unless the observer itself refused the session.  None = the
   goroutine panicked inside RunLoop. *)
Definition handle_tcp_connect (input : bytes) : option (list event) :=
  let r := run_session input in
  match r_out r with
  | OPanic _ => None
  | _ =>
      Some (r_ev r ++
            (if ss_dbo (r_st r) then []
             else match ss_role (r_st r) with
                  | RPub => [EvDelPub]
                  | RSub => [EvDelSub]
                  | RUnknown => []
                  end))
  end.

End Session.

(* ------------------------------------------------------------------------ *)
(* What the upper layer may see from one connection (executable specification,
   independent of the handlers): any number of connect notifications, all before the
   session gets a role; at most
   one new-session call; media only after an accepted publish; the end of the
   session is reported exactly once and exactly when a new-session call was
   accepted before; nothing after the end or after a refusal. *)
Inductive astate := A0 | APub | ASub | ARej | ADone.
Definition astep (s : astate) (e : event) : option astate :=
  match s, e with
  | A0, EvConnect _ _ => Some A0
  | A0, EvNewPub _ _ _ _ _ true => Some APub
  | A0, EvNewPub _ _ _ _ _ false => Some ARej
  | A0, EvNewSub _ _ _ _ _ true => Some ASub
  | A0, EvNewSub _ _ _ _ _ false => Some ARej
  | APub, EvAv _ => Some APub
  | APub, EvDelPub => Some ADone
  | ASub, EvDelSub => Some ADone
  | _, _ => None
  end.
Fixpoint arun (s : astate) (l : list event) : option astate :=
  match l with
  | [] => Some s
  | e :: t => match astep s e with Some s' => arun s' t | None => None end
  end.
Definition shell_ok (l : list event) : bool :=
  match arun A0 l with
  | Some A0 | Some ARej | Some ADone => true
  | _ => false
  end.
