(* The server handshake never panics, whatever the peer sends, whatever HMAC
   returns and whatever the random filler is. *)
From Lal Require Import Common.LBytes Common.Res Common.LBytesRead Common.LBytesProofs Common.LBytesReadProofs
  Rtmp.RtmpHandshake.
From Coq Require Import Lia ZifyN ZifyNat ZifyBool.
Ltac Zify.zify_post_hook ::= Z.div_mod_to_equations.
Open Scope N_scope.

Lemma copy_into_length dst src : length (copy_into dst src) = length dst.
Proof.
  unfold copy_into. rewrite app_length, firstn_length, skipn_length. lia.
Qed.

Lemma copy_at_length dst off src : off <= lenN dst -> length (copy_at dst off src) = length dst.
Proof.
  unfold copy_at, lenN. intro H.
  rewrite app_length, copy_into_length, firstn_length, skipn_length. lia.
Qed.

Lemma zeros_length n : length (zeros n) = n.
Proof. apply repeat_length. Qed.

Lemma idx_chk_ok b i : i < lenN b -> exists x, idx_chk b i = Ok x.
Proof.
  unfold idx_chk, lenN. intro H.
  destruct (nth_error b (N.to_nat i)) as [x|] eqn:E; [eauto|].
  apply nth_error_None in E. lia.
Qed.

Lemma sub_chk_ok b off n : off + n <= lenN b -> exists r, sub_chk b off n = Ok r.
Proof. unfold sub_chk. intro H. apply N.leb_le in H. rewrite H. eauto. Qed.

Lemma from_chk_ok b off : off <= lenN b -> from_chk b off = Ok (skipn (N.to_nat off) b).
Proof. unfold from_chk. intro H. apply N.leb_le in H. now rewrite H. Qed.

Section HS.
Variable hmac : bytes -> bytes -> bytes.

Lemma digest_wo_center_ok b offs key :
  offs + 32 <= lenN b -> exists d, digest_wo_center hmac b offs key = Ok d.
Proof.
  intro H. unfold digest_wo_center, key_len.
  destruct (sub_chk_ok b 0 offs) as [l El]; [lia|]. rewrite El. cbn [bind].
  destruct (offs + 32 <? lenN b) eqn:E.
  - rewrite from_chk_ok by lia. cbn [bind]. eauto.
  - cbn [bind]. eauto.
Qed.

(* findDigest on a 1536-byte block: no panic, and an offset it returns leaves room for the digest *)
Lemma find_digest_ok b base key :
  lenN b = 1536 -> base + 4 + 727 + 32 <= 1536 ->
  find_digest hmac b base key = Ok None \/
  exists offs, find_digest hmac b base key = Ok (Some offs) /\ offs + 32 <= 1536.
Proof.
  intros Hb Hbase. unfold find_digest.
  destruct (idx_chk_ok b base) as [b0 E0]; [lia|]. rewrite E0. cbn [bind].
  destruct (idx_chk_ok b (base + 1)) as [b1 E1]; [lia|]. rewrite E1. cbn [bind].
  destruct (idx_chk_ok b (base + 2)) as [b2 E2]; [lia|]. rewrite E2. cbn [bind].
  destruct (idx_chk_ok b (base + 3)) as [b3 E3]; [lia|]. rewrite E3. cbn [bind].
  set (offs := (b0 + b1 + b2 + b3) mod 728 + base + 4).
  assert (Ho : offs + 32 <= 1536) by (subst offs; lia).
  destruct (digest_wo_center_ok b offs key) as [d Ed]; [lia|]. rewrite Ed. cbn [bind].
  destruct (sub_chk_ok b offs key_len) as [st Es]; [unfold key_len; lia|]. rewrite Es. cbn [bind].
  destruct (bytes_eqb _ _); [right; eauto|left; reflexivity].
Qed.

Lemma parse_challenge_ok b pk key :
  lenN b = 1537 -> exists r, parse_challenge hmac b pk key = Ok r.
Proof.
  intro Hb. unfold parse_challenge.
  rewrite from_chk_ok by lia. cbn [bind].
  assert (Hl5 : lenN (skipn (N.to_nat 5) b) = 1532)
    by (unfold lenN in *; rewrite skipn_length; lia).
  rewrite Hl5. change (1532 <? 4) with false. cbn [bind].
  destruct (_ =? 0); [eauto|].
  rewrite from_chk_ok by lia. cbn [bind].
  set (c1 := skipn (N.to_nat 1) b).
  assert (Hc1 : lenN c1 = 1536) by (subst c1; unfold lenN in *; rewrite skipn_length; lia).
  assert (Hfin : forall offs, offs + 32 <= 1536 ->
            exists r, (let* d := sub_chk b (1 + offs) key_len in Ok (Some (hmac key d))) = Ok r).
  { intros offs Ho. destruct (sub_chk_ok b (1 + offs) key_len) as [d Ed]; [unfold key_len; lia|].
    rewrite Ed. cbn [bind]. eauto. }
  destruct (find_digest_ok c1 772 pk Hc1) as [E|[offs [E Ho]]]; [lia| |]; rewrite E; cbn [bind].
  - destruct (find_digest_ok c1 8 pk Hc1) as [E2|[offs [E2 Ho]]]; [lia| |]; rewrite E2; cbn [bind].
    + eauto.
    + apply Hfin, Ho.
  - apply Hfin, Ho.
Qed.

Lemma server_s0s1s2_ok now rnd c0c1 :
  lenN c0c1 = 1537 -> exists r, server_s0s1s2 hmac now rnd c0c1 = Ok r.
Proof.
  intro Hb. unfold server_s0s1s2.
  destruct (parse_challenge_ok c0c1 client_part_key server_full_key Hb) as [s2key E]. rewrite E. cbn [bind].
  set (s1a := be_put 4 (u32 now) ++ zeros 4 ++ copy_into (zeros 1528) rnd).
  assert (Hs1a : lenN s1a = 1536).
  { subst s1a. unfold lenN. rewrite !app_length, be_put_length, zeros_length, copy_into_length, zeros_length. reflexivity. }
  match goal with |- exists r, (if ?c then _ else _) = _ => destruct c end.
  - rewrite from_chk_ok by lia. cbn [bind]. eauto.
  - set (s1b := copy_at s1a 4 server_version).
    assert (Hs1b : lenN s1b = 1536).
    { subst s1b. unfold lenN in *. rewrite copy_at_length; [lia|unfold lenN; lia]. }
    destruct (idx_chk_ok s1b 8) as [b0 E0]; [lia|]. rewrite E0. cbn [bind].
    destruct (idx_chk_ok s1b 9) as [b1 E1]; [lia|]. rewrite E1. cbn [bind].
    destruct (idx_chk_ok s1b 10) as [b2 E2]; [lia|]. rewrite E2. cbn [bind].
    destruct (idx_chk_ok s1b 11) as [b3 E3]; [lia|]. rewrite E3. cbn [bind].
    set (offs := (b0 + b1 + b2 + b3) mod 728 + 12).
    assert (Ho : offs + 32 <= 1536) by (subst offs; lia).
    destruct (digest_wo_center_ok s1b offs server_part_key) as [d1 Ed1]; [lia|]. rewrite Ed1. cbn [bind].
    rewrite from_chk_ok by lia. cbn [bind].
    set (s2a := copy_into (zeros 1536) rnd).
    assert (Hs2a : lenN s2a = 1536)
      by (subst s2a; unfold lenN; rewrite copy_into_length, zeros_length; reflexivity).
    destruct (digest_wo_center_ok s2a 1504 (match s2key with Some k => k | None => [] end)) as [d2 Ed2]; [lia|].
    rewrite Ed2. cbn [bind].
    rewrite from_chk_ok by lia. cbn [bind]. eauto.
Qed.

Theorem run_handshake_no_panic now rnd input :
  forall s, run_handshake hmac now rnd input <> HsPanic s.
Proof.
  intro s. unfold run_handshake.
  destruct (takeN input c0c1_len) as [[c0c1 r1]|] eqn:E; [|discriminate].
  apply takeN_some in E. destruct E as [_ Hl].
  destruct (server_s0s1s2_ok now rnd c0c1 Hl) as [[simple out] Es]. rewrite Es.
  destruct (takeN r1 c2_len) as [[c2 r2]|]; discriminate.
Qed.

(* what is left for the chunk reader is a suffix of the input *)
Lemma run_handshake_rest now rnd input simple w rest :
  run_handshake hmac now rnd input = HsDone simple w rest -> (length rest <= length input)%nat.
Proof.
  unfold run_handshake.
  destruct (takeN input c0c1_len) as [[c0c1 r1]|] eqn:E; [|discriminate].
  apply takeN_length in E.
  destruct (server_s0s1s2 hmac now rnd c0c1) as [[sm out]|e|e]; try discriminate.
  destruct (takeN r1 c2_len) as [[c2 r2]|] eqn:E2; [|discriminate].
  apply takeN_length in E2. intro H; inversion H; subst. lia.
Qed.

End HS.
