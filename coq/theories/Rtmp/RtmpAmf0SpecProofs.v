(* lal's readers on every AMF0 value tree as the AMF0 specification encodes
   it (reference encoder [enc]), any nesting up to the limit. *)
From Lal Require Import Common.LBytes Common.Res Common.LBytesProofs Rtmp.RtmpAmf0 Rtmp.RtmpAmf0Proofs.
From Coq Require Import Lia ZifyN ZifyNat ZifyBool.
Ltac Zify.zify_post_hook ::= Z.div_mod_to_equations.
Open Scope N_scope.

(* the nested fixpoints of the model, named *)
Definition enc_kvs := fix go (l : list (bytes * sval)) : bytes :=
  match l with [] => [] | (k, x) :: t => be_put 2 (lenN k) ++ k ++ enc x ++ go t end.
Definition enc_pairs := fix go (l : list (bytes * sval)) : bytes :=
  match l with [] => [0; 0; 9] | (k, x) :: t => be_put 2 (lenN k) ++ k ++ enc x ++ go t end.
Definition enc_list := fix go (l : list sval) : bytes :=
  match l with [] => [] | x :: t => enc x ++ go t end.
Definition interp_pairs := fix go (l : list (bytes * sval)) : plist :=
  match l with [] => [] | (k, x) :: t => push_pair k (interp x) (go t) end.
Definition interp_list := fix go (l : list sval) : plist :=
  match l with [] => [] | x :: t => push_pair [] (interp x) (go t) end.
Definition depth_pairs := fix go (l : list (bytes * sval)) : N :=
  match l with [] => 0 | (_, x) :: t => N.max (sdepth x) (go t) end.
Definition depth_list := fix go (l : list sval) : N :=
  match l with [] => 0 | x :: t => N.max (sdepth x) (go t) end.
Definition wf_pairs := fix go (l : list (bytes * sval)) : bool :=
  match l with [] => true | (k, x) :: t => (lenN k <? 65536) && swf x && go t end.
Definition wf_list := fix go (l : list sval) : bool :=
  match l with [] => true | x :: t => swf x && go t end.

Lemma enc_obj l : enc (SObj l) = 3 :: enc_pairs l. Proof. reflexivity. Qed.
Lemma enc_ecma l : enc (SEcma l) = 8 :: be_put 4 (lenN l) ++ enc_pairs l. Proof. reflexivity. Qed.
Lemma enc_strict l : enc (SStrict l) = 10 :: be_put 4 (lenN l) ++ enc_list l. Proof. reflexivity. Qed.
Lemma interp_obj l : interp (SObj l) = Some (APairs (interp_pairs l)). Proof. reflexivity. Qed.
Lemma interp_ecma l : interp (SEcma l) = Some (APairs (interp_pairs l)). Proof. reflexivity. Qed.
Lemma interp_strict l : interp (SStrict l) = Some (APairs (interp_list l)). Proof. reflexivity. Qed.
Lemma sdepth_obj l : sdepth (SObj l) = 1 + depth_pairs l. Proof. reflexivity. Qed.
Lemma sdepth_ecma l : sdepth (SEcma l) = 1 + depth_pairs l. Proof. reflexivity. Qed.
Lemma sdepth_strict l : sdepth (SStrict l) = 1 + depth_list l. Proof. reflexivity. Qed.
Lemma swf_obj l : swf (SObj l) = (lenN l <? 4294967296) && wf_pairs l. Proof. reflexivity. Qed.
Lemma swf_ecma l : swf (SEcma l) = (lenN l <? 4294967296) && wf_pairs l. Proof. reflexivity. Qed.
Lemma swf_strict l : swf (SStrict l) = (lenN l <? 4294967296) && wf_list l. Proof. reflexivity. Qed.

Lemma enc_pairs_kvs l : enc_pairs l = enc_kvs l ++ [0; 0; 9].
Proof.
  induction l as [|[k x] t IH]; [reflexivity|].
  change (enc_pairs ((k, x) :: t)) with (be_put 2 (lenN k) ++ k ++ enc x ++ enc_pairs t).
  change (enc_kvs ((k, x) :: t)) with (be_put 2 (lenN k) ++ k ++ enc x ++ enc_kvs t).
  rewrite IH, <- !app_assoc. reflexivity.
Qed.

(* induction principle through the nested lists *)
Lemma sval_ind' (P : sval -> Prop) :
  (forall n, P (SNum n)) -> (forall b, P (SBool b)) -> (forall s, P (SStr s)) ->
  (forall l, Forall (fun kv => P (snd kv)) l -> P (SObj l)) ->
  P SNull -> P SUndef ->
  (forall l, Forall (fun kv => P (snd kv)) l -> P (SEcma l)) ->
  (forall l, Forall P l -> P (SStrict l)) ->
  P SUnsupported ->
  forall v, P v.
Proof.
  intros Hn Hb Hs Ho Hnull Hundef He Ha Hu.
  fix IH 1. intro v. destruct v as [n|b|s|l| | |l|l| ].
  - apply Hn. - apply Hb. - apply Hs.
  - apply Ho. induction l as [|[k x] t IHl]; constructor; [apply IH|exact IHl].
  - exact Hnull. - exact Hundef.
  - apply He. induction l as [|[k x] t IHl]; constructor; [apply IH|exact IHl].
  - apply Ha. induction l as [|x t IHl]; constructor; [apply IH|exact IHl].
  - exact Hu.
Qed.

(* every encoded value starts with a marker that is not the object-end marker *)
Lemma enc_head v : exists y t, enc v = y :: t /\ y <> 9.
Proof.
  destruct v as [n|b|s|l| | |l|l| ]; cbn [enc]; try (eexists _, _; split; [reflexivity|discriminate]).
  destruct (lenN s <? 65536); eexists _, _; (split; [reflexivity|discriminate]).
Qed.

Lemma is_end_key_gen k y rest :
  lenN k < 65536 -> y <> 9 -> is_end (be_put 2 (lenN k) ++ k ++ y :: rest) = false.
Proof.
  intros H Hy. cbn [be_put app]. change (256 ^ N.of_nat 1) with 256. change (256 ^ N.of_nat 0) with 1.
  rewrite N.div_1_r.
  destruct k as [|x k].
  - change (lenN []) with 0. cbn [app]. change (0 / 256 mod 256) with 0. change (0 mod 256) with 0.
    cbn [is_end]. destruct y as [|p]; [reflexivity|].
    do 4 (destruct p as [p|p|]; try reflexivity). contradiction.
  - rewrite lenN_cons in *. set (n := 1 + lenN k) in *.
    assert (Hn : 0 < n) by lia.
    destruct (N.eq_dec (n / 256 mod 256) 0) as [E1|E1].
    + rewrite E1. destruct (N.eq_dec (n mod 256) 0) as [E2|E2].
      * exfalso. lia.
      * cbn [is_end]. destruct (n mod 256) eqn:E; [contradiction|reflexivity].
    + cbn [is_end]. destruct (n / 256 mod 256) eqn:E; [contradiction|reflexivity].
Qed.

Section Tree.
Variables (cfg : amf_cfg) (m : N).
Hypothesis Hlim : cfg_limit cfg = Some m.
Hypothesis Hlong : cfg_long_in_container cfg = true.

Definition elem_f (f : nat) :=
  elem_body cfg (object_body cfg (obj_loop f cfg)) (array_body cfg (arr_loop f cfg))
            (strict_body cfg (strict_loop f cfg)).

(* the statement proved by induction on the value *)
Definition elem_rt (v : sval) : Prop :=
  forall f d rest,
    (length (enc v ++ rest) <= f)%nat -> swf v = true -> d + sdepth v <= m ->
    fst (elem_f f d (enc v ++ rest)) = Ok (interp v, lenN (enc v), rest).

Lemma obj_loop_rt l : Forall (fun kv => elem_rt (snd kv)) l ->
  forall f d rest,
    (length (enc_kvs l ++ end_marker ++ rest) < f)%nat -> wf_pairs l = true -> d + depth_pairs l <= m ->
    fst (obj_loop f cfg d (enc_kvs l ++ end_marker ++ rest))
    = Ok (interp_pairs l, lenN (enc_kvs l) + 3, rest).
Proof.
  induction 1 as [|[k x] t Hx Ht IH]; intros f d rest Hf Hw Hd.
  - destruct f as [|f]; [lia|]. reflexivity.
  - destruct f as [|f]; [lia|].
    change (wf_pairs ((k, x) :: t)) with ((lenN k <? 65536) && swf x && wf_pairs t) in Hw.
    apply andb_true_iff in Hw. destruct Hw as [Hw Hwt]. apply andb_true_iff in Hw. destruct Hw as [Hk Hwx].
    apply N.ltb_lt in Hk.
    change (depth_pairs ((k, x) :: t)) with (N.max (sdepth x) (depth_pairs t)) in Hd.
    change (enc_kvs ((k, x) :: t)) with (be_put 2 (lenN k) ++ k ++ enc x ++ enc_kvs t) in *.
    cbn [snd] in Hx. cbn [obj_loop].
    rewrite <- !app_assoc in *.
    destruct (enc_head x) as [y [tl [Ey Hy]]].
    assert (IE : is_end (be_put 2 (lenN k) ++ k ++ enc x ++ enc_kvs t ++ end_marker ++ rest) = false)
      by (rewrite Ey; cbn [app]; apply is_end_key_gen; assumption).
    rewrite IE.
    rewrite read_string_wo_key by exact Hk. rewrite dbind_lift_ok.
    rewrite dbind_fst.
    assert (L : (length (enc x ++ enc_kvs t ++ end_marker ++ rest) + 2 <= length (be_put 2 (lenN k) ++ k ++ enc x ++ enc_kvs t ++ end_marker ++ rest))%nat)
      by (rewrite (app_length (be_put 2 (lenN k))), be_put_length, (app_length k); lia).
    fold (elem_f f). rewrite (Hx f d (enc_kvs t ++ end_marker ++ rest)); [|lia|exact Hwx|lia].
    rewrite dbind_fst.
    assert (L2 : (length (enc_kvs t ++ end_marker ++ rest) <= length (enc x ++ enc_kvs t ++ end_marker ++ rest))%nat)
      by (rewrite (app_length (enc x)); lia).
    rewrite (IH f d rest); [|lia|exact Hwt|lia].
    cbn [dret fst]. change (interp_pairs ((k, x) :: t)) with (push_pair k (interp x) (interp_pairs t)).
    f_equal. f_equal. f_equal. rewrite !lenN_app, lenN_be_put. lia.
Qed.

Lemma arr_loop_rt l : Forall (fun kv => elem_rt (snd kv)) l ->
  forall f d rest,
    (length (enc_kvs l ++ rest) < f)%nat -> wf_pairs l = true -> d + depth_pairs l <= m ->
    fst (arr_loop f cfg d (lenN l) (enc_kvs l ++ rest)) = Ok (interp_pairs l, lenN (enc_kvs l), rest).
Proof.
  induction 1 as [|[k x] t Hx Ht IH]; intros f d rest Hf Hw Hd.
  - destruct f as [|f]; [lia|]. reflexivity.
  - destruct f as [|f]; [lia|].
    change (wf_pairs ((k, x) :: t)) with ((lenN k <? 65536) && swf x && wf_pairs t) in Hw.
    apply andb_true_iff in Hw. destruct Hw as [Hw Hwt]. apply andb_true_iff in Hw. destruct Hw as [Hk Hwx].
    apply N.ltb_lt in Hk.
    change (depth_pairs ((k, x) :: t)) with (N.max (sdepth x) (depth_pairs t)) in Hd.
    change (enc_kvs ((k, x) :: t)) with (be_put 2 (lenN k) ++ k ++ enc x ++ enc_kvs t) in *.
    cbn [snd] in Hx. cbn [arr_loop].
    rewrite lenN_cons. destruct (N.eqb_spec (1 + lenN t) 0) as [E0|_]; [lia|].
    replace (N.pred (1 + lenN t)) with (lenN t) by lia.
    rewrite <- !app_assoc in *.
    rewrite read_string_wo_key by exact Hk. rewrite dbind_lift_ok.
    rewrite dbind_fst.
    assert (L : (length (enc x ++ enc_kvs t ++ rest) + 2 <= length (be_put 2 (lenN k) ++ k ++ enc x ++ enc_kvs t ++ rest))%nat)
      by (rewrite (app_length (be_put 2 (lenN k))), be_put_length, (app_length k); lia).
    fold (elem_f f). rewrite (Hx f d (enc_kvs t ++ rest)); [|lia|exact Hwx|lia].
    rewrite dbind_fst.
    assert (L2 : (length (enc_kvs t ++ rest) <= length (enc x ++ enc_kvs t ++ rest))%nat)
      by (rewrite (app_length (enc x)); lia).
    rewrite (IH f d rest); [|lia|exact Hwt|lia].
    cbn [dret fst]. change (interp_pairs ((k, x) :: t)) with (push_pair k (interp x) (interp_pairs t)).
    f_equal. f_equal. f_equal. rewrite !lenN_app, lenN_be_put. lia.
Qed.

Lemma enc_nonempty x : (1 <= length (enc x))%nat.
Proof. destruct (enc_head x) as [y [t [E _]]]. rewrite E. cbn [length]. lia. Qed.

Lemma strict_loop_rt l : Forall elem_rt l ->
  forall f d rest,
    (length (enc_list l ++ rest) < f)%nat -> wf_list l = true -> d + depth_list l <= m ->
    fst (strict_loop f cfg d (lenN l) (enc_list l ++ rest)) = Ok (interp_list l, lenN (enc_list l), rest).
Proof.
  induction 1 as [|x t Hx Ht IH]; intros f d rest Hf Hw Hd.
  - destruct f as [|f]; [lia|]. reflexivity.
  - destruct f as [|f]; [lia|].
    change (wf_list (x :: t)) with (swf x && wf_list t) in Hw.
    apply andb_true_iff in Hw. destruct Hw as [Hwx Hwt].
    change (depth_list (x :: t)) with (N.max (sdepth x) (depth_list t)) in Hd.
    change (enc_list (x :: t)) with (enc x ++ enc_list t) in *.
    cbn [strict_loop].
    rewrite lenN_cons. destruct (N.eqb_spec (1 + lenN t) 0) as [E0|_]; [lia|].
    replace (N.pred (1 + lenN t)) with (lenN t) by lia.
    rewrite <- !app_assoc in *.
    rewrite dbind_fst. fold (elem_f f).
    assert (EL : fst (elem_f f d (enc x ++ enc_list t ++ rest)) = Ok (interp x, lenN (enc x), enc_list t ++ rest))
      by (apply Hx; [lia|exact Hwx|lia]).
    pose proof (enc_nonempty x) as Lx.
    rewrite EL. rewrite dbind_fst.
    assert (L2 : (length (enc_list t ++ rest) < length (enc x ++ enc_list t ++ rest))%nat)
      by (rewrite (app_length (enc x)); lia).
    rewrite (IH f d rest); [|lia|exact Hwt|lia].
    cbn [dret fst]. change (interp_list (x :: t)) with (push_pair [] (interp x) (interp_list t)).
    f_equal. f_equal. f_equal. rewrite !lenN_app. lia.
Qed.

Lemma too_deep_false d : d <= m -> too_deep cfg d = false.
Proof. intro H. unfold too_deep. rewrite Hlim. apply N.ltb_ge. exact H. Qed.

Lemma elem_rt_scalar (w : wval) (v : sval) :
  enc v = write_wval w -> interp v = Some (aval_of_wval w) -> (swf v = true -> wval_ok cfg w) -> elem_rt v.
Proof.
  intros He Hi Hw f d rest _ Hwf _. unfold elem_f. rewrite He, Hi.
  rewrite elem_body_wval by (apply Hw, Hwf). reflexivity.
Qed.

Lemma elem_rt_all : forall v, elem_rt v.
Proof.
  apply sval_ind'.
  - intro n. apply (elem_rt_scalar (WNum n)); [reflexivity|reflexivity|].
    cbn [swf wval_ok]. intro H. now apply N.ltb_lt.
  - intro b. apply (elem_rt_scalar (WBool b)); [reflexivity|reflexivity|]. intros _. exact I.
  - intro s. apply (elem_rt_scalar (WStr s)); [reflexivity|reflexivity|].
    cbn [swf wval_ok]. intro H. split; [now apply N.ltb_lt|now left].
  - (* object *)
    intros l Hl f d rest Hf Hw Hd.
    rewrite swf_obj in Hw. apply andb_true_iff in Hw. destruct Hw as [_ Hw].
    rewrite sdepth_obj in Hd. rewrite enc_obj, interp_obj in *. cbn [app] in *.
    unfold elem_f. rewrite elem_body_cons. cbv zeta.
    change (3 =? 0) with false. change (3 =? 1) with false. change (3 =? 2) with false.
    change (3 =? 12) with false. change (3 =? 5) with false. change (3 =? 3) with true.
    rewrite andb_false_r. cbn [orb]. cbv iota.
    rewrite (dbind_fst_map _ (fun ops => Some (APairs ops))).
    unfold object_body. rewrite too_deep_false by lia.
    unfold denter. cbn [fst len_ltb byte0]. rewrite dbind_lift_ok.
    change (negb (3 =? 3)) with false. cbv iota. rewrite skipn_cons, skipn_O.
    rewrite dbind_fst. rewrite enc_pairs_kvs, <- app_assoc in *.
    rewrite (obj_loop_rt l Hl); [|unfold end_marker; cbn [length] in Hf; lia|exact Hw|lia]. unfold end_marker.
    cbn [dret fst bind]. f_equal. f_equal. f_equal.
    rewrite lenN_cons, lenN_app. change (lenN [0; 0; 9]) with 3. lia.
  - intros f d rest _ _ _. unfold elem_f. cbn [enc app]. rewrite elem_body_cons. cbv zeta.
    change (5 =? 0) with false. change (5 =? 1) with false. change (5 =? 2) with false.
    change (5 =? 12) with false. change (5 =? 5) with true.
    rewrite andb_false_r. reflexivity.
  - intros f d rest _ _ _. unfold elem_f. cbn [enc app]. rewrite elem_body_cons. cbv zeta.
    change (6 =? 0) with false. change (6 =? 1) with false. change (6 =? 2) with false.
    change (6 =? 12) with false. change (6 =? 5) with false. change (6 =? 3) with false.
    change (6 =? 8) with false. change (6 =? 10) with false. change (6 =? 6) with true.
    rewrite andb_false_r. reflexivity.
  - (* ECMA array *)
    intros l Hl f d rest Hf Hw Hd.
    rewrite swf_ecma in Hw. apply andb_true_iff in Hw. destruct Hw as [Hc Hw]. apply N.ltb_lt in Hc.
    rewrite sdepth_ecma in Hd. rewrite enc_ecma, interp_ecma in *. cbn [app] in *. rewrite <- app_assoc in *.
    unfold elem_f. rewrite elem_body_cons. cbv zeta.
    change (8 =? 0) with false. change (8 =? 1) with false. change (8 =? 2) with false.
    change (8 =? 12) with false. change (8 =? 5) with false. change (8 =? 3) with false. change (8 =? 8) with true.
    rewrite andb_false_r. cbn [orb]. cbv iota.
    rewrite (dbind_fst_map _ (fun ops => Some (APairs ops))).
    unfold array_body. rewrite too_deep_false by lia.
    assert (L4 : length (be_put 4 (lenN l)) = 4%nat) by apply be_put_length.
    unfold denter. cbn [fst]. rewrite len_ltb_false by (cbn [length]; rewrite app_length; lia).
    cbn [byte0]. rewrite dbind_lift_ok. change (negb (8 =? 8)) with false. cbv iota.
    rewrite skipn_cons, skipn_O. rewrite be_chk_ok by (rewrite app_length; lia).
    rewrite firstn_app_exact by (symmetry; exact L4).
    rewrite be_get_put_small by exact Hc. rewrite dbind_lift_ok.
    change (skipn 5 (8 :: be_put 4 (lenN l) ++ enc_pairs l ++ rest)) with (skipn 4 (be_put 4 (lenN l) ++ enc_pairs l ++ rest)).
    rewrite skipn_app_exact by (symmetry; exact L4).
    rewrite dbind_fst. rewrite enc_pairs_kvs, <- app_assoc in *.
    rewrite (arr_loop_rt l Hl); [|unfold end_marker; cbn [length] in Hf; rewrite app_length in Hf; lia|exact Hw|lia]. unfold end_marker.
    change (is_end ([0; 0; 9] ++ rest)) with true. cbv iota. cbn [dret fst bind].
    change (skipn 3 ([0; 0; 9] ++ rest)) with rest.
    f_equal. f_equal. f_equal.
    rewrite lenN_cons, !lenN_app, lenN_be_put. change (lenN [0; 0; 9]) with 3. lia.
  - (* strict array *)
    intros l Hl f d rest Hf Hw Hd.
    rewrite swf_strict in Hw. apply andb_true_iff in Hw. destruct Hw as [Hc Hw]. apply N.ltb_lt in Hc.
    rewrite sdepth_strict in Hd. rewrite enc_strict, interp_strict in *. cbn [app] in *. rewrite <- app_assoc in *.
    unfold elem_f. rewrite elem_body_cons. cbv zeta.
    change (10 =? 0) with false. change (10 =? 1) with false. change (10 =? 2) with false.
    change (10 =? 12) with false. change (10 =? 5) with false. change (10 =? 3) with false.
    change (10 =? 8) with false. change (10 =? 10) with true.
    rewrite andb_false_r. cbn [orb]. cbv iota.
    rewrite (dbind_fst_map _ (fun ops => Some (APairs ops))).
    unfold strict_body. rewrite too_deep_false by lia.
    assert (L4 : length (be_put 4 (lenN l)) = 4%nat) by apply be_put_length.
    unfold denter. cbn [fst]. rewrite len_ltb_false by (cbn [length]; rewrite app_length; lia).
    cbn [byte0]. rewrite dbind_lift_ok. change (negb (10 =? 10)) with false. cbv iota.
    rewrite skipn_cons, skipn_O. rewrite be_chk_ok by (rewrite app_length; lia).
    rewrite firstn_app_exact by (symmetry; exact L4).
    rewrite be_get_put_small by exact Hc. rewrite dbind_lift_ok.
    change (skipn 5 (10 :: be_put 4 (lenN l) ++ enc_list l ++ rest)) with (skipn 4 (be_put 4 (lenN l) ++ enc_list l ++ rest)).
    rewrite skipn_app_exact by (symmetry; exact L4).
    rewrite dbind_fst.
    rewrite (strict_loop_rt l Hl); [|cbn [length] in Hf; rewrite app_length in Hf; lia|exact Hw|lia].
    cbn [dret fst bind].
    f_equal. f_equal. f_equal.
    rewrite lenN_cons, !lenN_app, lenN_be_put. lia.
  - intros f d rest _ _ _. unfold elem_f. cbn [enc app]. rewrite elem_body_cons. cbv zeta.
    change (13 =? 0) with false. change (13 =? 1) with false. change (13 =? 2) with false.
    change (13 =? 12) with false. change (13 =? 5) with false. change (13 =? 3) with false.
    change (13 =? 8) with false. change (13 =? 10) with false. change (13 =? 6) with false. change (13 =? 13) with true.
    rewrite andb_false_r. reflexivity.
Qed.

Lemma bind_some_inv {X} (R : res (X * N * bytes)) (g : X -> option aval) P L rest :
  (forall x y, g x = g y -> x = y) ->
  (let* (x, l, r) := R in Ok (g x, l, r)) = Ok (g P, L, rest) -> R = Ok (P, L, rest).
Proof.
  intros Hinj H. destruct R as [[[x l] r]|e|s]; cbn [bind] in H; try discriminate.
  inversion H as [[H1 H2 H3]]. apply Hinj in H1. now subst.
Qed.

Lemma some_pairs_inj (x y : plist) : Some (APairs x) = Some (APairs y) -> x = y.
Proof. intro H. now inversion H. Qed.

(* the exported container readers on spec-encoded containers *)
Lemma read_object_enc l rest :
  swf (SObj l) = true -> sdepth (SObj l) <= m ->
  fst (read_object cfg (enc (SObj l) ++ rest)) = Ok (interp_pairs l, lenN (enc (SObj l)), rest).
Proof.
  intros Hw Hd.
  pose proof (elem_rt_all (SObj l) (fuel_for (enc (SObj l) ++ rest)) 0 rest) as E.
  specialize (E ltac:(unfold fuel_for; lia) Hw ltac:(lia)).
  unfold elem_f in E. rewrite enc_obj in *. cbn [app] in *. rewrite elem_body_cons in E. cbv zeta in E.
  change (3 =? 0) with false in E. change (3 =? 1) with false in E. change (3 =? 2) with false in E.
  change (3 =? 12) with false in E. change (3 =? 5) with false in E. change (3 =? 3) with true in E.
  rewrite andb_false_r in E. cbn [orb] in E. cbv iota in E.
  rewrite (dbind_fst_map _ (fun ops => Some (APairs ops))) in E. rewrite interp_obj in E.
  apply (bind_some_inv _ (fun ops => Some (APairs ops))) in E; [exact E|apply some_pairs_inj].
Qed.

Lemma read_array_enc l rest :
  swf (SEcma l) = true -> sdepth (SEcma l) <= m ->
  fst (read_array cfg (enc (SEcma l) ++ rest)) = Ok (interp_pairs l, lenN (enc (SEcma l)), rest).
Proof.
  intros Hw Hd.
  pose proof (elem_rt_all (SEcma l) (fuel_for (enc (SEcma l) ++ rest)) 0 rest) as E.
  specialize (E ltac:(unfold fuel_for; lia) Hw ltac:(lia)).
  unfold elem_f in E. rewrite enc_ecma in *. cbn [app] in *. rewrite elem_body_cons in E. cbv zeta in E.
  change (8 =? 0) with false in E. change (8 =? 1) with false in E. change (8 =? 2) with false in E.
  change (8 =? 12) with false in E. change (8 =? 5) with false in E. change (8 =? 3) with false in E.
  change (8 =? 8) with true in E.
  rewrite andb_false_r in E. cbn [orb] in E. cbv iota in E.
  rewrite (dbind_fst_map _ (fun ops => Some (APairs ops))) in E. rewrite interp_ecma in E.
  apply (bind_some_inv _ (fun ops => Some (APairs ops))) in E; [exact E|apply some_pairs_inj].
Qed.

Lemma read_strict_array_enc l rest :
  swf (SStrict l) = true -> sdepth (SStrict l) <= m ->
  fst (read_strict_array cfg (enc (SStrict l) ++ rest)) = Ok (interp_list l, lenN (enc (SStrict l)), rest).
Proof.
  intros Hw Hd.
  pose proof (elem_rt_all (SStrict l) (fuel_for (enc (SStrict l) ++ rest)) 0 rest) as E.
  specialize (E ltac:(unfold fuel_for; lia) Hw ltac:(lia)).
  unfold elem_f in E. rewrite enc_strict in *. cbn [app] in *. rewrite elem_body_cons in E. cbv zeta in E.
  change (10 =? 0) with false in E. change (10 =? 1) with false in E. change (10 =? 2) with false in E.
  change (10 =? 12) with false in E. change (10 =? 5) with false in E. change (10 =? 3) with false in E.
  change (10 =? 8) with false in E. change (10 =? 10) with true in E.
  rewrite andb_false_r in E. cbn [orb] in E. cbv iota in E.
  rewrite (dbind_fst_map _ (fun ops => Some (APairs ops))) in E. rewrite interp_strict in E.
  apply (bind_some_inv _ (fun ops => Some (APairs ops))) in E; [exact E|apply some_pairs_inj].
Qed.
End Tree.
