(* lal's chunk divider (writer) against lal's chunk composer and against the
   reference reader, for an arbitrary reader state. *)
From Lal Require Import Common.LBytes Common.Res Common.LBytesRead Common.NAssoc
  Common.LBytesProofs Common.LBytesReadProofs Common.NAssocProofs
  Rtmp.RtmpChunk Rtmp.RtmpComposer Rtmp.RtmpComposerProofs Rtmp.RtmpChunkSpec Rtmp.RtmpChunkSpecProofs
  Rtmp.RtmpLegalProofs.
From Coq Require Import Lia ZifyN ZifyNat ZifyBool.
Ltac Zify.zify_post_hook ::= Z.div_mod_to_equations.
Open Scope N_scope.

Definition hdr_ok (h : rtmp_header) : Prop :=
  2 <= h_csid h <= 65599 /\ h_len h < 16777216 /\ h_type h < 256 /\
  h_msid h < 4294967296 /\ h_ts h < 4294967296.

(* the message a header and a payload denote *)
Definition msg_of (h : rtmp_header) (p : bytes) : smsg :=
  mk_smsg (h_csid h) (h_type h) (h_msid h) (h_ts h) p.

(* ------------------------------------------------------------------ encodings agree *)
Lemma be_put_3 v : v < 16777216 -> be_put 3 v = put24 v.
Proof.
  intro H. unfold put24. cbn [be_put].
  change (256 ^ N.of_nat 2) with 65536. change (256 ^ N.of_nat 1) with 256. change (256 ^ N.of_nat 0) with 1.
  f_equal; [lia|]. f_equal. f_equal. lia.
Qed.
Lemma be_put_4 v : v < 4294967296 -> be_put 4 v = put32 v.
Proof.
  intro H. unfold put32. cbn [be_put].
  change (256 ^ N.of_nat 3) with 16777216.
  change (256 ^ N.of_nat 2) with 65536. change (256 ^ N.of_nat 1) with 256. change (256 ^ N.of_nat 0) with 1.
  f_equal; [lia|]. f_equal. f_equal. f_equal. lia.
Qed.
Lemma le_put_4 v : v < 4294967296 -> le_put 4 v = put32le v.
Proof.
  intro H. unfold put32le. cbn [le_put].
  repeat (f_equal; try lia).
Qed.

Lemma basic_header_enc fmt csid : 2 <= csid <= 65599 -> enc_basic fmt csid false = Some (basic_header fmt csid).
Proof.
  intro H. unfold enc_basic, basic_header, u8.
  destruct ((2 <=? csid) && (csid <=? 63)) eqn:E1; [reflexivity|].
  destruct ((64 <=? csid) && (csid <=? 319)) eqn:E2.
  { cbn [negb andb]. f_equal. f_equal. f_equal. lia. }
  cbn [andb].
  assert ((64 <=? csid) && (csid <=? 65599) = true) as -> by lia.
  assert (csid <? 64 = false) as -> by lia.
  f_equal. f_equal. f_equal. f_equal. lia.
Qed.

(* first chunk header (prev = nil): type 0 *)
Lemma calc_header_first h :
  hdr_ok h ->
  calc_header wv_fixed h None =
    basic_header 0 (h_csid h)
    ++ put24 (if ts_escape <=? h_ts h then ts_escape else h_ts h) ++ put24 (h_len h) ++ [h_type h]
    ++ put32le (h_msid h) ++ (if ts_escape <=? h_ts h then put32 (h_ts h) else []).
Proof.
  intros (Hc & Hl & Ht & Hm & Hts).
  unfold calc_header, calc_fmt_ts, w_ext. cbn [wv_ext_ge wv_fixed N.leb N.eqb N.compare].
  change max_ts with ts_escape.
  rewrite (be_put_3 (h_len h)) by exact Hl. rewrite le_put_4 by exact Hm.
  assert (u8 (h_type h) = h_type h) as -> by (unfold u8; lia).
  destruct (ts_escape <=? h_ts h) eqn:E.
  - rewrite be_put_4 by exact Hts.
    assert ((if ts_escape <? h_ts h then ts_escape else h_ts h) = ts_escape) as ->.
    { destruct (ts_escape <? h_ts h) eqn:E2; [reflexivity|]. apply N.leb_le in E. apply N.ltb_ge in E2. lia. }
    rewrite be_put_3 by (unfold ts_escape; lia).
    rewrite <- !app_assoc. reflexivity.
  - apply N.leb_gt in E.
    assert (ts_escape <? h_ts h = false) as -> by (apply N.ltb_ge; lia).
    rewrite be_put_3 by (unfold ts_escape in E; lia).
    rewrite <- !app_assoc. reflexivity.
Qed.

(* following chunk headers (prev = the same header): type 3, the absolute
   timestamp repeated in the 4-byte field when it is >= 0xFFFFFF *)
Lemma calc_header_cont h :
  hdr_ok h ->
  calc_header wv_fixed h (Some h) =
    basic_header 3 (h_csid h) ++ (if ts_escape <=? h_ts h then put32 (h_ts h) else []).
Proof.
  intros (Hc & Hl & Ht & Hm & Hts).
  unfold calc_header, calc_fmt_ts, w_ext. cbn [wv_ext_ge wv_fixed].
  rewrite !N.eqb_refl. cbn [andb]. change max_ts with ts_escape.
  destruct (ts_escape <=? h_ts h) eqn:E.
  - cbn [N.leb N.compare Pos.compare Pos.compare_cont]. rewrite E.
    rewrite be_put_4 by exact Hts. reflexivity.
  - assert (u32 (h_ts h + 4294967296 - h_ts h) = 0) as -> by (unfold u32; lia).
    cbn [N.leb N.compare Pos.compare Pos.compare_cont]. unfold ts_escape. cbn [N.leb N.compare]. reflexivity.
Qed.

(* ------------------------------------------------------------------ pieces *)
Lemma enc_cut_firstn chunk p :
  enc_cut chunk p = (firstn (N.to_nat chunk) p, skipn (N.to_nat chunk) p).
Proof.
  unfold enc_cut. rewrite takeN_firstn_skipn by lia.
  destruct (N.le_gt_cases chunk (lenN p)) as [H|H].
  - rewrite N.min_l by exact H. reflexivity.
  - rewrite N.min_r by lia. unfold lenN in *. rewrite Nat2N.id.
    rewrite firstn_all, skipn_all. rewrite firstn_all2, skipn_all2 by lia. reflexivity.
Qed.

Lemma split_chunks_nil f c : split_chunks f c [] = [].
Proof. destruct f; reflexivity. Qed.

Lemma split_chunks_cons f c x p :
  split_chunks (S f) c (x :: p) = firstn c (x :: p) :: split_chunks f c (skipn c (x :: p)).
Proof. reflexivity. Qed.

Lemma msg_wf_plain h p :
  hdr_ok h -> lenN p = h_len h -> bytes_ok p -> h_type h <> 1 -> h_type h <> 22 ->
  msg_wf (msg_of h p) = true.
Proof.
  intros (Hc & Hl & Ht & Hm & Hts) Hp Hb H1 H22.
  unfold msg_wf, msg_of. cbn [g_csid g_type g_msid g_ts g_payload].
  apply bytes_okb_spec in Hb. rewrite Hb, Hp.
  unfold set_chunk_size_type, aggregate_type, two32.
  assert (h_type h =? 1 = false) as -> by lia.
  assert (h_type h =? 22 = false) as -> by lia.
  lia.
Qed.

(* ------------------------------------------------------------------ lal reader, one chunk of lal's writer *)
Section OneMessage.
  Variable h : rtmp_header.
  Variable p : bytes.
  Hypothesis Hh : hdr_ok h.
  Hypothesis Hp : lenN p = h_len h.
  Hypothesis Hwf : msg_wf (msg_of h p) = true.

  Let csid := h_csid h.
  Let m := msg_of h p.

  Definition done_stream : stream :=
    mk_stream (mk_hdr (h_csid h) (h_len h) (h_type h) (h_msid h) (h_ts h)) [] 0 false (h_ts h).

  Lemma lal_first_chunk rd data rest X :
    s_rbuf (get_or_new csid rd) = [] -> s_len (get_or_new csid rd) = 0 ->
    enc_cut (cs_chunk rd) p = (data, rest) ->
    match rest with
    | [] =>
        exists out,
          compose_chunk rv_fixed rd (calc_header wv_fixed h None ++ data ++ X)
          = Next (mk_cstate (spec_chunk_after (cs_chunk rd) m) (nset csid done_stream (cs_streams rd))) out X
          /\ spec_deliver m = Some (map rview out) /\ Forall rlen_ok out
    | _ =>
        compose_chunk rv_fixed rd (calc_header wv_fixed h None ++ data ++ X)
        = Next (mk_cstate (cs_chunk rd)
                  (nset csid (mk_stream (mk_hdr (h_csid (s_hdr (get_or_new csid rd))) (h_len h) (h_type h) (h_msid h) (h_ts h))
                                        (rev data) (lenN data) true (h_ts h))
                        (cs_streams rd))) [] X
    end.
  Proof.
    intros Hrb Hsl Hcut.
    pose proof Hh as (Hc & Hl & Ht & Hm & Hts).
    unfold compose_chunk. rewrite (calc_header_first h Hh). rewrite <- !app_assoc.
    rewrite (read_basic_enc 0 csid false _ _ ltac:(lia) (basic_header_enc 0 csid Hc)).
    cbn zeta.
    (* header + extension *)
    assert (exists s2,
      (match read_msg_header 0 (get_or_new csid rd)
               (put24 (if ts_escape <=? h_ts h then ts_escape else h_ts h) ++ put24 (h_len h) ++ [h_type h]
                ++ put32le (h_msid h) ++ (if ts_escape <=? h_ts h then put32 (h_ts h) else []) ++ data ++ X) with
       | Ok (s1, l2) => read_ext_ts 0 s1 l2 | Err e => Err e | Panic e => Panic e end) = Ok (s2, data ++ X)
      /\ s2 = mk_stream (mk_hdr (h_csid (s_hdr (get_or_new csid rd))) (h_len h) (h_type h) (h_msid h) (h_ts h)) [] 0 true (h_ts h))
      as (s2 & Hstage & Hs2).
    { destruct (ts_escape <=? h_ts h) eqn:E.
      - rewrite read_msg_header_0 by (try assumption; unfold ts_escape; lia).
        rewrite read_ext_ts_yes by (cbn [s_ts]; try assumption; unfold max_ts, ts_escape; lia).
        eexists. split; [reflexivity|]. rewrite Hrb, Hsl. reflexivity.
      - apply N.leb_gt in E.
        rewrite read_msg_header_0 by (try assumption; unfold ts_escape in E; lia).
        cbn [app]. rewrite read_ext_ts_no by (cbn [s_ts]; unfold max_ts, ts_escape in *; lia).
        eexists. split; [reflexivity|]. rewrite Hrb, Hsl. reflexivity. }
    destruct (read_msg_header 0 (get_or_new csid rd) _) as [[s1 l2]|e|e]; try discriminate.
    rewrite Hstage.
    pose proof (compose_body_enc rd csid s2 [] p data rest X m) as Hbody.
    subst s2. cbn [s_rbuf s_len s_hdr s_abs s_ts h_len h_type h_msid h_ts rev app] in Hbody.
    specialize (Hbody eq_refl eq_refl Hwf eq_refl eq_refl (eq_sym Hp) eq_refl eq_refl eq_refl Hcut).
    destruct rest as [|r0 rest].
    - destruct Hbody as (out & Hb1 & Hb2 & Hb3). exists out. split; [|split; assumption].
      rewrite Hb1. unfold done_stream, m, msg_of. cbn [g_payload g_type g_msid g_ts]. rewrite Hp. reflexivity.
    - exact Hbody.
  Qed.

  Lemma lal_cont_chunk rd s done rem data rest X :
    nget csid (cs_streams rd) = Some s ->
    h_len (s_hdr s) = h_len h -> h_type (s_hdr s) = h_type h -> h_msid (s_hdr s) = h_msid h -> h_ts (s_hdr s) = h_ts h ->
    s_rbuf s = rev done -> s_len s = lenN done -> s_abs s = true -> s_ts s = h_ts h ->
    p = done ++ rem ->
    enc_cut (cs_chunk rd) rem = (data, rest) ->
    match rest with
    | [] =>
        exists out,
          compose_chunk rv_fixed rd (calc_header wv_fixed h (Some h) ++ data ++ X)
          = Next (mk_cstate (spec_chunk_after (cs_chunk rd) m) (nset csid done_stream (cs_streams rd))) out X
          /\ spec_deliver m = Some (map rview out) /\ Forall rlen_ok out
    | _ =>
        compose_chunk rv_fixed rd (calc_header wv_fixed h (Some h) ++ data ++ X)
        = Next (mk_cstate (cs_chunk rd)
                  (nset csid (mk_stream (s_hdr s) (rev (done ++ data)) (lenN (done ++ data)) true (h_ts h))
                        (cs_streams rd))) [] X
    end.
  Proof.
    intros Hs Hl1 Ht1 Hm1 Hts1 Hrb Hsl Habs Hsts Hpd Hcut.
    pose proof Hh as (Hc & Hl & Ht & Hm & Hts).
    unfold compose_chunk. rewrite (calc_header_cont h Hh). rewrite <- !app_assoc.
    rewrite (read_basic_enc 3 csid false _ _ ltac:(lia) (basic_header_enc 3 csid Hc)).
    unfold get_or_new, get_stream. rewrite Hs. cbn zeta. rewrite read_msg_header_3.
    assert (read_ext_ts 3 s ((if ts_escape <=? h_ts h then put32 (h_ts h) else []) ++ data ++ X) = Ok (s, data ++ X)) as ->.
    { destruct (ts_escape <=? h_ts h) eqn:E.
      - apply N.leb_le in E.
        rewrite read_ext_ts_yes by (try assumption; rewrite Hsts; unfold max_ts, ts_escape in *; lia).
        cbn [N.eqb Pos.eqb orb]. rewrite <- Hsts.
        destruct s as [[? ? ? ? ?] ? ? ? ?]. reflexivity.
      - apply N.leb_gt in E. cbn [app]. apply read_ext_ts_no. rewrite Hsts. unfold max_ts, ts_escape in *. lia. }
    pose proof (compose_body_enc rd csid s done rem data rest X m Hrb Hsl Hwf eq_refl Hpd) as Hbody.
    unfold m, msg_of in Hbody. cbn [g_payload g_type g_msid g_ts] in Hbody.
    rewrite Habs in Hbody.
    specialize (Hbody ltac:(congruence) Ht1 Hm1 Hts1 Hcut).
    destruct rest as [|r0 rest].
    - destruct Hbody as (out & Hb1 & Hb2 & Hb3). exists out. split; [|split; assumption].
      rewrite Hb1. unfold done_stream. rewrite Hp, Hsts. reflexivity.
    - rewrite Hbody. rewrite ?Habs, ?Hsts. reflexivity.
  Qed.
End OneMessage.

(* ------------------------------------------------------------------ lal reader, a whole message of lal's writer *)
Section WriteRead.
  Variable h : rtmp_header.
  Variable p : bytes.
  Hypothesis Hh : hdr_ok h.
  Hypothesis Hp : lenN p = h_len h.
  Hypothesis Hwf : msg_wf (msg_of h p) = true.
  Variable c : nat.
  Hypothesis Hc : (0 < c)%nat.

  Let csid := h_csid h.
  Let m := msg_of h p.

  (* reader state after the message: chunk stream memory = the header, idle *)
  Definition final_state (rd : cstate) : cstate :=
    mk_cstate (spec_chunk_after (cs_chunk rd) m) (nset csid (done_stream h) (cs_streams rd)).

  Lemma lal_cont_pieces : forall fuel rem done rd s X,
    rem <> [] -> (length rem <= fuel)%nat -> cs_chunk rd = N.of_nat c ->
    nget csid (cs_streams rd) = Some s ->
    h_len (s_hdr s) = h_len h -> h_type (s_hdr s) = h_type h -> h_msid (s_hdr s) = h_msid h -> h_ts (s_hdr s) = h_ts h ->
    s_rbuf s = rev done -> s_len s = lenN done -> s_abs s = true -> s_ts s = h_ts h ->
    p = done ++ rem ->
    exists out,
      (forall st'' outs e, run_composer (final_state rd) X = (st'', outs, e) ->
         run_composer rd (flat_map (fun b => calc_header wv_fixed h (Some h) ++ b) (split_chunks fuel c rem) ++ X)
         = (st'', out ++ outs, e))
      /\ spec_deliver m = Some (map rview out) /\ Forall rlen_ok out.
  Proof.
    induction fuel as [|f IH]; intros rem done rd s X Hne Hfuel Hchunk Hs Hl1 Ht1 Hm1 Hts1 Hrb Hsl Habs Hsts Hpd.
    { destruct rem; [contradiction|cbn in Hfuel; lia]. }
    destruct rem as [|x rem']; [contradiction|].
    rewrite split_chunks_cons. cbn [flat_map]. rewrite <- !app_assoc.
    pose proof (enc_cut_firstn (cs_chunk rd) (x :: rem')) as Hcut. rewrite Hchunk, Nat2N.id in Hcut.
    rewrite <- Hchunk in Hcut at 1.
    pose proof (lal_cont_chunk h p Hh Hp Hwf rd s done (x :: rem') _ _
                  (flat_map (fun b => calc_header wv_fixed h (Some h) ++ b) (split_chunks f c (skipn c (x :: rem'))) ++ X)
                  Hs Hl1 Ht1 Hm1 Hts1 Hrb Hsl Habs Hsts Hpd Hcut) as Hstep.
    destruct (skipn c (x :: rem')) as [|r0 rest] eqn:Esk.
    - destruct Hstep as (out & Hb1 & Hb2 & Hb3). exists out. split; [|split; assumption].
      intros st'' outs e Hfin. rewrite split_chunks_nil in *. cbn [flat_map app] in *.
      unfold run_composer in *. rewrite (run_composer_next _ _ _ _ _ _ Hb1).
      unfold final_state, csid, m in Hfin. rewrite Hfin. reflexivity.
    - set (s1 := mk_stream (s_hdr s) (rev (done ++ firstn c (x :: rem'))) (lenN (done ++ firstn c (x :: rem'))) true (h_ts h)) in *.
      set (rd1 := mk_cstate (cs_chunk rd) (nset (h_csid h) s1 (cs_streams rd))) in *.
      assert (length (r0 :: rest) <= f)%nat as Hlen.
      { rewrite <- Esk. rewrite skipn_length. cbn [length] in *. lia. }
      destruct (IH (r0 :: rest) (done ++ firstn c (x :: rem')) rd1 s1 X ltac:(discriminate) Hlen Hchunk
                  ltac:(unfold rd1; cbn [cs_streams]; apply nget_nset_same)
                  Hl1 Ht1 Hm1 Hts1 eq_refl eq_refl eq_refl eq_refl
                  ltac:(rewrite <- app_assoc, <- Esk, firstn_skipn; exact Hpd))
        as (out & Hrun & Hd & Hok).
      exists out. split; [|split; assumption].
      intros st'' outs e Hfin.
      unfold run_composer in *. rewrite (run_composer_next _ _ _ _ _ _ Hstep).
      assert (final_state rd1 = final_state rd) as Hfs.
      { unfold final_state, rd1, csid. cbn [cs_chunk cs_streams]. rewrite nset_nset_same. reflexivity. }
      rewrite Hfs in Hrun. rewrite (Hrun _ _ _ Hfin). reflexivity.
  Qed.

End WriteRead.

Lemma lal_reads_message h p c rd X :
  hdr_ok h -> lenN p = h_len h -> msg_wf (msg_of h p) = true -> (0 < c)%nat ->
  cs_chunk rd = N.of_nat c ->
  s_rbuf (get_or_new (h_csid h) rd) = [] -> s_len (get_or_new (h_csid h) rd) = 0 ->
  exists out,
    (forall st'' outs e, run_composer (final_state h p rd) X = (st'', outs, e) ->
       run_composer rd (message2chunks_core wv_fixed c h None p ++ X) = (st'', out ++ outs, e))
    /\ spec_deliver (msg_of h p) = Some (map rview out) /\ Forall rlen_ok out.
Proof.
  intros Hh Hp Hwf Hc Hchunk Hrb Hsl.
  unfold message2chunks_core, message_pieces. cbn [wv_empty_chunk wv_fixed].
  pose proof (enc_cut_firstn (cs_chunk rd) p) as Hcut. rewrite Hchunk, Nat2N.id in Hcut.
  rewrite <- Hchunk in Hcut at 1.
  destruct p as [|x p'].
  - assert (firstn c (@nil N) = []) as Hf by (destruct c; reflexivity).
    assert (skipn c (@nil N) = []) as Hs by (destruct c; reflexivity). rewrite Hf, Hs in Hcut.
    pose proof (lal_first_chunk h [] Hh Hp Hwf rd [] [] X Hrb Hsl Hcut) as (out & Hb1 & Hb2 & Hb3).
    exists out. split; [|split; assumption].
    intros st'' outs e Hfin. cbn [flat_map app] in *. rewrite app_nil_r.
    unfold run_composer in *. rewrite (run_composer_next _ _ _ _ _ _ Hb1).
    unfold final_state in Hfin. rewrite Hfin. reflexivity.
  - cbn [length]. rewrite split_chunks_cons.
    remember (x :: p') as p eqn:Ep.
    rewrite <- !app_assoc.
    pose proof (lal_first_chunk h p Hh Hp Hwf rd _ _
                  (flat_map (fun b => calc_header wv_fixed h (Some h) ++ b) (split_chunks (length p') c (skipn c p)) ++ X)
                  Hrb Hsl Hcut) as Hstep.
    destruct (skipn c p) as [|r0 rest] eqn:Esk.
    + destruct Hstep as (out & Hb1 & Hb2 & Hb3). exists out. split; [|split; assumption].
      intros st'' outs e Hfin.
      unfold run_composer in *. rewrite (run_composer_next _ _ _ _ _ _ Hb1).
      rewrite split_chunks_nil. cbn [flat_map app].
      unfold final_state in Hfin. rewrite Hfin. reflexivity.
    + set (s1 := mk_stream (mk_hdr (h_csid (s_hdr (get_or_new (h_csid h) rd))) (h_len h) (h_type h) (h_msid h) (h_ts h))
                           (rev (firstn c p)) (lenN (firstn c p)) true (h_ts h)) in *.
      set (rd1 := mk_cstate (cs_chunk rd) (nset (h_csid h) s1 (cs_streams rd))) in *.
      assert (length (r0 :: rest) <= length p')%nat as Hlen.
      { rewrite <- Esk. rewrite skipn_length. rewrite Ep. cbn [length]. lia. }
      destruct (lal_cont_pieces h p Hh Hp Hwf c Hc (length p') (r0 :: rest) (firstn c p) rd1 s1 X ltac:(discriminate) Hlen Hchunk
                  ltac:(unfold rd1; cbn [cs_streams]; apply nget_nset_same)
                  eq_refl eq_refl eq_refl eq_refl eq_refl eq_refl eq_refl eq_refl
                  ltac:(rewrite <- Esk, firstn_skipn; reflexivity))
        as (out & Hrun & Hd & Hok).
      exists out. split; [|split; assumption].
      intros st'' outs e Hfin.
      unfold run_composer in *. rewrite (run_composer_next _ _ _ _ _ _ Hstep).
      assert (final_state h p rd1 = final_state h p rd) as Hfs.
      { unfold final_state, rd1. cbn [cs_chunk cs_streams]. rewrite nset_nset_same. reflexivity. }
      rewrite Hfs in Hrun. rewrite (Hrun _ _ _ Hfin). reflexivity.
Qed.
