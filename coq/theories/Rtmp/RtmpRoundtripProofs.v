(* lal's chunk divider (writer) against lal's chunk composer and against the
   reference reader, for an arbitrary reader state. *)
From Lal Require Import Common.LBytes Common.Res Common.LBytesRead Common.NAssoc
  Common.LBytesProofs Common.LBytesReadProofs Common.NAssocProofs
  Rtmp.RtmpChunk Rtmp.RtmpComposer Rtmp.RtmpComposerProofs Rtmp.RtmpChunkSpec Rtmp.RtmpChunkSpecProofs
  Rtmp.RtmpLegalProofs.
From Coq Require Import Lia ZifyN ZifyNat ZifyBool.
Ltac Zify.zify_post_hook ::= Z.div_mod_to_equations.
Open Scope N_scope.

Definition hdr_ok (h : rtmp_header) : Prop :=
  2 <= h_csid h <= 65599 /\ h_len h < 16777216 /\ h_type h < 256 /\
  h_msid h < 4294967296 /\ h_ts h < 4294967296.

(* the message a header and a payload denote *)
Definition msg_of (h : rtmp_header) (p : bytes) : smsg :=
  mk_smsg (h_csid h) (h_type h) (h_msid h) (h_ts h) p.

(* ------------------------------------------------------------------ encodings agree *)
Lemma be_put_3 v : v < 16777216 -> be_put 3 v = put24 v.
Proof.
  intro H. unfold put24. cbn [be_put].
  change (256 ^ N.of_nat 2) with 65536. change (256 ^ N.of_nat 1) with 256. change (256 ^ N.of_nat 0) with 1.
  f_equal; [lia|]. f_equal. f_equal. lia.
Qed.
Lemma be_put_4 v : v < 4294967296 -> be_put 4 v = put32 v.
Proof.
  intro H. unfold put32. cbn [be_put].
  change (256 ^ N.of_nat 3) with 16777216.
  change (256 ^ N.of_nat 2) with 65536. change (256 ^ N.of_nat 1) with 256. change (256 ^ N.of_nat 0) with 1.
  f_equal; [lia|]. f_equal. f_equal. f_equal. lia.
Qed.
Lemma le_put_4 v : v < 4294967296 -> le_put 4 v = put32le v.
Proof.
  intro H. unfold put32le. cbn [le_put].
  repeat (f_equal; try lia).
Qed.

Lemma basic_header_enc fmt csid : 2 <= csid <= 65599 -> enc_basic fmt csid false = Some (basic_header fmt csid).
Proof.
  intro H. unfold enc_basic, basic_header, u8.
  destruct ((2 <=? csid) && (csid <=? 63)) eqn:E1; [reflexivity|].
  destruct ((64 <=? csid) && (csid <=? 319)) eqn:E2.
  { cbn [negb andb]. f_equal. f_equal. f_equal. lia. }
  cbn [andb].
  assert ((64 <=? csid) && (csid <=? 65599) = true) as -> by lia.
  assert (csid <? 64 = false) as -> by lia.
  f_equal. f_equal. f_equal. f_equal. lia.
Qed.

(* first chunk header (prev = nil): type 0 *)
Lemma calc_header_first h :
  hdr_ok h ->
  calc_header wv_fixed h None =
    basic_header 0 (h_csid h)
    ++ put24 (if ts_escape <=? h_ts h then ts_escape else h_ts h) ++ put24 (h_len h) ++ [h_type h]
    ++ put32le (h_msid h) ++ (if ts_escape <=? h_ts h then put32 (h_ts h) else []).
Proof.
  intros (Hc & Hl & Ht & Hm & Hts).
  unfold calc_header, calc_fmt_ts, w_ext. cbn [wv_ext_ge wv_fixed N.leb N.eqb N.compare].
  change max_ts with ts_escape.
  rewrite (be_put_3 (h_len h)) by exact Hl. rewrite le_put_4 by exact Hm.
  assert (u8 (h_type h) = h_type h) as -> by (unfold u8; lia).
  destruct (ts_escape <=? h_ts h) eqn:E.
  - rewrite be_put_4 by exact Hts.
    assert ((if ts_escape <? h_ts h then ts_escape else h_ts h) = ts_escape) as ->.
    { destruct (ts_escape <? h_ts h) eqn:E2; [reflexivity|]. apply N.leb_le in E. apply N.ltb_ge in E2. lia. }
    rewrite be_put_3 by (unfold ts_escape; lia).
    rewrite <- !app_assoc. reflexivity.
  - apply N.leb_gt in E.
    assert (ts_escape <? h_ts h = false) as -> by (apply N.ltb_ge; lia).
    rewrite be_put_3 by (unfold ts_escape in E; lia).
    rewrite <- !app_assoc. reflexivity.
Qed.

(* following chunk headers (prev = the same header): type 3, the absolute
   timestamp repeated in the 4-byte field when it is >= 0xFFFFFF *)
Lemma calc_header_cont h :
  hdr_ok h ->
  calc_header wv_fixed h (Some h) =
    basic_header 3 (h_csid h) ++ (if ts_escape <=? h_ts h then put32 (h_ts h) else []).
Proof.
  intros (Hc & Hl & Ht & Hm & Hts).
  unfold calc_header, calc_fmt_ts, w_ext. cbn [wv_ext_ge wv_fixed].
  rewrite !N.eqb_refl. cbn [andb]. change max_ts with ts_escape.
  destruct (ts_escape <=? h_ts h) eqn:E.
  - cbn [N.leb N.compare Pos.compare Pos.compare_cont]. rewrite E.
    rewrite be_put_4 by exact Hts. reflexivity.
  - assert (u32 (h_ts h + 4294967296 - h_ts h) = 0) as -> by (unfold u32; lia).
    cbn [N.leb N.compare Pos.compare Pos.compare_cont]. unfold ts_escape. cbn [N.leb N.compare]. reflexivity.
Qed.

(* ------------------------------------------------------------------ pieces *)
Lemma enc_cut_firstn chunk p :
  enc_cut chunk p = (firstn (N.to_nat chunk) p, skipn (N.to_nat chunk) p).
Proof.
  unfold enc_cut. rewrite takeN_firstn_skipn by lia.
  destruct (N.le_gt_cases chunk (lenN p)) as [H|H].
  - rewrite N.min_l by exact H. reflexivity.
  - rewrite N.min_r by lia. unfold lenN in *. rewrite Nat2N.id.
    rewrite firstn_all, skipn_all. rewrite firstn_all2, skipn_all2 by lia. reflexivity.
Qed.

Lemma split_chunks_nil f c : split_chunks f c [] = [].
Proof. destruct f; reflexivity. Qed.

Lemma split_chunks_cons f c x p :
  split_chunks (S f) c (x :: p) = firstn c (x :: p) :: split_chunks f c (skipn c (x :: p)).
Proof. reflexivity. Qed.

Lemma msg_wf_plain h p :
  hdr_ok h -> lenN p = h_len h -> bytes_ok p -> h_type h <> 1 -> h_type h <> 22 ->
  msg_wf (msg_of h p) = true.
Proof.
  intros (Hc & Hl & Ht & Hm & Hts) Hp Hb H1 H22.
  unfold msg_wf, msg_of. cbn [g_csid g_type g_msid g_ts g_payload].
  apply bytes_okb_spec in Hb. rewrite Hb, Hp.
  unfold set_chunk_size_type, aggregate_type, two32.
  assert (h_type h =? 1 = false) as -> by lia.
  assert (h_type h =? 22 = false) as -> by lia.
  lia.
Qed.

(* ------------------------------------------------------------------ lal reader, one chunk of lal's writer *)
Section OneMessage.
  Variable h : rtmp_header.
  Variable p : bytes.
  Hypothesis Hh : hdr_ok h.
  Hypothesis Hp : lenN p = h_len h.
  Hypothesis Hwf : msg_wf (msg_of h p) = true.

  Let csid := h_csid h.
  Let m := msg_of h p.

  Definition done_stream : stream :=
    mk_stream (mk_hdr (h_csid h) (h_len h) (h_type h) (h_msid h) (h_ts h)) [] 0 false (h_ts h).

  Lemma lal_first_chunk rd data rest X :
    s_rbuf (get_or_new csid rd) = [] -> s_len (get_or_new csid rd) = 0 ->
    enc_cut (cs_chunk rd) p = (data, rest) ->
    match rest with
    | [] =>
        exists out,
          compose_chunk rv_fixed rd (calc_header wv_fixed h None ++ data ++ X)
          = Next (mk_cstate (spec_chunk_after (cs_chunk rd) m) (nset csid done_stream (cs_streams rd))) out X
          /\ spec_deliver m = Some (map rview out) /\ Forall rlen_ok out
    | _ =>
        compose_chunk rv_fixed rd (calc_header wv_fixed h None ++ data ++ X)
        = Next (mk_cstate (cs_chunk rd)
                  (nset csid (mk_stream (mk_hdr (h_csid (s_hdr (get_or_new csid rd))) (h_len h) (h_type h) (h_msid h) (h_ts h))
                                        (rev data) (lenN data) true (h_ts h))
                        (cs_streams rd))) [] X
    end.
  Proof.
    intros Hrb Hsl Hcut.
    pose proof Hh as (Hc & Hl & Ht & Hm & Hts).
    unfold compose_chunk. rewrite (calc_header_first h Hh). rewrite <- !app_assoc.
    rewrite (read_basic_enc 0 csid false _ _ ltac:(lia) (basic_header_enc 0 csid Hc)).
    cbn zeta.
    (* header + extension *)
    assert (exists s2,
      (match read_msg_header 0 (get_or_new csid rd)
               (put24 (if ts_escape <=? h_ts h then ts_escape else h_ts h) ++ put24 (h_len h) ++ [h_type h]
                ++ put32le (h_msid h) ++ (if ts_escape <=? h_ts h then put32 (h_ts h) else []) ++ data ++ X) with
       | Ok (s1, l2) => read_ext_ts 0 s1 l2 | Err e => Err e | Panic e => Panic e end) = Ok (s2, data ++ X)
      /\ s2 = mk_stream (mk_hdr (h_csid (s_hdr (get_or_new csid rd))) (h_len h) (h_type h) (h_msid h) (h_ts h)) [] 0 true (h_ts h))
      as (s2 & Hstage & Hs2).
    { destruct (ts_escape <=? h_ts h) eqn:E.
      - rewrite read_msg_header_0 by (try assumption; unfold ts_escape; lia).
        rewrite read_ext_ts_yes by (cbn [s_ts]; try assumption; unfold max_ts, ts_escape; lia).
        eexists. split; [reflexivity|]. rewrite Hrb, Hsl. reflexivity.
      - apply N.leb_gt in E.
        rewrite read_msg_header_0 by (try assumption; unfold ts_escape in E; lia).
        cbn [app]. rewrite read_ext_ts_no by (cbn [s_ts]; unfold max_ts, ts_escape in *; lia).
        eexists. split; [reflexivity|]. rewrite Hrb, Hsl. reflexivity. }
    destruct (read_msg_header 0 (get_or_new csid rd) _) as [[s1 l2]|e|e]; try discriminate.
    rewrite Hstage.
    pose proof (compose_body_enc rd csid s2 [] p data rest X m) as Hbody.
    subst s2. cbn [s_rbuf s_len s_hdr s_abs s_ts h_len h_type h_msid h_ts rev app] in Hbody.
    specialize (Hbody eq_refl eq_refl Hwf eq_refl eq_refl (eq_sym Hp) eq_refl eq_refl eq_refl Hcut).
    destruct rest as [|r0 rest].
    - destruct Hbody as (out & Hb1 & Hb2 & Hb3). exists out. split; [|split; assumption].
      rewrite Hb1. unfold done_stream, m, msg_of. cbn [g_payload g_type g_msid g_ts]. rewrite Hp. reflexivity.
    - exact Hbody.
  Qed.

  Lemma lal_cont_chunk rd s done rem data rest X :
    nget csid (cs_streams rd) = Some s ->
    h_len (s_hdr s) = h_len h -> h_type (s_hdr s) = h_type h -> h_msid (s_hdr s) = h_msid h -> h_ts (s_hdr s) = h_ts h ->
    s_rbuf s = rev done -> s_len s = lenN done -> s_abs s = true -> s_ts s = h_ts h ->
    p = done ++ rem ->
    enc_cut (cs_chunk rd) rem = (data, rest) ->
    match rest with
    | [] =>
        exists out,
          compose_chunk rv_fixed rd (calc_header wv_fixed h (Some h) ++ data ++ X)
          = Next (mk_cstate (spec_chunk_after (cs_chunk rd) m) (nset csid done_stream (cs_streams rd))) out X
          /\ spec_deliver m = Some (map rview out) /\ Forall rlen_ok out
    | _ =>
        compose_chunk rv_fixed rd (calc_header wv_fixed h (Some h) ++ data ++ X)
        = Next (mk_cstate (cs_chunk rd)
                  (nset csid (mk_stream (s_hdr s) (rev (done ++ data)) (lenN (done ++ data)) true (h_ts h))
                        (cs_streams rd))) [] X
    end.
  Proof.
    intros Hs Hl1 Ht1 Hm1 Hts1 Hrb Hsl Habs Hsts Hpd Hcut.
    pose proof Hh as (Hc & Hl & Ht & Hm & Hts).
    unfold compose_chunk. rewrite (calc_header_cont h Hh). rewrite <- !app_assoc.
    rewrite (read_basic_enc 3 csid false _ _ ltac:(lia) (basic_header_enc 3 csid Hc)).
    unfold get_or_new, get_stream. rewrite Hs. cbn zeta. rewrite read_msg_header_3.
    assert (read_ext_ts 3 s ((if ts_escape <=? h_ts h then put32 (h_ts h) else []) ++ data ++ X) = Ok (s, data ++ X)) as ->.
    { destruct (ts_escape <=? h_ts h) eqn:E.
      - apply N.leb_le in E.
        rewrite read_ext_ts_yes by (try assumption; rewrite Hsts; unfold max_ts, ts_escape in *; lia).
        cbn [N.eqb Pos.eqb orb]. rewrite <- Hsts.
        destruct s as [[? ? ? ? ?] ? ? ? ?]. reflexivity.
      - apply N.leb_gt in E. cbn [app]. apply read_ext_ts_no. rewrite Hsts. unfold max_ts, ts_escape in *. lia. }
    pose proof (compose_body_enc rd csid s done rem data rest X m Hrb Hsl Hwf eq_refl Hpd) as Hbody.
    unfold m, msg_of in Hbody. cbn [g_payload g_type g_msid g_ts] in Hbody.
    rewrite Habs in Hbody.
    specialize (Hbody ltac:(congruence) Ht1 Hm1 Hts1 Hcut).
    destruct rest as [|r0 rest].
    - destruct Hbody as (out & Hb1 & Hb2 & Hb3). exists out. split; [|split; assumption].
      rewrite Hb1. unfold done_stream. rewrite Hp, Hsts. reflexivity.
    - rewrite Hbody. rewrite ?Habs, ?Hsts. reflexivity.
  Qed.
End OneMessage.

(* ------------------------------------------------------------------ lal reader, a whole message of lal's writer *)
Section WriteRead.
  Variable h : rtmp_header.
  Variable p : bytes.
  Hypothesis Hh : hdr_ok h.
  Hypothesis Hp : lenN p = h_len h.
  Hypothesis Hwf : msg_wf (msg_of h p) = true.
  Variable c : nat.
  Hypothesis Hc : (0 < c)%nat.

  Let csid := h_csid h.
  Let m := msg_of h p.

  (* reader state after the message: chunk stream memory = the header, idle *)
  Definition final_state (rd : cstate) : cstate :=
    mk_cstate (spec_chunk_after (cs_chunk rd) m) (nset csid (done_stream h) (cs_streams rd)).

  Lemma lal_cont_pieces : forall fuel rem done rd s X,
    rem <> [] -> (length rem <= fuel)%nat -> cs_chunk rd = N.of_nat c ->
    nget csid (cs_streams rd) = Some s ->
    h_len (s_hdr s) = h_len h -> h_type (s_hdr s) = h_type h -> h_msid (s_hdr s) = h_msid h -> h_ts (s_hdr s) = h_ts h ->
    s_rbuf s = rev done -> s_len s = lenN done -> s_abs s = true -> s_ts s = h_ts h ->
    p = done ++ rem ->
    exists out,
      (forall st'' outs e, run_composer (final_state rd) X = (st'', outs, e) ->
         run_composer rd (flat_map (fun b => calc_header wv_fixed h (Some h) ++ b) (split_chunks fuel c rem) ++ X)
         = (st'', out ++ outs, e))
      /\ spec_deliver m = Some (map rview out) /\ Forall rlen_ok out.
  Proof.
    induction fuel as [|f IH]; intros rem done rd s X Hne Hfuel Hchunk Hs Hl1 Ht1 Hm1 Hts1 Hrb Hsl Habs Hsts Hpd.
    { destruct rem; [contradiction|cbn in Hfuel; lia]. }
    destruct rem as [|x rem']; [contradiction|].
    rewrite split_chunks_cons. cbn [flat_map]. rewrite <- !app_assoc.
    pose proof (enc_cut_firstn (cs_chunk rd) (x :: rem')) as Hcut. rewrite Hchunk, Nat2N.id in Hcut.
    rewrite <- Hchunk in Hcut at 1.
    pose proof (lal_cont_chunk h p Hh Hp Hwf rd s done (x :: rem') _ _
                  (flat_map (fun b => calc_header wv_fixed h (Some h) ++ b) (split_chunks f c (skipn c (x :: rem'))) ++ X)
                  Hs Hl1 Ht1 Hm1 Hts1 Hrb Hsl Habs Hsts Hpd Hcut) as Hstep.
    destruct (skipn c (x :: rem')) as [|r0 rest] eqn:Esk.
    - destruct Hstep as (out & Hb1 & Hb2 & Hb3). exists out. split; [|split; assumption].
      intros st'' outs e Hfin. rewrite split_chunks_nil in *. cbn [flat_map app] in *.
      unfold run_composer in *. rewrite (run_composer_next _ _ _ _ _ _ Hb1).
      unfold final_state, csid, m in Hfin. rewrite Hfin. reflexivity.
    - set (s1 := mk_stream (s_hdr s) (rev (done ++ firstn c (x :: rem'))) (lenN (done ++ firstn c (x :: rem'))) true (h_ts h)) in *.
      set (rd1 := mk_cstate (cs_chunk rd) (nset (h_csid h) s1 (cs_streams rd))) in *.
      assert (length (r0 :: rest) <= f)%nat as Hlen.
      { rewrite <- Esk. rewrite skipn_length. cbn [length] in *. lia. }
      destruct (IH (r0 :: rest) (done ++ firstn c (x :: rem')) rd1 s1 X ltac:(discriminate) Hlen Hchunk
                  ltac:(unfold rd1; cbn [cs_streams]; apply nget_nset_same)
                  Hl1 Ht1 Hm1 Hts1 eq_refl eq_refl eq_refl eq_refl
                  ltac:(rewrite <- app_assoc, <- Esk, firstn_skipn; exact Hpd))
        as (out & Hrun & Hd & Hok).
      exists out. split; [|split; assumption].
      intros st'' outs e Hfin.
      unfold run_composer in *. rewrite (run_composer_next _ _ _ _ _ _ Hstep).
      assert (final_state rd1 = final_state rd) as Hfs.
      { unfold final_state, rd1, csid. cbn [cs_chunk cs_streams]. rewrite nset_nset_same. reflexivity. }
      rewrite Hfs in Hrun. rewrite (Hrun _ _ _ Hfin). reflexivity.
  Qed.

End WriteRead.

Lemma lal_reads_message h p c rd X :
  hdr_ok h -> lenN p = h_len h -> msg_wf (msg_of h p) = true -> (0 < c)%nat ->
  cs_chunk rd = N.of_nat c ->
  s_rbuf (get_or_new (h_csid h) rd) = [] -> s_len (get_or_new (h_csid h) rd) = 0 ->
  exists out,
    (forall st'' outs e, run_composer (final_state h p rd) X = (st'', outs, e) ->
       run_composer rd (message2chunks_core wv_fixed c h None p ++ X) = (st'', out ++ outs, e))
    /\ spec_deliver (msg_of h p) = Some (map rview out) /\ Forall rlen_ok out.
Proof.
  intros Hh Hp Hwf Hc Hchunk Hrb Hsl.
  unfold message2chunks_core, message_pieces. cbn [wv_empty_chunk wv_fixed].
  pose proof (enc_cut_firstn (cs_chunk rd) p) as Hcut. rewrite Hchunk, Nat2N.id in Hcut.
  rewrite <- Hchunk in Hcut at 1.
  destruct p as [|x p'].
  - assert (firstn c (@nil N) = []) as Hf by (destruct c; reflexivity).
    assert (skipn c (@nil N) = []) as Hs by (destruct c; reflexivity). rewrite Hf, Hs in Hcut.
    pose proof (lal_first_chunk h [] Hh Hp Hwf rd [] [] X Hrb Hsl Hcut) as (out & Hb1 & Hb2 & Hb3).
    exists out. split; [|split; assumption].
    intros st'' outs e Hfin. cbn [flat_map app] in *. rewrite app_nil_r.
    unfold run_composer in *. rewrite (run_composer_next _ _ _ _ _ _ Hb1).
    unfold final_state in Hfin. rewrite Hfin. reflexivity.
  - cbn [length]. rewrite split_chunks_cons.
    remember (x :: p') as p eqn:Ep.
    rewrite <- !app_assoc.
    pose proof (lal_first_chunk h p Hh Hp Hwf rd _ _
                  (flat_map (fun b => calc_header wv_fixed h (Some h) ++ b) (split_chunks (length p') c (skipn c p)) ++ X)
                  Hrb Hsl Hcut) as Hstep.
    destruct (skipn c p) as [|r0 rest] eqn:Esk.
    + destruct Hstep as (out & Hb1 & Hb2 & Hb3). exists out. split; [|split; assumption].
      intros st'' outs e Hfin.
      unfold run_composer in *. rewrite (run_composer_next _ _ _ _ _ _ Hb1).
      rewrite split_chunks_nil. cbn [flat_map app].
      unfold final_state in Hfin. rewrite Hfin. reflexivity.
    + set (s1 := mk_stream (mk_hdr (h_csid (s_hdr (get_or_new (h_csid h) rd))) (h_len h) (h_type h) (h_msid h) (h_ts h))
                           (rev (firstn c p)) (lenN (firstn c p)) true (h_ts h)) in *.
      set (rd1 := mk_cstate (cs_chunk rd) (nset (h_csid h) s1 (cs_streams rd))) in *.
      assert (length (r0 :: rest) <= length p')%nat as Hlen.
      { rewrite <- Esk. rewrite skipn_length. rewrite Ep. cbn [length]. lia. }
      destruct (lal_cont_pieces h p Hh Hp Hwf c Hc (length p') (r0 :: rest) (firstn c p) rd1 s1 X ltac:(discriminate) Hlen Hchunk
                  ltac:(unfold rd1; cbn [cs_streams]; apply nget_nset_same)
                  eq_refl eq_refl eq_refl eq_refl eq_refl eq_refl eq_refl eq_refl
                  ltac:(rewrite <- Esk, firstn_skipn; reflexivity))
        as (out & Hrun & Hd & Hok).
      exists out. split; [|split; assumption].
      intros st'' outs e Hfin.
      unfold run_composer in *. rewrite (run_composer_next _ _ _ _ _ _ Hstep).
      assert (final_state h p rd1 = final_state h p rd) as Hfs.
      { unfold final_state, rd1. cbn [cs_chunk cs_streams]. rewrite nset_nset_same. reflexivity. }
      rewrite Hfs in Hrun. rewrite (Hrun _ _ _ Hfin). reflexivity.
Qed.

(* ------------------------------------------------------------------ W: lal's writer output is a legal chunking *)
Lemma enc_run_app : forall s1 s2 enc e1 b1 m1 e2 b2 m2,
  enc_run enc s1 = Some (e1, b1, m1) -> enc_run e1 s2 = Some (e2, b2, m2) ->
  enc_run enc (s1 ++ s2) = Some (e2, b1 ++ b2, m1 ++ m2).
Proof.
  induction s1 as [|a t IH]; intros s2 enc e1 b1 m1 e2 b2 m2 H1 H2.
  - cbn in H1. inversion H1; subst. exact H2.
  - cbn [enc_run app] in *.
    destruct (enc_step enc a) as [[[st1 chunk] om]|]; [|discriminate].
    destruct (enc_run st1 t) as [[[st2 bs] ms]|] eqn:Er; [|discriminate].
    inversion H1; subst. rewrite (IH s2 st1 _ _ _ _ _ _ Er H2). rewrite <- !app_assoc. reflexivity.
Qed.

Definition all_closed (enc : estate) : Prop :=
  forall k e, nget k (es_mem enc) = Some e -> e_rest e = None.

Lemma all_closed_set enc chunk k e :
  all_closed enc -> e_rest e = None -> all_closed (mk_estate chunk (nset k e (es_mem enc))).
Proof.
  intros H He k' e'. cbn [es_mem]. rewrite nget_nset. destruct (k =? k').
  - intro E; inversion E; subst. exact He.
  - apply H.
Qed.

Section WriterLegal.
  Variable h : rtmp_header.
  Variable p : bytes.
  Hypothesis Hh : hdr_ok h.
  Hypothesis Hp : lenN p = h_len h.
  Hypothesis Hwf : msg_wf (msg_of h p) = true.
  Variable c : nat.
  Hypothesis Hc : (0 < c)%nat.
  Let csid := h_csid h.
  Let m := msg_of h p.

  Definition enc_done (o : option (smsg * bytes)) : emem :=
    mk_emem (h_ts h) (h_ts h) (h_len h) (h_type h) (h_msid h) (ts_escape <=? h_ts h) o.

  Lemma writer_cont_pieces : forall fuel rem enc,
    rem <> [] -> (length rem <= fuel)%nat -> es_chunk enc = N.of_nat c ->
    nget csid (es_mem enc) = Some (enc_done (Some (m, rem))) ->
    exists script,
      enc_run enc script
      = Some (mk_estate (spec_chunk_after (N.of_nat c) m) (nset csid (enc_done None) (es_mem enc)),
              flat_map (fun b => calc_header wv_fixed h (Some h) ++ b) (split_chunks fuel c rem), [m]).
  Proof.
    pose proof Hh as (Hcs & _).
    induction fuel as [|f IH]; intros rem enc Hne Hfuel Hchunk Hg.
    { destruct rem; [contradiction|cbn in Hfuel; lia]. }
    destruct rem as [|x rem']; [contradiction|].
    rewrite split_chunks_cons. cbn [flat_map].
    pose proof (enc_cut_firstn (es_chunk enc) (x :: rem')) as Hcut. rewrite Hchunk, Nat2N.id in Hcut.
    assert (N.of_nat c <> 0) as Hc0 by lia.
    assert (enc_step enc (ECont csid false)
            = match skipn c (x :: rem') with
              | [] => Some (mk_estate (spec_chunk_after (N.of_nat c) m) (nset csid (enc_done None) (es_mem enc)),
                            calc_header wv_fixed h (Some h) ++ firstn c (x :: rem'), Some m)
              | rest => Some (mk_estate (N.of_nat c) (nset csid (enc_done (Some (m, rest))) (es_mem enc)),
                              calc_header wv_fixed h (Some h) ++ firstn c (x :: rem'), None)
              end) as Hs.
    { unfold enc_step. rewrite Hchunk.
      destruct (N.of_nat c =? 0) eqn:E0; [apply N.eqb_eq in E0; contradiction|].
      rewrite Hg. rewrite (basic_header_enc 3 csid Hcs). cbn [e_rest enc_done]. rewrite Hcut.
      rewrite (calc_header_cont h Hh). cbn [e_ext e_ts e_delta e_len e_type e_msid].
      destruct (skipn c (x :: rem')); rewrite <- !app_assoc; reflexivity. }
    destruct (skipn c (x :: rem')) as [|r0 rest] eqn:Esk.
    - exists [ECont csid false]. cbn [enc_run]. rewrite Hs. rewrite split_chunks_nil. cbn [flat_map].
      rewrite !app_nil_r. reflexivity.
    - set (enc1 := mk_estate (N.of_nat c) (nset csid (enc_done (Some (m, r0 :: rest))) (es_mem enc))) in *.
      assert (length (r0 :: rest) <= f)%nat as Hlen.
      { rewrite <- Esk. rewrite skipn_length. cbn [length] in *. lia. }
      destruct (IH (r0 :: rest) enc1 ltac:(discriminate) Hlen eq_refl
                  ltac:(unfold enc1; cbn [es_mem]; apply nget_nset_same)) as (script & Hrun).
      exists (ECont csid false :: script). cbn [enc_run]. rewrite Hs, Hrun.
      unfold enc1. cbn [es_mem]. rewrite nset_nset_same. reflexivity.
  Qed.

End WriterLegal.

Lemma writer_one h p c enc :
  hdr_ok h -> lenN p = h_len h -> msg_wf (msg_of h p) = true -> (0 < c)%nat ->
  es_chunk enc = N.of_nat c ->
  match nget (h_csid h) (es_mem enc) with Some e => e_rest e = None | None => True end ->
  exists script,
    enc_run enc script
    = Some (mk_estate (spec_chunk_after (N.of_nat c) (msg_of h p)) (nset (h_csid h) (enc_done h None) (es_mem enc)),
            message2chunks_core wv_fixed c h None p, [msg_of h p]).
Proof.
  intros Hh Hp Hwf Hc Hchunk Hclosed.
  set (csid := h_csid h) in *.
  pose proof Hh as (Hcs & _).
  assert (N.of_nat c <> 0) as Hc0 by lia.
  pose proof (enc_cut_firstn (es_chunk enc) p) as Hcut. rewrite Hchunk, Nat2N.id in Hcut.
  assert (enc_step enc (EStart 0 false (msg_of h p))
          = match skipn c p with
            | [] => Some (mk_estate (spec_chunk_after (N.of_nat c) (msg_of h p)) (nset csid (enc_done h None) (es_mem enc)),
                          calc_header wv_fixed h None ++ firstn c p, Some (msg_of h p))
            | rest => Some (mk_estate (N.of_nat c) (nset csid (enc_done h (Some (msg_of h p, rest))) (es_mem enc)),
                            calc_header wv_fixed h None ++ firstn c p, None)
            end) as Hs.
  { unfold enc_step. rewrite Hchunk.
    destruct (N.of_nat c =? 0) eqn:E0; [apply N.eqb_eq in E0; contradiction|].
    rewrite Hwf. unfold msg_of. cbn [g_csid g_payload g_type g_msid g_ts]. fold csid.
    assert ((match nget csid (es_mem enc) with
             | Some e => match e_rest e with None => true | Some _ => false end
             | None => true end) = true) as ->.
    { destruct (nget csid (es_mem enc)) as [e|]; [rewrite Hclosed|]; reflexivity. }
    cbn [andb negb]. rewrite (basic_header_enc 0 csid Hcs). cbn [N.eqb].
    rewrite Hcut. rewrite (calc_header_first h Hh). rewrite Hp. unfold enc_done.
    destruct (skipn c p); rewrite <- !app_assoc; reflexivity. }
  unfold message2chunks_core, message_pieces. cbn [wv_empty_chunk wv_fixed].
  destruct p as [|x p'].
  - assert (firstn c (@nil N) = []) as Hf by (destruct c; reflexivity).
    assert (skipn c (@nil N) = []) as Hsk by (destruct c; reflexivity). rewrite Hf, Hsk in Hs.
    exists [EStart 0 false (msg_of h [])]. cbn [enc_run]. rewrite Hs. cbn [flat_map app]. rewrite !app_nil_r. reflexivity.
  - cbn [length]. rewrite split_chunks_cons. remember (x :: p') as p eqn:Ep.
    destruct (skipn c p) as [|r0 rest] eqn:Esk.
    + exists [EStart 0 false (msg_of h p)]. cbn [enc_run]. rewrite Hs. rewrite split_chunks_nil. cbn [flat_map].
      rewrite !app_nil_r. reflexivity.
    + set (enc1 := mk_estate (N.of_nat c) (nset csid (enc_done h (Some (msg_of h p, r0 :: rest))) (es_mem enc))) in *.
      assert (length (r0 :: rest) <= length p')%nat as Hlen.
      { rewrite <- Esk. rewrite skipn_length. rewrite Ep. cbn [length]. lia. }
      destruct (writer_cont_pieces h p Hh Hp c Hc (length p') (r0 :: rest) enc1 ltac:(discriminate) Hlen eq_refl
                  ltac:(unfold enc1; cbn [es_mem]; apply nget_nset_same)) as (script & Hrun).
      exists (EStart 0 false (msg_of h p) :: script). cbn [enc_run]. rewrite Hs, Hrun.
      unfold enc1. cbn [es_mem]. rewrite nset_nset_same. rewrite <- app_assoc. reflexivity.
Qed.

(* ------------------------------------------------------------------ message sequences *)
(* a message lal sends through Message2Chunks: anything but Set Chunk Size
   (sent by MessagePacker) and aggregate messages (never sent) *)
Definition hp_ok (hp : rtmp_header * bytes) : Prop :=
  hdr_ok (fst hp) /\ lenN (snd hp) = h_len (fst hp) /\ bytes_ok (snd hp) /\
  h_type (fst hp) <> 1 /\ h_type (fst hp) <> 22.

Definition m2c_all (c : nat) (l : list (rtmp_header * bytes)) : bytes :=
  flat_map (fun hp => message2chunks_core wv_fixed c (fst hp) None (snd hp)) l.

Definition msgs_of (l : list (rtmp_header * bytes)) : list smsg :=
  map (fun hp => msg_of (fst hp) (snd hp)) l.

Lemma hp_ok_wf hp : hp_ok hp -> msg_wf (msg_of (fst hp) (snd hp)) = true.
Proof. intros (H1 & H2 & H3 & H4 & H5). now apply msg_wf_plain. Qed.

Lemma spec_chunk_after_plain chunk h p : h_type h <> 1 -> spec_chunk_after chunk (msg_of h p) = chunk.
Proof.
  intro H. unfold spec_chunk_after, msg_of, set_chunk_size_type. cbn [g_type].
  assert (h_type h =? 1 = false) as -> by lia. reflexivity.
Qed.

Lemma spec_deliver_plain h p : h_type h <> 22 -> spec_deliver (msg_of h p) = Some [msg_of h p].
Proof.
  intro H. unfold spec_deliver, msg_of, aggregate_type. cbn [g_type].
  assert (h_type h =? 22 = false) as -> by lia. reflexivity.
Qed.

Lemma deliver_all_plain l : Forall hp_ok l -> deliver_all (msgs_of l) = msgs_of l.
Proof.
  induction 1 as [|hp l Hhp _ IH]; [reflexivity|].
  cbn [msgs_of map deliver_all]. destruct Hhp as (_ & _ & _ & _ & H22).
  rewrite (spec_deliver_plain _ _ H22). cbn [app]. f_equal. exact IH.
Qed.

Lemma writer_seq_run c : (0 < c)%nat -> forall l enc,
  Forall hp_ok l -> all_closed enc -> es_chunk enc = N.of_nat c ->
  exists script enc',
    enc_run enc script = Some (enc', m2c_all c l, msgs_of l) /\ all_closed enc' /\ es_chunk enc' = N.of_nat c.
Proof.
  intros Hc. induction l as [|[h p] l IH]; intros enc Hl Hcl Hchunk.
  - exists [], enc. repeat split; assumption.
  - inversion Hl as [|? ? Hhp Hl']; subst.
    pose proof Hhp as (Hh & Hp & Hb & H1 & H22). cbn [fst snd] in *.
    destruct (writer_one h p c enc Hh Hp (hp_ok_wf _ Hhp) Hc Hchunk) as (s1 & Hr1).
    { destruct (nget (h_csid h) (es_mem enc)) as [e|] eqn:E; [eapply Hcl; eauto|exact I]. }
    rewrite (spec_chunk_after_plain _ _ _ H1) in Hr1.
    set (enc1 := mk_estate (N.of_nat c) (nset (h_csid h) (enc_done h None) (es_mem enc))) in *.
    destruct (IH enc1 Hl' ltac:(apply all_closed_set; [exact Hcl|reflexivity]) eq_refl) as (s2 & enc' & Hr2 & Hcl' & Hch').
    exists (s1 ++ s2), enc'. split; [|split; assumption].
    change (m2c_all c ((h, p) :: l)) with (message2chunks_core wv_fixed c h None p ++ m2c_all c l).
    change (msgs_of ((h, p) :: l)) with ([msg_of h p] ++ msgs_of l).
    exact (enc_run_app _ _ _ _ _ _ _ _ _ Hr1 Hr2).
Qed.

(* W *)
Theorem writer_legal c l :
  (0 < c)%nat -> Forall hp_ok l -> legal_chunking (N.of_nat c) (msgs_of l) (m2c_all c l).
Proof.
  intros Hc Hl.
  destruct (writer_seq_run c Hc l (init_estate (N.of_nat c)) Hl ltac:(intros k e; cbn; discriminate) eq_refl)
    as (script & enc' & Hr & _).
  exists script, enc'. exact Hr.
Qed.

(* lal's reader on a sequence written by lal's writer, from any state whose chunk streams are all idle *)
Definition all_idle (rd : cstate) : Prop := forall k, idle_at rd k.

Lemma idle_get_or_new rd k : idle_at rd k -> s_rbuf (get_or_new k rd) = [] /\ s_len (get_or_new k rd) = 0.
Proof.
  unfold idle_at, get_or_new. destruct (get_stream k (cs_streams rd)) as [s|].
  - intros (H1 & H2 & _). auto.
  - intros _. split; reflexivity.
Qed.

Lemma final_state_idle h p rd : all_idle rd -> all_idle (final_state h p rd).
Proof.
  intros H k. unfold idle_at, final_state, get_stream. cbn [cs_streams]. rewrite nget_nset.
  destruct (h_csid h =? k).
  - repeat split.
  - apply H.
Qed.

Lemma rview_plain_inv out h p :
  map rview out = [msg_of h p] -> Forall rlen_ok out -> lenN p = h_len h ->
  exists raw, out = [mk_rmsg h p raw].
Proof.
  intros Hv Hok Hp. destruct out as [|o [|o2 t]]; try discriminate.
  cbn [map] in Hv. inversion Hv as [Ho]. inversion Hok as [|? ? Hlo _]; subst.
  destruct o as [[a b c d e] pl raw]. unfold rview, msg_of in Ho. cbn in Ho. inversion Ho; subst.
  unfold rlen_ok in Hlo. cbn in Hlo. exists raw. f_equal. destruct h as [hc hl ht hm hts]. cbn in *. f_equal. congruence.
Qed.

Lemma lal_reads_seq c : (0 < c)%nat -> forall l rd,
  Forall hp_ok l -> cs_chunk rd = N.of_nat c -> all_idle rd ->
  exists rd' out,
    run_composer rd (m2c_all c l) = (rd', out, err_eof) /\
    map m_hdr out = map fst l /\ map m_payload out = map snd l /\
    all_idle rd' /\ cs_chunk rd' = N.of_nat c.
Proof.
  intros Hc. induction l as [|[h p] l IH]; intros rd Hl Hchunk Hidle.
  - exists rd, []. repeat split; try assumption.
  - inversion Hl as [|? ? Hhp Hl']; subst.
    pose proof Hhp as (Hh & Hp & Hb & H1 & H22). cbn [fst snd] in *.
    destruct (idle_get_or_new rd (h_csid h) (Hidle _)) as [Hrb Hsl].
    destruct (lal_reads_message h p c rd (m2c_all c l) Hh Hp (hp_ok_wf _ Hhp) Hc Hchunk Hrb Hsl)
      as (out & Hrun & Hd & Hok).
    rewrite (spec_deliver_plain _ _ H22) in Hd. inversion Hd as [Hv]. symmetry in Hv.
    destruct (rview_plain_inv out h p Hv Hok Hp) as (raw & ->).
    destruct (IH (final_state h p rd) Hl') as (rd' & outs & Hr2 & Hh2 & Hp2 & Hi2 & Hc2).
    { unfold final_state. cbn [cs_chunk]. rewrite (spec_chunk_after_plain _ _ _ H1). exact Hchunk. }
    { apply final_state_idle. exact Hidle. }
    exists rd', (mk_rmsg h p raw :: outs).
    change (m2c_all c ((h, p) :: l)) with (message2chunks_core wv_fixed c h None p ++ m2c_all c l).
    rewrite (Hrun _ _ _ Hr2).
    cbn [map m_hdr m_payload fst snd app]. rewrite Hh2, Hp2. repeat split; assumption.
Qed.

(* ------------------------------------------------------------------ statements used by Properties/C08.v *)
Lemma m2c_ok c h p : 0 < c -> message2chunks c h None p = Ok (message2chunks_core wv_fixed (N.to_nat c) h None p).
Proof.
  intro H. unfold message2chunks, message2chunks_v.
  assert (c =? 0 = false) as -> by lia. reflexivity.
Qed.

Lemma write_read_lal c h p st :
  0 < c -> hdr_ok h -> lenN p = h_len h -> bytes_ok p -> h_type h <> 1 -> h_type h <> 22 ->
  cs_chunk st = c -> idle_at st (h_csid h) ->
  exists bs raw,
    message2chunks c h None p = Ok bs /\
    run_composer st bs
    = (mk_cstate c (nset (h_csid h) (done_stream h) (cs_streams st)), [mk_rmsg h p raw], err_eof) /\
    idle_at (mk_cstate c (nset (h_csid h) (done_stream h) (cs_streams st))) (h_csid h).
Proof.
  intros Hc Hh Hp Hb H1 H22 Hchunk Hidle.
  destruct (idle_get_or_new st (h_csid h) Hidle) as [Hrb Hsl].
  destruct (lal_reads_message h p (N.to_nat c) st [] Hh Hp (msg_wf_plain h p Hh Hp Hb H1 H22) ltac:(lia)
              ltac:(rewrite N2Nat.id; exact Hchunk) Hrb Hsl) as (out & Hrun & Hd & Hok).
  rewrite (spec_deliver_plain _ _ H22) in Hd. inversion Hd as [Hv]. symmetry in Hv.
  destruct (rview_plain_inv out h p Hv Hok Hp) as (raw & ->).
  exists (message2chunks_core wv_fixed (N.to_nat c) h None p), raw.
  split; [apply m2c_ok; exact Hc|].
  specialize (Hrun _ _ _ (run_composer_nil rv_fixed (final_state h p st))).
  rewrite app_nil_r in Hrun. unfold final_state in Hrun.
  rewrite (spec_chunk_after_plain _ _ _ H1), Hchunk in Hrun.
  split; [exact Hrun|].
  unfold idle_at, get_stream. cbn [cs_streams]. rewrite nget_nset_same. repeat split.
Qed.

Lemma write_read_seq c l st :
  0 < c -> Forall hp_ok l -> cs_chunk st = c -> all_idle st ->
  exists st' out,
    run_composer st (m2c_all (N.to_nat c) l) = (st', out, err_eof) /\
    map m_hdr out = map fst l /\ map m_payload out = map snd l /\ all_idle st' /\ cs_chunk st' = c.
Proof.
  intros Hc Hl Hchunk Hidle.
  destruct (lal_reads_seq (N.to_nat c) ltac:(lia) l st Hl ltac:(rewrite N2Nat.id; exact Hchunk) Hidle)
    as (st' & out & H1 & H2 & H3 & H4 & H5).
  exists st', out. rewrite N2Nat.id in H5. repeat split; assumption.
Qed.

Lemma write_read_spec c l :
  0 < c < 4294967296 -> Forall hp_ok l ->
  ref_decode c (m2c_all (N.to_nat c) l) = Some (msgs_of l).
Proof.
  intros Hc Hl.
  rewrite <- (deliver_all_plain l Hl).
  apply ref_decode_legal; [unfold two32; lia|].
  rewrite <- (N2Nat.id c) at 1. apply writer_legal; [lia|exact Hl].
Qed.

Lemma write_read_spec_one c h p :
  0 < c < 4294967296 -> hdr_ok h -> lenN p = h_len h -> bytes_ok p -> h_type h <> 1 -> h_type h <> 22 ->
  exists bs, message2chunks c h None p = Ok bs /\ ref_decode c bs = Some [msg_of h p].
Proof.
  intros Hc Hh Hp Hb H1 H22.
  exists (message2chunks_core wv_fixed (N.to_nat c) h None p). split; [apply m2c_ok; lia|].
  pose proof (write_read_spec c [(h, p)] Hc) as H.
  cbn [m2c_all flat_map fst snd msgs_of map] in H. rewrite app_nil_r in H. apply H.
  constructor; [|constructor]. exact (conj Hh (conj Hp (conj Hb (conj H1 H22)))).
Qed.

(* ------------------------------------------------------------------ MessagePacker's single chunk header *)
Lemma packer_header_eq csid ty msid p c :
  2 <= csid <= 63 -> ty < 256 -> msid < 4294967296 -> lenN p < 16777216 -> (length p <= c)%nat -> (0 < c)%nat ->
  exists hb, single_chunk_header csid (lenN p) ty msid = Ok hb /\
             hb ++ p = message2chunks_core wv_fixed c (mk_hdr csid (lenN p) ty msid 0) None p.
Proof.
  intros Hc Ht Hm Hl Hlen Hc0.
  unfold single_chunk_header. assert (63 <? csid = false) as -> by lia.
  eexists. split; [reflexivity|].
  assert (hdr_ok (mk_hdr csid (lenN p) ty msid 0)) as Hh.
  { unfold hdr_ok. cbn. lia. }
  unfold message2chunks_core, message_pieces. cbn [wv_empty_chunk wv_fixed].
  rewrite (calc_header_first _ Hh). cbn [h_csid h_ts h_len h_type h_msid].
  assert (ts_escape <=? 0 = false) as -> by reflexivity.
  unfold basic_header. assert ((2 <=? csid) && (csid <=? 63) = true) as -> by lia.
  rewrite (be_put_3 (lenN p)) by exact Hl. rewrite le_put_4 by exact Hm.
  assert (u8 csid = csid) as -> by (unfold u8; lia).
  assert (u8 ty = ty) as -> by (unfold u8; lia).
  assert (0 * 64 + csid = csid) as -> by lia.
  destruct p as [|x p'].
  - cbn [flat_map app]. rewrite !app_nil_r. reflexivity.
  - cbn [length]. rewrite split_chunks_cons.
    rewrite firstn_all2, skipn_all2 by exact Hlen. rewrite split_chunks_nil. cbn [flat_map].
    rewrite !app_nil_r. unfold put24 at 1. rewrite <- !app_assoc. reflexivity.
Qed.
