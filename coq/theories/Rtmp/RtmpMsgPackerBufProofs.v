(* Proofs about the client message packer model (RtmpMsgPackerBuf.v). *)
From Lal Require Import Common.LBytes Common.LBytesProofs Common.Res Rtmp.RtmpMsgPackerBuf.
From Coq Require Import List Lia ZifyN ZifyNat ZifyBool.
Import ListNotations.
Open Scope N_scope.

(* the buffer is consistent: writePos = 12 + what was written, and inside the capacity *)
Definition healthy (b : buf) : Prop := b_w b = 12 + lenN (b_body b) /\ b_w b <= b_cap b.

Lemma lenN_nil : forall A, lenN (@nil A) = 0.
Proof. reflexivity. Qed.

Lemma grow_fixed : forall b n, healthy b ->
  exists c, grow true b n = Ok (mk_buf c (b_w b) (b_body b)) /\ b_w b + n <= c.
Proof.
  intros b n [Hw Hc]. unfold grow.
  destruct ((b_w b <=? b_cap b) && (n <=? b_cap b - b_w b)) eqn:E.
  - exists (b_cap b). split; [destruct b; reflexivity|].
    apply andb_prop in E. destruct E as [E1 E2]. apply N.leb_le in E1, E2. lia.
  - assert (Hlt : (b_cap b <? b_w b) = false) by (apply N.ltb_ge; assumption). rewrite Hlt.
    eexists. split; [reflexivity|]. cbn [andb].
    set (dbl := if b_cap b =? 0 then 128 else b_cap b * 2).
    destruct (dbl <? b_w b + n) eqn:E2; [lia|apply N.ltb_ge in E2; lia].
Qed.

Lemma firstn_all_N : forall (p : bytes) m, lenN p <= m -> firstn (N.to_nat (N.min m (lenN p))) p = p.
Proof.
  intros p m H. rewrite N.min_r by assumption. unfold lenN. rewrite Nnat.Nat2N.id. apply firstn_all.
Qed.

Lemma buf_write_fixed : forall b p, healthy b ->
  exists b', buf_write true b p = Ok b' /\ healthy b' /\ b_body b' = b_body b ++ p.
Proof.
  intros b p H. destruct (grow_fixed b (lenN p) H) as [c [Hg Hc]]. destruct H as [Hw Hcap].
  unfold buf_write. rewrite Hg. cbn [bind b_cap b_w b_body].
  assert (Hlt : (c <? b_w b) = false) by (apply N.ltb_ge; lia). rewrite Hlt.
  rewrite firstn_all_N by lia.
  eexists. split; [reflexivity|]. split; [|reflexivity].
  unfold healthy. cbn [b_cap b_w b_body]. rewrite lenN_app. lia.
Qed.

Lemma buf_writes_fixed : forall ps b, healthy b ->
  exists b', buf_writes true b ps = Ok b' /\ healthy b' /\ b_body b' = b_body b ++ concat ps.
Proof.
  induction ps as [|p t IH]; intros b H; simpl.
  - exists b. split; [reflexivity|]. split; [assumption|]. rewrite app_nil_r. reflexivity.
  - destruct (buf_write_fixed b p H) as [b1 [E1 [H1 B1]]]. rewrite E1. simpl.
    destruct (IH b1 H1) as [b2 [E2 [H2 B2]]]. exists b2. split; [assumption|]. split; [assumption|].
    rewrite B2, B1, app_assoc. reflexivity.
Qed.

(* a buffer between two messages: Reset, capacity at least the initial 256 *)
Definition idle (b : buf) : Prop := 12 <= b_cap b.

Lemma pack_msg_fixed : forall b ws csid typeid streamid, idle b ->
  exists b', pack_msg true b ws csid typeid streamid = Ok (spec_msg ws csid typeid streamid, b') /\ idle b'.
Proof.
  intros b ws csid typeid streamid Hi. unfold pack_msg.
  assert (Hh : healthy (mod_write_pos12 b)).
  { unfold healthy, mod_write_pos12, idle in *. cbn [b_cap b_w b_body]. rewrite lenN_nil. split; lia. }
  destruct (buf_writes_fixed ws _ Hh) as [b1 [E1 [[Hw Hc] B1]]]. rewrite E1.
  cbn [mod_write_pos12 b_body app] in B1. cbn [bind].
  unfold chunk_and_write, buf_body.
  assert (Hlt : (b_cap b1 <? b_w b1) = false) by (apply N.ltb_ge; exact Hc). rewrite Hlt. cbn [bind].
  eexists. split.
  - unfold spec_msg. rewrite B1. replace (b_w b1 - 12) with (lenN (concat ws)) by (rewrite Hw, B1; lia).
    reflexivity.
  - unfold idle in *. cbn [b_cap]. lia.
Qed.

(* With the repaired grow the whole client sequence never panics and puts on the
   wire exactly the specified messages, whatever the lengths of app, tcUrl,
   flashVer and stream name (with its URL parameters). *)
Theorem pack_seq_fixed : forall app tc_url flash_ver stream is_push,
  pack_seq true app tc_url flash_ver stream is_push = Ok (spec_seq app tc_url flash_ver stream is_push).
Proof.
  intros. unfold pack_seq, spec_seq.
  assert (H0 : idle (new_buf 256)) by (unfold idle, new_buf; cbn [b_cap]; lia).
  destruct (pack_msg_fixed _ chunk_size_writes 2 1 0 H0) as [b1 [E1 H1]]. rewrite E1. cbn [bind].
  destruct (pack_msg_fixed _ (connect_writes app tc_url flash_ver) 3 20 0 H1) as [b2 [E2 H2]]. rewrite E2. cbn [bind].
  destruct (pack_msg_fixed _ create_stream_writes 3 20 0 H2) as [b3 [E3 H3]]. rewrite E3. cbn [bind].
  destruct (pack_msg_fixed _ (if is_push then publish_writes stream else play_writes stream) 5 20 1 H3) as [b4 [E4 H4]].
  rewrite E4. cbn [bind]. reflexivity.
Qed.

(* the specified messages carry the strings unabridged: every Write of the AMF0
   encoding is a contiguous part of the message body *)
Lemma spec_msg_short : forall ws csid typeid streamid, lenN (concat ws) <= local_chunk_size ->
  spec_msg ws csid typeid streamid = chunk_header0 csid (lenN (concat ws)) typeid streamid ++ concat ws.
Proof. intros. unfold spec_msg. assert (E : (lenN (concat ws) <=? local_chunk_size) = true) by (apply N.leb_le; assumption). rewrite E. reflexivity. Qed.

(* F-15: on the pinned tree a stream name with 3000 bytes of URL parameters panics *)
Lemma pack_seq_pinned_panics :
  exists app tc_url flash_ver stream,
    pack_seq false app tc_url flash_ver stream true = Panic site_grow_slice.
Proof. exists [108; 105; 118; 101], [114; 116; 109; 112], [70], (repeat 120 3000). vm_compute. reflexivity. Qed.
