(* Proofs about the AMF0 model (RtmpAmf0.v). *)
From Lal Require Import Common.LBytes Common.Res Common.LBytesProofs Rtmp.RtmpAmf0.
From Coq Require Import Lia ZifyN ZifyNat ZifyBool.
Ltac Zify.zify_post_hook ::= Z.div_mod_to_equations.
Open Scope N_scope.

(* ------------------------------------------------------------------------ *)
(* helpers *)

Lemma len_ltb_spec b n : len_ltb b n = Nat.ltb (length b) n.
Proof.
  revert b; induction n as [|n IH]; intro b; cbn [len_ltb].
  - symmetry. apply Nat.ltb_ge. lia.
  - destruct b as [|x t]; cbn [length].
    + symmetry. apply Nat.ltb_lt. lia.
    + rewrite IH. destruct (Nat.ltb_spec (length t) n), (Nat.ltb_spec (S (length t)) (S n)); try reflexivity; lia.
Qed.

Lemma len_ltb_false b n : (n <= length b)%nat -> len_ltb b n = false.
Proof. intro H. rewrite len_ltb_spec. apply Nat.ltb_ge. exact H. Qed.

Lemma len_ltb_true b n : (length b < n)%nat -> len_ltb b n = true.
Proof. intro H. rewrite len_ltb_spec. apply Nat.ltb_lt. exact H. Qed.

Lemma take_n_spec b : forall n,
  take_n b n = if n <=? lenN b then Some (firstn (N.to_nat n) b, skipn (N.to_nat n) b) else None.
Proof.
  unfold lenN. induction b as [|x t IH]; intro n.
  - cbn [take_n length]. destruct (N.eqb_spec n 0) as [->|Hn].
    + reflexivity.
    + destruct (N.leb_spec n (N.of_nat 0)); [lia|reflexivity].
  - cbn [take_n]. destruct (N.eqb_spec n 0) as [->|Hn].
    + reflexivity.
    + rewrite IH. cbn [length].
      destruct (N.leb_spec (N.pred n) (N.of_nat (length t))) as [H|H];
      destruct (N.leb_spec n (N.of_nat (S (length t)))) as [H'|H']; try lia.
      * replace (N.to_nat n) with (S (N.to_nat (N.pred n))) by lia. reflexivity.
      * reflexivity.
Qed.

Lemma take_n_app a r : take_n (a ++ r) (lenN a) = Some (a, r).
Proof.
  rewrite take_n_spec. rewrite lenN_app.
  destruct (N.leb_spec (lenN a) (lenN a + lenN r)) as [_|H]; [|lia].
  unfold lenN. rewrite Nat2N.id.
  rewrite firstn_app, Nat.sub_diag, firstn_all, firstn_O, app_nil_r.
  rewrite skipn_app, Nat.sub_diag, skipn_all, skipn_O. reflexivity.
Qed.

Lemma take_n_some b n a r : take_n b n = Some (a, r) -> b = a ++ r /\ lenN a = n.
Proof.
  rewrite take_n_spec. destruct (N.leb_spec n (lenN b)) as [H|H]; [|discriminate].
  intro E; inversion E; subst. split.
  - symmetry. apply firstn_skipn.
  - unfold lenN in *. rewrite firstn_length_le by lia. lia.
Qed.

Lemma be_chk_ok site n b : (n <= length b)%nat -> be_chk site n b = Ok (be_get (firstn n b)).
Proof. intro H. unfold be_chk. now rewrite len_ltb_false. Qed.

Lemma firstn_app_exact {A} (a r : list A) n : n = length a -> firstn n (a ++ r) = a.
Proof. intros ->. rewrite firstn_app, Nat.sub_diag, firstn_all, firstn_O. apply app_nil_r. Qed.

Lemma skipn_app_exact {A} (a r : list A) n : n = length a -> skipn n (a ++ r) = r.
Proof. intros ->. rewrite skipn_app, Nat.sub_diag, skipn_all, skipn_O. reflexivity. Qed.

Lemma lenN_cons {A} (x : A) l : lenN (x :: l) = 1 + lenN l.
Proof. unfold lenN. cbn [length]. lia. Qed.

Lemma lenN_be_put n v : lenN (be_put n v) = N.of_nat n.
Proof. unfold lenN. now rewrite be_put_length. Qed.

(* dres monad *)
Lemma dbind_lift_ok {A B} (a : A) (f : A -> dres B) : dbind (dlift (Ok a)) f = f a.
Proof. unfold dbind, dlift. cbn [fst snd]. destruct (f a) as [r d]. cbn [fst snd]. f_equal. lia. Qed.

Lemma dbind_lift_err {A B} e (f : A -> dres B) : dbind (dlift (Err e)) f = (Err e, 0).
Proof. reflexivity. Qed.

Lemma dbind_ok {A B} (a : A) d (f : A -> dres B) :
  dbind (Ok a, d) f = (fst (f a), N.max d (snd (f a))).
Proof. reflexivity. Qed.

(* ------------------------------------------------------------------------ *)
(* scalar round trips: lal's reader on lal's writer, followed by any bytes *)

Lemma read_number_write bits r :
  bits < 18446744073709551616 ->
  read_number (write_number bits ++ r) = Ok (bits, 9, r).
Proof.
  intro H. unfold read_number, write_number.
  assert (L : length (be_put 8 bits) = 8%nat) by apply be_put_length.
  rewrite len_ltb_false by (cbn [app length]; rewrite app_length; lia).
  cbn [app byte0 bind N.eqb negb]. rewrite !skipn_cons, skipn_O.
  rewrite be_chk_ok by (rewrite app_length; lia).
  rewrite firstn_app_exact by (symmetry; exact L).
  rewrite be_get_put_small by exact H.
  rewrite skipn_app_exact by (symmetry; exact L). reflexivity.
Qed.

Lemma read_boolean_write v r : read_boolean (write_boolean v ++ r) = Ok (v, 2, r).
Proof. destruct v; reflexivity. Qed.

Lemma read_null_write r : read_null (write_null ++ r) = Ok (1, r).
Proof. reflexivity. Qed.

Lemma read_string_wo_key k r :
  lenN k < 65536 ->
  read_string_wo (be_put 2 (lenN k) ++ k ++ r) = Ok (k, 2 + lenN k, r).
Proof.
  intro H. unfold read_string_wo.
  assert (L : length (be_put 2 (lenN k)) = 2%nat) by apply be_put_length.
  rewrite len_ltb_false by (rewrite app_length; lia).
  rewrite be_chk_ok by (rewrite app_length; lia).
  cbn [bind]. rewrite firstn_app_exact by (symmetry; exact L).
  rewrite be_get_put_small by exact H.
  rewrite skipn_app_exact by (symmetry; exact L).
  rewrite take_n_app. reflexivity.
Qed.

Lemma read_long_string_wo_write s r :
  lenN s < 4294967296 ->
  read_long_string_wo (be_put 4 (lenN s) ++ s ++ r) = Ok (s, 4 + lenN s, r).
Proof.
  intro H. unfold read_long_string_wo.
  assert (L : length (be_put 4 (lenN s)) = 4%nat) by apply be_put_length.
  rewrite len_ltb_false by (rewrite app_length; lia).
  rewrite be_chk_ok by (rewrite app_length; lia).
  cbn [bind]. rewrite firstn_app_exact by (symmetry; exact L).
  rewrite be_get_put_small by exact H.
  rewrite skipn_app_exact by (symmetry; exact L).
  rewrite take_n_app. reflexivity.
Qed.

Lemma write_string_len s :
  lenN (write_string s) = if lenN s <? 65536 then 3 + lenN s else 5 + lenN s.
Proof.
  unfold write_string. destruct (lenN s <? 65536); cbv iota.
  - rewrite lenN_cons, lenN_app, lenN_be_put. lia.
  - rewrite lenN_cons, lenN_app, lenN_be_put. lia.
Qed.

Lemma read_string_write s r :
  lenN s < 4294967296 ->
  read_string (write_string s ++ r) = Ok (s, lenN (write_string s), r).
Proof.
  intro H. rewrite write_string_len. unfold read_string, write_string.
  destruct (N.ltb_spec (lenN s) 65536) as [Hs|Hs].
  - cbn [app len_ltb byte0 bind]. change (2 =? 2) with true. cbv iota. rewrite skipn_cons, skipn_O. rewrite <- app_assoc.
    rewrite read_string_wo_key by exact Hs. cbn [bind]. f_equal. f_equal. f_equal. lia.
  - cbn [app len_ltb byte0 bind]. change (12 =? 2) with false. change (12 =? 12) with true. cbv iota.
    rewrite skipn_cons, skipn_O. rewrite <- app_assoc.
    rewrite read_long_string_wo_write by exact H. cbn [bind]. f_equal. f_equal. f_equal. lia.
Qed.

(* ------------------------------------------------------------------------ *)
(* Amf0.read on each marker *)
Section ElemBody.
Variables (cfg : amf_cfg) (ro ra rs : creader) (d : N).

Lemma elem_body_nil : elem_body cfg ro ra rs d [] = (Err e_short, 0).
Proof. reflexivity. Qed.

Lemma elem_body_cons vt t :
  elem_body cfg ro ra rs d (vt :: t) =
    let b := vt :: t in
    if vt =? 0 then
      dlift (let* (v, l, rest) := read_number b in Ok (Some (ANum v), l, rest))
    else if vt =? 1 then
      dlift (let* (v, l, rest) := read_boolean b in Ok (Some (ABool v), l, rest))
    else if (vt =? 2) || (cfg_long_in_container cfg && (vt =? 12)) then
      dlift (let* (v, l, rest) := read_string b in Ok (Some (AStr v), l, rest))
    else if vt =? 5 then
      dlift (let* (l, rest) := read_null b in Ok (None, l, rest))
    else if vt =? 3 then
      dbind (ro (d + 1) b) (fun '(ops, l, rest) => dret (Some (APairs ops), l, rest))
    else if vt =? 8 then
      dbind (ra (d + 1) b) (fun '(ops, l, rest) => dret (Some (APairs ops), l, rest))
    else if vt =? 10 then
      dbind (rs (d + 1) b) (fun '(ops, l, rest) => dret (Some (APairs ops), l, rest))
    else if (vt =? 6) || (vt =? 13) then
      dlift (let* (l, rest) := read_undefined_or_unsupported b in Ok (None, l, rest))
    else dlift (Err (e_type vt)).
Proof.
  unfold elem_body. cbn [len_ltb byte0]. rewrite dbind_lift_ok. reflexivity.
Qed.
End ElemBody.

(* a value WriteObject can emit is accepted by the reader configuration *)
Definition wval_ok (cfg : amf_cfg) (v : wval) : Prop :=
  match v with
  | WStr s => lenN s < 4294967296 /\ (cfg_long_in_container cfg = true \/ lenN s < 65536)
  | WNum n => n < 18446744073709551616
  | WInt z => f64_of_Z z < 18446744073709551616
  | WBool _ => True
  end.

Lemma elem_body_wval cfg ro ra rs d v rest :
  wval_ok cfg v ->
  elem_body cfg ro ra rs d (write_wval v ++ rest)
  = (Ok (Some (aval_of_wval v), lenN (write_wval v), rest), 0).
Proof.
  intro H. destruct v as [s|n|z|b]; cbn [write_wval aval_of_wval wval_ok] in *.
  - destruct H as [H32 Hl].
    pose proof (read_string_write s rest H32) as R.
    unfold write_string in *. destruct (N.ltb_spec (lenN s) 65536) as [Hs|Hs].
    + cbn [app] in *. rewrite elem_body_cons. cbv zeta.
      change (2 =? 0) with false. change (2 =? 1) with false. change (2 =? 2) with true. cbn [orb]. cbv iota.
      rewrite R. reflexivity.
    + destruct Hl as [Hl|Hl]; [|lia].
      cbn [app] in *. rewrite elem_body_cons. cbv zeta.
      change (12 =? 0) with false. change (12 =? 1) with false. change (12 =? 2) with false. change (12 =? 12) with true.
      rewrite Hl. cbn [orb andb]. cbv iota.
      rewrite R. reflexivity.
  - pose proof (read_number_write n rest H) as R. unfold write_number in *.
    cbn [app] in *. rewrite elem_body_cons. cbv zeta. change (0 =? 0) with true. cbv iota.
    rewrite R. reflexivity.
  - pose proof (read_number_write (f64_of_Z z) rest H) as R. unfold write_number in *.
    cbn [app] in *. rewrite elem_body_cons. cbv zeta. change (0 =? 0) with true. cbv iota.
    rewrite R. reflexivity.
  - destruct b; reflexivity.
Qed.

Lemma is_end_end r : is_end (end_marker ++ r) = true.
Proof. reflexivity. Qed.

(* a key written by WriteObject followed by a value marker is never the end marker *)
Lemma is_end_key_false k v rest :
  lenN k < 65536 ->
  is_end (be_put 2 (lenN k) ++ k ++ write_wval v ++ rest) = false.
Proof.
  intro H. cbn [be_put app]. change (256 ^ N.of_nat 1) with 256. change (256 ^ N.of_nat 0) with 1.
  rewrite N.div_1_r.
  destruct k as [|x k].
  - change (lenN []) with 0. cbn [app].
    change (0 / 256 mod 256) with 0. change (0 mod 256) with 0.
    destruct v as [s|n|z|b]; cbn [write_wval write_number write_boolean app is_end]; try reflexivity.
    unfold write_string. destruct (lenN s <? 65536); reflexivity.
  - rewrite lenN_cons in *. set (n := 1 + lenN k) in *.
    assert (Hn : 0 < n) by lia.
    destruct (N.eq_dec (n / 256 mod 256) 0) as [E1|E1].
    + rewrite E1. destruct (N.eq_dec (n mod 256) 0) as [E2|E2].
      * exfalso. lia.
      * cbn [is_end]. destruct (n mod 256) eqn:E; [contradiction|reflexivity].
    + cbn [is_end]. destruct (n / 256 mod 256) eqn:E; [contradiction|reflexivity].
Qed.

Lemma write_pairs_cons_len k v t :
  lenN (write_pairs ((k, v) :: t)) = 2 + lenN k + lenN (write_wval v) + lenN (write_pairs t).
Proof. cbn [write_pairs]. rewrite !lenN_app, lenN_be_put. lia. Qed.

(* the pair loop of ReadObject on the pairs WriteObject wrote *)
Lemma obj_loop_write_pairs cfg d r : forall l fuel,
  (length l < fuel)%nat ->
  Forall (fun kv => lenN (fst kv) < 65536 /\ wval_ok cfg (snd kv)) l ->
  obj_loop fuel cfg d (write_pairs l ++ r)
  = (Ok (map (fun kv => (fst kv, aval_of_wval (snd kv))) l, lenN (write_pairs l), r), 0).
Proof.
  induction l as [|[k v] t IH]; intros fuel Hf Hwf.
  - destruct fuel as [|f]; [cbn [length] in Hf; lia|].
    cbn [obj_loop write_pairs]. rewrite is_end_end. reflexivity.
  - destruct fuel as [|f]; [cbn [length] in Hf; lia|].
    inversion Hwf as [|? ? [Hk Hv] Ht]; subst. cbn [fst snd] in *.
    cbn [obj_loop]. cbn [write_pairs]. rewrite <- !app_assoc.
    rewrite is_end_key_false by exact Hk.
    rewrite read_string_wo_key by exact Hk. rewrite dbind_lift_ok.
    rewrite elem_body_wval by exact Hv. rewrite dbind_ok. cbn [fst snd].
    rewrite IH by (cbn [length] in Hf; try lia; exact Ht). cbn [fst snd dbind dret push_pair map].
    assert (E : lenN (be_put 2 (lenN k) ++ k ++ write_wval v ++ write_pairs t)
                = 2 + lenN k + lenN (write_wval v) + lenN (write_pairs t))
      by (rewrite !lenN_app, lenN_be_put; lia).
    rewrite E. reflexivity.
Qed.

Lemma write_pairs_length_ge l : (length l <= length (write_pairs l))%nat.
Proof.
  induction l as [|[k v] t IH]; cbn [write_pairs length]; [lia|].
  rewrite !app_length, be_put_length. lia.
Qed.

Lemma write_object_len l : lenN (write_object l) = 1 + lenN (write_pairs l).
Proof. unfold write_object. apply lenN_cons. Qed.

(* ReadObject on WriteObject's output followed by any bytes *)
Lemma read_object_write cfg l r :
  too_deep cfg 1 = false ->
  Forall (fun kv => lenN (fst kv) < 65536 /\ wval_ok cfg (snd kv)) l ->
  read_object cfg (write_object l ++ r)
  = (Ok (map (fun kv => (fst kv, aval_of_wval (snd kv))) l, lenN (write_object l), r), 1).
Proof.
  intros Hd Hwf. unfold read_object, object_body. rewrite Hd.
  unfold write_object. cbn [app len_ltb byte0]. rewrite dbind_lift_ok.
  change (negb (3 =? 3)) with false. cbv iota. rewrite skipn_cons, skipn_O.
  rewrite obj_loop_write_pairs; [|unfold fuel_for; cbn [length]; rewrite app_length;
                                   pose proof (write_pairs_length_ge l); unfold bytes in *; lia|exact Hwf].
  rewrite dbind_ok. unfold denter. cbn [fst snd dret]. rewrite lenN_cons. reflexivity.
Qed.

(* ------------------------------------------------------------------------ *)
(* totality: no reader panics or runs out of fuel; a successful read
   consumed a prefix of the input and returns the rest *)

Definition okr {X} (b : bytes) (minc : N) (r : res (X * N * bytes)) : Prop :=
  r <> Err err_out_of_fuel /\ (forall s, r <> Panic s) /\
  (forall x n rest, r = Ok (x, n, rest) -> minc <= n /\ exists pre, b = pre ++ rest /\ lenN pre = n).

Lemma okr_err {X} b m e : e <> err_out_of_fuel -> @okr X b m (Err e).
Proof.
  intro H. split; [intro E; inversion E; contradiction|]. split; [discriminate|]. discriminate.
Qed.

Lemma okr_ok {X} b m (x : X) n rest pre :
  m <= n -> b = pre ++ rest -> lenN pre = n -> okr b m (Ok (x, n, rest)).
Proof.
  intros Hm Hb Hl. split; [discriminate|]. split; [discriminate|].
  intros x' n' rest' E. inversion E; subst. split; [exact Hm|].
  exists pre. split; reflexivity.
Qed.

Lemma okr_weaken {X} b m m' (r : res (X * N * bytes)) : m' <= m -> okr b m r -> okr b m' r.
Proof.
  intros Hm (H1 & H2 & H3). split; [exact H1|]. split; [exact H2|].
  intros x n rest E. destruct (H3 _ _ _ E) as [Hn Hp]. split; [lia|exact Hp].
Qed.

(* mapping the value component does not matter *)
Lemma okr_map {X Y} b m (r : res (X * N * bytes)) (g : X -> Y) :
  okr b m r -> okr b m (let* (x, l, rest) := r in Ok (g x, l, rest)).
Proof.
  intros (H1 & H2 & H3). destruct r as [[[x l] rest]|e|s]; cbn [bind].
  - destruct (H3 _ _ _ eq_refl) as [Hm [pre [Hb Hl]]]. eapply okr_ok; eassumption.
  - apply okr_err. intro E; subst. contradiction.
  - exfalso. exact (H2 s eq_refl).
Qed.

Lemma fixed_prefix (b : bytes) n : (n <= length b)%nat ->
  exists pre, b = pre ++ skipn n b /\ lenN pre = N.of_nat n.
Proof.
  intro H. exists (firstn n b). split.
  - symmetry. apply firstn_skipn.
  - unfold lenN. rewrite firstn_length_le by exact H. reflexivity.
Qed.

Lemma byte0_ok site b : (1 <= length b)%nat -> exists x t, b = x :: t /\ byte0 site b = Ok x.
Proof. destruct b as [|x t]; cbn [length]; [lia|]. intros _. exists x, t. split; reflexivity. Qed.

Lemma e_type_not_fuel m : m < 256 \/ True -> e_type m <> err_out_of_fuel.
Proof. intros _. unfold e_type, err_out_of_fuel. lia. Qed.

Lemma e_short_not_fuel : e_short <> err_out_of_fuel.
Proof. discriminate. Qed.
Lemma e_deep_not_fuel : e_deep <> err_out_of_fuel.
Proof. discriminate. Qed.

Lemma read_string_wo_okr b : okr b 2 (read_string_wo b).
Proof.
  unfold read_string_wo. rewrite len_ltb_spec.
  destruct (Nat.ltb_spec (length b) 2) as [H|H]; [apply okr_err, e_short_not_fuel|].
  rewrite be_chk_ok by exact H. cbn [bind].
  destruct (take_n (skipn 2 b) (be_get (firstn 2 b))) as [[s rest]|] eqn:E; [|apply okr_err, e_short_not_fuel].
  apply take_n_some in E. destruct E as [E1 E2].
  apply okr_ok with (pre := firstn 2 b ++ s).
  - lia.
  - rewrite <- app_assoc, <- E1. symmetry. apply firstn_skipn.
  - rewrite lenN_app. unfold lenN at 1. rewrite firstn_length_le by exact H. lia.
Qed.

Lemma read_long_string_wo_okr b : okr b 4 (read_long_string_wo b).
Proof.
  unfold read_long_string_wo. rewrite len_ltb_spec.
  destruct (Nat.ltb_spec (length b) 4) as [H|H]; [apply okr_err, e_short_not_fuel|].
  rewrite be_chk_ok by exact H. cbn [bind].
  destruct (take_n (skipn 4 b) (be_get (firstn 4 b))) as [[s rest]|] eqn:E; [|apply okr_err, e_short_not_fuel].
  apply take_n_some in E. destruct E as [E1 E2].
  apply okr_ok with (pre := firstn 4 b ++ s).
  - lia.
  - rewrite <- app_assoc, <- E1. symmetry. apply firstn_skipn.
  - rewrite lenN_app. unfold lenN at 1. rewrite firstn_length_le by exact H. lia.
Qed.

(* prepend one consumed byte *)
Lemma okr_shift1 {X} x t m (r : res (X * N * bytes)) :
  okr t m r -> okr (x :: t) (m + 1) (let* (s, l, rest) := r in Ok (s, l + 1, rest)).
Proof.
  intros (H1 & H2 & H3). destruct r as [[[s l] rest]|e|p]; cbn [bind].
  - destruct (H3 _ _ _ eq_refl) as [Hm [pre [Hb Hl]]].
    apply okr_ok with (pre := x :: pre); [lia|subst; reflexivity|rewrite lenN_cons; lia].
  - apply okr_err. intro E; subst. contradiction.
  - exfalso. exact (H2 p eq_refl).
Qed.

Lemma read_string_okr b : okr b 1 (read_string b).
Proof.
  unfold read_string. destruct b as [|m t]; [apply okr_err, e_short_not_fuel|].
  cbn [len_ltb byte0 bind]. rewrite skipn_cons, skipn_O.
  destruct (m =? 2).
  - eapply okr_weaken; [|apply okr_shift1, read_string_wo_okr]. lia.
  - destruct (m =? 12).
    + eapply okr_weaken; [|apply okr_shift1, read_long_string_wo_okr]. lia.
    + apply okr_err, e_type_not_fuel. now right.
Qed.

Lemma read_number_okr b : okr b 1 (read_number b).
Proof.
  unfold read_number. rewrite len_ltb_spec.
  destruct (Nat.ltb_spec (length b) 9) as [H|H]; [apply okr_err, e_short_not_fuel|].
  destruct (byte0_ok 4 b) as [x [t [Hb ->]]]; [lia|]. cbn [bind].
  destruct (negb (x =? 0)); [apply okr_err, e_type_not_fuel; now right|].
  rewrite be_chk_ok by (rewrite skipn_length; lia). cbn [bind].
  destruct (fixed_prefix b 9 H) as [pre [E1 E2]].
  apply okr_ok with (pre := pre); [lia|exact E1|exact E2].
Qed.

Lemma read_boolean_okr b : okr b 1 (read_boolean b).
Proof.
  unfold read_boolean. rewrite len_ltb_spec.
  destruct (Nat.ltb_spec (length b) 2) as [H|H]; [apply okr_err, e_short_not_fuel|].
  destruct (byte0_ok 6 b) as [x [t [Hb ->]]]; [lia|]. cbn [bind].
  destruct (negb (x =? 1)); [apply okr_err, e_type_not_fuel; now right|].
  destruct (byte0_ok 7 (skipn 1 b)) as [y [t' [Hb' ->]]]; [rewrite skipn_length; lia|]. cbn [bind].
  destruct (fixed_prefix b 2 H) as [pre [E1 E2]].
  apply okr_ok with (pre := pre); [lia|exact E1|exact E2].
Qed.

(* the readers without a value component, as (unit-less) triples *)
Definition okr2 (b : bytes) (r : res (N * bytes)) : Prop :=
  okr b 1 (let* (l, rest) := r in Ok (tt, l, rest)).

Lemma read_null_okr b : okr2 b (read_null b).
Proof.
  unfold okr2, read_null. destruct b as [|m t]; [apply okr_err, e_short_not_fuel|].
  cbn [len_ltb byte0 bind]. destruct (negb (m =? 5)); cbn [bind].
  - apply okr_err, e_type_not_fuel. now right.
  - rewrite skipn_cons, skipn_O. apply okr_ok with (pre := [m]); [lia|reflexivity|reflexivity].
Qed.

Lemma read_undef_okr b : okr2 b (read_undefined_or_unsupported b).
Proof.
  unfold okr2, read_undefined_or_unsupported. destruct b as [|m t]; [apply okr_err, e_short_not_fuel|].
  cbn [len_ltb bind]. rewrite skipn_cons, skipn_O.
  apply okr_ok with (pre := [m]); [lia|reflexivity|reflexivity].
Qed.

Lemma okr2_map {Y} b (r : res (N * bytes)) (y : Y) :
  okr2 b r -> okr b 1 (let* (l, rest) := r in Ok (y, l, rest)).
Proof.
  unfold okr2. intros (H1 & H2 & H3). destruct r as [[l rest]|e|s]; cbn [bind] in *.
  - destruct (H3 _ _ _ eq_refl) as [Hm [pre [Hb Hl]]]. eapply okr_ok; eassumption.
  - apply okr_err. intro E; subst. contradiction.
  - exfalso. exact (H2 s eq_refl).
Qed.

Definition okd {X} (b : bytes) (m : N) (r : dres (X * N * bytes)) : Prop := okr b m (fst r).

Lemma dbind_fst {A B} (r : dres A) (f : A -> dres B) :
  fst (dbind r f) = match fst r with Ok a => fst (f a) | Err e => Err e | Panic s => Panic s end.
Proof. unfold dbind. destruct (fst r); reflexivity. Qed.

Lemma dbind_fst_map {X Y} (r : dres (X * N * bytes)) (g : X -> Y) :
  fst (dbind r (fun '(x, l, rest) => dret (g x, l, rest)))
  = (let* (x, l, rest) := fst r in Ok (g x, l, rest)).
Proof. rewrite dbind_fst. destruct (fst r) as [[[x l] rest]|e|s]; reflexivity. Qed.

Lemma okr_prepend {X Y} pre0 t m (r : res (X * N * bytes)) (g : X -> Y) c :
  c = lenN pre0 -> okr t m r ->
  okr (pre0 ++ t) (c + m) (let* (s, l, rest) := r in Ok (g s, c + l, rest)).
Proof.
  intros Hc (H1 & H2 & H3). destruct r as [[[s l] rest]|e|p]; cbn [bind].
  - destruct (H3 _ _ _ eq_refl) as [Hm [pre [Hb Hl]]].
    apply okr_ok with (pre := pre0 ++ pre); [lia|subst; now rewrite app_assoc|rewrite lenN_app; lia].
  - apply okr_err. intro E; subst. contradiction.
  - exfalso. exact (H2 p eq_refl).
Qed.

Lemma is_end_inv b : is_end b = true -> exists t, b = 0 :: 0 :: 9 :: t.
Proof.
  destruct b as [|x [|y [|z t]]]; cbn [is_end]; try discriminate;
    try (destruct x; discriminate); try (destruct x; [destruct y|]; discriminate).
  destruct x as [|px]; [|discriminate]. destruct y as [|py]; [|discriminate].
  destruct z as [|pz]; [discriminate|].
  destruct pz as [pz|pz|]; try discriminate.
  destruct pz as [pz|pz|]; try discriminate.
  destruct pz as [pz|pz|]; try discriminate.
  destruct pz as [pz|pz|]; try discriminate.
  intros _. exists t. reflexivity.
Qed.

(* Amf0.read: given container readers that are fine on this input *)
Lemma elem_body_okd cfg (ro ra rs : creader) d b :
  (forall d', okd b 1 (ro d' b)) -> (forall d', okd b 1 (ra d' b)) -> (forall d', okd b 1 (rs d' b)) ->
  okd b 1 (elem_body cfg ro ra rs d b).
Proof.
  intros Ho Ha Hs. unfold okd. destruct b as [|vt t]; [apply okr_err, e_short_not_fuel|].
  rewrite elem_body_cons. cbv zeta.
  destruct (vt =? 0); [apply (okr_map _ 1 _ (fun v => Some (ANum v))), read_number_okr|].
  destruct (vt =? 1); [apply (okr_map _ 1 _ (fun v => Some (ABool v))), read_boolean_okr|].
  destruct ((vt =? 2) || (cfg_long_in_container cfg && (vt =? 12)));
    [apply (okr_map _ 1 _ (fun v => Some (AStr v))), read_string_okr|].
  destruct (vt =? 5); [apply (okr2_map _ _ (@None aval)), read_null_okr|].
  destruct (vt =? 3); [rewrite (dbind_fst_map _ (fun ops => Some (APairs ops))); apply okr_map, Ho|].
  destruct (vt =? 8); [rewrite (dbind_fst_map _ (fun ops => Some (APairs ops))); apply okr_map, Ha|].
  destruct (vt =? 10); [rewrite (dbind_fst_map _ (fun ops => Some (APairs ops))); apply okr_map, Hs|].
  destruct ((vt =? 6) || (vt =? 13)); [apply (okr2_map _ _ (@None aval)), read_undef_okr|].
  apply okr_err, e_type_not_fuel. now right.
Qed.

Lemma object_body_okd cfg loop d b :
  (forall d', okd (skipn 1 b) 0 (loop d' (skipn 1 b))) ->
  okd b 1 (object_body cfg loop d b).
Proof.
  intro Hl. unfold okd, object_body. destruct (too_deep cfg d); [apply okr_err, e_deep_not_fuel|].
  unfold denter. cbn [fst]. destruct b as [|m t]; [apply okr_err, e_short_not_fuel|].
  cbn [len_ltb byte0]. rewrite dbind_lift_ok.
  destruct (negb (m =? 3)); [apply okr_err, e_type_not_fuel; now right|].
  rewrite skipn_cons, skipn_O in *.
  rewrite dbind_fst. specialize (Hl d). unfold okd in Hl.
  pose proof (okr_prepend [m] t 0 (fst (loop d t)) (fun x => x) 1 eq_refl Hl) as P.
  destruct (fst (loop d t)) as [[[ops l] rest]|e|s]; exact P.
Qed.

Lemma strict_body_okd cfg loop d b :
  (forall d' c, okd (skipn 5 b) 0 (loop d' c (skipn 5 b))) ->
  okd b 1 (strict_body cfg loop d b).
Proof.
  intro Hl. unfold okd, strict_body. destruct (too_deep cfg d); [apply okr_err, e_deep_not_fuel|].
  unfold denter. cbn [fst]. rewrite len_ltb_spec.
  destruct (Nat.ltb_spec (length b) 5) as [H|H]; [apply okr_err, e_short_not_fuel|].
  destruct (byte0_ok 13 b) as [m [t [Hb ->]]]; [lia|]. rewrite dbind_lift_ok.
  destruct (negb (m =? 10)); [apply okr_err, e_type_not_fuel; now right|].
  rewrite be_chk_ok by (rewrite skipn_length; lia). rewrite dbind_lift_ok.
  set (c := be_get (firstn 4 (skipn 1 b))).
  rewrite dbind_fst. specialize (Hl d c). unfold okd in Hl.
  pose proof (okr_prepend (firstn 5 b) (skipn 5 b) 0 (fst (loop d c (skipn 5 b))) (fun x => x) 5) as P.
  rewrite firstn_skipn in P.
  assert (L5 : 5 = lenN (firstn 5 b)) by (unfold lenN; rewrite firstn_length_le by exact H; reflexivity).
  specialize (P L5 Hl). eapply okr_weaken; [|destruct (fst (loop d c (skipn 5 b))) as [[[ops l] rest]|e|s]; exact P]. lia.
Qed.

Lemma array_body_okd cfg loop d b :
  (forall d' c, okd (skipn 5 b) 0 (loop d' c (skipn 5 b))) ->
  okd b 1 (array_body cfg loop d b).
Proof.
  intro Hl. unfold okd, array_body. destruct (too_deep cfg d); [apply okr_err, e_deep_not_fuel|].
  unfold denter. cbn [fst]. rewrite len_ltb_spec.
  destruct (Nat.ltb_spec (length b) 5) as [H|H]; [apply okr_err, e_short_not_fuel|].
  destruct (byte0_ok 11 b) as [m [t [Hb ->]]]; [lia|]. rewrite dbind_lift_ok.
  destruct (negb (m =? 8)); [apply okr_err, e_type_not_fuel; now right|].
  rewrite be_chk_ok by (rewrite skipn_length; lia). rewrite dbind_lift_ok.
  set (c := be_get (firstn 4 (skipn 1 b))).
  rewrite dbind_fst. specialize (Hl d c). unfold okd in Hl. destruct Hl as (H1 & H2 & H3).
  assert (L5 : lenN (firstn 5 b) = 5) by (unfold lenN; rewrite firstn_length_le by exact H; reflexivity).
  destruct (fst (loop d c (skipn 5 b))) as [[[ops l] rest]|e|s].
  - destruct (H3 _ _ _ eq_refl) as [_ [pre [Hp Hpl]]].
    destruct (is_end rest) eqn:Ee.
    + destruct (is_end_inv _ Ee) as [t' ->]. rewrite !skipn_cons, skipn_O. cbn [dret fst].
      apply okr_ok with (pre := firstn 5 b ++ pre ++ [0; 0; 9]).
      * lia.
      * rewrite <- (firstn_skipn 5 b) at 1. rewrite Hp. rewrite <- !app_assoc. reflexivity.
      * rewrite !lenN_app, L5, Hpl. change (lenN [0; 0; 9]) with 3. lia.
    + cbn [dret fst]. apply okr_ok with (pre := firstn 5 b ++ pre).
      * lia.
      * rewrite <- (firstn_skipn 5 b) at 1. rewrite Hp. now rewrite app_assoc.
      * rewrite lenN_app, L5, Hpl. reflexivity.
  - apply okr_err. intro E; subst. contradiction.
  - exfalso. exact (H2 s eq_refl).
Qed.

Lemma prefix_len (b pre rest : bytes) n : b = pre ++ rest -> lenN pre = n ->
  length b = (N.to_nat n + length rest)%nat.
Proof. intros -> <-. rewrite app_length. unfold lenN. lia. Qed.

Definition loops_ok (cfg : amf_cfg) (fuel : nat) : Prop :=
  (forall d b, (length b < fuel)%nat -> okd b 0 (obj_loop fuel cfg d b)) /\
  (forall d c b, (length b < fuel)%nat -> okd b 0 (arr_loop fuel cfg d c b)) /\
  (forall d c b, (length b < fuel)%nat -> okd b 0 (strict_loop fuel cfg d c b)).

(* the element reader built from loops with fuel f, on an input shorter than f *)
Lemma elem_with_loops_okd cfg f d b :
  loops_ok cfg f -> (length b < f)%nat ->
  okd b 1 (elem_body cfg (object_body cfg (obj_loop f cfg)) (array_body cfg (arr_loop f cfg))
                     (strict_body cfg (strict_loop f cfg)) d b).
Proof.
  intros (IO & IA & IS) Hl. apply elem_body_okd; intro d'.
  - apply object_body_okd. intro d''. apply IO. rewrite skipn_length. lia.
  - apply array_body_okd. intros d'' c. apply IA. rewrite skipn_length. lia.
  - apply strict_body_okd. intros d'' c. apply IS. rewrite skipn_length. lia.
Qed.

Lemma loops_ok_all cfg : forall fuel, loops_ok cfg fuel.
Proof.
  induction fuel as [|f IH].
  - unfold loops_ok. split; [|split]; intros; lia.
  - pose proof IH as (IO & IA & IS).
    assert (KEYED : forall d b (next : bytes -> dres (plist * N * bytes)),
               (length b < S f)%nat ->
               (forall b2, (length b2 < f)%nat -> okd b2 0 (next b2)) ->
               okd b 0 (dbind (dlift (read_string_wo b)) (fun '(k, l, b1) =>
                        dbind (elem_body cfg (object_body cfg (obj_loop f cfg)) (array_body cfg (arr_loop f cfg))
                                         (strict_body cfg (strict_loop f cfg)) d b1) (fun '(ov, l2, b2) =>
                        dbind (next b2) (fun '(ops, l3, b3) => dret (push_pair k ov ops, l + l2 + l3, b3)))))).
    { intros d b next Hlen Hnext. unfold okd. rewrite dbind_fst. cbn [dlift fst].
      destruct (read_string_wo_okr b) as (K1 & K2 & K3).
      destruct (read_string_wo b) as [[[k l] b1]|e|s].
      2:{ apply okr_err. intro E; subst. contradiction. }
      2:{ exfalso. exact (K2 s eq_refl). }
      destruct (K3 _ _ _ eq_refl) as [Hl [pre [Hb Hpl]]].
      pose proof (prefix_len _ _ _ _ Hb Hpl) as Lb.
      rewrite dbind_fst.
      assert (E : okd b1 1 (elem_body cfg (object_body cfg (obj_loop f cfg)) (array_body cfg (arr_loop f cfg))
                                      (strict_body cfg (strict_loop f cfg)) d b1))
        by (apply elem_with_loops_okd; [exact IH|lia]).
      destruct E as (E1 & E2 & E3).
      destruct (fst (elem_body cfg (object_body cfg (obj_loop f cfg)) (array_body cfg (arr_loop f cfg))
                               (strict_body cfg (strict_loop f cfg)) d b1)) as [[[ov l2] b2]|e|s].
      2:{ apply okr_err. intro E; subst. contradiction. }
      2:{ exfalso. exact (E2 s eq_refl). }
      destruct (E3 _ _ _ eq_refl) as [Hl2 [pre2 [Hb2 Hpl2]]].
      pose proof (prefix_len _ _ _ _ Hb2 Hpl2) as Lb2.
      rewrite dbind_fst.
      assert (L : okd b2 0 (next b2)) by (apply Hnext; lia).
      destruct L as (L1 & L2 & L3).
      destruct (fst (next b2)) as [[[ops l3] b3]|e|s].
      2:{ apply okr_err. intro E; subst. contradiction. }
      2:{ exfalso. exact (L2 s eq_refl). }
      destruct (L3 _ _ _ eq_refl) as [_ [pre3 [Hb3 Hpl3]]].
      cbn [dret fst]. apply okr_ok with (pre := pre ++ pre2 ++ pre3).
      - lia.
      - subst b b1 b2. now rewrite <- !app_assoc.
      - rewrite !lenN_app. lia. }
    unfold loops_ok. split; [|split].
    + (* obj_loop *)
      intros d b Hlen. cbn [obj_loop]. destruct (is_end b) eqn:Ee.
      * destruct (is_end_inv _ Ee) as [t ->]. unfold okd. cbn [dret fst]. rewrite !skipn_cons, skipn_O.
        apply okr_ok with (pre := [0; 0; 9]); [lia|reflexivity|reflexivity].
      * apply (KEYED d b (obj_loop f cfg d) Hlen). intros b2 H2. apply IO. exact H2.
    + (* arr_loop *)
      intros d c b Hlen. cbn [arr_loop]. destruct (c =? 0).
      * unfold okd. cbn [dret fst]. apply okr_ok with (pre := []); [lia|reflexivity|reflexivity].
      * apply (KEYED d b (arr_loop f cfg d (N.pred c)) Hlen). intros b2 H2. apply IA. exact H2.
    + (* strict_loop *)
      intros d c b Hlen. cbn [strict_loop]. destruct (c =? 0).
      * unfold okd. cbn [dret fst]. apply okr_ok with (pre := []); [lia|reflexivity|reflexivity].
      * unfold okd. rewrite dbind_fst.
        assert (E : okd b 1 (elem_body cfg (object_body cfg (obj_loop f cfg)) (array_body cfg (arr_loop f cfg))
                                       (strict_body cfg (strict_loop f cfg)) d b)).
        { destruct f as [|f'].
          - (* length b = 0 *)
            destruct b; [|cbn [length] in Hlen; lia]. unfold okd. rewrite elem_body_nil. apply okr_err, e_short_not_fuel.
          - destruct (Nat.eq_dec (length b) (S f')) as [Heq|Hne].
            + (* the element reader on the whole input: container bodies recurse on skipn 1 / skipn 5 *)
              apply elem_body_okd; intro d'.
              * apply object_body_okd. intro d''. apply IO. rewrite skipn_length. lia.
              * apply array_body_okd. intros d'' c'. apply IA. rewrite skipn_length. lia.
              * apply strict_body_okd. intros d'' c'. apply IS. rewrite skipn_length. lia.
            + apply elem_with_loops_okd; [exact IH|lia]. }
        destruct E as (E1 & E2 & E3).
        destruct (fst (elem_body cfg (object_body cfg (obj_loop f cfg)) (array_body cfg (arr_loop f cfg))
                                 (strict_body cfg (strict_loop f cfg)) d b)) as [[[ov l2] b2]|e|s].
        2:{ apply okr_err. intro E; subst. contradiction. }
        2:{ exfalso. exact (E2 s eq_refl). }
        destruct (E3 _ _ _ eq_refl) as [Hl2 [pre2 [Hb2 Hpl2]]].
        pose proof (prefix_len _ _ _ _ Hb2 Hpl2) as Lb2.
        rewrite dbind_fst.
        assert (L : okd b2 0 (strict_loop f cfg d (N.pred c) b2)) by (apply IS; lia).
        destruct L as (L1 & L2 & L3).
        destruct (fst (strict_loop f cfg d (N.pred c) b2)) as [[[ops l3] b3]|e|s].
        2:{ apply okr_err. intro E; subst. contradiction. }
        2:{ exfalso. exact (L2 s eq_refl). }
        destruct (L3 _ _ _ eq_refl) as [_ [pre3 [Hb3 Hpl3]]].
        cbn [dret fst]. apply okr_ok with (pre := pre2 ++ pre3).
        -- lia.
        -- subst b b2. now rewrite <- !app_assoc.
        -- rewrite !lenN_app. lia.
Qed.

Lemma read_object_okd cfg b : okd b 1 (read_object cfg b).
Proof.
  unfold read_object. apply object_body_okd. intro d'. apply loops_ok_all.
  unfold fuel_for. rewrite skipn_length. lia.
Qed.
Lemma read_array_okd cfg b : okd b 1 (read_array cfg b).
Proof.
  unfold read_array. apply array_body_okd. intros d' c. apply loops_ok_all.
  unfold fuel_for. rewrite skipn_length. lia.
Qed.
Lemma read_strict_array_okd cfg b : okd b 1 (read_strict_array cfg b).
Proof.
  unfold read_strict_array. apply strict_body_okd. intros d' c. apply loops_ok_all.
  unfold fuel_for. rewrite skipn_length. lia.
Qed.
Lemma read_object_or_array_okd cfg b : okd b 1 (read_object_or_array cfg b).
Proof.
  unfold read_object_or_array. destruct b as [|m t]; [apply okr_err, e_short_not_fuel|].
  cbn [len_ltb byte0]. rewrite dbind_lift_ok.
  destruct (m =? 3); [apply read_object_okd|].
  destruct (m =? 8); [apply read_array_okd|].
  apply okr_err, e_type_not_fuel. now right.
Qed.

Lemma decode_okd cfg e b : okd b 1 (decode cfg e b).
Proof.
  unfold okd. destruct e; cbn [decode dlift fst].
  - eapply okr_weaken; [|apply (okr_map _ 2 _ DStr), read_string_wo_okr]. lia.
  - eapply okr_weaken; [|apply (okr_map _ 4 _ DStr), read_long_string_wo_okr]. lia.
  - apply (okr_map _ 1 _ DStr), read_string_okr.
  - apply (okr_map _ 1 _ DNum), read_number_okr.
  - apply (okr_map _ 1 _ DBool), read_boolean_okr.
  - apply (okr2_map _ _ DNone), read_null_okr.
  - apply (okr2_map _ _ DNone), read_undef_okr.
  - rewrite (dbind_fst_map _ DPairs). apply okr_map, read_object_okd.
  - rewrite (dbind_fst_map _ DPairs). apply okr_map, read_array_okd.
  - rewrite (dbind_fst_map _ DPairs). apply okr_map, read_strict_array_okd.
  - rewrite (dbind_fst_map _ DPairs). apply okr_map, read_object_or_array_okd.
Qed.

(* ------------------------------------------------------------------------ *)
(* bounded recursion: with a nesting limit m no reader is ever entered
   deeper than m, whatever the input and on every path (errors included) *)

Lemma snd_dbind_le {A B} (r : dres A) (f : A -> dres B) m :
  snd r <= m -> (forall a, snd (f a) <= m) -> snd (dbind r f) <= m.
Proof.
  intros H1 H2. unfold dbind. destruct (fst r); cbn [snd]; try exact H1.
  specialize (H2 a). lia.
Qed.

Lemma snd_dlift {A} (r : res A) m : snd (dlift r) <= m.
Proof. cbn. lia. Qed.

Section Depth.
Variables (cfg : amf_cfg) (m : N).
Hypothesis Hlim : cfg_limit cfg = Some m.

Lemma too_deep_spec d : too_deep cfg d = (m <? d).
Proof. unfold too_deep. now rewrite Hlim. Qed.

Lemma object_body_depth loop d b :
  (d <= m -> forall b', snd (loop d b') <= m) -> snd (object_body cfg loop d b) <= m.
Proof.
  intro H. unfold object_body. rewrite too_deep_spec.
  destruct (N.ltb_spec m d) as [Hd|Hd]; [apply snd_dlift|].
  unfold denter. cbn [snd]. apply N.max_lub; [exact Hd|].
  destruct (len_ltb b 1); [apply snd_dlift|].
  apply snd_dbind_le; [apply snd_dlift|]. intro x.
  destruct (negb (x =? 3)); [apply snd_dlift|].
  apply snd_dbind_le; [apply H; exact Hd|]. intros [[ops l] rest]. cbn. lia.
Qed.

Lemma array_body_depth loop d b :
  (d <= m -> forall c b', snd (loop d c b') <= m) -> snd (array_body cfg loop d b) <= m.
Proof.
  intro H. unfold array_body. rewrite too_deep_spec.
  destruct (N.ltb_spec m d) as [Hd|Hd]; [apply snd_dlift|].
  unfold denter. cbn [snd]. apply N.max_lub; [exact Hd|].
  destruct (len_ltb b 5); [apply snd_dlift|].
  apply snd_dbind_le; [apply snd_dlift|]. intro x.
  destruct (negb (x =? 8)); [apply snd_dlift|].
  apply snd_dbind_le; [apply snd_dlift|]. intro c.
  apply snd_dbind_le; [apply H; exact Hd|]. intros [[ops l] rest]. destruct (is_end rest); cbn; lia.
Qed.

Lemma strict_body_depth loop d b :
  (d <= m -> forall c b', snd (loop d c b') <= m) -> snd (strict_body cfg loop d b) <= m.
Proof.
  intro H. unfold strict_body. rewrite too_deep_spec.
  destruct (N.ltb_spec m d) as [Hd|Hd]; [apply snd_dlift|].
  unfold denter. cbn [snd]. apply N.max_lub; [exact Hd|].
  destruct (len_ltb b 5); [apply snd_dlift|].
  apply snd_dbind_le; [apply snd_dlift|]. intro x.
  destruct (negb (x =? 10)); [apply snd_dlift|].
  apply snd_dbind_le; [apply snd_dlift|]. intro c.
  apply snd_dbind_le; [apply H; exact Hd|]. intros [[ops l] rest]. cbn. lia.
Qed.

Lemma elem_body_depth (ro ra rs : creader) d b :
  (forall d' b', snd (ro d' b') <= m) -> (forall d' b', snd (ra d' b') <= m) -> (forall d' b', snd (rs d' b') <= m) ->
  snd (elem_body cfg ro ra rs d b) <= m.
Proof.
  intros Ho Ha Hs. unfold elem_body. destruct (len_ltb b 1); [apply snd_dlift|].
  apply snd_dbind_le; [apply snd_dlift|]. intro vt.
  destruct (vt =? 0); [apply snd_dlift|].
  destruct (vt =? 1); [apply snd_dlift|].
  destruct ((vt =? 2) || (cfg_long_in_container cfg && (vt =? 12))); [apply snd_dlift|].
  destruct (vt =? 5); [apply snd_dlift|].
  destruct (vt =? 3); [apply snd_dbind_le; [apply Ho|intros [[ops l] rest]; cbn; lia]|].
  destruct (vt =? 8); [apply snd_dbind_le; [apply Ha|intros [[ops l] rest]; cbn; lia]|].
  destruct (vt =? 10); [apply snd_dbind_le; [apply Hs|intros [[ops l] rest]; cbn; lia]|].
  destruct ((vt =? 6) || (vt =? 13)); apply snd_dlift.
Qed.

Definition loops_depth (fuel : nat) : Prop :=
  (forall d b, d <= m -> snd (obj_loop fuel cfg d b) <= m) /\
  (forall d c b, d <= m -> snd (arr_loop fuel cfg d c b) <= m) /\
  (forall d c b, d <= m -> snd (strict_loop fuel cfg d c b) <= m).

Lemma loops_depth_all : forall fuel, loops_depth fuel.
Proof.
  induction fuel as [|f (IO & IA & IS)]; unfold loops_depth.
  - split; [|split]; intros; cbn; lia.
  - assert (EL : forall d b, snd (elem_body cfg (object_body cfg (obj_loop f cfg)) (array_body cfg (arr_loop f cfg))
                                           (strict_body cfg (strict_loop f cfg)) d b) <= m).
    { intros d b. apply elem_body_depth; intros d' b'.
      - apply object_body_depth. intros Hd b''. apply IO, Hd.
      - apply array_body_depth. intros Hd c b''. apply IA, Hd.
      - apply strict_body_depth. intros Hd c b''. apply IS, Hd. }
    split; [|split].
    + intros d b Hd. cbn [obj_loop]. destruct (is_end b); [cbn; lia|].
      apply snd_dbind_le; [apply snd_dlift|]. intros [[k l] b1].
      apply snd_dbind_le; [apply EL|]. intros [[ov l2] b2].
      apply snd_dbind_le; [apply IO, Hd|]. intros [[ops l3] b3]. cbn. lia.
    + intros d c b Hd. cbn [arr_loop]. destruct (c =? 0); [cbn; lia|].
      apply snd_dbind_le; [apply snd_dlift|]. intros [[k l] b1].
      apply snd_dbind_le; [apply EL|]. intros [[ov l2] b2].
      apply snd_dbind_le; [apply IA, Hd|]. intros [[ops l3] b3]. cbn. lia.
    + intros d c b Hd. cbn [strict_loop]. destruct (c =? 0); [cbn; lia|].
      apply snd_dbind_le; [apply EL|]. intros [[ov l2] b2].
      apply snd_dbind_le; [apply IS, Hd|]. intros [[ops l3] b3]. cbn. lia.
Qed.

Lemma decode_depth e b : snd (decode cfg e b) <= m.
Proof.
  pose proof (loops_depth_all (fuel_for b)) as (IO & IA & IS).
  assert (RO : snd (read_object cfg b) <= m)
    by (apply object_body_depth; intros Hd b'; apply IO, Hd).
  assert (RA : snd (read_array cfg b) <= m)
    by (apply array_body_depth; intros Hd c b'; apply IA, Hd).
  assert (RS : snd (read_strict_array cfg b) <= m)
    by (apply strict_body_depth; intros Hd c b'; apply IS, Hd).
  destruct e; cbn [decode]; try apply snd_dlift.
  - apply snd_dbind_le; [exact RO|intros [[o l] r]; cbn; lia].
  - apply snd_dbind_le; [exact RA|intros [[o l] r]; cbn; lia].
  - apply snd_dbind_le; [exact RS|intros [[o l] r]; cbn; lia].
  - apply snd_dbind_le; [|intros [[o l] r]; cbn; lia].
    unfold read_object_or_array. destruct (len_ltb b 1); [apply snd_dlift|].
    apply snd_dbind_le; [apply snd_dlift|]. intro x.
    destruct (x =? 3); [exact RO|]. destruct (x =? 8); [exact RA|apply snd_dlift].
Qed.
End Depth.

(* ------------------------------------------------------------------------ *)
(* the pinned tree (cfg_pinned): the two defects *)

(* F-02: any string value of 65536 bytes or more, as WriteObject writes it,
   is refused by the pinned ReadObject with ErrAmfInvalidType(0x0c) *)
Lemma pinned_long_string_refused k s r :
  lenN k < 65536 -> 65536 <= lenN s -> lenN s < 4294967296 ->
  fst (read_object cfg_pinned (write_object [(k, WStr s)] ++ r)) = Err (e_type 12).
Proof.
  intros Hk Hs Hs32. unfold read_object, object_body. cbn [too_deep cfg_pinned cfg_limit].
  unfold write_object. cbn [app len_ltb byte0 denter fst]. rewrite dbind_lift_ok.
  change (negb (3 =? 3)) with false. cbv iota. rewrite skipn_cons, skipn_O.
  unfold fuel_for. cbn [obj_loop write_pairs]. rewrite <- !app_assoc.
  rewrite is_end_key_false by exact Hk.
  rewrite read_string_wo_key by exact Hk. rewrite dbind_fst, dbind_lift_ok.
  cbn [write_wval]. unfold write_string.
  destruct (N.ltb_spec (lenN s) 65536) as [H|_]; [lia|].
  cbn [app]. rewrite elem_body_cons. reflexivity.
Qed.

Lemma snd_dbind_ge {A B} (r : dres A) (f : A -> dres B) : snd r <= snd (dbind r f).
Proof. unfold dbind. destruct (fst r); cbn [snd]; lia. Qed.

(* F-03: 3 bytes per level, no bound on the recursion depth *)
Fixpoint nestb (n : nat) : bytes :=
  match n with O => [] | S k => 0 :: 0 :: 3 :: nestb k end.

Lemma nestb_len n : lenN (nestb n) = 3 * N.of_nat n.
Proof. induction n as [|n IH]; [reflexivity|]. cbn [nestb]. rewrite !lenN_cons, IH. lia. Qed.

Lemma pinned_depth_unbounded : forall n fuel d,
  (n < fuel)%nat ->
  d + N.of_nat n <= snd (object_body cfg_pinned (obj_loop fuel cfg_pinned) d (3 :: nestb n)).
Proof.
  induction n as [|k IH]; intros fuel d Hf.
  - unfold object_body. cbn [too_deep cfg_pinned cfg_limit denter snd]. lia.
  - destruct fuel as [|f]; [lia|].
    unfold object_body at 1. cbn [too_deep cfg_pinned cfg_limit denter snd len_ltb byte0].
    rewrite dbind_lift_ok. change (negb (3 =? 3)) with false. cbv iota. rewrite skipn_cons, skipn_O.
    etransitivity; [|apply N.le_max_r]. etransitivity; [|apply snd_dbind_ge].
    cbn [obj_loop nestb is_end]. change (read_string_wo (0 :: 0 :: 3 :: nestb k)) with (@Ok (bytes * N * bytes) ([], 2, 3 :: nestb k)).
    rewrite dbind_lift_ok.
    etransitivity; [|apply snd_dbind_ge].
    rewrite elem_body_cons. cbv zeta.
    change (3 =? 0) with false. change (3 =? 1) with false. change (3 =? 2) with false.
    change (3 =? 12) with false. change (3 =? 5) with false. change (3 =? 3) with true.
    rewrite andb_false_r. cbn [orb]. cbv iota.
    etransitivity; [|apply snd_dbind_ge].
    specialize (IH f (d + 1)). etransitivity; [|apply IH; lia]. lia.
Qed.

Lemma pinned_stack_unbounded bound :
  exists b, lenN b = 1 + 3 * bound /\ bound < snd (decode cfg_pinned EObject b).
Proof.
  exists (3 :: nestb (N.to_nat bound)). split.
  - rewrite lenN_cons, nestb_len. lia.
  - cbn [decode]. eapply N.lt_le_trans; [|apply snd_dbind_ge].
    unfold read_object. eapply N.lt_le_trans; [|apply pinned_depth_unbounded].
    + lia.
    + unfold fuel_for. cbn [length].
      assert (length (nestb (N.to_nat bound)) = (3 * N.to_nat bound)%nat)
        by (pose proof (nestb_len (N.to_nat bound)) as L; unfold lenN in L; lia).
      lia.
Qed.

(* ------------------------------------------------------------------------ *)
(* float64(int) stays a 64-bit pattern for every Go int *)
Lemma f64_of_Z_bound z :
  (- 9223372036854775808 <= z < 9223372036854775808)%Z -> f64_of_Z z < 18446744073709551616.
Proof.
  intro Hz. unfold f64_of_Z. destruct z as [|p|p]; [lia| |].
  all: set (m := Z.to_N (Z.abs _)); set (s := if (_ <? 0)%Z then _ else 0).
  all: assert (Hs : s <= 9223372036854775808) by (subst s; destruct (_ <? 0)%Z; lia).
  all: assert (Hm0 : 0 < m) by (subst m; lia).
  all: assert (Hm : m <= 2 ^ 63) by (subst m; change (2 ^ 63) with 9223372036854775808; lia).
  all: clearbody m s; clear Hz.
  all: pose proof (N.log2_spec m Hm0) as [L1 L2]; set (e := N.log2 m) in *.
  all: assert (He : e <= 63) by (subst e; change 63 with (N.log2 (2 ^ 63)); apply N.log2_le_mono; exact Hm).
  all: destruct (N.leb_spec e 52) as [H52|H52].
  all: try (
    assert (P : m * 2 ^ (52 - e) < 2 ^ 53)
      by (replace 53 with (N.succ e + (52 - e)) by lia; rewrite N.pow_add_r;
          apply N.mul_lt_mono_pos_r; [apply N.neq_0_lt_0, N.pow_nonzero; discriminate|exact L2]);
    change (2 ^ 53) with 9007199254740992 in P;
    assert (Q : (e + 1023) * 4503599627370496 <= 1075 * 4503599627370496) by (apply N.mul_le_mono_r; lia);
    lia).
  all: set (sh := e - 52); set (q := m / 2 ^ sh).
  all: assert (Hq : q < 2 ^ 53)
      by (subst q; apply N.div_lt_upper_bound; [apply N.pow_nonzero; discriminate|];
          rewrite <- N.pow_add_r; replace (sh + 53) with (N.succ e) by (subst sh; lia); exact L2).
  all: change (2 ^ 53) with 9007199254740992 in Hq.
  all: assert (Q : (e + 1023) * 4503599627370496 <= 1086 * 4503599627370496) by (apply N.mul_le_mono_r; lia).
  all: destruct ((2 ^ (sh - 1) <? m mod 2 ^ sh) || ((m mod 2 ^ sh =? 2 ^ (sh - 1)) && N.odd q)); lia.
Qed.

(* the domain of WriteObject values, independent of the reader configuration:
   strings below 2^32 bytes, numbers as 64-bit patterns, Go ints *)
Definition wval_dom (v : wval) : Prop :=
  match v with
  | WStr s => lenN s < 4294967296
  | WNum n => n < 18446744073709551616
  | WInt z => (- 9223372036854775808 <= z < 9223372036854775808)%Z
  | WBool _ => True
  end.

Lemma wval_dom_ok v : wval_dom v -> wval_ok cfg_fixed v.
Proof.
  destruct v as [s|n|z|b]; cbn [wval_dom wval_ok]; intro H; try exact H.
  - split; [exact H|now left].
  - now apply f64_of_Z_bound.
Qed.

Lemma read_object_write_fixed l r :
  Forall (fun kv => lenN (fst kv) < 65536 /\ wval_dom (snd kv)) l ->
  read_object cfg_fixed (write_object l ++ r)
  = (Ok (map (fun kv => (fst kv, aval_of_wval (snd kv))) l, lenN (write_object l), r), 1).
Proof.
  intro H. apply read_object_write; [reflexivity|].
  eapply Forall_impl; [|exact H]. intros [k v] [Hk Hv]. split; [exact Hk|apply wval_dom_ok, Hv].
Qed.

(* decode: consumed prefix in the usual form *)
Lemma decode_total cfg e b :
  fst (decode cfg e b) <> Err err_out_of_fuel /\
  (forall s, fst (decode cfg e b) <> Panic s) /\
  (forall v n rest, fst (decode cfg e b) = Ok (v, n, rest) ->
     1 <= n /\ n <= lenN b /\ rest = skipn (N.to_nat n) b).
Proof.
  destruct (decode_okd cfg e b) as (H1 & H2 & H3). split; [exact H1|]. split; [exact H2|].
  intros v n rest E. destruct (H3 _ _ _ E) as [Hn [pre [Hb Hl]]]. split; [exact Hn|].
  subst b n. split.
  - rewrite lenN_app. lia.
  - unfold lenN. rewrite Nat2N.id. now rewrite skipn_app_exact.
Qed.
