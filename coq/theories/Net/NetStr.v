(* C13: the few Go string functions the text parsers use, on byte lists
   (ASCII; single-byte separators): strings.Split / SplitN / TrimLeft /
   TrimRight / TrimSpace / LastIndexByte / Count, strconv.Atoi. *)
From Lal Require Import Common.LBytes Common.Res Net.NetChk.
Open Scope N_scope.

Definition s_items_index : N := 50.    (* items[i] after Split (never) *)

(* strings.Split(s, sep) for a one-byte separator: always at least one element *)
Fixpoint split_on (sep : N) (s : bytes) : list bytes :=
  match s with
  | [] => [[]]
  | c :: t =>
      if c =? sep then [] :: split_on sep t
      else match split_on sep t with
           | h :: r => (c :: h) :: r
           | [] => [[c]]
           end
  end.

(* strings.SplitN(s, sep, n) for n >= 1: at most n substrings, the last is the unsplit remainder *)
Fixpoint splitn (sep : N) (n : nat) (s : bytes) : list bytes :=
  match n with
  | O => []
  | S O => [s]
  | S k =>
      match s with
      | [] => [[]]
      | c :: t =>
          if c =? sep then [] :: splitn sep k t
          else match splitn sep n t with
               | h :: r => (c :: h) :: r
               | [] => [[c]]
               end
      end
  end.

Fixpoint trim_left (c : N) (s : bytes) : bytes :=
  match s with
  | x :: t => if x =? c then trim_left c t else s
  | [] => []
  end.
Definition trim_right (c : N) (s : bytes) : bytes := rev (trim_left c (rev s)).

Definition is_space (x : N) : bool := (x =? 32) || ((9 <=? x) && (x <=? 13)).
Fixpoint trim_left_space (s : bytes) : bytes :=
  match s with
  | x :: t => if is_space x then trim_left_space t else s
  | [] => []
  end.
Definition trim_space (s : bytes) : bytes := rev (trim_left_space (rev (trim_left_space s))).

(* items[i] *)
Definition item (l : list bytes) (i : nat) : res bytes :=
  match nth_error l i with Some x => Ok x | None => Panic s_items_index end.

(* strconv.Atoi: [+-]?[0-9]+ within int64, anything else is an error *)
Fixpoint digits_val (acc : N) (s : bytes) : option N :=
  match s with
  | [] => Some acc
  | c :: t => if (48 <=? c) && (c <=? 57) then digits_val (acc * 10 + (c - 48)) t else None
  end.
Definition atoi (s : bytes) : option Z :=
  let '(neg, d) := match s with
                   | 45 :: t => (true, t)
                   | 43 :: t => (false, t)
                   | _ => (false, s)
                   end in
  match d with
  | [] => None
  | _ =>
      match digits_val 0 d with
      | None => None
      | Some v =>
          if neg then (if v <=? 9223372036854775808 then Some (- Z.of_N v)%Z else None)
          else (if v <=? 9223372036854775807 then Some (Z.of_N v) else None)
      end
  end.

(* strings.LastIndexByte: None = -1 *)
Fixpoint last_index_byte_from (c : N) (s : bytes) (i : N) (best : option N) : option N :=
  match s with
  | [] => best
  | x :: t => last_index_byte_from c t (i + 1) (if x =? c then Some i else best)
  end.
Definition last_index_byte (c : N) (s : bytes) : option N := last_index_byte_from c s 0 None.

Fixpoint count_byte (c : N) (s : bytes) : N :=
  match s with [] => 0 | x :: t => (if x =? c then 1 else 0) + count_byte c t end.

Fixpoint has_prefix (p s : bytes) : bool :=
  match p, s with
  | [], _ => true
  | a :: p', b :: s' => (a =? b) && has_prefix p' s'
  | _, [] => false
  end.
Definition has_suffix (p s : bytes) : bool := has_prefix (rev p) (rev s).
Fixpoint bytes_eqb (a b : bytes) : bool :=
  match a, b with
  | [], [] => true
  | x :: a', y :: b' => (x =? y) && bytes_eqb a' b'
  | _, _ => false
  end.
