(* C13: ParseRtpHeader / Body / boundary functions never panic (fixed tree),
   and do on the pinned tree (witnesses). *)
From Coq Require Import Lia ZifyN ZifyNat ZifyBool.
From Lal Require Import Common.LBytes Common.Res Net.NetChk Net.NetChkProofs Net.NetRtpHeader.
Open Scope N_scope.
Ltac Zify.zify_post_hook ::= Z.div_mod_to_equations.

Lemma parse_csrc_spec n : forall b off acc,
  match parse_csrc n b off acc with
  | Ok (_, off') => off' = off + 4 * N.of_nat n /\ (n = O \/ off' <= lenN b)
  | Err _ => True
  | Panic _ => False
  end.
Proof.
  induction n as [|k IH]; intros b off acc; cbn [parse_csrc].
  - split; [lia|now left].
  - destruct (lenN b <? off + 4) eqn:E; [exact I|]. apply N.ltb_ge in E.
    unfold bbe. destruct (be_at_ok s_rtphdr_slice s_rtphdr_index 4 b off E) as [v ->]. cbn [bind].
    specialize (IH b (off + 4) (v :: acc)).
    destruct (parse_csrc k b (off + 4) (v :: acc)) as [[cs off']| |]; auto.
    destruct IH as [-> H]. split; [lia|]. right. destruct H as [->|H]; [cbn; lia|exact H].
Qed.

(* what a successfully parsed header guarantees about the packet *)
Definition hdr_ok (b : bytes) (h : rtp_header) : Prop :=
  12 <= rh_payload_offset h /\ rh_payload_offset h < lenN b /\
  (rh_padding h = 1 -> rh_payload_offset h + rh_padding_len h < lenN b).

Lemma parse_rtp_header_spec b :
  match parse_rtp_header true b with
  | Ok h => hdr_ok b h
  | Err _ => True
  | Panic _ => False
  end.
Proof.
  unfold parse_rtp_header.
  destruct (lenN b <? 12) eqn:E12; [exact I|]. apply N.ltb_ge in E12.
  unfold bidx, bbe.
  destruct (idx_ok s_rtphdr_index b 0) as [b0 ->]; [lia|]. cbn [bind].
  destruct (idx_ok s_rtphdr_index b 1) as [b1 ->]; [lia|]. cbn [bind].
  destruct (be_at_ok s_rtphdr_slice s_rtphdr_index 2 b 2) as [sq ->]; [lia|]. cbn [bind].
  destruct (be_at_ok s_rtphdr_slice s_rtphdr_index 4 b 4) as [ts ->]; [lia|]. cbn [bind].
  destruct (be_at_ok s_rtphdr_slice s_rtphdr_index 4 b 8) as [ss ->]; [lia|]. cbn [bind].
  pose proof (parse_csrc_spec (N.to_nat (b0 mod 16)) b 12 []) as Hc.
  destruct (parse_csrc (N.to_nat (b0 mod 16)) b 12 []) as [[cs off1]| |]; [|exact I|exact Hc].
  cbn [bind]. destruct Hc as [Hoff1 _].
  assert (H12 : 12 <= off1) by lia. clear Hoff1.
  (* extension block *)
  set (extblk := if (b0 / 16) mod 2 =? 0 then _ else _).
  assert (Hext : match extblk with
                 | Ok (_, _, off) => off1 <= off
                 | Err _ => True
                 | Panic _ => False end).
  { subst extblk. destruct ((b0 / 16) mod 2 =? 0); [lia|].
    destruct (lenN b <? off1 + 4) eqn:E4; [exact I|]. apply N.ltb_ge in E4.
    destruct (be_at_ok s_rtphdr_slice s_rtphdr_index 2 b off1) as [pf ->]; [lia|]. cbn [bind].
    destruct (be_at_ok s_rtphdr_slice s_rtphdr_index 2 b (off1 + 2)) as [el ->]; [lia|]. cbn [bind].
    cbn [andb]. 
    destruct (lenN b <? off1 + 4 + 4 * el) eqn:E5; [exact I|]. apply N.ltb_ge in E5.
    rewrite slice_ok by lia. cbn [bind]. lia. }
  destruct extblk as [[[pf ex] off]| |]; [|exact I|exact Hext].
  cbn [bind].
  destruct (lenN b <=? off) eqn:Eo; [exact I|]. apply N.leb_gt in Eo.
  set (padblk := if (b0 / 32) mod 2 =? 1 then _ else _).
  assert (Hpad : exists pl, padblk = Ok pl).
  { subst padblk. destruct ((b0 / 32) mod 2 =? 1); [|eauto]. apply idx_ok. lia. }
  destruct Hpad as [pl ->]. cbn [bind andb].
  destruct ((b0 / 32) mod 2 =? 1) eqn:Ep.
  - cbn [andb]. destruct (lenN b <=? off + pl) eqn:El; [exact I|]. apply N.leb_gt in El.
    unfold hdr_ok; cbn. split; [lia|]. split; [lia|]. intros _. lia.
  - cbn [andb]. unfold hdr_ok; cbn. split; [lia|]. split; [lia|]. intros Hp. apply N.eqb_neq in Ep. contradiction.
Qed.

Lemma rtp_body_ok b h : hdr_ok b h -> rh_padding h <= 1 ->
  exists body tail, rtp_body b h = Ok (body, tail) /\ 1 <= lenN body /\
    lenN body = lenN b - rh_payload_offset h - (if rh_padding h =? 1 then rh_padding_len h else 0).
Proof.
  intros (H12 & Hlt & Hpad) Hp1. unfold rtp_body.
  assert (rh_payload_offset h =? 0 = false) as -> by (apply N.eqb_neq; lia).
  destruct (rh_padding h =? 1) eqn:Ep.
  - apply N.eqb_eq in Ep. specialize (Hpad Ep).
    assert (rh_payload_offset h + rh_padding_len h <=? lenN b = true) as -> by (apply N.leb_le; lia).
    eexists _, _. split; [reflexivity|]. rewrite lenN_firstn, lenN_skipn. lia.
  - assert (rh_payload_offset h <=? lenN b = true) as -> by (apply N.leb_le; lia).
    eexists _, _. split; [reflexivity|]. rewrite lenN_skipn. lia.
Qed.

Lemma parse_rtp_header_padding b h : parse_rtp_header true b = Ok h -> rh_padding h <= 1.
Proof.
  unfold parse_rtp_header. intros H.
  repeat match type of H with
         | (if ?c then _ else _) = _ => destruct c; [discriminate|]
         | bind ?r _ = _ => destruct r as [?| |]; cbn [bind] in H; try discriminate
         | (let '(_, _) := ?p in _) = _ => destruct p
         | (let (_, _) := ?p in _) = _ => destruct p
         end.
  injection H as <-. cbn. lia.
Qed.

(* c13.rtp: ParseRtpPacket followed by Body() *)
Theorem parse_rtp_packet_body_no_panic b : no_panic (parse_rtp_packet_body true b).
Proof.
  unfold parse_rtp_packet_body.
  pose proof (parse_rtp_header_spec b) as Hs. pose proof (parse_rtp_header_padding b) as Hp.
  destruct (parse_rtp_header true b) as [h| |]; [|reflexivity|contradiction].
  cbn [bind]. destruct (rtp_body_ok b h Hs (Hp h eq_refl)) as (body & tail & -> & _). reflexivity.
Qed.

(* a parsed packet always has at least one body byte *)
Theorem parse_rtp_body_nonempty b h body : parse_rtp_packet_body true b = Ok (h, body) -> 1 <= lenN body.
Proof.
  unfold parse_rtp_packet_body.
  pose proof (parse_rtp_header_spec b) as Hs. pose proof (parse_rtp_header_padding b) as Hp.
  destruct (parse_rtp_header true b) as [h'| |]; [|discriminate|contradiction].
  cbn [bind]. destruct (rtp_body_ok b h' Hs (Hp h' eq_refl)) as (bd & tail & -> & Hl & _).
  cbn [bind]. intros [= <- <-]. exact Hl.
Qed.

(* pinned tree: padding count larger than the body *)
Example rtp_padding_witness : bytes := [160; 96; 0; 1; 0; 0; 0; 2; 0; 0; 0; 3; 97; 255].
Lemma parse_rtp_packet_body_pinned_refuted :
  exists b, parse_rtp_packet_body false b = Panic s_body_slice.
Proof. exists rtp_padding_witness. vm_compute. reflexivity. Qed.

(* pinned tree: extension length 0x4000 words is accepted (uint16 wrap) *)
Lemma parse_rtp_header_pinned_ext_wrap :
  exists b h, parse_rtp_header false b = Ok h /\ lenN b < 4 * 16384.
Proof.
  exists [144; 96; 0; 1; 0; 0; 0; 2; 0; 0; 0; 3; 190; 222; 64; 0; 34]. eexists. split; [vm_compute; reflexivity|vm_compute; reflexivity].
Qed.

(* ---------------------------------------------------------------------- *)
Lemma is_avc_boundary_no_panic b : no_panic (is_avc_boundary true b).
Proof.
  unfold is_avc_boundary. cbn [andb].
  destruct (lenN b <? 1) eqn:E1; [reflexivity|]. apply N.ltb_ge in E1.
  destruct (idx_ok s_avcbound_index b 0) as [b0 ->]; [lia|]. cbn [bind].
  destruct (avc_boundary_type (b0 mod 32)); [reflexivity|].
  destruct (b0 mod 32 =? 24).
  - destruct (lenN b <? 4) eqn:E4; cbn [bind].
    + destruct (b0 mod 32 =? 28); [|reflexivity].
      destruct (lenN b <? 2) eqn:E2; [reflexivity|]. apply N.ltb_ge in E2.
      destruct (idx_ok s_avcbound_index b 1) as [b1 ->]; [lia|]. reflexivity.
    + apply N.ltb_ge in E4. destruct (idx_ok s_avcbound_index b 3) as [b3 ->]; [lia|]. cbn [bind].
      destruct (avc_boundary_type (b3 mod 32)); [reflexivity|].
      destruct (b0 mod 32 =? 28); [|reflexivity].
      destruct (lenN b <? 2) eqn:E2; [reflexivity|]. apply N.ltb_ge in E2.
      destruct (idx_ok s_avcbound_index b 1) as [b1 ->]; [lia|]. reflexivity.
  - cbn [bind]. destruct (b0 mod 32 =? 28); [|reflexivity].
    destruct (lenN b <? 2) eqn:E2; [reflexivity|]. apply N.ltb_ge in E2.
    destruct (idx_ok s_avcbound_index b 1) as [b1 ->]; [lia|]. reflexivity.
Qed.

Lemma is_hevc_boundary_no_panic b : no_panic (is_hevc_boundary true b).
Proof.
  unfold is_hevc_boundary. cbn [andb].
  destruct (lenN b <? 1) eqn:E1; [reflexivity|]. apply N.ltb_ge in E1.
  destruct (idx_ok s_hevcbound_index b 0) as [b0 ->]; [lia|]. cbn [bind].
  destruct (hevc_boundary_type (b0 mod 128 / 2)); [reflexivity|].
  destruct (b0 mod 128 / 2 =? 49); [|reflexivity].
  destruct (lenN b <? 3) eqn:E3; [reflexivity|]. apply N.ltb_ge in E3.
  destruct (idx_ok s_hevcbound_index b 2) as [b2 ->]; [lia|]. reflexivity.
Qed.

Theorem rtp_boundary_no_panic hevc raw : no_panic (rtp_boundary true hevc raw).
Proof.
  unfold rtp_boundary.
  pose proof (parse_rtp_header_spec raw) as Hs. pose proof (parse_rtp_header_padding raw) as Hp.
  destruct (parse_rtp_header true raw) as [h| |]; [|reflexivity|contradiction].
  cbn [bind]. destruct (rtp_body_ok raw h Hs (Hp h eq_refl)) as (body & tail & -> & _). cbn [bind].
  destruct hevc; [apply is_hevc_boundary_no_panic|apply is_avc_boundary_no_panic].
Qed.

Lemma rtp_boundary_pinned_refuted :
  (exists b, rtp_boundary false false b = Panic s_avcbound_index) /\
  (exists b, rtp_boundary false true b = Panic s_hevcbound_index).
Proof.
  split.
  - exists [128; 96; 0; 1; 0; 0; 0; 2; 0; 0; 0; 3; 28]. vm_compute. reflexivity.
  - exists [128; 96; 0; 1; 0; 0; 0; 2; 0; 0; 0; 3; 98]. vm_compute. reflexivity.
Qed.
