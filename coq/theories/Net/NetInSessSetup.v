(* C13: rtsp.BaseInSession with the transport state of its two tracks
   (pkg/rtsp/base_in_session.go: SetupWithConn, SetupWithChannel,
    HandleInterleavedPacket, onReadRtpPacket, onReadRtcpPacket, handleRtcpPacket).

   Each track is independently not set up, set up over UDP (the four
   UdpConnection pointers; a track without SETUP has nil pointers) or set up
   interleaved (channel numbers; the zero value is channel 0).  A SETUP can come
   at any point of the packet sequence, also a second time and with the other
   transport.  The RTP / RTCP handlers are shared by all sockets of the session:
   which socket a datagram came from does not matter to them, only whether a
   peer address came with it (UDP) or not (interleaved).

   Pinned tree ([fx = false]): the receiver report for an SR is written to the
   RTCP connection of the track whose SSRC the SR carries, without looking
   whether that connection exists. *)
From Lal Require Import Common.LBytes Common.Res Net.NetChk Net.NetRtpHeader Net.NetRtcp Net.NetAuHeader Net.NetUnpack Net.NetInSess.
Open Scope N_scope.

(* nazanet.UdpConnection.Write2Addr on a nil receiver (called from handleRtcpPacket) *)
Definition s_rtcpconn_nil : N := 24.

Inductive track := TA | TV.

Record transport := mk_tp {
  tp_aconn : bool; tp_vconn : bool;                    (* audio / video Rtp+RtcpConn are non-nil *)
  tp_artp : N; tp_artcp : N; tp_vrtp : N; tp_vrtcp : N }.  (* audio / video Rtp / Rtcp Channel *)
Definition tp_init : transport := mk_tp false false 0 0 0 0.

Definition has_conn (tp : transport) (t : track) : bool := match t with TA => tp_aconn tp | TV => tp_vconn tp end.
Definition rtcp_chan (tp : transport) (t : track) : N := match t with TA => tp_artcp tp | TV => tp_vrtcp tp end.

Definition set_conn (tp : transport) (t : track) : transport :=
  match t with
  | TA => mk_tp true (tp_vconn tp) (tp_artp tp) (tp_artcp tp) (tp_vrtp tp) (tp_vrtcp tp)
  | TV => mk_tp (tp_aconn tp) true (tp_artp tp) (tp_artcp tp) (tp_vrtp tp) (tp_vrtcp tp)
  end.
Definition set_chan (tp : transport) (t : track) (r c : N) : transport :=
  match t with
  | TA => mk_tp (tp_aconn tp) (tp_vconn tp) r c (tp_vrtp tp) (tp_vrtcp tp)
  | TV => mk_tp (tp_aconn tp) (tp_vconn tp) (tp_artp tp) (tp_artcp tp) r c
  end.

(* what the peer can do to the session *)
Inductive sev :=
| SvSetupConn (t : track)                  (* SETUP with client_port: SetupWithConn *)
| SvSetupChan (t : track) (r c : N)        (* SETUP with interleaved=r-c: SetupWithChannel *)
| SvIlv (ch : N) (b : bytes)               (* $ ch len b on the command connection *)
| SvUdpRtp (t : track) (b : bytes)         (* datagram on the RTP socket of track t *)
| SvUdpRtcp (t : track) (b : bytes).       (* datagram on the RTCP socket of track t *)

Inductive uev :=
| UEv (e : ev)                             (* observer callbacks, interleaved receiver report *)
| URrUdp (t : track) (b : bytes)           (* receiver report written to the RTCP socket of track t *)
| UNoSock                                  (* there is no such socket: nothing can arrive *)
| UErrSetup                                (* the SETUP uri matches no track of the SDP *)
| USep.

(* the write of the receiver report: Write2Addr on the track's RTCP connection
   when the SR came with a peer address, else WriteInterleavedPacket.
   fix: a nil connection is skipped *)
Definition rr_out (fx : bool) (tp : transport) (t : track) (udp : bool) (rr : bytes) : res (list uev) :=
  if udp then
    if has_conn tp t then Ok [URrUdp t rr]
    else if fx then Ok [] else Panic s_rtcpconn_nil
  else Ok [UEv (EvRr (rtcp_chan tp t) rr)].

Definition handle_rtcp_tp (fx : bool) (tp : transport) (udp : bool) (s : sess) (b : bytes) : res (sess * list uev) :=
  if (if fx then lenN b <? 4 else lenN b <=? 0) then Ok (s, []) else
  let* pt := idx s_handlertcp_index b 1 in
  if pt =? 200 then
    if fx && (lenN b <? 28) then Ok (s, []) else
    let* r := parse_sr fx b in
    if sr_ssrc r =? ss_assrc s then
      let (p, out) := rrp_produce (ss_arr s) (middle_ntp r) in
      let s' := mk_sess (ss_assrc s) (ss_vssrc s) p (ss_vrr s) (ss_acont s) (ss_vcont s) in
      match out with
      | Some rr => let* o := rr_out fx tp TA udp rr in Ok (s', o)
      | None => Ok (s', [])
      end
    else if sr_ssrc r =? ss_vssrc s then
      let (p, out) := rrp_produce (ss_vrr s) (middle_ntp r) in
      let s' := mk_sess (ss_assrc s) (ss_vssrc s) (ss_arr s) p (ss_acont s) (ss_vcont s) in
      match out with
      | Some rr => let* o := rr_out fx tp TV udp rr in Ok (s', o)
      | None => Ok (s', [])
      end
    else Ok (s, [])
  else Ok (s, []).

Definition lift_rtp (tp : transport) (r : res (sess * list ev)) : res ((sess * transport) * list uev) :=
  let* (s', evs) := r in Ok ((s', tp), map UEv evs).
Definition lift_rtcp (tp : transport) (r : res (sess * list uev)) : res ((sess * transport) * list uev) :=
  let* (s', evs) := r in Ok ((s', tp), evs).

(* ha / hv: the SDP has an audio / video section (with its a=control) *)
Definition step_tp (fx : bool) (cfg : sess_cfg) (ha hv : bool) (st : sess * transport) (e : sev)
  : res ((sess * transport) * list uev) :=
  let (s, tp) := st in
  let present t := match t with TA => ha | TV => hv end in
  match e with
  | SvSetupConn t => if present t then Ok ((s, set_conn tp t), []) else Ok (st, [UErrSetup])
  | SvSetupChan t r c => if present t then Ok ((s, set_chan tp t r c), []) else Ok (st, [UErrSetup])
  | SvIlv ch b =>
      if (ch =? tp_artp tp) || (ch =? tp_vrtp tp) then lift_rtp tp (handle_rtp fx cfg s b)
      else if (ch =? tp_artcp tp) || (ch =? tp_vrtcp tp) then lift_rtcp tp (handle_rtcp_tp fx tp false s b)
      else Ok (st, [])
  | SvUdpRtp t b => if has_conn tp t then lift_rtp tp (handle_rtp fx cfg s b) else Ok (st, [UNoSock])
  | SvUdpRtcp t b => if has_conn tp t then lift_rtcp tp (handle_rtcp_tp fx tp true s b) else Ok (st, [UNoSock])
  end.

Fixpoint run_tp (fx : bool) (cfg : sess_cfg) (ha hv : bool) (st : sess * transport) (evs : list sev) : res (list uev) :=
  match evs with
  | [] => Ok []
  | e :: t =>
      let* (st', out) := step_tp fx cfg ha hv st e in
      let* more := run_tp fx cfg ha hv st' t in
      Ok (out ++ USep :: more)
  end.

(* from any transport state *)
Definition run_udpsess_from (fx : bool) (ac : N) (aclock apt : Z) (vc : N) (vclock vpt : Z) (tp : transport) (evs : list sev) : res (list uev) :=
  run_tp fx (sess_cfg_of fx ac aclock apt vc vclock vpt) (negb (ac =? c_none)) (negb (vc =? c_none)) (sess_init, tp) evs.

(* a fresh session: nothing set up *)
Definition run_udpsess (fx : bool) (ac : N) (aclock apt : Z) (vc : N) (vclock vpt : Z) (evs : list sev) : res (list uev) :=
  run_udpsess_from fx ac aclock apt vc vclock vpt tp_init evs.
