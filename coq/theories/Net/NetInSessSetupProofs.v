(* C13: rtsp.BaseInSession with per-track transport state: from ANY transport
   state (connections present or nil, any channel numbers), for any SDP-derived
   configuration and any sequence of SETUPs, interleaved packets and datagrams on
   the sockets that exist, every step returns. *)
From Coq Require Import Lia ZifyN ZifyNat ZifyBool.
From Lal Require Import Common.LBytes Common.Res Net.NetChk Net.NetChkProofs Net.NetRtpHeader Net.NetRtpHeaderProofs
  Net.NetRtcp Net.NetFramingProofs Net.NetAuHeader Net.NetUnpack Net.NetUnpackProofs Net.NetInSess Net.NetInSessProofs
  Net.NetInSessSetup.
Open Scope N_scope.
Ltac Zify.zify_post_hook ::= Z.div_mod_to_equations.

Lemma rr_out_ok tp t udp rr : exists o, rr_out true tp t udp rr = Ok o.
Proof. unfold rr_out. destruct udp; [destruct (has_conn tp t)|]; eauto. Qed.

Lemma handle_rtcp_tp_spec cfg tp udp s b : sess_inv cfg s ->
  exists s' evs, handle_rtcp_tp true tp udp s b = Ok (s', evs) /\ sess_inv cfg s'.
Proof.
  intros Hi. unfold handle_rtcp_tp.
  destruct (lenN b <? 4) eqn:E4. { exists s, []. split; [reflexivity|exact Hi]. }
  apply N.ltb_ge in E4. destruct (idx_ok s_handlertcp_index b 1) as [pt ->]; [lia|]. cbn [bind].
  destruct (pt =? 200); [|exists s, []; split; [reflexivity|exact Hi]]. cbn [andb].
  destruct (lenN b <? 28) eqn:E28. { exists s, []. split; [reflexivity|exact Hi]. }
  apply N.ltb_ge in E28. destruct (parse_sr_ok b E28) as [r ->]. cbn [bind].
  destruct Hi as [Hia Hiv].
  destruct (sr_ssrc r =? ss_assrc s).
  - destruct (rrp_produce (ss_arr s) (middle_ntp r)) as [p [rr|]].
    + destruct (rr_out_ok tp TA udp rr) as [o ->]. cbn [bind]. eexists _, _. split; [reflexivity|]. split; assumption.
    + eexists _, _. split; [reflexivity|]. split; assumption.
  - destruct (sr_ssrc r =? ss_vssrc s).
    + destruct (rrp_produce (ss_vrr s) (middle_ntp r)) as [p [rr|]].
      * destruct (rr_out_ok tp TV udp rr) as [o ->]. cbn [bind]. eexists _, _. split; [reflexivity|]. split; assumption.
      * eexists _, _. split; [reflexivity|]. split; assumption.
    + exists s, []. split; [reflexivity|split; assumption].
Qed.

Lemma lift_rtp_spec cfg tp s b : cfg_ok cfg -> sess_inv cfg s ->
  exists st' out, lift_rtp tp (handle_rtp true cfg s b) = Ok (st', out) /\ sess_inv cfg (fst st').
Proof.
  intros Hc Hi. destruct (handle_rtp_spec cfg s b Hc Hi) as (s' & evs & -> & Hi').
  unfold lift_rtp. cbn [bind]. eexists _, _. split; [reflexivity|exact Hi'].
Qed.

Lemma lift_rtcp_spec cfg tp udp s b : sess_inv cfg s ->
  exists st' out, lift_rtcp tp (handle_rtcp_tp true tp udp s b) = Ok (st', out) /\ sess_inv cfg (fst st').
Proof.
  intros Hi. destruct (handle_rtcp_tp_spec cfg tp udp s b Hi) as (s' & evs & -> & Hi').
  unfold lift_rtcp. cbn [bind]. eexists _, _. split; [reflexivity|exact Hi'].
Qed.

(* one step from any transport state *)
Lemma step_tp_spec cfg ha hv st e : cfg_ok cfg -> sess_inv cfg (fst st) ->
  exists st' out, step_tp true cfg ha hv st e = Ok (st', out) /\ sess_inv cfg (fst st').
Proof.
  intros Hc Hi. destruct st as [s tp]. cbn [fst] in Hi. unfold step_tp.
  destruct e as [t|t r c|ch b|t b|t b].
  - destruct (match t with TA => ha | TV => hv end); eexists _, _; (split; [reflexivity|exact Hi]).
  - destruct (match t with TA => ha | TV => hv end); eexists _, _; (split; [reflexivity|exact Hi]).
  - destruct ((ch =? tp_artp tp) || (ch =? tp_vrtp tp)); [apply lift_rtp_spec; assumption|].
    destruct ((ch =? tp_artcp tp) || (ch =? tp_vrtcp tp)); [apply lift_rtcp_spec; assumption|].
    eexists _, _. split; [reflexivity|exact Hi].
  - destruct (has_conn tp t); [apply lift_rtp_spec; assumption|].
    eexists _, _. split; [reflexivity|exact Hi].
  - destruct (has_conn tp t); [apply lift_rtcp_spec; assumption|].
    eexists _, _. split; [reflexivity|exact Hi].
Qed.

Lemma run_tp_total cfg ha hv : cfg_ok cfg -> forall evs st, sess_inv cfg (fst st) ->
  exists out, run_tp true cfg ha hv st evs = Ok out.
Proof.
  intros Hc. induction evs as [|e t IH]; intros st Hi; cbn [run_tp]; [eauto|].
  destruct (step_tp_spec cfg ha hv st e Hc Hi) as (st' & out & -> & Hi'). cbn [bind].
  destruct (IH st' Hi') as [more ->]. cbn [bind]. eauto.
Qed.

(* every (codec, clock rate, payload type) pair x every transport state x every event sequence *)
Theorem run_udpsess_from_total ac aclock apt vc vclock vpt tp evs :
  exists out, run_udpsess_from true ac aclock apt vc vclock vpt tp evs = Ok out.
Proof. unfold run_udpsess_from. apply run_tp_total; [apply sess_cfg_of_ok|apply sess_init_inv]. Qed.

Theorem run_udpsess_total ac aclock apt vc vclock vpt evs :
  exists out, run_udpsess true ac aclock apt vc vclock vpt evs = Ok out.
Proof. apply run_udpsess_from_total. Qed.

(* ---- pinned tree witnesses (each replayed on the Go code) ---- *)
Definition w_rtp (pt ssrc : N) (body : bytes) : bytes := [128; pt; 0; 1; 0; 0; 0; 0; 0; 0; 0; ssrc] ++ body.
Definition w_sr (ssrc : N) : bytes :=
  [128; 200; 0; 6; 0; 0; 0; ssrc; 0; 0; 0; 1; 0; 0; 0; 2; 0; 0; 0; 3; 0; 0; 0; 4; 0; 0; 0; 5].

Lemma run_udpsess_pinned_refuted :
  (* only the video track is set up (UDP); an RTP packet with the audio payload type on the video RTP
     port, then an SR with its SSRC on the video RTCP port: the reply goes to the nil audio RTCP connection *)
  run_udpsess false c_pcma 8000 8 c_h264 90000 96
    [SvSetupConn TV; SvUdpRtp TV (w_rtp 8 17 [213; 213]); SvUdpRtcp TV (w_sr 17)] = Panic s_rtcpconn_nil /\
  (* mirror: only the audio track is set up *)
  run_udpsess false c_pcma 8000 8 c_h264 90000 96
    [SvSetupConn TA; SvUdpRtp TA (w_rtp 96 34 [101; 1]); SvUdpRtcp TA (w_sr 34)] = Panic s_rtcpconn_nil /\
  (* mixed transports: audio interleaved, video over UDP; the audio SR is sent to the video RTCP port *)
  run_udpsess false c_pcma 8000 8 c_h264 90000 96
    [SvSetupChan TA 0 1; SvSetupConn TV; SvIlv 0 (w_rtp 8 17 [213; 213]); SvUdpRtcp TV (w_sr 17)] = Panic s_rtcpconn_nil /\
  (* audio-only SDP (a relay pull of an audio-only stream over UDP): the zero-value video payload type is 0 *)
  run_udpsess false c_pcma 8000 8 c_none 0 0
    [SvSetupConn TA; SvUdpRtp TA (w_rtp 0 34 [255]); SvUdpRtcp TA (w_sr 34)] = Panic s_rtcpconn_nil.
Proof. repeat split; vm_compute; reflexivity. Qed.

(* the same sequences on the repaired code: the report is dropped, the session goes on *)
Lemma run_udpsess_fixed_witness :
  run_udpsess true c_pcma 8000 8 c_h264 90000 96
    [SvSetupConn TV; SvUdpRtp TV (w_rtp 8 17 [213; 213]); SvUdpRtcp TV (w_sr 17)]
  = Ok [USep; UEv (EvRtp 1); UEv (EvAv (mk_av 8 0 [213; 213])); USep; USep].
Proof. vm_compute. reflexivity. Qed.
