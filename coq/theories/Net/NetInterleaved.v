(* C13: model of rtsp.readInterleaved (pkg/rtsp/interleaved.go) on a finite
   input stream; end of input = io error. *)
From Lal Require Import Common.LBytes Common.Res Net.NetChk.
Open Scope N_scope.

Inductive ilv_res :=
| IlvText (rest : bytes)                       (* not '$': byte unread, caller parses an RTSP message *)
| IlvPkt (ch : N) (p : bytes) (rest : bytes).

Definition read_interleaved (s : bytes) : res ilv_res :=
  match s with
  | [] => Err e_eof
  | f :: t =>
      if negb (f =? 36) then Ok (IlvText s) else
      match t with
      | [] => Err e_eof
      | ch :: t2 =>
          match split_exact 2 t2 with
          | None => Err e_eof
          | Some (lb, t3) =>
              let n := be_get lb in
              let* _ := make_chk s_ilv_makeslice n in
              match split_exactN n t3 with
              | None => Err e_eof
              | Some (p, rest) => Ok (IlvPkt ch p rest)
              end
          end
      end
  end.

(* the harness loop: read frames until text or error; fuel = input length *)
Fixpoint read_interleaved_all (fuel : nat) (s : bytes) (acc : list (N * bytes)) : res (list (N * bytes) * option bytes) :=
  match fuel with
  | O => Err err_out_of_fuel
  | S f =>
      match read_interleaved s with
      | Ok (IlvText rest) => Ok (rev acc, Some rest)
      | Ok (IlvPkt ch p rest) => read_interleaved_all f rest ((ch, p) :: acc)
      | Err _ => Ok (rev acc, None)
      | Panic st => Panic st
      end
  end.
