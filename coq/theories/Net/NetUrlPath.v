(* C13: model of base.ParseRtmpUrl (path part), base.parseUrlPath,
   UrlContext.calcFilenameAndTypeIfNeeded and hls.DefaultPathStrategy.GetRequestInfo
   (pkg/base/url.go, pkg/hls/path_strategy.go).  The text after scheme://host is
   split into Path and RawQuery at the first '?' (what net/url does for text
   without '#', '%' and control characters: stated assumption). *)
From Lal Require Import Common.LBytes Common.Res Net.NetChk Net.NetStr.
Open Scope N_scope.

Definition s_rtmpurl_slice : N := 51.     (* base.ParseRtmpUrl:slice *)
Definition s_urlpath_slice : N := 52.     (* base.parseUrlPath:slice (never) *)
Definition s_hlsreq_index : N := 53.      (* hls.DefaultPathStrategy.GetRequestInfo:index (never) *)
Definition s_fname_slice : N := 54.       (* base.UrlContext.calcFilenameAndTypeIfNeeded:slice (never) *)

Definition ch_q : N := 63.
Definition ch_sl : N := 47.
Definition ch_dot : N := 46.
Definition ch_dash : N := 45.

Fixpoint split_first (c : N) (s : bytes) : bytes * option bytes :=
  match s with
  | [] => ([], None)
  | x :: t => if x =? c then ([], Some t) else let (a, b) := split_first c t in (x :: a, b)
  end.

Record url_path := mk_up { u_path : bytes; u_pwli : bytes; u_last : bytes; u_query : bytes; u_pwq : bytes }.

(* parseUrlPath *)
Definition parse_url_path (path query : bytes) : res url_path :=
  let* (pwli, last) :=
    (match last_index_byte ch_sl path with
     | None => Ok ([], [])
     | Some 0 =>
         if bytes_eqb path [ch_sl] then Ok ([], [])
         else let* l := slice_from s_urlpath_slice path 1 in Ok ([], l)
     | Some index =>
         let* a := slice s_urlpath_slice path 1 index in
         let* l := slice_from s_urlpath_slice path (index + 1) in
         Ok (a, l)
     end) in
  Ok (mk_up path pwli last query (match query with [] => path | _ => path ++ [ch_q] ++ query end)).

(* ParseRtmpUrl on "rtmp://host" ++ text *)
Definition parse_rtmp_url (fx : bool) (text : bytes) : res url_path :=
  let (path, q) := split_first ch_q text in
  let query := match q with Some x => x | None => [] end in
  let* u := parse_url_path path query in
  match path with
  | [] => Err e_proto
  | c :: _ =>
      (* text that does not start with '/' continues the host name: outside this model *)
      if negb (c =? ch_sl) then Err e_proto else
      let u :=
        match u_pwli u, u_last u with
        | [], _ :: _ => mk_up (u_path u) (u_last u) [] (u_query u) (u_pwq u)
        | _, _ => u
        end in
      if 1 <? count_byte ch_q (u_pwq u) then
        match last_index_byte ch_sl (u_pwq u) with
        | None => Panic s_rtmpurl_slice             (* index = -1: [1:-1] *)
        | Some index =>
            (* fix: the last '/' is the leading one: there is no app name to cut out *)
            if fx && (index <? 1) then Err e_proto else
            let* a := slice s_rtmpurl_slice (u_pwq u) 1 index in
            let* l := slice_from s_rtmpurl_slice (u_pwq u) (index + 1) in
            Ok (mk_up (u_pwq u) a l [] (u_pwq u))
        end
      else Ok u
  end.

(* calcFilenameAndTypeIfNeeded: (filenameWithoutType, fileType) *)
Definition file_name_type (last : bytes) : res (bytes * bytes) :=
  match last_index_byte ch_dot last with
  | None => Ok ([], [])
  | Some index =>
      let* a := slice s_fname_slice last 0 index in
      let* b := slice_from s_fname_slice last (index + 1) in
      Ok (a, b)
  end.

(* getStreamNameFromTsFileName: cut at the second '-' counted from the end *)
Fixpoint second_dash_from_end (r : bytes) (seen : N) (i : N) : option N :=
  match r with
  | [] => None
  | x :: t =>
      let seen' := if x =? ch_dash then seen + 1 else seen in
      if seen' =? 2 then Some i else second_dash_from_end t seen' (i + 1)
  end.
Definition stream_name_from_ts (fname : bytes) : bytes :=
  match second_dash_from_end (rev fname) 0 0 with
  | None => fname
  | Some i => firstn (N.to_nat (lenN fname - 1 - i)) fname
  end.

Definition m3u8 : bytes := [109; 51; 117; 56].
Definition ts_ext : bytes := [116; 115].
Definition playlist_m3u8 : bytes := [112; 108; 97; 121; 108; 105; 115; 116; 46; 109; 51; 117; 56].
Definition record_m3u8 : bytes := [114; 101; 99; 111; 114; 100; 46; 109; 51; 117; 56].

(* GetRequestInfo on ParseUrl("http://host" ++ text): (streamName, fileName, fileType) *)
Definition hls_request_info_raw (text : bytes) : res (bytes * bytes * bytes) :=
  let (path, q) := split_first ch_q text in
  let query := match q with Some x => x | None => [] end in
  let* u := parse_url_path path query in
  let filename := u_last u in
  let* (fwt, ftype) := file_name_type filename in
  if bytes_eqb ftype m3u8 then
    if bytes_eqb filename playlist_m3u8 || bytes_eqb filename record_m3u8 then
      let items := split_on ch_sl (u_path u) in
      (* uriItems[len(uriItems)-2] *)
      match length items with
      | S (S k) => let* sn := match nth_error items k with Some x => Ok x | None => Panic s_hlsreq_index end in Ok (sn, filename, ftype)
      | _ => Panic s_hlsreq_index
      end
    else Ok (fwt, filename, ftype)
  else if bytes_eqb ftype ts_ext then Ok (stream_name_from_ts filename, filename, ftype)
  else Ok ([], filename, ftype).

(* base.IsPlainPathElement: not ".." and no path separator (fix F-18: such a
   stream name is not mapped; GetRequestInfo returns the zero RequestInfo) *)
Definition is_plain_path_element (name : bytes) : bool :=
  negb (bytes_eqb name [46; 46]) && negb (existsb (fun c => (c =? 47) || (c =? 92)) name).

Definition hls_request_info (text : bytes) : res (bytes * bytes * bytes) :=
  match hls_request_info_raw text with
  | Ok (sn, filename, ftype) => if is_plain_path_element sn then Ok (sn, filename, ftype) else Ok ([], filename, ftype)
  | Err e => Err e
  | Panic x => Panic x
  end.
