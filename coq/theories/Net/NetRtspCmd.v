(* C13: model of the RTSP command layer of the server
   (pkg/rtsp/server_command_session.go: runCmdLoop, handleOptions / Announce /
    Describe / Setup / Record / Play / Teardown, feedSdp; pkg/rtsp/rtsp.go:
    parseTransport; BaseInSession / BaseOutSession SetupWithConn /
    SetupWithChannel with the transport holder of pkg/rtsp/transport.go;
    sdp.LogicContext.IsAudioUri / IsVideoUri), auth off.

   Input: the byte stream of the command connection (plain: interleaved
   packets and requests; WebSocket: one request per frame payload), read with
   the message reader of NetHttpMsg.v.  The upper layer is a parameter: what
   the observer answers to OnNewRtspPubSession / OnNewRtspSubSessionDescribe
   (refuse / accept without SDP - nobody publishes yet - / accept with this
   SDP) / OnNewRtspSubSessionPlay, and [uri_ok] = whether base.ParseRtspUrl
   accepts a request URI (net/url is not modelled; the theorems hold for every
   [uri_ok]).  What the media sessions do with an interleaved packet is the
   subject of NetInSessSetup.v; here a packet only needs a session to go to.

   Output: the responses written and the observer callbacks, in order, and the
   session state at the end (which session exists, the transports set up). *)
From Lal Require Import Common.LBytes Common.Res Net.NetChk Net.NetStr Net.NetInterleaved Net.NetWsRead
  Net.NetHttpMsg Net.NetSdpFull.
Open Scope N_scope.

Definition s_transport_index : N := 27.   (* rtsp.parseTransport:index (never) *)

(* ---- text helpers --------------------------------------------------------- *)
Fixpoint contains (p s : bytes) : bool :=               (* strings.Contains *)
  has_prefix p s || match s with [] => false | _ :: t => contains p t end.

Definition item_at (l : list bytes) (i : nat) : res bytes :=
  match nth_error l i with Some x => Ok x | None => Panic s_transport_index end.

Definition k_interleaved : bytes := [105; 110; 116; 101; 114; 108; 101; 97; 118; 101; 100].
Definition k_client_port : bytes := [99; 108; 105; 101; 110; 116; 95; 112; 111; 114; 116].

(* rtsp.parseTransport: the value of the last item "key...=value" of the ;-list, split at '-', both halves
   through Atoi and then converted to uint16 *)
Fixpoint pick_value (key : bytes) (items : list bytes) (cur : bytes) : res bytes :=
  match items with
  | [] => Ok cur
  | it :: t =>
      if has_prefix key it then
        let kv := split_on 61 it in
        if Nat.eqb (length kv) 2 then let* v := item_at kv 1 in pick_value key t v
        else pick_value key t cur
      else pick_value key t cur
  end.
Definition u16_of_int (z : Z) : Z := (z mod 65536)%Z.
Definition parse_transport (key htv : bytes) : res (Z * Z) :=
  let* v := pick_value key (split_on 59 htv) [] in
  let items := split_on 45 v in
  if negb (Nat.eqb (length items) 2) then Err e_proto else
  let* a := item_at items 0 in
  let* b := item_at items 1 in
  match atoi a, atoi b with
  | Some x, Some y => Ok (u16_of_int x, u16_of_int y)
  | _, _ => Err e_proto
  end.

(* ---- base.ParseRtspUrl on the URI class the generator uses ------------------ *)
(* scheme "://" host [":" digits] ["/" path] ["?" query] over letters, digits and a few marks: accepted iff
   the scheme is rtsp / rtsps (any case), the host is not empty and the port, when there is a colon, goes
   through Atoi.  Everything outside the class counts as refused (the generator keeps to the class and to a
   list of URIs known to be refused). *)
Definition is_alpha (c : N) : bool := in_range 97 122 c || in_range 65 90 c.
Definition is_digit (c : N) : bool := in_range 48 57 c.
Definition lower (c : N) : N := if in_range 65 90 c then c + 32 else c.
Definition host_char (c : N) : bool := is_alpha c || is_digit c || (c =? 45) || (c =? 46).
Definition path_char (c : N) : bool :=
  is_alpha c || is_digit c || existsb (N.eqb c) [45; 46; 95; 126; 47; 61; 38].
Fixpoint span (f : N -> bool) (s : bytes) : bytes * bytes :=
  match s with
  | c :: t => if f c then let (a, b) := span f t in (c :: a, b) else ([], s)
  | [] => ([], [])
  end.
Definition k_rtsp : bytes := [114; 116; 115; 112].
Definition uri_ok_k (u : bytes) : bool :=
  let (scheme, r0) := span (fun c => is_alpha c || is_digit c) u in
  let sl := map lower scheme in
  if negb (bytes_eqb sl k_rtsp || bytes_eqb sl (k_rtsp ++ [115])) then false else
  match scheme with c0 :: _ => is_alpha c0 | [] => false end &&
  match r0 with
  | 58 :: 47 :: 47 :: r1 =>
      let (host, r2) := span host_char r1 in
      match host with [] => false | _ => true end &&
      (let '(port_ok, r3) :=
         match r2 with
         | 58 :: r => let (p, r') := span is_digit r in (match atoi p with Some _ => true | None => false end, r')
         | _ => (true, r2)
         end in
       port_ok &&
       match r3 with
       | [] => true
       | 47 :: r => let (_, r4) := span path_char r in
                    match r4 with [] => true | 63 :: q => forallb path_char q | _ => false end
       | 63 :: q => forallb path_char q
       | _ => false
       end)
  | _ => false
  end.

(* ---- session state ---------------------------------------------------------- *)
(* transport holder: connections present, channel numbers (Go int) *)
Record tport := mk_tport { tq_aconn : bool; tq_vconn : bool; tq_artp : Z; tq_artcp : Z; tq_vrtp : Z; tq_vrtcp : Z }.
Definition tport_pub : tport := mk_tport false false 0 0 0 0.            (* newTransportHolder(0) *)
Definition tport_sub : tport := mk_tport false false (-1) 0 (-1) 0.      (* newTransportHolder(-1) *)

Inductive role :=
| RNone
| RPub (actl vctl : bytes)                    (* PubSession with the a=control values of its SDP *)
| RSub (sdp : option (bytes * bytes)).        (* SubSession; None: DESCRIBE accepted, no SDP fed yet *)

Record cstate := mk_cs {
  cs_role : role; cs_tp : tport; cs_dseq : bytes (* describeSeq *);
  cs_leak : N   (* pairs of UDP sockets bound by a SETUP that nobody will close any more *) }.
Definition cs_init : cstate := mk_cs RNone tport_pub [] 0.
(* pinned tree: a SETUP that fails after its sockets were bound leaves them open, and so does a second UDP SETUP
   for a track (the connections it replaces are dropped, their read loops keep them alive for ever).
   fix: both are closed *)
Definition leak1 (fx : bool) (st : cstate) : cstate :=
  if fx then st else mk_cs (cs_role st) (cs_tp st) (cs_dseq st) (cs_leak st + 1).
Definition had_conn (tp : tport) (audio : bool) : bool := if audio then tq_aconn tp else tq_vconn tp.

(* the upper layer *)
Record observer := mk_obs {
  ob_pub_ok : bool;                           (* OnNewRtspPubSession returns nil *)
  ob_desc : option (option bytes);            (* OnNewRtspSubSessionDescribe: None = refuse, Some None = ok without sdp *)
  ob_play_ok : bool }.

Inductive rkind := KOptions | KAnnounce | KDescribe | KSetup | KRecord | KPlay | KTeardown.
Inductive cev :=
| CvResp (k : rkind) (cseq : bytes) (extra : bytes)        (* extra: echoed Transport (SETUP), sdp (DESCRIBE) *)
| CvSetupUdp (cseq : bytes) (rtp rtcp : Z) (record : bool) (* SETUP answered with client_port=rtp-rtcp;server_port=... *)
| CvCbPub | CvCbDescribe | CvCbPlay.

Definition m_options : bytes := [79; 80; 84; 73; 79; 78; 83].
Definition m_announce : bytes := [65; 78; 78; 79; 85; 78; 67; 69].
Definition m_describe : bytes := [68; 69; 83; 67; 82; 73; 66; 69].
Definition m_setup : bytes := [83; 69; 84; 85; 80].
Definition m_record : bytes := [82; 69; 67; 79; 82; 68].
Definition m_play : bytes := [80; 76; 65; 89].
Definition m_teardown : bytes := [84; 69; 65; 82; 68; 79; 87; 78].
Definition h_cseq : bytes := [67; 115; 101; 113].                                  (* canonical form of "CSeq" *)
Definition h_transport : bytes := [84; 114; 97; 110; 115; 112; 111; 114; 116].

(* which track a SETUP uri names: audio first *)
Definition track_of (actl vctl uri : bytes) : option bool :=      (* Some true = audio *)
  if is_track_uri actl uri then Some true else if is_track_uri vctl uri then Some false else None.

Definition tp_set_chan (tp : tport) (audio : bool) (r c : Z) : tport :=
  if audio then mk_tport (tq_aconn tp) (tq_vconn tp) r c (tq_vrtp tp) (tq_vrtcp tp)
  else mk_tport (tq_aconn tp) (tq_vconn tp) (tq_artp tp) (tq_artcp tp) r c.
Definition tp_set_conn (tp : tport) (audio : bool) : tport :=
  if audio then mk_tport true (tq_vconn tp) (tq_artp tp) (tq_artcp tp) (tq_vrtp tp) (tq_vrtcp tp)
  else mk_tport (tq_aconn tp) true (tq_artp tp) (tq_artcp tp) (tq_vrtp tp) (tq_vrtcp tp).

(* the a=control pair a SETUP is matched against; None: no session, or a sub session whose sdp is still nil
   (BaseOutSession.SetupWith*: error) *)
Definition setup_ctx (r : role) : option (bytes * bytes * bool) :=
  match r with
  | RPub a v => Some (a, v, true)
  | RSub (Some (a, v)) => Some (a, v, false)
  | _ => None
  end.

(* one request.  Result: new state, events, true = go on reading (false: the connection is closed) *)
Definition handle_req (fx : bool) (uri_ok : bytes -> bool) (ob : observer) (st : cstate) (m : msg_out) : res (cstate * list cev * bool) :=
  let cseq := hdr_get h_cseq (mo_hdrs m) in
  let meth := mo_a m in
  let uri := mo_b m in
  if bytes_eqb meth m_options then Ok (st, [CvResp KOptions cseq []], true)
  else if bytes_eqb meth m_announce then
    match cs_role st with
    | RNone =>
        if negb (uri_ok uri) then Ok (st, [], false) else
        match parse_sdp_controls (mo_body m) with
        | Panic s => Panic s
        | Err _ => Ok (st, [], false)
        | Ok (a, v) =>
            if ob_pub_ok ob then Ok (mk_cs (RPub a v) tport_pub (cs_dseq st) (cs_leak st), [CvCbPub; CvResp KAnnounce cseq []], true)
            else Ok (st, [CvCbPub], false)
        end
    | _ => Ok (st, [], false)
    end
  else if bytes_eqb meth m_describe then
    match cs_role st with
    | RNone =>
        if negb (uri_ok uri) then Ok (st, [], false) else
        match ob_desc ob with
        | None => Ok (mk_cs RNone (cs_tp st) cseq (cs_leak st), [CvCbDescribe], false)
        | Some None => Ok (mk_cs (RSub None) tport_sub cseq (cs_leak st), [CvCbDescribe], true)
        | Some (Some raw) =>
            (* feedSdp: the parse error is ignored, the zero LogicContext has no controls *)
            match parse_sdp_controls raw with
            | Panic s => Panic s
            | Err _ => Ok (mk_cs (RSub (Some ([], []))) tport_sub cseq (cs_leak st), [CvCbDescribe; CvResp KDescribe cseq raw], true)
            | Ok av => Ok (mk_cs (RSub (Some av)) tport_sub cseq (cs_leak st), [CvCbDescribe; CvResp KDescribe cseq raw], true)
            end
        end
    | _ => Ok (st, [], false)
    end
  else if bytes_eqb meth m_setup then
    let htv := hdr_get h_transport (mo_hdrs m) in
    if contains k_interleaved htv then
      match parse_transport k_interleaved htv with
      | Panic s => Panic s
      | Err _ => Ok (st, [], false)
      | Ok (r, c) =>
          match setup_ctx (cs_role st) with
          | None => Ok (st, [], false)
          | Some (a, v, _) =>
              match track_of a v uri with
              | None => Ok (st, [], false)
              | Some audio => Ok (mk_cs (cs_role st) (tp_set_chan (cs_tp st) audio r c) (cs_dseq st) (cs_leak st), [CvResp KSetup cseq htv], true)
              end
          end
      end
    else
      match parse_transport k_client_port htv with
      | Panic s => Panic s
      | Err _ => Ok (st, [], false)
      | Ok (r, c) =>
          (* initConnWithClientPort: the two sockets are bound before the session is looked at *)
          match setup_ctx (cs_role st) with
          | None => Ok (leak1 fx st, [], false)
          | Some (a, v, rec) =>
              match track_of a v uri with
              | None => Ok (leak1 fx st, [], false)
              | Some audio =>
                  let st1 := if had_conn (cs_tp st) audio then leak1 fx st else st in
                  Ok (mk_cs (cs_role st) (tp_set_conn (cs_tp st) audio) (cs_dseq st) (cs_leak st1), [CvSetupUdp cseq r c rec], true)
              end
          end
      end
  else if bytes_eqb meth m_record then Ok (st, [CvResp KRecord cseq []], true)
  else if bytes_eqb meth m_play then
    match cs_role st with
    | RSub _ => if ob_play_ok ob then Ok (st, [CvCbPlay; CvResp KPlay cseq []], true) else Ok (st, [CvCbPlay], false)
    | _ => Ok (st, [], false)
    end
  else if bytes_eqb meth m_teardown then Ok (st, [CvResp KTeardown cseq []], false)
  else Ok (st, [], true).     (* unknown method (GET_PARAMETER, PAUSE ...): logged, no answer *)

(* runCmdLoop.  [ws]: requests arrive as WebSocket frame payloads *)
Fixpoint cmd_loop (fx : bool) (uri_ok : bytes -> bool) (ob : observer) (ws : bool) (fuel : nat) (s : bytes)
    (st : cstate) (acc : list cev) : res (cstate * list cev) :=
  match fuel with
  | O => Err err_out_of_fuel
  | S f =>
      let on_msg (r : res msg_out) (rest_of : msg_out -> bytes) :=
        match r with
        | Panic p => Panic p
        | Err _ => Ok (st, acc)
        | Ok m =>
            match mo_err m with
            | Some _ => Ok (st, acc)
            | None =>
                let* (st', evs, go) := handle_req fx uri_ok ob st m in
                if go then cmd_loop fx uri_ok ob ws f (rest_of m) st' (acc ++ evs) else Ok (st', acc ++ evs)
            end
        end in
      if ws then
        match read_ws_payload true s with
        | Panic p => Panic p
        | Err _ => Ok (st, acc)
        | Ok (p, rest) => on_msg (read_msg fx p) (fun _ => rest)
        end
      else
        match read_interleaved s with
        | Panic p => Panic p
        | Err _ => Ok (st, acc)
        | Ok (IlvPkt _ _ rest) =>
            match cs_role st with
            | RNone => Ok (st, acc)
            | _ => cmd_loop fx uri_ok ob ws f rest st acc
            end
        | Ok (IlvText s') => on_msg (read_msg fx s') mo_rest
        end
  end.

(* how a response goes out on a WebSocket connection (ServerCommandSession.writeResponse): frame header and text
   in ONE connection write - the forwarding goroutine writes rtp frames to the same connection and a full send
   queue drops whole writes, so two writes could lose the frame alignment.  The answers to ANNOUNCE and RECORD
   are written without a frame (publishing over WebSocket is not supported) *)
Definition resp_framed (ws : bool) (e : cev) : bool :=
  ws && match e with
        | CvResp KAnnounce _ _ | CvResp KRecord _ _ => false
        | CvResp _ _ _ | CvSetupUdp _ _ _ _ => true
        | _ => false
        end.

Definition run_cmd (fx : bool) (uri_ok : bytes -> bool) (ob : observer) (ws : bool) (s : bytes) : res (cstate * list cev) :=
  cmd_loop fx uri_ok ob ws (S (length s)) s cs_init [].
