(* C13: model of rtprtcp.parseAu (rfc3640 AU-header section, 13+3 bit headers)
   pkg/rtprtcp/rtp_unpacker_aac.go *)
From Lal Require Import Common.LBytes Common.Res Net.NetChk.
Open Scope N_scope.

Record au := mk_au { au_size : N; au_pos : N }.

Fixpoint parse_au_loop (n : nat) (b : bytes) (pauh pau : N) (acc : list au) : res (list au * N) :=
  match n with
  | O => Ok (rev acc, pau)
  | S k =>
      let* x := idx s_parseau_index b pauh in
      let* y := idx s_parseau_index b (pauh + 1) in
      let sz := (x * 256 + (y - y mod 8)) / 8 in      (* (b[pauh]<<8 | b[pauh+1]&0xF8) / 8 *)
      parse_au_loop k b (pauh + 2) (pau + sz) (mk_au sz pau :: acc)
  end.

(* fix: a body that cannot hold the announced AU-header section, or (for more
   than one AU) the announced access units, yields no access unit at all *)
Definition parse_au (fx : bool) (b : bytes) : res (list au) :=
  if fx && (lenN b <? 2) then Ok [] else
  let* b0 := idx s_parseau_index b 0 in
  let* b1 := idx s_parseau_index b 1 in
  let ahl := (b0 * 256 + b1 + 7) / 8 in
  let nb := ahl / 2 in
  if fx && (lenN b <? 2 + ahl) then Ok [] else
  let* (aus, pau) := parse_au_loop (N.to_nat nb) b 2 (2 + ahl) [] in
  if fx && (1 <? nb) && (lenN b <? pau) then Ok [] else Ok aus.
