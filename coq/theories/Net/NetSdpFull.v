(* C13: model of sdp.ParseSdp2RawContext (pkg/sdp/parse_raw.go: the line loop
   parseSdp2RawContext over strings.Split(b, "\r\n"), the second attempt that
   glues broken a=fmtp lines) on top of the checked line parsers of
   NetSdpRaw.v, and what the RTSP command layer needs of
   sdp.ParseSdp2LogicContext (pkg/sdp/parse_logic.go): whether the SDP parses
   and the a=control values of its audio and video section
   (LogicContext.IsAudioUri / IsVideoUri). *)
From Lal Require Import Common.LBytes Common.Res Net.NetChk Net.NetStr Net.NetSdpRaw.
Open Scope N_scope.

(* strings.Split(s, "\r\n"): always at least one element *)
Fixpoint split_crlf (s : bytes) : list bytes :=
  match s with
  | [] => [[]]
  | c :: t =>
      match t with
      | 10 :: t' => if c =? 13 then [] :: split_crlf t' else
                      match split_crlf t with h :: r => (c :: h) :: r | [] => [[c]] end
      | _ => match split_crlf t with h :: r => (c :: h) :: r | [] => [[c]] end
      end
  end.

Definition k_m : bytes := [109; 61].                                        (* "m=" *)
Definition k_a : bytes := [97; 61].                                         (* "a=" *)
Definition k_rtpmap : bytes := [97; 61; 114; 116; 112; 109; 97; 112].       (* "a=rtpmap" *)
Definition k_fmtp : bytes := [97; 61; 102; 109; 116; 112].                  (* "a=fmtp" *)
Definition k_control : bytes := [97; 61; 99; 111; 110; 116; 114; 111; 108]. (* "a=control" *)
Definition k_control_colon : bytes := k_control ++ [58].
Definition k_audio : bytes := [97; 117; 100; 105; 111].
Definition k_video : bytes := [118; 105; 100; 101; 111].

(* MediaDesc: the media name of its m= line and its a=control value *)
Definition mdesc := (bytes * bytes)%type.

Definition flush (acc : list mdesc) (md : option mdesc) : list mdesc :=
  match md with Some d => acc ++ [d] | None => acc end.

(* parseSdp2RawContext.  The four prefix tests are independent ifs; a line has at most one of the prefixes *)
Fixpoint raw_loop (lines : list bytes) (acc : list mdesc) (md : option mdesc) : res (list mdesc) :=
  match lines with
  | [] => Ok (flush acc md)
  | line :: rest =>
      let* (acc1, md1) :=
        (if has_prefix k_m line then
           let* m := parse_m line in Ok (flush acc md, Some (fst m, []))
         else Ok (acc, md)) in
      let* _ := (if has_prefix k_rtpmap line then let* _ := parse_a_rtpmap line in Ok tt else Ok tt) in
      let* _ := (if has_prefix k_fmtp line then let* _ := parse_a_fmtp line in Ok tt else Ok tt) in
      let* md2 :=
        (if has_prefix k_control line then
           if has_prefix k_control_colon line then
             Ok (match md1 with Some (media, _) => Some (media, skipn (length k_control_colon) line) | None => None end)
           else Err e_proto
         else Ok md1) in
      raw_loop rest acc1 md2
  end.

(* the second attempt of ParseSdp2RawContext: lines after an a=fmtp line that start with neither "m=" nor
   "a=" are glued to it; [cur] = the line being glued *)
Fixpoint rescue (cur : option bytes) (lines : list bytes) : list bytes :=
  match lines with
  | [] => match cur with Some c => [c] | None => [] end
  | l :: rest =>
      match cur with
      | Some c =>
          if negb (has_prefix k_m l) && negb (has_prefix k_a l) then rescue (Some (c ++ l)) rest
          else if has_prefix k_fmtp l then c :: rescue (Some l) rest
          else c :: l :: rescue None rest
      | None => if has_prefix k_fmtp l then rescue (Some l) rest else l :: rescue None rest
      end
  end.

Definition parse_sdp_raw (b : bytes) : res (list mdesc) :=
  let lines := split_crlf b in
  match raw_loop lines [] None with
  | Ok c => Ok c
  | Panic s => Panic s
  | Err _ => raw_loop (rescue None lines) [] None
  end.

(* ParseSdp2LogicContext: audioAControl / videoAControl = the a=control of the last audio / video section *)
Definition sdp_controls (mds : list mdesc) : bytes * bytes :=
  fold_left (fun (av : bytes * bytes) (d : mdesc) =>
               if bytes_eqb (fst d) k_audio then (snd d, snd av)
               else if bytes_eqb (fst d) k_video then (fst av, snd d) else av) mds ([], []).

Definition parse_sdp_controls (b : bytes) : res (bytes * bytes) :=
  let* mds := parse_sdp_raw b in Ok (sdp_controls mds).

(* LogicContext.IsAudioUri / IsVideoUri *)
Definition is_track_uri (ctl uri : bytes) : bool :=
  match ctl with [] => false | _ => has_suffix ctl uri end.
