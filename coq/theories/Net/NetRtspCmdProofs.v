(* C13: the RTSP command layer of the server on ANY byte stream, for ANY answers of the upper layer
   and ANY verdict of base.ParseRtspUrl: the command loop returns (the connection is closed), no
   handler panics, no loop runs out of fuel. *)
From Coq Require Import Lia ZifyN ZifyNat ZifyBool.
From Lal Require Import Common.LBytes Common.LBytesProofs Common.Res Net.NetChk Net.NetChkProofs Net.NetStr Net.NetSdpRaw
  Net.NetTextProofs Net.NetInterleaved Net.NetWsRead Net.NetFramingProofs Net.NetHttpMsg Net.NetHttpMsgProofs
  Net.NetSdpFull Net.NetRtspCmd.
Open Scope N_scope.

(* ---- SDP -------------------------------------------------------------------- *)
Lemma np_cases {A} (r : res A) : no_panic r -> (exists a, r = Ok a) \/ (exists e, r = Err e).
Proof. destruct r; eauto. discriminate. Qed.

Lemma raw_loop_no_panic : forall lines acc md, no_panic (raw_loop lines acc md).
Proof.
  induction lines as [|line rest IH]; intros acc md; cbn [raw_loop]; [reflexivity|].
  destruct (has_prefix k_m line).
  - destruct (np_cases _ (parse_m_no_panic line)) as [[m ->]|[e ->]]; cbn [bind]; [|reflexivity].
    destruct (has_prefix k_rtpmap line);
      [destruct (np_cases _ (parse_a_rtpmap_no_panic line)) as [[? ->]|[? ->]]; cbn [bind]; [|reflexivity]|cbn [bind]];
    (destruct (has_prefix k_fmtp line);
      [destruct (np_cases _ (parse_a_fmtp_no_panic line)) as [[? ->]|[? ->]]; cbn [bind]; [|reflexivity]|cbn [bind]]);
    (destruct (has_prefix k_control line); [destruct (has_prefix k_control_colon line)|]; cbn [bind]; try reflexivity; apply IH).
  - cbn [bind].
    destruct (has_prefix k_rtpmap line);
      [destruct (np_cases _ (parse_a_rtpmap_no_panic line)) as [[? ->]|[? ->]]; cbn [bind]; [|reflexivity]|cbn [bind]];
    (destruct (has_prefix k_fmtp line);
      [destruct (np_cases _ (parse_a_fmtp_no_panic line)) as [[? ->]|[? ->]]; cbn [bind]; [|reflexivity]|cbn [bind]]);
    (destruct (has_prefix k_control line); [destruct (has_prefix k_control_colon line)|]; cbn [bind]; try reflexivity; apply IH).
Qed.

Theorem parse_sdp_raw_no_panic b : no_panic (parse_sdp_raw b).
Proof.
  unfold parse_sdp_raw. pose proof (raw_loop_no_panic (split_crlf b) [] None) as H.
  destruct (raw_loop (split_crlf b) [] None); [reflexivity|apply raw_loop_no_panic|discriminate].
Qed.

Theorem parse_sdp_controls_no_panic b : no_panic (parse_sdp_controls b).
Proof.
  unfold parse_sdp_controls. destruct (np_cases _ (parse_sdp_raw_no_panic b)) as [[m ->]|[e ->]]; reflexivity.
Qed.

(* ---- Transport header --------------------------------------------------------- *)
Lemma item_at_ok l i : (i < length l)%nat -> exists x, item_at l i = Ok x.
Proof.
  intros H. unfold item_at. destruct (nth_error l i) eqn:E; [eauto|]. apply nth_error_None in E. lia.
Qed.

Lemma pick_value_no_panic key : forall items cur, no_panic (pick_value key items cur).
Proof.
  induction items as [|it t IH]; intros cur; cbn [pick_value]; [reflexivity|].
  destruct (has_prefix key it); [|apply IH].
  destruct (Nat.eqb (length (split_on 61 it)) 2) eqn:E; [|apply IH].
  apply Nat.eqb_eq in E. destruct (item_at_ok (split_on 61 it) 1 ltac:(lia)) as [v ->]. cbn [bind]. apply IH.
Qed.

Theorem parse_transport_no_panic key htv : no_panic (parse_transport key htv).
Proof.
  unfold parse_transport. destruct (np_cases _ (pick_value_no_panic key (split_on 59 htv) [])) as [[v ->]|[e ->]]; cbn [bind]; [|reflexivity].
  destruct (Nat.eqb (length (split_on 45 v)) 2) eqn:E; cbn [negb]; [|reflexivity].
  apply Nat.eqb_eq in E.
  destruct (item_at_ok (split_on 45 v) 0 ltac:(lia)) as [a ->]. destruct (item_at_ok (split_on 45 v) 1 ltac:(lia)) as [b ->].
  cbn [bind]. destruct (atoi a); [destruct (atoi b)|]; reflexivity.
Qed.

(* ---- one request ------------------------------------------------------------------ *)
Theorem handle_req_ok fx uri_ok ob st m : exists r, handle_req fx uri_ok ob st m = Ok r.
Proof.
  unfold handle_req.
  destruct (bytes_eqb (mo_a m) m_options); [eauto|].
  destruct (bytes_eqb (mo_a m) m_announce).
  { destruct (cs_role st); eauto. destruct (negb (uri_ok (mo_b m))); eauto.
    destruct (np_cases _ (parse_sdp_controls_no_panic (mo_body m))) as [[[a v] ->]|[e ->]]; eauto.
    destruct (ob_pub_ok ob); eauto. }
  destruct (bytes_eqb (mo_a m) m_describe).
  { destruct (cs_role st); eauto. destruct (negb (uri_ok (mo_b m))); eauto.
    destruct (ob_desc ob) as [[raw|]|]; eauto.
    destruct (np_cases _ (parse_sdp_controls_no_panic raw)) as [[av ->]|[e ->]]; eauto. }
  destruct (bytes_eqb (mo_a m) m_setup).
  { destruct (contains k_interleaved (hdr_get h_transport (mo_hdrs m))).
    - destruct (np_cases _ (parse_transport_no_panic k_interleaved (hdr_get h_transport (mo_hdrs m)))) as [[[r c] ->]|[e ->]]; eauto.
      destruct (setup_ctx (cs_role st)) as [[[a v] rec]|]; eauto. destruct (track_of a v (mo_b m)); eauto.
    - destruct (np_cases _ (parse_transport_no_panic k_client_port (hdr_get h_transport (mo_hdrs m)))) as [[[r c] ->]|[e ->]]; eauto.
      destruct (setup_ctx (cs_role st)) as [[[a v] rec]|]; eauto. destruct (track_of a v (mo_b m)); eauto. }
  destruct (bytes_eqb (mo_a m) m_record); [eauto|].
  destruct (bytes_eqb (mo_a m) m_play). { destruct (cs_role st); eauto. destruct (ob_play_ok ob); eauto. }
  destruct (bytes_eqb (mo_a m) m_teardown); eauto.
Qed.

(* ---- the command loop ---------------------------------------------------------------- *)
Lemma read_interleaved_text s s' : read_interleaved s = Ok (IlvText s') -> s' = s.
Proof.
  unfold read_interleaved. destruct s as [|x t]; [discriminate|]. destruct (negb (x =? 36)); [congruence|].
  destruct t as [|c t2]; [discriminate|]. destruct (split_exact 2 t2) as [[lb t3]|]; [|discriminate].
  destruct (make_chk s_ilv_makeslice (be_get lb)); cbn [bind]; try discriminate.
  destruct (split_exactN (be_get lb) t3) as [[? ?]|]; discriminate.
Qed.

Lemma suffix_app_r (a b : bytes) : suffix b (a ++ b). Proof. exists a. reflexivity. Qed.

Lemma read_ws_payload_rest_ok s p rest : bytes_ok s -> read_ws_payload true s = Ok (p, rest) -> (length rest < length s)%nat.
Proof. intros _ H. eapply read_ws_payload_shrinks; eauto. Qed.

Theorem cmd_loop_total uri_ok ob ws fuel : forall s st acc, (ws = false -> bytes_ok s) -> (length s < fuel)%nat ->
  exists r, cmd_loop true uri_ok ob ws fuel s st acc = Ok r.
Proof.
  induction fuel as [|f IH]; intros s st acc Hok Hf; [lia|]. cbn [cmd_loop].
  destruct ws.
  - pose proof (read_ws_payload_no_panic s) as Hnp.
    destruct (read_ws_payload true s) as [[p rest]|e|pst] eqn:E; eauto; [|discriminate].
    destruct (read_msg_spec p) as [(m & -> & _)|(e & -> & _)]; eauto.
    destruct (mo_err m); eauto.
    destruct (handle_req_ok true uri_ok ob st m) as [[[st' evs] go] ->]. cbn [bind].
    destruct go; eauto. apply IH; [discriminate|]. apply read_ws_payload_shrinks in E. lia.
  - specialize (Hok eq_refl). pose proof (read_interleaved_no_panic s Hok) as Hnp.
    destruct (read_interleaved s) as [[s'|ch p rest]|e|pst] eqn:E; eauto; [| |discriminate].
    + apply read_interleaved_text in E as ->.
      destruct (read_msg_spec s) as [(m & -> & _ & _ & Hs & Hl)|(e & -> & _)]; eauto.
      destruct (mo_err m); eauto.
      destruct (handle_req_ok true uri_ok ob st m) as [[[st' evs] go] ->]. cbn [bind].
      destruct go; eauto. apply IH; [intros _; eapply suffix_ok; eauto|lia].
    + destruct (cs_role st); eauto;
        (apply IH; [intros _; eapply read_interleaved_rest_ok; eauto|apply read_interleaved_shrinks in E; lia]).
Qed.

Theorem run_cmd_total uri_ok ob ws s : (ws = false -> bytes_ok s) -> exists r, run_cmd true uri_ok ob ws s = Ok r.
Proof. intros H. unfold run_cmd. apply cmd_loop_total; [exact H|lia]. Qed.

(* ---- what the handlers guarantee, request by request ------------------------------------- *)
(* a SETUP is only ever answered when a media session with a parsed SDP exists and the uri names one of its
   tracks: in every other state (no session; a sub session still waiting for its sdp) the connection is closed *)
Lemma setup_needs_track fx uri_ok ob st m st' evs :
  bytes_eqb (mo_a m) m_options = false -> bytes_eqb (mo_a m) m_announce = false -> bytes_eqb (mo_a m) m_describe = false ->
  bytes_eqb (mo_a m) m_setup = true ->
  handle_req fx uri_ok ob st m = Ok (st', evs, true) ->
  exists a v rec, setup_ctx (cs_role st) = Some (a, v, rec) /\ track_of a v (mo_b m) <> None.
Proof.
  intros E1 E2 E3 E4. unfold handle_req. rewrite E1, E2, E3, E4.
  destruct (contains k_interleaved (hdr_get h_transport (mo_hdrs m))).
  - destruct (parse_transport k_interleaved (hdr_get h_transport (mo_hdrs m))) as [[r c]| |]; try discriminate.
    destruct (setup_ctx (cs_role st)) as [[[a v] rec]|]; [|discriminate].
    destruct (track_of a v (mo_b m)) eqn:Et; [|discriminate]. intros _. exists a, v, rec. split; [reflexivity|congruence].
  - destruct (parse_transport k_client_port (hdr_get h_transport (mo_hdrs m))) as [[r c]| |]; try discriminate.
    destruct (setup_ctx (cs_role st)) as [[[a v] rec]|]; [|discriminate].
    destruct (track_of a v (mo_b m)) eqn:Et; [|discriminate]. intros _. exists a, v, rec. split; [reflexivity|congruence].
Qed.

(* the repaired handlers never leave a socket behind: whatever the requests, the leak counter stays where it was *)
Lemma handle_req_no_leak uri_ok ob st m st' evs go : handle_req true uri_ok ob st m = Ok (st', evs, go) -> cs_leak st' = cs_leak st.
Proof.
  unfold handle_req, leak1.
  repeat match goal with
  | |- context [if ?c then _ else _] => destruct c
  | |- context [match ?x with _ => _ end] => destruct x
  end; intros [= <- <- <-]; reflexivity.
Qed.

Theorem cmd_loop_no_leak uri_ok ob ws fuel : forall s st acc st' evs,
  cmd_loop true uri_ok ob ws fuel s st acc = Ok (st', evs) -> cs_leak st' = cs_leak st.
Proof.
  induction fuel as [|f IH]; intros s st acc st' evs; cbn [cmd_loop]; [discriminate|].
  destruct ws.
  - destruct (read_ws_payload true s) as [[p rest]|e|pst]; try discriminate; [|intros [= <- _]; reflexivity].
    destruct (read_msg true p) as [m|e|pst]; try discriminate; [|intros [= <- _]; reflexivity].
    destruct (mo_err m); [intros [= <- _]; reflexivity|].
    destruct (handle_req true uri_ok ob st m) as [[[st1 ev1] go]|e|pst] eqn:E; cbn [bind]; try discriminate.
    apply handle_req_no_leak in E. destruct go; [intros H; apply IH in H; congruence|intros [= <- _]; exact E].
  - destruct (read_interleaved s) as [[s'|ch p rest]|e|pst]; try discriminate; [| |intros [= <- _]; reflexivity].
    + destruct (read_msg true s') as [m|e|pst]; try discriminate; [|intros [= <- _]; reflexivity].
      destruct (mo_err m); [intros [= <- _]; reflexivity|].
      destruct (handle_req true uri_ok ob st m) as [[[st1 ev1] go]|e|pst] eqn:E; cbn [bind]; try discriminate.
      apply handle_req_no_leak in E. destruct go; [intros H; apply IH in H; congruence|intros [= <- _]; exact E].
    + destruct (cs_role st); [intros [= <- _]; reflexivity|apply IH|apply IH].
Qed.

(* ---- pinned tree ------------------------------------------------------------------------ *)
(* "SETUP rtsp://h/x/streamid=0 RTSP/1.0\r\nTransport: client_port=1-2\r\n\r\n" *)
Definition w_setup_udp : bytes :=
  [83; 69; 84; 85; 80; 32; 114; 116; 115; 112; 58; 47; 47; 104; 47; 120; 47; 115; 116; 114; 101; 97; 109; 105; 100; 61; 48; 32; 82; 84; 83; 80; 47; 49; 46; 48; 13; 10;
   84; 114; 97; 110; 115; 112; 111; 114; 116; 58; 32; 99; 108; 105; 101; 110; 116; 95; 112; 111; 114; 116; 61; 49; 45; 50; 13; 10; 13; 10].
(* "ANNOUNCE rtsp://h/x RTSP/1.0\r\nContent-Length: 31\r\n\r\nm=video\r\na=control:streamid=0\r\n" *)
Definition w_announce : bytes :=
  [65; 78; 78; 79; 85; 78; 67; 69; 32; 114; 116; 115; 112; 58; 47; 47; 104; 47; 120; 32; 82; 84; 83; 80; 47; 49; 46; 48; 13; 10;
   67; 111; 110; 116; 101; 110; 116; 45; 76; 101; 110; 103; 116; 104; 58; 32; 51; 49; 13; 10; 13; 10;
   109; 61; 118; 105; 100; 101; 111; 13; 10; 97; 61; 99; 111; 110; 116; 114; 111; 108; 58; 115; 116; 114; 101; 97; 109; 105; 100; 61; 48; 13; 10].
Definition w_obs : observer := mk_obs true (Some None) true.

Lemma run_cmd_pinned_refuted :
  (* one connection, ANNOUNCE and then the same UDP SETUP n+1 times: n pairs of sockets stay open for ever *)
  (exists st evs, run_cmd false (fun _ => true) w_obs false (w_announce ++ w_setup_udp ++ w_setup_udp ++ w_setup_udp) = Ok (st, evs) /\ cs_leak st = 2) /\
  (* a UDP SETUP without any session: the connection is closed, the sockets are not *)
  (exists st evs, run_cmd false (fun _ => true) w_obs false w_setup_udp = Ok (st, evs) /\ cs_leak st = 1) /\
  (* the repaired code on the first sequence *)
  (exists st evs, run_cmd true (fun _ => true) w_obs false (w_announce ++ w_setup_udp ++ w_setup_udp ++ w_setup_udp) = Ok (st, evs) /\
     cs_leak st = 0 /\ length evs = 5%nat).
Proof. repeat split; eexists _, _; (split; [vm_compute; reflexivity|]); try reflexivity. split; reflexivity. Qed.
