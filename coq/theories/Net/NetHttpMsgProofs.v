(* C13: the RTSP message reader on ANY byte stream: it returns a message or an
   error, never panics, never runs out of fuel, hands back a suffix of the
   stream, and the capacity it reserves for the body is at most
   2 * (body bytes received + body_step), whatever Content-Length says. *)
From Coq Require Import Lia ZifyN ZifyNat ZifyBool.
From Lal Require Import Common.LBytes Common.LBytesProofs Common.Res Net.NetChk Net.NetChkProofs Net.NetStr
  Net.NetInterleaved Net.NetWsRead Net.NetFramingProofs Net.NetHttpMsg.
Open Scope N_scope.
Ltac Zify.zify_post_hook ::= Z.div_mod_to_equations.

(* ---- lines ---------------------------------------------------------------- *)
Definition suffix (r s : bytes) : Prop := exists p, s = p ++ r.
Lemma suffix_refl s : suffix s s. Proof. exists []. reflexivity. Qed.
Lemma suffix_nil s : suffix [] s. Proof. exists s. now rewrite app_nil_r. Qed.
Lemma suffix_trans a b c : suffix a b -> suffix b c -> suffix a c.
Proof. intros [p ->] [q ->]. exists (q ++ p). now rewrite app_assoc. Qed.
Lemma suffix_length r s : suffix r s -> (length r <= length s)%nat.
Proof. intros [p ->]. rewrite app_length. lia. Qed.
Lemma suffix_ok r s : suffix r s -> bytes_ok s -> bytes_ok r.
Proof. intros [p ->]. apply bytes_ok_suffix. Qed.
Lemma suffix_skipn n (s : bytes) : suffix (skipn n s) s.
Proof. exists (firstn n s). symmetry. apply firstn_skipn. Qed.

Lemma take_line_some s l rest : take_line s = (l, Some rest) -> suffix rest s /\ (length rest < length s)%nat.
Proof.
  revert l rest. induction s as [|c t IH]; intros l rest; cbn [take_line]; [discriminate|].
  destruct (c =? 10).
  - intros [= <- <-]. split; [exists [c]; reflexivity|cbn [length]; lia].
  - destruct (take_line t) as [l' r'] eqn:E. intros [= <- ->].
    destruct (IH _ _ eq_refl) as [[p ->] Hl]. split; [exists (c :: p); reflexivity|cbn [length] in *; lia].
Qed.

Lemma read_line_shrinks s l rest : read_line s = Some (l, rest) -> suffix rest s /\ (length rest < length s)%nat.
Proof.
  unfold read_line. destruct s as [|c t]; [discriminate|].
  destruct (take_line (c :: t)) as [l' [r|]] eqn:E; intros [= <- <-].
  - eapply take_line_some; eauto.
  - split; [apply suffix_nil|cbn [length]; lia].
Qed.

(* ---- headers -------------------------------------------------------------- *)
Lemma bytes_eqb_refl a : bytes_eqb a a = true.
Proof. induction a as [|x a IH]; cbn [bytes_eqb]; [reflexivity|]. rewrite N.eqb_refl, IH. reflexivity. Qed.

Definition has_key (k : bytes) (hs : hdrs) : bool := existsb (fun e => bytes_eqb k (fst e)) hs.
Definition hs_nonempty (hs : hdrs) : Prop := Forall (fun e => snd e <> []) hs.

Lemma hdr_add_nonempty k v hs : hs_nonempty hs -> hs_nonempty (hdr_add k v hs).
Proof.
  induction 1 as [|[k' vs] t Hx Ht IH]; cbn [hdr_add].
  - constructor; [discriminate|constructor].
  - destruct (bytes_eqb k k'); constructor; cbn [snd] in *; auto. destruct vs; discriminate.
Qed.
Lemma hdr_add_has_key k v hs : has_key k (hdr_add k v hs) = true.
Proof.
  induction hs as [|[k' vs] t IH]; cbn [hdr_add has_key existsb fst].
  - now rewrite bytes_eqb_refl.
  - destruct (bytes_eqb k k') eqn:E; cbn [existsb fst]; rewrite ?E; [reflexivity|]. fold (has_key k (hdr_add k v t)). rewrite IH. apply orb_true_r.
Qed.

Lemma hdr_append_last_ok k l hs : hs_nonempty hs -> has_key k hs = true ->
  exists hs', hdr_append_last k l hs = Ok hs' /\ hs_nonempty hs' /\ has_key k hs' = true.
Proof.
  induction 1 as [|[k' vs] t Hx Ht IH]; cbn [has_key existsb hdr_append_last fst]; [discriminate|].
  destruct (bytes_eqb k k') eqn:E; cbn [orb].
  - intros _. cbn [snd] in Hx. destruct (rev vs) as [|last r] eqn:Er.
    { exfalso. apply Hx. apply (f_equal (@length bytes)) in Er. rewrite rev_length in Er. now destruct vs. }
    eexists. split; [reflexivity|]. split.
    + constructor; [cbn [snd]; destruct (rev r); discriminate|exact Ht].
    + cbn [has_key existsb fst]. now rewrite E.
  - intros Hk. destruct (IH Hk) as (t' & -> & Hn & Hk'). cbn [bind]. eexists. split; [reflexivity|]. split.
    + constructor; assumption.
    + cbn [has_key existsb fst]. rewrite E. exact Hk'.
Qed.

(* header lines: any stream, enough fuel: a header map and a strictly shorter suffix, or an io error *)
Lemma read_hdr_lines_spec fuel : forall s lk hs, (length s < fuel)%nat -> hs_nonempty hs ->
  (lk <> [] -> has_key (canon_key lk) hs = true) ->
  (exists hs' rest, read_hdr_lines fuel s lk hs = Ok (hs', rest) /\ suffix rest s /\ (length rest < length s)%nat) \/
  read_hdr_lines fuel s lk hs = Err e_eof.
Proof.
  induction fuel as [|f IH]; intros s lk hs Hf Hn Hk; [lia|]. cbn [read_hdr_lines].
  destruct (read_line s) as [[l rest]|] eqn:El; [|right; reflexivity].
  apply read_line_shrinks in El as [Hs Hl].
  assert (Hlift : forall lk' hs', hs_nonempty hs' -> (lk' <> [] -> has_key (canon_key lk') hs' = true) ->
    (exists hs'' rest', read_hdr_lines f rest lk' hs' = Ok (hs'', rest') /\ suffix rest' s /\ (length rest' < length s)%nat) \/
    read_hdr_lines f rest lk' hs' = Err e_eof).
  { intros lk' hs' Hn' Hk'. destruct (IH rest lk' hs' ltac:(lia) Hn' Hk') as [(h2 & r2 & E & Hs2 & Hl2)|E]; [left|right; exact E].
    exists h2, r2. split; [exact E|]. split; [eapply suffix_trans; eauto|lia]. }
  destruct l as [|c l']. { left. exists hs, rest. auto. }
  destruct (index_byte 58 (c :: l')) as [pos|].
  - apply Hlift; [apply hdr_add_nonempty; exact Hn|intros _; apply hdr_add_has_key].
  - destruct lk as [|k0 lk']; [apply Hlift; assumption|].
    destruct (hdr_append_last_ok (canon_key (k0 :: lk')) (c :: l') hs Hn (Hk ltac:(discriminate))) as (hs' & -> & Hn' & Hk').
    cbn [bind]. apply Hlift; [exact Hn'|intros _; exact Hk'].
Qed.

(* ---- body ----------------------------------------------------------------- *)
Lemma read_body_loop_spec fuel : forall n body cap avail, (length avail < fuel)%nat ->
  cap <= 2 * (lenN body + body_step) ->
  exists body' cap' err rest, read_body_loop fuel n body cap avail = Ok (body', cap', err, rest) /\
    cap' <= 2 * (lenN body' + body_step) /\ cap' <= N.max n cap /\
    lenN body' <= lenN body + lenN avail /\ lenN body' <= N.max n (lenN body) /\ suffix rest avail /\
    (err = None -> n <= lenN body').
Proof.
  induction fuel as [|f IH]; intros n body cap avail Hf Hc; [lia|]. cbn [read_body_loop].
  destruct (n <=? lenN body) eqn:En.
  { apply N.leb_le in En. exists body, cap, None, avail. repeat split; try lia; try apply suffix_refl. }
  apply N.leb_gt in En.
  set (len := lenN body) in *. set (want := N.min (n - len) body_step).
  set (cap' := if cap - len <? want then (if cap <? n / 2 then N.max (2 * cap) (len + want) else n) else cap).
  assert (Hw : 1 <= want /\ want <= body_step /\ want <= n - len) by (unfold want, body_step; lia).
  assert (Hc' : cap' <= 2 * (len + body_step) /\ cap' <= N.max n cap).
  { unfold cap'. destruct (cap - len <? want) eqn:Eg; [|lia]. apply N.ltb_lt in Eg.
    destruct (cap <? n / 2) eqn:Eh; [apply N.ltb_lt in Eh|apply N.ltb_ge in Eh]; lia. }
  set (chunk := firstn (N.to_nat want) avail).
  assert (Hch : lenN chunk = N.min want (lenN avail)) by (unfold chunk; rewrite lenN_firstn; lia).
  assert (Hb' : lenN (body ++ chunk) = len + lenN chunk) by (rewrite lenN_app; reflexivity).
  destruct (lenN chunk <? want) eqn:Es.
  - apply N.ltb_lt in Es. eexists _, _, _, _. split; [reflexivity|].
    repeat split; try apply suffix_nil; try lia. discriminate.
  - apply N.ltb_ge in Es.
    assert (Hlen : (length (skipn (N.to_nat want) avail) < f)%nat).
    { rewrite skipn_length. unfold lenN in *. lia. }
    destruct (IH n (body ++ chunk) cap' (skipn (N.to_nat want) avail) Hlen ltac:(lia))
      as (b2 & c2 & e2 & r2 & -> & H1 & H2 & H3 & H4 & H5 & H6).
    exists b2, c2, e2, r2. split; [reflexivity|].
    assert (Hsk : lenN (skipn (N.to_nat want) avail) = lenN avail - want) by (rewrite lenN_skipn; lia).
    repeat split; try lia; try assumption.
    eapply suffix_trans; [exact H5|apply suffix_skipn].
Qed.

Lemma read_body_spec n avail :
  exists body cap err rest, read_body n avail = Ok (body, cap, err, rest) /\
    cap <= 2 * (lenN body + body_step) /\ cap <= N.max n body_step /\ lenN body <= lenN avail /\ lenN body <= n /\
    suffix rest avail /\ (err = None -> lenN body = n).
Proof.
  unfold read_body.
  assert (H0 : N.min n body_step <= 2 * (lenN (@nil N) + body_step)) by (rewrite lenN_nil; unfold body_step; lia).
  destruct (read_body_loop_spec (S (length avail)) n [] (N.min n body_step) avail ltac:(lia) H0)
    as (b & c & e & r & -> & H1 & H2 & H3 & H4 & H5 & H6).
  exists b, c, e, r. split; [reflexivity|]. rewrite lenN_nil in *. repeat split; try lia; try assumption.
Qed.

(* ---- one message ------------------------------------------------------------ *)
Lemma parse_first_line_cases l : (exists r, parse_first_line l = Ok r) \/ parse_first_line l = Err e_proto.
Proof.
  unfold parse_first_line. destruct (index_byte 32 l) as [f|]; [left|right; reflexivity].
  destruct (index_byte 32 (skipn (S f) l)); eauto.
Qed.

(* what the reader promises about a message it returns (complete, or with a short body) *)
Definition msg_good (s : bytes) (m : msg_out) : Prop :=
  mo_cap m <= 2 * (lenN (mo_body m) + body_step) /\      (* reserved: bytes received, not bytes announced *)
  lenN (mo_body m) <= lenN s /\
  suffix (mo_rest m) s /\ (length (mo_rest m) < length s)%nat.

Theorem read_msg_spec s :
  (exists m, read_msg true s = Ok m /\ msg_good s m) \/
  (exists e, read_msg true s = Err e /\ e <> err_out_of_fuel).
Proof.
  unfold read_msg.
  destruct (read_line s) as [[fl rest]|] eqn:El; [|right; exists e_eof; split; [reflexivity|discriminate]].
  apply read_line_shrinks in El as [Hs Hl].
  destruct fl as [|c fl']; [right; exists e_proto; split; [reflexivity|discriminate]|].
  assert (Hk0 : @nil N <> [] -> has_key (canon_key []) [] = true) by (intros H; now contradiction H).
  destruct (read_hdr_lines_spec (S (length rest)) rest [] [] ltac:(lia) (Forall_nil _) Hk0)
    as [(hs & rest2 & -> & Hs2 & Hl2)| ->]; [|right; exists e_eof; split; [reflexivity|discriminate]].
  cbn [bind].
  destruct (parse_first_line_cases (c :: fl')) as [[[[a b] d] ->]| ->]; [|right; exists e_proto; split; [reflexivity|discriminate]].
  cbn [bind].
  assert (Hs3 : suffix rest2 s) by (eapply suffix_trans; eauto).
  destruct (hdr_get content_length_key hs) as [|v0 v].
  { left. eexists. split; [reflexivity|]. unfold msg_good; cbn [mo_cap mo_body mo_rest]. change (lenN (@nil N)) with 0.
    repeat split; try (unfold body_step; lia); try assumption. }
  destruct (atoi (v0 :: v)) as [cl|]; [|right; exists e_proto; split; [reflexivity|discriminate]].
  cbn [andb]. destruct (cl <? 0)%Z; [right; exists e_proto; split; [reflexivity|discriminate]|].
  destruct (read_body_spec (Z.to_N cl) rest2) as (body & cap & err & rest3 & -> & H1 & H2 & H3 & H4 & H5 & H6).
  cbn [bind]. left. eexists. split; [reflexivity|]. unfold msg_good; cbn [mo_cap mo_body mo_rest].
  pose proof (suffix_length _ _ Hs3). pose proof (suffix_length _ _ H5). unfold lenN in *.
  repeat split; try lia; try assumption. eapply suffix_trans; eauto.
Qed.

Corollary read_msg_no_panic s : no_panic (read_msg true s).
Proof. destruct (read_msg_spec s) as [(m & -> & _)|(e & -> & _)]; reflexivity. Qed.

(* ---- the framing loops of the sessions ---------------------------------------- *)
Theorem rtsp_loop_total fuel : forall s acc, bytes_ok s -> (length s < fuel)%nat ->
  exists items, rtsp_loop true fuel s acc = Ok items.
Proof.
  induction fuel as [|f IH]; intros s acc Hok Hf; [lia|]. cbn [rtsp_loop].
  pose proof (read_interleaved_no_panic s Hok) as Hnp.
  destruct (read_interleaved s) as [[s'|ch p rest]|e|st] eqn:E; eauto; [| |discriminate].
  - assert (s' = s) as ->.
    { revert E. unfold read_interleaved. destruct s as [|x t]; [discriminate|]. destruct (negb (x =? 36)); [congruence|].
      destruct t as [|c t2]; [discriminate|]. destruct (split_exact 2 t2) as [[lb t3]|]; [|discriminate].
      destruct (make_chk s_ilv_makeslice (be_get lb)); cbn [bind]; try discriminate.
      destruct (split_exactN (be_get lb) t3) as [[? ?]|]; discriminate. }
    destruct (read_msg_spec s) as [(m & -> & _ & _ & Hs & Hl)|(e & -> & _)]; eauto.
    destruct (mo_err m); eauto. apply IH; [eapply suffix_ok; eauto|lia].
  - apply IH; [eapply read_interleaved_rest_ok; eauto|]. apply read_interleaved_shrinks in E. lia.
Qed.

Theorem rtsp_ws_loop_total fuel : forall s acc, (length s < fuel)%nat ->
  exists items, rtsp_ws_loop true fuel s acc = Ok items.
Proof.
  induction fuel as [|f IH]; intros s acc Hf; [lia|]. cbn [rtsp_ws_loop].
  pose proof (read_ws_payload_no_panic s) as Hnp.
  destruct (read_ws_payload true s) as [[p rest]|e|st] eqn:E; eauto; [|discriminate].
  destruct (read_msg_spec p) as [(m & -> & _)|(e & -> & _)]; eauto.
  destruct (mo_err m); eauto. apply IH. apply read_ws_payload_shrinks in E. lia.
Qed.

(* ---- pinned tree ---------------------------------------------------------------- *)
(* "A B\r\nContent-Length: <v>\r\n\r\n" *)
Definition w_msg (v : bytes) : bytes :=
  [65; 32; 66; 13; 10] ++ content_length_key ++ [58; 32] ++ v ++ [13; 10; 13; 10].

Lemma read_msg_pinned_refuted :
  (* Content-Length: -1 *)
  read_msg false (w_msg [45; 49]) = Panic s_httpmsg_makeslice /\
  (* Content-Length: 9223372036854775807 *)
  read_msg false (w_msg [57; 50; 50; 51; 51; 55; 50; 48; 51; 54; 56; 53; 52; 55; 55; 53; 56; 48; 55]) = Panic s_httpmsg_makeslice /\
  (* Content-Length: 99999999999 and no body: 100 GB reserved for 0 bytes received (the process dies of out of memory) *)
  (exists m, read_msg false (w_msg [57; 57; 57; 57; 57; 57; 57; 57; 57; 57; 57]) = Ok m /\ mo_body m = [] /\ mo_cap m = 99999999999) /\
  (* the same through the session loops *)
  rtsp_loop false 100 (w_msg [45; 49]) [] = Panic s_httpmsg_makeslice /\
  rtsp_ws_loop false 100 ([130; 27] ++ w_msg [45; 49]) [] = Panic s_httpmsg_makeslice.
Proof.
  split; [vm_compute; reflexivity|]. split; [vm_compute; reflexivity|].
  split; [eexists; split; [vm_compute; reflexivity|split; reflexivity]|].
  split; vm_compute; reflexivity.
Qed.

(* the repaired reader on the same inputs: an error; 4096 bytes reserved *)
Lemma read_msg_fixed_witness :
  read_msg true (w_msg [45; 49]) = Err e_proto /\
  (exists m, read_msg true (w_msg [57; 57; 57; 57; 57; 57; 57; 57; 57; 57; 57]) = Ok m /\ mo_cap m = 4096 /\ mo_err m = Some e_eof).
Proof. split; [vm_compute; reflexivity|]. eexists. split; [vm_compute; reflexivity|split; reflexivity]. Qed.
