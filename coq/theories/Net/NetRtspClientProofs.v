(* C13: the RTSP command layer of the client on ANY byte stream the upstream server may send, in every mode
   (pull / push, interleaved / UDP, with / without credentials, any sdp to push): the handshake returns (error
   or success), the read loop ends or waits, nothing panics, no loop runs out of fuel. *)
From Coq Require Import Lia ZifyN ZifyNat ZifyBool.
From Lal Require Import Common.LBytes Common.LBytesProofs Common.Res Net.NetChk Net.NetChkProofs Net.NetStr
  Net.NetInterleaved Net.NetFramingProofs Net.NetHttpMsg Net.NetHttpMsgProofs Net.NetSdpFull Net.NetRtspCmd Net.NetRtspCmdProofs
  Auth.AuthStr Auth.AuthRtsp Net.NetRtspClient.
Open Scope N_scope.

Definition inp_ok (st : cst) : Prop := bytes_ok (k_in st).

Lemma send_in c st meth uri extra body : k_in (send c st meth uri extra body) = k_in st.
Proof. reflexivity. Qed.

(* writeCmdReadResp: at most two rounds, always returns *)
Lemma cmd_resp_ok c n : forall st meth uri extra body,
  exists st' m, cmd_resp true c n st meth uri extra body = Ok (st', m) /\ (inp_ok st -> inp_ok st').
Proof.
  induction n as [|n IH]; intros st meth uri extra body; cbn [cmd_resp]; [eauto|].
  destruct (read_msg_spec (k_in (send c st meth uri extra body))) as [(m & -> & _ & _ & Hs & _)|(e & -> & _)].
  - destruct (mo_err m); [eexists _, _; split; [reflexivity|exact (fun H => H)]|].
    rewrite send_in in Hs.
    destruct (bytes_eqb (mo_b m) c_401).
    + match goal with |- context [cmd_resp true c n ?s0 meth uri extra body] => destruct (IH s0 meth uri extra body) as (st' & m' & -> & Hp) end.
      eexists _, _. split; [reflexivity|]. intros H. apply Hp. unfold inp_ok in *. cbn [k_in set_auth set_in]. eapply suffix_ok; eauto.
    + eexists _, _. split; [reflexivity|]. intros H. unfold inp_ok in *. cbn [k_in set_in]. eapply suffix_ok; eauto.
  - eexists _, _. split; [reflexivity|exact (fun H => H)].
Qed.

Lemma setup_tcp_ok c st uri : exists st' r, setup_tcp true c st uri = Ok (st', r) /\ (inp_ok st -> inp_ok st').
Proof.
  unfold setup_tcp.
  match goal with |- context [cmd_resp true c 2 ?s0 ?a ?b ?e ?d] => destruct (cmd_resp_ok c 2 s0 a b e d) as (st1 & m & -> & Hp) end.
  cbn [bind]. destruct m as [m|]; [destruct (bytes_eqb (mo_b m) c_461)|]; eexists _, _; (split; [reflexivity|exact Hp]).
Qed.

Lemma setup_udp_ok c st uri : exists st' r, setup_udp true c st uri = Ok (st', r) /\ (inp_ok st -> inp_ok st').
Proof.
  unfold setup_udp.
  match goal with |- context [cmd_resp true c 2 ?s0 ?a ?b ?e ?d] => destruct (cmd_resp_ok c 2 s0 a b e d) as (st1 & m & -> & Hp) end.
  cbn [bind]. destruct m as [m|]; [|eexists _, _; split; [reflexivity|exact Hp]].
  destruct (bytes_eqb (mo_b m) c_461); [eexists _, _; split; [reflexivity|exact Hp]|].
  destruct (np_cases _ (parse_transport_no_panic k_server_port (hdr_get h_transport (mo_hdrs m)))) as [[pp ->]|[e ->]];
    [|destruct (cc_push c)]; eexists _, _; (split; [reflexivity|exact Hp]).
Qed.

Lemma setup_track_ok c st uri : exists st' ok, setup_track true c st uri = Ok (st', ok) /\ (inp_ok st -> inp_ok st').
Proof.
  unfold setup_track. destruct (k_tcp st).
  - destruct (setup_tcp_ok c st uri) as (st1 & r & -> & H1). cbn [bind].
    destruct (r =? 0); [eexists _, _; split; [reflexivity|exact H1]|].
    destruct (r =? 2); [eexists _, _; split; [reflexivity|exact H1]|].
    destruct (setup_udp_ok c st1 uri) as (st2 & r2 & -> & H2). cbn [bind].
    destruct (r2 =? 0); eexists _, _; (split; [reflexivity|intros H; exact (H2 (H1 H))]).
  - destruct (setup_udp_ok c st uri) as (st1 & r & -> & H1). cbn [bind].
    destruct (r =? 0); [eexists _, _; split; [reflexivity|exact H1]|].
    destruct (r =? 2); [eexists _, _; split; [reflexivity|exact H1]|].
    destruct (setup_tcp_ok c st1 uri) as (st2 & r2 & -> & H2). cbn [bind].
    destruct (r2 =? 0); eexists _, _; (split; [reflexivity|intros H; exact (H2 (H1 H))]).
Qed.

Lemma setup_all_ok c st a v : exists st' ok, setup_all true c st a v = Ok (st', ok) /\ (inp_ok st -> inp_ok st').
Proof.
  unfold setup_all.
  assert (H1 : exists st1 ok1, (match v with [] => Ok (st, true) | _ => setup_track true c st (make_setup_uri (cc_url c) v) end) = Ok (st1, ok1)
               /\ (inp_ok st -> inp_ok st1)).
  { destruct v; [eexists _, _; split; [reflexivity|exact (fun H => H)]|apply setup_track_ok]. }
  destruct H1 as (st1 & ok1 & -> & Hp1). cbn [bind].
  destruct ok1; cbn [negb]; [|eexists _, _; split; [reflexivity|exact Hp1]].
  destruct a; [eexists _, _; split; [reflexivity|exact Hp1]|].
  destruct (setup_track_ok c st1 (make_setup_uri (cc_url c) (n :: a))) as (st2 & ok2 & -> & Hp2).
  eexists _, _. split; [reflexivity|intros H; exact (Hp2 (Hp1 H))].
Qed.

(* the read loop of the repaired code ends for every rest of the stream *)
Lemma clt_loop_total fuel : forall s, bytes_ok s -> (length s < fuel)%nat -> exists io, clt_loop true true fuel s = Ok io.
Proof.
  induction fuel as [|f IH]; intros s Hok Hf; [lia|]. cbn [clt_loop].
  pose proof (read_interleaved_no_panic s Hok) as Hnp.
  destruct (read_interleaved s) as [[s'|ch p rest]|e|pst] eqn:E; eauto; [| |discriminate].
  - apply read_interleaved_text in E as ->.
    destruct (read_msg_spec s) as [(m & -> & _ & _ & Hs & Hl)|(e & -> & _)]; eauto.
    destruct (mo_err m); eauto. apply IH; [eapply suffix_ok; eauto|lia].
  - apply IH; [eapply read_interleaved_rest_ok; eauto|apply read_interleaved_shrinks in E; lia].
Qed.

Lemma read_loop_ok st : inp_ok st -> exists o, read_loop true st = Ok o.
Proof.
  intros H. unfold read_loop. destruct (k_tcp st); [|destruct (k_getparam st); eauto].
  rewrite orb_true_r. destruct (clt_loop_total (S (length (k_in st))) (k_in st) H ltac:(lia)) as [io ->]. cbn [bind]. eauto.
Qed.

Theorem client_run_total c s : bytes_ok s -> exists st o, client_run true c s = Ok (st, o).
Proof.
  intros Hok. unfold client_run.
  assert (H0 : inp_ok (cst_init c s)) by exact Hok.
  assert (Hsdp : (exists av, (if cc_push c then parse_sdp_controls (cc_sdp c) else Ok ([], [])) = Ok av) \/
                 (exists e, (if cc_push c then parse_sdp_controls (cc_sdp c) else Ok ([], [])) = Err e)).
  { destruct (cc_push c); [apply np_cases, parse_sdp_controls_no_panic|left; eauto]. }
  destruct Hsdp as [[[pa pv] ->]|[e ->]]; [|eauto].
  destruct (cmd_resp_ok c 2 (cst_init c s) t_options (cc_url c) [] []) as (st1 & m & -> & H1). cbn [bind].
  destruct m as [m|]; [|eauto].
  set (st2 := mk_cst (k_in st1) _ _ _ _ _ _ _ _).
  assert (H2 : inp_ok st2) by (apply H1, H0).
  destruct (cc_push c) eqn:Ep.
  - destruct (cmd_resp_ok c 2 st2 m_announce (cc_url c) [(h_accept, v_sdp)] (cc_sdp c)) as (st3 & m3 & -> & H3). cbn [bind].
    destruct m3 as [m3|]; cbn [bind]; [|eauto].
    destruct (setup_all_ok c st3 pa pv) as (st4 & ok & -> & H4). cbn [bind].
    destruct ok; cbn [negb]; [|eauto].
    destruct (cmd_resp_ok c 2 st4 m_record (cc_url c) [(h_range, v_range)] []) as (st5 & m5 & -> & H5). cbn [bind].
    destruct m5 as [m5|]; [|eauto].
    destruct (read_loop_ok st5 (H5 (H4 (H3 H2)))) as [o ->]. cbn [bind]. eauto.
  - destruct (cmd_resp_ok c 2 st2 m_describe (cc_url c) [(h_accept, v_sdp)] []) as (st3 & m3 & -> & H3). cbn [bind].
    destruct m3 as [m3|]; cbn [bind]; [|eauto].
    destruct (np_cases _ (parse_sdp_controls_no_panic (mo_body m3))) as [[[a v] ->]|[e ->]]; cbn [bind]; [|eauto].
    match goal with |- context [setup_all true c ?s0 a v] => destruct (setup_all_ok c s0 a v) as (st4 & ok & -> & H4) end. cbn [bind].
    destruct ok; cbn [negb]; [|eauto].
    destruct (cmd_resp_ok c 2 st4 m_play (cc_url c) [(h_range, v_range)] []) as (st5 & m5 & -> & H5). cbn [bind].
    destruct m5 as [m5|]; [|eauto].
    assert (H6 : inp_ok st5) by (apply H5, H4; exact (H3 H2)).
    destruct (read_loop_ok st5 H6) as [o ->]. cbn [bind]. eauto.
Qed.

(* a session that has come through the handshake is reported as ended, or waits for the keep-alive ticker
   (UDP transport and a server that announces GET_PARAMETER): there is no third state *)
Theorem client_run_outcome c s st o : client_run true c s = Ok (st, o) ->
  o = CFailed \/ o = CBadSdp \/ o = CEnded \/ (o = CRunning /\ k_tcp st = false /\ k_getparam st = true).
Proof.
  unfold client_run.
  destruct (if cc_push c then parse_sdp_controls (cc_sdp c) else Ok ([], [])) as [[pa pv]|e|p]; try discriminate; [|intros [= _ <-]; auto].
  destruct (cmd_resp true c 2 (cst_init c s) t_options (cc_url c) [] []) as [[st1 m]|e|p]; cbn [bind]; try discriminate.
  destruct m as [m|]; [|intros [= _ <-]; auto].
  match goal with |- context [let* (st3, ctl) := ?X in _] => destruct X as [[st3 ctl]|e|p] end; cbn [bind]; try discriminate.
  destruct ctl as [[a v]|]; [|intros [= _ <-]; auto].
  destruct (setup_all true c st3 a v) as [[st4 ok]|e|p]; cbn [bind]; try discriminate.
  destruct ok; cbn [negb]; [|intros [= _ <-]; auto].
  match goal with |- context [cmd_resp true c 2 st4 ?xa ?xb ?xe ?xd] => destruct (cmd_resp true c 2 st4 xa xb xe xd) as [[st5 m5]|e5|p5] end; cbn [bind]; try discriminate.
  destruct m5 as [m5|]; [|intros [= _ <-]; auto].
  unfold read_loop. destruct (k_tcp st5) eqn:Et.
  - rewrite orb_true_r. destruct (clt_loop true true (S (length (k_in st5))) (k_in st5)) as [io|e|p]; cbn [bind]; try discriminate.
    intros [= _ <-]. auto.
  - destruct (k_getparam st5) eqn:Eg; intros [= <- <-]; auto 10.
Qed.

(* ---- pinned tree ------------------------------------------------------------------------ *)
(* "RTSP/1.0 200 OK\r\n\r\n" *)
Definition w_ok : bytes := [82; 84; 83; 80; 47; 49; 46; 48; 32; 50; 48; 48; 32; 79; 75; 13; 10; 13; 10].
Definition w_ccfg (tcp : bool) : ccfg := mk_ccfg false tcp [] [] [114; 116; 115; 112; 58; 47; 47; 104; 47; 120] [].

Lemma client_run_pinned_refuted :
  (* interleaved pull from a server that does not announce GET_PARAMETER: OPTIONS, DESCRIBE (no tracks) and PLAY
     answered, then one more answer: the read loop pushes its first byte back and reads it again, for ever *)
  client_run false (w_ccfg true) (w_ok ++ w_ok ++ w_ok ++ w_ok) = Err err_out_of_fuel /\
  (* UDP pull: one byte on the command connection after the handshake ends the command session with a nil error,
     the pull session is never reported as ended *)
  (exists st, client_run false (w_ccfg false) (w_ok ++ w_ok ++ w_ok ++ [13]) = Ok (st, CRunning) /\ k_getparam st = false) /\
  (* the repaired code on both streams *)
  (exists st, client_run true (w_ccfg true) (w_ok ++ w_ok ++ w_ok ++ w_ok) = Ok (st, CEnded)) /\
  (exists st, client_run true (w_ccfg false) (w_ok ++ w_ok ++ w_ok ++ [13]) = Ok (st, CEnded)).
Proof.
  split; [vm_compute; reflexivity|]. split; [eexists; split; [vm_compute; reflexivity|reflexivity]|].
  split; eexists; vm_compute; reflexivity.
Qed.
