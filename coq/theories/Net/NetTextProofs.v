(* C13: the text parsers (SDP a=rtpmap / a=fmtp / m=, RTMP url path, HLS request
   path) and the RTMP client message dispatch never panic. *)
From Coq Require Import Lia ZifyN ZifyNat ZifyBool.
From Lal Require Import Common.LBytes Common.Res Net.NetChk Net.NetChkProofs Net.NetStr Net.NetSdpRaw Net.NetUrlPath Net.NetRtmpClient.
Open Scope N_scope.
Ltac Zify.zify_post_hook ::= Z.div_mod_to_equations.

(* ---------------------------------------------------------------------- *)
Theorem client_do_msg_no_panic typeid p : no_panic (client_do_msg true typeid p).
Proof.
  unfold client_do_msg. cbn [andb].
  destruct ((typeid =? 5) || (typeid =? 6) || (typeid =? 1)). { destruct (lenN p <? 4); reflexivity. }
  destruct ((typeid =? 20) || (typeid =? 18)); [reflexivity|].
  destruct (typeid =? 3).
  { destruct (lenN p <? 4) eqn:E; [reflexivity|]. apply N.ltb_ge in E.
    destruct (be_at_ok s_rtmpc_slice s_rtmpc_be32 4 p 0) as [v ->]; [lia|]. reflexivity. }
  destruct (typeid =? 4).
  { destruct (lenN p <? 2) eqn:E2; [reflexivity|]. apply N.ltb_ge in E2.
    destruct (be_at_ok s_rtmpc_slice s_rtmpc_be16 2 p 0) as [t ->]; [lia|]. cbn [bind].
    destruct (t =? 6); [|reflexivity].
    destruct (lenN p <? 6) eqn:E6; [reflexivity|]. apply N.ltb_ge in E6.
    destruct (be_at_ok s_rtmpc_slice s_rtmpc_be32 4 (skipn 2 p) 0) as [ts ->]; [rewrite lenN_skipn; lia|]. reflexivity. }
  destruct ((typeid =? 8) || (typeid =? 9)); reflexivity.
Qed.

Lemma client_do_msg_pinned_refuted :
  client_do_msg false 2 [] = Panic s_rtmpc_explicit /\
  client_do_msg false 3 [0; 0; 1] = Panic s_rtmpc_be32 /\
  client_do_msg false 4 [0] = Panic s_rtmpc_be16 /\
  client_do_msg false 4 [0; 6; 0; 0] = Panic s_rtmpc_be32.
Proof. repeat split; vm_compute; reflexivity. Qed.

(* ---------------------------------------------------------------------- *)
Lemma item_ok l i : (i < length l)%nat -> exists x, item l i = Ok x.
Proof.
  intros H. unfold item. destruct (nth_error l i) eqn:E; [eauto|]. apply nth_error_None in E. lia.
Qed.

Ltac item_step n :=
  match goal with |- context [item ?l n] =>
    let x := fresh "x" in destruct (item_ok l n) as [x ->]; [lia|]; cbn [bind] end.

Theorem parse_a_rtpmap_no_panic s : no_panic (parse_a_rtpmap s).
Proof.
  unfold parse_a_rtpmap.
  destruct (Nat.eqb (length (splitn ch_colon 2 s)) 2) eqn:E1; cbn [negb]; [|reflexivity]. apply Nat.eqb_eq in E1.
  item_step 1%nat.
  destruct (Nat.eqb (length (splitn ch_space 2 x)) 2) eqn:E2; cbn [negb]; [|reflexivity]. apply Nat.eqb_eq in E2.
  item_step 0%nat. destruct (atoi x0); [|reflexivity].
  item_step 1%nat.
  destruct (Nat.eqb (length (splitn ch_slash 3 x1)) 3) eqn:E3; cbn [orb].
  - apply Nat.eqb_eq in E3. item_step 2%nat. item_step 0%nat. item_step 1%nat. destruct (atoi x4); reflexivity.
  - destruct (Nat.eqb (length (splitn ch_slash 3 x1)) 2) eqn:E4; [|reflexivity]. apply Nat.eqb_eq in E4.
    cbn [bind]. item_step 0%nat. item_step 1%nat. destruct (atoi x3); reflexivity.
Qed.

Lemma fmtp_params_no_panic : forall pps m, no_panic (fmtp_params pps m).
Proof.
  induction pps as [|pp t IH]; intros m; cbn [fmtp_params]; [reflexivity|].
  destruct (Nat.eqb (length (splitn ch_eq 2 (trim_space pp))) 2) eqn:E; cbn [negb]; [|reflexivity]. apply Nat.eqb_eq in E.
  item_step 0%nat. item_step 1%nat. apply IH.
Qed.

Theorem parse_a_fmtp_no_panic s : no_panic (parse_a_fmtp s).
Proof.
  unfold parse_a_fmtp.
  destruct (Nat.eqb (length (splitn ch_colon 2 s)) 2) eqn:E1; cbn [negb]; [|reflexivity]. apply Nat.eqb_eq in E1.
  item_step 1%nat.
  destruct (Nat.eqb (length (splitn ch_space 2 x)) 2) eqn:E2; cbn [negb]; [|reflexivity]. apply Nat.eqb_eq in E2.
  item_step 0%nat. destruct (atoi x0); [|reflexivity].
  item_step 1%nat.
  match goal with |- context [fmtp_params ?a ?b] => pose proof (fmtp_params_no_panic a b) as H; destruct (fmtp_params a b) end;
    try reflexivity. discriminate.
Qed.

Theorem parse_m_no_panic s : no_panic (parse_m s).
Proof.
  unfold parse_m. set (items := split_on ch_space _).
  destruct (Nat.ltb (length items) 1) eqn:E1; [reflexivity|]. apply Nat.ltb_ge in E1.
  item_step 0%nat.
  destruct (Nat.ltb 3 (length items)) eqn:E3; [|reflexivity]. apply Nat.ltb_lt in E3.
  item_step 3%nat. reflexivity.
Qed.

(* ---------------------------------------------------------------------- *)
Lemma last_index_byte_from_spec c : forall s i best r,
  last_index_byte_from c s i best = r ->
  (r = best /\ count_byte c s = 0) \/ (exists j, r = Some j /\ i <= j < i + lenN s /\ 1 <= count_byte c s).
Proof.
  induction s as [|x t IH]; intros i best r; cbn [last_index_byte_from count_byte]; [intros <-; left; auto|].
  rewrite lenN_cons. intros H. apply IH in H. destruct (x =? c).
  - destruct H as [[-> Hc]|(j & -> & Hj & Hc)]; right.
    + exists i. repeat split; lia.
    + exists j. repeat split; lia.
  - destruct H as [[-> Hc]|(j & -> & Hj & Hc)]; [left; split; [reflexivity|lia]|right].
    exists j. repeat split; lia.
Qed.

Lemma last_index_byte_some c s j : last_index_byte c s = Some j -> j < lenN s /\ 1 <= count_byte c s.
Proof.
  unfold last_index_byte. intros H. apply last_index_byte_from_spec in H as [[H _]|(j' & H & Hj & Hc)]; [discriminate|].
  injection H as <-. lia.
Qed.

Lemma last_index_byte_none c s : last_index_byte c s = None -> count_byte c s = 0.
Proof.
  unfold last_index_byte. intros H. apply last_index_byte_from_spec in H as [[_ H]|(j' & H & _)]; [exact H|discriminate].
Qed.

Lemma split_on_length c s : length (split_on c s) = S (N.to_nat (count_byte c s)).
Proof.
  induction s as [|x t IH]; cbn [split_on count_byte]; [reflexivity|].
  destruct (x =? c).
  - cbn [length]. rewrite IH. lia.
  - destruct (split_on c t) as [|h r] eqn:E; cbn [length] in *; lia.
Qed.

Lemma parse_url_path_spec path query : exists u, parse_url_path path query = Ok u /\ u_path u = path /\
  (u_last u <> [] -> 1 <= count_byte ch_sl path) /\
  u_pwq u = match query with [] => path | _ => path ++ [ch_q] ++ query end.
Proof.
  unfold parse_url_path.
  destruct (last_index_byte ch_sl path) as [index|] eqn:E.
  - apply last_index_byte_some in E as [Hlt Hc].
    destruct index as [|p].
    + destruct (bytes_eqb path [ch_sl]).
      * cbn [bind]. eexists. split; [reflexivity|]. cbn. repeat split; auto.
      * rewrite slice_from_ok by lia. cbn [bind]. eexists. split; [reflexivity|]. cbn. repeat split; auto.
    + rewrite slice_ok by lia. cbn [bind]. rewrite slice_from_ok by lia. cbn [bind].
      eexists. split; [reflexivity|]. cbn. repeat split; auto.
  - cbn [bind]. eexists. split; [reflexivity|]. cbn. repeat split; auto. intros H; contradiction.
Qed.

Theorem parse_rtmp_url_no_panic text : no_panic (parse_rtmp_url true text).
Proof.
  unfold parse_rtmp_url. destruct (split_first ch_q text) as [path q].
  destruct (parse_url_path_spec path (match q with Some x => x | None => [] end)) as (u & -> & Hp & _ & Hq). cbn [bind].
  destruct path as [|c t]; [reflexivity|].
  destruct (c =? ch_sl) eqn:Ec; cbn [negb]; [|reflexivity]. apply N.eqb_eq in Ec. subst c.
  set (u' := match u_pwli u with [] => _ | _ => _ end).
  assert (Hq' : u_pwq u' = u_pwq u) by (subst u'; destruct (u_pwli u), (u_last u); reflexivity).
  rewrite Hq'. destruct (1 <? count_byte ch_q (u_pwq u)); [|reflexivity].
  assert (Hs : exists r, u_pwq u = ch_sl :: r) by (rewrite Hq; destruct q as [[|? ?]|]; cbn; eauto).
  destruct Hs as [r Hr].
  destruct (last_index_byte ch_sl (u_pwq u)) as [index|] eqn:El.
  - apply last_index_byte_some in El as [Hlt _]. cbn [andb].
    destruct (index <? 1) eqn:E1; [reflexivity|]. apply N.ltb_ge in E1.
    rewrite slice_ok by lia. cbn [bind]. rewrite slice_from_ok by lia. reflexivity.
  - apply last_index_byte_none in El. rewrite Hr in El. cbn [count_byte] in El. rewrite N.eqb_refl in El. lia.
Qed.

Lemma parse_rtmp_url_pinned_refuted : parse_rtmp_url false [47; 97; 63; 120; 63; 121] = Panic s_rtmpurl_slice.
Proof. vm_compute. reflexivity. Qed.

Lemma file_name_type_ok last : exists a b, file_name_type last = Ok (a, b).
Proof.
  unfold file_name_type. destruct (last_index_byte ch_dot last) as [index|] eqn:E; [|eauto].
  apply last_index_byte_some in E as [Hlt _].
  rewrite slice_ok by lia. cbn [bind]. rewrite slice_from_ok by lia. cbn [bind]. eauto.
Qed.

Lemma bytes_eqb_nonempty a b : bytes_eqb a b = true -> b <> [] -> a <> [].
Proof. destruct a, b; cbn; try discriminate; auto. Qed.

Lemma hls_request_info_raw_no_panic text : no_panic (hls_request_info_raw text).
Proof.
  unfold hls_request_info_raw. destruct (split_first ch_q text) as [path q].
  destruct (parse_url_path_spec path (match q with Some x => x | None => [] end)) as (u & -> & Hp & Hl & _). cbn [bind].
  destruct (file_name_type_ok (u_last u)) as (a & b & ->). cbn [bind].
  destruct (bytes_eqb b m3u8).
  - destruct (bytes_eqb (u_last u) playlist_m3u8 || bytes_eqb (u_last u) record_m3u8) eqn:Ef; [|reflexivity].
    assert (Hne : u_last u <> []).
    { apply orb_true_iff in Ef as [Ef|Ef]; eapply bytes_eqb_nonempty; eauto; discriminate. }
    specialize (Hl Hne). rewrite Hp.
    pose proof (split_on_length ch_sl path) as Hlen.
    destruct (length (split_on ch_sl path)) as [|[|k]] eqn:Ek; [lia|lia|].
    destruct (nth_error (split_on ch_sl path) k) eqn:En; [reflexivity|].
    apply nth_error_None in En. lia.
  - destruct (bytes_eqb b ts_ext); reflexivity.
Qed.

Theorem hls_request_info_no_panic text : no_panic (hls_request_info text).
Proof.
  pose proof (hls_request_info_raw_no_panic text) as H. unfold hls_request_info.
  destruct (hls_request_info_raw text) as [[[sn fn] ft]|e|x]; try exact H.
  destruct (is_plain_path_element sn); reflexivity.
Qed.

