(* C13: model of gb28181.PsUnpacker on arbitrary RTP packets
   (pkg/gb28181/unpack.go: FeedRtpPacket / FeedRtpBody / parsePackHeader /
    parsePackStreamBody / parsePsm / parseAvStream / readPts /
    iterateNaluByStartCode / onAvPacketWrap; avc.IterateNaluStartCode;
    nazabytes.Buffer Write / Bytes / Skip / Reset; rtprtcp.RtpPacketList). *)
From Lal Require Import Common.LBytes Common.Res Net.NetChk Net.NetRtpHeader Net.NetRtcp Net.NetUnpack.
Open Scope N_scope.

Definition s_ps_be32_index : N := 30.       (* bele.BeUint32:index           FeedRtpBody: fewer than 4 bytes buffered *)
Definition s_ps_be16_index : N := 31.       (* bele.BeUint16:index           parseAvStream: no PES length *)
Definition s_ps_av_index : N := 32.         (* gb28181.PsUnpacker.parseAvStream:index *)
Definition s_ps_av_slice : N := 33.         (* gb28181.PsUnpacker.parseAvStream:slice *)
Definition s_ps_readpts_index : N := 34.    (* gb28181.readPts:index *)
Definition s_ps_wrap_index : N := 35.       (* gb28181.PsUnpacker.onAvPacketWrap:index *)
Definition s_ps_popfirst_nil : N := 36.     (* rtprtcp.RtpPacketList.PopFirst:nil *)
Definition s_ps_peekfirst_nil : N := 37.    (* rtprtcp.RtpPacketList.PeekFirst:nil *)
Definition s_ps_feed_slice : N := 38.       (* gb28181.PsUnpacker.FeedRtpBody:slice (never) *)
Definition s_ps_misc_index : N := 39.       (* index inside parsePackHeader / parsePsm (never) *)
Definition s_ps_psm_slice : N := 40.        (* gb28181.PsUnpacker.parsePsm:slice (never) *)

Record ps_ev := mk_psev { pe_pt : Z; pe_ts : Z; pe_pts : Z; pe_payload : bytes }.

Record ps_state := mk_ps {
  ps_list : list upkt; ps_size : Z; ps_done : option N;
  ps_buf : bytes; ps_abuf : bytes; ps_vbuf : bytes;
  ps_ast : N; ps_vst : N; ps_apt : Z; ps_vpt : Z;
  ps_pre_apts : Z; ps_pre_vpts : Z; ps_pre_adts : Z; ps_pre_vdts : Z; ps_pre_artpts : Z; ps_pre_vrtpts : Z;
  ps_wait_sps : bool }.

Definition ps_init : ps_state :=
  mk_ps [] 0 None [] [] [] 0 0 0 0 (-1) (-1) 0 0 (-1) (-1) true.

(* ---------------------------------------------------------------------- *)
(* avc.IterateNaluStartCode(nalu, start): scan returns (offset of the '1' byte, zero count) *)
Fixpoint scan_start_code (l : bytes) (i count : N) : option (N * N) :=
  match l with
  | [] => None
  | b :: t =>
      if b =? 0 then scan_start_code t (i + 1) (count + 1)
      else if b =? 1 then
        (if 2 <=? count then Some (i, count) else scan_start_code t (i + 1) 0)
      else scan_start_code t (i + 1) 0
  end.

(* returns (pos, length) or None for (-1, -1); a nil buffer is modelled as [] (start >= len covers it) *)
Definition iterate_nalu_start_code (nalu : bytes) (start : N) : option (N * N) :=
  if lenN nalu <=? start then None
  else match scan_start_code (skipn (N.to_nat start) nalu) 0 0 with
       | Some (i, count) => Some (start + i - count, count + 1)
       | None => None
       end.

(* onAvPacketWrap *)
Definition on_av_packet_wrap (fx : bool) (wait : bool) (e : ps_ev) : res (bool * list ps_ev) :=
  if (pe_pt e =? 96)%Z || (pe_pt e =? 98)%Z then
    (* fix: a nalu shorter than 5 bytes (start code + type) is dropped *)
    if fx && (lenN (pe_payload e) <? 5) then Ok (wait, []) else
    let* b4 := idx s_ps_wrap_index (pe_payload e) 4 in
    let typ := if (pe_pt e =? 96)%Z then b4 mod 32 else (b4 mod 128) / 2 in
    if wait then
      if (pe_pt e =? 96)%Z then
        if (typ =? 7) || (typ =? 8) then Ok (false, [e]) else Ok (wait, [])
      else
        if (typ =? 32) || (typ =? 33) || (typ =? 34) then Ok (false, [e]) else Ok (wait, [])
    else Ok (wait, [e])
  else Ok (wait, [e]).

(* iterateNaluByStartCode: fuel = length of the video buffer *)
Fixpoint iterate_nalu_loop (fx : bool) (fuel : nat) (vb : bytes) (vpt pts dts : Z) (start_pos pre_leading : N)
         (wait : bool) (acc : list ps_ev) : res (bool * list ps_ev) :=
  match fuel with
  | O => Err err_out_of_fuel
  | S f =>
      let nxt := iterate_nalu_start_code vb (start_pos + pre_leading) in
      let* nalu :=
        (match nxt with
         | Some (np, _) => slice s_ps_feed_slice vb start_pos np
         | None => slice_from s_ps_feed_slice vb start_pos
         end) in
      let* (wait', evs) := on_av_packet_wrap fx wait (mk_psev vpt (Z.quot dts 90) (Z.quot pts 90) nalu) in
      match nxt with
      | Some (np, leading) => iterate_nalu_loop fx f vb vpt pts dts np leading wait' (acc ++ evs)
      | None => Ok (wait', acc ++ evs)
      end
  end.

Definition iterate_nalu_by_start_code (fx : bool) (vb : bytes) (vpt pts dts : Z) (wait : bool) : res (bool * list ps_ev) :=
  match iterate_nalu_start_code vb 0 with
  | None => Ok (wait, [])
  | Some (sp, pl) => iterate_nalu_loop fx (S (length vb)) vb vpt pts dts sp pl wait []
  end.

(* readPts(b[off:]) *)
Definition read_pts (rb : bytes) (off : N) : res Z :=
  if lenN rb <? off then Panic s_ps_av_slice else
  let* b0 := idx s_ps_readpts_index rb off in
  let* b1 := idx s_ps_readpts_index rb (off + 1) in
  let* b2 := idx s_ps_readpts_index rb (off + 2) in
  let* b3 := idx s_ps_readpts_index rb (off + 3) in
  let* b4 := idx s_ps_readpts_index rb (off + 4) in
  Ok (Z.of_N (((b0 / 2) mod 8) * 1073741824 + ((b1 * 256 + b2) / 2) * 32768 + (b3 * 256 + b4) / 2)).

(* ---------------------------------------------------------------------- *)
Definition parse_pack_header (rb : bytes) : res Z :=
  (* index = 4: i = 13 *)
  if lenN rb <=? 13 then Ok (-1)%Z else
  let* b := idx s_ps_misc_index rb 13 in
  Ok (Z.of_N (10 + b mod 8)).

Definition parse_pack_stream_body (rb : bytes) : res Z :=
  if lenN rb <? 6 then Ok (-1)%Z else
  let* l := be_at s_ps_feed_slice s_ps_be16_index 2 rb 4 in
  if lenN rb <? 6 + l then Ok (-1)%Z else Ok (Z.of_N (2 + l)).

(* elementary stream map loop of parsePsm; esml > 0 is the loop condition *)
Fixpoint psm_loop (fuel : nat) (rb : bytes) (i : N) (esml : Z) (st : N * N * Z * Z) : res (N * (N * N * Z * Z)) :=
  if (esml <=? 0)%Z then Ok (i, st) else
  match fuel with
  | O => Err err_out_of_fuel
  | S f =>
      let* stream_type := idx s_ps_misc_index rb i in
      let* stream_id := idx s_ps_misc_index rb (i + 1) in
      let '(ast, vst, apt, vpt) := st in
      let st' :=
        if (224 <=? stream_id) && (stream_id <=? 239) then
          (ast, stream_type, apt, if stream_type =? 27 then 96%Z else if stream_type =? 36 then 98%Z else (-1)%Z)
        else if (192 <=? stream_id) && (stream_id <=? 223) then
          (stream_type, vst,
           (if stream_type =? 15 then 97%Z else if stream_type =? 144 then 8%Z else if stream_type =? 145 then 0%Z else (-1)%Z), vpt)
        else st in
      let* esil := be_at s_ps_psm_slice s_ps_be16_index 2 rb (i + 2) in
      psm_loop f rb (i + 4 + esil) (esml - 4 - Z.of_N esil) st'
  end.

Definition parse_psm (rb : bytes) (st : N * N * Z * Z) : res (Z * (N * N * Z * Z)) :=
  (* index = 4 *)
  if lenN rb <? 4 then Panic s_ps_psm_slice else
  if lenN rb - 4 <? 6 then Ok ((-1)%Z, st) else
  let* l := be_at s_ps_psm_slice s_ps_be16_index 2 rb 8 in
  if lenN rb - 10 <? l + 2 then Ok ((-1)%Z, st) else
  let i := 10 + l in
  let* esml := be_at s_ps_psm_slice s_ps_be16_index 2 rb i in
  let i := i + 2 in
  if lenN rb - i <? esml + 4 then Ok ((-1)%Z, st) else
  let* (i', st') := psm_loop (S (length rb)) rb i (Z.of_N esml) st in
  Ok (Z.of_N (i' + 4 - 4), st').

(* ---------------------------------------------------------------------- *)
Definition is_audio_code (code : N) : bool := code =? 448.   (* 0x1c0 *)

Definition parse_av_stream (fx : bool) (st : ps_state) (code rtpts : N) (rb : bytes) : res (Z * ps_state * list ps_ev) :=
  (* fix: the PES length field itself may not be there yet *)
  if fx && (lenN rb <? 6) then Ok ((-1)%Z, st, []) else
  let* length := be_at s_ps_av_slice s_ps_be16_index 2 rb 4 in
  if lenN rb - 6 <? length then Ok ((-1)%Z, st, []) else
  (* fix: a PES packet too short for its own header is skipped *)
  if fx && (length <? 3) then Ok (Z.of_N (2 + length), st, []) else
  let* f7 := idx s_ps_av_index rb 7 in
  let* phdl := idx s_ps_av_index rb 8 in
  let flag := f7 / 64 in
  let need := (if 2 <=? flag then 5 else 0) + (if flag mod 2 =? 1 then 5 else 0) in
  if fx && ((length <? 3 + phdl) || (phdl <? need)) then Ok (Z.of_N (2 + length), st, []) else
  let* pts := (if 2 <=? flag then read_pts rb 9 else Ok (-1)%Z) in
  let j := if 2 <=? flag then 5 else 0 in
  let* dts := (if flag mod 2 =? 1 then read_pts rb (9 + j) else Ok pts) in
  let i := 9 + phdl in
  let rtp := Z.of_N rtpts in
  if is_audio_code code then
    if (ps_ast st =? 15) || (ps_ast st =? 144) || (ps_ast st =? 145) then
      let flush := [mk_psev (ps_apt st) (Z.quot (ps_pre_adts st) 90) (Z.quot (ps_pre_apts st) 90) (ps_abuf st)] in
      (* C07 fix (lal c5259a2): a stream without pts is stamped with the rtp timestamp (was: preAudioDts = -1, i.e. 0 ms),
         and a further pes packet of a frame inherits the dts of the frame (was: dts = -1 overwrote preAudioDts) *)
      let flush_rtp := if fx then [mk_psev (ps_apt st) (Z.quot (ps_pre_artpts st) 90) (Z.quot (ps_pre_artpts st) 90) (ps_abuf st)] else flush in
      let '(pts', dts, abuf, evs) :=
        if (pts =? -1)%Z then
          if (ps_pre_apts st =? -1)%Z then
            if (ps_pre_artpts st =? -1)%Z then (pts, dts, ps_abuf st, [])
            else if negb (ps_pre_artpts st =? rtp)%Z then (pts, dts, [], flush_rtp)
            else (pts, dts, ps_abuf st, [])
          else (ps_pre_apts st, (if fx then ps_pre_adts st else dts), ps_abuf st, [])
        else
          if negb (pts =? ps_pre_apts st)%Z && (0 <=? ps_pre_apts st)%Z then (pts, dts, [], flush)
          else (pts, dts, ps_abuf st, []) in
      let* data := (if lenN rb <? 6 + length then Panic s_ps_av_slice else slice s_ps_av_slice rb i (6 + length)) in
      Ok (Z.of_N (2 + length),
          mk_ps (ps_list st) (ps_size st) (ps_done st) (ps_buf st) (abuf ++ data) (ps_vbuf st)
                (ps_ast st) (ps_vst st) (ps_apt st) (ps_vpt st)
                pts' (ps_pre_vpts st) dts (ps_pre_vdts st) rtp (ps_pre_vrtpts st) (ps_wait_sps st),
          evs)
    else Ok (Z.of_N (2 + length), st, [])
  else
    let* (r, pts') :=
      (if (pts =? -1)%Z then
         if (ps_pre_vpts st =? -1)%Z then
           if (ps_pre_vrtpts st =? -1)%Z then Ok (None, pts)
           else if negb (ps_pre_vrtpts st =? rtp)%Z then
             let* we := iterate_nalu_by_start_code fx (ps_vbuf st) (ps_vpt st) (ps_pre_vrtpts st) (ps_pre_vrtpts st) (ps_wait_sps st) in
             Ok (Some we, pts)
           else Ok (None, pts)
         else Ok (None, ps_pre_vpts st)
       else
         if negb (pts =? ps_pre_vpts st)%Z && (0 <=? ps_pre_vpts st)%Z then
           let* we := iterate_nalu_by_start_code fx (ps_vbuf st) (ps_vpt st) (ps_pre_vpts st) (ps_pre_vpts st) (ps_wait_sps st) in
           Ok (Some we, pts)
         else Ok (None, pts)) in
    let '(wait, vbuf, evs) := match r with Some (w, e) => (w, [], e) | None => (ps_wait_sps st, ps_vbuf st, []) end in
    let* data := (if lenN rb <? 6 + length then Panic s_ps_av_slice else slice s_ps_av_slice rb i (6 + length)) in
    Ok (Z.of_N (2 + length),
        mk_ps (ps_list st) (ps_size st) (ps_done st) (ps_buf st) (ps_abuf st) (vbuf ++ data)
              (ps_ast st) (ps_vst st) (ps_apt st) (ps_vpt st)
              (ps_pre_apts st) pts' (ps_pre_adts st) dts (ps_pre_artpts st) rtp wait,
        evs).

Definition set_buf (st : ps_state) (b : bytes) : ps_state :=
  mk_ps (ps_list st) (ps_size st) (ps_done st) b (ps_abuf st) (ps_vbuf st) (ps_ast st) (ps_vst st) (ps_apt st) (ps_vpt st)
        (ps_pre_apts st) (ps_pre_vpts st) (ps_pre_adts st) (ps_pre_vdts st) (ps_pre_artpts st) (ps_pre_vrtpts st) (ps_wait_sps st).

Definition set_psm (st : ps_state) (x : N * N * Z * Z) : ps_state :=
  let '(ast, vst, apt, vpt) := x in
  mk_ps (ps_list st) (ps_size st) (ps_done st) (ps_buf st) (ps_abuf st) (ps_vbuf st) ast vst apt vpt
        (ps_pre_apts st) (ps_pre_vpts st) (ps_pre_adts st) (ps_pre_vdts st) (ps_pre_artpts st) (ps_pre_vrtpts st) (ps_wait_sps st).

Definition clear_bufs (st : ps_state) : ps_state :=
  mk_ps (ps_list st) (ps_size st) (ps_done st) [] [] [] (ps_ast st) (ps_vst st) (ps_apt st) (ps_vpt st)
        (ps_pre_apts st) (ps_pre_vpts st) (ps_pre_adts st) (ps_pre_vdts st) (ps_pre_artpts st) (ps_pre_vrtpts st) (ps_wait_sps st).

(* Buffer.Skip(n): n > Len resets the buffer *)
Definition buf_skip (b : bytes) (n : Z) : bytes :=
  if (Z.of_N (lenN b) <? n)%Z then [] else skipn (Z.to_nat n) b.

(* the loop of FeedRtpBody after buf.Write; returns (error?, state, events) *)
Fixpoint feed_body_loop (fx : bool) (fuel : nat) (st : ps_state) (rtpts : N) (acc : list ps_ev) : res (bool * ps_state * list ps_ev) :=
  match ps_buf st with
  | [] => Ok (false, st, acc)
  | _ =>
      match fuel with
      | O => Err err_out_of_fuel
      | S f =>
          let rb := ps_buf st in
          (* fix: fewer than 4 bytes buffered: wait for the next packet *)
          if fx && (lenN rb <? 4) then Ok (false, st, acc) else
          let* code := be_at s_ps_feed_slice s_ps_be32_index 4 rb 0 in
          let* (cs, evs) :=
            (if code =? 442 then let* c := parse_pack_header rb in Ok (c, st, [])                     (* 0x1ba *)
             else if (code =? 443) || (code =? 445) || (code =? 447) || (code =? 496) || (code =? 497) || (code =? 446) || (code =? 511)
                  then let* c := parse_pack_stream_body rb in Ok (c, st, [])
             else if code =? 444 then
               let* (c, x) := parse_psm rb (ps_ast st, ps_vst st, ps_apt st, ps_vpt st) in Ok (c, set_psm st x, [])
             else if (code =? 448) || (code =? 480) then parse_av_stream fx st code rtpts rb
             else if code =? 441 then Ok (0%Z, st, [])
             else Ok ((-2)%Z, st, [])) in
          let (consumed, st') := cs in
          if (consumed =? -2)%Z then Ok (true, clear_bufs st', acc ++ evs)
          else if (consumed <? 0)%Z then Ok (false, st', acc ++ evs)
          else feed_body_loop fx f (set_buf st' (buf_skip (ps_buf st') (4 + consumed))) rtpts (acc ++ evs)
      end
  end.

Definition feed_rtp_body (fx : bool) (st : ps_state) (body : bytes) (rtpts : N) : res (bool * ps_state * list ps_ev) :=
  let st := set_buf st (ps_buf st ++ body) in
  feed_body_loop fx (S (length (ps_buf st))) st rtpts [].

(* ---------------------------------------------------------------------- *)
Definition set_list (st : ps_state) (l : list upkt) (size : Z) (done : option N) : ps_state :=
  mk_ps l size done (ps_buf st) (ps_abuf st) (ps_vbuf st) (ps_ast st) (ps_vst st) (ps_apt st) (ps_vpt st)
        (ps_pre_apts st) (ps_pre_vpts st) (ps_pre_adts st) (ps_pre_vdts st) (ps_pre_artpts st) (ps_pre_vrtpts st) (ps_wait_sps st).

Definition ps_first_sequential (st : ps_state) : bool :=
  match ps_list st with
  | [] => false
  | f :: _ => match ps_done st with None => true | Some d => (sub_seq (up_seq f) d =? 1)%Z end
  end.

Definition is_start_position (p : upkt) : res bool :=
  let* (b, _) := up_body p in
  Ok ((4 <? lenN b) && match b with 0 :: 0 :: 1 :: _ => true | _ => false end).

(* the inner drop loop: for p.list.Size > 0 { curr := PeekFirst() ... } *)
Fixpoint ps_drop_loop (fuel : nat) (l : list upkt) (size : Z) (done : option N) (prev_seq : N) : res (list upkt * Z * option N) :=
  if (size <=? 0)%Z then Ok (l, size, done) else
  match fuel with
  | O => Err err_out_of_fuel
  | S f =>
      match l with
      | [] => Panic s_ps_peekfirst_nil
      | curr :: t =>
          if negb (sub_seq (up_seq curr) prev_seq =? 1)%Z then Ok (l, size, done) else
          let* sp := is_start_position curr in
          if sp then Ok (l, size, Some (u16 (up_seq curr + 65535)))
          else ps_drop_loop f t (size - 1) done (up_seq curr)
      end
  end.

(* the main loop of FeedRtpPacket *)
Fixpoint ps_feed_loop (fx : bool) (maxsize : Z) (fuel : nat) (st : ps_state) (acc : list ps_ev) : res (ps_state * list ps_ev) :=
  match fuel with
  | O => Err err_out_of_fuel
  | S f =>
      if ps_first_sequential st then
        match ps_list st with
        | [] => Panic s_ps_popfirst_nil
        | opkt :: t =>
            let st1 := set_list st t (ps_size st - 1) (Some (up_seq opkt)) in
            let* (body, _) := up_body opkt in
            let* (es, evs) := feed_rtp_body fx st1 body (up_ts opkt) in
            let (err, st2) := es in
            (* list.Reset(): fix: also clears Size *)
            let st3 := if err then set_list st2 [] (if fx then 0%Z else ps_size st2) None else st2 in
            ps_feed_loop fx maxsize f st3 (acc ++ evs)
        end
      else
        if negb (maxsize <=? ps_size st)%Z then Ok (st, acc) else
        match ps_list st with
        | [] => Panic s_ps_popfirst_nil
        | prev :: t =>
            let* (lsd) := ps_drop_loop (S (length t)) t (ps_size st - 1) (ps_done st) (up_seq prev) in
            let '(l, size, done) := lsd in
            ps_feed_loop fx maxsize f (clear_bufs (set_list st l size done)) acc
        end
  end.

Definition ps_feed_rtp_packet (fx : bool) (maxsize : Z) (st : ps_state) (b : bytes) : res (bool * ps_state * list ps_ev) :=
  match parse_rtp_header fx b with
  | Panic s => Panic s
  | Err _ => Ok (true, st, [])
  | Ok h =>
      if (match ps_done st with None => false | Some d => (compare_seq (rh_seq h) d <=? 0)%Z end) then Ok (true, st, []) else
      let (l, inserted) := ins (mk_upkt h b 0) (ps_list st) in
      let st := set_list st l (ps_size st + (if inserted then 1 else 0)) (ps_done st) in
      let* (st', evs) := ps_feed_loop fx maxsize (S (S (length l + length l))) st [] in
      Ok (false, st', evs)
  end.

Inductive ps_out := PsErr | PsOk | PsEv (e : ps_ev).

Fixpoint run_ps (fx : bool) (maxsize : Z) (st : ps_state) (pkts : list bytes) : res (list ps_out) :=
  match pkts with
  | [] => Ok []
  | b :: t =>
      let* (es, evs) := ps_feed_rtp_packet fx maxsize st b in
      let (err, st') := es in
      let* more := run_ps fx maxsize st' t in
      Ok ((if err then PsErr else PsOk) :: map PsEv evs ++ more)
  end.
