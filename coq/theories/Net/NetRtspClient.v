(* C13: model of the RTSP command layer of the client
   (pkg/rtsp/client_command_session.go: doContext - OPTIONS, DESCRIBE |
    ANNOUNCE, SETUP per track with the 461 fallback to the other transport,
    PLAY | RECORD -, writeCmd / writeCmdReadResp with the 401 retry,
    runReadLoop; pkg/rtsp/auth.go: FeedWwwAuthenticate, MakeAuthorization;
    used by rtsp.PullSession and rtsp.PushSession).

   Input: everything the upstream server sends on the command connection, as
   one byte stream followed by end of input.  Responses are read with the
   message reader of NetHttpMsg.v straight from the connection: there is no
   interleaved framing while a response is awaited (a '$' frame is read as the
   start of a message); after the handshake the read loop separates interleaved
   packets and messages.

   Output: the requests the client writes, whether Start returns an error, and
   how the session goes on after the handshake.  Not modelled: the digest /
   base64 arithmetic (the model prints the Authorization header with its
   ingredients, the harness checks the arithmetic against RFC 2617 / 7617), the
   local UDP ports, time (the 10 s GET_PARAMETER ticker never fires within a
   run; a session that waits for it is [Running]).

   [fx = false], the pinned tree: a server that does not announce GET_PARAMETER
   and sends, in interleaved mode, anything but a '$' frame after the handshake
   makes the read loop spin on the byte it keeps pushing back: the loop never
   ends (the model runs out of fuel). *)
From Lal Require Import Common.LBytes Common.Res Net.NetChk Net.NetStr Net.NetInterleaved Net.NetHttpMsg Net.NetSdpFull
  Net.NetRtspCmd Auth.AuthStr Auth.AuthRtsp.
Open Scope N_scope.

Record ccfg := mk_ccfg {
  cc_push : bool;                 (* PushSession (ANNOUNCE / RECORD) or PullSession (DESCRIBE / PLAY) *)
  cc_tcp : bool;                  (* option.OverTcp *)
  cc_user : bytes; cc_pass : bytes;   (* user info of the url *)
  cc_url : bytes;                 (* urlCtx.RawUrlWithoutUserInfo *)
  cc_sdp : bytes }.               (* push: the RawSdp of the stream that is pushed *)

(* a request as written: method, uri, headers (a Go map: no order), body *)
Record creq := mk_creq { rq_method : bytes; rq_uri : bytes; rq_hdrs : list (bytes * bytes); rq_body : bytes }.

Record cst := mk_cst {
  k_in : bytes;                   (* what the server has sent and the client has not read yet *)
  k_cseq : N;
  k_auth : auth;                  (* Typ / Realm / Nonce / Algorithm / Username / Password *)
  k_sid : bytes;                  (* sessionId *)
  k_getparam : bool;              (* methodGetParameterSupported *)
  k_tcp : bool;                   (* option.OverTcp, switched by the 461 fallback *)
  k_chan : N;                     (* next interleaved channel *)
  k_out : list creq;              (* requests written, latest first *)
  k_sdp : N }.                    (* OnDescribeResponse callbacks *)

Definition s_of (l : list N) : bytes := l.
Definition t_options : bytes := m_options.
Definition t_getparam : bytes := [71; 69; 84; 95; 80; 65; 82; 65; 77; 69; 84; 69; 82].
Definition h_accept : bytes := [65; 99; 99; 101; 112; 116].
Definition v_sdp : bytes := [97; 112; 112; 108; 105; 99; 97; 116; 105; 111; 110; 47; 115; 100; 112].
Definition h_cseq_w : bytes := h_cseq.   (* "CSeq", shown in the canonical form the request reader gives it *)
Definition h_ua : bytes := [85; 115; 101; 114; 45; 65; 103; 101; 110; 116].
Definition h_clen : bytes := content_length_key.
Definition h_auth : bytes := [65; 117; 116; 104; 111; 114; 105; 122; 97; 116; 105; 111; 110].
Definition h_session : bytes := [83; 101; 115; 115; 105; 111; 110].
Definition h_range : bytes := [82; 97; 110; 103; 101].
Definition v_range : bytes := [110; 112; 116; 61; 48; 46; 48; 48; 48; 45].                              (* "npt=0.000-" *)
Definition h_public : bytes := [80; 117; 98; 108; 105; 99].
Definition h_www : bytes := [87; 119; 119; 45; 65; 117; 116; 104; 101; 110; 116; 105; 99; 97; 116; 101]. (* canonical form *)
Definition h_www_w : bytes := [87; 87; 87; 45; 65; 117; 116; 104; 101; 110; 116; 105; 99; 97; 116; 101]. (* "WWW-Authenticate" *)
Definition k_server_port : bytes := [115; 101; 114; 118; 101; 114; 95; 112; 111; 114; 116].
Definition t_tcp : bytes := [82; 84; 80; 47; 65; 86; 80; 47; 84; 67; 80; 59; 117; 110; 105; 99; 97; 115; 116; 59; 105; 110; 116; 101; 114; 108; 101; 97; 118; 101; 100; 61].
Definition t_udp : bytes := [82; 84; 80; 47; 65; 86; 80; 47; 85; 68; 80; 59; 117; 110; 105; 99; 97; 115; 116; 59; 99; 108; 105; 101; 110; 116; 95; 112; 111; 114; 116; 61; 80].  (* ...client_port=P: ports masked *)
Definition t_record : bytes := [59; 109; 111; 100; 101; 61; 114; 101; 99; 111; 114; 100].
Definition c_401 : bytes := [52; 48; 49].
Definition c_461 : bytes := [52; 54; 49].
Definition v_md5 : bytes := [77; 68; 53].
Definition v_ua : bytes := [45].                                                                       (* value masked *)

(* Auth.MakeAuthorization with the arithmetic left symbolic: Basic user:pass (before base64), Digest with
   response="R" *)
Definition make_authz (a : auth) (uri : bytes) : bytes :=
  if is_empty (au_username a) then []
  else if beq (au_typ a) s_basic then s_basic_sp ++ au_username a ++ colon :: au_password a
  else if beq (au_typ a) s_digest then
    let q s := s ++ [dquote] in
    s_digest_sp ++ k_username ++ q (au_username a) ++ [44; 32] ++ k_realm ++ q (au_realm a) ++ [44; 32]
      ++ k_nonce ++ q (au_nonce a) ++ [44; 32] ++ k_uri ++ q uri ++ [44; 32]
      ++ k_response ++ q [82] ++ [44; 32] ++ k_algorithm ++ q (au_algorithm a)
  else [].

(* Auth.FeedWwwAuthenticate(headers.Values("WWW-Authenticate"), user, pass): only the first value counts *)
Definition feed_www (a : auth) (vals : list bytes) (user pass : bytes) : auth :=
  let a0 := mk_auth user pass (au_typ a) (au_realm a) (au_nonce a) (au_algorithm a) (au_uri a) (au_response a) (au_opaque a) (au_stale a) in
  match vals with
  | [] => a0
  | s0 :: _ =>
      let s := trim_space (trim_prefix h_www_w s0) in
      if has_prefix s_basic s then
        mk_auth user pass s_basic (au_realm a) (au_nonce a) (au_algorithm a) (au_uri a) (au_response a) (au_opaque a) (au_stale a)
      else if negb (has_prefix s_digest s) then a0
      else
        let alg := get_v s k_algorithm in
        mk_auth user pass s_digest (get_v s k_realm) (get_v s k_nonce) (if is_empty alg then v_md5 else alg)
                (au_uri a) (au_response a) (au_opaque a) (au_stale a)
  end.

(* writeCmd *)
Definition send (c : ccfg) (st : cst) (meth uri : bytes) (extra : list (bytes * bytes)) (body : bytes) : cst :=
  let cseq := k_cseq st + 1 in
  let az := make_authz (k_auth st) (cc_url c) in
  let hs := extra ++ [(h_cseq_w, dec cseq); (h_ua, v_ua)]
              ++ (match body with [] => [] | _ => [(h_clen, dec (lenN body))] end)
              ++ (match az with [] => [] | _ => [(h_auth, az)] end)
              ++ (match k_sid st with [] => [] | sid => [(h_session, sid)] end) in
  mk_cst (k_in st) cseq (k_auth st) (k_sid st) (k_getparam st) (k_tcp st) (k_chan st)
         (mk_creq meth uri hs body :: k_out st) (k_sdp st).

Definition set_in (st : cst) (s : bytes) : cst :=
  mk_cst s (k_cseq st) (k_auth st) (k_sid st) (k_getparam st) (k_tcp st) (k_chan st) (k_out st) (k_sdp st).
Definition set_auth (st : cst) (a : auth) : cst :=
  mk_cst (k_in st) (k_cseq st) a (k_sid st) (k_getparam st) (k_tcp st) (k_chan st) (k_out st) (k_sdp st).

(* writeCmdReadResp: at most two attempts, the second after a 401.  None = an error is returned *)
Fixpoint cmd_resp (fx : bool) (c : ccfg) (n : nat) (st : cst) (meth uri : bytes) (extra : list (bytes * bytes)) (body : bytes)
  : res (cst * option msg_out) :=
  match n with
  | O => Ok (st, None)
  | S n' =>
      let st1 := send c st meth uri extra body in
      match read_msg fx (k_in st1) with
      | Panic p => Panic p
      | Err _ => Ok (st1, None)
      | Ok m =>
          match mo_err m with
          | Some _ => Ok (st1, None)
          | None =>
              let st2 := set_in st1 (mo_rest m) in
              if bytes_eqb (mo_b m) c_401 then
                cmd_resp fx c n' (set_auth st2 (feed_www (k_auth st2) (hdr_values h_www (mo_hdrs m)) (cc_user c) (cc_pass c))) meth uri extra body
              else Ok (st2, Some m)
          end
      end
  end.

Definition first_of_semicolon (s : bytes) : bytes := match split_on 59 s with x :: _ => x | [] => [] end.
Definition set_sid (st : cst) (sid : bytes) : cst :=
  mk_cst (k_in st) (k_cseq st) (k_auth st) sid (k_getparam st) (k_tcp st) (k_chan st) (k_out st) (k_sdp st).
Definition set_tcp (st : cst) (b : bool) : cst :=
  mk_cst (k_in st) (k_cseq st) (k_auth st) (k_sid st) (k_getparam st) b (k_chan st) (k_out st) (k_sdp st).

(* one transport attempt for one track.  Result: state, 0 = set up, 1 = the server answered 461, 2 = error *)
Definition setup_tcp (fx : bool) (c : ccfg) (st : cst) (uri : bytes) : res (cst * N) :=
  let r := k_chan st in
  let st0 := mk_cst (k_in st) (k_cseq st) (k_auth st) (k_sid st) (k_getparam st) (k_tcp st) (r + 2) (k_out st) (k_sdp st) in
  let tv := t_tcp ++ dec r ++ [45] ++ dec (r + 1) ++ (if cc_push c then t_record else []) in
  let* (st1, m) := cmd_resp fx c 2 st0 m_setup uri [(h_transport, tv)] [] in
  match m with
  | None => Ok (st1, 2)
  | Some m => if bytes_eqb (mo_b m) c_461 then Ok (st1, 1)
              else Ok (set_sid st1 (first_of_semicolon (hdr_get h_session (mo_hdrs m))), 0)
  end.
Definition setup_udp (fx : bool) (c : ccfg) (st : cst) (uri : bytes) : res (cst * N) :=
  let tv := t_udp ++ (if cc_push c then t_record else []) in
  let* (st1, m) := cmd_resp fx c 2 st m_setup uri [(h_transport, tv)] [] in
  match m with
  | None => Ok (st1, 2)
  | Some m =>
      if bytes_eqb (mo_b m) c_461 then Ok (st1, 1) else
      let st2 := set_sid st1 (first_of_semicolon (hdr_get h_session (mo_hdrs m))) in
      match parse_transport k_server_port (hdr_get h_transport (mo_hdrs m)) with
      | Panic p => Panic p
      | Err _ => if cc_push c then Ok (st2, 2) else Ok (st2, 0)       (* a pull session does without the server ports *)
      | Ok _ => Ok (st2, 0)
      end
  end.
(* writeSetup's closure: the configured transport, on 461 the other one (and then that one stays) *)
Definition setup_track (fx : bool) (c : ccfg) (st : cst) (uri : bytes) : res (cst * bool) :=
  if k_tcp st then
    let* (st1, r) := setup_tcp fx c st uri in
    if r =? 0 then Ok (st1, true) else if r =? 2 then Ok (st1, false) else
    let* (st2, r2) := setup_udp fx c st1 uri in
    if r2 =? 0 then Ok (set_tcp st2 false, true) else Ok (st2, false)
  else
    let* (st1, r) := setup_udp fx c st uri in
    if r =? 0 then Ok (st1, true) else if r =? 2 then Ok (st1, false) else
    let* (st2, r2) := setup_tcp fx c st1 uri in
    if r2 =? 0 then Ok (set_tcp st2 true, true) else Ok (st2, false).

Definition k_rtsp_scheme : bytes := [114; 116; 115; 112; 58; 47; 47].
Definition make_setup_uri (url ctl : bytes) : bytes := if has_prefix k_rtsp_scheme ctl then ctl else url ++ [47] ++ ctl.

(* video first, then audio; a track without a=control is not set up *)
Definition setup_all (fx : bool) (c : ccfg) (st : cst) (actl vctl : bytes) : res (cst * bool) :=
  let* (st1, ok1) := (match vctl with [] => Ok (st, true) | _ => setup_track fx c st (make_setup_uri (cc_url c) vctl) end) in
  if negb ok1 then Ok (st1, false) else
  match actl with [] => Ok (st1, true) | _ => setup_track fx c st1 (make_setup_uri (cc_url c) actl) end.

Inductive coutcome :=
| CFailed        (* Start returns an error: the session is disposed *)
| CEnded         (* handshake done; the read loop has returned (end of input / error): the session is disposed *)
| CRunning       (* handshake done; the session waits (for the GET_PARAMETER ticker) *)
| CBadSdp.       (* push: the sdp to push does not parse (the harness cannot start such a session) *)

(* runReadLoop over the rest of the stream.  [msgs]: a byte that is not '$' starts a message, which is read and
   dropped (the GET_PARAMETER branch; fix: the other branch as well).  [msgs = false], the pinned loop of a session
   whose server does not announce GET_PARAMETER: the byte is pushed back and read again, for ever.
   Result: true = the loop ended on an io error of the connection (end of input), false = on a protocol error *)
Fixpoint clt_loop (fx : bool) (msgs : bool) (fuel : nat) (s : bytes) : res bool :=
  match fuel with
  | O => Err err_out_of_fuel
  | S f =>
      match read_interleaved s with
      | Panic p => Panic p
      | Err _ => Ok true
      | Ok (IlvPkt _ _ rest) => clt_loop fx msgs f rest
      | Ok (IlvText s') =>
          if msgs then
            match read_msg fx s' with
            | Panic p => Panic p
            | Err e => Ok (e =? e_eof)
            | Ok m => match mo_err m with Some _ => Ok true | None => clt_loop fx msgs f (mo_rest m) end
            end
          else clt_loop fx msgs f s'
      end
  end.

(* how the session goes on once the handshake is done.
   pinned: when the read loop returns for any reason other than an io error, the command session closes its
   connection with Close(): its WaitChan yields nil, which PullSession / PushSession take for "disposed by
   me": the media half is left alone, WaitChan of the session never fires, nobody learns that the session
   is dead ([CRunning] although the connection is closed).  fix: the other half is disposed in every case *)
Definition read_loop (fx : bool) (st : cst) : res coutcome :=
  let s := k_in st in
  let after (io : bool) := if fx || io then CEnded else CRunning in
  if k_tcp st then
    let* io := clt_loop fx (k_getparam st || fx) (S (length s)) s in Ok (after io)
  else if k_getparam st then Ok CRunning                   (* waits for the ticker *)
  else Ok (after (match s with [] => true | _ => false end)).   (* conn.Read(dummy): end of input, or one byte *)

Definition cst_init (c : ccfg) (s : bytes) : cst := mk_cst s 0 auth_zero [] false (cc_tcp c) 0 [] 0.

Definition client_run (fx : bool) (c : ccfg) (s : bytes) : res (cst * coutcome) :=
  let st := cst_init c s in
  (* push: InitWithSdp with the parsed sdp happens before Start *)
  match (if cc_push c then parse_sdp_controls (cc_sdp c) else Ok ([], [])) with
  | Panic p => Panic p
  | Err _ => Ok (st, CBadSdp)
  | Ok (pa, pv) =>
      let* (st1, m) := cmd_resp fx c 2 st t_options (cc_url c) [] [] in
      match m with
      | None => Ok (st1, CFailed)
      | Some m =>
          let st2 := mk_cst (k_in st1) (k_cseq st1) (k_auth st1) (k_sid st1) (contains t_getparam (hdr_get h_public (mo_hdrs m)))
                            (k_tcp st1) (k_chan st1) (k_out st1) (k_sdp st1) in
          let* (st3, ctl) :=
            (if cc_push c then
               let* (st3, m) := cmd_resp fx c 2 st2 m_announce (cc_url c) [(h_accept, v_sdp)] (cc_sdp c) in
               match m with None => Ok (st3, None) | Some _ => Ok (st3, Some (pa, pv)) end
             else
               let* (st3, m) := cmd_resp fx c 2 st2 m_describe (cc_url c) [(h_accept, v_sdp)] [] in
               match m with
               | None => Ok (st3, None)
               | Some m =>
                   match parse_sdp_controls (mo_body m) with
                   | Panic p => Panic p
                   | Err _ => Ok (st3, None)
                   | Ok av => Ok (mk_cst (k_in st3) (k_cseq st3) (k_auth st3) (k_sid st3) (k_getparam st3) (k_tcp st3) (k_chan st3)
                                         (k_out st3) (k_sdp st3 + 1), Some av)
                   end
               end) in
          match ctl with
          | None => Ok (st3, CFailed)
          | Some (a, v) =>
              let* (st4, ok) := setup_all fx c st3 a v in
              if negb ok then Ok (st4, CFailed) else
              let* (st5, m) := cmd_resp fx c 2 st4 (if cc_push c then m_record else m_play) (cc_url c) [(h_range, v_range)] [] in
              match m with
              | None => Ok (st5, CFailed)
              | Some _ => let* o := read_loop fx st5 in Ok (st5, o)
              end
          end
      end
  end.
