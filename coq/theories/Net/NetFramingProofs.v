(* C13: RTCP header / SR parsing, RTSP interleaved framing and WebSocket frame
   reading never panic and never run out of fuel. *)
From Coq Require Import Lia ZifyN ZifyNat ZifyBool.
From Lal Require Import Common.LBytes Common.LBytesProofs Common.Res Net.NetChk Net.NetChkProofs Net.NetRtcp Net.NetInterleaved Net.NetWsRead.
Open Scope N_scope.
Ltac Zify.zify_post_hook ::= Z.div_mod_to_equations.

Theorem parse_rtcp_header_no_panic b : no_panic (parse_rtcp_header true b).
Proof.
  unfold parse_rtcp_header. cbn [andb].
  destruct (lenN b <? 4) eqn:E; [reflexivity|]. apply N.ltb_ge in E.
  destruct (idx_ok s_rtcphdr_index b 0) as [b0 ->]; [lia|]. cbn [bind].
  destruct (idx_ok s_rtcphdr_index b 1) as [b1 ->]; [lia|]. cbn [bind].
  destruct (be_at_ok s_rtcphdr_slice s_be16_index 2 b 2) as [l ->]; [lia|]. reflexivity.
Qed.

Theorem parse_sr_no_panic b : no_panic (parse_sr true b).
Proof.
  unfold parse_sr. cbn [andb].
  destruct (lenN b <? 28) eqn:E; [reflexivity|]. apply N.ltb_ge in E.
  destruct (be_at_ok s_sr_slice s_be32_index 4 b 4) as [v1 ->]; [lia|]. cbn [bind].
  destruct (be_at_ok s_sr_slice s_be32_index 4 b 8) as [v2 ->]; [lia|]. cbn [bind].
  destruct (be_at_ok s_sr_slice s_be32_index 4 b 12) as [v3 ->]; [lia|]. cbn [bind].
  destruct (be_at_ok s_sr_slice s_be32_index 4 b 16) as [v4 ->]; [lia|]. cbn [bind].
  destruct (be_at_ok s_sr_slice s_be32_index 4 b 20) as [v5 ->]; [lia|]. cbn [bind].
  destruct (be_at_ok s_sr_slice s_be32_index 4 b 24) as [v6 ->]; [lia|]. reflexivity.
Qed.

Lemma parse_sr_ok b : 28 <= lenN b -> exists r, parse_sr true b = Ok r.
Proof.
  intros E. unfold parse_sr. cbn [andb].
  assert (lenN b <? 28 = false) as -> by (apply N.ltb_ge; lia).
  destruct (be_at_ok s_sr_slice s_be32_index 4 b 4) as [v1 ->]; [lia|]. cbn [bind].
  destruct (be_at_ok s_sr_slice s_be32_index 4 b 8) as [v2 ->]; [lia|]. cbn [bind].
  destruct (be_at_ok s_sr_slice s_be32_index 4 b 12) as [v3 ->]; [lia|]. cbn [bind].
  destruct (be_at_ok s_sr_slice s_be32_index 4 b 16) as [v4 ->]; [lia|]. cbn [bind].
  destruct (be_at_ok s_sr_slice s_be32_index 4 b 20) as [v5 ->]; [lia|]. cbn [bind].
  destruct (be_at_ok s_sr_slice s_be32_index 4 b 24) as [v6 ->]; [lia|]. cbn [bind]. eexists; reflexivity.
Qed.

Lemma rtcp_pinned_refuted :
  parse_rtcp_header false [128] = Panic s_rtcphdr_index /\
  parse_rtcp_header false [128; 200; 0] = Panic s_be16_index /\
  parse_sr false [128; 200] = Panic s_sr_slice /\
  parse_sr false [128; 200; 0; 6] = Panic s_be32_index.
Proof. repeat split; vm_compute; reflexivity. Qed.

(* ---------------------------------------------------------------------- *)
(* interleaved framing *)
Lemma be_get_2_bound lb : length lb = 2%nat -> bytes_ok lb -> be_get lb < 65536.
Proof.
  intros Hl Hok. pose proof (be_get_bound lb Hok) as H. unfold lenN in H. rewrite Hl in H. cbn in H. lia.
Qed.

Lemma split_exact_length n l a r : split_exact n l = Some (a, r) -> length a = n /\ l = a ++ r.
Proof.
  unfold split_exact. destruct (Nat.leb n (length l)) eqn:E; [|discriminate]. intros [= <- <-].
  apply Nat.leb_le in E. split; [rewrite firstn_length; lia|symmetry; apply firstn_skipn].
Qed.

Lemma split_exactN_length n l a r : split_exactN n l = Some (a, r) -> l = a ++ r /\ lenN a = n.
Proof.
  unfold split_exactN. destruct (n <=? lenN l) eqn:E; [|discriminate]. intros [= <- <-].
  apply N.leb_le in E. split; [symmetry; apply firstn_skipn|]. rewrite lenN_firstn. lia.
Qed.

Theorem read_interleaved_no_panic s : bytes_ok s -> no_panic (read_interleaved s).
Proof.
  intros Hok. unfold read_interleaved.
  destruct s as [|f t]; [reflexivity|]. destruct (negb (f =? 36)); [reflexivity|].
  destruct t as [|ch t2]; [reflexivity|].
  destruct (split_exact 2 t2) as [[lb t3]|] eqn:E2; [|reflexivity].
  apply split_exact_length in E2 as [Hl Heq].
  assert (Hlb : bytes_ok lb).
  { subst t2. change (f :: ch :: lb ++ t3) with ([f; ch] ++ lb ++ t3) in Hok.
    unfold bytes_ok in *. rewrite !Forall_app in Hok. tauto. }
  rewrite make_chk_ok by (pose proof (be_get_2_bound lb Hl Hlb); unfold max_alloc; lia).
  cbn [bind]. destruct (split_exactN (be_get lb) t3) as [[p rest]|]; reflexivity.
Qed.

(* the rest after a packet is strictly shorter: the read loop terminates *)
Lemma read_interleaved_shrinks s ch p rest : read_interleaved s = Ok (IlvPkt ch p rest) -> (length rest < length s)%nat.
Proof.
  unfold read_interleaved. destruct s as [|f t]; [discriminate|]. destruct (negb (f =? 36)); [discriminate|].
  destruct t as [|c t2]; [discriminate|].
  destruct (split_exact 2 t2) as [[lb t3]|] eqn:E2; [|discriminate].
  destruct (make_chk s_ilv_makeslice (be_get lb)); cbn [bind]; try discriminate.
  destruct (split_exactN (be_get lb) t3) as [[p' rest']|] eqn:E3; [|discriminate].
  intros [= _ _ <-]. apply split_exact_length in E2 as [_ ->]. apply split_exactN_length in E3 as [-> _].
  cbn [length]. rewrite !app_length. lia.
Qed.

Lemma bytes_ok_suffix a r : bytes_ok (a ++ r) -> bytes_ok r.
Proof. intros H; apply bytes_ok_app_inv in H; tauto. Qed.

Lemma read_interleaved_rest_ok s ch p rest : bytes_ok s -> read_interleaved s = Ok (IlvPkt ch p rest) -> bytes_ok rest.
Proof.
  intros Hok. unfold read_interleaved. destruct s as [|f t]; [discriminate|]. destruct (negb (f =? 36)); [discriminate|].
  destruct t as [|c t2]; [discriminate|].
  destruct (split_exact 2 t2) as [[lb t3]|] eqn:E2; [|discriminate].
  destruct (make_chk s_ilv_makeslice (be_get lb)); cbn [bind]; try discriminate.
  destruct (split_exactN (be_get lb) t3) as [[p' rest']|] eqn:E3; [|discriminate].
  intros [= _ _ <-]. apply split_exact_length in E2 as [_ ->]. apply split_exactN_length in E3 as [-> _].
  change (f :: c :: lb ++ p' ++ rest') with ([f; c] ++ lb ++ p' ++ rest') in Hok.
  now apply bytes_ok_suffix, bytes_ok_suffix, bytes_ok_suffix in Hok.
Qed.

Theorem read_interleaved_all_total fuel : forall s acc, bytes_ok s -> (length s < fuel)%nat ->
  exists r, read_interleaved_all fuel s acc = Ok r.
Proof.
  induction fuel as [|f IH]; intros s acc Hok Hf; [lia|]. cbn [read_interleaved_all].
  pose proof (read_interleaved_no_panic s Hok) as Hnp.
  destruct (read_interleaved s) as [[rest|ch p rest]|e|st] eqn:E; eauto.
  - apply IH; [eapply read_interleaved_rest_ok; eauto|]. apply read_interleaved_shrinks in E. lia.
  - discriminate.
Qed.

(* ---------------------------------------------------------------------- *)
(* WebSocket frames *)
Lemma rd_no_panic n s : no_panic (rd n s).
Proof. unfold rd; destruct (split_exact n s); reflexivity. Qed.

Theorem read_ws_payload_no_panic s : no_panic (read_ws_payload true s).
Proof.
  unfold read_ws_payload.
  destruct (rd 2 s) as [[h t]| |] eqn:E0; [|reflexivity|unfold rd in E0; destruct (split_exact 2 s); discriminate].
  cbn [bind]. destruct h as [|b0 [|b1 [|? ?]]]; try reflexivity.
  set (lenblk := if b1 mod 128 <? 126 then _ else _).
  assert (Hl : no_panic lenblk).
  { subst lenblk. destruct (b1 mod 128 <? 126); [reflexivity|].
    destruct (b1 mod 128 =? 126).
    - unfold rd. destruct (split_exact 2 t) as [[? ?]|]; reflexivity.
    - unfold rd. destruct (split_exact 8 t) as [[? ?]|]; reflexivity. }
  destruct lenblk as [[plen t1]| |]; [|reflexivity|discriminate]. cbn [bind].
  set (keyblk := if 128 <=? b1 then _ else _).
  assert (Hk : no_panic keyblk).
  { subst keyblk. destruct (128 <=? b1); [|reflexivity]. apply rd_no_panic. }
  destruct keyblk as [[key t2]| |]; [|reflexivity|discriminate]. cbn [bind andb].
  destruct (ws_max_payload <? plen) eqn:Ec; [reflexivity|]. apply N.ltb_ge in Ec.
  rewrite make_chk_ok by (unfold ws_max_payload, max_alloc in *; lia). cbn [bind].
  destruct (split_exactN plen t2) as [[p rest]|]; reflexivity.
Qed.

Lemma rd_shrinks n s a r : rd n s = Ok (a, r) -> length s = (n + length r)%nat.
Proof.
  unfold rd. destruct (split_exact n s) as [[a' r']|] eqn:E; [|discriminate]. intros [= <- <-].
  apply split_exact_length in E as [Hl ->]. rewrite app_length. lia.
Qed.

Lemma read_ws_payload_shrinks fx s p rest : read_ws_payload fx s = Ok (p, rest) -> (length rest < length s)%nat.
Proof.
  unfold read_ws_payload.
  destruct (rd 2 s) as [[h t]| |] eqn:E0; cbn [bind]; try discriminate.
  apply rd_shrinks in E0.
  destruct h as [|b0 [|b1 [|? ?]]]; try discriminate.
  set (lenblk := if b1 mod 128 <? 126 then _ else _).
  assert (Hl : forall plen t1, lenblk = Ok (plen, t1) -> (length t1 <= length t)%nat).
  { subst lenblk. intros plen t1. destruct (b1 mod 128 <? 126); [intros [= _ <-]; lia|].
    destruct (b1 mod 128 =? 126).
    - destruct (rd 2 t) as [[? ?]| |] eqn:E; cbn [bind]; try discriminate. intros [= _ <-]. apply rd_shrinks in E. lia.
    - destruct (rd 8 t) as [[? ?]| |] eqn:E; cbn [bind]; try discriminate. intros [= _ <-]. apply rd_shrinks in E. lia. }
  destruct lenblk as [[plen t1]| |]; cbn [bind]; try discriminate. specialize (Hl _ _ eq_refl).
  set (keyblk := if 128 <=? b1 then _ else _).
  assert (Hk : forall key t2, keyblk = Ok (key, t2) -> (length t2 <= length t1)%nat).
  { subst keyblk. intros key t2. destruct (128 <=? b1); [|intros [= _ <-]; lia].
    intros E. apply rd_shrinks in E. lia. }
  destruct keyblk as [[key t2]| |]; cbn [bind]; try discriminate. specialize (Hk _ _ eq_refl).
  destruct (fx && (ws_max_payload <? plen)); [discriminate|].
  destruct (make_chk s_ws_makeslice plen); cbn [bind]; try discriminate.
  destruct (split_exactN plen t2) as [[p' rest']|] eqn:E3; [|discriminate].
  intros [= _ <-]. apply split_exactN_length in E3 as [-> _]. rewrite app_length in Hk. lia.
Qed.

Theorem read_ws_all_total fuel : forall s acc, (length s < fuel)%nat -> exists r, read_ws_all true fuel s acc = Ok r.
Proof.
  induction fuel as [|f IH]; intros s acc Hf; [lia|]. cbn [read_ws_all].
  pose proof (read_ws_payload_no_panic s) as Hnp.
  destruct (read_ws_payload true s) as [[p rest]|e|st] eqn:E; eauto.
  - apply IH. apply read_ws_payload_shrinks in E. lia.
  - discriminate.
Qed.

(* pinned tree: 64-bit length straight into make *)
Lemma read_ws_payload_pinned_refuted :
  exists s, read_ws_payload false s = Panic s_ws_makeslice.
Proof. exists [130; 127; 128; 0; 0; 0; 0; 0; 0; 0]. vm_compute. reflexivity. Qed.
