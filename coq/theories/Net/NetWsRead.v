(* C13: model of base.ReadWsPayload (pkg/base/websocket.go) on a finite input. *)
From Lal Require Import Common.LBytes Common.Res Net.NetChk.
Open Scope N_scope.

(* fix: frames announcing more than this many payload bytes are refused *)
Definition ws_max_payload : N := 1048576.

(* cipher(payload, mask, 0): payload[i] ^= mask[i%4]; the key is rotated instead of indexed *)
Fixpoint ws_unmask4 (k0 k1 k2 k3 : N) (p : bytes) : bytes :=
  match p with
  | [] => []
  | b :: t => N.lxor b k0 :: ws_unmask4 k1 k2 k3 k0 t
  end.
Definition ws_unmask (key : bytes) (p : bytes) : bytes :=
  match key with
  | [k0; k1; k2; k3] => ws_unmask4 k0 k1 k2 k3 p
  | _ => p
  end.

Definition rd (n : nat) (s : bytes) : res (bytes * bytes) :=
  match split_exact n s with Some r => Ok r | None => Err e_eof end.

Definition read_ws_payload (fx : bool) (s : bytes) : res (bytes * bytes) :=
  let* (h, t) := rd 2 s in
  match h with
  | [b0; b1] =>
      let masked := 128 <=? b1 in
      let l7 := b1 mod 128 in
      let* (plen, t) :=
        (if l7 <? 126 then Ok (l7, t)
         else if l7 =? 126 then let* (lb, t') := rd 2 t in Ok (be_get lb, t')
         else let* (lb, t') := rd 8 t in Ok (be_get lb, t')) in
      let* (key, t) := (if masked then rd 4 t else Ok ([], t)) in
      if fx && (ws_max_payload <? plen) then Err e_proto else
      let* _ := make_chk s_ws_makeslice plen in
      match split_exactN plen t with
      | None => Err e_eof
      | Some (p, rest) => Ok (if masked then ws_unmask key p else p, rest)
      end
  | _ => Err e_eof
  end.

Fixpoint read_ws_all (fx : bool) (fuel : nat) (s : bytes) (acc : list bytes) : res (list bytes) :=
  match fuel with
  | O => Err err_out_of_fuel
  | S f =>
      match read_ws_payload fx s with
      | Ok (p, rest) => read_ws_all fx f rest (p :: acc)
      | Err _ => Ok (rev acc)
      | Panic st => Panic st
      end
  end.
