(* C13: model of sdp.ParseM / ParseARtpMap / ParseAFmtPBase (pkg/sdp/parse_raw.go):
   every items[i] after a Split is a checked access. *)
From Lal Require Import Common.LBytes Common.Res Net.NetChk Net.NetStr.
Open Scope N_scope.

Definition ch_colon : N := 58.
Definition ch_space : N := 32.
Definition ch_slash : N := 47.
Definition ch_semi : N := 59.
Definition ch_eq : N := 61.

Record rtpmap := mk_rtpmap { rm_pt : Z; rm_name : bytes; rm_clock : Z; rm_params : bytes }.

Definition parse_a_rtpmap (s : bytes) : res rtpmap :=
  let items := splitn ch_colon 2 s in
  if negb (Nat.eqb (length items) 2) then Err e_proto else
  let* i1 := item items 1 in
  let items := splitn ch_space 2 i1 in
  if negb (Nat.eqb (length items) 2) then Err e_proto else
  let* i0 := item items 0 in
  match atoi i0 with
  | None => Err e_proto
  | Some pt =>
      let* i1 := item items 1 in
      let items := splitn ch_slash 3 i1 in
      if Nat.eqb (length items) 3 || Nat.eqb (length items) 2 then
        let* params := (if Nat.eqb (length items) 3 then item items 2 else Ok []) in
        let* name := item items 0 in
        let* clk := item items 1 in
        match atoi clk with
        | None => Err e_proto
        | Some c => Ok (mk_rtpmap pt name c params)
        end
      else Err e_proto
  end.

(* map insertion: a later key replaces an earlier one *)
Fixpoint kv_set (k v : bytes) (m : list (bytes * bytes)) : list (bytes * bytes) :=
  match m with
  | [] => [(k, v)]
  | (k', v') :: t => if bytes_eqb k k' then (k, v) :: t else (k', v') :: kv_set k v t
  end.

Fixpoint fmtp_params (pps : list bytes) (m : list (bytes * bytes)) : res (list (bytes * bytes)) :=
  match pps with
  | [] => Ok m
  | pp :: t =>
      let kv := splitn ch_eq 2 (trim_space pp) in
      if negb (Nat.eqb (length kv) 2) then Err e_proto else
      let* k := item kv 0 in
      let* v := item kv 1 in
      fmtp_params t (kv_set k v m)
  end.

Definition parse_a_fmtp (s : bytes) : res (Z * list (bytes * bytes)) :=
  let items := splitn ch_colon 2 s in
  if negb (Nat.eqb (length items) 2) then Err e_proto else
  let* i1 := item items 1 in
  let items := splitn ch_space 2 i1 in
  if negb (Nat.eqb (length items) 2) then Err e_proto else
  let* i0 := item items 0 in
  match atoi i0 with
  | None => Err e_proto
  | Some fmt =>
      let* i1 := item items 1 in
      let body := trim_right ch_semi (trim_left ch_semi i1) in
      let* m := fmtp_params (split_on ch_semi body) [] in
      Ok (fmt, m)
  end.

(* ParseM: "m=" prefix removed, split on ' ', items[0] and (when there are more than 3) Atoi(items[3]) with the error ignored *)
Definition parse_m (s : bytes) : res (bytes * Z) :=
  let ss := if has_prefix [109; 61] s then skipn 2 s else s in
  let items := split_on ch_space ss in
  if Nat.ltb (length items) 1 then Err e_proto else
  let* media := item items 0 in
  if Nat.ltb 3 (length items) then
    let* i3 := item items 3 in
    Ok (media, match atoi i3 with Some v => v | None => 0%Z end)
  else Ok (media, 0%Z).
