(* C13: model of the RTSP message reader (pkg/rtsp/read_message.go:
   readHttpMessage / readBody; naza nazahttp.ReadHttpHeader,
   ParseHttpRequestLine; net/textproto key canonicalisation; bufio ReadLine as
   an ideal line reader) on a finite input stream; end of input = io error.

   [fx = true]: the working tree - lal reads the message itself, a negative
   Content-Length is an error, the body buffer grows with the bytes that arrive.
   [fx = false]: the pinned tree - nazahttp.ReadHttpMessage does
   make([]byte, Atoi(Content-Length)) before reading. *)
From Lal Require Import Common.LBytes Common.Res Net.NetChk Net.NetStr Net.NetInterleaved Net.NetWsRead.
Open Scope N_scope.

Definition s_httpmsg_makeslice : N := 25.   (* nazahttp.ReadHttpMessage:makeslice *)
Definition s_hdr_values_index : N := 26.    (* nazahttp.ReadHttpHeader:index  (never) *)

(* ---- bufio.Reader.ReadLine, pieces joined while isPrefix --------------- *)
(* bytes before the first '\n' and what follows it (None: no '\n' left) *)
Fixpoint take_line (s : bytes) : bytes * option bytes :=
  match s with
  | [] => ([], None)
  | c :: t => if c =? 10 then ([], Some t) else let (l, r) := take_line t in (c :: l, r)
  end.
(* one '\r' before the '\n' goes with it (linear: the stdlib [rev] is quadratic once extracted) *)
Fixpoint drop_cr (l : bytes) : bytes :=
  match l with
  | [] => []
  | c :: t => match t with [] => if c =? 13 then [] else [c] | _ => c :: drop_cr t end
  end.
(* None = io.EOF (nothing left); the last line may lack its '\n' *)
Definition read_line (s : bytes) : option (bytes * bytes) :=
  match s with
  | [] => None
  | _ => match take_line s with
         | (l, Some rest) => Some (drop_cr l, rest)
         | (l, None) => Some (l, [])
         end
  end.

(* ---- http.Header with textproto.CanonicalMIMEHeaderKey ------------------ *)
Definition in_range (lo hi c : N) : bool := (lo <=? c) && (c <=? hi).
Definition valid_field_byte (c : N) : bool :=
  in_range 48 57 c || in_range 97 122 c || in_range 65 90 c ||
  existsb (N.eqb c) [33; 35; 36; 37; 38; 39; 42; 43; 45; 46; 94; 95; 96; 124; 126].
Fixpoint canon_case (upper : bool) (s : bytes) : bytes :=
  match s with
  | [] => []
  | c :: t =>
      let c' := if upper && in_range 97 122 c then c - 32
                else if negb upper && in_range 65 90 c then c + 32 else c in
      c' :: canon_case (c' =? 45) t
  end.
(* a key with a byte that is not a token character (a space included) is left as it is *)
Definition canon_key (s : bytes) : bytes := if forallb valid_field_byte s then canon_case true s else s.

Definition hdrs := list (bytes * list bytes).          (* canonical key -> values, insertion order *)
Fixpoint hdr_add (k v : bytes) (hs : hdrs) : hdrs :=
  match hs with
  | [] => [(k, [v])]
  | (k', vs) :: t => if bytes_eqb k k' then (k', vs ++ [v]) :: t else (k', vs) :: hdr_add k v t
  end.
Fixpoint hdr_values (k : bytes) (hs : hdrs) : list bytes :=
  match hs with
  | [] => []
  | (k', vs) :: t => if bytes_eqb k k' then vs else hdr_values k t
  end.
(* Header.Get: the first value, "" when absent *)
Definition hdr_get (k : bytes) (hs : hdrs) : bytes := match hdr_values k hs with v :: _ => v | [] => [] end.
(* vs := headers.Values(k); vs[len(vs)-1] += l *)
Fixpoint hdr_append_last (k l : bytes) (hs : hdrs) : res hdrs :=
  match hs with
  | [] => Panic s_hdr_values_index
  | (k', vs) :: t =>
      if bytes_eqb k k' then
        match rev vs with
        | [] => Panic s_hdr_values_index
        | last :: r => Ok ((k', rev r ++ [last ++ l]) :: t)
        end
      else let* t' := hdr_append_last k l t in Ok ((k', vs) :: t')
  end.

Fixpoint index_byte (c : N) (s : bytes) : option nat :=
  match s with
  | [] => None
  | x :: t => if x =? c then Some O else match index_byte c t with Some i => Some (S i) | None => None end
  end.
Fixpoint trim_right_sp (l : bytes) : bytes :=
  match l with
  | [] => []
  | c :: t => match trim_right_sp t with [] => if c =? 32 then [] else [c] | t' => c :: t' end
  end.
Definition trim_sp (s : bytes) : bytes := trim_right_sp (trim_left 32 s).   (* strings.Trim(s, " ") *)

(* nazahttp.ReadHttpHeader after the first line: header lines up to the empty
   line; a line without ':' is glued to the last value of the previous key *)
Fixpoint read_hdr_lines (fuel : nat) (s : bytes) (last_key : bytes) (hs : hdrs) : res (hdrs * bytes) :=
  match fuel with
  | O => Err err_out_of_fuel
  | S f =>
      match read_line s with
      | None => Err e_eof
      | Some ([], rest) => Ok (hs, rest)
      | Some (l, rest) =>
          match index_byte 58 l with
          | None =>
              match last_key with
              | [] => read_hdr_lines f rest last_key hs
              | _ => let* hs' := hdr_append_last (canon_key last_key) l hs in read_hdr_lines f rest last_key hs'
              end
          | Some pos =>
              let k := trim_sp (firstn pos l) in
              read_hdr_lines f rest k (hdr_add (canon_key k) (trim_sp (skipn (S pos) l)) hs)
          end
      end
  end.

(* nazahttp.ParseHttpRequestLine *)
Definition parse_first_line (l : bytes) : res (bytes * bytes * bytes) :=
  match index_byte 32 l with
  | None => Err e_proto
  | Some f =>
      let t := skipn (S f) l in
      match index_byte 32 t with
      | None => Ok (firstn f l, t, [])
      | Some s => Ok (firstn f l, firstn s t, skipn (S s) t)
      end
  end.

(* ---- the body ------------------------------------------------------------ *)
Definition body_step : N := 4096.                      (* rtsp.readBodyStep *)

(* rtsp.readBody: at most body_step bytes per read; the buffer doubles (never past n) when it is full.
   Result: bytes read, capacity of the buffer, error of the read, rest of the stream *)
Fixpoint read_body_loop (fuel : nat) (n : N) (body : bytes) (cap : N) (avail : bytes) : res (bytes * N * option N * bytes) :=
  match fuel with
  | O => Err err_out_of_fuel
  | S f =>
      let len := lenN body in
      if n <=? len then Ok (body, cap, None, avail) else
      let want := N.min (n - len) body_step in
      let cap' := if cap - len <? want then (if cap <? n / 2 then N.max (2 * cap) (len + want) else n) else cap in
      let chunk := firstn (N.to_nat want) avail in
      let body' := body ++ chunk in
      if lenN chunk <? want then Ok (body', cap', Some (if lenN body' =? 0 then e_eof else e_short), [])
      else read_body_loop f n body' cap' (skipn (N.to_nat want) avail)
  end.
Definition read_body (n : N) (avail : bytes) : res (bytes * N * option N * bytes) :=
  read_body_loop (S (length avail)) n [] (N.min n body_step) avail.

(* pinned: make([]byte, cl) then io.ReadFull *)
Definition read_body_pinned (cl : Z) (avail : bytes) : res (bytes * N * option N * bytes) :=
  if (cl <? 0)%Z then Panic s_httpmsg_makeslice else
  let n := Z.to_N cl in
  let* _ := make_chk s_httpmsg_makeslice n in
  match split_exactN n avail with
  | Some (b, rest) => Ok (b, n, None, rest)
  | None => Ok (avail, n, Some (if lenN avail =? 0 then e_eof else e_short), [])
  end.

Record msg_out := mk_out {
  mo_a : bytes; mo_b : bytes; mo_c : bytes;     (* method uri version / version code reason *)
  mo_hdrs : hdrs; mo_body : bytes;
  mo_cap : N;                                   (* capacity reserved for the body *)
  mo_err : option N;                            (* error while reading the body *)
  mo_rest : bytes }.

Definition content_length_key : bytes := [67; 111; 110; 116; 101; 110; 116; 45; 76; 101; 110; 103; 116; 104].

(* Err: no message (malformed / incomplete header, bad Content-Length); Ok with [mo_err]: the body is short *)
Definition read_msg (fx : bool) (s : bytes) : res msg_out :=
  match read_line s with
  | None => Err e_eof
  | Some ([], _) => Err e_proto
  | Some (fl, rest) =>
      let* (hs, rest) := read_hdr_lines (S (length rest)) rest [] [] in
      let* (a, b, c) := parse_first_line fl in
      match hdr_get content_length_key hs with
      | [] => Ok (mk_out a b c hs [] 0 None rest)
      | v =>
          match atoi v with
          | None => Err e_proto
          | Some cl =>
              (* fix: a negative length is refused *)
              if fx && (cl <? 0)%Z then Err e_proto else
              let* (body, cap, err, rest') := (if fx then read_body (Z.to_N cl) rest else read_body_pinned cl rest) in
              Ok (mk_out a b c hs body cap err rest')
          end
      end
  end.

(* ---- the loops around it -------------------------------------------------- *)
Inductive rtsp_item := ItPkt (ch : N) (p : bytes) | ItMsg (m : msg_out).

(* ServerCommandSession.runCmdLoop (plain) / ClientCommandSession.runReadLoop: interleaved packet or message,
   until an error.  Result: items read, true when it stopped at end of input between items *)
Fixpoint rtsp_loop (fx : bool) (fuel : nat) (s : bytes) (acc : list rtsp_item) : res (list rtsp_item) :=
  match fuel with
  | O => Err err_out_of_fuel
  | S f =>
      match read_interleaved s with
      | Panic st => Panic st
      | Err _ => Ok (rev acc)
      | Ok (IlvPkt ch p rest) => rtsp_loop fx f rest (ItPkt ch p :: acc)
      | Ok (IlvText s') =>
          match read_msg fx s' with
          | Panic st => Panic st
          | Err _ => Ok (rev acc)
          | Ok m => match mo_err m with
                    | Some _ => Ok (rev acc)
                    | None => rtsp_loop fx f (mo_rest m) (ItMsg m :: acc)
                    end
          end
      end
  end.

(* ServerCommandSession.runCmdLoop (WebSocket): one message per frame payload, the rest of the payload is dropped *)
Fixpoint rtsp_ws_loop (fx : bool) (fuel : nat) (s : bytes) (acc : list rtsp_item) : res (list rtsp_item) :=
  match fuel with
  | O => Err err_out_of_fuel
  | S f =>
      match read_ws_payload true s with
      | Panic st => Panic st
      | Err _ => Ok (rev acc)
      | Ok (p, rest) =>
          match read_msg fx p with
          | Panic st => Panic st
          | Err _ => Ok (rev acc)
          | Ok m => match mo_err m with
                    | Some _ => Ok (rev acc)
                    | None => rtsp_ws_loop fx f rest (ItMsg m :: acc)
                    end
          end
      end
  end.
