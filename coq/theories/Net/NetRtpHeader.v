(* C13: model of rtprtcp.ParseRtpHeader / ParseRtpPacket / RtpPacket.Body,
   IsAvcBoundary / IsHevcBoundary (pkg/rtprtcp/rtp_packet.go).
   [fx = true]  : the tree after the C13 fix commits (length guards);
   [fx = false] : the pinned tree (kept for the _refuted witnesses). *)
From Lal Require Import Common.LBytes Common.Res Net.NetChk.
Open Scope N_scope.

Record rtp_header := mk_rtp_header {
  rh_version : N; rh_padding : N; rh_extension : N; rh_cc : N; rh_mark : N; rh_pt : N;
  rh_seq : N; rh_ts : N; rh_ssrc : N; rh_csrc : list N;
  rh_ext_profile : N; rh_extensions : bytes;
  rh_payload_offset : N;    (* payloadOffset *)
  rh_padding_len : N }.     (* paddingLength *)

Definition bidx := idx s_rtphdr_index.
Definition bbe := be_at s_rtphdr_slice s_rtphdr_index.

(* for i := 0; i < CsrcCount; i++ { if offset+4 > len(b) return short; csrc[i] = be32(b[offset:]); offset += 4 } *)
Fixpoint parse_csrc (n : nat) (b : bytes) (off : N) (acc : list N) : res (list N * N) :=
  match n with
  | O => Ok (rev acc, off)
  | S k =>
      if lenN b <? off + 4 then Err e_short
      else let* v := bbe 4 b off in parse_csrc k b (off + 4) (v :: acc)
  end.

Definition parse_rtp_header (fx : bool) (b : bytes) : res rtp_header :=
  let len := lenN b in
  if len <? 12 then Err e_short else
  let* b0 := bidx b 0 in
  let* b1 := bidx b 1 in
  let* seq := bbe 2 b 2 in
  let* ts := bbe 4 b 4 in
  let* ssrc := bbe 4 b 8 in
  let cc := b0 mod 16 in
  let ext := (b0 / 16) mod 2 in
  let padding := (b0 / 32) mod 2 in
  let* (csrc, off) := parse_csrc (N.to_nat cc) b 12 [] in
  let* (prof, exts, off) :=
    (if ext =? 0 then Ok (0, [], off)
     else if len <? off + 4 then Err e_short
     else
       let* prof := bbe 2 b off in
       let* el := bbe 2 b (off + 2) in
       let off := off + 4 in
       (* pinned: int(4*extensionLength) in uint16 arithmetic; fix: 4*int(extensionLength) *)
       let n := if fx then 4 * el else (4 * el) mod 65536 in
       if len <? off + n then Err e_short
       else let* e := slice s_rtphdr_slice b off (off + n) in Ok (prof, e, off + n)) in
  if len <=? off then Err e_short else
  let* padlen := (if padding =? 1 then bidx b (len - 1) else Ok 0) in
  (* fix: a padding count that leaves no payload is a short buffer *)
  if fx && (padding =? 1) && (len <=? off + padlen) then Err e_short else
  Ok {| rh_version := b0 / 64; rh_padding := padding; rh_extension := ext; rh_cc := cc;
        rh_mark := b1 / 128; rh_pt := b1 mod 128; rh_seq := seq; rh_ts := ts; rh_ssrc := ssrc;
        rh_csrc := csrc; rh_ext_profile := prof; rh_extensions := exts;
        rh_payload_offset := off; rh_padding_len := padlen |}.

(* RtpPacket.Body(): returns the body and the bytes between len and cap of
   the returned slice (the padding), which Go slice expressions may still reach *)
Definition rtp_body (raw : bytes) (h : rtp_header) : res (bytes * bytes) :=
  let off := if rh_payload_offset h =? 0 then 12 else rh_payload_offset h in
  let len := lenN raw in
  if rh_padding h =? 1 then
    (* Raw[off : len-paddingLength] *)
    if off + rh_padding_len h <=? len then
      Ok (firstn (N.to_nat (len - rh_padding_len h - off)) (skipn (N.to_nat off) raw),
          skipn (N.to_nat (len - rh_padding_len h)) raw)
    else Panic s_body_slice
  else
    if off <=? len then Ok (skipn (N.to_nat off) raw, []) else Panic s_body_slice.

(* ParseRtpPacket + Body, the observable of op c13.rtp *)
Definition parse_rtp_packet_body (fx : bool) (b : bytes) : res (rtp_header * bytes) :=
  let* h := parse_rtp_header fx b in
  let* (body, _) := rtp_body b h in
  Ok (h, body).

(* ---------------------------------------------------------------------- *)
Definition avc_boundary_type (t : N) : bool := (t =? 5) || (t =? 7) || (t =? 8).
Definition hevc_boundary_type (t : N) : bool :=
  ((16 <=? t) && (t <=? 23)) || ((32 <=? t) && (t <=? 34)).

Definition is_avc_boundary (fx : bool) (b : bytes) : res bool :=
  if fx && (lenN b <? 1) then Ok false else
  let* b0 := idx s_avcbound_index b 0 in
  let outer := b0 mod 32 in
  if avc_boundary_type outer then Ok true else
  let* r1 :=
    (if outer =? 24 then
       if fx && (lenN b <? 4) then Ok false else
       let* b3 := idx s_avcbound_index b 3 in Ok (avc_boundary_type (b3 mod 32))
     else Ok false) in
  if r1 then Ok true else
  if outer =? 28 then
    if fx && (lenN b <? 2) then Ok false else
    let* b1 := idx s_avcbound_index b 1 in
    Ok (avc_boundary_type (b1 mod 32) && (128 <=? b1))
  else Ok false.

Definition is_hevc_boundary (fx : bool) (b : bytes) : res bool :=
  if fx && (lenN b <? 1) then Ok false else
  let* b0 := idx s_hevcbound_index b 0 in
  let outer := (b0 mod 128) / 2 in
  if hevc_boundary_type outer then Ok true else
  if outer =? 49 then
    if fx && (lenN b <? 3) then Ok false else
    let* b2 := idx s_hevcbound_index b 2 in
    Ok (hevc_boundary_type (b2 mod 64) && (128 <=? b2))
  else Ok false.

Definition rtp_boundary (fx : bool) (hevc : bool) (raw : bytes) : res bool :=
  let* h := parse_rtp_header fx raw in
  let* (body, _) := rtp_body raw h in
  if hevc then is_hevc_boundary fx body else is_avc_boundary fx body.
