(* C13: model of rtmp.ClientSession.doMsg on one complete message from the
   upstream server (pkg/rtmp/client_session.go: doMsg, doProtocolControlMessage,
   doAck, doUserControl); AMF0 command / data messages (type 20 / 18) belong to
   the AMF0 model (C18) and are not interpreted here. *)
From Lal Require Import Common.LBytes Common.Res Net.NetChk.
Open Scope N_scope.

Definition s_rtmpc_explicit : N := 60.    (* rtmp.ClientSession.doMsg:explicit  -- panic(0) *)
Definition s_rtmpc_be32 : N := 61.        (* bele.BeUint32:index *)
Definition s_rtmpc_be16 : N := 62.        (* bele.BeUint16:index *)
Definition s_rtmpc_slice : N := 63.       (* (never) *)

(* MessagePacker.writePingResponse: one fmt-0 chunk on csid 2, type 4, stream id 0 *)
Definition ping_response (ts : N) : bytes :=
  [2; 0; 0; 0; 0; 0; 6; 4; 0; 0; 0; 0] ++ [0; 7] ++ be_put 4 ts.

Inductive rc_out := RcAmf | RcOk (written : bytes).

Definition client_do_msg (fx : bool) (typeid : N) (p : bytes) : res rc_out :=
  if (typeid =? 5) || (typeid =? 6) || (typeid =? 1) then
    if lenN p <? 4 then Err e_short else Ok (RcOk [])
  else if (typeid =? 20) || (typeid =? 18) then Ok RcAmf
  else if typeid =? 3 then
    (* fix: acknowledgement shorter than its 4-byte sequence number *)
    if fx && (lenN p <? 4) then Err e_short else
    let* _ := be_at s_rtmpc_slice s_rtmpc_be32 4 p 0 in Ok (RcOk [])
  else if typeid =? 4 then
    (* fix: user control message shorter than its event type / ping timestamp *)
    if fx && (lenN p <? 2) then Err e_short else
    let* t := be_at s_rtmpc_slice s_rtmpc_be16 2 p 0 in
    if t =? 6 then
      if fx && (lenN p <? 6) then Err e_short else
      let* ts := be_at s_rtmpc_slice s_rtmpc_be32 4 (skipn 2 p) 0 in
      Ok (RcOk (ping_response ts))
    else Ok (RcOk [])
  else if (typeid =? 8) || (typeid =? 9) then Ok (RcOk [])
  else
    (* fix: unknown message type ids are logged and ignored, as the server session does *)
    if fx then Ok (RcOk []) else Panic s_rtmpc_explicit.
