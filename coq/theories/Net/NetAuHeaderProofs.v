(* C13: rtprtcp.parseAu never panics (fixed tree) and what it guarantees. *)
From Coq Require Import Lia ZifyN ZifyNat ZifyBool.
From Lal Require Import Common.LBytes Common.Res Net.NetChk Net.NetChkProofs Net.NetAuHeader.
Open Scope N_scope.
Ltac Zify.zify_post_hook ::= Z.div_mod_to_equations.

Lemma parse_au_loop_spec n : forall b pauh pau acc, pauh + 2 * N.of_nat n <= lenN b ->
  exists aus pau', parse_au_loop n b pauh pau acc = Ok (rev acc ++ aus, pau') /\ length aus = n /\ pau <= pau' /\
    Forall (fun a => pau <= au_pos a /\ au_pos a + au_size a <= pau') aus /\
    match aus with a :: _ => au_pos a = pau | [] => True end.
Proof.
  induction n as [|k IH]; intros b pauh pau acc Hlen; cbn [parse_au_loop].
  - exists [], pau. rewrite app_nil_r. repeat split; auto; lia.
  - destruct (idx_ok s_parseau_index b pauh) as [x ->]; [lia|]. cbn [bind].
    destruct (idx_ok s_parseau_index b (pauh + 1)) as [y ->]; [lia|]. cbn [bind].
    set (sz := (x * 256 + (y - y mod 8)) / 8).
    destruct (IH b (pauh + 2) (pau + sz) (mk_au sz pau :: acc)) as (aus & pau' & -> & Hl & Hle & Hall & Hhd); [lia|].
    exists (mk_au sz pau :: aus), pau'. cbn [rev]. rewrite <- app_assoc. cbn [app].
    split; [reflexivity|]. split; [cbn; lia|]. split; [lia|]. split; [|reflexivity].
    constructor; [cbn; lia|]. eapply Forall_impl; [|exact Hall]. cbn. intros a [H1 H2]. lia.
Qed.

Theorem parse_au_spec b : exists aus, parse_au true b = Ok aus /\
  (forall a, aus = [a] -> au_pos a <= lenN b) /\
  ((2 <= length aus)%nat -> Forall (fun a => au_pos a + au_size a <= lenN b) aus).
Proof.
  unfold parse_au. cbn [andb].
  destruct (lenN b <? 2) eqn:E2.
  { exists []. repeat split; [discriminate|cbn; lia]. }
  apply N.ltb_ge in E2.
  destruct (idx_ok s_parseau_index b 0) as [b0 ->]; [lia|]. cbn [bind].
  destruct (idx_ok s_parseau_index b 1) as [b1 ->]; [lia|]. cbn [bind].
  set (ahl := (b0 * 256 + b1 + 7) / 8).
  destruct (lenN b <? 2 + ahl) eqn:Ea.
  { exists []. repeat split; [discriminate|cbn; lia]. }
  apply N.ltb_ge in Ea.
  clearbody ahl.
  assert (Hh : 2 + 2 * N.of_nat (N.to_nat (ahl / 2)) <= lenN b).
  { rewrite N2Nat.id. pose proof (N.mul_div_le ahl 2). lia. }
  destruct (parse_au_loop_spec (N.to_nat (ahl / 2)) b 2 (2 + ahl) [] Hh) as (aus & pau' & -> & Hl & Hle & Hall & Hhd).
  cbn [bind rev app].
  destruct ((1 <? ahl / 2) && (lenN b <? pau')) eqn:Eg.
  { exists []. repeat split; [discriminate|cbn; lia]. }
  exists aus. split; [reflexivity|]. split.
  - intros a ->. change (au_pos a = 2 + ahl) in Hhd. lia.
  - intros H2. apply andb_false_iff in Eg as [Eg|Eg].
    + apply N.ltb_ge in Eg. lia.
    + apply N.ltb_ge in Eg. eapply Forall_impl; [|exact Hall]. cbn. intros a [_ H]. lia.
Qed.

Corollary parse_au_no_panic b : no_panic (parse_au true b).
Proof. destruct (parse_au_spec b) as (aus & -> & _). reflexivity. Qed.

Lemma parse_au_pinned_refuted :
  parse_au false [] = Panic s_parseau_index /\ parse_au false [0; 32; 0; 8] = Panic s_parseau_index.
Proof. split; vm_compute; reflexivity. Qed.
