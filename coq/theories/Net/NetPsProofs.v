(* C13: gb28181.PsUnpacker never panics and never runs out of fuel on any
   sequence of RTP packets (fixed tree).  Invariant of the reorder queue:
   Size = number of queued packets, every queued packet was accepted by
   ParseRtpPacket. *)
From Coq Require Import Lia ZifyN ZifyNat ZifyBool.
From Lal Require Import Common.LBytes Common.Res Net.NetChk Net.NetChkProofs Net.NetRtpHeader Net.NetRtpHeaderProofs
  Net.NetRtcp Net.NetUnpack Net.NetUnpackProofs Net.NetPs.
Open Scope N_scope.
Ltac Zify.zify_post_hook ::= Z.div_mod_to_equations.

(* ---------------------------------------------------------------------- *)
(* start code scan *)
Lemma scan_start_code_spec : forall l i count j c, count <= i ->
  scan_start_code l i count = Some (j, c) -> i <= j /\ c <= j /\ 2 <= c /\ j < i + lenN l.
Proof.
  induction l as [|b t IH]; intros i count j c Hci; cbn [scan_start_code]; [discriminate|].
  rewrite lenN_cons.
  destruct (b =? 0).
  - intros H. apply IH in H; [|lia]. lia.
  - destruct (b =? 1).
    + destruct (2 <=? count) eqn:E2.
      * intros [= <- <-]. apply N.leb_le in E2. lia.
      * intros H. apply IH in H; [|lia]. lia.
    + intros H. apply IH in H; [|lia]. lia.
Qed.

Lemma iterate_nalu_start_code_spec vb s p l : iterate_nalu_start_code vb s = Some (p, l) ->
  s <= p /\ p + l <= lenN vb /\ 3 <= l.
Proof.
  unfold iterate_nalu_start_code. destruct (lenN vb <=? s) eqn:E; [discriminate|]. apply N.leb_gt in E.
  destruct (scan_start_code (skipn (N.to_nat s) vb) 0 0) as [[j c]|] eqn:Es; [|discriminate].
  intros [= <- <-]. apply scan_start_code_spec in Es; [|lia]. rewrite lenN_skipn in Es. lia.
Qed.

Lemma on_av_packet_wrap_ok wait e : exists w evs, on_av_packet_wrap true wait e = Ok (w, evs).
Proof.
  unfold on_av_packet_wrap. cbn [andb].
  destruct ((pe_pt e =? 96)%Z || (pe_pt e =? 98)%Z); [|eauto].
  destruct (lenN (pe_payload e) <? 5) eqn:E5; [eauto|]. apply N.ltb_ge in E5.
  destruct (idx_ok s_ps_wrap_index (pe_payload e) 4) as [b4 ->]; [lia|]. cbn [bind].
  destruct wait; [|eauto].
  destruct (pe_pt e =? 96)%Z.
  - destruct ((b4 mod 32 =? 7) || (b4 mod 32 =? 8)); eauto.
  - destruct ((b4 mod 128 / 2 =? 32) || (b4 mod 128 / 2 =? 33) || (b4 mod 128 / 2 =? 34)); eauto.
Qed.

Lemma iterate_nalu_loop_ok vb vpt pts dts : forall fuel sp pl wait acc,
  sp + pl <= lenN vb -> 1 <= pl -> (N.to_nat (lenN vb - sp) < fuel)%nat ->
  exists w evs, iterate_nalu_loop true fuel vb vpt pts dts sp pl wait acc = Ok (w, evs).
Proof.
  induction fuel as [|f IH]; intros sp pl wait acc Hsp Hpl Hf; [lia|]. cbn [iterate_nalu_loop].
  destruct (iterate_nalu_start_code vb (sp + pl)) as [[np ld]|] eqn:En.
  - apply iterate_nalu_start_code_spec in En as (H1 & H2 & H3).
    rewrite slice_ok by lia. cbn [bind].
    match goal with |- context [on_av_packet_wrap true wait ?e] => destruct (on_av_packet_wrap_ok wait e) as (w & evs & ->) end.
    cbn [bind]. apply IH; lia.
  - rewrite slice_from_ok by lia. cbn [bind].
    match goal with |- context [on_av_packet_wrap true wait ?e] => destruct (on_av_packet_wrap_ok wait e) as (w & evs & ->) end.
    cbn [bind]. eauto.
Qed.

Lemma iterate_nalu_by_start_code_ok vb vpt pts dts wait :
  exists w evs, iterate_nalu_by_start_code true vb vpt pts dts wait = Ok (w, evs).
Proof.
  unfold iterate_nalu_by_start_code.
  destruct (iterate_nalu_start_code vb 0) as [[sp pl]|] eqn:E; [|eauto].
  apply iterate_nalu_start_code_spec in E as (H1 & H2 & H3).
  apply iterate_nalu_loop_ok; try lia. unfold lenN. lia.
Qed.

Lemma read_pts_ok rb off : off + 5 <= lenN rb -> exists z, read_pts rb off = Ok z.
Proof.
  intros H. unfold read_pts. assert (lenN rb <? off = false) as -> by (apply N.ltb_ge; lia).
  destruct (idx_ok s_ps_readpts_index rb off) as [b0 ->]; [lia|]. cbn [bind].
  destruct (idx_ok s_ps_readpts_index rb (off + 1)) as [b1 ->]; [lia|]. cbn [bind].
  destruct (idx_ok s_ps_readpts_index rb (off + 2)) as [b2 ->]; [lia|]. cbn [bind].
  destruct (idx_ok s_ps_readpts_index rb (off + 3)) as [b3 ->]; [lia|]. cbn [bind].
  destruct (idx_ok s_ps_readpts_index rb (off + 4)) as [b4 ->]; [lia|]. cbn [bind]. eauto.
Qed.

Lemma parse_pack_header_ok rb : exists c, parse_pack_header rb = Ok c.
Proof.
  unfold parse_pack_header. destruct (lenN rb <=? 13) eqn:E; [eauto|]. apply N.leb_gt in E.
  destruct (idx_ok s_ps_misc_index rb 13) as [b ->]; [lia|]. cbn [bind]. eauto.
Qed.

Lemma parse_pack_stream_body_ok rb : exists c, parse_pack_stream_body rb = Ok c.
Proof.
  unfold parse_pack_stream_body. destruct (lenN rb <? 6) eqn:E; [eauto|]. apply N.ltb_ge in E.
  destruct (be_at_ok s_ps_feed_slice s_ps_be16_index 2 rb 4) as [l ->]; [lia|]. cbn [bind].
  destruct (lenN rb <? 6 + l); eauto.
Qed.

Lemma psm_loop_ok rb : forall fuel i esml st,
  ((0 < esml)%Z -> (Z.of_N i + esml + 4 <= Z.of_N (lenN rb))%Z) ->
  ((esml <= 0)%Z \/ (Z.of_N (lenN rb) - Z.of_N i < Z.of_nat fuel)%Z) ->
  exists r, psm_loop fuel rb i esml st = Ok r.
Proof.
  induction fuel as [|f IH]; intros i esml st Hinv Hf.
  - cbn [psm_loop]. destruct (esml <=? 0)%Z eqn:E; [eauto|]. apply Z.leb_gt in E. specialize (Hinv E). lia.
  - cbn [psm_loop]. destruct (esml <=? 0)%Z eqn:E; [eauto|]. apply Z.leb_gt in E. specialize (Hinv E).
    destruct (idx_ok s_ps_misc_index rb i) as [stype ->]; [lia|]. cbn [bind].
    destruct (idx_ok s_ps_misc_index rb (i + 1)) as [sid ->]; [lia|]. cbn [bind].
    destruct st as [[[ast vst] apt] vpt].
    destruct (be_at_ok s_ps_psm_slice s_ps_be16_index 2 rb (i + 2)) as [esil ->]; [lia|]. cbn [bind].
    apply IH; lia.
Qed.

Lemma parse_psm_ok rb st : 4 <= lenN rb -> exists r, parse_psm rb st = Ok r.
Proof.
  intros H4. unfold parse_psm. assert (lenN rb <? 4 = false) as -> by (apply N.ltb_ge; lia).
  destruct (lenN rb - 4 <? 6) eqn:E6; [eauto|]. apply N.ltb_ge in E6.
  destruct (be_at_ok s_ps_psm_slice s_ps_be16_index 2 rb 8) as [l ->]; [lia|]. cbn [bind].
  destruct (lenN rb - 10 <? l + 2) eqn:El; [eauto|]. apply N.ltb_ge in El.
  destruct (be_at_ok s_ps_psm_slice s_ps_be16_index 2 rb (10 + l)) as [esml ->]; [lia|]. cbn [bind].
  destruct (lenN rb - (10 + l + 2) <? esml + 4) eqn:Ee; [eauto|]. apply N.ltb_ge in Ee.
  destruct (psm_loop_ok rb (S (length rb)) (10 + l + 2) (Z.of_N esml) st) as [[i' st'] ->]; [lia|right; unfold lenN; lia|].
  cbn [bind]. eauto.
Qed.

(* parse functions leave the reorder queue and the input buffer alone *)
Definition same_lb (st st' : ps_state) : Prop :=
  ps_list st' = ps_list st /\ ps_size st' = ps_size st /\ ps_done st' = ps_done st /\ ps_buf st' = ps_buf st.

Lemma same_lb_refl st : same_lb st st. Proof. repeat split. Qed.

Lemma parse_av_stream_ok st code rtpts rb :
  exists c st' evs, parse_av_stream true st code rtpts rb = Ok (c, st', evs) /\ same_lb st st'.
Proof.
  unfold parse_av_stream. cbn [andb].
  destruct (lenN rb <? 6) eqn:E6. { eexists _, _, _. split; [reflexivity|apply same_lb_refl]. }
  apply N.ltb_ge in E6.
  destruct (be_at_ok s_ps_av_slice s_ps_be16_index 2 rb 4) as [length ->]; [lia|]. cbn [bind].
  destruct (lenN rb - 6 <? length) eqn:El. { eexists _, _, _. split; [reflexivity|apply same_lb_refl]. }
  apply N.ltb_ge in El.
  destruct (length <? 3) eqn:E3. { eexists _, _, _. split; [reflexivity|apply same_lb_refl]. }
  apply N.ltb_ge in E3.
  destruct (idx_ok s_ps_av_index rb 7) as [f7 ->]; [lia|]. cbn [bind].
  destruct (idx_ok s_ps_av_index rb 8) as [phdl ->]; [lia|]. cbn [bind].
  set (flag := f7 / 64).
  set (need := (if 2 <=? flag then 5 else 0) + (if flag mod 2 =? 1 then 5 else 0)).
  destruct ((length <? 3 + phdl) || (phdl <? need)) eqn:Eg. { eexists _, _, _. split; [reflexivity|apply same_lb_refl]. }
  apply orb_false_iff in Eg as [Eg1 Eg2]. apply N.ltb_ge in Eg1, Eg2.
  assert (Hpts : exists pts, (if 2 <=? flag then read_pts rb 9 else Ok (-1)%Z) = Ok pts).
  { destruct (2 <=? flag) eqn:Ef; [|eauto]. apply read_pts_ok. subst need. try rewrite Ef in Eg2. lia. }
  destruct Hpts as [pts ->]. cbn [bind].
  assert (Hdts : exists dts, (if flag mod 2 =? 1 then read_pts rb (9 + (if 2 <=? flag then 5 else 0)) else Ok pts) = Ok dts).
  { destruct (flag mod 2 =? 1) eqn:Ef; [|eauto]. apply read_pts_ok. subst need. try rewrite Ef in Eg2. destruct (2 <=? flag); lia. }
  destruct Hdts as [dts ->]. cbn [bind].
  assert (Hdata : (if lenN rb <? 6 + length then Panic s_ps_av_slice else slice s_ps_av_slice rb (9 + phdl) (6 + length))
                  = Ok (firstn (N.to_nat (6 + length - (9 + phdl))) (skipn (N.to_nat (9 + phdl)) rb))).
  { assert (lenN rb <? 6 + length = false) as -> by (apply N.ltb_ge; lia). apply slice_ok; lia. }
  destruct (is_audio_code code).
  - destruct ((ps_ast st =? 15) || (ps_ast st =? 144) || (ps_ast st =? 145)).
    + set (X := if (pts =? -1)%Z then _ else _). destruct X as [[[pts' dts'] abuf] evs].
      rewrite Hdata. cbn [bind]. eexists _, _, _. split; [reflexivity|repeat split].
    + eexists _, _, _. split; [reflexivity|apply same_lb_refl].
  - match goal with |- context [bind ?X _] =>
      assert (Hr : exists r pts', X = Ok (r, pts')) end.
    { destruct (pts =? -1)%Z.
      - destruct (ps_pre_vpts st =? -1)%Z; [|eauto].
        destruct (ps_pre_vrtpts st =? -1)%Z; [eauto|].
        destruct (negb (ps_pre_vrtpts st =? Z.of_N rtpts)%Z); [|eauto].
        destruct (iterate_nalu_by_start_code_ok (ps_vbuf st) (ps_vpt st) (ps_pre_vrtpts st) (ps_pre_vrtpts st) (ps_wait_sps st)) as (w & e & ->).
        cbn [bind]. eauto.
      - destruct (negb (pts =? ps_pre_vpts st)%Z && (0 <=? ps_pre_vpts st)%Z); [|eauto].
        destruct (iterate_nalu_by_start_code_ok (ps_vbuf st) (ps_vpt st) (ps_pre_vpts st) (ps_pre_vpts st) (ps_wait_sps st)) as (w & e & ->).
        cbn [bind]. eauto. }
    destruct Hr as (r & pts' & ->). cbn [bind].
    set (X := match r with Some _ => _ | None => _ end). destruct X as [[wait vbuf] evs].
    rewrite Hdata. cbn [bind]. eexists _, _, _. split; [reflexivity|repeat split].
Qed.

(* ---------------------------------------------------------------------- *)
Lemma buf_skip_len b n : (4 <= n)%Z -> 4 <= lenN b -> (length (buf_skip b n) < length b)%nat.
Proof.
  intros Hn Hb. unfold buf_skip. destruct (Z.of_N (lenN b) <? n)%Z eqn:E.
  - unfold lenN in Hb. cbn. lia.
  - rewrite skipn_length. apply Z.ltb_ge in E. unfold lenN in *. lia.
Qed.

Lemma feed_body_loop_ok rtpts : forall fuel st acc, (length (ps_buf st) < fuel)%nat ->
  exists err st' evs, feed_body_loop true fuel st rtpts acc = Ok (err, st', evs) /\
    ps_list st' = ps_list st /\ ps_size st' = ps_size st /\ ps_done st' = ps_done st.
Proof.
  induction fuel as [|f IH]; intros st acc Hf; [lia|]. cbn [feed_body_loop].
  destruct (ps_buf st) as [|b0 bt] eqn:Eb. { eexists _, _, _. split; [reflexivity|repeat split]. }
  rewrite <- Eb in *. clear b0 bt Eb. cbn [andb].
  destruct (lenN (ps_buf st) <? 4) eqn:E4. { eexists _, _, _. split; [reflexivity|repeat split]. }
  apply N.ltb_ge in E4.
  destruct (be_at_ok s_ps_feed_slice s_ps_be32_index 4 (ps_buf st) 0) as [code ->]; [lia|]. cbn [bind].
  match goal with |- context [bind ?X _] =>
    assert (Hd : exists c st1 evs, X = Ok (c, st1, evs) /\ ps_list st1 = ps_list st /\ ps_size st1 = ps_size st /\
                                   ps_done st1 = ps_done st /\ ps_buf st1 = ps_buf st) end.
  { destruct (code =? 442).
    { destruct (parse_pack_header_ok (ps_buf st)) as [c ->]. cbn [bind]. eexists _, _, _. split; [reflexivity|repeat split]. }
    destruct ((code =? 443) || (code =? 445) || (code =? 447) || (code =? 496) || (code =? 497) || (code =? 446) || (code =? 511)).
    { destruct (parse_pack_stream_body_ok (ps_buf st)) as [c ->]. cbn [bind]. eexists _, _, _. split; [reflexivity|repeat split]. }
    destruct (code =? 444).
    { destruct (parse_psm_ok (ps_buf st) (ps_ast st, ps_vst st, ps_apt st, ps_vpt st) E4) as [[c [[[a v] ap] vp]] ->].
      cbn [bind]. eexists _, _, _. split; [reflexivity|repeat split]. }
    destruct ((code =? 448) || (code =? 480)).
    { destruct (parse_av_stream_ok st code rtpts (ps_buf st)) as (c & st1 & evs & -> & H1 & H2 & H3 & H4).
      eexists _, _, _. split; [reflexivity|repeat split; assumption]. }
    destruct (code =? 441); eexists _, _, _; (split; [reflexivity|repeat split]). }
  destruct Hd as (c & st1 & evs & -> & H1 & H2 & H3 & H4). cbn [bind].
  destruct (c =? -2)%Z. { eexists _, _, _. split; [reflexivity|]. cbn. auto. }
  destruct (c <? 0)%Z eqn:Ec. { eexists _, _, _. split; [reflexivity|auto]. }
  apply Z.ltb_ge in Ec.
  destruct (IH (set_buf st1 (buf_skip (ps_buf st1) (4 + c))) (acc ++ evs)) as (err & st' & evs' & -> & H1' & H2' & H3').
  { cbn [set_buf ps_buf]. rewrite H4. pose proof (buf_skip_len (ps_buf st) (4 + c)) as Hs. lia. }
  eexists _, _, _. split; [reflexivity|]. cbn [set_buf ps_list ps_size ps_done] in *. repeat split; congruence.
Qed.

Lemma feed_rtp_body_ok st body rtpts :
  exists err st' evs, feed_rtp_body true st body rtpts = Ok (err, st', evs) /\
    ps_list st' = ps_list st /\ ps_size st' = ps_size st /\ ps_done st' = ps_done st.
Proof.
  unfold feed_rtp_body.
  destruct (feed_body_loop_ok rtpts (S (length (ps_buf (set_buf st (ps_buf st ++ body))))) (set_buf st (ps_buf st ++ body)) [])
    as (err & st' & evs & -> & H1 & H2 & H3); [lia|].
  eexists _, _, _. split; [reflexivity|]. cbn [set_buf ps_list ps_size ps_done] in *. auto.
Qed.

(* ---------------------------------------------------------------------- *)
Definition list_inv (l : list upkt) (size : Z) : Prop := size = Z.of_nat (length l) /\ Forall pkt_wf l.
Definition ps_inv (st : ps_state) : Prop := list_inv (ps_list st) (ps_size st).

Lemma is_start_position_ok p : pkt_wf p -> exists r, is_start_position p = Ok r.
Proof. intros H. unfold is_start_position. destruct (pkt_wf_body p H) as (b & t & -> & _). cbn [bind]. eauto. Qed.

Lemma ps_drop_loop_ok : forall fuel l size done prev, list_inv l size -> (length l < fuel)%nat ->
  exists l' size' done', ps_drop_loop fuel l size done prev = Ok (l', size', done') /\ list_inv l' size' /\ (length l' <= length l)%nat.
Proof.
  induction fuel as [|f IH]; intros l size done prev [Hs Hw] Hf; [lia|]. cbn [ps_drop_loop].
  destruct (size <=? 0)%Z eqn:E0. { eexists _, _, _. split; [reflexivity|]. split; [split; assumption|lia]. }
  apply Z.leb_gt in E0. destruct l as [|curr t]; [cbn in Hs; lia|].
  destruct (negb (sub_seq (up_seq curr) prev =? 1)%Z). { eexists _, _, _. split; [reflexivity|]. split; [split; assumption|lia]. }
  pose proof (Forall_inv Hw) as Hc. pose proof (Forall_inv_tail Hw) as Ht.
  destruct (is_start_position_ok curr Hc) as [sp ->]. cbn [bind].
  destruct sp. { eexists _, _, _. split; [reflexivity|]. split; [split; assumption|lia]. }
  destruct (IH t (size - 1)%Z done (up_seq curr)) as (l' & size' & done' & -> & Hi & Hl).
  { split; [cbn [length] in Hs; lia|exact Ht]. }
  { cbn [length] in Hf. lia. }
  eexists _, _, _. split; [reflexivity|]. split; [exact Hi|cbn [length]; lia].
Qed.

Lemma ps_feed_loop_ok maxsize : (1 <= maxsize)%Z -> forall fuel st acc, ps_inv st -> (length (ps_list st) < fuel)%nat ->
  exists st' evs, ps_feed_loop true maxsize fuel st acc = Ok (st', evs) /\ ps_inv st'.
Proof.
  intros Hmax. induction fuel as [|f IH]; intros st acc [Hs Hw] Hf; [lia|]. cbn [ps_feed_loop].
  destruct (ps_first_sequential st) eqn:Efs.
  - destruct (ps_list st) as [|opkt t] eqn:El; [unfold ps_first_sequential in Efs; rewrite El in Efs; discriminate|].
    pose proof (Forall_inv Hw) as Ho. pose proof (Forall_inv_tail Hw) as Ht.
    destruct (pkt_wf_body opkt Ho) as (body & tl & -> & _). cbn [bind].
    destruct (feed_rtp_body_ok (set_list st t (ps_size st - 1) (Some (up_seq opkt))) body (up_ts opkt))
      as (err & st2 & evs & -> & H1 & H2 & H3). cbn [bind].
    cbn [set_list ps_list ps_size ps_done] in H1, H2, H3. cbn [andb].
    apply IH.
    + destruct err.
      * split; [reflexivity|constructor].
      * unfold ps_inv, list_inv. rewrite H1, H2. split; [cbn [length] in Hs; lia|exact Ht].
    + cbn [length] in Hf. destruct err; [cbn; lia|]. rewrite H1. lia.
  - destruct (negb (maxsize <=? ps_size st)%Z) eqn:Efull. { eexists _, _. split; [reflexivity|split; assumption]. }
    apply negb_false_iff, Z.leb_le in Efull.
    destruct (ps_list st) as [|prev t] eqn:El; [cbn in Hs; lia|].
    pose proof (Forall_inv Hw) as Hp. pose proof (Forall_inv_tail Hw) as Ht.
    destruct (ps_drop_loop_ok (S (length t)) t (ps_size st - 1)%Z (ps_done st) (up_seq prev)) as (l' & size' & done' & -> & Hi & Hl).
    { split; [cbn [length] in Hs; lia|exact Ht]. }
    { lia. }
    cbn [bind]. apply IH.
    + exact Hi.
    + cbn [clear_bufs set_list ps_list]. cbn [length] in Hf. lia.
Qed.

Lemma ins_length p : forall l, length (fst (ins p l)) = (length l + (if snd (ins p l) then 1 else 0))%nat.
Proof.
  induction l as [|q t IH]; cbn [ins]; [reflexivity|].
  destruct (compare_seq (up_seq p) (up_seq q) =? 0)%Z; [cbn; lia|].
  destruct (compare_seq (up_seq p) (up_seq q) =? 1)%Z.
  - destruct (ins p t) as [t' b]. cbn [fst snd length] in *. lia.
  - cbn [fst snd length]. lia.
Qed.

Theorem ps_feed_rtp_packet_ok maxsize st b : (1 <= maxsize)%Z -> ps_inv st ->
  exists err st' evs, ps_feed_rtp_packet true maxsize st b = Ok (err, st', evs) /\ ps_inv st'.
Proof.
  intros Hmax [Hs Hw]. unfold ps_feed_rtp_packet.
  pose proof (parse_rtp_header_spec b) as Hh. pose proof (parse_rtp_header_padding b) as Hp.
  destruct (parse_rtp_header true b) as [h| |]; [|eexists _, _, _; split; [reflexivity|split; assumption]|contradiction].
  specialize (Hp h eq_refl).
  destruct (match ps_done st with None => false | Some d => (compare_seq (rh_seq h) d <=? 0)%Z end).
  { eexists _, _, _. split; [reflexivity|split; assumption]. }
  assert (Hpk : pkt_wf (mk_upkt h b 0)) by (split; assumption).
  destruct (ins_spec pkt_wf (mk_upkt h b 0) Hpk (ps_list st) Hw) as (Hins & _ & _).
  pose proof (ins_length (mk_upkt h b 0) (ps_list st)) as Hlen.
  destruct (ins (mk_upkt h b 0) (ps_list st)) as [l inserted]. cbn [fst snd] in *.
  destruct (ps_feed_loop_ok maxsize Hmax (S (S (length l + length l)))
              (set_list st l (ps_size st + (if inserted then 1 else 0)) (ps_done st)) []) as (st' & evs & -> & Hi).
  { split; cbn [set_list ps_list ps_size]; [destruct inserted; lia|exact Hins]. }
  { cbn [set_list ps_list]. lia. }
  cbn [bind]. eexists _, _, _. split; [reflexivity|exact Hi].
Qed.

Theorem run_ps_total maxsize : (1 <= maxsize)%Z -> forall pkts st, ps_inv st -> exists outs, run_ps true maxsize st pkts = Ok outs.
Proof.
  intros Hmax. induction pkts as [|b t IH]; intros st Hi; cbn [run_ps]; [eauto|].
  destruct (ps_feed_rtp_packet_ok maxsize st b Hmax Hi) as (err & st' & evs & -> & Hi'). cbn [bind].
  destruct (IH st' Hi') as [more ->]. cbn [bind]. eauto.
Qed.

Lemma ps_init_inv : ps_inv ps_init.
Proof. split; [reflexivity|constructor]. Qed.

(* pinned tree witnesses, each replayed on the Go code *)
Definition ps_hdr (seq : N) : bytes := [128; 96; 0; seq; 0; 0; 0; 0; 0; 0; 0; 1].
Lemma run_ps_pinned_refuted :
  (* a body shorter than a start code *)
  run_ps false 1024 ps_init [ps_hdr 1 ++ [0; 0; 1]] = Panic s_ps_be32_index /\
  (* video PES with no room for its length field *)
  run_ps false 1024 ps_init [ps_hdr 1 ++ [0; 0; 1; 224; 0]] = Panic s_ps_be16_index /\
  (* PES length 0 at the end of the buffer: flags byte is read past it *)
  run_ps false 1024 ps_init [ps_hdr 1 ++ [0; 0; 1; 224; 0; 0]] = Panic s_ps_av_index /\
  (* PTS flag set but the PES packet ends after the header *)
  run_ps false 1024 ps_init [ps_hdr 1 ++ [0; 0; 1; 224; 0; 3; 128; 128; 0]] = Panic s_ps_readpts_index /\
  (* header data length larger than the PES packet *)
  run_ps false 1024 ps_init [ps_hdr 1 ++ [0; 0; 1; 224; 0; 3; 128; 0; 9]] = Panic s_ps_av_slice /\
  (* a 4-byte NAL unit (start code + one byte) flushed by the next frame *)
  run_ps false 1024 ps_init
    [ps_hdr 1 ++ [0; 0; 1; 188; 0; 14; 224; 255; 0; 0; 0; 4; 27; 224; 0; 0; 0; 0; 0; 0]
                ++ [0; 0; 1; 224; 0; 12; 128; 128; 5; 33; 0; 1; 0; 1; 0; 0; 1; 101]
                ++ [0; 0; 1; 224; 0; 12; 128; 128; 5; 33; 0; 1; 0; 3; 0; 0; 1; 101]] = Panic s_ps_wrap_index.
Proof. repeat split; vm_compute; reflexivity. Qed.
