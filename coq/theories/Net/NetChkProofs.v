(* C13: facts about the checked accessors. *)
From Coq Require Import Lia ZifyN ZifyNat ZifyBool.
From Lal Require Import Common.LBytes Common.Res Net.NetChk.
Open Scope N_scope.
Ltac Zify.zify_post_hook ::= Z.div_mod_to_equations.

Definition no_panic {A} (r : res A) : Prop := is_panic r = false.

Lemma no_panic_ok {A} (a : A) : no_panic (Ok a). Proof. reflexivity. Qed.
Lemma no_panic_err {A} e : no_panic (@Err A e). Proof. reflexivity. Qed.
Lemma panic_not {A} s : ~ no_panic (@Panic A s). Proof. discriminate. Qed.

Lemma no_panic_bind {A B} (r : res A) (f : A -> res B) :
  no_panic r -> (forall a, r = Ok a -> no_panic (f a)) -> no_panic (bind r f).
Proof. destruct r; cbn; intros H1 H2; auto. Qed.

Lemma lenN_nil {A} : lenN (@nil A) = 0. Proof. reflexivity. Qed.
Lemma lenN_cons {A} (x : A) l : lenN (x :: l) = lenN l + 1.
Proof. unfold lenN; cbn [length]; lia. Qed.
Lemma lenN_skipn {A} n (l : list A) : lenN (skipn n l) = lenN l - N.of_nat n.
Proof. unfold lenN; rewrite skipn_length; lia. Qed.
Lemma lenN_firstn {A} n (l : list A) : lenN (firstn n l) = N.min (N.of_nat n) (lenN l).
Proof. unfold lenN; rewrite firstn_length; lia. Qed.

Lemma idx_ok site l i : i < lenN l -> exists v, idx site l i = Ok v.
Proof.
  intros H. unfold idx. assert (i <? lenN l = true) as -> by now apply N.ltb_lt.
  destruct (nth_error l (N.to_nat i)) eqn:E; eauto.
  apply nth_error_None in E. unfold lenN in H. lia.
Qed.

Lemma idx_inv site l i v : idx site l i = Ok v -> i < lenN l.
Proof. unfold idx. destruct (i <? lenN l) eqn:E; [|discriminate]. intros _. now apply N.ltb_lt. Qed.

Lemma idx_no_panic site l i : i < lenN l -> no_panic (idx site l i).
Proof. intros H; destruct (idx_ok site l i H) as [v ->]; reflexivity. Qed.

Lemma slice_ok site l lo hi : lo <= hi -> hi <= lenN l ->
  slice site l lo hi = Ok (firstn (N.to_nat (hi - lo)) (skipn (N.to_nat lo) l)).
Proof. intros H1 H2; unfold slice. apply N.leb_le in H1, H2. rewrite H1, H2. reflexivity. Qed.

Lemma slice_len site l lo hi s : slice site l lo hi = Ok s -> lo <= hi /\ hi <= lenN l /\ lenN s = hi - lo.
Proof.
  unfold slice. destruct (lo <=? hi) eqn:E1; [|discriminate]. destruct (hi <=? lenN l) eqn:E2; [|discriminate].
  cbn. intros [= <-]. apply N.leb_le in E1, E2. rewrite lenN_firstn, lenN_skipn. lia.
Qed.

Lemma slice_from_ok site l lo : lo <= lenN l -> slice_from site l lo = Ok (skipn (N.to_nat lo) l).
Proof. intros H; unfold slice_from. apply N.leb_le in H. rewrite H. reflexivity. Qed.

Lemma slice_from_len site l lo s : slice_from site l lo = Ok s -> lo <= lenN l /\ lenN s = lenN l - lo.
Proof.
  unfold slice_from. destruct (lo <=? lenN l) eqn:E; [|discriminate]. intros [= <-].
  apply N.leb_le in E. rewrite lenN_skipn. lia.
Qed.

Lemma be_at_ok ss si n l off : off + n <= lenN l -> exists v, be_at ss si n l off = Ok v.
Proof.
  intros H. unfold be_at.
  assert (lenN l <? off = false) as -> by (apply N.ltb_ge; lia).
  assert (lenN l <? off + n = false) as -> by (apply N.ltb_ge; lia). eauto.
Qed.

Lemma be_at_no_panic ss si n l off : off + n <= lenN l -> no_panic (be_at ss si n l off).
Proof. intros H; destruct (be_at_ok ss si n l off H) as [v ->]; reflexivity. Qed.

Lemma be_at_inv ss si n l off v : be_at ss si n l off = Ok v -> off + n <= lenN l.
Proof.
  unfold be_at. destruct (lenN l <? off) eqn:E1; [discriminate|].
  destruct (lenN l <? off + n) eqn:E2; [discriminate|]. intros _. apply N.ltb_ge in E2. lia.
Qed.

Lemma make_chk_ok site n : n <= max_alloc -> make_chk site n = Ok tt.
Proof. intros H; unfold make_chk. assert (max_alloc <? n = false) as -> by (apply N.ltb_ge; lia). reflexivity. Qed.
