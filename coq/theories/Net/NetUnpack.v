(* C13: model of the RTP unpackers on hostile packets
   (pkg/rtprtcp/rtp_unpacker_aac.go, rtp_unpacker_avc_hevc.go, rtp_unpacker_raw.go,
    rtp_unpack_container.go, rtp_packet_list.go).  Only panic-relevant structure
   and the emitted AvPackets; the round trip on well-formed input is C12. *)
From Lal Require Import Common.LBytes Common.Res Net.NetChk Net.NetRtpHeader Net.NetRtcp Net.NetAuHeader.
Open Scope N_scope.

Record upkt := mk_upkt { up_hdr : rtp_header; up_raw : bytes; up_pos : N }.
Definition up_seq (p : upkt) : N := rh_seq (up_hdr p).
Definition up_ts (p : upkt) : N := rh_ts (up_hdr p).
Definition up_body (p : upkt) : res (bytes * bytes) := rtp_body (up_raw p) (up_hdr p).

Record avpkt := mk_av { av_pt : Z; av_ts : Z; av_payload : bytes }.

(* what TryUnpackOne reports when it returns true *)
Record unpack_out := mk_uo { uo_seq : N; uo_rest : list upkt; uo_removed : Z; uo_av : list avpkt }.

(* pinned tree: int64(ts / uint32(clockRate/1000));
   after the C07 fix (lal 186fc1c): int64(uint64(ts) * 1000 / uint64(clockRate)) --
   ts < 2^32, so the product does not wrap; uint64 of a negative int is 2^64 - |clock| *)
Definition w64 (z : Z) : N := Z.to_N (z mod 18446744073709551616)%Z.
Definition ts_ms (fx : bool) (site : N) (clock : Z) (ts : N) : res Z :=
  if fx then
    let d := w64 clock in
    if d =? 0 then Panic site else Ok (Z.of_N (ts * 1000 / d))
  else
    let d := w32 (Z.quot clock 1000) in
    if d =? 0 then Panic site else Ok (Z.of_N (ts / d)).

(* b[lo:hi] where cap(b) = len b + len tail *)
Definition slice_cap (site : N) (b tail : bytes) (lo hi : N) : res bytes :=
  if (lo <=? hi) && (hi <=? lenN b + lenN tail)
  then Ok (firstn (N.to_nat (hi - lo)) (skipn (N.to_nat lo) (b ++ tail)))
  else Panic site.

(* ---------------------------------------------------------------------- *)
(* raw (G711 / opus) *)
Definition try_unpack_raw (fx : bool) (pt clock : Z) (l : list upkt) : res (option unpack_out) :=
  match l with
  | [] => Ok None
  | p :: rest =>
      let* (b, _) := up_body p in
      let* ms := ts_ms fx s_raw_divide clock (up_ts p) in
      Ok (Some (mk_uo (up_seq p) rest 1 [mk_av pt ms b]))
  end.

(* ---------------------------------------------------------------------- *)
(* AAC *)
Fixpoint aac_multi (fx : bool) (clock pt : Z) (ts : N) (b tail : bytes) (i : Z) (aus : list au) : res (list avpkt) :=
  match aus with
  | [] => Ok []
  | a :: t =>
      let* ms := ts_ms fx s_aac_divide clock ts in
      if (clock =? 0)%Z then Panic s_aac_divide else
      let extra := Z.of_N (w32 (Z.quot (i * 1024000) clock)) in
      let* pl := slice_cap s_aac_slice b tail (au_pos a) (au_pos a + au_size a) in
      let* more := aac_multi fx clock pt ts b tail (i + 1) t in
      Ok (mk_av pt (ms + extra) pl :: more)
  end.

Fixpoint aac_frag (fx : bool) (clock pt : Z) (total timestamp seq cache : N) (acc : list bytes) (count : Z)
         (l : list upkt) : res (option unpack_out) :=
  match l with
  | [] => Ok None
  | q :: rest =>
      let count := (count + 1)%Z in
      if negb (sub_seq (up_seq q) seq =? 1)%Z then Ok None else
      if negb (up_ts q =? timestamp) then Ok None else
      let* (b, _) := up_body q in
      let* aus := parse_au fx b in
      match aus with
      | [a] =>
          if negb (au_size a =? total) then Ok None else
          let* rem := slice_from s_aac_slice b (au_pos a) in
          let cache := u32 (cache + lenN rem) in
          if cache <? total then aac_frag fx clock pt total timestamp (up_seq q) cache (rem :: acc) count rest
          else if cache =? total then
            let* ms := ts_ms fx s_aac_divide clock (up_ts q) in
            Ok (Some (mk_uo (up_seq q) rest count [mk_av pt ms (concat (rev (rem :: acc)))]))
          else Ok None
      | _ => Ok None
      end
  end.

Definition try_unpack_aac (fx : bool) (pt clock : Z) (l : list upkt) : res (option unpack_out) :=
  match l with
  | [] => Ok None
  | p :: rest =>
      let* (b, tail) := up_body p in
      let* aus := parse_au fx b in
      match aus with
      | [a] =>
          let* rem := slice_from s_aac_slice b (au_pos a) in
          if au_size a <=? lenN rem then
            let* ms := ts_ms fx s_aac_divide clock (up_ts p) in
            let* pl := slice_cap s_aac_slice b tail (au_pos a) (au_pos a + au_size a) in
            Ok (Some (mk_uo (up_seq p) rest 1 [mk_av pt ms pl]))
          else
            aac_frag fx clock pt (au_size a) (up_ts p) (up_seq p) (u32 (lenN rem)) [rem] 1 rest
      | _ =>
          let* avs := aac_multi fx clock pt (up_ts p) b tail 0 aus in
          Ok (Some (mk_uo (up_seq p) rest 1 avs))
      end
  end.

(* ---------------------------------------------------------------------- *)
(* AVC / HEVC *)
Definition pos_single : N := 1.
Definition pos_fua_start : N := 2.
Definition pos_fua_middle : N := 3.
Definition pos_fua_end : N := 4.
Definition pos_stapa : N := 5.
Definition pos_ap : N := 6.

(* C07 fix (lal b865944): every type below 48 is a single NAL unit packet; before: hevc.NaluTypeMapping *)
Definition hevc_single_type (fx : bool) (t : N) : bool :=
  if fx then t <? 48
  else (t <=? 9) || ((16 <=? t) && (t <=? 23)) || ((32 <=? t) && (t <=? 35)) || (t =? 39) || (t =? 40).

(* calcPositionIfNeededAvc: 0 = position left unset *)
Definition calc_pos_avc (fx : bool) (b : bytes) : res N :=
  if fx && (lenN b <? 1) then Ok 0 else
  let* b0 := idx s_calcavc_index b 0 in
  let outer := b0 mod 32 in
  if outer <=? 23 then Ok pos_single
  else if outer =? 28 then
    if fx && (lenN b <? 2) then Ok 0 else
    let* b1 := idx s_calcavc_index b 1 in
    if 128 <=? b1 then Ok pos_fua_start
    else if 64 <=? b1 mod 128 then Ok pos_fua_end
    else Ok pos_fua_middle
  else if outer =? 24 then Ok pos_stapa
  else Ok 0.

Definition calc_pos_hevc (fx : bool) (b : bytes) : res N :=
  if fx && (lenN b <? 1) then Ok 0 else
  let* b0 := idx s_calchevc_index b 0 in
  let outer := (b0 mod 128) / 2 in
  if hevc_single_type fx outer then Ok pos_single
  else if outer =? 49 then
    if fx && (lenN b <? 3) then Ok 0 else
    let* b2 := idx s_calchevc_index b 2 in
    if 128 <=? b2 then Ok pos_fua_start
    else if 64 <=? b2 mod 128 then Ok pos_fua_end
    else Ok pos_fua_middle
  else if outer =? 48 then
    if fx && (lenN b <? 2) then Ok 0 else Ok pos_ap
  else Ok 0.

(* first pass over a STAP-A / AP payload: false = "invalid STAP-A packet" *)
Fixpoint stap_valid (fuel : nat) (buf : bytes) : bool :=
  match buf with
  | [] => true
  | _ =>
      match fuel with
      | O => false
      | S f =>
          match buf with
          | x :: y :: t =>
              let n := x * 256 + y in
              if n <=? lenN t then stap_valid f (skipn (N.to_nat n) t) else false
          | _ => false
          end
      end
  end.

(* second pass: 2-byte sizes become 4-byte sizes; every access checked *)
Fixpoint stap_copy (fuel : nat) (buf : bytes) : res bytes :=
  match buf with
  | [] => Ok []
  | _ =>
      match fuel with
      | O => Err err_out_of_fuel
      | S f =>
          let* n := be_at s_avchevc_slice s_be16_index 2 buf 0 in
          let* nal := slice s_avchevc_slice buf 2 (2 + n) in
          let* rest := slice_from s_avchevc_slice buf (2 + n) in
          let* more := stap_copy f rest in
          Ok (be_put 4 n ++ nal ++ more)
      end
  end.

(* walk from the FU start to the FU end; returns (middles ++ [end], rest) *)
Fixpoint fua_walk (prev_seq : N) (acc : list upkt) (l : list upkt) : option (list upkt * upkt * list upkt) :=
  match l with
  | [] => None
  | p :: rest =>
      if negb (sub_seq (up_seq p) prev_seq =? 1)%Z then None
      else if up_pos p =? pos_fua_middle then fua_walk (up_seq p) (p :: acc) rest
      else if up_pos p =? pos_fua_end then Some (rev acc, p, rest)
      else None
  end.

(* Body()[naluTypeLen+1:] of each fragment *)
Fixpoint fua_datas (skip : N) (l : list upkt) : res (list bytes) :=
  match l with
  | [] => Ok []
  | p :: t =>
      let* (b, _) := up_body p in
      let* d := slice_from s_avchevc_slice b skip in
      let* more := fua_datas skip t in
      Ok (d :: more)
  end.

Definition try_unpack_avchevc (fx : bool) (hevc : bool) (pt clock : Z) (l : list upkt) : res (option unpack_out) :=
  match l with
  | [] => Ok None
  | first :: rest =>
      let pos := up_pos first in
      if pos =? pos_single then
        let* ms := ts_ms fx s_avchevc_divide clock (up_ts first) in
        let* (b, _) := up_body first in
        Ok (Some (mk_uo (up_seq first) rest 1 [mk_av pt ms (be_put 4 (u32 (lenN b)) ++ b)]))
      else if (pos =? pos_stapa) || (pos =? pos_ap) then
        let skip := if pos =? pos_stapa then 1 else 2 in
        let* ms := ts_ms fx s_avchevc_divide clock (up_ts first) in
        let* (b, _) := up_body first in
        let* buf := slice_from s_avchevc_slice b skip in
        if negb (stap_valid (S (length buf)) buf) then Ok None else
        let* pl := stap_copy (S (length buf)) buf in
        Ok (Some (mk_uo (up_seq first) rest 1 [mk_av pt ms pl]))
      else if pos =? pos_fua_start then
        match fua_walk (up_seq first) [] rest with
        | None => Ok None
        | Some (mids, last, rest') =>
            let* ms := ts_ms fx s_avchevc_divide clock (up_ts last) in
            let* (fb, _) := up_body first in
            let* ntype :=
              (if hevc then
                 let* b2 := idx s_avchevc_index fb 2 in
                 let* b0 := idx s_avchevc_index fb 0 in
                 let* b1 := idx s_avchevc_index fb 1 in
                 Ok [N.lor (N.land b0 129) ((b2 mod 64) * 2); b1]
               else
                 let* b0 := idx s_avchevc_index fb 0 in
                 let* b1 := idx s_avchevc_index fb 1 in
                 Ok [N.lor (N.land b0 224) (b1 mod 32)]) in
            let ntl := lenN ntype in
            let pkts := first :: mids ++ [last] in
            let* ds := fua_datas (ntl + 1) pkts in
            let data := concat ds in
            Ok (Some (mk_uo (up_seq last) rest' (Z.of_nat (length pkts))
                            [mk_av pt ms (be_put 4 (u32 (lenN data + ntl)) ++ ntype ++ data)]))
        end
      else Ok None
  end.

(* ---------------------------------------------------------------------- *)
(* container *)
Inductive ukind := UAac | URaw | UAvc | UHevc.
Record unpacker := mk_unp { uk_kind : ukind; uk_pt : Z; uk_clock : Z }.

Definition try_unpack_one (fx : bool) (u : unpacker) (l : list upkt) : res (option unpack_out) :=
  match uk_kind u with
  | UAac => try_unpack_aac fx (uk_pt u) (uk_clock u) l
  | URaw => try_unpack_raw fx (uk_pt u) (uk_clock u) l
  | UAvc => try_unpack_avchevc fx false (uk_pt u) (uk_clock u) l
  | UHevc => try_unpack_avchevc fx true (uk_pt u) (uk_clock u) l
  end.

Definition calc_pos (fx : bool) (u : unpacker) (h : rtp_header) (raw : bytes) : res N :=
  match uk_kind u with
  | UAvc => let* (b, _) := rtp_body raw h in calc_pos_avc fx b
  | UHevc => let* (b, _) := rtp_body raw h in calc_pos_hevc fx b
  | _ => Ok 0
  end.

Record ucont := mk_ucont { uc_list : list upkt; uc_size : Z; uc_done : option N }.
Definition ucont_init : ucont := mk_ucont [] 0 None.

Definition cont_try (fx : bool) (u : unpacker) (c : ucont) : res (bool * ucont * list avpkt) :=
  let* r := try_unpack_one fx u (uc_list c) in
  match r with
  | None => Ok (false, c, [])
  | Some o => Ok (true, mk_ucont (uo_rest o) (uc_size c - uo_removed o) (Some (uo_seq o)), uo_av o)
  end.

Definition first_sequential (c : ucont) : bool :=
  match uc_list c with
  | [] => false
  | f :: _ => match uc_done c with None => true | Some d => (sub_seq (up_seq f) d =? 1)%Z end
  end.

Fixpoint seq_loop (fx : bool) (u : unpacker) (fuel : nat) (c : ucont) (count : N) (acc : list avpkt)
  : res (ucont * N * list avpkt) :=
  match fuel with
  | O => Err err_out_of_fuel
  | S f =>
      if negb (first_sequential c) then Ok (c, count, acc) else
      let* (okc, av) := cont_try fx u c in
      let (ok, c') := okc in
      if ok then seq_loop fx u f c' (count + 1) (acc ++ av) else Ok (c, count, acc)
  end.

Fixpoint ins (p : upkt) (l : list upkt) : list upkt * bool :=
  match l with
  | [] => ([p], true)
  | q :: t =>
      let r := compare_seq (up_seq p) (up_seq q) in
      if (r =? 0)%Z then (l, false)
      else if (r =? 1)%Z then let (t', b) := ins p t in (q :: t', b)
      else (p :: l, true)
  end.

Definition is_stale (c : ucont) (seq : N) : bool :=
  match uc_done c with None => false | Some d => (compare_seq seq d <=? 0)%Z end.

Definition cont_feed (fx : bool) (u : unpacker) (maxsize : Z) (c : ucont) (h : rtp_header) (raw : bytes)
  : res (ucont * list avpkt) :=
  if is_stale c (rh_seq h) then Ok (c, []) else
  let* pos := calc_pos fx u h raw in
  let p := mk_upkt h raw pos in
  let (l, inserted) := ins p (uc_list c) in
  let c := mk_ucont l (uc_size c + (if inserted then 1 else 0)) (uc_done c) in
  let* (cc, av) := seq_loop fx u (S (length l)) c 0 [] in
  let (c, count) := cc in
  if 0 <? count then Ok (c, av) else
  if (maxsize <=? uc_size c)%Z then
    let* (okc, av1) := cont_try fx u c in
    let (ok, c1) := okc in
    if negb ok then
      match uc_list c with
      | [] => Panic s_popfirst_nil
      | _ :: t => Ok (mk_ucont t (uc_size c - 1) (uc_done c), av)
      end
    else
      let* (cc2, av2) := seq_loop fx u (S (length (uc_list c1))) c1 0 [] in
      Ok (fst cc2, av ++ av1 ++ av2)
  else Ok (c, av).
