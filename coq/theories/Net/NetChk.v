(* C13: checked accessors.  Every Go index / slice / make / division on
   attacker-controlled data goes through one of these and yields [Panic site]
   exactly when Go would panic.  Site numbers are named in ocaml/drv_c13.ml
   (panic@<pkg.Func>:<kind>, the format the Go harness prints). *)
From Lal Require Import Common.LBytes Common.Res.
Open Scope N_scope.

(* b[i] *)
Definition idx (site : N) (l : bytes) (i : N) : res N :=
  if i <? lenN l then
    match nth_error l (N.to_nat i) with Some b => Ok b | None => Panic site end
  else Panic site.

(* b[lo:hi]  (len = cap) *)
Definition slice (site : N) (l : bytes) (lo hi : N) : res bytes :=
  if (lo <=? hi) && (hi <=? lenN l) then Ok (firstn (N.to_nat (hi - lo)) (skipn (N.to_nat lo) l))
  else Panic site.

(* b[lo:] *)
Definition slice_from (site : N) (l : bytes) (lo : N) : res bytes :=
  if lo <=? lenN l then Ok (skipn (N.to_nat lo) l) else Panic site.

(* bele.BeUintXX(b[off:]) : the slice expression panics in the caller
   (site_s) when off > len, the read panics inside bele (site_i) when fewer
   than n bytes are left *)
Definition be_at (site_s site_i : N) (n : N) (l : bytes) (off : N) : res N :=
  if lenN l <? off then Panic site_s
  else if lenN l <? off + n then Panic site_i
  else Ok (be_get (firstn (N.to_nat n) (skipn (N.to_nat off) l))).

(* machine arithmetic *)
Definition u32sub (a b : N) : N := (a + 4294967296 - b mod 4294967296) mod 4294967296.
Definition w32 (z : Z) : N := Z.to_N (z mod 4294967296)%Z.          (* uint32(int) *)

(* error enum *)
Definition e_short : N := 1.     (* ErrRtpRtcpShortBuffer / io.ErrUnexpectedEOF *)
Definition e_proto : N := 2.     (* base.ErrRtsp / ErrGb28181 ... *)
Definition e_eof : N := 3.

(* panic sites *)
Definition s_body_slice : N := 1.           (* rtprtcp.RtpPacket.Body:slice *)
Definition s_avcbound_index : N := 2.       (* rtprtcp.IsAvcBoundary:index *)
Definition s_hevcbound_index : N := 3.      (* rtprtcp.IsHevcBoundary:index *)
Definition s_rtcphdr_index : N := 4.        (* rtprtcp.ParseRtcpHeader:index *)
Definition s_be32_index : N := 5.           (* bele.BeUint32:index *)
Definition s_sr_slice : N := 6.             (* rtprtcp.ParseSr:slice *)
Definition s_be16_index : N := 7.           (* bele.BeUint16:index *)
Definition s_handlertcp_index : N := 8.     (* rtsp.BaseInSession.handleRtcpPacket:index *)
Definition s_raw_divide : N := 9.           (* rtprtcp.RtpUnpackerRaw.TryUnpackOne:divide *)
Definition s_parseau_index : N := 10.       (* rtprtcp.parseAu:index *)
Definition s_aac_slice : N := 11.           (* rtprtcp.RtpUnpackerAac.TryUnpackOne:slice *)
Definition s_aac_divide : N := 12.          (* rtprtcp.RtpUnpackerAac.TryUnpackOne:divide *)
Definition s_calcavc_index : N := 13.       (* rtprtcp.calcPositionIfNeededAvc:index *)
Definition s_calchevc_index : N := 14.      (* rtprtcp.calcPositionIfNeededHevc:index *)
Definition s_avchevc_slice : N := 15.       (* rtprtcp.RtpUnpackerAvcHevc.TryUnpackOne:slice *)
Definition s_avchevc_divide : N := 16.      (* rtprtcp.RtpUnpackerAvcHevc.TryUnpackOne:divide *)
Definition s_ws_makeslice : N := 17.        (* base.ReadWsPayload:makeslice *)
Definition s_rtphdr_index : N := 18.        (* rtprtcp.ParseRtpHeader:index   (never) *)
Definition s_popfirst_nil : N := 19.        (* rtprtcp.RtpPacketList.PopFirst:nil  (never) *)
Definition s_avchevc_index : N := 20.       (* rtprtcp.RtpUnpackerAvcHevc.TryUnpackOne:index (never) *)
Definition s_rtphdr_slice : N := 21.        (* rtprtcp.ParseRtpHeader:slice   (never) *)
Definition s_rtcphdr_slice : N := 22.       (* rtprtcp.ParseRtcpHeader:slice  (never) *)

(* make([]byte, n) with n a uint64 converted to int: the runtime panics
   ("makeslice: len out of range") when n exceeds maxAlloc = 2^48 (linux/amd64).
   Between available memory and 2^48 the process dies of "out of memory"
   instead; that range is not distinguished here. *)
Definition max_alloc : N := 281474976710656.
Definition make_chk (site : N) (n : N) : res unit :=
  if max_alloc <? n then Panic site else Ok tt.
Definition s_ilv_makeslice : N := 23.       (* rtsp.readInterleaved:makeslice (never) *)
