(* C13: model of rtprtcp.ParseRtcpHeader / ParseSr / Sr.GetMiddleNtp (rtcp.go),
   RrProducer.FeedRtpPacket / Produce and Rr.Pack (rtcp_rr_producer.go, rtcp_pack.go). *)
From Lal Require Import Common.LBytes Common.Res Net.NetChk.
Open Scope N_scope.

Record rtcp_header := mk_rtcp_header { rc_version : N; rc_padding : N; rc_count : N; rc_pt : N; rc_length : N }.

(* fix: a buffer shorter than the 4-byte header yields the zero header *)
Definition parse_rtcp_header (fx : bool) (b : bytes) : res rtcp_header :=
  if fx && (lenN b <? 4) then Ok (mk_rtcp_header 0 0 0 0 0) else
  let* b0 := idx s_rtcphdr_index b 0 in
  let* b1 := idx s_rtcphdr_index b 1 in
  let* l := be_at s_rtcphdr_slice s_be16_index 2 b 2 in
  Ok (mk_rtcp_header (b0 / 64) ((b0 / 32) mod 2) (b0 mod 32) b1 l).

Record sr := mk_sr { sr_ssrc : N; sr_msw : N; sr_lsw : N; sr_ts : N; sr_pktcnt : N; sr_octcnt : N }.

(* fix: fewer than 28 bytes yields the zero Sr *)
Definition parse_sr (fx : bool) (b : bytes) : res sr :=
  if fx && (lenN b <? 28) then Ok (mk_sr 0 0 0 0 0 0) else
  let rd := be_at s_sr_slice s_be32_index 4 b in
  let* a := rd 4 in let* m := rd 8 in let* l := rd 12 in
  let* t := rd 16 in let* p := rd 20 in let* o := rd 24 in
  Ok (mk_sr a m l t p o).

(* uint32(((uint64(Msw)<<32 | uint64(Lsw)) << 16) >> 32) *)
Definition middle_ntp (s : sr) : N := (sr_msw s mod 65536) * 65536 + sr_lsw s / 65536.

(* ---------------------------------------------------------------------- *)
(* sequence number arithmetic of rtp.go *)
Definition compare_seq (a b : N) : Z :=
  if a =? b then 0%Z
  else if b <? a then (if a - b <? 32768 then 1%Z else (-1)%Z)
  else (if b - a <? 32768 then (-1)%Z else 1%Z).

Definition sub_seq (a b : N) : Z :=
  if a =? b then 0%Z
  else if b <? a then
    let d := a - b in if d <? 16384 then Z.of_N d else (Z.of_N d - 65536)%Z
  else
    let d := b - a in if d <? 16384 then (- Z.of_N d)%Z else (65536 - Z.of_N d)%Z.

(* ---------------------------------------------------------------------- *)
Record rr_producer := mk_rrp {
  rp_max_seq : option N; rp_base_seq : option N;     (* int32, -1 = None *)
  rp_cycles : N; rp_received : N; rp_extended : N;
  rp_expected_prior : N; rp_received_prior : N }.

Definition rrp_init : rr_producer := mk_rrp None None 0 0 0 0 0.

Definition rrp_feed (r : rr_producer) (seq : N) : rr_producer :=
  let received := u32 (rp_received r + 1) in
  let base := match rp_base_seq r with None => Some seq | b => b end in
  let '(maxs, cycles) :=
    match rp_max_seq r with
    | None => (seq, rp_cycles r)
    | Some m =>
        if (0 <? compare_seq seq m)%Z
        then (seq, if seq <? m then u32 (rp_cycles r + 1) else rp_cycles r)
        else (m, rp_cycles r)
    end in
  mk_rrp (Some maxs) base cycles received (N.lor (u32 (cycles * 65536)) maxs)
         (rp_expected_prior r) (rp_received_prior r).

(* Rr.Pack: note BePutUint32(b[18:], extendedSeq) is half overwritten by the jitter at b[20:] *)
Definition rr_pack (fraction lost cycles extended jitter lsr : N) : bytes :=
  [129; 201; 0; 7] ++ [0; 0; 0; 0] ++ [0; 0; 0; 0] ++ [fraction] ++ be_put 3 (lost / 256)
    ++ be_put 2 (cycles mod 65536) ++ be_put 2 (extended / 65536) ++ be_put 4 jitter ++ be_put 4 lsr ++ [0; 0; 0; 0].

Definition rrp_produce (r : rr_producer) (lsr : N) : rr_producer * option bytes :=
  match rp_base_seq r with
  | None => (r, None)
  | Some base =>
      let expected := u32 (u32sub (rp_extended r) base + 1) in
      let lost := if expected <? rp_received r then 0 else expected - rp_received r in
      let expected_interval := u32sub expected (rp_expected_prior r) in
      let received_interval := u32sub (rp_received r) (rp_received_prior r) in
      let lost_interval := u32sub expected_interval received_interval in
      let fraction :=
        if (expected_interval =? 0) || (lost_interval =? 0) then 0
        else u8 (u32 (lost_interval * 256) / expected_interval) in
      (mk_rrp (rp_max_seq r) (rp_base_seq r) (rp_cycles r) (rp_received r) (rp_extended r) expected (rp_received r),
       Some (rr_pack fraction lost (rp_cycles r) (rp_extended r) 0 lsr))
  end.
