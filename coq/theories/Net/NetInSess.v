(* C13: model of rtsp.BaseInSession on interleaved packets
   (pkg/rtsp/base_in_session.go: InitWithSdp, HandleInterleavedPacket,
    handleRtpPacket, handleRtcpPacket) with the timestamp filter off. *)
From Lal Require Import Common.LBytes Common.Res Net.NetChk Net.NetRtpHeader Net.NetRtcp Net.NetAuHeader Net.NetUnpack.
Open Scope N_scope.

Definition unpacker_max_size : Z := 1024.     (* rtsp.unpackerItemMaxSize *)

(* codec tokens of the harness *)
Definition c_none : N := 0.
Definition c_aac : N := 1.
Definition c_aacnoasc : N := 2.
Definition c_pcma : N := 3.
Definition c_pcmu : N := 4.
Definition c_opus : N := 5.
Definition c_h264 : N := 6.
Definition c_h265 : N := 7.
Definition c_foo : N := 8.

Record sess_cfg := mk_cfg {
  sc_apt : Z; sc_vpt : Z;                      (* audio/videoPayloadTypeOrigin *)
  sc_aunp : option unpacker; sc_vunp : option unpacker;
  sc_artp : N; sc_artcp : N; sc_vrtp : N; sc_vrtcp : N }.

(* the clock rate is a Go int: the value strconv.Atoi returned (64 bits, two's complement) *)
Definition int64_of (z : Z) : Z := ((z + 9223372036854775808) mod 18446744073709551616 - 9223372036854775808)%Z.
(* fix: no unpacker for a track whose clock rate makes uint32(clockRate/1000) zero *)
Definition mk_unpacker (fx : bool) (k : ukind) (pt clock : Z) : option unpacker :=
  let clock := int64_of clock in
  if fx && (w32 (Z.quot clock 1000) =? 0) then None else Some (mk_unp k pt clock).

(* sdp.ParseSdp2LogicContext (logic part) + BaseInSession.InitWithSdp + SetupWithChannel *)
Definition sess_cfg_of (fx : bool) (ac : N) (aclock apt : Z) (vc : N) (vclock vpt : Z) : sess_cfg :=
  let '(aorigin, aunp) :=
    (* no audio section: the zero LogicContext says payload type 0 = G711U, clock rate 0 *)
    if ac =? c_none then (0%Z, mk_unpacker fx URaw 0 0)
    else if ac =? c_aac then (apt, mk_unpacker fx UAac 97 aclock)
    else if ac =? c_aacnoasc then (apt, None)
    else if ac =? c_pcma then (apt, mk_unpacker fx URaw 8 aclock)
    else if ac =? c_pcmu then (apt, mk_unpacker fx URaw 0 aclock)
    else if ac =? c_opus then (apt, mk_unpacker fx URaw 101 aclock)
    else (* unknown encoding name: m= payload type decides *)
      let clk := if (aclock =? 0)%Z then 8000%Z else aclock in
      if (apt =? 0)%Z then (0%Z, mk_unpacker fx URaw 0 clk)
      else if (apt =? 8)%Z then (8%Z, mk_unpacker fx URaw 8 clk)
      else if (apt =? 14)%Z then (14%Z, None)
      else (apt, None) in
  let '(vorigin, vunp) :=
    if vc =? c_none then (0%Z, None)
    else if vc =? c_h264 then (vpt, mk_unpacker fx UAvc 96 vclock)
    else if vc =? c_h265 then (vpt, mk_unpacker fx UHevc 98 vclock)
    else (vpt, None) in
  mk_cfg aorigin vorigin aunp vunp 0 (if ac =? c_none then 0 else 1)
         (if vc =? c_none then 0 else 2) (if vc =? c_none then 0 else 3).

Record sess := mk_sess {
  ss_assrc : N; ss_vssrc : N; ss_arr : rr_producer; ss_vrr : rr_producer; ss_acont : ucont; ss_vcont : ucont }.
Definition sess_init : sess := mk_sess 0 0 rrp_init rrp_init ucont_init ucont_init.

Inductive ev := EvRtp (seq : N) | EvAv (a : avpkt) | EvRr (ch : N) (b : bytes) | EvSep.

Definition feed_opt (fx : bool) (u : option unpacker) (c : ucont) (h : rtp_header) (raw : bytes) : res (ucont * list avpkt) :=
  match u with None => Ok (c, []) | Some u => cont_feed fx u unpacker_max_size c h raw end.

Definition handle_rtp (fx : bool) (cfg : sess_cfg) (s : sess) (b : bytes) : res (sess * list ev) :=
  if lenN b <? 12 then Ok (s, []) else
  let* b1 := idx s_rtphdr_index b 1 in
  let pt := Z.of_N (b1 mod 128) in
  if negb ((sc_apt cfg =? pt)%Z || (sc_vpt cfg =? pt)%Z) then Ok (s, []) else
  match parse_rtp_header fx b with
  | Panic st => Panic st
  | Err _ => Ok (s, [])
  | Ok h =>
      if (sc_apt cfg =? pt)%Z then
        let* (c, avs) := feed_opt fx (sc_aunp cfg) (ss_acont s) h b in
        Ok (mk_sess (rh_ssrc h) (ss_vssrc s) (rrp_feed (ss_arr s) (rh_seq h)) (ss_vrr s) c (ss_vcont s),
            EvRtp (rh_seq h) :: map EvAv avs)
      else
        let* (c, avs) := feed_opt fx (sc_vunp cfg) (ss_vcont s) h b in
        Ok (mk_sess (ss_assrc s) (rh_ssrc h) (ss_arr s) (rrp_feed (ss_vrr s) (rh_seq h)) (ss_acont s) c,
            EvRtp (rh_seq h) :: map EvAv avs)
  end.

Definition handle_rtcp (fx : bool) (cfg : sess_cfg) (s : sess) (b : bytes) : res (sess * list ev) :=
  (* fix: shorter than the RTCP header (was: empty) *)
  if (if fx then lenN b <? 4 else lenN b <=? 0) then Ok (s, []) else
  let* pt := idx s_handlertcp_index b 1 in
  if pt =? 200 then
    if fx && (lenN b <? 28) then Ok (s, []) else
    let* r := parse_sr fx b in
    if sr_ssrc r =? ss_assrc s then
      let (p, out) := rrp_produce (ss_arr s) (middle_ntp r) in
      Ok (mk_sess (ss_assrc s) (ss_vssrc s) p (ss_vrr s) (ss_acont s) (ss_vcont s),
          match out with Some rr => [EvRr (sc_artcp cfg) rr] | None => [] end)
    else if sr_ssrc r =? ss_vssrc s then
      let (p, out) := rrp_produce (ss_vrr s) (middle_ntp r) in
      Ok (mk_sess (ss_assrc s) (ss_vssrc s) (ss_arr s) p (ss_acont s) (ss_vcont s),
          match out with Some rr => [EvRr (sc_vrtcp cfg) rr] | None => [] end)
    else Ok (s, [])
  else Ok (s, []).

Definition handle_interleaved (fx : bool) (cfg : sess_cfg) (s : sess) (ch : N) (b : bytes) : res (sess * list ev) :=
  if (ch =? sc_artp cfg) || (ch =? sc_vrtp cfg) then handle_rtp fx cfg s b
  else if (ch =? sc_artcp cfg) || (ch =? sc_vrtcp cfg) then handle_rtcp fx cfg s b
  else Ok (s, []).

Fixpoint run_sess (fx : bool) (cfg : sess_cfg) (s : sess) (pkts : list (N * bytes)) : res (list ev) :=
  match pkts with
  | [] => Ok []
  | (ch, b) :: t =>
      let* (s', evs) := handle_interleaved fx cfg s ch b in
      let* more := run_sess fx cfg s' t in
      Ok (evs ++ EvSep :: more)
  end.

Definition run_insess (fx : bool) (ac : N) (aclock apt : Z) (vc : N) (vclock vpt : Z) (pkts : list (N * bytes)) : res (list ev) :=
  run_sess fx (sess_cfg_of fx ac aclock apt vc vclock vpt) sess_init pkts.
