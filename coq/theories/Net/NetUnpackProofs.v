(* C13: the RTP unpackers and the unpack container never panic on any packet
   sequence (fixed tree); invariant: every queued packet was accepted by
   ParseRtpHeader and its position type is consistent with its body length. *)
From Coq Require Import Lia ZifyN ZifyNat ZifyBool.
From Lal Require Import Common.LBytes Common.Res Net.NetChk Net.NetChkProofs Net.NetRtpHeader Net.NetRtpHeaderProofs
  Net.NetRtcp Net.NetAuHeader Net.NetAuHeaderProofs Net.NetUnpack.
Open Scope N_scope.
Ltac Zify.zify_post_hook ::= Z.div_mod_to_equations.

Definition pkt_wf (p : upkt) : Prop := hdr_ok (up_raw p) (up_hdr p) /\ rh_padding (up_hdr p) <= 1.

Lemma pkt_wf_body p : pkt_wf p -> exists b t, up_body p = Ok (b, t) /\ 1 <= lenN b.
Proof. intros [H1 H2]. destruct (rtp_body_ok _ _ H1 H2) as (b & t & E & Hl & _). eauto. Qed.

(* position type consistent with the body length *)
Definition pos_ok (hevc : bool) (p : upkt) : Prop :=
  forall b t, up_body p = Ok (b, t) ->
    ((up_pos p = pos_fua_start \/ up_pos p = pos_fua_middle \/ up_pos p = pos_fua_end) -> (if hevc then 3 else 2) <= lenN b) /\
    (up_pos p = pos_ap -> 2 <= lenN b).

Definition pkt_ok (k : ukind) (p : upkt) : Prop :=
  pkt_wf p /\ match k with UAvc => pos_ok false p | UHevc => pos_ok true p | _ => True end.

(* the clock rate passed InitWithSdp's guard and is a Go int *)
Definition clock_ok (clock : Z) : Prop :=
  w32 (Z.quot clock 1000) <> 0 /\ (-9223372036854775808 <= clock < 9223372036854775808)%Z.
Definition unp_ok (u : unpacker) : Prop := clock_ok (uk_clock u).

Lemma clock_nonzero clock : clock_ok clock -> clock <> 0%Z.
Proof. intros [H _] ->. apply H. reflexivity. Qed.

Lemma ts_ms_ok site clock ts : clock_ok clock -> exists z, ts_ms true site clock ts = Ok z.
Proof.
  intros H. pose proof (clock_nonzero clock H) as Hz. destruct H as [_ Hr]. unfold ts_ms, w64.
  destruct (Z.to_N (clock mod 18446744073709551616) =? 0) eqn:E; [|eauto].
  apply N.eqb_eq in E. exfalso. lia.
Qed.

(* TryUnpackOne returned true: the remaining list is a proper suffix *)
Definition unpack_good (l : list upkt) (r : res (option unpack_out)) : Prop :=
  match r with
  | Ok None => True
  | Ok (Some o) => exists pre, l = pre ++ uo_rest o /\ pre <> []
  | _ => False
  end.

(* ---------------------------------------------------------------------- *)
Lemma try_unpack_raw_good pt clock l :
  clock_ok clock -> Forall pkt_wf l -> unpack_good l (try_unpack_raw true pt clock l).
Proof.
  intros Hc Hl. destruct l as [|p rest]; cbn [try_unpack_raw]; [exact I|].
  inversion_clear Hl as [|? ? Hp Hr]. destruct (pkt_wf_body p Hp) as (b & t & -> & _). cbn [bind].
  destruct (ts_ms_ok s_raw_divide clock (up_ts p) Hc) as [z ->]. cbn [bind unpack_good uo_rest].
  exists [p]. split; [reflexivity|discriminate].
Qed.

(* ---------------------------------------------------------------------- *)
Lemma slice_cap_ok site b tail lo hi : lo <= hi -> hi <= lenN b -> exists s, slice_cap site b tail lo hi = Ok s.
Proof.
  intros H1 H2. unfold slice_cap.
  assert ((lo <=? hi) && (hi <=? lenN b + lenN tail) = true) as ->; [|eauto].
  apply andb_true_iff. split; apply N.leb_le; lia.
Qed.

Lemma aac_multi_ok clock pt ts b tail : clock_ok clock ->
  forall aus i, Forall (fun a => au_pos a + au_size a <= lenN b) aus ->
  exists avs, aac_multi true clock pt ts b tail i aus = Ok avs.
Proof.
  intros Hc. induction aus as [|a t IH]; intros i Hall; cbn [aac_multi]; [eauto|].
  inversion_clear Hall as [|? ? Ha Ht].
  destruct (ts_ms_ok s_aac_divide clock ts Hc) as [z ->]. cbn [bind].
  pose proof (clock_nonzero clock Hc) as Hz. apply Z.eqb_neq in Hz. rewrite Hz.
  destruct (slice_cap_ok s_aac_slice b tail (au_pos a) (au_pos a + au_size a)) as [s ->]; [lia|lia|]. cbn [bind].
  destruct (IH (i + 1)%Z Ht) as [avs ->]. cbn [bind]. eauto.
Qed.

Lemma aac_frag_good clock pt total timestamp : clock_ok clock ->
  forall l seq cache acc count, Forall pkt_wf l ->
  match aac_frag true clock pt total timestamp seq cache acc count l with
  | Ok None => True
  | Ok (Some o) => exists pre, l = pre ++ uo_rest o
  | _ => False
  end.
Proof.
  intros Hc. induction l as [|q rest IH]; intros seq cache acc count Hl; cbn [aac_frag]; [exact I|].
  inversion_clear Hl as [|? ? Hq Hr].
  destruct (negb (sub_seq (up_seq q) seq =? 1)%Z); [exact I|].
  destruct (negb (up_ts q =? timestamp)); [exact I|].
  destruct (pkt_wf_body q Hq) as (b & t & -> & _). cbn [bind].
  destruct (parse_au_spec b) as (aus & -> & H1 & _). cbn [bind].
  destruct aus as [|a [|a2 more]]; try exact I.
  destruct (negb (au_size a =? total)); [exact I|].
  rewrite slice_from_ok by (apply H1; reflexivity). cbn [bind].
  set (rem := skipn (N.to_nat (au_pos a)) b).
  destruct (u32 (cache + lenN rem) <? total).
  - match goal with |- match ?X with _ => _ end =>
      assert (HX : match X with Ok None => True | Ok (Some o) => exists pre, rest = pre ++ uo_rest o | _ => False end)
        by (apply IH; exact Hr);
      destruct X as [[o|]| |]; auto end.
    destruct HX as [pre ->]. exists (q :: pre). reflexivity.
  - destruct (u32 (cache + lenN rem) =? total); [|exact I].
    destruct (ts_ms_ok s_aac_divide clock (up_ts q) Hc) as [z ->]. cbn [bind uo_rest].
    exists [q]. reflexivity.
Qed.

Lemma try_unpack_aac_good pt clock l :
  clock_ok clock -> Forall pkt_wf l -> unpack_good l (try_unpack_aac true pt clock l).
Proof.
  intros Hc Hl. destruct l as [|p rest]; cbn [try_unpack_aac]; [exact I|].
  inversion_clear Hl as [|? ? Hp Hr]. destruct (pkt_wf_body p Hp) as (b & t & -> & _). cbn [bind].
  destruct (parse_au_spec b) as (aus & -> & H1 & H2). cbn [bind].
  destruct aus as [|a [|a2 more]].
  - cbn [aac_multi bind unpack_good uo_rest]. exists [p]. split; [reflexivity|discriminate].
  - pose proof (H1 a eq_refl) as Hpos.
    rewrite slice_from_ok by exact Hpos. cbn [bind].
    set (rem := skipn (N.to_nat (au_pos a)) b).
    assert (Hrem : lenN rem = lenN b - au_pos a) by (subst rem; rewrite lenN_skipn; lia).
    destruct (au_size a <=? lenN rem) eqn:Es.
    + apply N.leb_le in Es.
      destruct (ts_ms_ok s_aac_divide clock (up_ts p) Hc) as [z ->]. cbn [bind].
      destruct (slice_cap_ok s_aac_slice b t (au_pos a) (au_pos a + au_size a)) as [s ->]; [lia|lia|].
      cbn [bind unpack_good uo_rest]. exists [p]. split; [reflexivity|discriminate].
    + match goal with |- unpack_good _ ?X =>
        assert (HX : match X with Ok None => True | Ok (Some o) => exists pre, rest = pre ++ uo_rest o | _ => False end)
          by (apply aac_frag_good; assumption);
        destruct X as [[o|]| |]; auto end.
      destruct HX as [pre ->]. cbn [unpack_good]. exists (p :: pre). split; [reflexivity|discriminate].
  - destruct (aac_multi_ok clock pt (up_ts p) b t Hc (a :: a2 :: more) 0%Z) as [avs ->]; [apply H2; cbn; lia|].
    cbn [bind unpack_good uo_rest]. exists [p]. split; [reflexivity|discriminate].
Qed.

(* ---------------------------------------------------------------------- *)
(* AVC / HEVC *)
Lemma be_at_cons2 ss si x y t : be_at ss si 2 (x :: y :: t) 0 = Ok (x * 256 + y).
Proof.
  unfold be_at. rewrite !lenN_cons.
  assert (lenN t + 1 + 1 <? 0 = false) as -> by (apply N.ltb_ge; lia).
  assert (lenN t + 1 + 1 <? 0 + 2 = false) as -> by (apply N.ltb_ge; lia).
  cbn. f_equal.
Qed.

Lemma stap_copy_ok fuel : forall buf, stap_valid fuel buf = true -> exists r, stap_copy fuel buf = Ok r.
Proof.
  induction fuel as [|f IH]; intros buf Hv.
  - destruct buf; [cbn; eauto|discriminate].
  - destruct buf as [|x [|y t]]; [cbn; eauto|discriminate|].
    cbn [stap_valid] in Hv. cbn [stap_copy].
    destruct (x * 256 + y <=? lenN t) eqn:En; [|discriminate]. apply N.leb_le in En.
    rewrite be_at_cons2. cbn [bind].
    set (n := x * 256 + y) in *.
    assert (Hlen : lenN (x :: y :: t) = lenN t + 2) by (rewrite !lenN_cons; lia).
    rewrite slice_ok by lia. cbn [bind].
    rewrite slice_from_ok by lia. cbn [bind].
    replace (N.to_nat (2 + n)) with (S (S (N.to_nat n))) by lia. cbn [skipn].
    destruct (IH _ Hv) as [r ->]. cbn [bind]. eauto.
Qed.

Lemma fua_walk_spec : forall l prev acc m last r, fua_walk prev acc l = Some (m, last, r) ->
  exists m', m = rev acc ++ m' /\ l = m' ++ last :: r /\
    Forall (fun p => up_pos p = pos_fua_middle) m' /\ up_pos last = pos_fua_end.
Proof.
  induction l as [|p rest IH]; intros prev acc m last r; cbn [fua_walk]; [discriminate|].
  destruct (negb (sub_seq (up_seq p) prev =? 1)%Z); [discriminate|].
  destruct (up_pos p =? pos_fua_middle) eqn:Em.
  - intros H. apply IH in H as (m' & -> & -> & Hall & Hlast). apply N.eqb_eq in Em.
    exists (p :: m'). cbn [rev]. rewrite <- app_assoc. repeat split; auto.
  - destruct (up_pos p =? pos_fua_end) eqn:Ee; [|discriminate]. intros [= <- <- <-]. apply N.eqb_eq in Ee.
    exists []. rewrite app_nil_r. repeat split; auto.
Qed.

Lemma fua_datas_ok skip l :
  Forall (fun p => exists b t, up_body p = Ok (b, t) /\ skip <= lenN b) l -> exists ds, fua_datas skip l = Ok ds.
Proof.
  induction l as [|p t IH]; intros Hall; cbn [fua_datas]; [eauto|].
  inversion Hall as [|x l' (b & tl & Hb & Hs) Ht]; subst. rewrite Hb. cbn [bind].
  rewrite slice_from_ok by exact Hs. cbn [bind].
  destruct (IH Ht) as [ds ->]. cbn [bind]. eauto.
Qed.

Definition vpkt_ok (hevc : bool) (p : upkt) : Prop := pkt_wf p /\ pos_ok hevc p.

Lemma try_unpack_avchevc_good hevc pt clock l :
  clock_ok clock -> Forall (vpkt_ok hevc) l -> unpack_good l (try_unpack_avchevc true hevc pt clock l).
Proof.
  intros Hc Hl. destruct l as [|first rest]; cbn [try_unpack_avchevc]; [exact I|].
  inversion_clear Hl as [|? ? [Hwf Hpos] Hr].
  destruct (pkt_wf_body first Hwf) as (b & t & Hb & Hb1).
  destruct (up_pos first =? pos_single) eqn:E1.
  { destruct (ts_ms_ok s_avchevc_divide clock (up_ts first) Hc) as [z ->]. cbn [bind]. rewrite Hb. cbn [bind unpack_good uo_rest].
    exists [first]. split; [reflexivity|discriminate]. }
  destruct ((up_pos first =? pos_stapa) || (up_pos first =? pos_ap)) eqn:E2.
  { destruct (ts_ms_ok s_avchevc_divide clock (up_ts first) Hc) as [z ->]. cbn [bind]. rewrite Hb. cbn [bind].
    assert (Hskip : (if up_pos first =? pos_stapa then 1 else 2) <= lenN b).
    { destruct (up_pos first =? pos_stapa) eqn:E5; [lia|]. cbn [orb] in E2. apply N.eqb_eq in E2.
      destruct (Hpos b t Hb) as [_ H6]. apply H6. exact E2. }
    rewrite slice_from_ok by exact Hskip. cbn [bind].
    set (buf := skipn _ b).
    destruct (stap_valid (S (length buf)) buf) eqn:Ev; cbn [negb]; [|exact I].
    destruct (stap_copy_ok _ _ Ev) as [r ->]. cbn [bind unpack_good uo_rest].
    exists [first]. split; [reflexivity|discriminate]. }
  destruct (up_pos first =? pos_fua_start) eqn:E3; [|exact I]. apply N.eqb_eq in E3.
  destruct (fua_walk (up_seq first) [] rest) as [[[mids last] rest']|] eqn:Ew; [|exact I].
  apply fua_walk_spec in Ew as (m' & -> & -> & Hmid & Hlast). cbn [rev app].
  destruct (ts_ms_ok s_avchevc_divide clock (up_ts last) Hc) as [z ->]. cbn [bind]. rewrite Hb. cbn [bind].
  assert (Hthr : (if hevc then 3 else 2) <= lenN b) by (apply (Hpos b t Hb); left; exact E3).
  set (ntype := if hevc then _ else _).
  assert (Hnt : exists nt, ntype = Ok nt /\ lenN nt + 1 = (if hevc then 3 else 2)).
  { subst ntype. destruct hevc.
    - destruct (idx_ok s_avchevc_index b 2) as [v2 ->]; [lia|]. cbn [bind].
      destruct (idx_ok s_avchevc_index b 0) as [v0 ->]; [lia|]. cbn [bind].
      destruct (idx_ok s_avchevc_index b 1) as [v1 ->]; [lia|]. cbn [bind]. eexists. split; reflexivity.
    - destruct (idx_ok s_avchevc_index b 0) as [v0 ->]; [lia|]. cbn [bind].
      destruct (idx_ok s_avchevc_index b 1) as [v1 ->]; [lia|]. cbn [bind]. eexists. split; reflexivity. }
  destruct Hnt as (nt & -> & Hntl). cbn [bind].
  destruct (fua_datas_ok (lenN nt + 1) (first :: m' ++ [last])) as [ds ->].
  { rewrite Hntl. constructor.
    - exists b, t. split; [exact Hb|exact Hthr].
    - apply Forall_app in Hr as [Hm Hr]. inversion_clear Hr as [|? ? Hlast' Hr'].
      apply Forall_app. split.
      + rewrite Forall_forall in *. intros p Hin. destruct (Hm p Hin) as [Hw Hp].
        destruct (pkt_wf_body p Hw) as (pb & pt' & Hpb & _). exists pb, pt'. split; [exact Hpb|].
        apply (Hp pb pt' Hpb). right; left. apply Hmid. exact Hin.
      + constructor; [|constructor]. destruct Hlast' as [Hw Hp].
        destruct (pkt_wf_body last Hw) as (pb & pt' & Hpb & _). exists pb, pt'. split; [exact Hpb|].
        apply (Hp pb pt' Hpb). right; right. exact Hlast. }
  cbn [bind unpack_good uo_rest].
  exists (first :: m' ++ [last]). split; [|discriminate].
  cbn [app]. rewrite <- app_assoc. reflexivity.
Qed.

(* ---------------------------------------------------------------------- *)
(* container *)
Definition cont_inv (u : unpacker) (c : ucont) : Prop := Forall (pkt_ok (uk_kind u)) (uc_list c).

Lemma try_unpack_one_good u l : unp_ok u -> Forall (pkt_ok (uk_kind u)) l -> unpack_good l (try_unpack_one true u l).
Proof.
  intros Hu Hl. unfold try_unpack_one. unfold unp_ok in Hu. destruct (uk_kind u).
  - apply try_unpack_aac_good; [exact Hu|]. eapply Forall_impl; [|exact Hl]. intros p [H _]; exact H.
  - apply try_unpack_raw_good; [exact Hu|]. eapply Forall_impl; [|exact Hl]. intros p [H _]; exact H.
  - apply try_unpack_avchevc_good; [exact Hu|exact Hl].
  - apply try_unpack_avchevc_good; [exact Hu|exact Hl].
Qed.

Lemma cont_try_spec u c : unp_ok u -> cont_inv u c ->
  exists ok c' av, cont_try true u c = Ok (ok, c', av) /\ cont_inv u c' /\
    (ok = true -> (length (uc_list c') < length (uc_list c))%nat) /\ (ok = false -> c' = c).
Proof.
  intros Hu Hc. unfold cont_try. pose proof (try_unpack_one_good u (uc_list c) Hu Hc) as Hg.
  destruct (try_unpack_one true u (uc_list c)) as [[o|]| |]; cbn [unpack_good] in Hg; try contradiction; cbn [bind].
  - destruct Hg as (pre & Hpre & Hne). exists true, (mk_ucont (uo_rest o) (uc_size c - uo_removed o) (Some (uo_seq o))), (uo_av o).
    split; [reflexivity|]. unfold cont_inv in *. cbn [uc_list]. rewrite Hpre in Hc |- *. split.
    + apply Forall_app in Hc. tauto.
    + split; [|discriminate]. intros _. rewrite app_length. destruct pre; [contradiction|cbn; lia].
  - exists false, c, []. repeat split; auto. discriminate.
Qed.

Lemma seq_loop_spec u : unp_ok u -> forall fuel c count acc, cont_inv u c -> (length (uc_list c) < fuel)%nat ->
  exists c' count' acc', seq_loop true u fuel c count acc = Ok (c', count', acc') /\ cont_inv u c' /\
    count <= count' /\ (count' = count -> c' = c) /\ (length (uc_list c') <= length (uc_list c))%nat.
Proof.
  intros Hu. induction fuel as [|f IH]; intros c count acc Hc Hf; [lia|]. cbn [seq_loop].
  destruct (negb (first_sequential c)).
  { exists c, count, acc. repeat split; auto; lia. }
  destruct (cont_try_spec u c Hu Hc) as (ok & c1 & av & -> & Hc1 & Hlt & Heq). cbn [bind].
  destruct ok.
  - specialize (Hlt eq_refl).
    destruct (IH c1 (count + 1) (acc ++ av) Hc1) as (c' & count' & acc' & -> & Hc' & Hle & _ & Hlen); [lia|].
    exists c', count', acc'. repeat split; auto; try lia.
  - exists c, count, acc. repeat split; auto; lia.
Qed.

Lemma ins_spec (P : upkt -> Prop) p : P p -> forall l, Forall P l ->
  Forall P (fst (ins p l)) /\ fst (ins p l) <> [] /\ (length (fst (ins p l)) <= S (length l))%nat.
Proof.
  intros Hp. induction l as [|q t IH]; intros Hl; cbn [ins].
  - cbn [fst length]. split; [auto|]. split; [discriminate|lia].
  - inversion_clear Hl as [|? ? Hq Ht].
    destruct (compare_seq (up_seq p) (up_seq q) =? 0)%Z.
    + cbn [fst length]. split; [auto|]. split; [discriminate|lia].
    + destruct (compare_seq (up_seq p) (up_seq q) =? 1)%Z.
      * destruct (IH Ht) as (H1 & H2 & H3). destruct (ins p t) as [t' b]. cbn [fst length] in *.
        split; [auto|]. split; [discriminate|lia].
      * cbn [fst length]. split; [auto|]. split; [discriminate|lia].
Qed.

Lemma calc_pos_avc_spec b : exists pos, calc_pos_avc true b = Ok pos /\
  ((pos = pos_fua_start \/ pos = pos_fua_middle \/ pos = pos_fua_end) -> 2 <= lenN b) /\ pos <> pos_ap.
Proof.
  unfold calc_pos_avc, pos_fua_start, pos_fua_middle, pos_fua_end, pos_ap, pos_single, pos_stapa. cbn [andb].
  destruct (lenN b <? 1) eqn:E1. { exists 0. repeat split; try lia. }
  apply N.ltb_ge in E1. destruct (idx_ok s_calcavc_index b 0) as [b0 ->]; [lia|]. cbn [bind].
  destruct (b0 mod 32 <=? 23). { exists 1. repeat split; try lia. }
  destruct (b0 mod 32 =? 28).
  - destruct (lenN b <? 2) eqn:E2. { exists 0. repeat split; try lia. }
    apply N.ltb_ge in E2. destruct (idx_ok s_calcavc_index b 1) as [b1 ->]; [lia|]. cbn [bind].
    destruct (128 <=? b1); [exists 2; repeat split; lia|].
    destruct (64 <=? b1 mod 128); [exists 4|exists 3]; repeat split; lia.
  - destruct (b0 mod 32 =? 24); [exists 5|exists 0]; repeat split; lia.
Qed.

Lemma calc_pos_hevc_spec b : exists pos, calc_pos_hevc true b = Ok pos /\
  ((pos = pos_fua_start \/ pos = pos_fua_middle \/ pos = pos_fua_end) -> 3 <= lenN b) /\ (pos = pos_ap -> 2 <= lenN b).
Proof.
  unfold calc_pos_hevc, pos_fua_start, pos_fua_middle, pos_fua_end, pos_ap, pos_single, pos_stapa. cbn [andb].
  destruct (lenN b <? 1) eqn:E1. { exists 0. repeat split; try lia. }
  apply N.ltb_ge in E1. destruct (idx_ok s_calchevc_index b 0) as [b0 ->]; [lia|]. cbn [bind].
  destruct (hevc_single_type true (b0 mod 128 / 2)). { exists 1. repeat split; try lia. }
  destruct (b0 mod 128 / 2 =? 49).
  - destruct (lenN b <? 3) eqn:E3. { exists 0. repeat split; try lia. }
    apply N.ltb_ge in E3. destruct (idx_ok s_calchevc_index b 2) as [b2 ->]; [lia|]. cbn [bind].
    destruct (128 <=? b2); [exists 2; repeat split; lia|].
    destruct (64 <=? b2 mod 128); [exists 4|exists 3]; repeat split; lia.
  - destruct (b0 mod 128 / 2 =? 48); [|exists 0; repeat split; lia].
    destruct (lenN b <? 2) eqn:E2; [exists 0; repeat split; lia|]. apply N.ltb_ge in E2. exists 6. repeat split; lia.
Qed.

Lemma calc_pos_spec u h raw : hdr_ok raw h -> rh_padding h <= 1 ->
  exists pos, calc_pos true u h raw = Ok pos /\ pkt_ok (uk_kind u) (mk_upkt h raw pos).
Proof.
  intros Hh Hp. unfold calc_pos, pkt_ok, pkt_wf. cbn [up_raw up_hdr].
  destruct (rtp_body_ok raw h Hh Hp) as (b & t & Hb & _).
  destruct (uk_kind u).
  - exists 0. split; [reflexivity|]. split; [split; assumption|exact I].
  - exists 0. split; [reflexivity|]. split; [split; assumption|exact I].
  - rewrite Hb. cbn [bind]. destruct (calc_pos_avc_spec b) as (pos & -> & H1 & H2). exists pos.
    split; [reflexivity|]. split; [split; assumption|].
    intros b' t' H. unfold up_body in H; cbn [up_raw up_hdr up_pos] in *. rewrite Hb in H. injection H as <- <-.
    split; [exact H1|]. intros H6. contradiction.
  - rewrite Hb. cbn [bind]. destruct (calc_pos_hevc_spec b) as (pos & -> & H1 & H2). exists pos.
    split; [reflexivity|]. split; [split; assumption|].
    intros b' t' H. unfold up_body in H; cbn [up_raw up_hdr up_pos] in *. rewrite Hb in H. injection H as <- <-.
    split; [exact H1|exact H2].
Qed.

Theorem cont_feed_spec u maxsize c h raw : unp_ok u -> cont_inv u c -> hdr_ok raw h -> rh_padding h <= 1 ->
  exists c' av, cont_feed true u maxsize c h raw = Ok (c', av) /\ cont_inv u c'.
Proof.
  intros Hu Hc Hh Hp. unfold cont_feed.
  destruct (is_stale c (rh_seq h)). { exists c, []. split; auto. }
  destruct (calc_pos_spec u h raw Hh Hp) as (pos & -> & Hok). cbn [bind].
  destruct (ins_spec (pkt_ok (uk_kind u)) (mk_upkt h raw pos) Hok (uc_list c) Hc) as (Hins & Hne & Hlen).
  destruct (ins (mk_upkt h raw pos) (uc_list c)) as [l inserted]. cbn [fst] in *.
  set (c0 := mk_ucont l (uc_size c + (if inserted then 1 else 0)) (uc_done c)).
  assert (Hc0 : cont_inv u c0) by exact Hins.
  destruct (seq_loop_spec u Hu (S (length l)) c0 0 [] Hc0) as (c1 & count & av & -> & Hc1 & _ & Hsame & _); [cbn; lia|].
  cbn [bind].
  destruct (0 <? count) eqn:Ecnt. { exists c1, av. split; auto. }
  apply N.ltb_ge in Ecnt. assert (count = 0) by lia. subst count. specialize (Hsame eq_refl). subst c1.
  destruct (maxsize <=? uc_size c0)%Z; [|exists c0, av; split; auto].
  destruct (cont_try_spec u c0 Hu Hc0) as (ok & c2 & av1 & -> & Hc2 & _ & _). cbn [bind].
  destruct ok; cbn [negb].
  - destruct (seq_loop_spec u Hu (S (length (uc_list c2))) c2 0 [] Hc2) as (c3 & cnt3 & av3 & -> & Hc3 & _); [lia|].
    cbn [bind fst]. eexists _, _. split; [reflexivity|exact Hc3].
  - subst c0. cbn [uc_list]. destruct l as [|x t]; [contradiction|].
    eexists _, _. split; [reflexivity|]. unfold cont_inv in *. cbn [uc_list] in *. inversion Hc0; assumption.
Qed.
