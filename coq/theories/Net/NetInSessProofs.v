(* C13: rtsp.BaseInSession on any sequence of interleaved RTP / RTCP packets,
   for any SDP-derived configuration (codec, clock rate, payload type): every
   step returns, nothing panics, no loop runs out of fuel. *)
From Coq Require Import Lia ZifyN ZifyNat ZifyBool.
From Lal Require Import Common.LBytes Common.Res Net.NetChk Net.NetChkProofs Net.NetRtpHeader Net.NetRtpHeaderProofs
  Net.NetRtcp Net.NetFramingProofs Net.NetAuHeader Net.NetUnpack Net.NetUnpackProofs Net.NetInSess.
Open Scope N_scope.
Ltac Zify.zify_post_hook ::= Z.div_mod_to_equations.

Lemma mk_unpacker_ok k pt clock u : mk_unpacker true k pt clock = Some u -> unp_ok u.
Proof.
  unfold mk_unpacker, unp_ok, clock_ok. cbn [andb]. destruct (w32 (Z.quot (int64_of clock) 1000) =? 0) eqn:E; [discriminate|].
  intros [= <-]. cbn [uk_clock]. split; [now apply N.eqb_neq|]. unfold int64_of. lia.
Qed.

Definition cfg_ok (cfg : sess_cfg) : Prop :=
  (forall u, sc_aunp cfg = Some u -> unp_ok u) /\ (forall u, sc_vunp cfg = Some u -> unp_ok u).

Lemma sess_cfg_of_ok ac aclock apt vc vclock vpt : cfg_ok (sess_cfg_of true ac aclock apt vc vclock vpt).
Proof.
  unfold sess_cfg_of, cfg_ok.
  repeat match goal with |- context [if ?c then _ else _] =>
    lazymatch c with
    | (_ =? _) => destruct c
    | (_ =? _)%Z => destruct c
    end end;
  cbn [sc_aunp sc_vunp]; split; intros u H; try discriminate; eapply mk_unpacker_ok; exact H.
Qed.

Definition sess_inv (cfg : sess_cfg) (s : sess) : Prop :=
  (forall u, sc_aunp cfg = Some u -> cont_inv u (ss_acont s)) /\
  (forall u, sc_vunp cfg = Some u -> cont_inv u (ss_vcont s)).

Lemma sess_init_inv cfg : sess_inv cfg sess_init.
Proof. split; intros u _; constructor. Qed.

Lemma feed_opt_spec uo c h raw :
  (forall u, uo = Some u -> unp_ok u) -> (forall u, uo = Some u -> cont_inv u c) -> hdr_ok raw h -> rh_padding h <= 1 ->
  exists c' av, feed_opt true uo c h raw = Ok (c', av) /\ (forall u, uo = Some u -> cont_inv u c').
Proof.
  intros Hu Hc Hh Hp. unfold feed_opt. destruct uo as [u|].
  - destruct (cont_feed_spec u unpacker_max_size c h raw (Hu u eq_refl) (Hc u eq_refl) Hh Hp) as (c' & av & -> & Hc').
    exists c', av. split; [reflexivity|]. intros u' [= <-]. exact Hc'.
  - exists c, []. split; [reflexivity|]. discriminate.
Qed.

Lemma handle_rtp_spec cfg s b : cfg_ok cfg -> sess_inv cfg s ->
  exists s' evs, handle_rtp true cfg s b = Ok (s', evs) /\ sess_inv cfg s'.
Proof.
  intros [Hua Huv] [Hia Hiv]. unfold handle_rtp.
  destruct (lenN b <? 12) eqn:E12. { exists s, []. split; [reflexivity|split; assumption]. }
  apply N.ltb_ge in E12. destruct (idx_ok s_rtphdr_index b 1) as [b1 ->]; [lia|]. cbn [bind].
  destruct (negb _). { exists s, []. split; [reflexivity|split; assumption]. }
  pose proof (parse_rtp_header_spec b) as Hs. pose proof (parse_rtp_header_padding b) as Hp.
  destruct (parse_rtp_header true b) as [h| |]; [|exists s, []; split; [reflexivity|split; assumption]|contradiction].
  specialize (Hp h eq_refl).
  destruct (sc_apt cfg =? Z.of_N (b1 mod 128))%Z.
  - destruct (feed_opt_spec (sc_aunp cfg) (ss_acont s) h b Hua Hia Hs Hp) as (c' & av & -> & Hc'). cbn [bind].
    eexists _, _. split; [reflexivity|]. split; cbn [ss_acont ss_vcont]; assumption.
  - destruct (feed_opt_spec (sc_vunp cfg) (ss_vcont s) h b Huv Hiv Hs Hp) as (c' & av & -> & Hc'). cbn [bind].
    eexists _, _. split; [reflexivity|]. split; cbn [ss_acont ss_vcont]; assumption.
Qed.

Lemma handle_rtcp_spec cfg s b : sess_inv cfg s ->
  exists s' evs, handle_rtcp true cfg s b = Ok (s', evs) /\ sess_inv cfg s'.
Proof.
  intros Hi. unfold handle_rtcp.
  destruct (lenN b <? 4) eqn:E4. { exists s, []. split; [reflexivity|exact Hi]. }
  apply N.ltb_ge in E4. destruct (idx_ok s_handlertcp_index b 1) as [pt ->]; [lia|]. cbn [bind].
  destruct (pt =? 200); [|exists s, []; split; [reflexivity|exact Hi]]. cbn [andb].
  destruct (lenN b <? 28) eqn:E28. { exists s, []. split; [reflexivity|exact Hi]. }
  apply N.ltb_ge in E28. destruct (parse_sr_ok b E28) as [r ->]. cbn [bind].
  destruct Hi as [Hia Hiv].
  destruct (sr_ssrc r =? ss_assrc s).
  - destruct (rrp_produce (ss_arr s) (middle_ntp r)) as [p out]. eexists _, _. split; [reflexivity|]. split; assumption.
  - destruct (sr_ssrc r =? ss_vssrc s).
    + destruct (rrp_produce (ss_vrr s) (middle_ntp r)) as [p out]. eexists _, _. split; [reflexivity|]. split; assumption.
    + exists s, []. split; [reflexivity|split; assumption].
Qed.

Lemma handle_interleaved_spec cfg s ch b : cfg_ok cfg -> sess_inv cfg s ->
  exists s' evs, handle_interleaved true cfg s ch b = Ok (s', evs) /\ sess_inv cfg s'.
Proof.
  intros Hc Hi. unfold handle_interleaved.
  destruct ((ch =? sc_artp cfg) || (ch =? sc_vrtp cfg)); [apply handle_rtp_spec; assumption|].
  destruct ((ch =? sc_artcp cfg) || (ch =? sc_vrtcp cfg)); [apply handle_rtcp_spec; assumption|].
  exists s, []. split; [reflexivity|exact Hi].
Qed.

Lemma run_sess_total cfg : cfg_ok cfg -> forall pkts s, sess_inv cfg s -> exists evs, run_sess true cfg s pkts = Ok evs.
Proof.
  intros Hc. induction pkts as [|[ch b] t IH]; intros s Hi; cbn [run_sess]; [eauto|].
  destruct (handle_interleaved_spec cfg s ch b Hc Hi) as (s' & evs & -> & Hi'). cbn [bind].
  destruct (IH s' Hi') as [more ->]. cbn [bind]. eauto.
Qed.

(* every (codec, clock rate, payload type) pair x every packet sequence *)
Theorem run_insess_total ac aclock apt vc vclock vpt pkts :
  exists evs, run_insess true ac aclock apt vc vclock vpt pkts = Ok evs.
Proof. unfold run_insess. apply run_sess_total; [apply sess_cfg_of_ok|apply sess_init_inv]. Qed.

(* pinned tree witnesses (each replayed on the Go code, see design.d/C13.md) *)
Definition w_hdr : bytes := [128; 96; 0; 1; 0; 0; 0; 2; 0; 0; 0; 3].
Lemma run_insess_pinned_refuted :
  (* 1-byte RTCP packet *)
  run_insess false c_pcma 8000 8 c_h264 90000 96 [(1, [128])] = Panic s_handlertcp_index /\
  (* truncated SR *)
  run_insess false c_pcma 8000 8 c_h264 90000 96 [(1, [128; 200])] = Panic s_sr_slice /\
  (* clock rate below 1000 in the SDP *)
  run_insess false c_pcma 999 8 c_none 0 0 [(0, [128; 8; 0; 1; 0; 0; 0; 2; 0; 0; 0; 3; 170])] = Panic s_raw_divide /\
  (* clock rate a multiple of 2^32 * 1000 *)
  run_insess false c_none 0 0 c_h264 4294967296000 96 [(2, w_hdr ++ [101])] = Panic s_avchevc_divide /\
  (* video-only SDP, RTP packet with payload type 0: the zero-value audio track is a G711U unpacker with clock rate 0 *)
  run_insess false c_none 0 0 c_h264 90000 96 [(0, [128; 0; 0; 1; 0; 0; 0; 2; 0; 0; 0; 3; 170])] = Panic s_raw_divide /\
  (* AAC: 1-byte body; AU sizes past the end *)
  run_insess false c_aac 44100 97 c_none 0 0 [(0, [128; 97; 0; 1; 0; 0; 0; 2; 0; 0; 0; 3; 170])] = Panic s_parseau_index /\
  run_insess false c_aac 44100 97 c_none 0 0 [(0, [128; 97; 0; 1; 0; 0; 0; 2; 0; 0; 0; 3; 0; 64; 0; 8; 0; 8; 0; 8; 0; 8; 170])] = Panic s_aac_slice /\
  (* H264 FU-A of one byte, H265 FU of two bytes, H265 AP of one byte *)
  run_insess false c_none 0 0 c_h264 90000 96 [(2, w_hdr ++ [28])] = Panic s_calcavc_index /\
  run_insess false c_none 0 0 c_h265 90000 96 [(2, w_hdr ++ [98; 1])] = Panic s_calchevc_index /\
  run_insess false c_none 0 0 c_h265 90000 96 [(2, w_hdr ++ [96])] = Panic s_avchevc_slice /\
  (* padding count larger than the body reaches Body() inside the unpacker *)
  run_insess false c_none 0 0 c_h264 90000 96 [(2, [160; 96; 0; 1; 0; 0; 0; 2; 0; 0; 0; 3; 101; 9])] = Panic s_body_slice.
Proof. repeat split; vm_compute; reflexivity. Qed.
