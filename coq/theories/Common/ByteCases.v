(* Finite case analysis over a byte: a boolean predicate checked on the 256
   values by computation holds for every b < 256. *)
From Coq Require Import List NArith Lia.
Import ListNotations.
Open Scope N_scope.

Definition all_bytes : list N := map N.of_nat (seq 0 256).

Lemma all_bytes_in b : b < 256 -> In b all_bytes.
Proof.
  intros H. unfold all_bytes. apply in_map_iff. exists (N.to_nat b). split; [lia|].
  apply in_seq. lia.
Qed.

Lemma byte_cases (P : N -> bool) :
  forallb P all_bytes = true -> forall b, b < 256 -> P b = true.
Proof. intros H b Hb. rewrite forallb_forall in H. apply H, all_bytes_in, Hb. Qed.

Lemma byte_cases2 (P : N -> N -> bool) :
  forallb (fun a => forallb (P a) all_bytes) all_bytes = true ->
  forall a b, a < 256 -> b < 256 -> P a b = true.
Proof.
  intros H a b Ha Hb. rewrite forallb_forall in H. specialize (H a (all_bytes_in a Ha)).
  rewrite forallb_forall in H. apply H, all_bytes_in, Hb.
Qed.
