(* Single-pass readers with an N byte count (the count is never converted to
   nat, so attacker-controlled 32-bit sizes stay cheap in extracted code).
   No proofs here; see LBytesReadProofs.v. *)
From Lal Require Import Common.LBytes.
Open Scope N_scope.

(* take exactly n bytes, None when fewer are available *)
Fixpoint takeN (l : bytes) (n : N) {struct l} : option (bytes * bytes) :=
  if n =? 0 then Some ([], l)
  else match l with
       | [] => None
       | b :: t => match takeN t (N.pred n) with
                   | Some (a, r) => Some (b :: a, r)
                   | None => None
                   end
       end.

(* read exactly n bytes onto a reversed accumulator (io.ReadFull into a growing buffer) *)
Fixpoint read_body (l : bytes) (n : N) (racc : bytes) {struct l} : option (bytes * bytes) :=
  if n =? 0 then Some (racc, l)
  else match l with
       | [] => None
       | b :: t => read_body t (N.pred n) (b :: racc)
       end.
