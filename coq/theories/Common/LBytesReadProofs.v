From Lal Require Import Common.LBytes Common.LBytesRead Common.LBytesProofs.
From Coq Require Import Lia ZifyN ZifyNat ZifyBool.
Open Scope N_scope.

Lemma lenN_nil {A} : lenN (@nil A) = 0.
Proof. reflexivity. Qed.
Lemma lenN_cons {A} (x : A) l : lenN (x :: l) = N.succ (lenN l).
Proof. unfold lenN. cbn [length]. lia. Qed.
Lemma lenN_0 {A} (l : list A) : lenN l = 0 -> l = [].
Proof. destruct l; [reflexivity|]. rewrite lenN_cons. lia. Qed.
Lemma lenN_rev {A} (l : list A) : lenN (rev l) = lenN l.
Proof. unfold lenN. now rewrite rev_length. Qed.

Lemma takeN_0 l : takeN l 0 = Some ([], l).
Proof. destruct l; reflexivity. Qed.

Lemma takeN_cons b t n : n <> 0 ->
  takeN (b :: t) n = match takeN t (N.pred n) with Some (a, r) => Some (b :: a, r) | None => None end.
Proof. intro H. cbn [takeN]. destruct (n =? 0) eqn:E; [apply N.eqb_eq in E; contradiction|reflexivity]. Qed.

Lemma takeN_app a r : takeN (a ++ r) (lenN a) = Some (a, r).
Proof.
  induction a as [|x a IH].
  - cbn [app]. change (lenN (@nil N)) with 0. apply takeN_0.
  - cbn [app]. rewrite lenN_cons, takeN_cons by lia. rewrite N.pred_succ, IH. reflexivity.
Qed.

Lemma takeN_app_n a r n : n = lenN a -> takeN (a ++ r) n = Some (a, r).
Proof. intros ->. apply takeN_app. Qed.

Lemma takeN_some l n a r : takeN l n = Some (a, r) -> l = a ++ r /\ lenN a = n.
Proof.
  revert n a r. induction l as [|x l IH]; intros n a r H.
  - cbn [takeN] in H. destruct (n =? 0) eqn:E; [|discriminate].
    apply N.eqb_eq in E. inversion H; subst. split; reflexivity.
  - destruct (N.eq_dec n 0) as [->|Hn].
    + rewrite takeN_0 in H. inversion H; subst. split; reflexivity.
    + cbn [takeN] in H. destruct (n =? 0) eqn:E0; [apply N.eqb_eq in E0; contradiction|].
      destruct (takeN l (N.pred n)) as [[a' r']|] eqn:E; [|discriminate].
      inversion H; subst. apply IH in E. destruct E as [-> E2].
      split; [reflexivity|]. rewrite lenN_cons. lia.
Qed.

Lemma takeN_none l n : takeN l n = None <-> lenN l < n.
Proof.
  revert n. induction l as [|x l IH]; intro n.
  - cbn [takeN]. change (lenN (@nil N)) with 0. destruct (n =? 0) eqn:E.
    + apply N.eqb_eq in E. split; [discriminate|lia].
    + apply N.eqb_neq in E. split; [lia|reflexivity].
  - destruct (N.eq_dec n 0) as [->|Hn].
    + rewrite takeN_0. split; [discriminate|lia].
    + rewrite takeN_cons by exact Hn. rewrite lenN_cons.
      destruct (takeN l (N.pred n)) as [[a' r']|] eqn:E.
      * split; [discriminate|]. intro H.
        assert (takeN l (N.pred n) = None) as E' by (apply IH; lia). congruence.
      * apply IH in E. split; [lia|reflexivity].
Qed.

Lemma takeN_firstn_skipn l n : n <= lenN l ->
  takeN l n = Some (firstn (N.to_nat n) l, skipn (N.to_nat n) l).
Proof.
  intro H.
  rewrite <- (firstn_skipn (N.to_nat n) l) at 1.
  apply takeN_app_n. unfold lenN in *. rewrite firstn_length. lia.
Qed.

(* read_body is takeN onto a reversed accumulator *)
Lemma read_body_takeN l n acc :
  read_body l n acc = match takeN l n with Some (a, r) => Some (rev a ++ acc, r) | None => None end.
Proof.
  revert n acc. induction l as [|x l IH]; intros n acc.
  - cbn [read_body takeN]. destruct (n =? 0); reflexivity.
  - cbn [read_body takeN]. destruct (n =? 0); [reflexivity|].
    rewrite IH. destruct (takeN l (N.pred n)) as [[a r]|]; [|reflexivity].
    cbn [rev]. now rewrite <- app_assoc.
Qed.

Lemma read_body_app a r acc : read_body (a ++ r) (lenN a) acc = Some (rev a ++ acc, r).
Proof. now rewrite read_body_takeN, takeN_app. Qed.

Lemma read_body_app_n a r acc n : n = lenN a -> read_body (a ++ r) n acc = Some (rev a ++ acc, r).
Proof. intros ->. apply read_body_app. Qed.

Lemma takeN_length l n a r : takeN l n = Some (a, r) -> (length r <= length l)%nat.
Proof. intro H. apply takeN_some in H. destruct H as [-> _]. rewrite app_length. lia. Qed.

Lemma read_body_length l n acc a r : read_body l n acc = Some (a, r) -> (length r <= length l)%nat.
Proof.
  rewrite read_body_takeN. destruct (takeN l n) as [[a' r']|] eqn:E; [|discriminate].
  intro H. inversion H; subst. eapply takeN_length; eauto.
Qed.
