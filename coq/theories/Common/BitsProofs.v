(* Bit-operation lemmas: disjoint lor is addition, masks are mod, shifts are div. *)
From Coq Require Import NArith Lia Bool.
Open Scope N_scope.

Lemma land_shift_small a n x : x < 2 ^ n -> N.land (a * 2 ^ n) x = 0.
Proof.
  intro H. apply N.bits_inj_0. intro m. rewrite N.land_spec.
  destruct (N.ltb_spec m n) as [Hm|Hm].
  - rewrite N.mul_pow2_bits_low by assumption. reflexivity.
  - rewrite <- (N.mod_small x (2 ^ n)) by assumption.
    rewrite N.mod_pow2_bits_high by assumption. apply andb_false_r.
Qed.

Lemma lor_shift_add a n x : x < 2 ^ n -> N.lor (a * 2 ^ n) x = a * 2 ^ n + x.
Proof.
  intro H. rewrite <- N.lxor_lor by (now apply land_shift_small).
  symmetry. apply N.add_nocarry_lxor. now apply land_shift_small.
Qed.

Lemma land_ones_mod x n : N.land x (N.ones n) = x mod 2 ^ n.
Proof. apply N.land_ones. Qed.

Lemma shiftr_div x n : N.shiftr x n = x / 2 ^ n.
Proof. apply N.shiftr_div_pow2. Qed.

Lemma shiftl_mul x n : N.shiftl x n = x * 2 ^ n.
Proof. apply N.shiftl_mul_pow2. Qed.
