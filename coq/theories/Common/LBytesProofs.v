From Lal Require Import Common.LBytes.
From Coq Require Import Lia ZifyN ZifyNat ZifyBool.
Ltac Zify.zify_post_hook ::= Z.div_mod_to_equations.
Open Scope N_scope.

Lemma be_put_length n v : length (be_put n v) = n.
Proof. induction n as [|n IH]; cbn [be_put length]; congruence. Qed.

Lemma le_put_length n v : length (le_put n v) = n.
Proof. revert v; induction n as [|n IH]; intro v; cbn [le_put length]; [reflexivity|]. now rewrite IH. Qed.

Lemma be_put_ok n v : bytes_ok (be_put n v).
Proof.
  induction n as [|n IH]; cbn [be_put]; constructor; [|exact IH].
  apply N.mod_lt. discriminate.
Qed.

Lemma le_put_ok n v : bytes_ok (le_put n v).
Proof.
  revert v; induction n as [|n IH]; intro v; cbn [le_put]; constructor; [|apply IH].
  apply N.mod_lt. discriminate.
Qed.

Lemma bytes_ok_app a b : bytes_ok a -> bytes_ok b -> bytes_ok (a ++ b).
Proof. unfold bytes_ok. intros. apply Forall_app; split; assumption. Qed.

Lemma bytes_ok_app_inv a b : bytes_ok (a ++ b) -> bytes_ok a /\ bytes_ok b.
Proof. unfold bytes_ok. intros H. apply Forall_app in H. exact H. Qed.

Lemma bytes_ok_cons x l : x < 256 -> bytes_ok l -> bytes_ok (x :: l).
Proof. intros; constructor; assumption. Qed.

Lemma bytes_okb_spec l : bytes_okb l = true <-> bytes_ok l.
Proof.
  unfold bytes_okb, bytes_ok. rewrite forallb_forall, Forall_forall.
  split; intros H x Hx; specialize (H x Hx); unfold byte_okb in *.
  - now apply N.ltb_lt.
  - now apply N.ltb_lt.
Qed.

Lemma be_get_acc_app acc a b :
  be_get_acc acc (a ++ b) = be_get_acc (be_get_acc acc a) b.
Proof. revert acc; induction a as [|x a IH]; intro acc; cbn; [reflexivity|apply IH]. Qed.

Lemma be_get_acc_lin acc l :
  be_get_acc acc l = acc * 256 ^ lenN l + be_get l.
Proof.
  unfold be_get, lenN. revert acc.
  induction l as [|x l IH]; intro acc.
  - cbn. lia.
  - cbn [be_get_acc length]. rewrite IH. rewrite (IH (0 * 256 + x)).
    rewrite Nat2N.inj_succ, N.pow_succ_r'. lia.
Qed.

Lemma be_get_app a b : be_get (a ++ b) = be_get a * 256 ^ lenN b + be_get b.
Proof. unfold be_get at 1. rewrite be_get_acc_app, be_get_acc_lin. reflexivity. Qed.

Lemma be_get_cons x l : be_get (x :: l) = x * 256 ^ lenN l + be_get l.
Proof. change (x :: l) with ([x] ++ l). rewrite be_get_app. cbn. lia. Qed.

Lemma be_get_put n v : be_get (be_put n v) = v mod 256 ^ N.of_nat n.
Proof.
  induction n as [|n IH].
  - cbn. now rewrite N.mod_1_r.
  - cbn [be_put]. rewrite be_get_cons, IH. unfold lenN. rewrite be_put_length.
    rewrite Nat2N.inj_succ, N.pow_succ_r'.
    set (P := 256 ^ N.of_nat n). assert (HP : 0 < P) by (apply N.neq_0_lt_0, N.pow_nonzero; discriminate).
    (* v mod (256*P) = ((v/P) mod 256) * P + v mod P *)
    rewrite (N.mul_comm 256 P), N.mod_mul_r by lia. lia.
Qed.

Lemma be_get_put_small n v : v < 256 ^ N.of_nat n -> be_get (be_put n v) = v.
Proof. intro H. rewrite be_get_put. now apply N.mod_small. Qed.

Lemma be_get_bound l : bytes_ok l -> be_get l < 256 ^ lenN l.
Proof.
  induction l as [|x l IH]; intro H.
  - cbn. lia.
  - inversion H as [|? ? Hx Hl]; subst. specialize (IH Hl).
    rewrite be_get_cons. unfold lenN in *. cbn [length]. rewrite Nat2N.inj_succ, N.pow_succ_r'.
    nia.
Qed.

Lemma be_put_add_high k a g : be_put k (a * 256 ^ N.of_nat k + g) = be_put k g.
Proof.
  revert a; induction k as [|k IHk]; intro a; [reflexivity|].
  cbn [be_put]. f_equal.
  - rewrite Nat2N.inj_succ, N.pow_succ_r'.
    replace (a * (256 * 256 ^ N.of_nat k)) with ((a * 256) * 256 ^ N.of_nat k) by lia.
    rewrite N.div_add_l by (apply N.pow_nonzero; discriminate).
    rewrite N.add_mod by discriminate. rewrite N.mod_mul by discriminate.
    rewrite N.add_0_l. now rewrite N.mod_mod by discriminate.
  - rewrite Nat2N.inj_succ, N.pow_succ_r'.
    replace (a * (256 * 256 ^ N.of_nat k)) with ((a * 256) * 256 ^ N.of_nat k) by lia.
    apply IHk.
Qed.

Lemma be_put_get l : bytes_ok l -> be_put (length l) (be_get l) = l.
Proof.
  induction l as [|x l IH]; intro H; [reflexivity|].
  inversion H as [|? ? Hx Hl]; subst. specialize (IH Hl).
  cbn [length be_put]. rewrite be_get_cons. unfold lenN.
  pose proof (be_get_bound l Hl) as Hb. unfold lenN in Hb.
  f_equal.
  - assert (HP : 256 ^ N.of_nat (length l) <> 0) by (apply N.pow_nonzero; discriminate).
    rewrite N.div_add_l by assumption. rewrite (N.div_small (be_get l)) by assumption.
    rewrite N.add_0_r. now apply N.mod_small.
  - rewrite be_put_add_high. exact IH.
Qed.

Lemma le_get_put n v : le_get (le_put n v) = v mod 256 ^ N.of_nat n.
Proof.
  revert v; induction n as [|n IH]; intro v.
  - cbn. now rewrite N.mod_1_r.
  - cbn [le_put le_get]. rewrite IH. rewrite Nat2N.inj_succ, N.pow_succ_r'.
    set (P := 256 ^ N.of_nat n). assert (HP : 0 < P) by (apply N.neq_0_lt_0, N.pow_nonzero; discriminate).
    rewrite N.mod_mul_r by lia. lia.
Qed.

Lemma split_exact_app a b : split_exact (length a) (a ++ b) = Some (a, b).
Proof.
  unfold split_exact. rewrite app_length.
  replace (Nat.leb (length a) (length a + length b)) with true
    by (symmetry; apply Nat.leb_le; lia).
  rewrite firstn_app, Nat.sub_diag, firstn_all, firstn_O, app_nil_r.
  rewrite skipn_app, Nat.sub_diag, skipn_all, skipn_O. reflexivity.
Qed.

Lemma split_exact_app_n n a b : n = length a -> split_exact n (a ++ b) = Some (a, b).
Proof. intros ->. apply split_exact_app. Qed.

Lemma split_exact_some n l a b :
  split_exact n l = Some (a, b) -> l = a ++ b /\ length a = n.
Proof.
  unfold split_exact. destruct (Nat.leb n (length l)) eqn:E; [|discriminate].
  intro H; inversion H; subst. split.
  - symmetry; apply firstn_skipn.
  - apply firstn_length_le. now apply Nat.leb_le.
Qed.

Lemma lenN_app {A} (a b : list A) : lenN (a ++ b) = lenN a + lenN b.
Proof. unfold lenN. rewrite app_length. lia. Qed.

Lemma split_exactN_eq n l : split_exactN n l = split_exact (N.to_nat n) l.
Proof.
  unfold split_exactN, split_exact, lenN.
  destruct (N.leb_spec n (N.of_nat (length l))) as [H|H];
  destruct (Nat.leb_spec (N.to_nat n) (length l)) as [H'|H']; try reflexivity; lia.
Qed.

Lemma split_exactN_app a b : split_exactN (lenN a) (a ++ b) = Some (a, b).
Proof. rewrite split_exactN_eq. unfold lenN. rewrite Nat2N.id. apply split_exact_app. Qed.
