From Lal Require Import Common.NAssoc.
From Coq Require Import Lia.
Open Scope N_scope.

Lemma nget_nset_same {A} k (a : A) l : nget k (nset k a l) = Some a.
Proof.
  induction l as [|[k0 a0] t IH]; cbn.
  - now rewrite N.eqb_refl.
  - destruct (k0 =? k) eqn:E; cbn; rewrite E; [reflexivity|exact IH].
Qed.

Lemma nget_nset_other {A} k k' (a : A) l : k <> k' -> nget k' (nset k a l) = nget k' l.
Proof.
  intro H. induction l as [|[k0 a0] t IH]; cbn.
  - destruct (k =? k') eqn:E; [apply N.eqb_eq in E; contradiction|reflexivity].
  - destruct (k0 =? k) eqn:E; cbn.
    + apply N.eqb_eq in E. subst k0.
      destruct (k =? k') eqn:E2; [apply N.eqb_eq in E2; contradiction|reflexivity].
    + destruct (k0 =? k'); [reflexivity|exact IH].
Qed.

Lemma nget_nset {A} k k' (a : A) l :
  nget k' (nset k a l) = if k =? k' then Some a else nget k' l.
Proof.
  destruct (k =? k') eqn:E.
  - apply N.eqb_eq in E. subst. apply nget_nset_same.
  - apply N.eqb_neq in E. now apply nget_nset_other.
Qed.

Lemma nset_nset_same {A} k (a b : A) l : nset k a (nset k b l) = nset k a l.
Proof.
  induction l as [|[k0 a0] t IH]; cbn.
  - now rewrite N.eqb_refl.
  - destruct (k0 =? k) eqn:E; cbn; rewrite E; [reflexivity|now rewrite IH].
Qed.
