(* Common byte-level vocabulary shared by every model.  No proofs here. *)
From Coq Require Export List NArith ZArith Bool.
Export ListNotations.
Open Scope N_scope.

Definition bytes := list N.

Definition byte_okb (b : N) : bool := b <? 256.
Definition bytes_okb (l : bytes) : bool := forallb byte_okb l.
Definition bytes_ok (l : bytes) : Prop := Forall (fun b => b < 256) l.

Definition lenN {A} (l : list A) : N := N.of_nat (length l).

(* big-endian, n bytes, of v (low 8n bits of v, as Go's bele.BePutUintXX on a
   value already truncated to the machine width) *)
Fixpoint be_put (n : nat) (v : N) : bytes :=
  match n with
  | O => []
  | S k => (v / 256 ^ N.of_nat k) mod 256 :: be_put k v
  end.

Fixpoint be_get_acc (acc : N) (l : bytes) : N :=
  match l with
  | [] => acc
  | b :: t => be_get_acc (acc * 256 + b) t
  end.
Definition be_get (l : bytes) : N := be_get_acc 0 l.

(* little-endian *)
Fixpoint le_put (n : nat) (v : N) : bytes :=
  match n with
  | O => []
  | S k => v mod 256 :: le_put k (v / 256)
  end.
Fixpoint le_get (l : bytes) : N :=
  match l with
  | [] => 0
  | b :: t => b + 256 * le_get t
  end.

(* Go slice expressions on attacker-controlled data: checked versions *)
Definition take (n : nat) (l : bytes) : bytes := firstn n l.
Definition drop (n : nat) (l : bytes) : bytes := skipn n l.

(* split off exactly n bytes, None when fewer are available (io.ReadFull /
   io.ReadAtLeast semantic on a finite input) *)
Definition split_exact (n : nat) (l : bytes) : option (bytes * bytes) :=
  if Nat.leb n (length l) then Some (firstn n l, skipn n l) else None.

(* same with an N count: the count is only converted to nat when it does not
   exceed the input length (keeps attacker-controlled 32-bit sizes cheap) *)
Definition split_exactN (n : N) (l : bytes) : option (bytes * bytes) :=
  if n <=? lenN l then Some (firstn (N.to_nat n) l, skipn (N.to_nat n) l) else None.

Definition nth_opt (i : nat) (l : bytes) : option N := nth_error l i.

Definition u8 (v : N) := v mod 256.
Definition u16 (v : N) := v mod 65536.
Definition u24 (v : N) := v mod 16777216.
Definition u32 (v : N) := v mod 4294967296.
Definition u64 (v : N) := v mod 18446744073709551616.
