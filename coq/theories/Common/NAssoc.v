(* Association lists keyed by N (Go maps with small integer keys whose
   iteration order is never observed).  No proofs here; see NAssocProofs.v. *)
From Coq Require Export List NArith.
Export ListNotations.
Open Scope N_scope.

Fixpoint nget {A} (k : N) (l : list (N * A)) : option A :=
  match l with
  | [] => None
  | (k0, a) :: t => if k0 =? k then Some a else nget k t
  end.

(* replace in place, or append when the key is new *)
Fixpoint nset {A} (k : N) (a : A) (l : list (N * A)) : list (N * A) :=
  match l with
  | [] => [(k, a)]
  | (k0, a0) :: t => if k0 =? k then (k0, a) :: t else (k0, a0) :: nset k a t
  end.
