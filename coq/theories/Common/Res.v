(* Result type that keeps Go panics apart from ordinary errors. *)
From Coq Require Export NArith.
Inductive res (A : Type) : Type :=
| Ok (a : A)
| Err (e : N)          (* ordinary error return; e = small error enum *)
| Panic (site : N).    (* Go would panic here; site = small site enum *)
Arguments Ok {A} a.
Arguments Err {A} e.
Arguments Panic {A} site.

Definition bind {A B} (r : res A) (f : A -> res B) : res B :=
  match r with Ok a => f a | Err e => Err e | Panic s => Panic s end.
Notation "'let*' x ':=' r 'in' k" := (bind r (fun x => k))
  (at level 200, x pattern, r at level 100, k at level 200).

Definition is_panic {A} (r : res A) : bool :=
  match r with Panic _ => true | _ => false end.
Definition err_out_of_fuel : N := 255%N.
