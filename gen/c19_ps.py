# C19 parts A and D: sequence headers (AVCDecoderConfigurationRecord /
# HEVCDecoderConfigurationRecord) and SPS/VPS parsing.
from lib.vf import Case
from gen.common import *
from gen.c19_h26x import *

OPS = {"c19.avc_sps", "c19.avc_rt", "c19.avc_parse", "c19.avc_2annexb", "c19.hevc_vps", "c19.hevc_sps",
       "c19.hevc_rt", "c19.hevc_parse", "c19.hevc_parse_enh", "c19.hevc_2annexb"}
RULE = ("parameter sets: SPS/VPS from an independent H.264 7.3.2.1 / H.265 7.3.2.x python encoder over the syntax cross-product "
        "(profile class x chroma format x separate planes x frame/field x cropping x POC type x scaling lists x VUI), every "
        "truncation offset and end-of-buffer bit pattern of valid sets, emulation-prevention cases, Exp-Golomb width extremes; "
        "sequence headers built from them for parameter-set lengths 1..65535(+1), parsed by lal and by an ISO 14496-15 reader; "
        "hostile headers (truncate at every offset, flips, count/length fields); non-trivial = model output is ok and the case line is new")
ASSUMPTIONS = ["the avc/hevc ops compare panic-vs-error-vs-value and every printed field, not the panic site",
               "parameter sets of 65536 bytes and more are outside the record format (16-bit length) and only compared model-vs-code"]


def tokb(b):
    return hex_tok(bytes(b))


def avc_header_ref(spss, ppss, profile=100, level=31, nsps_byte=None, npps_byte=None):
    """independent ISO 14496-15 writer (with the 5-byte FLV video tag prefix)"""
    out = bytearray([0x17, 0, 0, 0, 0, 1, profile, 0, level, 0xff])
    out.append(0xe0 | len(spss) if nsps_byte is None else nsps_byte)
    for s in spss:
        out += len(s).to_bytes(2, "big") + s
    out.append(len(ppss) if npps_byte is None else npps_byte)
    for p in ppss:
        out += len(p).to_bytes(2, "big") + p
    return bytes(out)


def hevc_header_ref(arrays, na=None):
    out = bytearray([0x1c, 0, 0, 0, 0, 1, 0x01, 0x60, 0, 0, 0, 0x90, 0, 0, 0, 0, 0, 93, 0xf0, 0, 0xfc, 0xfd, 0xf8, 0xf8, 0, 0, 0x0f])
    out.append(len(arrays) if na is None else na)
    for typ, nals in arrays:
        out.append(typ)
        out += len(nals).to_bytes(2, "big")
        for n in nals:
            out += len(n).to_bytes(2, "big") + n
    return bytes(out)


def mutations(rng, b, n):
    """hostile variants of a valid byte string"""
    for k in range(len(b) + 1):
        yield b[:k]
    for _ in range(n):
        m = bytearray(b)
        for _ in range(rng.choice([1, 1, 2, 4])):
            i = rng.randrange(len(m))
            m[i] = rng.choice([0, 1, 3, 0xff, m[i] ^ (1 << rng.randrange(8)), rng.randrange(256)])
        yield bytes(m)


def sweep_avc_dims():
    """every crop unit class of H.264 7.4.2.1.1 x frame/field, each crop side"""
    for prof, cfi, sep in [(66, 1, 0), (77, 1, 0), (100, 0, 0), (100, 1, 0), (100, 2, 0), (100, 3, 0), (100, 3, 1), (244, 3, 1), (122, 2, 0)]:
        for fmo in (1, 0):
            for crop in [None, (0, 0, 0, 0), (1, 0, 0, 0), (0, 1, 0, 0), (0, 0, 1, 0), (0, 0, 0, 1), (0, 0, 0, 2), (0, 0, 0, 4), (3, 5, 2, 6)]:
                for (wm, hm) in [(119, 33 if not fmo else 67), (0, 0), (44, 17)]:
                    s = dict(profile_idc=prof, level_idc=40, chroma_format_idc=cfi, separate_colour_plane_flag=sep, poc_type=0,
                             frame_mbs_only_flag=fmo, width_mbs_minus1=wm, height_map_units_minus1=hm, crop=crop, mbaff=1 - fmo)
                    w, h = avc_spec_dims(s)
                    if w > 0 and h > 0:
                        yield s


def raw_bits_sps(prefix_bytes, fields):
    """hand-made bit strings: fields = list of (nbits, value) or ('z', leading_zeros, suffix_value)"""
    w = BitW()
    for b in prefix_bytes:
        w.u(8, b)
    for f in fields:
        if f[0] == "z":
            w.u(f[1], 0); w.u(1, 1)
            if f[1]:
                w.u(f[1], f[2])
        else:
            w.u(f[0], f[1])
    while len(w.bits) % 8:
        w.bits.append(f_pad[0])
    return w.bytes()


f_pad = [0]


def gen_cases(tier, rng):
    q = tier == "quick"
    valid = []
    # ---- avc SPS: dims sweep, structured random
    for s in sweep_avc_dims():
        nal, _, _ = avc_sps_nal(s)
        valid.append(nal)
        yield Case("c19.avc_sps " + tokb(nal), cls="avc_sps-dims-sweep")
    for _ in range(300 if q else 3000):
        s = rand_avc_sps(rng)
        nal, _, _ = avc_sps_nal(s, nri=rng.choice([3, 3, 1]))
        valid.append(nal)
        yield Case("c19.avc_sps " + tokb(nal), cls="avc_sps-random")
    # emulation prevention inside the SPS (level_idc 0 / zero runs)
    for s in [dict(profile_idc=66, constraint=0, level_idc=0, sps_id=0, poc_type=2, frame_mbs_only_flag=1, width_mbs_minus1=79, height_map_units_minus1=44),
              dict(profile_idc=100, constraint=0, level_idc=0, chroma_format_idc=1, poc_type=0, frame_mbs_only_flag=1, width_mbs_minus1=119, height_map_units_minus1=67, crop=(0, 0, 0, 4)),
              dict(profile_idc=77, level_idc=40, poc_type=1, offset_non_ref=0, offset_top_bottom=0, offsets_ref_frame=[0] * 40, frame_mbs_only_flag=1, width_mbs_minus1=2**16, height_map_units_minus1=2**16 + 5),
              dict(profile_idc=66, level_idc=30, poc_type=0, frame_mbs_only_flag=1, width_mbs_minus1=39, height_map_units_minus1=29,
                   vui=dict(aspect_ratio_idc=255, sar_width=0, sar_height=1, timing=(1, 0x10000, 1)))]:
        nal, _, _ = avc_sps_nal(s)
        yield Case("c19.avc_sps " + tokb(nal), cls="avc_sps-epb")
    # truncation at every offset + last-bit patterns (zero-width Exp-Golomb read at the end of the buffer)
    picks = valid[:4] + valid[60:64] + valid[-6:]
    for nal in picks if q else picks + valid[200:260]:
        for k in range(len(nal) + 1):
            yield Case("c19.avc_sps " + tokb(nal[:k]), cls="avc_sps-truncated")
            if k >= 4:
                for last in (0x01, 0x80, 0xff, 0x7f):
                    yield Case("c19.avc_sps " + tokb(nal[:k] + bytes([last])), cls="avc_sps-endbit")
    for nal in picks:
        for m in list(mutations(rng, nal, 12 if q else 60))[len(nal) + 1:]:
            yield Case("c19.avc_sps " + tokb(m), cls="avc_sps-mutated")
    # Exp-Golomb extremes: 0, 30, 31, 32, 33, 40 leading zeros in sps_id / chroma / width
    for z in (0, 1, 4, 5, 30, 31, 32, 33, 40, 64):
        for suffix in (0, 1, (1 << z) - 1 if z else 0, (1 << z) - 2 if z > 1 else 0):
            for pad in (0, 1):
                f_pad[0] = pad
                yield Case("c19.avc_sps " + tokb(raw_bits_sps([0x67, 66, 0, 30], [("z", z, suffix)])), cls="avc_sps-golomb")
                yield Case("c19.avc_sps " + tokb(raw_bits_sps([0x67, 66, 0, 30], [(1, 1), (1, 1), (1, 1), (1, 1), (1, 1), (1, 0), ("z", z, suffix), ("z", 2, 1), (1, 1), (1, 1), (1, 0), (1, 0)])), cls="avc_sps-golomb")
                yield Case("c19.avc_sps " + tokb(raw_bits_sps([0x67, 100, 0, 30], [(1, 1), ("z", z, suffix), (1, 1), (1, 1), (1, 0), (1, 0), (1, 1), (1, 1), (1, 1), (1, 1), (1, 0), ("z", 3, 2), ("z", 3, 3), (1, 1), (1, 1), (1, 0), (1, 0)])), cls="avc_sps-golomb")
    f_pad[0] = 0
    yield Case("c19.avc_sps 6742001eff", cls="avc_sps-endbit")   # F-13 witness
    yield Case("c19.avc_sps -", cls="avc_sps-truncated")
    # scaling-list and se extremes
    for d in (-128, 127, -8, 248, 2**31 - 1, -(2**31) + 1, 2**31):
        w = BitW()
        for b in (0x67, 100, 0, 40):
            w.u(8, b)
        w.ue(0); w.ue(1); w.ue(0); w.ue(0); w.u(1, 0); w.u(1, 1)
        w.u(1, 1)
        w.ue(2 * d - 1 if d > 0 else -2 * d)
        for _ in range(15):
            w.se(1)
        for _ in range(7):
            w.u(1, 0)
        w.ue(0); w.ue(2); w.ue(1); w.u(1, 0); w.ue(19); w.ue(14); w.u(1, 1); w.u(1, 1); w.u(1, 0); w.u(1, 0)
        w.trailing()
        yield Case("c19.avc_sps " + tokb(w.bytes()), cls="avc_sps-scaling")
    # poc type 1 with a huge cycle count (loop bound = remaining bits)
    for n in (0, 1, 255, 256, 1000, 2**32 - 2):
        w = BitW()
        for b in (0x67, 66, 0, 30):
            w.u(8, b)
        w.ue(0); w.ue(0); w.ue(1); w.u(1, 0); w.se(0); w.se(0); w.ue(n)
        for _ in range(min(n, 300)):
            w.se(0)
        w.ue(1); w.u(1, 0); w.ue(10); w.ue(8); w.u(1, 1); w.u(1, 1); w.u(1, 0); w.u(1, 0)
        w.trailing()
        yield Case("c19.avc_sps " + tokb(w.bytes()), cls="avc_sps-poc1")

    # ---- avc sequence header round trip: lengths
    base_sps = [valid[0], valid[37], valid[101], bytes.fromhex("67640020ACD940C029B011000003000100000300320F183196")]
    pps_lens = [0, 1, 2, 5, 255, 256, 257, 4096, 65535, 65536, 65537]
    sps_lens = list(range(1, 48)) + [255, 256, 257, 511, 512, 4095, 65534, 65535, 65536, 65537, 70000]
    for i, n in enumerate(sps_lens):
        b = base_sps[i % len(base_sps)]
        sps = tokb(b[:n]) if n <= len(b) else tokb(b) + "+r%d.%d" % (n - len(b), rng.randrange(1 << 16))
        pl = pps_lens[i % len(pps_lens)]
        pps = tokb(AVC_PPS[:pl]) if pl <= len(AVC_PPS) else tokb(AVC_PPS) + "+r%d.%d" % (pl - len(AVC_PPS), rng.randrange(1 << 16))
        yield Case("c19.avc_rt %s %s" % (sps, pps), cls="avc_rt-lengths")
    for pl in pps_lens:
        pps = "-" if pl == 0 else "r%d.%d" % (pl, rng.randrange(1 << 16))
        yield Case("c19.avc_rt %s %s" % (tokb(base_sps[3]), pps), cls="avc_rt-lengths")
        yield Case("c19.avc_rt %s+r%d.%d %s" % (tokb(base_sps[1]), 65535 - len(base_sps[1]), pl, pps), cls="avc_rt-lengths")
    for _ in range(150 if q else 1500):
        nal = rng.choice(valid)
        pps = bytes(rng.choice([0, 0, 1, 3, 0x68, rng.randrange(256)]) for _ in range(rng.choice([1, 2, 4, 5, 9, 30])))
        yield Case("c19.avc_rt %s %s" % (tokb(nal), tokb(pps)), cls="avc_rt-random")
    for nal in picks[:6]:
        for k in range(0, len(nal) + 1):
            yield Case("c19.avc_rt %s %s" % (tokb(nal[:k]), tokb(AVC_PPS)), cls="avc_rt-truncated-sps")
    # ---- hostile AVC headers
    hdrs = [avc_header_ref([valid[0]], [AVC_PPS]), avc_header_ref([valid[5], valid[9]], [AVC_PPS, b"\x68\x01"]),
            avc_header_ref([valid[0]], []), avc_header_ref([], [AVC_PPS]), avc_header_ref([b""], [b""]),
            avc_header_ref([valid[3]] * 3, [AVC_PPS] * 3), avc_header_ref([valid[0]], [AVC_PPS], nsps_byte=0x01),
            avc_header_ref([valid[0]], [AVC_PPS], nsps_byte=0xff, npps_byte=0xe1), avc_header_ref([valid[0]], [AVC_PPS], npps_byte=0x21),
            avc_header_ref([valid[2]], [AVC_PPS]) + b"\xfd\xf8\xf8\x00"]
    for h in hdrs:
        for m in mutations(rng, h, 25 if q else 200):
            yield Case("c19.avc_parse " + tokb(m), cls="avc_parse-hostile")
            yield Case("c19.avc_2annexb " + tokb(m), cls="avc_2annexb-hostile")
    for first in (0x17, 0x27, 0x1c, 0x00):
        for second in (0, 1):
            yield Case("c19.avc_parse " + tokb(bytes([first, second, 0, 0, 0]) + hdrs[0][5:]), cls="avc_parse-hostile")
            yield Case("c19.avc_2annexb " + tokb(bytes([first, second, 0, 0, 0]) + hdrs[0][5:]), cls="avc_2annexb-hostile")

    # ---- HEVC
    hv = []
    for i in range(120 if q else 1200):
        v, s = rand_hevc(rng)
        vn = hevc_vps_nal(v)
        sn, _, _ = hevc_sps_nal(s)
        hv.append((vn, sn))
        yield Case("c19.hevc_vps " + tokb(vn), cls="hevc_vps-random")
        yield Case("c19.hevc_sps " + tokb(sn), cls="hevc_sps-random")
        pps = HEVC_PPS if i % 3 else bytes(rng.randrange(256) for _ in range(rng.choice([1, 2, 7, 40])))
        yield Case("c19.hevc_rt %s %s %s" % (tokb(vn), tokb(sn), tokb(pps)), cls="hevc_rt-random")
    for cfi, sep in [(0, 0), (1, 0), (2, 0), (3, 0), (3, 1)]:
        for cw in [None, (0, 0, 0, 0), (1, 0, 0, 0), (0, 1, 0, 0), (0, 0, 1, 0), (0, 0, 0, 1), (0, 0, 0, 4), (2, 2, 3, 1)]:
            s = dict(max_sub_layers_minus1=0, chroma_format_idc=cfi, separate_colour_plane_flag=sep, width=1920, height=1088, conf_win=cw)
            yield Case("c19.hevc_sps " + tokb(hevc_sps_nal(s)[0]), cls="hevc_sps-dims-sweep")
    hp = hv[:3] + hv[-3:]
    for vn, sn in hp:
        for k in range(len(vn) + 1):
            yield Case("c19.hevc_vps " + tokb(vn[:k]), cls="hevc_vps-truncated")
            yield Case("c19.hevc_rt %s %s %s" % (tokb(vn[:k]), tokb(sn), tokb(HEVC_PPS)), cls="hevc_rt-truncated")
        for k in range(len(sn) + 1):
            yield Case("c19.hevc_sps " + tokb(sn[:k]), cls="hevc_sps-truncated")
            if k >= 14:
                for last in (0x01, 0x80, 0xff):
                    yield Case("c19.hevc_sps " + tokb(sn[:k] + bytes([last])), cls="hevc_sps-endbit")
            if k % 3 == 0:
                yield Case("c19.hevc_rt %s %s %s" % (tokb(vn), tokb(sn[:k]), tokb(HEVC_PPS)), cls="hevc_rt-truncated")
        for m in list(mutations(rng, sn, 10 if q else 80))[len(sn) + 1:]:
            yield Case("c19.hevc_sps " + tokb(m), cls="hevc_sps-mutated")
        for m in list(mutations(rng, vn, 6 if q else 40))[len(vn) + 1:]:
            yield Case("c19.hevc_vps " + tokb(m), cls="hevc_vps-mutated")
    # SPS whose count fields (pic_order_cnt cycle, scaling lists, every ue(v), hevc sub-layer loops) are huge while the
    # data ends right behind them (generator shared with C05): a parser call that takes more than 2 s prints `slow(..)`
    from gen import c05 as _c05
    seen = set()
    for cls, sps in _c05.avc_loop_sps():
        if sps not in seen:
            seen.add(sps)
            yield Case("c19.avc_sps " + tokb(sps), cls="avc_sps-loops")
            if len(seen) % 4 == 0:
                yield Case("c19.avc_rt %s %s" % (tokb(sps), "68ce3c80"), cls="avc_rt-loops")
    for cls, sps in _c05.hevc_loop_sps():
        if sps not in seen:
            seen.add(sps)
            yield Case("c19.hevc_sps " + tokb(sps), cls="hevc_sps-loops")
    vn, sn = hv[0]
    for i, n in enumerate([1, 2, 3, 255, 256, 65535, 65536]):
        def ext(b, n):
            return tokb(b[:n]) if n <= len(b) else tokb(b) + "+r%d.%d" % (n - len(b), rng.randrange(1 << 16))
        yield Case("c19.hevc_rt %s %s %s" % (ext(vn, max(n, len(vn))), tokb(sn), ext(HEVC_PPS, n)), cls="hevc_rt-lengths")
        yield Case("c19.hevc_rt %s %s %s" % (tokb(vn), ext(sn, max(n, len(sn))), ext(HEVC_PPS, 7)), cls="hevc_rt-lengths")
    hh = [hevc_header_ref([(32, [vn]), (33, [sn]), (34, [HEVC_PPS])]),
          hevc_header_ref([(0xa0, [vn]), (0xa1, [sn]), (0xa2, [HEVC_PPS]), (39, [b"\x4e\x01\x05"])]),
          hevc_header_ref([(32, [vn, vn]), (33, [sn]), (34, [HEVC_PPS])]),
          hevc_header_ref([(33, [sn]), (32, [vn]), (34, [HEVC_PPS])]),
          hevc_header_ref([(32, [b""]), (33, [b""]), (34, [b""])]),
          hevc_header_ref([(32, [vn]), (33, [sn]), (34, [HEVC_PPS])], na=2),
          # Annex-B inside the record (lal's fallback parser)
          hevc_header_ref([])[:28] + b"\0\0\0\1" + vn + b"\0\0\0\1" + sn + b"\0\0\0\1" + HEVC_PPS,
          hevc_header_ref([])[:28] + b"\0\0\0\1" + vn + b"\0\0\0\1" + sn + b"\0\0\0\1" + HEVC_PPS + b"\0\0\0\1",
          hevc_header_ref([])[:28] + b"\0\0\0\1\0\0\0\1" + vn + b"\0\0\0\1" + sn + b"\0\0\0\1" + HEVC_PPS,
          hevc_header_ref([])[:28] + b"\0\0\0\1" + vn + b"\0\0\0\1" + vn + b"\0\0\0\1" + sn + b"\0\0\1" + HEVC_PPS + b"\0\0\0\1\x4e\x01"]
    for h in hh:
        for m in mutations(rng, h, 20 if q else 150):
            yield Case("c19.hevc_parse " + tokb(m), cls="hevc_parse-hostile")
            yield Case("c19.hevc_2annexb " + tokb(m), cls="hevc_2annexb-hostile")
            yield Case("c19.hevc_parse_enh " + tokb(bytes([m[0] & 0xf0 if m else 0]) + m[1:]), cls="hevc_parse_enh-hostile")
            yield Case("c19.hevc_parse_enh " + tokb(m), cls="hevc_parse_enh-hostile")


def nontrivial(c, out):
    if not out.startswith("ok"):
        return None
    return c.line


# ------------------------------------------------------------------ oracle
def _ref_avc_header_ok(sps):
    """can profile / level be taken from this SPS (7.3.2.1 up to seq_parameter_set_id)?"""
    rb = epb_strip(sps[1:])
    if len(rb) < 4:
        return False
    try:
        r = BitR(rb[3:])
        return r.ue() <= 31
    except ValueError:
        return False


def oracle(c, out):
    f = c.line.split(" ")
    op = f[0]
    if op == "c19.avc_sps":
        nal = tok_bytes(f[1])
        try:
            d = ref_parse_avc_sps(nal)
        except ValueError:
            return None     # not a valid SPS: nothing is promised (crash-freedom is C05/C13)
        if not out.startswith("ok "):
            return (False, "valid SPS %dx%d rejected: %s" % (d["width"], d["height"], out))
        o = out.split(" ")
        got = (num(o[1]), num(o[2]), num(o[3]), num(o[4]))
        if got[:2] != (d["profile"], d["level"]):
            return (False, "profile/level %r, SPS says %r" % (got[:2], (d["profile"], d["level"])))
        if got[2:] != (d["width"], d["height"]):
            return (False, "reported %dx%d, SPS encodes %dx%d (crop %r, ChromaArrayType %d, frame_mbs_only %d, epb %s)" % (
                got[2], got[3], d["width"], d["height"], d["crop"], d["cat"], d["fmo"], d["epb_before_dims"]))
        return (True, "")
    if op == "c19.avc_rt":
        sps, pps = tok_bytes(f[1]), tok_bytes(f[2])
        if len(sps) > 65535 or len(pps) > 65535:
            return None
        if not out.startswith("ok "):
            if _ref_avc_header_ok(sps):
                try:
                    ref_parse_avc_sps(sps)
                    return (False, "valid SPS, sequence header not built: " + out)
                except ValueError:
                    return None if out == "panic" else (False, "SPS with a readable header, sequence header not built: " + out)
            return None
        parts = out[3:].split(" | ")
        h = tok_bytes(parts[0])
        if h[:5] != b"\x17\0\0\0\0":
            return (False, "FLV video tag prefix of the sequence header is %s" % h[:5].hex())
        try:
            rec = ref_parse_avcc_record(h[5:])
        except ValueError as e:
            return (False, "ISO 14496-15 reader rejects the record: %s" % e)
        if rec["sps"] != [sps] or rec["pps"] != [pps] or rec["rest"]:
            return (False, "ISO 14496-15 reader finds other parameter sets than the ones given")
        rb = epb_strip(sps[1:])     # profile_idc / level_idc are RBSP bytes 0 and 2 (7.3.2.1)
        if (rec["profile"], rec["level"]) != (rb[0], rb[2]) or rec["length_size"] != 4:
            return (False, "record profile/level/lengthSize %r do not match the SPS" % ((rec["profile"], rec["level"], rec["length_size"]),))
        if parts[1] != "ok %s %s" % (hex_tok(sps), hex_tok(pps)):
            return (False, "lal's parser does not return the parameter sets: " + parts[1][:80])
        want = b"\0\0\0\1" + sps + b"\0\0\0\1" + pps
        if parts[2] != "ok " + hex_tok(want) or tok_bytes(parts[3]) != want:
            return (False, "Annex-B form of the header is not start code + SPS + start code + PPS")
        return (True, "")
    if op in ("c19.hevc_sps", "c19.hevc_vps"):
        nal = tok_bytes(f[1])
        try:
            d = ref_parse_hevc_sps(nal) if op == "c19.hevc_sps" else ref_parse_hevc_vps(nal)
        except ValueError:
            return None
        if not out.startswith("ok "):
            return (False, "valid %s rejected: %s" % (op[-3:].upper(), out))
        g = [num(x) for x in out[3:].split(",")]
        if (g[2], g[3], g[4], g[7]) != (d["space"], d["tier"], d["profile_idc"], d["level"]):
            return (False, "profile_tier_level %r, parameter set says %r" % ((g[2], g[3], g[4], g[7]), (d["space"], d["tier"], d["profile_idc"], d["level"])))
        if g[8] != d["max_sub_layers_minus1"] + 1:
            return (False, "temporal layers %d, parameter set says %d" % (g[8], d["max_sub_layers_minus1"] + 1))
        if op == "c19.hevc_sps":
            if (g[10], g[11], g[12]) != (d["chroma"], d["bdl"], d["bdc"]):
                return (False, "chroma/bit depth %r" % ((g[10], g[11], g[12]),))
            if (g[0], g[1]) != d["coded"]:
                return (False, "coded size %dx%d, SPS says %r" % (g[0], g[1], d["coded"]))
            if (g[15], g[16]) != (d["width"], d["height"]):
                return (False, "reported %dx%d, SPS encodes %dx%d (coded %r, conformance window %r)" % (g[15], g[16], d["width"], d["height"], d["coded"], d["conf_win"]))
        return (True, "")
    if op == "c19.hevc_rt":
        vps, sps, pps = tok_bytes(f[1]), tok_bytes(f[2]), tok_bytes(f[3])
        if max(len(vps), len(sps), len(pps)) > 65535:
            return None
        try:
            dv = ref_parse_hevc_vps(vps)
            ds = ref_parse_hevc_sps(sps)
        except ValueError:
            return None
        if not out.startswith("ok "):
            return (False, "valid VPS/SPS, sequence header not built: " + out)
        parts = out[3:].split(" | ")
        h = tok_bytes(parts[0])
        if h[:5] != b"\x1c\0\0\0\0":
            return (False, "FLV video tag prefix of the sequence header is %s" % h[:5].hex())
        try:
            rec = ref_parse_hvcc_record(h[5:])
        except ValueError as e:
            return (False, "ISO 14496-15 reader rejects the record: %s" % e)
        if rec["arrays"] != {32: [vps], 33: [sps], 34: [pps]} or rec["rest"]:
            return (False, "ISO 14496-15 reader finds other parameter sets than the ones given")
        if (rec["space"], rec["profile_idc"], rec["chroma"], rec["bdl"], rec["bdc"], rec["length_size"]) != (
                ds["space"], max(dv["profile_idc"], ds["profile_idc"]), ds["chroma"] & 3, ds["bdl"] & 7, ds["bdc"] & 7, 4):
            return (False, "record fields do not match the parameter sets")
        if parts[1] != "ok %s %s %s" % (hex_tok(vps), hex_tok(sps), hex_tok(pps)):
            return (False, "lal's parser does not return the parameter sets: " + parts[1][:80])
        if parts[2] != "ok " + hex_tok(b"\0\0\0\1" + vps + b"\0\0\0\1" + sps + b"\0\0\0\1" + pps):
            return (False, "Annex-B form of the header is not start code + VPS + SPS + PPS")
        return (True, "")
    if op in ("c19.avc_parse", "c19.avc_2annexb"):
        # lal only promises anything for the single-SPS single-PPS record
        p = tok_bytes(f[1])
        if p[:5] != b"\x17\0\0\0\0":
            return None
        try:
            rec = ref_parse_avcc_record(p[5:])
        except (ValueError, IndexError):
            return None
        if op == "c19.avc_parse":
            if len(rec["sps"]) == 1 and len(rec["pps"]) == 1 and p[10] >> 5 == 7 and p[5 + 6 + 2 + len(rec["sps"][0])] < 32:
                return (out == "ok %s %s" % (hex_tok(rec["sps"][0]), hex_tok(rec["pps"][0])), "record with one SPS and one PPS not parsed back: " + out[:80])
            return None
        if p[10] >> 5 == 7 and p[5 + 6 + sum(2 + len(s) for s in rec["sps"])] < 32:
            want = b"".join(b"\0\0\0\1" + x for x in rec["sps"] + rec["pps"])
            return (out == "ok " + hex_tok(want), "Annex-B form is not the record's parameter sets in order")
        return None
    return None


def classify_finding(c, out):
    return None


def neighbors(c, rng):
    f = c.line.split(" ")
    if f[0] in ("c19.avc_sps", "c19.hevc_sps"):
        b = tok_bytes(f[1])
        for _ in range(40):
            m = bytearray(b)
            if not m:
                break
            i = rng.randrange(len(m))
            m[i] ^= 1 << rng.randrange(8)
            yield "%s %s" % (f[0], hex_tok(bytes(m)))
    if f[0] == "c19.avc_rt":
        for n in (1, 2, 5, 255, 256, 65535):
            yield "c19.avc_rt %s r%d.%d" % (f[1], n, rng.randrange(999))
