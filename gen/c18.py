# C18 - AMF0 encode/decode is exact, total and bounded; @setDataFrame handling; BuildMetadata read-back.
import os, re, struct
from lib.vf import Case
from gen.common import *

ID = "C18"
RULE = ("boundary sweep (string length 0..70000 incl. 65535/65536, key lengths, IEEE-754 bit patterns, int->float64 rounding, "
        "every type marker at every reader, every length/count field at len-1/len/len+1/max, nesting depth 31..34 per container kind, "
        "end-marker variants), structured random value trees from a python AMF0 reference encoder, and a mutation stream "
        "(truncate at every offset, byte flips, extreme length fields) through every exported Amf0.Read*, ParseMetadata, "
        "MetadataEnsureWith/WithoutSdf and BuildMetadata; a case is non-trivial when the model accepted its arguments, "
        "counted by distinct (case line)")
ASSUMPTIONS = ["64-bit Go int (len/int conversions of 32-bit fields never wrap)",
               "numbers are compared as IEEE-754 bit patterns (NaN payloads included)",
               "the 16 MiB nested-container message is exercised in the thorough tier; quick tier uses 1.2 MB (400k levels)",
               "lalprobe lowers Go's max stack to 64 MiB for c18.read so that a runaway recursion dies fast (C18_DEFAULT_STACK=1 disables)"]
FULL_OUTPUT = True
MAX_NEST = 32
SDF = b"@setDataFrame"
SDF_PREFIX = b"\x02\x00\x0d" + SDF


# --------------------------------------------------------------------------
# token helpers (C18 extends the bytes token with <count>*<hex>)
def c18_bytes(tok):
    if "+" in tok:
        return b"".join(c18_bytes(t) for t in tok.split("+"))
    if "*" in tok:
        n, h = tok.split("*")
        return tok_bytes(h) * int(n)
    return tok_bytes(tok)


def fnv1a64(b):
    h = 0xcbf29ce484222325
    for x in b:
        h = ((h ^ x) * 0x100000001b3) & 0xFFFFFFFFFFFFFFFF
    return h


def str_tok(s):
    if len(s) == 0:
        return "-"
    if len(s) <= 64:
        return s.hex()
    return "#%d.%016x" % (len(s), fnv1a64(s))


# --------------------------------------------------------------------------
# independent reference, written from the AMF0 specification (amf0-file-format-specification.pdf)
#   tree := ('n', bits) | ('b', bool) | ('s', bytes) | ('o', [(key, tree)]) | ('null',) | ('undef',)
#         | ('e', [(key, tree)]) | ('a', [tree]) | ('unsup',) | ('date', bits, tz) | ('ref', idx)
class RefError(Exception):
    pass


def ref_enc(t):
    k = t[0]
    if k == 'n':
        return b"\x00" + t[1].to_bytes(8, "big")
    if k == 'b':
        return b"\x01" + (b"\x01" if t[1] else b"\x00")
    if k == 's':
        if len(t[1]) <= 0xFFFF:
            return b"\x02" + len(t[1]).to_bytes(2, "big") + t[1]
        return b"\x0c" + len(t[1]).to_bytes(4, "big") + t[1]
    if k == 'o':
        return b"\x03" + b"".join(len(kk).to_bytes(2, "big") + kk + ref_enc(v) for kk, v in t[1]) + b"\x00\x00\x09"
    if k == 'null':
        return b"\x05"
    if k == 'undef':
        return b"\x06"
    if k == 'e':
        return b"\x08" + len(t[1]).to_bytes(4, "big") + b"".join(len(kk).to_bytes(2, "big") + kk + ref_enc(v) for kk, v in t[1]) + b"\x00\x00\x09"
    if k == 'a':
        return b"\x0a" + len(t[1]).to_bytes(4, "big") + b"".join(ref_enc(v) for v in t[1])
    if k == 'unsup':
        return b"\x0d"
    if k == 'date':
        return b"\x0b" + t[1].to_bytes(8, "big") + t[2].to_bytes(2, "big")
    if k == 'ref':
        return b"\x07" + t[1].to_bytes(2, "big")
    raise ValueError(k)


def _need(b, i, n):
    if len(b) - i < n:
        raise RefError("truncated at %d" % i)


def ref_utf8(b, i):
    _need(b, i, 2)
    l = int.from_bytes(b[i:i + 2], "big")
    _need(b, i + 2, l)
    return b[i + 2:i + 2 + l], i + 2 + l


def ref_pairs(b, i, depth, st):
    out = []
    while True:
        _need(b, i, 3)
        if b[i:i + 3] == b"\x00\x00\x09":
            return out, i + 3
        k, i = ref_utf8(b, i)
        v, i = ref_value(b, i, depth, st)
        out.append((k, v))


def ref_value(b, i, depth, st):
    """one value-type at offset i; depth = nesting depth of the value if it is a container; st collects facts"""
    _need(b, i, 1)
    m = b[i]
    if m == 0:
        _need(b, i + 1, 8)
        return ('n', int.from_bytes(b[i + 1:i + 9], "big")), i + 9
    if m == 1:
        _need(b, i + 1, 1)
        return ('b', b[i + 1] != 0), i + 2
    if m == 2:
        s, j = ref_utf8(b, i + 1)
        return ('s', s), j
    if m == 0x0c:
        _need(b, i + 1, 4)
        l = int.from_bytes(b[i + 1:i + 5], "big")
        _need(b, i + 5, l)
        return ('s', b[i + 5:i + 5 + l]), i + 5 + l
    if m == 5:
        return ('null',), i + 1
    if m == 6:
        return ('undef',), i + 1
    if m == 0x0d:
        return ('unsup',), i + 1
    if m in (3, 8, 0x0a):
        st["depth"] = max(st.get("depth", 0), depth)
        if depth > 2000:
            st["toodeep"] = True
            raise RefError("reference gives up beyond depth 2000")
    if m == 3:
        ps, j = ref_pairs(b, i + 1, depth + 1, st)
        return ('o', ps), j
    if m == 8:
        _need(b, i + 1, 4)
        cnt = int.from_bytes(b[i + 1:i + 5], "big")
        ps, j = ref_pairs(b, i + 5, depth + 1, st)
        if cnt != len(ps):
            st["ecma_count_mismatch"] = True
        return ('e', ps), j
    if m == 0x0a:
        _need(b, i + 1, 4)
        cnt = int.from_bytes(b[i + 1:i + 5], "big")
        j = i + 5
        out = []
        for _ in range(cnt):
            if len(b) - j < 1:
                raise RefError("truncated strict array")
            v, j = ref_value(b, j, depth + 1, st)
            out.append(v)
        return ('a', out), j
    if m == 0x0b:
        _need(b, i + 1, 10)
        st["unsupported_by_lal"] = True
        return ('date', int.from_bytes(b[i + 1:i + 9], "big"), int.from_bytes(b[i + 9:i + 11], "big")), i + 11
    if m == 7:
        _need(b, i + 1, 2)
        st["unsupported_by_lal"] = True
        return ('ref', int.from_bytes(b[i + 1:i + 3], "big")), i + 3
    raise RefError("marker 0x%02x not decodable by this reference" % m)


def interp(t):
    """how lal presents a value: None = member dropped"""
    k = t[0]
    if k == 'n':
        return "n%016x" % t[1]
    if k == 'b':
        return "b1" if t[1] else "b0"
    if k == 's':
        return "s" + str_tok(t[1])
    if k in ('o', 'e'):
        parts = []
        for kk, v in t[1]:
            s = interp(v)
            if s is not None:
                parts.append(str_tok(kk) + ":" + s)
        return "{" + ",".join(parts) + "}"
    if k == 'a':
        parts = []
        for v in t[1]:
            s = interp(v)
            if s is not None:
                parts.append("-:" + s)
        return "{" + ",".join(parts) + "}"
    return None


ENTRY_KIND = {"str": ("s",), "num": ("n",), "bool": ("b",), "null": ("null",), "obj": ("o",), "arr": ("e",), "sarr": ("a",),
              "ooa": ("o", "e")}


def f64_bits_of_int(i):
    return struct.unpack(">Q", struct.pack(">d", float(i)))[0]


# --------------------------------------------------------------------------
# written-value notation for c18.wobj
def wval_tree(vs):
    if vs[0] == 'n':
        return ('n', int(vs[1:], 16))
    if vs[0] == 'i':
        return ('n', f64_bits_of_int(int(vs[1:], 0)))
    if vs[0] == 'b':
        return ('b', vs[1:] == "1")
    if vs[0] == 's':
        return ('s', c18_bytes(vs[1:]))
    raise ValueError(vs)


def wpairs_tree(tok):
    if tok == "-":
        return []
    out = []
    for it in tok.split(","):
        k, v = it.split(":", 1)
        out.append((c18_bytes(k), wval_tree(v)))
    return out


# --------------------------------------------------------------------------
def lal_version():
    repo = os.environ.get("LAL_REPO", "/repo")
    try:
        txt = open(os.path.join(repo, "pkg/base/t_version.go")).read()
        m = re.search(r'var LalVersion = "v([^"]+)"', txt)
        return m.group(1)
    except Exception:
        return "0.0.0"


NUM_BITS = [0, 1, 0x8000000000000000, 0x3ff0000000000000, 0xbff0000000000000, 0x7ff0000000000000, 0xfff0000000000000,
            0x7ff8000000000000, 0x7ff0000000000001, 0xfff8000000000001, 0x7fefffffffffffff, 0x000fffffffffffff, 0x0010000000000000,
            0xffffffffffffffff, 0x4037000000000000, 0x0102030405060708, 0x00000000000000ff, 0xff00000000000000]
INTS = [0, 1, -1, 2, 7, 10, 12, 31, 255, 1080, 1920, -2, (1 << 31) - 1, -(1 << 31), 1 << 32, (1 << 52) + 1, (1 << 53) - 1, 1 << 53,
        (1 << 53) + 1, (1 << 53) + 2, (1 << 53) + 3, (1 << 54) + 2, (1 << 54) + 6, (1 << 62) + 1, (1 << 63) - 1, -(1 << 63),
        -(1 << 63) + 1, (1 << 63) - 512, (1 << 63) - 513, (1 << 63) - 1024, (1 << 60) + (1 << 7), (1 << 60) + (1 << 7) + 1,
        (1 << 60) + 3 * (1 << 7), -((1 << 53) + 1), -((1 << 53) + 3)]
STR_LENS = [0, 1, 2, 3, 13, 255, 256, 65534, 65535, 65536, 65537, 70000]
TRAILERS = ["-", "00", "000009", "0c", "616263"]
ENTRIES = ["strwo", "lstrwo", "str", "num", "bool", "null", "undef", "obj", "arr", "sarr", "ooa", "meta"]


def int_tok(i):
    return "i%d" % i if abs(i) < (1 << 60) else ("i-0x%x" % -i if i < 0 else "i0x%x" % i)


def rand_scalar(rng, allow_null=True):
    r = rng.random()
    if r < 0.3:
        return ('n', rng.choice(NUM_BITS + [rng.getrandbits(64)]))
    if r < 0.45:
        return ('b', rng.random() < 0.5)
    if r < 0.8 or not allow_null:
        n = rng.choice([0, 1, 2, 5, 13, 40, 300]) if rng.random() < 0.97 else rng.choice([65535, 65536, 66000])
        return ('s', bytes(rng.randrange(256) for _ in range(n)) if n < 400 else bytes([rng.randrange(256)]) * n)
    return rng.choice([('null',), ('undef',), ('unsup',)])


def rand_key(rng):
    r = rng.random()
    if r < 0.1:
        return b""
    if r < 0.9:
        return bytes(rng.choice(b"abcdefghijklmnopqrstuvwxyzDFS@") for _ in range(rng.randrange(1, 12)))
    return bytes(rng.randrange(256) for _ in range(rng.choice([1, 2, 255, 256, 300])))


def rand_tree(rng, depth, kind=None):
    """random container of nesting depth <= depth (depth >= 1)"""
    kind = kind or rng.choice("oea")
    n = rng.choice([0, 1, 1, 2, 3, 5])
    members = []
    for _ in range(n):
        if depth > 1 and rng.random() < 0.45:
            members.append(rand_tree(rng, depth - 1))
        else:
            members.append(rand_scalar(rng))
    if kind == 'a':
        return ('a', members)
    return (kind, [(rand_key(rng), m) for m in members])


def nest(kind_seq, inner=None):
    """container chain: kind_seq[0] outermost; innermost holds `inner` (or nothing)"""
    t = inner
    for k in reversed(kind_seq):
        if k == 'a':
            t = ('a', [t] if t is not None else [])
        else:
            t = (k, [(b"k", t)] if t is not None else [])
    return t


def entry_for(tree, rng):
    k = tree[0]
    if k == 'o':
        return rng.choice(["obj", "ooa"])
    if k == 'e':
        return rng.choice(["arr", "ooa"])
    if k == 'a':
        return "sarr"
    return {"n": "num", "b": "bool", "s": "str", "null": "null", "undef": "undef", "unsup": "undef"}[k]


def mutations(rng, enc, limit):
    """truncations, flips, extreme length fields of a valid encoding"""
    n = len(enc)
    outs = []
    cuts = range(n) if n <= limit else sorted(rng.sample(range(n), limit))
    for c in cuts:
        outs.append(enc[:c])
    for _ in range(min(limit, 2 * n)):
        i = rng.randrange(n)
        m = bytearray(enc)
        r = rng.random()
        if r < 0.4:
            m[i] = rng.choice([0, 1, 2, 3, 5, 6, 8, 9, 10, 11, 12, 13, 255, m[i] ^ 1, m[i] ^ 0x80])
        elif r < 0.6:
            m[i:i + 1] = b""
        elif r < 0.8:
            m[i:i] = bytes([rng.choice([0, 3, 8, 9, 10, 255])])
        else:
            w = rng.choice([2, 4])
            mask = (1 << (8 * w)) - 1
            m[i:i + w] = rng.choice([b"\xff" * w, b"\x00" * w, ((n - i) & mask).to_bytes(w, "big"), (max(0, n - i - w) & mask).to_bytes(w, "big")])
        outs.append(bytes(m))
    return outs


def gen_cases(tier, rng):
    thorough = tier == "thorough"
    # ---- writers + read-back -------------------------------------------------
    for bits in NUM_BITS + [rng.getrandbits(64) for _ in range(20)]:
        yield Case("c18.wnum 0x%x %s" % (bits, rng.choice(TRAILERS)), cls="w-num")
    for n in STR_LENS:
        for tr in (["-", "000009"] if n > 300 else TRAILERS):
            yield Case("c18.wstr %s %s" % (payload_tok(rng, n), tr), cls="w-str")
    yield Case("c18.wstr %s -" % hex_tok(SDF), cls="w-str")
    for v in (0, 1):
        for tr in TRAILERS:
            yield Case("c18.wbool %d %s" % (v, tr), cls="w-bool")
    for tr in TRAILERS:
        yield Case("c18.wnull %s" % tr, cls="w-null")
    # objects: one pair per boundary
    yield Case("c18.wobj - -", cls="w-obj")
    yield Case("c18.wobj - 000009", cls="w-obj")
    for i in INTS:
        yield Case("c18.wobj 6b:%s %s" % (int_tok(i), rng.choice(TRAILERS)), cls="w-obj-int")
    for bits in NUM_BITS:
        yield Case("c18.wobj 6b:n%016x -" % bits, cls="w-obj-num")
    for n in STR_LENS:
        yield Case("c18.wobj 6b:s%s %s" % (payload_tok(rng, n), rng.choice(TRAILERS)), cls="w-obj-str")
        yield Case("c18.wobj -:s%s,6b:b1 -" % payload_tok(rng, n), cls="w-obj-str")
    for kl in [0, 1, 2, 255, 256, 65534, 65535]:
        yield Case("c18.wobj %s:b1,%s:i5 %s" % (payload_tok(rng, kl), payload_tok(rng, kl), rng.choice(TRAILERS)), cls="w-obj-key")
    yield Case("c18.wobj -:b0 -", cls="w-obj-key")
    yield Case("c18.wobj -:n0000000000000000 -", cls="w-obj-key")
    yield Case("c18.wobj 0000:b0 -", cls="w-obj-key")
    for _ in range(300 if thorough else 80):
        ps = []
        for _ in range(rng.choice([1, 2, 3, 5, 8])):
            r = rng.random()
            if r < 0.3:
                v = "n%016x" % rng.choice(NUM_BITS + [rng.getrandbits(64)])
            elif r < 0.5:
                v = int_tok(rng.choice(INTS + [rng.getrandbits(64) - (1 << 63), rng.randrange(-5000, 5000)]))
            elif r < 0.65:
                v = "b%d" % rng.randrange(2)
            else:
                v = "s" + payload_tok(rng, rng.choice([0, 1, 5, 20, 100, 65535, 65536] if rng.random() < 0.15 else [0, 1, 5, 20, 100]))
            ps.append(hex_tok(rand_key(rng)) + ":" + v)
        yield Case("c18.wobj %s %s" % (",".join(ps), rng.choice(TRAILERS)), cls="w-obj-random")
    # ---- BuildMetadata -----------------------------------------------------
    ver = lal_version()
    enc_tok, ver_tok = hex_tok(("lal" + ver).encode()), hex_tok(ver.encode())
    dims = [-1, 0, 1, 7, 10, 12, 1080, 1920, 65535, -2, (1 << 53) + 1, -(1 << 63), (1 << 63) - 1]
    for w in dims[:8]:
        for a in (-1, 10):
            yield Case("c18.build %d %d %d %d %s %s" % (w, rng.choice(dims[:8]), a, rng.choice([-1, 7, 12]), enc_tok, ver_tok), cls="build")
    for _ in range(30):
        yield Case("c18.build %s %s" % (" ".join(int_tok(rng.choice(dims))[1:] for _ in range(4)), enc_tok + " " + ver_tok), cls="build")
    # ---- @setDataFrame ---------------------------------------------------------
    meta_obj = ref_enc(('s', b"onMetaData")) + ref_enc(('e', [(b"width", ('n', 0x409e000000000000)), (b"s", ('s', b"x"))]))
    sdf_inputs = [b"", b"\x02", b"\x02\x00", b"\x02\x00\x0d", SDF_PREFIX, SDF_PREFIX[:-1], SDF_PREFIX + meta_obj, meta_obj,
                  SDF_PREFIX + SDF_PREFIX + meta_obj, b"\x0c\x00\x00\x00\x0d" + SDF + meta_obj, b"\x0c\x00\x00\x00\x0d" + SDF,
                  b"\x02\x00\x0d@setDataFramf" + meta_obj, b"\x02\x00\x0e@setDataFrame1" + meta_obj, b"\x02\x00\x0c@setDataFram" + meta_obj,
                  b"\x03\x00\x00\x09", b"\x00" * 9, b"\x02\xff\xff" + b"a" * 100, b"\x0c\xff\xff\xff\xff" + SDF,
                  ref_enc(('s', b"a" * 65536)) + meta_obj, SDF_PREFIX + ref_enc(('s', b"a" * 65536))]
    for b in sdf_inputs:
        yield Case("c18.sdf %s" % hex_tok(b), cls="sdf")
    for b in (SDF_PREFIX + meta_obj, meta_obj):
        for m in mutations(rng, b, 60 if thorough else 25):
            yield Case("c18.sdf %s" % hex_tok(m), cls="sdf-mutated")
            yield Case("c18.read meta %s" % hex_tok(m), cls="meta-mutated")
    # ---- readers: marker sweep at every entry -------------------------------------
    for e in ENTRIES:
        yield Case("c18.read %s -" % e, cls="read-empty")
        for m in list(range(0, 18)) + [0x7f, 0x80, 0xff]:
            for tail in ("-", "00", "0000000000000000", "0000000100016b05000009", "000009"):
                yield Case("c18.read %s %02x+%s" % (e, m, tail), cls="read-marker")
    # element markers inside each container kind
    for m in list(range(0, 18)) + [0xff]:
        for tail in ("-", "00", "0000000000000000", "00000000000009", "0000000000000000000009"):
            yield Case("c18.read obj 0300016b%02x+%s+000009" % (m, tail), cls="elem-marker")
            yield Case("c18.read arr 080000000100016b%02x+%s+000009" % (m, tail), cls="elem-marker")
            yield Case("c18.read sarr 0a00000001%02x+%s" % (m, tail), cls="elem-marker")
    # length fields
    for have in [0, 1, 2, 3, 10]:
        for l in sorted(set([0, 1, max(0, have - 1), have, have + 1, 0xFFFF])):
            yield Case("c18.read strwo %04x+%s" % (l, hex_tok(b"a" * have)), cls="len-field")
            yield Case("c18.read str 02%04x+%s" % (l, hex_tok(b"a" * have)), cls="len-field")
            yield Case("c18.read obj 03%04x+%s+0101000009" % (l, hex_tok(b"a" * have)), cls="len-field")
        for l in sorted(set([0, 1, max(0, have - 1), have, have + 1, 0xFFFF, 0x10000, 0x7FFFFFFF, 0x80000000, 0xFFFFFFFF])):
            yield Case("c18.read lstrwo %08x+%s" % (l, hex_tok(b"a" * have)), cls="len-field")
            yield Case("c18.read str 0c%08x+%s" % (l, hex_tok(b"a" * have)), cls="len-field")
            yield Case("c18.read obj 0300016b0c%08x+%s+000009" % (l, hex_tok(b"a" * have)), cls="len-field")
    for n in [65534, 65535, 65536, 65537, 70000]:
        yield Case("c18.read str 0c%08x+r%d.5+01" % (n, n), cls="len-field-long")
        yield Case("c18.read str 0c%08x+r%d.5" % (n + 1, n), cls="len-field-long")
        yield Case("c18.read obj 0300016b0c%08x+r%d.5+000009" % (n, n), cls="len-field-long")
        yield Case("c18.read sarr 0a000000020c%08x+r%d.5+0101" % (n, n), cls="len-field-long")
        if n <= 65535:
            yield Case("c18.read str 02%04x+r%d.5+01" % (n, n), cls="len-field-long")
            yield Case("c18.read obj 03%04x+r%d.6+0101000009" % (n, n), cls="len-field-long")
    # number / boolean sizes
    for n in range(0, 11):
        yield Case("c18.read num %s" % hex_tok((b"\x00" + bytes(range(1, 12)))[:n]), cls="short")
        yield Case("c18.read bool %s" % hex_tok((b"\x01\x02\x03")[:n]), cls="short")
        yield Case("c18.read obj 0300016b+%s" % hex_tok((b"\x00" + bytes(range(1, 12)))[:n]), cls="short")
    # count fields
    for cnt in [0, 1, 2, 3, 0xFFFF, 0x7FFFFFFF, 0x80000000, 0xFFFFFFFF]:
        for body in ["-", "0501", "050505", "0100", "00016b05", "00016b0500016b0101", "00016b05000009", "00016b0500016b0101000009", "000009", "00000900"]:
            yield Case("c18.read sarr 0a%08x+%s" % (cnt, body), cls="count-field")
            yield Case("c18.read arr 08%08x+%s" % (cnt, body), cls="count-field")
            yield Case("c18.read ooa 08%08x+%s" % (cnt, body), cls="count-field")
    for e in ("arr", "sarr"):
        for n in range(0, 6):
            yield Case("c18.read %s %s" % (e, hex_tok((b"\x08" if e == "arr" else b"\x0a") + b"\x00\x00\x00\x00\x09"[:n])), cls="short")
    # end-marker variants
    for tail in ["-", "00", "0000", "000009", "00000900", "000008", "000109", "010009", "0000090000", "00000005000009", "0000000009"]:
        yield Case("c18.read obj 03+%s" % tail, cls="end-marker")
        yield Case("c18.read obj 0300016b0101+%s" % tail, cls="end-marker")
        yield Case("c18.read arr 080000000100016b0101+%s" % tail, cls="end-marker")
        yield Case("c18.read arr 0800000000+%s" % tail, cls="end-marker")
        yield Case("c18.read ooa 03+%s" % tail, cls="end-marker")
    # ---- nesting depth at the limit ----------------------------------------------
    for d in [1, 2, MAX_NEST - 1, MAX_NEST, MAX_NEST + 1, MAX_NEST + 2, 2 * MAX_NEST, 100]:
        for kinds in ("o", "e", "a", "oea", "aeo", "ao", "eo"):
            seq = [kinds[i % len(kinds)] for i in range(d)]
            for inner in (None, ('b', True), ('s', b"a" * 3)):
                t = nest(seq, inner)
                enc = ref_enc(t)
                e = {"o": "obj", "e": "arr", "a": "sarr"}[seq[0]]
                yield Case("c18.read %s %s" % (e, hex_tok(enc)), cls="nest-%d" % d)
                if seq[0] != 'a' and inner is None:
                    yield Case("c18.read ooa %s" % hex_tok(enc), cls="nest-%d" % d)
                    yield Case("c18.read meta %s" % hex_tok(SDF_PREFIX + ref_enc(('s', b"onMetaData")) + enc), cls="nest-%d" % d)
        # unterminated chains (what a hostile peer sends: 3 bytes per level)
        yield Case("c18.read obj 03+%d*000003" % (d - 1), cls="nest-%d" % d)
        yield Case("c18.read sarr %d*0a00000001" % d, cls="nest-%d" % d)
        yield Case("c18.read arr %d*08000000010000" % d, cls="nest-%d" % d)
    big = [400000, 5592404] if thorough else [400000]
    for n in big:
        yield Case("c18.read obj 03+%d*000003" % n, cls="nest-huge")
        yield Case("c18.read sarr %d*0a00000001" % (n * 3 // 5), cls="nest-huge")
        yield Case("c18.read arr %d*08000000010000" % (n * 3 // 7), cls="nest-huge")
        yield Case("c18.read meta %s+03+%d*000003" % (hex_tok(ref_enc(('s', b"onMetaData"))), n), cls="nest-huge")
    # wide (not deep) containers: many members, bounded stack, all consumed
    for n in ([1000, 200000] if not thorough else [1000, 200000, 3000000]):
        yield Case("c18.read sarr 0a%08x+%d*05" % (n, n), cls="wide")
        yield Case("c18.read sarr 0affffffff+%d*0101" % n, cls="wide")
        yield Case("c18.read obj 03+%d*00016b0101+000009" % n, cls="wide")
        yield Case("c18.read arr 08%08x+%d*00016b0a00000000+000009" % (n, n), cls="wide")
    # ---- structured random trees + mutation stream -----------------------------------
    ntrees = 900 if thorough else 220
    for i in range(ntrees):
        depth = rng.choice([1, 1, 2, 2, 3, 4, 6])
        t = rand_tree(rng, depth)
        enc = ref_enc(t)
        e = entry_for(t, rng)
        yield Case("c18.read %s %s" % (e, hex_tok(enc + rng.choice([b"", b"\x00", b"\x00\x00\x09", b"abc"]))), cls="tree")
        if t[0] in "oe" and rng.random() < 0.4:
            pre = rng.choice([b"", SDF_PREFIX]) + ref_enc(('s', rng.choice([b"onMetaData", b"", b"x" * 70000 if rng.random() < 0.05 else b"onFoo"])))
            yield Case("c18.read meta %s" % hex_tok(pre + enc), cls="tree-meta")
        if i % 3 == 0 and len(enc) < 4000:
            for m in mutations(rng, enc, 40 if thorough else 12):
                yield Case("c18.read %s %s" % (e, hex_tok(m)), cls="mutated")
    for _ in range(2000 if thorough else 300):
        n = rng.choice([1, 2, 3, 5, 8, 13, 21, 40])
        b = bytes(rng.choice([0, 0, 0, 1, 2, 3, 3, 5, 6, 8, 9, 10, 12, 13, rng.randrange(256)]) for _ in range(n))
        yield Case("c18.read %s %s" % (rng.choice(ENTRIES), hex_tok(b)), cls="random-bytes")
    # scalar trees at the typed entries
    for _ in range(60):
        t = rand_scalar(rng)
        yield Case("c18.read %s %s" % (entry_for(t, rng), hex_tok(ref_enc(t) + rng.choice([b"", b"\x01"]))), cls="scalar")


def nontrivial(c, out):
    if out.startswith(("bad", "model-", "unknown")):
        return None
    return c.line


# --------------------------------------------------------------------------
# the property evaluated on the implementation's observation
def _crashed(out):
    return out.startswith(("panic", "crash@", "timeout", "not-run", "?")) or "panic@" in out or " ?" in out


def _expect_read(entry, b):
    """(kind, expected_line_or_None).  kind: 'exact' (spec-valid value lal supports, within the nesting limit)
    or 'total' (only termination / bounds are required)"""
    st = {}
    try:
        if entry in ("strwo", "lstrwo"):
            w = 2 if entry == "strwo" else 4
            _need(b, 0, w)
            l = int.from_bytes(b[:w], "big")
            _need(b, w, l)
            return "exact", "ok s%s 0x%x" % (str_tok(b[w:w + l]), w + l)
        if entry == "undef":
            _need(b, 0, 1)
            if b[0] in (6, 0x0d):
                return "exact", "ok _ 0x1"
            return "total", None
        if entry == "meta":
            v, i = ref_value(b, 0, 0, st)
            if v[0] != 's':
                return "total", None
            if v[1] == SDF:
                v2, i = ref_value(b, i, 0, st)
                if v2[0] != 's':
                    return "total", None
            t, j = ref_value(b, i, 1, st)
            if t[0] not in ('o', 'e') or st.get("ecma_count_mismatch") or st.get("unsupported_by_lal") or st.get("depth", 0) > MAX_NEST:
                return "total", None
            return "exact", "ok " + interp(t)
        t, j = ref_value(b, 0, 1, st)
        if t[0] not in ENTRY_KIND[entry]:
            return "total", None
        if st.get("ecma_count_mismatch") or st.get("unsupported_by_lal") or st.get("depth", 0) > MAX_NEST:
            return "total", None
        if t[0] == 'null':
            return "exact", "ok _ 0x1"
        return "exact", "ok %s 0x%x" % (interp(t), j)
    except RefError:
        return "total", None
    except RecursionError:
        return "total", None


def _check_total(out, n):
    if _crashed(out):
        return (False, "decoder did not terminate with a value or an error: " + out[:120])
    f = out.split(" ")
    if f[0] == "err":
        return (True, "")
    if f[0] == "ok":
        if len(f) >= 3:
            used = int(f[2], 16)
            if used < 0 or used > n:
                return (False, "consumed %d bytes of a %d byte input" % (used, n))
        return (True, "")
    return (False, "unrecognised output " + out[:120])


def _ens(tok):
    """'<bytes>' or '<bytes>!<err>' -> (bytes, err or None)"""
    if "!" in tok:
        b, e = tok.split("!")
        return tok_bytes(b), e
    return tok_bytes(tok), None


def ref_with(b):
    try:
        v, i = ref_value(b, 0, 0, {})
    except RefError:
        return b, True
    if v[0] != 's':
        return b, True
    return (b if v[1] == SDF else SDF_PREFIX + b), False


def ref_without(b):
    try:
        v, i = ref_value(b, 0, 0, {})
    except RefError:
        return b, True
    if v[0] != 's':
        return b, True
    return (b[i:] if v[1] == SDF else b), False


def oracle(c, out):
    f = c.line.split(" ")
    op = f[0]
    if _crashed(out):
        return (False, "implementation crashed or did not finish: " + out[:160])
    try:
        if op in ("c18.wnum", "c18.wstr", "c18.wbool", "c18.wnull", "c18.wobj"):
            o = out.split(" ", 1)
            written = tok_bytes(o[0])
            if op == "c18.wnum":
                tree, trailer, ent = ('n', num(f[1])), f[2], "num"
            elif op == "c18.wstr":
                tree, trailer, ent = ('s', c18_bytes(f[1])), f[2], "str"
            elif op == "c18.wbool":
                tree, trailer, ent = ('b', f[1] == "1"), f[2], "bool"
            elif op == "c18.wnull":
                tree, trailer, ent = ('null',), f[1], "null"
            else:
                tree, trailer, ent = ('o', wpairs_tree(f[1])), f[2], "obj"
            # (a) an independent AMF0 reader gets the value back from lal's bytes, and all of them
            try:
                got, j = ref_value(written, 0, 1, {})
            except RefError as e:
                return (False, "lal's encoding is not valid AMF0: %s" % e)
            if got != tree or j != len(written):
                return (False, "reference AMF0 reader decodes lal's bytes to a different value (or length %d of %d)" % (j, len(written)))
            # (b) lal's reader on lal's bytes followed by arbitrary bytes
            want = "ok %s 0x%x" % ("_" if tree[0] == 'null' else interp(tree), len(written))
            if o[1] != want:
                return (False, "lal does not read back what it wrote: got `%s` want `%s`" % (o[1][:100], want[:100]))
            return (True, "")
        if op == "c18.read":
            b = c18_bytes(f[2])
            kind, want = _expect_read(f[1], b)
            if kind == "exact":
                return (out == want, "spec-valid value decoded as `%s`, AMF0 reference says `%s`" % (out[:100], want[:100]))
            return _check_total(out, len(b))
        if op == "c18.sdf":
            b = c18_bytes(f[1])
            o = dict(x.split("=", 1) for x in out.split(" "))
            w, werr = ref_with(b)
            wo, woerr = ref_without(b)
            exp = {"w": (w, werr), "wo": (wo, woerr), "wow": ref_without(w), "wwo": ref_with(wo), "ww": ref_with(w), "wowo": ref_without(wo)}
            for k, (eb, eerr) in exp.items():
                gb, gerr = _ens(o[k])
                if gb != eb or (gerr is not None) != eerr:
                    return (False, "%s: metadata bytes after adding/stripping @setDataFrame differ from the reference" % k)
            # the laws themselves, on the implementation's bytes
            gw, gwo = _ens(o["w"])[0], _ens(o["wo"])[0]
            if not (gw == b or gw == SDF_PREFIX + b):
                return (False, "with-sdf changed the remaining bytes")
            if not (gwo == b or SDF_PREFIX + gwo == b or (b[:1] == b"\x0c" and b.endswith(gwo))):
                return (False, "without-sdf changed the remaining bytes")
            # with(with b) = with b ; without(with b) = without b.  (without is idempotent only when the
            # prefix is not doubled: without(sdf+sdf+m) = sdf+m, checked against the reference above)
            if _ens(o["ww"])[0] != gw or _ens(o["wow"])[0] != gwo:
                return (False, "with/without law fails")
            return (True, "")
        if op == "c18.build":
            if out.startswith("const-mismatch"):
                return None
            o = out.split(" ", 1)
            written = tok_bytes(o[0])
            args = [int(x, 0) for x in f[1:5]]
            enc, ver = c18_bytes(f[5]), c18_bytes(f[6])
            fields = [(k, ('n', f64_bits_of_int(v))) for k, v in zip([b"width", b"height", b"audiocodecid", b"videocodecid"], args) if v != -1]
            fields += [(b"version", ('s', enc)), (b"lal", ('s', ver))]
            try:
                name, i = ref_value(written, 0, 0, {})
                obj, j = ref_value(written, i, 1, {})
            except RefError as e:
                return (False, "BuildMetadata output is not valid AMF0: %s" % e)
            if name != ('s', b"onMetaData") or obj != ('o', fields) or j != len(written):
                return (False, "BuildMetadata output does not carry exactly the fields it was built from")
            want = "ok " + interp(('o', fields))
            return (o[1] == want, "ParseMetadata(BuildMetadata(..)) = `%s` want `%s`" % (o[1][:120], want[:120]))
    except (ValueError, KeyError, IndexError) as e:
        return (False, "unparsable implementation output (%s): %s" % (e, out[:120]))
    return None


def classify_finding(c, out):
    return None


def neighbors(c, rng):
    f = c.line.split(" ")
    if f[0] == "c18.read":
        try:
            b = c18_bytes(f[2])
        except Exception:
            return
        if len(b) > 5000:
            return
        for m in mutations(rng, b, 30) if b else []:
            for e in (f[1], rng.choice(ENTRIES)):
                yield "c18.read %s %s" % (e, hex_tok(m))
    elif f[0] == "c18.wobj":
        for n in STR_LENS:
            yield "c18.wobj 6b:s%s -" % payload_tok(rng, n)
        for i in INTS:
            yield "c18.wobj 6b:%s -" % int_tok(i)
    elif f[0] == "c18.wstr":
        for n in STR_LENS:
            yield "c18.wstr %s -" % payload_tok(rng, n)
