# C19 part B: NAL unit framing - Annex B byte streams (start codes) <-> AVCC
# (ISO 14496-15 length prefixed) - avc.IterateNaluAnnexb / IterateNaluAvcc /
# Avcc2Annexb / Annexb2Avcc / IterateNaluStartCode, h2645.JoinNaluAvcc.
import itertools
from lib.vf import Case
from gen.common import *

OPS = {"c19.startcode", "c19.split_annexb", "c19.split_avcc", "c19.avcc2annexb", "c19.annexb2avcc", "c19.join_avcc",
       "c19.framing_rt", "c19.capture_avcc"}
RULE = ("framing: every byte string over {00,01,02} up to length 7 as Annex B stream (and every start offset for the start-code scan), "
        "every two-record AVCC buffer with length fields 0..3 truncated at every offset; NAL lists from a generator that respects "
        "H.264 7.4.1 (no 000000/000001/000002 inside, no trailing 00) joined with 3-/4-/longer start codes, zero bytes between units, "
        "leading and trailing zero bytes, and joined with 4-byte lengths; hostile: truncation at every offset, length fields "
        "0,1,len-1,len,len+1,7fffffff,80000000,ffffffff, byte mutations biased to 00/01/03; unit sizes up to 70000; the oracle is an "
        "independent H.264 B.1.1 byte-stream reader and an ISO 14496-15 length-prefixed reader; non-trivial = output has an ok part and the case is new")
ASSUMPTIONS = ["nil slices are not passed (the harness turns '-' into an empty non-nil slice); nil returns print like empty slices",
               "CaptureAvcc2Annexb is called with cap(payload) = len(payload); it is compared model-vs-code only (debug helper)"]


# ------------------------------------------------------------------ references (spec side)
def ref_annexb(b):
    """H.264 Annex B.1.1 byte_stream_nal_unit syntax + B.2 (a NAL unit ends at the next 000000 / 000001 or at the end of the
    stream) + 7.4.1 (its last byte is not 00, so zero bytes at the very end are trailing_zero_8bits).
    Returns the NAL unit list, raises ValueError when b is not a byte stream of at least one unit."""
    n = len(b)
    i = 0
    units = []
    while True:
        # leading_zero_8bits / zero_byte / trailing_zero_8bits of the previous unit: all must be 00
        while i < n and b[i:i + 3] != b"\0\0\1":
            if b[i] != 0:
                raise ValueError("byte %02x at %d outside a NAL unit" % (b[i], i))
            i += 1
        if i >= n:
            break
        i += 3
        j = i
        while j < n and b[j:j + 3] not in (b"\0\0\0", b"\0\0\1"):
            j += 1
        nal = b[i:j]
        if j >= n:
            nal = nal.rstrip(b"\0")
        if not nal:
            raise ValueError("empty NAL unit at %d" % i)
        units.append(bytes(nal))
        i = i + len(nal)
    if not units:
        raise ValueError("no start code")
    return units


def ref_avcc(b):
    """ISO 14496-15 5.2.3 sample: (NALUnitLength u(32), NAL unit) repeated, tiling the buffer exactly; a NAL unit has at least its header byte"""
    i, n, units = 0, len(b), []
    while i < n:
        if n - i < 4:
            raise ValueError("truncated length field")
        ln = int.from_bytes(b[i:i + 4], "big")
        if ln == 0 or ln > n - i - 4:
            raise ValueError("bad length %d at %d" % (ln, i))
        units.append(bytes(b[i + 4:i + 4 + ln]))
        i += 4 + ln
    if not units:
        raise ValueError("empty")
    return units


def nal_ok(u):
    """7.4.1 / 7.4.1.1: what emulation prevention guarantees for a NAL unit"""
    return len(u) > 0 and u[-1] != 0 and b"\0\0\0" not in u and b"\0\0\1" not in u and b"\0\0\2" not in u


def ref_startcode(b, start):
    """first 000001 at or after start, extended over the zero bytes in front of it (not before start)"""
    k = b.find(b"\0\0\1", start)
    if start >= len(b) or k < 0:
        return None
    p = k
    while p > start and b[p - 1] == 0:
        p -= 1
    return (p, k + 3 - p)


# ------------------------------------------------------------------ generators
def rand_nal(rng, n):
    """a NAL unit of n bytes that satisfies nal_ok, rich in 00 / 01 / 03 bytes"""
    out = bytearray()
    while len(out) < n:
        c = rng.choice([0, 0, 0, 1, 1, 3, 2, 0x65, 0x41, 0xff, rng.randrange(256)])
        if len(out) >= 2 and out[-1] == 0 and out[-2] == 0 and c <= 2:
            c = 3
        out.append(c)
    if out[-1] == 0:
        out[-1] = 0x80
    if len(out) >= 3 and out[-3] == 0 and out[-2] == 0 and out[-1] <= 2:
        out[-1] = 0x80
    return bytes(out)


def join_annexb(rng, units, trailing=None):
    out = bytearray(b"\0" * rng.choice([0, 0, 0, 1, 2]))
    for u in units:
        out += b"\0" * rng.choice([2, 2, 3, 3, 3, 4, 5, 9]) + b"\1" + u
    out += b"\0" * (rng.choice([0, 0, 0, 1, 2, 3, 4]) if trailing is None else trailing)
    return bytes(out)


def join_avcc(units):
    return b"".join(len(u).to_bytes(4, "big") + u for u in units)


def units_tok(units):
    return ",".join(hex_tok(u) for u in units) if units else "."


LENS = (0, 1, 2, 3, 4, 5, 0x7fffffff, 0x80000000, 0xffffffff, 0x100, 0x10000, 0x1000000)


def gen_cases(tier, rng):
    q = tier == "quick"
    T = hex_tok
    # ---- boundary / corpus: lal's unit-test vectors, the c19_annexb_trailing_zeros witnesses, start-code shapes
    for s in ["-", "00", "0000", "000001", "00000001", "0000010a0b", "000000010a0b000000010c0d", "0a0b", "000001000001", "0a00000001",
              "0001", "0000016588", "000001658800", "00000165880000", "0000016588000000", "000001658800000000014188", "00000165880000000001418800",
              "ff0000016588", "000001658800000141", "00000165000002", "0000016500000300", "00000100", "0000010000", "000000", "00000000000001",
              "00000165000000", "000001650000000165", "0000010000000165", "00000167640028000001" + "68ee3c80" + "0000000165b8", "0000020000016501"]:
        yield Case("c19.split_annexb " + s, cls="annexb-boundary")
        yield Case("c19.annexb2avcc " + s, cls="annexb-boundary")
        yield Case("c19.framing_rt " + s, cls="rt-boundary")
    for s in ["-", "00", "0000", "000000", "00000000", "000000010a", "000000010a000000020a0b", "00000001", "000000020a", "0000000000000001aa",
              "00000001aa00000000", "00000001aa0000000000000001bb", "00000000000000000000000100", "ffffffffaa", "80000000aa", "7fffffffaa",
              "00000001aa000000", "00000001aabb", "00000002aa", "0000000100", "00000003000001"]:
        yield Case("c19.split_avcc " + s, cls="avcc-boundary")
        yield Case("c19.avcc2annexb " + s, cls="avcc-boundary")
    for s in [".", "-", "aa", "aa,bb", "-,aa", "aa,-", "0000000165", "r255.1", "r256.2,r65535.3", "r65536.4", "00,00"]:
        yield Case("c19.join_avcc " + s, cls="join-boundary")
    for s in ["-", "17", "1700", "1701", "27", "2701000000", "27010000", "270100000000", "27010000000000", "2701000000000000",
              "270100000000000000", "270100000000000001", "270100000000000001aa", "270100000000000002aa", "270100000000000001aabb",
              "2701000000ffffffffaa", "170100000000000001aa", "1700000000", "17000000000164001fffe100046764001f010003" + "68ee3c",
              "17000000000164001fffe100046764001f010004" + "68ee3c"]:
        yield Case("c19.capture_avcc " + s, cls="capture")

    # ---- exhaustive small scope
    for n in range(0, 8 if q else 10):
        for t in itertools.product((0, 1, 2), repeat=n):
            b = bytes(t)
            yield Case("c19.split_annexb " + T(b), cls="annexb-exhaustive")
            if n <= 6:
                yield Case("c19.annexb2avcc " + T(b), cls="annexb-exhaustive")
            if n <= 5:
                for st in range(n + 2):
                    yield Case("c19.startcode %s %d" % (T(b), st), cls="startcode-exhaustive")
    for l1 in range(4):
        for l2 in range(4):
            full = bytes([0, 0, 0, l1]) + b"\xa1\xa2\xa3"[:max(l1, 1)] + bytes([0, 0, 0, l2]) + b"\xb1\xb2\xb3"[:l2] + b"\xcc"
            for k in range(len(full) + 1):
                yield Case("c19.split_avcc " + T(full[:k]), cls="avcc-exhaustive")
                yield Case("c19.avcc2annexb " + T(full[:k]), cls="avcc-exhaustive")

    # ---- structured random, valid by construction
    valid = []
    for i in range(250 if q else 3000):
        k = rng.choice([1, 1, 2, 2, 3, 4, 6, 12])
        units = [rand_nal(rng, rng.choice([1, 1, 2, 3, 4, 5, 8, 17, 40, 200])) for _ in range(k)]
        stream = join_annexb(rng, units)
        av = join_avcc(units)
        valid.append((units, stream, av))
        yield Case("c19.split_annexb " + T(stream), cls="annexb-valid")
        yield Case("c19.annexb2avcc " + T(stream), cls="annexb-valid")
        yield Case("c19.framing_rt " + T(stream), cls="rt-valid")
        yield Case("c19.split_avcc " + T(av), cls="avcc-valid")
        yield Case("c19.avcc2annexb " + T(av), cls="avcc-valid")
        yield Case("c19.join_avcc " + units_tok(units), cls="join-valid")
        yield Case("c19.capture_avcc " + T(b"\x27\1\0\0\0" + av), cls="capture")
        yield Case("c19.startcode %s %d" % (T(stream), rng.randrange(len(stream) + 1)), cls="startcode-valid")
    # trailing_zero_8bits after the last unit: 1..6 zero bytes, every unit count
    for i in range(40 if q else 400):
        units = [rand_nal(rng, rng.choice([1, 2, 5, 30])) for _ in range(rng.choice([1, 2, 3]))]
        stream = join_annexb(rng, units, trailing=1 + i % 6)
        yield Case("c19.split_annexb " + T(stream), cls="annexb-trailing-zeros")
        yield Case("c19.annexb2avcc " + T(stream), cls="annexb-trailing-zeros")
        yield Case("c19.framing_rt " + T(stream), cls="rt-trailing-zeros")
    # big units (r tokens: pseudo-random bytes, may or may not contain start codes - the readers decide)
    for n in ([255, 256, 65535, 65536, 70000] if q else [255, 256, 4095, 65535, 65536, 70000, 200000]):
        seed = rng.randrange(1 << 16)
        yield Case("c19.split_annexb 000001+r%d.%d+0000000001+r%d.%d" % (n, seed, n // 2 + 1, seed + 1), cls="annexb-big")
        yield Case("c19.framing_rt 00000001+r%d.%d+000001+41e0" % (n, seed), cls="rt-big")
        yield Case("c19.split_avcc %s+r%d.%d+00000002+4188" % (T(n.to_bytes(4, "big")), n, seed), cls="avcc-big")
        yield Case("c19.avcc2annexb %s+r%d.%d" % (T(n.to_bytes(4, "big")), n, seed), cls="avcc-big")
        yield Case("c19.join_avcc r%d.%d,r%d.%d" % (n, seed, 3, seed), cls="join-big")

    # ---- hostile
    picks = valid[:6] if q else valid[:60]
    for units, stream, av in picks:
        for k in range(len(stream) + 1):
            yield Case("c19.split_annexb " + T(stream[:k]), cls="annexb-truncated")
            if k % 3 == 0:
                yield Case("c19.annexb2avcc " + T(stream[:k]), cls="annexb-truncated")
                yield Case("c19.framing_rt " + T(stream[k:]), cls="rt-truncated")
        for k in range(len(av) + 1):
            yield Case("c19.split_avcc " + T(av[:k]), cls="avcc-truncated")
            yield Case("c19.avcc2annexb " + T(av[:k]), cls="avcc-truncated")
            if k % 4 == 0:
                yield Case("c19.capture_avcc " + T(b"\x27\1\0\0\0" + av[:k]), cls="capture")
        # every length field set to the boundary values around the true one and around what is left
        pos = 0
        for u in units:
            left = len(av) - pos - 4
            for v in set(LENS + (len(u) - 1, len(u) + 1, left - 1, left, left + 1)):
                if 0 <= v < 1 << 32:
                    m = av[:pos] + v.to_bytes(4, "big") + av[pos + 4:]
                    yield Case("c19.split_avcc " + T(m), cls="avcc-lenfield")
                    yield Case("c19.avcc2annexb " + T(m), cls="avcc-lenfield")
                    if pos == 0:
                        yield Case("c19.capture_avcc " + T(b"\x27\1\0\0\0" + m), cls="capture")
            pos += 4 + len(u)
    for units, stream, av in (valid[:40] if q else valid[:400]):
        for _ in range(4):
            for src, ops in ((stream, ("c19.split_annexb", "c19.annexb2avcc", "c19.framing_rt")), (av, ("c19.split_avcc", "c19.avcc2annexb"))):
                m = bytearray(src)
                for _ in range(rng.choice([1, 1, 2, 3])):
                    i = rng.randrange(len(m))
                    m[i] = rng.choice([0, 0, 1, 1, 3, 2, 0xff, rng.randrange(256)])
                yield Case("%s %s" % (rng.choice(ops), T(bytes(m))), cls=ops[0][4:] + "-mutated")


def nontrivial(c, out):
    if "ok" not in out.split(" "):
        return None
    return c.line


# ------------------------------------------------------------------ oracle
def _framed(s):
    """'[a,b] ok' -> (units, status)"""
    lst, st = s.split(" ", 1)
    inner = lst[1:-1]
    return ([tok_bytes(t) for t in inner.split(",")] if inner else []), st


def _conv(s):
    b, st = s.split(" ", 1)
    return tok_bytes(b), st


def _try(f, b):
    try:
        return f(b)
    except ValueError:
        return None


def oracle(c, out):
    f = c.line.split(" ")
    op = f[0]
    if out == "panic" and op != "c19.capture_avcc":
        return (False, "panic in a framing function")
    if "differs" in out:
        return (False, "the Split/h2645 wrapper and the iterator disagree: " + out[:80])
    if op == "c19.startcode":
        b, st = tok_bytes(f[1]), int(f[2])
        want = ref_startcode(b, st)
        got = None if out == "none" else tuple(num(x) for x in out.split(" "))
        return (got == want, "start code scan from %d: got %r, the first 000001 with its leading zeros is %r" % (st, got, want))
    if op == "c19.split_annexb":
        want = _try(ref_annexb, tok_bytes(f[1]))
        if want is None:
            return None         # not a byte stream (lal additionally tolerates garbage in front of the first start code)
        got = _framed(out)
        return (got == (want, "ok"), "Annex B reader finds %d units %s, lal hands out %s" % (
            len(want), [u.hex() for u in want][:4], out[:120]))
    if op == "c19.split_avcc":
        want = _try(ref_avcc, tok_bytes(f[1]))
        if want is None:
            return None
        return (_framed(out) == (want, "ok"), "length-prefixed reader finds %d units, lal hands out %s" % (len(want), out[:120]))
    if op == "c19.avcc2annexb":
        want = _try(ref_avcc, tok_bytes(f[1]))
        if want is None:
            return None
        got, st = _conv(out)
        if st != "ok" or got != b"".join(b"\0\0\0\1" + u for u in want):
            return (False, "not 00000001 + unit for each unit: " + out[:120])
        if all(nal_ok(u) for u in want) and _try(ref_annexb, got) != want:
            return (False, "the Annex B reader does not find the units in the converted stream")
        return (True, "")
    if op == "c19.annexb2avcc":
        want = _try(ref_annexb, tok_bytes(f[1]))
        if want is None:
            return None
        got, st = _conv(out)
        back = _try(ref_avcc, got)
        return (st == "ok" and back == want, "Annex B reader finds %s, the AVCC output %s carries %s" % (
            [u.hex() for u in want][:4], out[:100], None if back is None else [u.hex() for u in back][:4]))
    if op == "c19.join_avcc":
        units = [] if f[1] == "." else [tok_bytes(t) for t in f[1].split(",")]
        got = tok_bytes(out)
        if not units:
            return (got == b"", "no unit, output not empty")
        if any(len(u) == 0 for u in units):
            return None
        return (_try(ref_avcc, got) == units, "length-prefixed reader does not find the joined units")
    if op == "c19.framing_rt":
        want = _try(ref_annexb, tok_bytes(f[1]))
        if want is None:
            return None
        p = out.split(" | ")
        av, st1 = _conv(p[0])
        y, st3 = _conv(p[2])
        if st1 != "ok" or _try(ref_avcc, av) != want:
            return (False, "Annex B -> AVCC loses the unit list: " + p[0][:100])
        if _framed(p[1]) != (want, "ok"):
            return (False, "lal's AVCC iterator on the converted buffer: " + p[1][:100])
        if st3 != "ok" or _try(ref_annexb, y) != want:
            return (False, "AVCC -> Annex B loses the unit list: " + p[2][:100])
        if _framed(p[3]) != (want, "ok"):
            return (False, "lal's Annex B iterator on the re-converted stream: " + p[3][:100])
        return (True, "")
    return None


def classify_finding(c, out):
    return None


def neighbors(c, rng):
    f = c.line.split(" ")
    if f[0] in OPS and f[0] not in ("c19.join_avcc", "c19.startcode"):
        b = tok_bytes(f[1])
        for k in range(min(len(b), 24)):
            yield "%s %s" % (f[0], hex_tok(b[:len(b) - k]))
        for _ in range(30):
            m = bytearray(b)
            if not m:
                break
            m[rng.randrange(len(m))] = rng.choice([0, 1, 2, 3, 0xff])
            yield "%s %s" % (f[0], hex_tok(bytes(m)))
