# C09 - MPEG-TS packetisation is well-formed and lossless for every frame.
#
# Generator (boundary sweep + structured random) and the python oracle: an
# independent ISO/IEC 13818-1 TS / PES / PSI demultiplexer, written from the
# standard, evaluated on the bytes the implementation produced.
from lib.vf import Case
from gen.common import *

ID = "C09"
RULE = ("exhaustive sweep of Frame.Pack over every payload length 1..1200 x key x (PTS=DTS | PTS!=DTS) x (video|audio PID) x "
        "incoming cc in {0,15,255} with PTS/DTS rotating through the 33-bit / 64-bit boundary values; PTS x DTS boundary cross, "
        "PES_packet_length clamp boundary, stuffing boundaries far into long frames, all 256 incoming counters, PID/stream-id sweep, "
        "random lengths up to 200 KiB, random multi-frame sequences with the counter carried across frames, PackPat, PackPmt over "
        "the codec-id table (and ints outside it), CalcCrc32 on every single byte (= every table entry) and random buffers; "
        "a case is non-trivial when it is a distinct input whose model output is not an error")
ASSUMPTIONS = ["PES_packet_length = 0 (frames > 65527 bytes) is accepted by the reference demuxer for every stream id, not only video",
               "Frame.Pid < 2^13 (the TS header has 13 PID bits); frames with len(Raw) = 0 produce no packet and are outside the property",
               "the recovered PTS/DTS are Frame.Pts/Dts + 63000 (lal's constant 700 ms PCR lead) modulo 2^33, the recovered PCR base is max(Dts-63000,0) modulo 2^33"]
FULL_OUTPUT = True
TIMEOUT = 1800

DELAY = 63000
M33 = 1 << 33
M64 = 1 << 64

TS_VALUES = [0, 1, 62999, 63000, 63001, 90000, (1 << 15) - 1, 1 << 15, (1 << 30) - DELAY - 1, (1 << 30) - DELAY, (1 << 30) - 1,
             1 << 30, (1 << 30) + 12345, (1 << 31) - DELAY, 1 << 31, 3 << 30, (1 << 32) - 1, 1 << 32, 5 << 30, 7 << 30, M33 - DELAY - 1,
             M33 - DELAY, M33 - 1, M33, M33 + 5, 0x123456789, 1 << 63, M64 - DELAY - 1, M64 - DELAY, M64 - 1]
VIDEO = (0x100, 0xE0)
AUDIO = (0x101, 0xC0)

# ---------------------------------------------------------------- payload tokens (fast decode)
_seed_cache = {}


def raw_of(tok):
    """like gen.common.tok_bytes, with a per-seed cache for r<len>.<seed> (prefix-closed)"""
    if tok and tok[0] == "r" and "+" not in tok:
        n, seed = tok[1:].split(".")
        n, seed = int(n), int(seed)
        have = _seed_cache.get(seed, b"")
        if len(have) < n:
            m = max(n, 2 * len(have), 4096)
            have = bytes(prng_byte(seed, i) for i in range(m))
            _seed_cache[seed] = have
        return have[:n]
    return tok_bytes(tok)


def pack_line(pid, sid, key, pts, dts, cc, raw):
    return "c09.pack 0x%x 0x%x %d 0x%x 0x%x %d %s" % (pid, sid, 1 if key else 0, pts, dts, cc, raw)


def first_capacity(key, has_dts):
    return 188 - 4 - (8 if key else 0) - (19 if has_dts else 14)


def gen_cases(tier, rng):
    thorough = tier == "thorough"
    # (i) exhaustive small lengths
    k = 0
    for n in range(1, 1201):
        for key in (0, 1):
            for diff in (0, 1):
                for (pid, sid) in (VIDEO, AUDIO):
                    for cc in (0, 15, 255):
                        k += 1
                        pts = TS_VALUES[k % len(TS_VALUES)]
                        dts = pts if not diff else TS_VALUES[(k * 7 + 3) % len(TS_VALUES)]
                        if diff and dts == pts:
                            dts = (pts + 1) % M64
                        yield Case(pack_line(pid, sid, key, pts, dts, cc, "r%d.%d" % (n, n % 5)), cls="sweep-len")
    if thorough:
        # every length up to 20000: the flag combination rotates with the length, all
        # eight combinations where the last packet is within 3 bytes of full / empty
        for n in range(1201, 20001):
            combos = [(n >> 0) & 1 | ((n // 184) & 1) << 1 | ((n // 7) & 1) << 2]
            if any((n - first_capacity(kk, dd)) % 184 in (181, 182, 183, 0, 1, 2, 3) for kk in (0, 1) for dd in (0, 1)):
                combos = range(8)
            for c in combos:
                key, diff, av = c & 1, (c >> 1) & 1, (c >> 2) & 1
                pid, sid = (VIDEO, AUDIO)[av]
                k += 1
                pts = TS_VALUES[k % len(TS_VALUES)]
                dts = pts if not diff else (pts + 3003) % M64
                yield Case(pack_line(pid, sid, key, pts, dts, (n * 7 + c) % 256, "r%d.%d" % (n, n % 5)), cls="sweep-len-long")
    # (ii) PTS x DTS boundary cross
    for pts in TS_VALUES:
        for dts in TS_VALUES:
            for key in (0, 1):
                n = rng.choice([1, 3, 150, 161, 162, 166, 167, 174, 175, 400])
                yield Case(pack_line(0x100, 0xE0, key, pts, dts, rng.randrange(256), "r%d.%d" % (n, rng.randrange(5))), cls="ts-cross")
    # (iii) PES_packet_length clamp (n + 8 or n + 13 against 0xFFFF)
    for n in range(65535 - 24, 65535 + 3):
        for diff in (0, 1):
            yield Case(pack_line(0x100, 0xE0, n & 1, 900000 + diff * 3000, 900000, n % 256, "r%d.1" % n), cls="pes-len-clamp")
    # (iv) stuffing boundaries deep into long frames: last packet with 181..184 / 1..3 bytes
    ms = [6, 7, 20, 99, 355] + ([1000, 1113] if thorough else [])
    for m in ms:
        for key in (0, 1):
            for diff in (0, 1):
                b0 = first_capacity(key, diff)
                for r in (-3, -2, -1, 0, 1, 2, 3, 92, 181, 182, 183):
                    n = b0 + 184 * m + r
                    pid, sid = VIDEO if (m + r) % 2 == 0 else AUDIO
                    yield Case(pack_line(pid, sid, key, 5000000 + diff * 1800, 5000000, (m * 13 + r) % 256, "r%d.2" % n), cls="stuff-deep")
    # (v) every incoming counter value
    for cc in range(256):
        n = [5, 200, 3000][cc % 3]
        yield Case(pack_line(0x101, 0xC0, cc % 2, 1234567, 1234567, cc, "r%d.3" % n), cls="cc-sweep")
    # (vi) PID / stream id sweep
    for pid in (0, 1, 0x1F, 0x20, 0xFF, 0x100, 0x101, 0x1000, 0x1001, 0x1FFE, 0x1FFF):
        for sid in (0xC0, 0xDF, 0xE0, 0xEF, 0xBD, 0xFD):
            yield Case(pack_line(pid, sid, pid & 1, 777777, 777000, 9, "r%d.4" % (100 + pid % 300)), cls="pid-sid")
    # (vii) random lengths up to 200 KiB (and 200 KiB +- 400 in the thorough tier)
    big = [204800, 204799, 204801, 65536, 131072] + [rng.randrange(1201, 204800) for _ in range(60 if thorough else 14)]
    if thorough:
        big += list(range(204800 - 400, 204800 + 401))
    for n in big:
        key = rng.randrange(2)
        pts = rng.choice(TS_VALUES + [rng.randrange(M33)])
        dts = pts if rng.random() < 0.5 else (pts + rng.choice([1, 3000, M64 - 3000])) % M64
        pid, sid = rng.choice([VIDEO, AUDIO])
        yield Case(pack_line(pid, sid, key, pts, dts, rng.randrange(256), "r%d.%d" % (n, rng.randrange(3))), cls="big")
    # short literal payloads (all byte values incl. 0x47 / 0xFF / 0x00 runs)
    for _ in range(200 if thorough else 60):
        n = rng.randrange(1, 40)
        raw = bytes(rng.choice([0, 0x47, 0xFF, 1, rng.randrange(256)]) for _ in range(n))
        pts = rng.randrange(M33)
        yield Case(pack_line(0x100, 0xE0, rng.randrange(2), pts, rng.choice([pts, max(0, pts - 3000)]), rng.randrange(256), hex_tok(raw)), cls="literal")
    # (viii) multi-frame sequences, the counter carried across frames
    for _ in range(400 if thorough else 80):
        pid, sid = rng.choice([VIDEO, AUDIO])
        frames = []
        for _ in range(rng.randrange(1, 9)):
            n = rng.choice([rng.randrange(1, 30), rng.randrange(150, 200), rng.randrange(1, 3000), rng.choice([161, 162, 166, 167, 169, 170, 174, 175, 184, 185])])
            pts = rng.choice([rng.randrange(1 << 34), rng.choice(TS_VALUES)])
            dts = rng.choice([pts, (pts + 3000) % M64, max(0, pts - 1800)])
            frames.append("%d:0x%x:0x%x:r%d.%d" % (rng.randrange(2), pts, dts, n, rng.randrange(5)))
        yield Case("c09.seq 0x%x 0x%x %d %s" % (pid, sid, rng.randrange(256), ",".join(frames)), cls="seq")
    yield Case("c09.seq 0x100 0xe0 7 -", cls="seq")
    # (ix) PSI
    yield Case("c09.pat", cls="pat")
    for v in (-1, 0, 1, 7, 8, 11, 12, 13, 10, 255, 7 + (1 << 32), -7):
        for a in (-1, 0, 1, 2, 7, 10, 11, 12, 13, 14, 10 + (1 << 32), -13):
            yield Case("c09.pmt %d %d" % (v, a), cls="pmt")
    # (x) CRC: every table entry, then buffers
    for b in range(256):
        yield Case("c09.crc 0 %02x" % b, cls="crc-entry")
        yield Case("c09.crc 0x%x %02x" % (rng.randrange(1 << 32), b), cls="crc-entry")
    for n in [0, 1, 2, 3, 4, 5, 8, 13, 16, 17, 100, 183, 1021, 4096]:
        for init in (0xFFFFFFFF, 0, rng.randrange(1 << 32)):
            yield Case("c09.crc 0x%x %s" % (init, payload_tok(rng, n)), cls="crc-buf")


def nontrivial(c, out):
    if out.startswith(("err", "bad", "model-", "unknown", "panic")):
        return None
    return c.line


# ================================================================ reference demultiplexer (ISO/IEC 13818-1)
class Bad(Exception):
    pass


def ref_ts_packet(p):
    """2.4.3.2 transport packet + 2.4.3.4 adaptation field"""
    if len(p) != 188:
        raise Bad("packet is %d bytes" % len(p))
    if p[0] != 0x47:
        raise Bad("sync byte 0x%02x" % p[0])
    if p[1] & 0x80:
        raise Bad("transport_error_indicator set")
    if p[3] & 0xC0:
        raise Bad("scrambled")
    d = dict(pusi=bool(p[1] & 0x40), pid=((p[1] & 0x1F) << 8) | p[2], afc=(p[3] >> 4) & 3, cc=p[3] & 15,
             rai=False, pcr=None, disc=False)
    pos = 4
    if d["afc"] == 0:
        raise Bad("adaptation_field_control = 0 is reserved")
    if d["afc"] & 2:
        afl = p[4]
        if d["afc"] == 3 and afl > 182:
            raise Bad("adaptation_field_length %d > 182 with payload" % afl)
        if d["afc"] == 2 and afl != 183:
            raise Bad("adaptation_field_length %d != 183 without payload" % afl)
        af = p[5:5 + afl]
        pos = 5 + afl
        if afl > 0:
            fl = af[0]
            d["disc"] = bool(fl & 0x80)
            d["rai"] = bool(fl & 0x40)
            if fl & 0x0F:
                raise Bad("unsupported optional adaptation fields, flags 0x%02x" % fl)
            i = 1
            if fl & 0x10:
                if afl < 7:
                    raise Bad("PCR flag with adaptation_field_length %d" % afl)
                b = af[1:7]
                base = (b[0] << 25) | (b[1] << 17) | (b[2] << 9) | (b[3] << 1) | (b[4] >> 7)
                ext = ((b[4] & 1) << 8) | b[5]
                d["pcr"] = base * 300 + ext
                i = 7
            if any(x != 0xFF for x in af[i:]):
                raise Bad("adaptation stuffing is not 0xFF")
    d["payload"] = p[pos:] if d["afc"] & 1 else b""
    return d


def ref_ts33(b, prefix):
    if len(b) < 5:
        raise Bad("short timestamp")
    if b[0] >> 4 != prefix:
        raise Bad("timestamp prefix %d, expected %d" % (b[0] >> 4, prefix))
    if not (b[0] & 1 and b[2] & 1 and b[4] & 1):
        raise Bad("timestamp marker bit missing")
    return (((b[0] >> 1) & 7) << 30) | ((((b[1] << 8) | b[2]) >> 1) << 15) | (((b[3] << 8) | b[4]) >> 1)


def ref_pes(b):
    """2.4.3.6 PES packet; returns dict(sid, pts, dts, payload)"""
    if len(b) < 9:
        raise Bad("PES packet shorter than its fixed header")
    if b[0:3] != b"\x00\x00\x01":
        raise Bad("no packet_start_code_prefix")
    sid = b[3]
    if sid in (0xBC, 0xBE, 0xBF, 0xF0, 0xF1, 0xF2, 0xF8, 0xFF):
        raise Bad("stream id without PES header")
    plen = (b[4] << 8) | b[5]
    if b[6] >> 6 != 2:
        raise Bad("'10' marker missing")
    if (b[6] >> 4) & 3:
        raise Bad("PES scrambled")
    fl = b[7] >> 6
    hdl = b[8]
    if len(b) < 9 + hdl:
        raise Bad("PES header data longer than the packet")
    hd = b[9:9 + hdl]
    payload = b[9 + hdl:]
    if plen != 0 and plen != 3 + hdl + len(payload):
        raise Bad("PES_packet_length %d but %d bytes follow" % (plen, 3 + hdl + len(payload)))
    pts = dts = None
    if fl == 2:
        pts = ref_ts33(hd[0:5], 2)
    elif fl == 3:
        pts = ref_ts33(hd[0:5], 3)
        dts = ref_ts33(hd[5:10], 1)
    elif fl == 1:
        raise Bad("PTS_DTS_flags = 01 is forbidden")
    return dict(sid=sid, pts=pts, dts=dts, payload=payload, plen=plen)


def ref_units(data):
    """split a single-PID packet stream into units at PUSI; returns list of (first packet dict, [packet dicts])"""
    if len(data) % 188:
        raise Bad("output is %d bytes, not a multiple of 188" % len(data))
    pk = [ref_ts_packet(data[i:i + 188]) for i in range(0, len(data), 188)]
    units = []
    for d in pk:
        if d["pusi"]:
            units.append([d])
        else:
            if not units:
                raise Bad("stream does not start with payload_unit_start_indicator")
            units[-1].append(d)
    return pk, units


def check_unit(unit, pid, sid, key, pts, dts, raw, cc_in):
    """the property for one frame; returns error text or None"""
    for i, d in enumerate(unit):
        if d["pid"] != pid:
            return "packet %d has PID 0x%x" % (i, d["pid"])
        if not d["afc"] & 1:
            return "packet %d has no payload" % i
        if d["cc"] != (cc_in + 1 + i) % 16:
            return "packet %d has continuity counter %d, expected %d" % (i, d["cc"], (cc_in + 1 + i) % 16)
        if i > 0 and (d["rai"] or d["pcr"] is not None):
            return "random access / PCR on a continuation packet"
        if d["disc"]:
            return "discontinuity_indicator set"
    f = unit[0]
    if f["rai"] != bool(key):
        return "random_access_indicator=%s for key=%s" % (f["rai"], key)
    want_pcr = ((dts - DELAY if dts > DELAY else 0) % M33) * 300 if key else None
    if f["pcr"] != want_pcr:
        return "PCR %r, expected %r" % (f["pcr"], want_pcr)
    pes = ref_pes(b"".join(d["payload"] for d in unit))
    if pes["sid"] != sid:
        return "stream id 0x%x" % pes["sid"]
    if pes["pts"] != ((pts + DELAY) % M64) % M33:
        return "PTS %r, expected %d" % (pes["pts"], ((pts + DELAY) % M64) % M33)
    want_dts = None if dts == pts else ((dts + DELAY) % M64) % M33
    if pes["dts"] != want_dts:
        return "DTS %r, expected %r" % (pes["dts"], want_dts)
    if pes["plen"] == 0 and len(raw) + (5 if dts == pts else 10) + 3 <= 0xFFFF:
        return "PES_packet_length 0 for a frame that fits 16 bits"
    if pes["payload"] != raw:
        if len(pes["payload"]) != len(raw):
            return "payload is %d bytes, frame is %d" % (len(pes["payload"]), len(raw))
        k = next(i for i in range(len(raw)) if raw[i] != pes["payload"][i])
        return "payload differs from the frame at offset %d" % k
    return None


def ref_crc32_mpeg(data, crc=0xFFFFFFFF):
    """annex A: polynomial 0x04C11DB7, msb first, bit by bit"""
    for b in data:
        for k in range(7, -1, -1):
            top = (crc >> 31) & 1
            crc = (crc << 1) & 0xFFFFFFFF
            if top ^ ((b >> k) & 1):
                crc ^= 0x04C11DB7
    return crc


def ref_section(pkt):
    d = ref_ts_packet(pkt)
    if not d["pusi"]:
        raise Bad("section packet without payload_unit_start_indicator")
    pl = d["payload"]
    if not pl:
        raise Bad("no payload")
    ptr = pl[0]
    s = pl[1 + ptr:]
    if len(s) < 3:
        raise Bad("short section")
    if not (s[1] & 0x80) or (s[1] & 0x40):
        raise Bad("section_syntax_indicator / '0' bit")
    slen = ((s[1] & 0x0F) << 8) | s[2]
    if slen < 9 or slen > 1021 or len(s) < 3 + slen:
        raise Bad("section_length %d" % slen)
    sec = s[:3 + slen]
    if any(x != 0xFF for x in s[3 + slen:]):
        raise Bad("bytes after the section are not 0xFF")
    if ref_crc32_mpeg(sec) != 0:
        raise Bad("CRC_32 does not verify")
    if not (sec[5] & 1) or sec[6] != 0 or sec[7] != 0:
        raise Bad("not a single current section")
    return d["pid"], dict(table_id=sec[0], ext=(sec[3] << 8) | sec[4], version=(sec[5] >> 1) & 31, data=sec[8:-4])


def ref_descriptors(b):
    out = []
    i = 0
    while i < len(b):
        if i + 2 > len(b) or i + 2 + b[i + 1] > len(b):
            raise Bad("descriptor overruns its loop")
        out.append((b[i], bytes(b[i + 2:i + 2 + b[i + 1]])))
        i += 2 + b[i + 1]
    return out


def expected_streams(v, a):
    out = []
    if v == 7:
        out.append((0x1B, 0x100, []))
    elif v == 12:
        out.append((0x24, 0x100, []))
    if a == 10:
        out.append((0x0F, 0x101, []))
    elif a == 13:
        out.append((0x06, 0x101, [(5, b"Opus"), (0x7F, b"\x80\x02")]))
    return out


def bswap32(x):
    return int.from_bytes(x.to_bytes(4, "big"), "little")


def parse_pack_args(f):
    return num(f[1]), num(f[2]), f[3] == "1", num(f[4]), num(f[5]), num(f[6]), raw_of(f[7])


def oracle(c, out):
    f = c.line.split(" ")
    op = f[0]
    if out.startswith(("panic@", "crash@", "timeout", "not-run")):
        return (False, "implementation crashed: " + out)
    try:
        if op == "c09.pack":
            pid, sid, key, pts, dts, cc, raw = parse_pack_args(f)
            if not raw or pid >= 0x2000:
                return None
            o = out.split(" ")
            data = bytes.fromhex(o[1]) if o[1] != "-" else b""
            pk, units = ref_units(data)
            if len(units) != 1:
                return (False, "%d payload unit starts in one frame" % len(units))
            why = check_unit(units[0], pid, sid, key, pts, dts, raw, cc)
            if why:
                return (False, why)
            if num(o[0]) != (cc + len(pk)) % 256:
                return (False, "Frame.Cc after Pack is %d, expected %d" % (num(o[0]), (cc + len(pk)) % 256))
            return (True, "")
        if op == "c09.seq":
            pid, sid, cc = num(f[1]), num(f[2]), num(f[3])
            frames = []
            if f[4] != "-":
                for it in f[4].split(","):
                    k, p, d, r = it.split(":")
                    frames.append((k == "1", num(p), num(d), raw_of(r)))
            o = out.split(" ")
            data = bytes.fromhex(o[2]) if o[2] != "-" else b""
            pk, units = ref_units(data)
            if len(units) != len(frames):
                return (False, "%d units demultiplexed, %d frames packed" % (len(units), len(frames)))
            cur = cc
            for u, (k, p, d, r) in zip(units, frames):
                why = check_unit(u, pid, sid, k, p, d, r, cur)
                if why:
                    return (False, why)
                cur = (cur + len(u)) % 256
            if num(o[0]) != cur:
                return (False, "counter after the sequence is %d, expected %d" % (num(o[0]), cur))
            return (True, "")
        if op == "c09.pat":
            pid, s = ref_section(bytes.fromhex(out))
            if pid != 0 or s["table_id"] != 0:
                return (False, "PAT on PID %d table_id %d" % (pid, s["table_id"]))
            d = s["data"]
            if len(d) % 4:
                return (False, "PAT entry loop is not a multiple of 4")
            progs = [((d[i] << 8) | d[i + 1], ((d[i + 2] & 0x1F) << 8) | d[i + 3]) for i in range(0, len(d), 4)]
            return (progs == [(1, 0x1001)], "PAT programs %r" % (progs,))
        if op == "c09.pmt":
            v, a = int(f[1], 0), int(f[2], 0)
            pid, s = ref_section(bytes.fromhex(out))
            if pid != 0x1001 or s["table_id"] != 2 or s["ext"] != 1:
                return (False, "PMT on PID 0x%x table_id %d program %d" % (pid, s["table_id"], s["ext"]))
            d = s["data"]
            if len(d) < 4:
                return (False, "short PMT")
            pcr_pid = ((d[0] & 0x1F) << 8) | d[1]
            pil = ((d[2] & 0x0F) << 8) | d[3]
            i = 4 + pil
            got = []
            while i < len(d):
                if i + 5 > len(d):
                    raise Bad("short elementary stream entry")
                esl = ((d[i + 3] & 0x0F) << 8) | d[i + 4]
                if i + 5 + esl > len(d):
                    raise Bad("ES_info_length overruns the section")
                got.append((d[i], ((d[i + 1] & 0x1F) << 8) | d[i + 2], ref_descriptors(d[i + 5:i + 5 + esl])))
                i += 5 + esl
            if pcr_pid != 0x100:
                return (False, "PCR_PID 0x%x" % pcr_pid)
            want = expected_streams(v, a)
            return (got == want, "PMT declares %r, codecs need %r" % (got, want))
        if op == "c09.crc":
            init, buf = num(f[1]), raw_of(f[2])
            want = bswap32(ref_crc32_mpeg(buf, bswap32(init)))
            return (num(out) == want, "CalcCrc32 = %s, CRC-32/MPEG-2 (byte-swapped register) = 0x%x" % (out, want))
    except Bad as e:
        return (False, "not a conforming transport stream: %s" % e)
    except (ValueError, IndexError) as e:
        return (False, "unparsable output: %s" % e)
    return None


def neighbors(c, rng):
    f = c.line.split(" ")
    if f[0] == "c09.pack":
        pid, sid, key, pts, dts, cc, raw = parse_pack_args(f)
        n = len(raw)
        for d in (-3, -2, -1, 1, 2, 3, 184, -184):
            for k in (0, 1):
                for df in (0, 1):
                    if n + d >= 1:
                        yield pack_line(pid, sid, k, pts, pts if not df else (pts + 3000) % M64, cc, "r%d.%d" % (n + d, rng.randrange(5)))
        for t in TS_VALUES:
            yield pack_line(pid, sid, key, t, dts, cc, f[7])
            yield pack_line(pid, sid, key, pts, t, cc, f[7])
        for c2 in (0, 14, 15, 16, 254, 255):
            yield pack_line(pid, sid, key, pts, dts, c2, f[7])
        for b0 in (161, 166, 169, 174):
            for r in (-1, 0, 1):
                yield pack_line(pid, sid, key, pts, dts, cc, "r%d.1" % (b0 + r))
    elif f[0] == "c09.seq":
        for it in f[4].split(","):
            if it == "-":
                continue
            k, p, d, r = it.split(":")
            yield "c09.pack %s %s %s %s %s %s %s" % (f[1], f[2], k, p, d, f[3], r)
    elif f[0] == "c09.pmt":
        for v in (0, 7, 12):
            for a in (0, 10, 13):
                yield "c09.pmt %d %d" % (v, a)
    elif f[0] == "c09.crc":
        for b in range(256):
            yield "c09.crc 0 %02x" % b
