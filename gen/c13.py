# C13 - no input on the RTSP / RTP / RTCP / GB28181 / WebSocket / HTTP surfaces terminates lal.
#
# Every op runs the real lal entry point under recover (lalprobe prints
# panic@<pkg.Func>:<kind>) and the extracted Gallina model; both must agree byte
# for byte.  The oracle is the property itself: the implementation's output is
# never a panic / crash, plus (for RTP) an independent RFC 3550 reference parser.
import struct
from lib.vf import Case
from gen.common import *

ID = "C13"
RULE = ("per parser: valid exchanges from independent python encoders (RTP/RTCP/AU-header/H264+H265 payload formats/"
        "interleaved/WebSocket/PS/...), each truncated at every offset, every length/count field set to 0,1,max-1,max, "
        "random bytes; a case is non-trivial when its (op, outcome class, input shape) triple is new")
ASSUMPTIONS = ["nazalog.Assert has the default behaviour (log only)",
               "bufio.Reader.ReadLine joined over isPrefix pieces is modelled as an ideal line reader (split at \\n, one \\r before it dropped); "
               "the message-reader ops run on a fake conn that delivers the whole stream and then io.EOF",
               "rtsp.BaseInSessionTimestampFilterFlag=false in the in-session op (AvPacketQueue belongs to C07)",
               "ops named c13x.* drive library surfaces that are not modelled (nazahttp, net/http, encoding/json): "
               "the model side is the constant 'alive'; they are covered by mutation testing only",
               "memory exhaustion below Go's makeslice limit is outside the model",
               "c13.udpsess hands datagrams synchronously to the callbacks nazanet.UdpConnection.RunLoop calls (verif hook) on sessions whose "
               "UDP sockets are real loopback sockets; c13x.udpsess / c13x.pulludp send the same datagrams through the loopback interface"]
FULL_OUTPUT = True
TIMEOUT = 1500

# known findings: panic sites whose repair is not in lal's tree (none left: C13-KF-01 is repaired inside lal)
KNOWN_SITES = {}


# ---------------------------------------------------------------- independent encoders (RFC 3550, 3640, 6184, 7798, 2326, 6455)
def rtp(pt, seq, ts, ssrc, payload, marker=0, csrc=(), ext=None, pad=0, version=2, cc=None, padbyte=None):
    b0 = (version << 6) | ((1 if pad else 0) << 5) | ((1 if ext is not None else 0) << 4) | (len(csrc) if cc is None else cc)
    out = bytes([b0, (marker << 7) | (pt & 0x7f)]) + struct.pack(">HII", seq & 0xffff, ts & 0xffffffff, ssrc & 0xffffffff)
    for c in csrc:
        out += struct.pack(">I", c)
    if ext is not None:
        prof, data = ext
        out += struct.pack(">HH", prof, len(data) // 4) + data
    out += payload
    if pad:
        out += bytes(pad - 1) + bytes([pad if padbyte is None else padbyte])
    return out


def rtcp_sr(ssrc, msw, lsw, ts, pc, oc, rc=0):
    return bytes([0x80 | rc, 200]) + struct.pack(">HIIIIII", 6, ssrc, msw, lsw, ts, pc, oc)


def au_payload(frames):
    """RFC 3640 AAC-hbr: 16-bit AU-headers-length (bits), 13-bit size + 3-bit index per AU"""
    hdr = struct.pack(">H", 16 * len(frames))
    for f in frames:
        hdr += struct.pack(">H", (len(f) << 3) & 0xffff)
    return hdr + b"".join(frames)


def au_fragment(total, chunk):
    return struct.pack(">HH", 16, (total << 3) & 0xffff) + chunk


def h264_stapa(nals, f_nri=0x60):
    out = bytes([f_nri | 24])
    for n in nals:
        out += struct.pack(">H", len(n)) + n
    return out


def h264_fua(nal, mtu):
    ind = (nal[0] & 0xe0) | 28
    t = nal[0] & 0x1f
    data = nal[1:]
    chunks = [data[i:i + mtu] for i in range(0, len(data), mtu)] or [b""]
    out = []
    for i, c in enumerate(chunks):
        h = t | (0x80 if i == 0 else 0) | (0x40 if i == len(chunks) - 1 else 0)
        out.append(bytes([ind, h]) + c)
    return out


def h265_ap(nals):
    out = bytes([48 << 1, 1])
    for n in nals:
        out += struct.pack(">H", len(n)) + n
    return out


def h265_fu(nal, mtu):
    t = (nal[0] >> 1) & 0x3f
    hdr = bytes([(nal[0] & 0x81) | (49 << 1), nal[1]])
    data = nal[2:]
    chunks = [data[i:i + mtu] for i in range(0, len(data), mtu)] or [b""]
    out = []
    for i, c in enumerate(chunks):
        h = t | (0x80 if i == 0 else 0) | (0x40 if i == len(chunks) - 1 else 0)
        out.append(hdr + bytes([h]) + c)
    return out


def interleaved(ch, data):
    return b"$" + bytes([ch]) + struct.pack(">H", len(data)) + data


def ws_frame(payload, opcode=2, fin=1, mask=None, lenform=None, declared=None):
    n = len(payload) if declared is None else declared
    b0 = (fin << 7) | opcode
    m = 0x80 if mask is not None else 0
    if lenform is None:
        lenform = 0 if n < 126 else (126 if n < 65536 else 127)
    if lenform == 0:
        out = bytes([b0, m | (n & 0x7f)])
    elif lenform == 126:
        out = bytes([b0, m | 126]) + struct.pack(">H", n & 0xffff)
    else:
        out = bytes([b0, m | 127]) + struct.pack(">Q", n & 0xffffffffffffffff)
    if mask is not None:
        out += mask
        payload = bytes(x ^ mask[i % 4] for i, x in enumerate(payload))
    return out + payload


# ---------------------------------------------------------------- RFC 3550 reference parser (oracle for c13.rtp)
def ref_rtp(b):
    """returns None when the packet is not a well-formed RTP packet with a non-empty payload, else the payload"""
    if len(b) < 12:
        return None
    cc = b[0] & 15
    off = 12 + 4 * cc
    if off > len(b):
        return None
    if b[0] & 0x10:
        if off + 4 > len(b):
            return None
        off += 4 + 4 * struct.unpack(">H", b[off + 2:off + 4])[0]
        if off > len(b):
            return None
    end = len(b)
    if b[0] & 0x20:
        end -= b[-1]
    if end <= off or off >= len(b):
        return None
    return b[off:end]


# ---------------------------------------------------------------- generators
def rb(rng, n):
    return bytes(rng.randrange(256) for _ in range(n))


def truncations(b, lo=0):
    for i in range(lo, len(b)):
        yield b[:i]


def sess_line(acfg, vcfg, pkts):
    items = ",".join("%d:%s" % (ch, hex_tok(p)) for ch, p in pkts) if pkts else "-"
    return "c13.insess %s %s %s %s %s %s %s" % (acfg[0], acfg[1], acfg[2], vcfg[0], vcfg[1], vcfg[2], items)


A_PCMA = ("pcma", 8000, 8)
A_AAC = ("aac", 44100, 97)
A_NONE = ("none", 0, 0)
V_H264 = ("h264", 90000, 96)
V_H265 = ("h265", 90000, 98)
V_NONE = ("none", 0, 0)

CLOCKS = [0, 1, 999, 1000, 1001, -1, -999, -1000, -1001, 8000, 44100, 90000, 4294967296000 - 1, 4294967296000,
          4294967296999, 4294967297000, 2 * 4294967296000, 9223372036854775807, -9223372036854775808, 4294967295999]


def gen_rtp(tier, rng):
    base = rtp(96, 7, 1000, 0x11223344, b"\x65\x01\x02\x03")
    variants = [
        base,
        rtp(96, 65535, 0xffffffff, 0xffffffff, b"\x41", marker=1),
        rtp(0, 1, 2, 3, rb(rng, 20), csrc=(1, 2, 3)),
        rtp(96, 1, 2, 3, rb(rng, 5), csrc=tuple(range(15))),
        rtp(96, 1, 2, 3, rb(rng, 9), ext=(0xbede, rb(rng, 8))),
        rtp(96, 1, 2, 3, rb(rng, 9), ext=(0xbede, b"")),
        rtp(96, 1, 2, 3, rb(rng, 9), csrc=(9,), ext=(1, rb(rng, 4)), pad=4),
        rtp(97, 1, 2, 3, rb(rng, 6), pad=1),
        rtp(97, 1, 2, 3, rb(rng, 6), pad=7),
    ]
    for v in variants:
        yield Case("c13.rtp " + hex_tok(v), cls="rtp-valid")
        for t in truncations(v):
            yield Case("c13.rtp " + hex_tok(t), cls="rtp-trunc")
    # CSRC count: every value against a fixed total length
    for cc in range(16):
        for extra in (0, 1, 4 * cc - 1, 4 * cc, 4 * cc + 1):
            if extra < 0:
                continue
            yield Case("c13.rtp " + hex_tok(rtp(96, 1, 2, 3, rb(rng, extra), cc=cc)), cls="rtp-cc")
    # extension length field: 0,1,max-1,max and the uint16 wrap of 4*len
    for el in (0, 1, 2, 3, 0x3fff, 0x4000, 0x4001, 0x7fff, 0x8000, 0xfffe, 0xffff):
        for tail in (0, 1, 4, 5, 8):
            pkt = bytes([0x90, 96]) + struct.pack(">HII", 1, 2, 3) + struct.pack(">HH", 0xbede, el) + rb(rng, tail)
            yield Case("c13.rtp " + hex_tok(pkt), cls="rtp-extlen")
    # padding count against the body size (the confirmed F-22 site)
    for body in (1, 2, 5):
        for padbyte in (0, 1, body - 1, body, body + 1, body + 12, 254, 255):
            if padbyte < 0:
                continue
            pkt = bytes([0xa0, 96]) + struct.pack(">HII", 1, 2, 3) + rb(rng, body - 1) + bytes([padbyte])
            yield Case("c13.rtp " + hex_tok(pkt), cls="rtp-padding")
            pkt = bytes([0xb1, 96]) + struct.pack(">HII", 1, 2, 3) + struct.pack(">I", 5) + struct.pack(">HH", 1, 1) + rb(rng, 4) + rb(rng, body - 1) + bytes([padbyte])
            yield Case("c13.rtp " + hex_tok(pkt), cls="rtp-padding")
    n = 300 if tier == "quick" else 20000
    for _ in range(n):
        k = rng.choice([0, 1, 11, 12, 13, 14, 16, 20, 24, 40])
        b = bytearray(rb(rng, k))
        if k and rng.random() < 0.7:
            b[0] = (b[0] & 0x3f) | 0x80
        yield Case("c13.rtp " + hex_tok(bytes(b)), cls="rtp-random")
    # boundary classification
    firsts_avc = [0x65, 0x67, 0x68, 0x41, 0x78, 0x7c, 0x18, 0x1c, 0x19, 0x1f, 0x00]
    for f in firsts_avc:
        for rest in (b"", b"\x85", b"\x05", b"\x00\x01\x67", b"\x00\x01\x61", b"\xc7\x00", b"\x00\x01"):
            for kind in ("avc", "hevc"):
                yield Case("c13.bound %s %s" % (kind, hex_tok(rtp(96, 1, 2, 3, bytes([f]) + rest))), cls="bound")
    for f in [0x62, 0x26, 0x40, 0x42, 0x44, 0x02, 0x60, 0x4e, 0x7e]:
        for rest in (b"", b"\x01", b"\x01\x93", b"\x01\x13", b"\x01\xa0", b"\x01\x81\x00"):
            yield Case("c13.bound hevc %s" % hex_tok(rtp(98, 1, 2, 3, bytes([f]) + rest)), cls="bound")
    # padding that empties the body, then boundary / position code
    for kind in ("avc", "hevc"):
        yield Case("c13.bound %s %s" % (kind, hex_tok(bytes([0xa0, 96]) + struct.pack(">HII", 1, 2, 3) + b"\x01")), cls="bound")
        yield Case("c13.bound %s %s" % (kind, hex_tok(bytes([0xa0, 96]) + struct.pack(">HII", 1, 2, 3) + b"\x7c\x02")), cls="bound")
    for _ in range(100 if tier == "quick" else 10000):
        body = rb(rng, rng.choice([1, 1, 2, 3, 4, 6]))
        yield Case("c13.bound %s %s" % (rng.choice(["avc", "hevc"]), hex_tok(rtp(96, 1, 2, 3, body, pad=rng.choice([0, 0, 1, 2])))), cls="bound-random")


def gen_rtcp(tier, rng):
    sr = rtcp_sr(0x01020304, 0xaabbccdd, 0x11223344, 90000, 10, 2000)
    for t in list(truncations(sr)) + [sr, sr + b"\x00", sr + rb(rng, 24)]:
        yield Case("c13.sr " + hex_tok(t), cls="rtcp-sr")
        yield Case("c13.rtcphdr " + hex_tok(t), cls="rtcp-hdr")
    for _ in range(60 if tier == "quick" else 5000):
        b = rb(rng, rng.choice([0, 1, 2, 3, 4, 8, 27, 28, 29, 40]))
        yield Case("c13.sr " + hex_tok(b), cls="rtcp-random")
        yield Case("c13.rtcphdr " + hex_tok(b), cls="rtcp-random")


def gen_insess(tier, rng):
    ssrc = 0x0a0b0c0d
    # --- RTCP on the rtcp channels: every length, SR for known / unknown ssrc, before and after RTP
    sr = rtcp_sr(ssrc, 0x12345678, 0x9abcdef0, 1, 2, 3)
    audio = rtp(8, 100, 160, ssrc, b"\xd5" * 8)
    for n in range(0, len(sr) + 2):
        b = (sr + b"\0\0")[:n]
        yield Case(sess_line(A_PCMA, V_H264, [(1, b)]), cls="sess-rtcp")
        yield Case(sess_line(A_PCMA, V_H264, [(0, audio), (1, b), (3, b)]), cls="sess-rtcp")
    for ptype in (0, 199, 200, 201, 202, 204, 255):
        b = bytearray(sr)
        b[1] = ptype
        yield Case(sess_line(A_PCMA, V_H264, [(0, audio), (1, bytes(b))]), cls="sess-rtcp")
    # receiver-report arithmetic: wrap-around, loss, reordering, many SRs
    seqs = [65534, 65535, 0, 1, 5, 3, 4, 40000, 2]
    pk = []
    for i, s in enumerate(seqs):
        pk.append((0, rtp(8, s, 160 * i, ssrc, b"\xd5\xd5")))
        if i % 2:
            pk.append((1, rtcp_sr(ssrc, i, i << 16, 0, 0, 0)))
    yield Case(sess_line(A_PCMA, V_NONE, pk), cls="sess-rr")
    vs = 0x55667788
    pk = [(2, rtp(96, 10, 0, vs, b"\x65\x01")), (3, rtcp_sr(vs, 1, 2, 3, 4, 5)), (0, audio), (1, rtcp_sr(ssrc, 0xffffffff, 0xffffffff, 0, 0, 0)),
          (3, rtcp_sr(7, 1, 2, 3, 4, 5)), (9, sr), (200, audio)]
    yield Case(sess_line(A_PCMA, V_H264, pk), cls="sess-rr")
    # --- clock rates from a hostile SDP (division by uint32(clockRate/1000))
    aacp = rtp(97, 1, 44100, ssrc, au_payload([b"\x21\x10\x05", b"\x21\x10"]))
    for clk in CLOCKS:
        yield Case(sess_line(("pcma", clk, 8), V_NONE, [(0, audio)]), cls="sess-clock")
        yield Case(sess_line(("opus", clk, 111), V_NONE, [(0, rtp(111, 1, 960, ssrc, b"\xfc\x01\x02"))]), cls="sess-clock")
        yield Case(sess_line(("aac", clk, 97), V_NONE, [(0, aacp)]), cls="sess-clock")
        yield Case(sess_line(A_NONE, ("h264", clk, 96), [(2, rtp(96, 1, 90000, vs, b"\x65\x88"))]), cls="sess-clock")
        yield Case(sess_line(A_NONE, ("h265", clk, 98), [(2, rtp(98, 1, 90000, vs, h265_ap([b"\x40\x01\x0c", b"\x42\x01\x01"])))]), cls="sess-clock")
        yield Case(sess_line(("foo", clk, 0), ("foo", clk, 96), [(0, rtp(0, 1, 160, ssrc, b"\xff\xff")), (2, rtp(96, 1, 2, 3, b"\x65"))]), cls="sess-clock")
        yield Case(sess_line(("foo", clk, 8), V_NONE, [(0, audio)]), cls="sess-clock")
    for apt in (0, 8, 14, 96, -1, 127, 128):
        yield Case(sess_line(("foo", 0, apt), V_H264, [(0, rtp(apt & 0x7f, 1, 160, ssrc, b"\x01\x02"))]), cls="sess-pt")
        yield Case(sess_line(("aacnoasc", 44100, apt), V_H264, [(0, rtp(apt & 0x7f, 1, 160, ssrc, b"\x00\x10\x00\x08\x01"))]), cls="sess-pt")
    # --- AAC AU headers
    frames = [b"\x21\x10\x05\x00", b"\x21", b"\x01\x02\x03\x04\x05\x06"]
    valid = [au_payload(frames[:1]), au_payload(frames[:2]), au_payload(frames), au_payload([]), au_payload([b""]), au_payload([b"", b""])]
    for v in valid:
        yield Case(sess_line(A_AAC, V_NONE, [(0, rtp(97, 1, 1024, ssrc, v))]), cls="sess-aac-valid")
        yield Case(sess_line(A_AAC, V_NONE, [(0, rtp(97, 1, 1024, ssrc, v + b"\x00\x00\x00", pad=3))]), cls="sess-aac-valid")
        for t in truncations(v, 1):
            yield Case(sess_line(A_AAC, V_NONE, [(0, rtp(97, 1, 1024, ssrc, t))]), cls="sess-aac-trunc")
            yield Case(sess_line(A_AAC, V_NONE, [(0, rtp(97, 1, 1024, ssrc, t, pad=2))]), cls="sess-aac-trunc")
    # AU-headers-length and AU-size fields: 0, 1, max-1, max ...
    for ahl in (0, 1, 7, 8, 15, 16, 17, 24, 31, 32, 33, 48, 0x7ff8, 0xfff0, 0xfffe, 0xffff):
        for size in (0, 1, 8, 9, 0x10, 0xfff8, 0xffff):
            for tail in (0, 1, 2, 4):
                p = struct.pack(">HH", ahl, size) + rb(rng, tail)
                yield Case(sess_line(A_AAC, V_NONE, [(0, rtp(97, 1, 1024, ssrc, p))]), cls="sess-aac-field")
    for s1, s2, tail in [(8, 8, 2), (8, 16, 2), (8, 16, 3), (8, 16, 4), (0xfff8, 8, 2), (8, 0xfff8, 2), (16, 8, 3), (0, 0, 0), (0, 8, 1)]:
        p = struct.pack(">HHH", 32, s1, s2) + rb(rng, tail)
        yield Case(sess_line(A_AAC, V_NONE, [(0, rtp(97, 1, 1024, ssrc, p))]), cls="sess-aac-field")
        yield Case(sess_line(A_AAC, V_NONE, [(0, rtp(97, 1, 1024, ssrc, p + b"\x00" * 5, pad=5))]), cls="sess-aac-field")
    # fragmented access unit: complete, missing middle, wrong size, wrong timestamp, overshoot, short continuation
    big = rb(rng, 30)
    fr = [au_fragment(30, big[0:10]), au_fragment(30, big[10:20]), au_fragment(30, big[20:30])]
    yield Case(sess_line(A_AAC, V_NONE, [(0, rtp(97, 5 + i, 77, ssrc, f, marker=int(i == 2))) for i, f in enumerate(fr)]), cls="sess-aac-frag")
    yield Case(sess_line(A_AAC, V_NONE, [(0, rtp(97, 5 + i, 77, ssrc, f)) for i, f in reversed(list(enumerate(fr)))]), cls="sess-aac-frag")
    yield Case(sess_line(A_AAC, V_NONE, [(0, rtp(97, 5, 77, ssrc, fr[0])), (0, rtp(97, 7, 77, ssrc, fr[2])), (0, rtp(97, 8, 99, ssrc, au_payload([b"\x01"])))]), cls="sess-aac-frag")
    yield Case(sess_line(A_AAC, V_NONE, [(0, rtp(97, 5, 77, ssrc, fr[0])), (0, rtp(97, 6, 78, ssrc, fr[1]))]), cls="sess-aac-frag")
    yield Case(sess_line(A_AAC, V_NONE, [(0, rtp(97, 5, 77, ssrc, fr[0])), (0, rtp(97, 6, 77, ssrc, au_fragment(31, big[10:20])))]), cls="sess-aac-frag")
    yield Case(sess_line(A_AAC, V_NONE, [(0, rtp(97, 5, 77, ssrc, fr[0])), (0, rtp(97, 6, 77, ssrc, au_fragment(30, big[:25])))]), cls="sess-aac-frag")
    for cont in (b"", b"\x00", b"\x00\x10", b"\x00\x10\x00", b"\x00\x10\x00\xf0", b"\x00\x20\x00\xf0\x00\xf0", b"\x00\x40\x00\xf0", b"\xff\xff\x00\xf0"):
        yield Case(sess_line(A_AAC, V_NONE, [(0, rtp(97, 5, 77, ssrc, fr[0])), (0, rtp(97, 6, 77, ssrc, cont + b"\x99", pad=1 if cont == b"" else 0))]), cls="sess-aac-frag")
    # many fragmented units (the Size counter drifts by one per unit)
    pk = []
    for k in range(1100):
        pk.append((0, rtp(97, 2 * k, k, ssrc, au_fragment(4, b"\x01\x02"))))
        pk.append((0, rtp(97, 2 * k + 1, k, ssrc, au_fragment(4, b"\x03\x04"))))
    yield Case(sess_line(A_AAC, V_NONE, pk), cls="sess-aac-frag")
    # --- H264
    sps, pps, idr = b"\x67\x42\x00\x1e", b"\x68\xce\x38\x80", b"\x65" + rb(rng, 9)
    st = h264_stapa([sps, pps])
    fu = h264_fua(idr, 3)
    seqv = [(2, rtp(96, 1, 0, vs, st))] + [(2, rtp(96, 2 + i, 0, vs, f, marker=int(i == len(fu) - 1))) for i, f in enumerate(fu)] + [(2, rtp(96, 2 + len(fu), 3000, vs, b"\x41\x9a"))]
    yield Case(sess_line(A_NONE, V_H264, seqv), cls="sess-avc-valid")
    yield Case(sess_line(A_PCMA, V_H264, seqv + [(0, audio)]), cls="sess-avc-valid")
    for perm in range(6 if tier == "quick" else 60):
        s = list(seqv)
        rng.shuffle(s)
        yield Case(sess_line(A_NONE, V_H264, s + [rng.choice(seqv)]), cls="sess-avc-reorder")
    for t in truncations(st, 1):
        yield Case(sess_line(A_NONE, V_H264, [(2, rtp(96, 1, 0, vs, t))]), cls="sess-avc-trunc")
    for n1 in (0, 1, 3, 4, 5, 0xfffe, 0xffff):
        for n2 in (0, 1, 3, 4, 5, 0xffff):
            p = bytes([0x78]) + struct.pack(">H", n1) + sps + struct.pack(">H", n2) + pps
            yield Case(sess_line(A_NONE, V_H264, [(2, rtp(96, 1, 0, vs, p))]), cls="sess-avc-stap-field")
    for t in (b"\x7c", b"\x7c\x85", b"\x7c\x05", b"\x7c\x45", b"\x7c\xc5", b"\x7c\x85\x01", b"\x19\x00", b"\x1d", b"\x1f\x01", b"\x00", b"\x18", b"\x18\x00", b"\x18\x00\x00", b"\x18\x00\x01"):
        yield Case(sess_line(A_NONE, V_H264, [(2, rtp(96, 1, 0, vs, t))]), cls="sess-avc-short")
        yield Case(sess_line(A_NONE, V_H264, [(2, rtp(96, 1, 0, vs, t + b"\x00\x00", pad=2))]), cls="sess-avc-short")
        yield Case(sess_line(A_NONE, V_H264, [(2, rtp(96, 1, 0, vs, b"\x7c\x85\x11")), (2, rtp(96, 2, 0, vs, t)), (2, rtp(96, 3, 0, vs, b"\x7c\x45\x22"))]), cls="sess-avc-short")
    # FU sequences: 1-2 byte fragments, missing end, end without start, duplicates, stale
    yield Case(sess_line(A_NONE, V_H264, [(2, rtp(96, 1, 0, vs, b"\x7c\x85")), (2, rtp(96, 2, 0, vs, b"\x7c\x05")), (2, rtp(96, 3, 0, vs, b"\x7c\x45"))]), cls="sess-avc-fu")
    yield Case(sess_line(A_NONE, V_H264, [(2, rtp(96, 1, 0, vs, b"\x7c\x45\x01")), (2, rtp(96, 2, 0, vs, b"\x7c\x05\x02")), (2, rtp(96, 2, 0, vs, b"\x7c\x05\x02")), (2, rtp(96, 1, 0, vs, b"\x65"))]), cls="sess-avc-fu")
    yield Case(sess_line(A_NONE, V_H264, [(2, rtp(96, 1, 0, vs, b"\x7c\x85\x01")), (2, rtp(96, 3, 0, vs, b"\x7c\x45\x02")), (2, rtp(96, 2, 0, vs, b"\x65\x02"))]), cls="sess-avc-fu")
    # --- H265
    vps, sps5, pps5, idr5 = b"\x40\x01\x0c\x01", b"\x42\x01\x01\x01", b"\x44\x01\xc1", b"\x26\x01" + rb(rng, 8)
    ap = h265_ap([vps, sps5, pps5])
    fu5 = h265_fu(idr5, 3)
    seq5 = [(2, rtp(98, 1, 0, vs, ap))] + [(2, rtp(98, 2 + i, 0, vs, f)) for i, f in enumerate(fu5)] + [(2, rtp(98, 2 + len(fu5), 3000, vs, b"\x02\x01\xd0"))]
    yield Case(sess_line(A_NONE, V_H265, seq5), cls="sess-hevc-valid")
    for perm in range(6 if tier == "quick" else 60):
        s = list(seq5)
        rng.shuffle(s)
        yield Case(sess_line(A_AAC, V_H265, s + [rng.choice(seq5)]), cls="sess-hevc-reorder")
    for t in truncations(ap, 1):
        yield Case(sess_line(A_NONE, V_H265, [(2, rtp(98, 1, 0, vs, t))]), cls="sess-hevc-trunc")
        yield Case(sess_line(A_NONE, V_H265, [(2, rtp(98, 1, 0, vs, t + b"\x00", pad=1))]), cls="sess-hevc-trunc")
    for n1 in (0, 1, 3, 4, 5, 0xfffe, 0xffff):
        p = bytes([0x60, 1]) + struct.pack(">H", n1) + vps + struct.pack(">H", 4) + sps5
        yield Case(sess_line(A_NONE, V_H265, [(2, rtp(98, 1, 0, vs, p))]), cls="sess-hevc-ap-field")
    for t in (b"\x62", b"\x62\x01", b"\x62\x01\x93", b"\x62\x01\x13", b"\x62\x01\x53", b"\x62\x01\xd3", b"\x60", b"\x60\x01", b"\x60\x01\x00", b"\x60\x01\x00\x00", b"\x64\x01", b"\x7e", b"\x14"):
        yield Case(sess_line(A_NONE, V_H265, [(2, rtp(98, 1, 0, vs, t))]), cls="sess-hevc-short")
        yield Case(sess_line(A_NONE, V_H265, [(2, rtp(98, 1, 0, vs, b"\x62\x01\x93\x01")), (2, rtp(98, 2, 0, vs, t)), (2, rtp(98, 3, 0, vs, b"\x62\x01\x53\x02"))]), cls="sess-hevc-short")
    # --- container full: > unpackerItemMaxSize packets that never complete
    nfull = 1030
    yield Case(sess_line(A_NONE, V_H264, [(2, rtp(96, i, 0, vs, b"\x7c\x05\x01")) for i in range(nfull)] + [(2, rtp(96, nfull, 0, vs, b"\x65\x01"))]), cls="sess-full")
    yield Case(sess_line(A_NONE, V_H264, [(2, rtp(96, 1, 0, vs, b"\x65"))] + [(2, rtp(96, 3 + i, 0, vs, b"\x7c\x85\x01" if i == 0 else b"\x7c\x05\x01")) for i in range(nfull)] + [(2, rtp(96, 3 + nfull, 0, vs, b"\x7c\x45\x01"))]), cls="sess-full")
    yield Case(sess_line(A_AAC, V_NONE, [(0, rtp(97, 1, 0, ssrc, au_payload([b"\x01"])))] + [(0, rtp(97, 3 + 2 * i, 0, ssrc, au_payload([b"\x01"]))) for i in range(nfull)]), cls="sess-full")
    yield Case(sess_line(A_NONE, V_H265, [(2, rtp(98, 1, 0, vs, b"\x02\x01"))] + [(2, rtp(98, 3 + i, 0, vs, b"\x62\x01\x13\x01")) for i in range(nfull)]), cls="sess-full")
    # --- mutation stream over valid sessions
    pools = [(A_NONE, V_H264, seqv), (A_NONE, V_H265, seq5),
             (A_AAC, V_NONE, [(0, rtp(97, 5 + i, 77, ssrc, f)) for i, f in enumerate(fr)] + [(0, rtp(97, 8, 1101, ssrc, valid[2]))]),
             (A_PCMA, V_H264, [(0, audio), (1, sr), (2, seqv[0][1]), (3, rtcp_sr(vs, 1, 2, 3, 4, 5))])]
    n = 250 if tier == "quick" else 30000
    for _ in range(n):
        a, v, s = rng.choice(pools)
        s = [(ch, mutate(rng, p, hdr=12)) if rng.random() < 0.5 else (ch, p) for ch, p in s]
        if rng.random() < 0.3:
            rng.shuffle(s)
        if rng.random() < 0.2:
            s = s + [rng.choice(s)]
        yield Case(sess_line(a, v, s), cls="sess-mutation")
    for _ in range(100 if tier == "quick" else 10000):
        a, v = rng.choice([(A_AAC, V_H264), (A_PCMA, V_H265), (A_AAC, V_H265)])
        s = []
        for i in range(rng.randrange(1, 6)):
            ch = rng.choice([0, 0, 2, 2, 1, 3])
            pt = a[2] if ch == 0 else v[2]
            if ch in (1, 3):
                s.append((ch, bytes([0x80, 200]) + rb(rng, rng.choice([0, 2, 6, 26, 27]))))
            else:
                s.append((ch, rtp(pt, rng.randrange(1, 6), rng.choice([0, 1000]), 5, rb(rng, rng.choice([1, 2, 3, 4, 6, 9])), pad=rng.choice([0, 0, 0, 1, 3]))))
        yield Case(sess_line(a, v, s), cls="sess-random")


# ---------------------------------------------------------------- in-session with per-track transport state (UDP sockets / interleaved channels / nothing)
def udp_line(acfg, vcfg, evs, op="c13.udpsess"):
    return "%s %s %s %s %s %s %s %s" % (op, acfg[0], acfg[1], acfg[2], vcfg[0], vcfg[1], vcfg[2], ",".join(evs) if evs else "-")


def pk(src, b):
    return "%s:%s" % (src, hex_tok(b))


def setup_evs(sa, sv):
    evs = []
    if sa:
        evs.append("sa:u" if sa == "u" else "sa:t0.1")
    if sv:
        evs.append("sv:u" if sv == "u" else "sv:t2.3")
    return evs


def entry_points(sa, sv):
    """the ways a packet can reach handleRtpPacket / handleRtcpPacket in that transport state"""
    artp, artcp = (0, 1) if sa == "t" else (0, 0)
    vrtp, vrtcp = (2, 3) if sv == "t" else (0, 0)
    rtp_src = ["i%d" % c for c in sorted({artp, vrtp})]
    rtcp_src = ["i%d" % c for c in sorted({artcp, vrtcp} - {artp, vrtp})]
    if sa == "u":
        rtp_src.append("ar")
        rtcp_src.append("ac")
    if sv == "u":
        rtp_src.append("vr")
        rtcp_src.append("vc")
    return rtp_src, rtcp_src


BODY_OF = {"pcma": b"\xd5\xd5", "aac": au_payload([b"\x21\x10"]), "h264": b"\x65\x01", "h265": b"\x26\x01\x02"}


def gen_udpsess(tier, rng):
    quick = tier == "quick"
    # --- the whole transport matrix: every track state x every entry point for the RTP packet that initialises a
    #     track's SSRC x every entry point for the SR that carries it (the reply goes to the RTCP connection / channel
    #     of the SSRC's track, whatever the SR came in on)
    for acfg, vcfg in ((A_PCMA, V_H264), (A_PCMA, V_NONE), (A_NONE, V_H264), (A_AAC, V_H265)):
        tracks = []          # (payload type, ssrc, body)
        if acfg[0] != "none":
            tracks.append((acfg[2], 0x11, BODY_OF[acfg[0]]))
        if vcfg[0] != "none":
            tracks.append((vcfg[2], 0x22, BODY_OF[vcfg[0]]))
        if all(t[0] != 0 for t in tracks):
            tracks.append((0, 0x33, b"\xff"))      # the zero-value payload type of a track the SDP does not have
        for sa in (None, "u", "t"):
            for sv in (None, "u", "t"):
                st = setup_evs(sa if acfg[0] != "none" else None, sv if vcfg[0] != "none" else None)
                rs, cs = entry_points(sa if acfg[0] != "none" else None, sv if vcfg[0] != "none" else None)
                for pt, ssrc, body in tracks:
                    for r in rs:
                        for c in cs:
                            yield Case(udp_line(acfg, vcfg, st + [pk(r, rtp(pt, 1, 0, ssrc, body)), pk(c, rtcp_sr(ssrc, 1, 2, 3, 4, 5))]), cls="udp-matrix")
                allr = [pk(rs[i % len(rs)], rtp(pt, 1, 0, ssrc, body)) for i, (pt, ssrc, body) in enumerate(tracks)]
                alls = [pk(c, rtcp_sr(ssrc, 1, 2, 3, 4, 5)) for c in cs for _, ssrc, _ in tracks]
                yield Case(udp_line(acfg, vcfg, st + allr + alls), cls="udp-matrix")
                # datagrams for every socket, existing or not; SR before any RTP (ssrc 0 matches the zero-value audio ssrc)
                a = rtp(tracks[0][0], 1, 0, 0x11, tracks[0][2])
                yield Case(udp_line(acfg, vcfg, st + [pk("ac", rtcp_sr(0, 1, 2, 3, 4, 5)), pk("vc", rtcp_sr(0, 1, 2, 3, 4, 5)), pk("ar", a), pk("vr", a),
                                                      pk("ac", rtcp_sr(0x11, 1, 2, 3, 4, 5)), pk("vc", rtcp_sr(0x11, 1, 2, 3, 4, 5)), pk("i1", rtcp_sr(0x11, 1, 2, 3, 4, 5))]), cls="udp-nosock")
    # --- SETUP late, twice, with the other transport, for a track the SDP does not have
    a, v = rtp(8, 1, 0, 0x11, b"\xd5\xd5"), rtp(96, 1, 0, 0x22, b"\x65\x01")
    sa_, sv_ = rtcp_sr(0x11, 1, 2, 3, 4, 5), rtcp_sr(0x22, 1, 2, 3, 4, 5)
    late = [
        [pk("i0", a), "sa:u", pk("ac", sa_), "sv:u", pk("vc", sa_), "sa:t0.1", pk("i1", sa_), pk("ac", sa_)],
        [pk("i0", a), pk("i0", v), "sv:u", pk("vc", sa_), pk("vc", sv_), "sa:u", pk("vc", sa_), pk("ac", sv_)],
        ["sa:u", "sa:u", pk("ar", a), pk("ac", sa_), "sa:t4.5", pk("i5", sa_), pk("i4", v), pk("ac", sv_)],
        ["sa:t0.1", "sv:t0.1", pk("i0", a), pk("i0", v), pk("i1", sa_), pk("i1", sv_)],
        ["sa:t1.0", "sv:t3.1", pk("i1", a), pk("i3", v), pk("i0", sa_), pk("i1", sv_)],
        ["sa:t7.7", "sv:u", pk("i7", a), pk("vc", sa_), pk("i7", sa_)],
        ["sv:t200.255", pk("i200", v), pk("i255", sv_), pk("i0", a), "sa:u", pk("ac", sv_), pk("ac", sa_)],
    ]
    for evs in late:
        yield Case(udp_line(A_PCMA, V_H264, evs), cls="udp-late")
    yield Case(udp_line(A_PCMA, V_NONE, ["sv:u", pk("vr", a), "sv:t2.3", pk("i2", a), "sa:u", pk("ar", rtp(0, 1, 0, 0x33, b"\xff")), pk("ac", rtcp_sr(0x33, 1, 2, 3, 4, 5))]), cls="udp-late")
    yield Case(udp_line(A_NONE, V_H264, ["sa:u", pk("ar", v), "sa:t0.1", "sv:u", pk("vr", rtp(0, 1, 0, 0x33, b"\xff")), pk("vc", rtcp_sr(0x33, 1, 2, 3, 4, 5))]), cls="udp-late")
    yield Case(udp_line(A_NONE, V_NONE, ["sa:u", "sv:t0.1", pk("i0", rtp(0, 1, 0, 0x33, b"\xff")), pk("i1", rtcp_sr(0x33, 1, 2, 3, 4, 5)), pk("ac", sa_)]), cls="udp-late")
    # --- receiver-report arithmetic over UDP (same sequence as sess-rr) and the interval arithmetic of the fraction
    #     field: an SR interval in which only duplicate / late packets arrived (expected interval 0, received > 0),
    #     one with nothing at all, one with loss, one after a wrap
    seqs = [65534, 65535, 0, 1, 5, 3, 4, 40000, 2]
    evs = ["sa:u", "sv:u"]
    for i, sq in enumerate(seqs):
        evs.append(pk("ar" if i % 3 else "vr", rtp(8, sq, 160 * i, 0x11, b"\xd5\xd5")))
        if i % 2:
            evs.append(pk("ac" if i % 4 == 1 else "vc", rtcp_sr(0x11, i, i << 16, 0, 0, 0)))
    yield Case(udp_line(A_PCMA, V_H264, evs), cls="udp-rr")
    for pattern in ([10, "sr", 10, 9, "sr", "sr", 11, "sr"], [10, "sr", 10, "sr"], [10, 11, "sr", 11, 11, 11, "sr", 20, "sr"],
                    [65535, "sr", 65535, 65534, "sr", 0, "sr", 0, "sr"], ["sr", 5, "sr", "sr", 5, "sr", 4, "sr", 3, 2, 1, "sr"],
                    [0, "sr", 30000, "sr", 30000, 0, "sr", 60000, "sr", 30000, "sr"]):
        ilv, udp = [], ["sv:u"]
        for k, x in enumerate(pattern):
            if x == "sr":
                ilv.append((3, rtcp_sr(0x22, k, k << 16, 0, 0, 0)))
                udp.append(pk("vc", rtcp_sr(0x22, k, k << 16, 0, 0, 0)))
            else:
                ilv.append((2, rtp(96, x, 0, 0x22, b"\x41\x01")))
                udp.append(pk("vr", rtp(96, x, 0, 0x22, b"\x41\x01")))
        yield Case(sess_line(A_NONE, V_H264, ilv), cls="sess-rr-interval")
        yield Case(udp_line(A_NONE, V_H264, udp), cls="udp-rr-interval")
    for _ in range(20 if quick else 3000):
        ilv, udp, cur = [], ["sa:u"], rng.randrange(65536)
        for k in range(rng.randrange(4, 14)):
            if rng.random() < 0.4:
                ilv.append((1, rtcp_sr(0x11, k, k << 16, 0, 0, 0)))
                udp.append(pk("ac", rtcp_sr(0x11, k, k << 16, 0, 0, 0)))
            else:
                cur = (cur + rng.choice([0, 0, 0, -1, -2, 1, 1, 2, 100, 32767, 32768, 40000])) & 0xffff
                ilv.append((0, rtp(8, cur, 0, 0x11, b"\xd5")))
                udp.append(pk("ar", rtp(8, cur, 0, 0x11, b"\xd5")))
        yield Case(sess_line(A_PCMA, V_NONE, ilv), cls="sess-rr-interval")
        yield Case(udp_line(A_PCMA, V_NONE, udp), cls="udp-rr-interval")
    # --- random event sequences: SETUPs anywhere, valid / mutated / truncated packets from any entry point
    srcs = ["i0", "i0", "i1", "i2", "i3", "i7", "ar", "ac", "vr", "vc", "ar", "ac", "vr", "vc"]
    sts = ["sa:u", "sv:u", "sa:u", "sv:u", "sa:t0.1", "sv:t2.3", "sa:t2.3", "sv:t0.1", "sa:t0.0", "sv:t9.9"]
    for _ in range(300 if quick else 40000):
        acfg, vcfg = rng.choice([(A_PCMA, V_H264), (A_AAC, V_H265), (A_PCMA, V_NONE), (A_NONE, V_H264), (A_AAC, V_H264)])
        evs = [rng.choice(sts) for _ in range(rng.choice([0, 1, 1, 2, 2]))]
        for _ in range(rng.randrange(1, 9)):
            r = rng.random()
            if r < 0.12:
                evs.append(rng.choice(sts))
                continue
            src = rng.choice(srcs)
            if r < 0.55:
                pt, ssrc, body = rng.choice([(acfg[2], 0x11, BODY_OF.get(acfg[0], b"\x01")), (vcfg[2], 0x22, BODY_OF.get(vcfg[0], b"\x01")), (0, 0x33, b"\xff"), (0, 0, b"\x00")])
                b = rtp(pt, rng.randrange(1, 5), 0, ssrc, body)
            else:
                b = rtcp_sr(rng.choice([0x11, 0x22, 0x33, 0, 0x44]), 1, 2, 3, 4, 5)
                if rng.random() < 0.15:
                    b = b[:rng.choice([0, 1, 2, 3, 4, 8, 27])]
            if rng.random() < 0.15:
                b = mutate(rng, b, hdr=12)
            evs.append(pk(src, b))
        yield Case(udp_line(acfg, vcfg, evs), cls="udp-random")
    # --- end to end: the datagrams really travel through the loopback interface into the UdpConnection.RunLoop
    #     goroutines (a panic there is the death of the process)
    e2e = [(A_PCMA, V_H264, ["sv:u", pk("vr", a), pk("vc", sa_)]),
           (A_PCMA, V_H264, ["sa:u", pk("ar", v), pk("ac", sv_)]),
           (A_PCMA, V_H264, ["sa:t0.1", "sv:u", pk("i0", a), pk("vc", sa_)]),
           (A_PCMA, V_NONE, ["sa:u", pk("ar", rtp(0, 1, 0, 0x33, b"\xff")), pk("ac", rtcp_sr(0x33, 1, 2, 3, 4, 5))]),
           (A_PCMA, V_H264, ["sa:u", "sv:u", pk("ar", a), pk("vr", v), pk("ac", sa_), pk("vc", sv_), pk("ac", sv_), pk("vc", sa_), pk("ac", b"\x80"), pk("vr", b"")]),
           (A_AAC, V_H265, ["sv:u", pk("vr", rtp(98, 1, 0, 0x22, h265_ap([b"\x40\x01\x0c", b"\x42\x01\x01"]))), pk("vc", rtcp_sr(0x22, 1, 2, 3, 4, 5)), pk("vr", rtp(97, 1, 0, 0x11, au_payload([b"\x21"]))), pk("vc", rtcp_sr(0x11, 1, 2, 3, 4, 5))])]
    for acfg, vcfg, evs in e2e:
        yield Case(udp_line(acfg, vcfg, evs, op="c13x.udpsess"), cls="x-udpsess")
    for _ in range(6 if quick else 300):
        evs = [rng.choice(["sa:u", "sv:u"])] + [rng.choice(["sa:u", "sv:u", "sa:t0.1"]) for _ in range(rng.randrange(2))]
        for _ in range(rng.randrange(2, 6)):
            src = rng.choice(["ar", "ac", "vr", "vc", "i0", "i1"])
            b = rng.choice([a, v, sa_, sv_, rtp(0, 1, 0, 0x33, b"\xff"), rtcp_sr(0x33, 1, 2, 3, 4, 5), sa_[:9]])
            evs.append(pk(src, b))
        yield Case(udp_line(A_PCMA, V_H264, evs, op="c13x.udpsess"), cls="x-udpsess")

    # --- a real rtsp.PullSession over UDP against a scripted origin: the origin (or anybody who can send to the
    #     client ports) sends these datagrams to the RTP / RTCP port of the first SETUP
    pull = [(A_PCMA, V_NONE, [pk("r", a), pk("c", sa_), pk("r", rtp(0, 1, 0, 0x33, b"\xff")), pk("c", rtcp_sr(0x33, 1, 2, 3, 4, 5))]),
            (A_NONE, V_H264, [pk("r", v), pk("c", sv_), pk("r", rtp(0, 1, 0, 0x33, b"\xff")), pk("c", rtcp_sr(0x33, 1, 2, 3, 4, 5)), pk("c", rtcp_sr(0, 1, 2, 3, 4, 5))]),
            (A_PCMA, V_H264, [pk("r", v), pk("c", sv_), pk("r", a), pk("c", sa_), pk("c", sa_[:5]), pk("r", b"\x80")]),
            (A_AAC, V_H265, [pk("c", rtcp_sr(0, 1, 2, 3, 4, 5)), pk("r", rtp(97, 1, 0, 0x11, au_payload([b"\x21"]))), pk("c", sa_), pk("r", rtp(98, 1, 0, 0x22, b"\x26\x01\x02")), pk("c", sv_)])]
    for acfg, vcfg, evs in pull:
        yield Case(udp_line(acfg, vcfg, evs, op="c13x.pulludp"), cls="x-pulludp")
    for _ in range(4 if quick else 200):
        acfg, vcfg = rng.choice([(A_PCMA, V_NONE), (A_NONE, V_H264), (A_PCMA, V_H264)])
        evs = []
        for _ in range(rng.randrange(2, 7)):
            b = rng.choice([a, v, sa_, sv_, rtp(0, 1, 0, 0x33, b"\xff"), rtcp_sr(0x33, 1, 2, 3, 4, 5), sa_[:9], mutate(rng, sa_), mutate(rng, v, 12)])
            evs.append(pk(rng.choice(["r", "c"]), b))
        yield Case(udp_line(acfg, vcfg, evs, op="c13x.pulludp"), cls="x-pulludp")

def mutate(rng, b, hdr=0):
    """one structural mutation: truncate, set a byte / 16-bit field to an extreme, flip, insert, delete"""
    if not b:
        return b
    b = bytearray(b)
    k = rng.randrange(7)
    if k == 0:
        return bytes(b[:rng.randrange(len(b) + 1)])
    if k == 1:
        i = rng.randrange(len(b))
        b[i] = rng.choice([0, 1, 0x7f, 0x80, 0xfe, 0xff])
    elif k == 2 and len(b) >= 2:
        i = rng.randrange(len(b) - 1)
        b[i:i + 2] = struct.pack(">H", rng.choice([0, 1, 2, 0x7fff, 0x8000, 0xfffe, 0xffff, len(b), max(0, len(b) - i - 2), max(0, len(b) - i - 1)]))
    elif k == 3:
        i = rng.randrange(len(b))
        b[i] ^= 1 << rng.randrange(8)
    elif k == 4:
        i = rng.randrange(len(b) + 1)
        b[i:i] = rb(rng, rng.choice([1, 2, 4]))
    elif k == 5:
        i = rng.randrange(len(b))
        del b[i:i + rng.choice([1, 2, 4])]
    else:
        # keep the fixed header, mutate inside the payload only
        if len(b) > hdr:
            i = rng.randrange(hdr, len(b))
            b[i] = rng.randrange(256)
    return bytes(b)


def gen_ilv(tier, rng):
    a, b = rb(rng, 5), rb(rng, 300)
    streams = [interleaved(0, a), interleaved(1, a) + interleaved(255, b), interleaved(2, b"") + interleaved(3, a) + b"OPTIONS rtsp://x RTSP/1.0\r\n\r\n",
               b"DESCRIBE", b"", b"$", b"$\x01", b"$\x01\x00"]
    for s in streams:
        yield Case("c13.ilv " + hex_tok(s), cls="ilv-valid")
        for t in truncations(s):
            if len(s) - len(t) < 40 or len(t) < 12:
                yield Case("c13.ilv " + hex_tok(t), cls="ilv-trunc")
    for n in (0, 1, 2, 255, 256, 0x7fff, 0x8000, 0xfffe, 0xffff):
        for have in (0, 1, n - 1 if n else 0, n, n + 1):
            if have > 70000:
                continue
            tok = hex_tok(b"$\x07" + struct.pack(">H", n)) + ("+r%d.%d" % (have, n & 0xff) if have else "")
            yield Case("c13.ilv " + tok, cls="ilv-len")
    for _ in range(100 if tier == "quick" else 20000):
        s = streams[rng.randrange(3)]
        yield Case("c13.ilv " + hex_tok(mutate(rng, s)), cls="ilv-mutation")
    for _ in range(40 if tier == "quick" else 5000):
        s = bytearray(rb(rng, rng.choice([1, 3, 4, 5, 8, 20])))
        if rng.random() < 0.7:
            s[0] = 0x24
        yield Case("c13.ilv " + hex_tok(bytes(s)), cls="ilv-random")


def gen_ws(tier, rng):
    msg = b"OPTIONS rtsp://h/live/x RTSP/1.0\r\nCSeq: 1\r\n\r\n"
    frames = [ws_frame(msg, mask=b"\x01\x02\x03\x04"), ws_frame(msg), ws_frame(b""), ws_frame(b"", mask=b"\xff\xff\xff\xff"),
              ws_frame(rb(rng, 126)), ws_frame(rb(rng, 200), mask=rb(rng, 4)), ws_frame(rb(rng, 7), lenform=126), ws_frame(rb(rng, 7), lenform=127, mask=rb(rng, 4)),
              ws_frame(msg, opcode=1, fin=0), ws_frame(msg, opcode=8), ws_frame(b"ab") + ws_frame(b"cd", mask=b"abcd") + ws_frame(rb(rng, 130))]
    for f in frames:
        yield Case("c13.ws " + hex_tok(f), cls="ws-valid")
        for t in truncations(f):
            if len(t) < 16 or len(f) - len(t) < 6:
                yield Case("c13.ws " + hex_tok(t), cls="ws-trunc")
    # declared length: 0, 1, max-1, max of each form, around the cap, sign bit, 2^64-1
    cap = 1 << 20
    for d in (0, 1, 125, 126, 127, 65535, 65536, cap - 1, cap, cap + 1, 1 << 24, 1 << 31, (1 << 32) - 1, 1 << 32, 1 << 47, 1 << 48, (1 << 48) + 1,
              (1 << 63) - 1, 1 << 63, (1 << 64) - 2, (1 << 64) - 1):
        for have in (0, 5):
            for mk in (None, b"\x11\x22\x33\x44"):
                yield Case("c13.ws " + hex_tok(ws_frame(rb(rng, have), declared=d, lenform=127, mask=mk)), cls="ws-len64")
    for d in (0, 1, 125, 126, 65534, 65535):
        yield Case("c13.ws " + hex_tok(ws_frame(rb(rng, 3), declared=d, lenform=126)), cls="ws-len16")
    for d in (cap - 1, cap, cap + 1):
        for have in (d - 1, d, d + 1):
            yield Case("c13.ws %s+r%d.%d" % (hex_tok(bytes([0x82, 127]) + struct.pack(">Q", d)), have, d & 0xff), cls="ws-cap")
            yield Case("c13.ws %s+r%d.%d" % (hex_tok(bytes([0x82, 0xff]) + struct.pack(">Q", d) + b"\xa5\x5a\x01\xfe"), have, d & 0xff), cls="ws-cap")
    for _ in range(150 if tier == "quick" else 20000):
        f = frames[rng.randrange(len(frames))]
        yield Case("c13.ws " + hex_tok(mutate(rng, f)), cls="ws-mutation")
    for _ in range(60 if tier == "quick" else 5000):
        yield Case("c13.ws " + hex_tok(rb(rng, rng.choice([1, 2, 3, 4, 6, 10, 14, 20]))), cls="ws-random")


# ---------------------------------------------------------------- GB28181 program stream (ISO 13818-1 2.5)
def ps_pts(flagbits, v):
    return bytes([(flagbits << 4) | (((v >> 30) & 7) << 1) | 1, (v >> 22) & 0xff, (((v >> 15) & 0x7f) << 1) | 1, (v >> 7) & 0xff, ((v & 0x7f) << 1) | 1])


def ps_pack_header(scr=0, stuffing=0):
    return b"\x00\x00\x01\xba" + bytes([0x44 | ((scr >> 27) & 0x38), 0, 4, 0, 4, 1, 0x01, 0x89, 0xc3, 0xf8 | stuffing]) + b"\xff" * stuffing


def ps_system_header():
    body = bytes([0x80, 0x04, 0xe1, 0x04, 0xe1, 0x7f, 0xe0, 0xe0, 0x80, 0xc0, 0xc0, 0x08])
    return b"\x00\x00\x01\xbb" + struct.pack(">H", len(body)) + body


def ps_psm(entries, info=b""):
    es = b"".join(bytes([t, sid]) + struct.pack(">H", len(d)) + d for t, sid, d in entries)
    body = bytes([0xe0, 0xff]) + struct.pack(">H", len(info)) + info + struct.pack(">H", len(es)) + es + b"\x45\xbd\xdc\xf4"
    return b"\x00\x00\x01\xbc" + struct.pack(">H", len(body)) + body


def ps_pes(sid, payload, pts=None, dts=None, stuffing=0, length=None, phdl=None, flags=None):
    hd = b""
    fl = 0
    if pts is not None and dts is not None:
        hd = ps_pts(3, pts) + ps_pts(1, dts)
        fl = 0xc0
    elif pts is not None:
        hd = ps_pts(2, pts)
        fl = 0x80
    hd += b"\xff" * stuffing
    body = bytes([0x8c, fl if flags is None else flags, len(hd) if phdl is None else phdl]) + hd + payload
    return b"\x00\x00\x01" + bytes([sid]) + struct.pack(">H", len(body) if length is None else length) + body


def ps_rtp_split(data, seq0, ts, mtu, ssrc=0x0badcafe):
    out = []
    chunks = [data[i:i + mtu] for i in range(0, len(data), mtu)]
    for i, c in enumerate(chunks):
        out.append(rtp(96, seq0 + i, ts, ssrc, c, marker=int(i == len(chunks) - 1)))
    return out


def ps_line(maxlist, pkts):
    return "c13.ps %d %s" % (maxlist, ",".join(hex_tok(p) for p in pkts) if pkts else "-")


def ps_valid_stream(rng, hevc=False, mtu=40, frames=3, audio=True, nopts=False):
    """key frame (pack hdr, system hdr, psm, sps/pps/idr in PES packets) then P frames and audio, as RTP packets"""
    pkts = []
    seq = 100
    if hevc:
        ps = [b"\x00\x00\x00\x01\x40\x01\x0c\x01\xff", b"\x00\x00\x00\x01\x42\x01\x01\x01", b"\x00\x00\x01\x44\x01\xc1\x72", b"\x00\x00\x00\x01\x26\x01" + rb(rng, 30)]
        psm = ps_psm([(0x24, 0xe0, b""), (0x90, 0xc0, b"")])
    else:
        ps = [b"\x00\x00\x00\x01\x67\x42\x00\x1e\xab", b"\x00\x00\x00\x01\x68\xce\x38\x80", b"\x00\x00\x01\x65" + rb(rng, 30)]
        psm = ps_psm([(0x1b, 0xe0, b"\x0a\x0b"), (0x0f, 0xc0, b"")], info=b"\x01")
    for f in range(frames):
        pts = None if nopts else 90000 + 3600 * f
        data = ps_pack_header(stuffing=f % 3)
        if f == 0:
            data += ps_system_header() + psm
            for i, n in enumerate(ps):
                data += ps_pes(0xe0, n, pts=pts if i == 0 else None, dts=pts if (i == 0 and pts is not None and f == 0) else None)
        else:
            data += ps_pes(0xe0, b"\x00\x00\x00\x01" + bytes([0x02 if hevc else 0x41, 0x01]) + rb(rng, 25), pts=pts, stuffing=f)
        if audio:
            data += ps_pes(0xc0, b"\xff\xf1" + rb(rng, 10), pts=pts)
        p = ps_rtp_split(data, seq, 3600 * f, mtu)
        seq += len(p)
        pkts += p
    data = ps_pack_header() + b"\x00\x00\x01\xb9"
    pkts += ps_rtp_split(data, seq, 3600 * frames, mtu)
    return pkts


def gen_ps(tier, rng):
    for hevc in (False, True):
        for mtu in (12, 40, 1400):
            for nopts in (False, True):
                v = ps_valid_stream(rng, hevc=hevc, mtu=mtu, nopts=nopts)
                yield Case(ps_line(1024, v), cls="ps-valid")
    v = ps_valid_stream(rng, mtu=30)
    # every truncation of every packet of a valid stream (the cut packet replaces the original)
    step = 1 if tier == "thorough" else 2
    for k in range(len(v)):
        for cut in range(12, len(v[k]), step):
            yield Case(ps_line(1024, v[:k] + [v[k][:cut]] + v[k + 1:k + 3]), cls="ps-trunc")
    one = ps_valid_stream(rng, mtu=1400, frames=2)
    for k in range(len(one)):
        for cut in range(12, min(len(one[k]), 140)):
            yield Case(ps_line(1024, one[:k] + [one[k][:cut]]), cls="ps-trunc")
    # short buffers: every prefix of each start code as a whole body (the confirmed F-22 site)
    for code in (0xba, 0xbb, 0xbc, 0xc0, 0xe0, 0xb9, 0xbd, 0xbe, 0xbf, 0xf0, 0xf1, 0xff, 0x00, 0xb8):
        full = b"\x00\x00\x01" + bytes([code]) + rb(rng, 12)
        for n in range(1, len(full) + 1):
            yield Case(ps_line(1024, [rtp(96, 1, 0, 1, full[:n])]), cls="ps-short")
            yield Case(ps_line(1024, [rtp(96, 1, 0, 1, full[:n]), rtp(96, 2, 0, 1, full[n:] or b"\x00")]), cls="ps-short")
    # PES length / header data length / flags: 0, 1, max-1, max
    nal = b"\x00\x00\x00\x01\x67\x42\x00\x1e"
    for sid in (0xe0, 0xc0):
        for length in (0, 1, 2, 3, 4, 7, 8, 9, 12, 13, 14, 20, 0xfffe, 0xffff):
            for phdl in (0, 1, 4, 5, 9, 10, 11, 255):
                for flags in (0x00, 0x40, 0x80, 0xc0):
                    pes = b"\x00\x00\x01" + bytes([sid]) + struct.pack(">H", length) + bytes([0x80, flags, phdl]) + ps_pts(2, 1234) + ps_pts(1, 1000) + nal
                    pre = ps_psm([(0x1b, 0xe0, b""), (0x0f, 0xc0, b"")])
                    yield Case(ps_line(1024, [rtp(96, 1, 0, 1, pre + pes), rtp(96, 2, 9, 1, ps_pes(sid, nal, pts=99999))]), cls="ps-pes-field")
    # PES packets that end exactly where the header wants to read on (rb[i+1], rb[i+2], readPts)
    for sid in (0xe0, 0xc0):
        for flags in (0x00, 0x40, 0x80, 0xc0):
            for length in range(0, 16):
                for phdl in (0, 5, 10):
                    body = (bytes([0x80, flags, phdl]) + ps_pts(2, 7) + ps_pts(1, 7) + b"\x00\x00\x01\x09")[:length]
                    pes = b"\x00\x00\x01" + bytes([sid]) + struct.pack(">H", length) + body
                    yield Case(ps_line(1024, [rtp(96, 1, 0, 1, ps_psm([(0x1b, 0xe0, b""), (0x90, 0xc0, b"")]) + pes)]), cls="ps-pes-exact")
    # short NAL units in the video buffer (Payload[4] in onAvPacketWrap)
    for vb in (b"\x00\x00\x01", b"\x00\x00\x01\x65", b"\x00\x00\x00\x01", b"\x00\x00\x00\x01\x67", b"\x00\x00\x01\x67\x00\x00\x01\x68\x00\x00\x01",
               b"\x67\x68", b"", b"\x00\x00\x00\x00\x00\x01\x09", b"\x00\x00\x01\x00\x00\x01\x00\x00\x01\x67\x99", b"\x01\x00\x00\x01\x68\x01\x02"):
        for st in (0x1b, 0x24, 0x99):
            pre = ps_psm([(st, 0xe0, b"")])
            yield Case(ps_line(1024, [rtp(96, 1, 0, 1, pre + ps_pes(0xe0, vb, pts=1000)), rtp(96, 2, 9, 1, ps_pes(0xe0, vb, pts=2000)), rtp(96, 3, 9, 1, ps_pes(0xe0, vb, pts=3000))]), cls="ps-nalu")
            yield Case(ps_line(1024, [rtp(96, 1, 0, 1, pre + ps_pes(0xe0, vb)), rtp(96, 2, 9, 1, ps_pes(0xe0, vb)), rtp(96, 3, 10, 1, ps_pes(0xe0, vb))]), cls="ps-nalu")
    # program stream map fields
    for psi in (0, 1, 2, 0xfffe, 0xffff):
        for esml in (0, 1, 3, 4, 5, 8, 9, 0xffff):
            for esil in (0, 1, 4, 0xffff):
                body = bytes([0xe0, 0xff]) + struct.pack(">H", psi) + struct.pack(">H", esml) + bytes([0x1b, 0xe0]) + struct.pack(">H", esil) + bytes([0x0f, 0xc0, 0, 0]) + rb(rng, 6)
                yield Case(ps_line(1024, [rtp(96, 1, 0, 1, b"\x00\x00\x01\xbc" + struct.pack(">H", len(body)) + body + ps_pes(0xe0, nal, pts=5))]), cls="ps-psm-field")
    for n in range(0, 24):
        body = ps_psm([(0x1b, 0xe0, b"\x01\x02"), (0x0f, 0xc0, b"")])
        yield Case(ps_line(1024, [rtp(96, 1, 0, 1, body[:n] or b"\x00")]), cls="ps-psm-field")
    # pack header stuffing and generic "length + body" sections
    for stuffing in range(8):
        for have in (0, 1, stuffing, stuffing + 1):
            yield Case(ps_line(1024, [rtp(96, 1, 0, 1, ps_pack_header(stuffing=0)[:13] + bytes([0xf8 | stuffing]) + b"\xff" * have + b"\x00\x00\x01\xb9")]), cls="ps-pack")
    for code in (0xbb, 0xbd, 0xbe, 0xbf, 0xf0, 0xf1, 0xff):
        for l in (0, 1, 2, 5, 0xfffe, 0xffff):
            for have in (0, 1, 2, 5, 6):
                yield Case(ps_line(1024, [rtp(96, 1, 0, 1, b"\x00\x00\x01" + bytes([code]) + struct.pack(">H", l) + rb(rng, have)), rtp(96, 2, 0, 1, ps_pack_header())]), cls="ps-section")
    # reorder queue: loss, duplicates, stale, queue full, reset after a bad code (Size accounting)
    good = lambda s, t=0: rtp(96, s, t, 1, ps_pack_header())
    bad = lambda s: rtp(96, s, 0, 1, b"\xde\xad\xbe\xef\x00")
    start = lambda s: rtp(96, s, 0, 1, b"\x00\x00\x01\xba\x44")
    for mx in (1, 2, 3, 4, 8):
        yield Case(ps_line(mx, [good(1)] + [good(s) for s in range(3, 3 + mx + 3)] + [good(2)]), cls="ps-queue")
        yield Case(ps_line(mx, [good(1)] + [good(s) for s in (5, 4, 3, 3, 1, 0, 65535)] + [good(s) for s in range(7, 7 + mx + 2)]), cls="ps-queue")
        yield Case(ps_line(mx, [good(65534)] + [start(s & 0xffff) for s in range(65536, 65536 + mx + 4)]), cls="ps-queue")
        yield Case(ps_line(mx, [good(1), good(3), start(4), good(5), start(7), good(8), good(10), good(12), good(14), good(16), good(18)]), cls="ps-queue")
        # bad code while packets are queued -> list.Reset(); repeat until the Size counter says "full"
        seqs = []
        for r in range(mx + 3):
            b = 10 * r
            seqs += [good(b + 1), good(b + 3), good(b + 4), bad(b + 2)]
        yield Case(ps_line(mx, seqs + [bad(500), bad(501), good(502)]), cls="ps-reset")
        yield Case(ps_line(mx, seqs + [good(500), good(501)]), cls="ps-reset")
    # mutation stream
    pools = [ps_valid_stream(rng, mtu=60), ps_valid_stream(rng, hevc=True, mtu=200, audio=False), ps_valid_stream(rng, mtu=1400, frames=4, nopts=True)]
    n = 400 if tier == "quick" else 40000
    for _ in range(n):
        v = list(rng.choice(pools))
        for _k in range(rng.choice([1, 1, 2, 3])):
            i = rng.randrange(len(v))
            v[i] = mutate(rng, v[i], hdr=12)
        if rng.random() < 0.25:
            i = rng.randrange(len(v))
            j = rng.randrange(len(v))
            v[i], v[j] = v[j], v[i]
        if rng.random() < 0.15:
            del v[rng.randrange(len(v))]
        yield Case(ps_line(rng.choice([1024, 1024, 4, 2]), v), cls="ps-mutation")
    for _ in range(150 if tier == "quick" else 20000):
        pk = []
        for i in range(rng.randrange(1, 5)):
            body = bytearray(rb(rng, rng.choice([1, 2, 3, 4, 5, 6, 8, 9, 13, 14, 20, 30])))
            if rng.random() < 0.8 and len(body) >= 4:
                body[0:4] = b"\x00\x00\x01" + bytes([rng.choice([0xba, 0xbb, 0xbc, 0xc0, 0xe0, 0xe0, 0xc0, 0xb9, 0xbd])])
            pk.append(rtp(96, 1 + i, rng.choice([0, 7]), 1, bytes(body), pad=rng.choice([0, 0, 0, 2])))
        yield Case(ps_line(rng.choice([1024, 2]), pk), cls="ps-random")


# ---------------------------------------------------------------- RTMP (client side), SDP lines, URLs
def amf_str(x):
    b = x.encode()
    return b"\x02" + struct.pack(">H", len(b)) + b


def amf_num(v):
    return b"\x00" + struct.pack(">d", v)


def amf_obj(pairs):
    out = b"\x03"
    for k, v in pairs:
        kb = k.encode()
        out += struct.pack(">H", len(kb)) + kb + (amf_str(v) if isinstance(v, str) else amf_num(v))
    return out + b"\x00\x00\x09"


def rtmp_msg(csid, typeid, msid, ts, payload, chunk=128):
    out = b""
    first = True
    for i in range(0, max(len(payload), 1), chunk):
        if first:
            out += bytes([csid & 0x3f]) + ts.to_bytes(3, "big") + len(payload).to_bytes(3, "big") + bytes([typeid]) + struct.pack("<I", msid)
            first = False
        else:
            out += bytes([0xc0 | (csid & 0x3f)])
        out += payload[i:i + chunk]
    return out


def rtmp_server_stream(rng, push=False):
    """what an origin sends to a pulling / pushing client after the handshake"""
    s = rtmp_msg(2, 5, 0, 0, struct.pack(">I", 5000000))
    s += rtmp_msg(2, 6, 0, 0, struct.pack(">IB", 5000000, 2))
    s += rtmp_msg(2, 1, 0, 0, struct.pack(">I", 128))
    s += rtmp_msg(3, 20, 0, 0, amf_str("_result") + amf_num(1) + amf_obj([("fmsVer", "FMS/3,0,1,123"), ("capabilities", 31.0)])
                  + amf_obj([("level", "status"), ("code", "NetConnection.Connect.Success"), ("description", "Connection succeeded."), ("objectEncoding", 0.0)]))
    s += rtmp_msg(3, 20, 0, 0, amf_str("onBWDone") + amf_num(0) + b"\x05")
    s += rtmp_msg(3, 20, 0, 0, amf_str("_result") + amf_num(2) + b"\x05" + amf_num(1))
    s += rtmp_msg(2, 4, 0, 0, struct.pack(">HI", 0, 1))
    code = "NetStream.Publish.Start" if push else "NetStream.Play.Start"
    s += rtmp_msg(5, 20, 1, 0, amf_str("onStatus") + amf_num(0) + b"\x05" + amf_obj([("level", "status"), ("code", code), ("description", "ok")]))
    if not push:
        s += rtmp_msg(5, 18, 1, 0, amf_str("|RtmpSampleAccess") + b"\x01\x01\x01\x01")
        s += rtmp_msg(5, 18, 1, 0, amf_str("onMetaData") + amf_obj([("width", 640.0), ("encoder", "x")]))
        s += rtmp_msg(6, 9, 1, 0, b"\x17\x00\x00\x00\x00" + rb(rng, 30))
        s += rtmp_msg(4, 8, 1, 0, b"\xaf\x00\x12\x10")
        s += rtmp_msg(6, 9, 1, 40, b"\x27\x01\x00\x00\x00" + rb(rng, 200))
        s += rtmp_msg(2, 4, 0, 0, struct.pack(">HI", 6, 12345))
        s += rtmp_msg(2, 3, 0, 0, struct.pack(">I", 100000))
    return s


def gen_rtmpc(tier, rng):
    for t in range(256):
        for n in (0, 1, 2, 3, 4, 5, 6, 7):
            if t in (18, 20) and n > 1:
                continue
            yield Case("c13.rtmpc %d %d %s" % (t & 1, t, hex_tok(rb(rng, n))), cls="rtmpc-type")
    for ev in range(0, 9):
        for n in range(0, 9):
            p = (struct.pack(">H", ev) + rb(rng, 8))[:n]
            yield Case("c13.rtmpc 0 4 %s" % hex_tok(p), cls="rtmpc-userctl")
    for n in range(0, 7):
        yield Case("c13.rtmpc 1 3 %s" % hex_tok(rb(rng, n)), cls="rtmpc-ack")
        for t in (1, 5, 6):
            yield Case("c13.rtmpc 0 %d %s" % (t, hex_tok(rb(rng, n))), cls="rtmpc-ctl")
    for _ in range(60 if tier == "quick" else 20000):
        t = rng.choice([0, 2, 3, 3, 4, 4, 4, 7, 15, 16, 17, 19, 22, 255, rng.randrange(256)])
        p = bytearray(rb(rng, rng.choice([0, 1, 2, 3, 4, 5, 6, 8, 12])))
        if t == 4 and len(p) >= 2 and rng.random() < 0.6:
            p[0:2] = b"\x00\x06"
        yield Case("c13.rtmpc %d %d %s" % (rng.randrange(2), t, hex_tok(bytes(p))), cls="rtmpc-random")
    # whole client read loop on an origin's byte stream (AMF0 / chunk layer included; not modelled)
    for push in (0, 1):
        v = rtmp_server_stream(rng, push=bool(push))
        yield Case("c13x.rtmpclient %d %s" % (push, hex_tok(v)), cls="x-rtmpclient")
        step = 1 if tier == "thorough" else 7
        for cut in range(0, len(v), step):
            yield Case("c13x.rtmpclient %d %s" % (push, hex_tok(v[:cut])), cls="x-rtmpclient")
        for t in (0, 2, 7, 15, 16, 17, 19, 22, 23, 64, 255):
            for n in (0, 1, 4):
                yield Case("c13x.rtmpclient %d %s" % (push, hex_tok(v[:40] + rtmp_msg(3, t, 0, 0, rb(rng, n)) + v[40:80])), cls="x-rtmpclient")
        for _ in range(150 if tier == "quick" else 20000):
            yield Case("c13x.rtmpclient %d %s" % (push, hex_tok(mutate(rng, mutate(rng, v) if rng.random() < 0.3 else v))), cls="x-rtmpclient")
    # http-flv pull: response of the origin
    tagb = lambda t, ts, p: bytes([t]) + len(p).to_bytes(3, "big") + (ts & 0xffffff).to_bytes(3, "big") + bytes([ts >> 24]) + b"\0\0\0" + p + (11 + len(p)).to_bytes(4, "big")
    resp = (b"HTTP/1.1 200 OK\r\nServer: x\r\nContent-Type: video/x-flv\r\nConnection: close\r\n\r\n" + b"FLV\x01\x05\0\0\0\x09\0\0\0\0"
            + tagb(18, 0, rb(rng, 20)) + tagb(9, 0, b"\x17\x00" + rb(rng, 20)) + tagb(8, 10, b"\xaf\x01" + rb(rng, 5)))
    yield Case("c13x.flvpull " + hex_tok(resp), cls="x-flvpull")
    for cut in range(0, len(resp), 1 if tier == "thorough" else 3):
        yield Case("c13x.flvpull " + hex_tok(resp[:cut]), cls="x-flvpull")
    for line in (b"HTTP/1.1 302 Found\r\nLocation: http://x/y.flv\r\n\r\n", b"HTTP/1.1\r\n\r\n", b"\r\n\r\n", b"HTTP/1.1 200\r\n\r\n", b" \r\n\r\n", b"HTTP/1.1 200 OK\r\nX\r\n\r\n",
                 b"HTTP/1.1 200 OK\r\n: \r\n\r\n", b"HTTP/1.1 200 OK\n\n", b"a b\r\n\r\nFLV", b"HTTP/1.1  200  OK\r\nA:b\r\n\r\n" + b"FLV\x01\x05\0\0\0\x09\0\0\0\0" + b"\x09\xff\xff\xff" + bytes(11)):
        yield Case("c13x.flvpull " + hex_tok(line), cls="x-flvpull")
    for _ in range(200 if tier == "quick" else 20000):
        yield Case("c13x.flvpull " + hex_tok(mutate(rng, resp)), cls="x-flvpull")


# ---------------------------------------------------------------- the RTSP message reader (rtsp/read_message.go)
CL_VALUES = [b"0", b"1", b"5", b"-1", b"-0", b"+0", b"+5", b"-5", b"0x10", b"1e3", b"1_0", b"05", b"0000000000000000000000005", b"99999999999", b"2147483647", b"2147483648",
             b"4294967296", b"9223372036854775807", b"9223372036854775808", b"-9223372036854775808", b"-9223372036854775809", b"18446744073709551615", b"99999999999999999999",
             b"5 ", b" 5", b"  5  ", b"\t5", b"5\t", b"5 5", b"", b" ", b"abc", b"5a", b"-", b"+", b"5.0", b"\xef\xbc\x95"]
CL_NAMES = [b"Content-Length", b"content-length", b"CONTENT-LENGTH", b"Content-length", b"cONTENT-lENGTH", b"Content-Length ", b" Content-Length", b"  content-length  ", b"Content-Length\t",
            b"Content_Length", b"Content Length", b"Content-Lengt", b"Content-Length2", b"X-Content-Length", b"Content\xe2\x84\xaaLength", b""]


def http_msg(first, headers, body=b"", eol=b"\r\n"):
    out = first + eol
    for k, v in headers:
        out += k + b": " + v + eol
    return out + eol + body


def gen_msg(tier, rng):
    quick = tier == "quick"
    req1 = b"ANNOUNCE rtsp://127.0.0.1:5544/live/x RTSP/1.0"
    resp1 = b"RTSP/1.0 200 OK"
    body = b"v=0\r\no=- 0 0 IN IP4 127.0.0.1\r\nm=video 0 RTP/AVP 96\r\n"
    kinds = ("raw", "req", "resp")

    def one(kind, b, cls):
        return Case("c13.rtspmsg %s %s" % (kind, hex_tok(b)), cls=cls)
    # --- Content-Length: absent / 0 / exact / short body / long body, every value form, every spelling of the name
    for kind, first in (("raw", resp1), ("req", req1), ("resp", resp1)):
        yield one(kind, http_msg(first, [(b"CSeq", b"2")], body), "msg-cl-absent")
        yield one(kind, http_msg(first, [(b"CSeq", b"2"), (b"Content-Length", b"%d" % len(body))], body), "msg-cl-exact")
        for d in (-1, 1, len(body), 4096, 100000):
            yield one(kind, http_msg(first, [(b"Content-Length", b"%d" % (len(body) + d))], body), "msg-cl-short-body")
        yield one(kind, http_msg(first, [(b"Content-Length", b"%d" % len(body))], body + b"OPTIONS * RTSP/1.0\r\n\r\n"), "msg-cl-long-body")
        for v in CL_VALUES:
            for bd in (b"", b"hello", body):
                yield one(kind, http_msg(first, [(b"CSeq", b"1"), (b"Content-Length", v)], bd), "msg-cl-value")
        for nm in CL_NAMES:
            yield one(kind, http_msg(first, [(nm, b"5"), (b"Content-Type", b"application/sdp")], b"hello world"), "msg-cl-name")
            yield one(kind, first + b"\r\n" + nm + b":5\r\n\r\nhello world", "msg-cl-name")
        # duplicated header (the first one counts), a value glued from a line without colon, an empty first value
        for v1, v2 in ((b"5", b"3"), (b"3", b"5"), (b"-1", b"5"), (b"5", b"-1"), (b"", b"5"), (b"5", b""), (b"abc", b"5"), (b"99999999999", b"0")):
            yield one(kind, http_msg(first, [(b"Content-Length", v1), (b"content-length", v2)], b"hello world"), "msg-cl-dup")
            yield one(kind, http_msg(first, [(b"content-LENGTH", v1), (b"X", b"y"), (b"Content-Length", v2)], b"hello world"), "msg-cl-dup")
        for glue in (b"0", b"1", b"-1", b" 1", b"x", b"99999999999"):
            yield one(kind, first + b"\r\nContent-Length: 1\r\n" + glue + b"\r\n\r\nhello world!", "msg-cl-glue")
            yield one(kind, first + b"\r\nContent-Length: 1\r\nContent-Length: 2\r\n" + glue + b"\r\n\r\nhello world!", "msg-cl-glue")
            yield one(kind, first + b"\r\n" + glue + b"\r\nContent-Length: 1\r\n\r\nhello world!", "msg-cl-glue")
            yield one(kind, first + b"\r\n:v\r\n" + glue + b"\r\nContent Length: 1\r\n" + glue + b"\r\n\r\nhello", "msg-cl-glue")
    # --- body sizes around the read step and the doubling points, declared = exact / one more / double / huge
    for n in (0, 1, 255, 256, 257, 4095, 4096, 4097, 8191, 8192, 8193, 12288, 16384, 16385, 20000, 40000):
        for decl in (n, n + 1, 2 * n + 1, n + 4096, n + 4097, 99999999999, 9223372036854775807):
            hdr = http_msg(resp1, [(b"Content-Length", b"%d" % decl)])
            tok = hex_tok(hdr) + ("+r%d.%d" % (n, n & 0xff) if n else "")
            yield Case("c13.rtspmsg raw %s" % tok, cls="msg-body-size")
            if decl in (n, n + 1, 99999999999):
                yield Case("c13.rtspmsg req %s" % tok, cls="msg-body-size")
    # --- first line and line structure
    firsts = [b"", b" ", b"A", b"A B", b"A B C", b"A B C D", b"A  B", b" A B", b"A B ", b"A B C ", b"  ", b"A\tB", b"\r", b":", b"A:B C", b"OPTIONS * RTSP/1.0"]
    for f in firsts:
        for eol in (b"\r\n", b"\n"):
            yield one("req", http_msg(f, [(b"CSeq", b"1")], eol=eol), "msg-first-line")
            yield one("raw", http_msg(f, [(b"Content-Length", b"2")], b"ab", eol=eol), "msg-first-line")
    odd = [b"\r\n", b"\n", b"\r", b"\r\r\n", b"A B\r\r\n\r\n", b"A B\n\r\n", b"A B\r\nK: v\r\r\n\r\n", b"A B\r\nK: v\n\n", b"A B\r\nK: v", b"A B\r\nK: v\r\n", b"A B\r\nK: v\r", b"A B", b"A B\r",
           b"A B\r\n\r\n", b"A B\r\n\rK: v\r\n\r\n", b"A B\r\nK:: v:w\r\n\r\n", b"A B\r\n: v\r\nx\r\n\r\n", b"A B\r\nK:\r\nK: \r\nK:   a  \r\n\r\n", b"A B\r\nK: a\r\nk: b\r\nK-k: c\r\nk-K: d\r\n\r\n",
           b"A B\r\nK k: a\r\nK k: b\r\ncont\r\n\r\n", b"A B\r\nk\x00: a\r\nK\x00: b\r\n\r\n", b"A B\r\na-b-c: 1\r\nA-B-C: 2\r\n-a: 3\r\n-: 4\r\n--a: 5\r\n\r\n", b"A B\r\n1a-2b: x\r\nwww-authenticate: y\r\n\r\n",
           b"A B\r\nContent-Length: 3\r\n\r\nab\r\n", b"A B\r\n\x80\xff: \xff\r\n\xfe\r\n\r\n", b"A B\r\nK: v\x00w\r\n\r\n"]
    for o in odd:
        for kind in kinds:
            yield one(kind, o, "msg-lines")
    # long lines: the 256-byte buffer of the client connection and the 4096-byte bufio default, '\r' at the buffer edge
    for n in (253, 254, 255, 256, 257, 258, 511, 512, 513, 4093, 4094, 4095, 4096, 4097, 8192, 8193):
        for tail in (b"", b"\r"):
            fl = b"A " + b"u" * (n - 2 - len(tail)) + tail
            yield one("raw", fl + b"\r\nContent-Length: 1\r\n\r\nx", "msg-long-line")
            yield one("raw", fl + b"\nContent-Length: 1\n\nx", "msg-long-line")
            yield one("req", b"A B\r\nK: " + b"v" * (n - 3 - len(tail)) + tail + b"\r\nContent-Length: 1\r\n\r\nx", "msg-long-line")
            yield one("raw", b"A B\r\nK: " + b"v" * (n - 3 - len(tail)) + tail + b"\r\n" + b"c" * (n - len(tail)) + tail + b"\r\n\r\n", "msg-long-line")
            yield one("raw", b"A B\r\n" + b"k" * (n - 1) + b":" + tail, "msg-long-line")
    # --- truncation at every offset, mutations
    whole = http_msg(req1, [(b"CSeq", b"2"), (b"Content-Type", b"application/sdp"), (b"Content-Length", b"%d" % len(body))], body)
    for cut in range(len(whole) + 1):
        yield one("raw", whole[:cut], "msg-trunc")
        if cut % 3 == 0:
            yield one("req", whole[:cut], "msg-trunc")
    seps = [b"\r\n", b"\n", b"\r", b":", b" ", b"-", b"+", b"Content-Length: ", b"content-length:", b"0", b"9"]
    for _ in range(600 if quick else 60000):
        yield one(rng.choice(kinds), text_mutate(rng, whole, seps), "msg-mutation")
    for _ in range(150 if quick else 20000):
        hs = []
        for _ in range(rng.randrange(0, 5)):
            if rng.random() < 0.5:
                hs.append((rng.choice(CL_NAMES), rng.choice(CL_VALUES)))
            else:
                hs.append((bytes(rng.choice(b"aA-k: \t") for _ in range(rng.randrange(0, 6))), bytes(rng.choice(b"v 1-\t:") for _ in range(rng.randrange(0, 5)))))
        yield one(rng.choice(kinds), http_msg(rng.choice(firsts + [req1, resp1]), hs, rb(rng, rng.choice([0, 1, 5, 6, 30])), eol=rng.choice([b"\r\n", b"\r\n", b"\n"])), "msg-random")
    # --- the framing loops of the sessions: messages with and without body, interleaved packets in between
    m1 = http_msg(b"OPTIONS rtsp://h/x RTSP/1.0", [(b"CSeq", b"1")])
    m2 = http_msg(req1, [(b"CSeq", b"2"), (b"Content-Length", b"%d" % len(body))], body)
    m3 = http_msg(b"SETUP rtsp://h/x/streamid=0 RTSP/1.0", [(b"CSeq", b"3"), (b"Transport", b"RTP/AVP/TCP;unicast;interleaved=0-1")])
    r2 = http_msg(resp1, [(b"CSeq", b"2"), (b"content-length", b"%d" % len(body))], body)
    r3 = http_msg(b"RTSP/1.0 401 Unauthorized", [(b"CSeq", b"3"), (b"WWW-Authenticate", b'Digest realm="r", nonce="n"')])
    p1, p2 = interleaved(0, rtp(96, 1, 0, 7, b"\x65\x01")), interleaved(1, rtcp_sr(7, 1, 2, 3, 4, 5))
    big = http_msg(resp1, [(b"Content-Length", b"10000")], bytes(i & 0xff for i in range(10000)))
    bads = [http_msg(req1, [(b"Content-Length", v)], b"hello") for v in (b"-1", b"99999999999", b"+5", b"0x10", b"6", b"4", b"abc", b"9223372036854775807")]
    seqs = [[m1, m2, m3], [m1, p1, m2, p2, p1, m3], [p1, p2], [m2, m2, m2], [r2, r3, p1, r2], [big, m1, big], [m1, b"\r\n", m3], [m1, b"$"], [m1, b"$\x00\x00"], [m2[:-1], m1],
            [m2 + b"$", m1], [m2 + b"\r\n", m1]] + [[m1, b_, m3] for b_ in bads] + [[b_] for b_ in bads]
    for sq in seqs:
        stream = b"".join(sq)
        yield Case("c13.rtspsrv " + hex_tok(stream), cls="msg-loop-srv")
        yield Case("c13.rtspcli " + hex_tok(stream), cls="msg-loop-cli")
        yield Case("c13.rtspws " + hex_tok(b"".join(ws_frame(x, mask=rb(rng, 4)) for x in sq)), cls="msg-loop-ws")
        yield Case("c13.rtspws " + hex_tok(ws_frame(stream)), cls="msg-loop-ws")
    for cut in range(0, len(b"".join(seqs[1])) + 1, 1 if not quick else 3):
        yield Case("c13.rtspsrv " + hex_tok(b"".join(seqs[1])[:cut]), cls="msg-loop-trunc")
        yield Case("c13.rtspcli " + hex_tok(b"".join(seqs[4])[:cut]), cls="msg-loop-trunc")
    for _ in range(200 if quick else 30000):
        sq = [rng.choice([m1, m2, m3, r2, r3, p1, p2] + bads[:2]) for _ in range(rng.randrange(1, 6))]
        k = rng.randrange(len(sq))
        sq[k] = text_mutate(rng, sq[k], seps + [b"$"])
        op = rng.choice(["c13.rtspsrv", "c13.rtspcli", "c13.rtspws"])
        if op == "c13.rtspws":
            yield Case("c13.rtspws " + hex_tok(b"".join(ws_frame(x, mask=rb(rng, 4) if rng.random() < 0.7 else None) for x in sq)), cls="msg-loop-mutation")
        else:
            yield Case("%s %s" % (op, hex_tok(b"".join(sq))), cls="msg-loop-mutation")


# ---------------------------------------------------------------- the RTSP command layer of the server (ServerCommandSession.runCmdLoop and its handlers)
CMD_BASE = b"rtsp://127.0.0.1:5544/live/x"
CMD_SDP = (b"v=0\r\no=- 0 0 IN IP4 127.0.0.1\r\ns=x\r\nc=IN IP4 127.0.0.1\r\nt=0 0\r\n"
           b"m=video 0 RTP/AVP 96\r\na=rtpmap:96 H264/90000\r\na=control:streamid=0\r\n"
           b"m=audio 0 RTP/AVP 97\r\na=rtpmap:97 MPEG4-GENERIC/44100/2\r\na=fmtp:97 profile-level-id=1;mode=AAC-hbr;sizelength=13;indexlength=3;indexdeltalength=3; config=1210\r\na=control:streamid=1\r\n")
CMD_SDP_AUDIO = b"v=0\r\nm=audio 0 RTP/AVP 8\r\na=rtpmap:8 PCMA/8000/1\r\na=control:trackID=7\r\n"
CMD_SDP_BAD = b"v=0\r\nm=video 0 RTP/AVP 96\r\na=rtpmap:96\r\na=control:streamid=0\r\n"
T_TCP_A, T_TCP_V = b"RTP/AVP/TCP;unicast;interleaved=0-1", b"RTP/AVP/TCP;unicast;interleaved=2-3"
T_UDP = b"RTP/AVP/UDP;unicast;client_port=40000-40001"
TRANSPORTS = [T_TCP_A, T_TCP_V, T_UDP, b"RTP/AVP/UDP;unicast;client_port=0-65535;mode=record", b"", b"interleaved", b"interleaved=", b"interleaved=a-b", b"interleaved=1", b"interleaved=1-2-3",
              b"interleaved=70000-65537", b"interleaved=-1--2", b"interleaved=-1-2", b"interleaved=+1-+2", b"interleaved=0x1-2", b"interleaved=9223372036854775807-9223372036854775808",
              b"interleaved=18446744073709551615-1", b"interleaved=65535-65536", b"interleavedx=4-5", b"interleaved=0-1;interleaved=2-3", b"interleaved=0-1=2", b"interleaved=0-1=2;interleaved=6-7",
              b"xinterleaved=0-1", b"RTP/AVP/TCP; interleaved=0-1", b"RTP/AVP;unicast;client_port=5-6;interleaved=8-9", b"client_port=", b"client_port=1", b"client_port=99999-1", b"client_port=a-b",
              b"client_port=5-6;client_port=7-8", b"client_port=5-6;client_portal=x", b"RTP/AVP;client_port=-", b"unicast", b"interleaved=0-1;", b";;interleaved=3-4;;", b"Interleaved=0-1",
              b"client_port=40002-40003;server_port=1-2", b"interleaved= 0-1", b"interleaved=0 -1", b"interleaved=00-01"]
# request URIs: inside the class the model's ParseRtspUrl recogniser is exact on, or known to be refused by net/url / ParseRtspUrl
CMD_URIS_OK = [CMD_BASE, b"rtsp://h/x", b"rtsp://h", b"rtsp://h/", b"rtsps://h:322/a/b/c?token=1&x=y", b"RTSP://h/x", b"rtsp://h:0/x", b"rtsp://a.b-c.d:00554/live/x.y_z~", b"rtsp://h/x?", b"rtsp://h?x=1"]
CMD_URIS_BAD = [b"*", b"", b"/live/x", b"http://h/x", b"rtmp://h/live/x", b"rtsp://", b"rtsp:///x", b"rtsp://:554/x", b"rtsp://h:/x", b"rtsp://h:99999999999999999999/x", b"rtsp:/h/x", b"rtsp:h", b"%zz", b"rtsp://h/%zz",
                b"rtspx://h/x", b"1rtsp://h/x"]


def rq(method, uri, cseq, headers=(), body=b""):
    out = method + b" " + uri + b" RTSP/1.0\r\n"
    if cseq is not None:
        out += b"CSeq: " + (b"%d" % cseq if isinstance(cseq, int) else cseq) + b"\r\n"
    for k, v in headers:
        out += k + b": " + v + b"\r\n"
    if body:
        out += b"Content-Length: %d\r\n" % len(body)
    return out + b"\r\n" + body


def cmd_req(sym, n, base=CMD_BASE, sdp=CMD_SDP):
    """one request of the command alphabet; n = CSeq"""
    if sym == "O":
        return rq(b"OPTIONS", base, n)
    if sym == "A":
        return rq(b"ANNOUNCE", base, n, [(b"Content-Type", b"application/sdp")], sdp)
    if sym == "D":
        return rq(b"DESCRIBE", base, n, [(b"Accept", b"application/sdp")])
    if sym == "Sa":
        return rq(b"SETUP", base + b"/streamid=1", n, [(b"Transport", T_TCP_A)])
    if sym == "Sv":
        return rq(b"SETUP", base + b"/streamid=0", n, [(b"Transport", T_TCP_V)])
    if sym == "Su":
        return rq(b"SETUP", base + b"/streamid=0", n, [(b"Transport", T_UDP)])
    if sym == "R":
        return rq(b"RECORD", base, n, [(b"Range", b"npt=0.000-")])
    if sym == "P":
        return rq(b"PLAY", base, n, [(b"Range", b"npt=0.000-")])
    if sym == "T":
        return rq(b"TEARDOWN", base, n)
    if sym == "G":
        return rq(b"GET_PARAMETER", base, n)
    if sym == "I":
        return interleaved(0, rtp(96, n, 0, 7, b"\x41\x01"))
    raise ValueError(sym)


def cmd_line(stream, ws=0, pubok=1, desc="nosdp", playok=1, mask=None):
    if ws:
        stream = b"".join(ws_frame(x, mask=mask) for x in stream) if isinstance(stream, list) else ws_frame(stream, mask=mask)
    elif isinstance(stream, list):
        stream = b"".join(stream)
    return "c13.rtspcmd %d %d %s %d %s" % (ws, pubok, desc, playok, hex_tok(stream))


def gen_cmd(tier, rng):
    quick = tier == "quick"
    full, audio, bad = hex_tok(CMD_SDP), hex_tok(CMD_SDP_AUDIO), hex_tok(CMD_SDP_BAD)
    descs = ["nosdp", full, "deny", audio, bad, "-"]
    # --- every order of the commands, up to 4 of them, against an observer with and without SDP
    alpha = ["O", "A", "D", "Sa", "Sv", "R", "P", "T", "G"]
    import itertools
    k = 0
    for n in (1, 2, 3, 4):
        for seq in itertools.product(alpha, repeat=n):
            k += 1
            stream = [cmd_req(sym, i + 1) for i, sym in enumerate(seq)]
            if n < 4 or not quick:
                for d in ("nosdp", full):
                    yield Case(cmd_line(stream, desc=d), cls="cmd-orders")
            else:
                yield Case(cmd_line(stream, desc=("nosdp", full)[k % 2]), cls="cmd-orders")
    # the same with the observer refusing, other SDPs, WebSocket framing, UDP SETUP, interleaved packets in between
    for n in (1, 2, 3):
        for seq in itertools.product(["A", "D", "Su", "Sa", "P", "I", "T"], repeat=n):
            stream = [cmd_req(sym, i + 1) for i, sym in enumerate(seq)]
            yield Case(cmd_line(stream, desc=rng.choice(descs), pubok=rng.choice([1, 1, 0]), playok=rng.choice([1, 1, 0])), cls="cmd-orders-obs")
            if "I" not in seq:
                yield Case(cmd_line(stream, ws=1, desc=rng.choice(descs), mask=rb(rng, 4)), cls="cmd-orders-ws")
    # --- every Transport form x pub / sub / sub without sdp / no session
    for t in TRANSPORTS:
        st = rq(b"SETUP", CMD_BASE + b"/streamid=0", 2, [(b"Transport", t)])
        yield Case(cmd_line([cmd_req("A", 1), st, cmd_req("R", 3)]), cls="cmd-transport")
        yield Case(cmd_line([cmd_req("D", 1), st, cmd_req("P", 3)], desc=full), cls="cmd-transport")
        yield Case(cmd_line([cmd_req("D", 1), st, cmd_req("P", 3)], desc="nosdp"), cls="cmd-transport")
        yield Case(cmd_line([st, cmd_req("O", 3)]), cls="cmd-transport")
        yield Case(cmd_line([cmd_req("D", 1), rq(b"SETUP", CMD_BASE + b"/streamid=1", 2, [(b"transport", t), (b"Transport", T_TCP_A)])], ws=1, desc=full), cls="cmd-transport")
    yield Case(cmd_line([cmd_req("A", 1), rq(b"SETUP", CMD_BASE + b"/streamid=0", 2)]), cls="cmd-transport")
    # --- SETUP uri against the a=control values (suffix match, audio first), SDP variants
    sdps = [CMD_SDP, CMD_SDP_AUDIO, CMD_SDP_BAD, b"", b"v=0\r\n", CMD_SDP.replace(b"streamid=1", b"streamid=0"), CMD_SDP.replace(b"a=control:streamid=0\r\n", b""),
            CMD_SDP.replace(b"a=control:streamid=0", b"a=control:"), CMD_SDP.replace(b"a=control:streamid=0", b"a=control"), CMD_SDP.replace(b"a=control:streamid=0", b"a=controlx:y"),
            CMD_SDP.replace(b"streamid=0", b"rtsp://h/x/track1"), b"a=control:*\r\n" + CMD_SDP, CMD_SDP + b"m=audio 0 RTP/AVP 0\r\na=control:last\r\n", CMD_SDP.replace(b"\r\n", b"\n"),
            CMD_SDP.replace(b"m=video", b"m=Video"), CMD_SDP.replace(b"m=audio 0 RTP/AVP 97", b"m=audio"), CMD_SDP.replace(b"config=1210", b"config=1210\r\n;x=y"), CMD_SDP.replace(b"H264/90000", b"H264"),
            CMD_SDP.replace(b"a=fmtp:97 ", b"a=fmtp:97"), CMD_SDP.replace(b"m=audio", b"\r\nm=audio"), CMD_SDP[:-2], CMD_SDP + b"\r\n", b"m=\r\na=control:\r\n", b"m=audio\r\na=control:x\r\nm=video\r\na=control:x\r\n"]
    uris = [CMD_BASE + b"/streamid=0", CMD_BASE + b"/streamid=1", CMD_BASE, b"streamid=0", b"xstreamid=1", b"rtsp://h/x/track1", CMD_BASE + b"/trackID=7", b"", b"*", b"last", b"x", CMD_BASE + b"/streamid=0/"]
    for sd in sdps:
        for u in uris:
            st = rq(b"SETUP", u, 2, [(b"Transport", T_TCP_A)])
            yield Case(cmd_line([rq(b"ANNOUNCE", CMD_BASE, 1, [], sd), st, cmd_req("R", 3)]), cls="cmd-sdp-uri")
            yield Case(cmd_line([cmd_req("D", 1), st, cmd_req("P", 3)], desc=hex_tok(sd)), cls="cmd-sdp-uri")
        for cut in range(0, len(sd), 7):
            yield Case(cmd_line([rq(b"ANNOUNCE", CMD_BASE, 1, [], sd[:cut]), cmd_req("Sv", 2)]), cls="cmd-sdp-trunc")
    # --- request URIs of ANNOUNCE / DESCRIBE
    for u in CMD_URIS_OK + CMD_URIS_BAD:
        yield Case(cmd_line([rq(b"ANNOUNCE", u, 1, [], CMD_SDP), rq(b"SETUP", u + b"/streamid=0", 2, [(b"Transport", T_TCP_V)]), cmd_req("R", 3)]), cls="cmd-uri")
        yield Case(cmd_line([rq(b"DESCRIBE", u, 1), rq(b"SETUP", u + b"/streamid=1", 2, [(b"Transport", T_TCP_A)]), rq(b"PLAY", u, 3)], desc=full), cls="cmd-uri")
    # --- CSeq and method spellings, bodies
    for cs in (None, b"", b"0", b"-1", b"abc", b"1 2", b" 7 ", b"1\r", b"99999999999999999999", b"%s%d", b"1\r\nCSeq: 2", b"1\r\n2", b"\xff\xfe", b"a: b"):
        yield Case(cmd_line([rq(b"OPTIONS", CMD_BASE, cs), rq(b"DESCRIBE", CMD_BASE, cs), rq(b"SETUP", CMD_BASE + b"/streamid=0", cs, [(b"Transport", T_TCP_V)]), rq(b"PLAY", CMD_BASE, cs),
                             rq(b"TEARDOWN", CMD_BASE, cs)], desc=full), cls="cmd-cseq")
        yield Case(cmd_line([rq(b"ANNOUNCE", CMD_BASE, cs, [(b"cseq", b"9")], CMD_SDP), rq(b"RECORD", CMD_BASE, cs)]), cls="cmd-cseq")
    for m in (b"options", b"Options", b"OPTIONS ", b"PAUSE", b"SET_PARAMETER", b"REDIRECT", b"GET", b"", b"$", b"ANNOUNCE2", b"DESCRIBEX", b"SETUP\t", b"PLAY:"):
        yield Case(cmd_line([rq(m, CMD_BASE, 1), cmd_req("O", 2)]), cls="cmd-method")
    yield Case(cmd_line([b"OPTIONS\r\n\r\n", cmd_req("O", 2)]), cls="cmd-method")
    yield Case(cmd_line([b"OPTIONS " + CMD_BASE + b"\r\n\r\n", b"DESCRIBE " + CMD_BASE + b"\r\nCSeq: 2\r\n\r\n", b"TEARDOWN x\r\n\r\n"], desc=full), cls="cmd-method")
    for v in (b"-1", b"99999999999", b"5", b"%d" % (len(CMD_SDP) - 1), b"%d" % (len(CMD_SDP) + 1), b"abc"):
        yield Case(cmd_line([b"ANNOUNCE " + CMD_BASE + b" RTSP/1.0\r\nCSeq: 1\r\nContent-Length: " + v + b"\r\n\r\n" + CMD_SDP, cmd_req("O", 2)]), cls="cmd-body")
    # --- interleaved packets with and without a session; truncation of a whole exchange at every offset
    for pre in ([], ["O"], ["A"], ["D"], ["A", "Sa"], ["D", "Sv", "P"]):
        for d in ("nosdp", full):
            yield Case(cmd_line([cmd_req(x, i + 1) for i, x in enumerate(pre)] + [cmd_req("I", 9), cmd_req("O", 10), interleaved(1, rtcp_sr(7, 1, 2, 3, 4, 5)), cmd_req("T", 11)], desc=d), cls="cmd-interleaved")
    pub = b"".join(cmd_req(x, i + 1) for i, x in enumerate(["O", "A", "Sv", "Sa", "R", "I", "T"]))
    sub = b"".join(cmd_req(x, i + 1) for i, x in enumerate(["O", "D", "Sv", "Sa", "P", "G", "T"]))
    for whole, d in ((pub, "nosdp"), (sub, full)):
        for cut in range(0, len(whole) + 1, 5 if quick else 1):
            yield Case(cmd_line(whole[:cut], desc=d), cls="cmd-trunc")
    # --- random longer sequences: any command, any transport form, any uri of the class, any observer
    syms = ["O", "A", "D", "Sa", "Sv", "Su", "R", "P", "T", "G", "I"]
    for _ in range(400 if quick else 60000):
        stream = []
        base = rng.choice(CMD_URIS_OK) if rng.random() < 0.3 else CMD_BASE
        sdp = rng.choice(sdps) if rng.random() < 0.3 else CMD_SDP
        for i in range(rng.randrange(3, 13)):
            sym = rng.choice(syms if rng.random() < 0.8 else ["O", "G", "I"])
            if sym in ("Sa", "Sv", "Su") and rng.random() < 0.4:
                stream.append(rq(b"SETUP", rng.choice(uris) if rng.random() < 0.5 else base + rng.choice([b"/streamid=0", b"/streamid=1", b"/trackID=7"]), i + 1, [(b"Transport", rng.choice(TRANSPORTS))]))
            elif sym in ("A", "D") and rng.random() < 0.15:
                stream.append(rq(b"ANNOUNCE" if sym == "A" else b"DESCRIBE", rng.choice(CMD_URIS_BAD), i + 1, [], sdp if sym == "A" else b""))
            else:
                stream.append(cmd_req(sym, i + 1, base=base, sdp=sdp))
        ws = int(rng.random() < 0.2 and not any(x[:1] == b"$" for x in stream))
        d = rng.choice(descs + [hex_tok(rng.choice(sdps))])
        yield Case(cmd_line(stream, ws=ws, desc=d, pubok=rng.choice([1, 1, 1, 0]), playok=rng.choice([1, 1, 1, 0]), mask=rb(rng, 4) if ws else None), cls="cmd-random")


# ---------------------------------------------------------------- the RTSP command layer of the client (ClientCommandSession under PullSession / PushSession)
NUM_EXTREMES = [b"0", b"1", b"60", b"2147483647", b"2147483648", b"4294967296", b"9223372037", b"18446744073", b"9223372036854775807", b"9223372036854775808",
                b"18446744073709551615", b"99999999999999999999", b"-1", b"-9223372036854775808", b"+5", b" 5", b"5 ", b"", b"abc", b"0x10", b"1e3", b"00000000000000000000060"]
CLT_SDP = CMD_SDP
CLT_PUBLIC = b"OPTIONS, DESCRIBE, SETUP, TEARDOWN, PLAY"


def rsp(code=b"200", hdrs=(), body=b"", cseq=b"1", reason=b"OK", version=b"RTSP/1.0", clen=True):
    out = version + b" " + code + (b" " + reason if reason is not None else b"") + b"\r\n"
    if cseq is not None:
        out += b"CSeq: " + cseq + b"\r\n"
    for k, v in hdrs:
        out += k + b": " + v + b"\r\n"
    if body and clen:
        out += b"Content-Length: %d\r\n" % len(body)
    return out + b"\r\n" + body


def clt_line(stream, push=0, tcp=1, user=b"", pwd=b"", psdp=None):
    if isinstance(stream, list):
        stream = b"".join(stream)
    return "c13.rtspclt %d %d %s %s %s %s" % (push, tcp, hex_tok(user), hex_tok(pwd), hex_tok(CLT_SDP if (push and psdp is None) else (psdp or b"")), hex_tok(stream))


def clt_flow(push=0, tcp=1, getparam=False, sdp=CLT_SDP, options=None, describe=None, setups=None, play=None, tail=b""):
    """a well-formed exchange; each step can be replaced (a bytes value, or a list for the 401-retry shapes)"""
    o = options if options is not None else rsp(hdrs=[(b"Public", CLT_PUBLIC + (b", GET_PARAMETER" if getparam else b""))])
    d = describe if describe is not None else (rsp() if push else rsp(hdrs=[(b"Content-Base", b"rtsp://127.0.0.1/live/x/"), (b"Content-Type", b"application/sdp")], body=sdp))
    if setups is None:
        tr = (lambda i: b"RTP/AVP/TCP;unicast;interleaved=%d-%d" % (2 * i, 2 * i + 1)) if tcp else (lambda i: b"RTP/AVP/UDP;unicast;client_port=1-2;server_port=%d-%d" % (6000 + 2 * i, 6001 + 2 * i))
        setups = [rsp(hdrs=[(b"Transport", tr(i)), (b"Session", b"12345678;timeout=60")]) for i in range(2)]
    pl = play if play is not None else rsp(hdrs=[(b"Session", b"12345678"), (b"RTP-Info", b"url=x;seq=1;rtptime=0")])
    out = []
    for x in [o, d] + list(setups) + [pl]:
        out += x if isinstance(x, list) else [x]
    return b"".join(out) + tail


def gen_clt(tier, rng):
    quick = tier == "quick"
    modes = [(0, 1), (0, 0), (1, 1), (1, 0)]      # (push, tcp)
    ilv = interleaved(0, rtp(96, 1, 0, 7, b"\x65\x01")) + interleaved(1, rtcp_sr(7, 1, 2, 3, 4, 5)) + interleaved(9, b"junk") + interleaved(2, rtp(97, 1, 0, 8, au_payload([b"\x01"])))
    # --- well-formed exchanges in every mode, with and without GET_PARAMETER, with what may follow the handshake
    tails = [b"", ilv, rsp(), ilv + rsp() + ilv, b"OPTIONS rtsp://x RTSP/1.0\r\nCSeq: 1\r\n\r\n", b"\r\n", b"x", b"$", b"$\x00", b"$\x00\xff\xff" + b"a" * 10, rsp(hdrs=[(b"Content-Length", b"-1")]),
             rsp(hdrs=[(b"Content-Length", b"99999999999")]) + b"ab", ilv + b"RTSP/1.0 200 OK\r\n", b"ANNOUNCE rtsp://x RTSP/1.0\r\nContent-Length: 3\r\n\r\nabc" + ilv]
    for push, tcp in modes:
        for gp in (False, True):
            for t in tails:
                if not tcp and gp and not quick or tcp or not gp or t in (b"", ilv):
                    yield Case(clt_line(clt_flow(push, tcp, gp, tail=t), push, tcp), cls="clt-flow")
    # --- truncation of a whole exchange at every offset
    for push, tcp in ((0, 1), (1, 1), (0, 0)):
        whole = clt_flow(push, tcp, True, tail=ilv + rsp())
        for cut in range(0, len(whole) + 1, 7 if quick else 1):
            yield Case(clt_line(whole[:cut], push, tcp), cls="clt-trunc")
    # --- status codes, at every step
    codes = [b"200", b"201", b"100", b"302", b"400", b"401", b"403", b"407", b"402", b"404", b"454", b"461", b"500", b"551", b"", b"abc", b"4 01", b"0401", b"401x", b"99999999999999999999", b"-1"]
    for code in codes:
        bad = rsp(code=code, hdrs=[(b"Location", b"rtsp://elsewhere/x"), (b"WWW-Authenticate", b'Basic realm="r"')])
        good_setup = rsp(hdrs=[(b"Transport", b"RTP/AVP/TCP;unicast;interleaved=0-1;server_port=1-2"), (b"Session", b"s")])
        yield Case(clt_line(clt_flow(options=bad), user=b"u", pwd=b"p"), cls="clt-status")
        yield Case(clt_line(clt_flow(describe=rsp(code=code, body=CLT_SDP)), user=b"u", pwd=b"p"), cls="clt-status")
        yield Case(clt_line(clt_flow(setups=[rsp(code=code, hdrs=[(b"Session", b"s")]), good_setup, good_setup]), user=b"u"), cls="clt-status")
        yield Case(clt_line(clt_flow(tcp=0, setups=[good_setup, rsp(code=code, hdrs=[(b"Session", b"s")]), good_setup]), tcp=0), cls="clt-status")
        yield Case(clt_line(clt_flow(play=bad), user=b"u", pwd=b"p"), cls="clt-status")
        yield Case(clt_line(clt_flow(push=1, describe=bad), push=1, user=b"u", pwd=b"p"), cls="clt-status")
    for v in (b"RTSP/1.0", b"RTSP/2.0", b"HTTP/1.1", b"", b"RTSP"):
        yield Case(clt_line(clt_flow(options=rsp(version=v))), cls="clt-status")
    yield Case(clt_line(clt_flow(options=b"RTSP/1.0 200\r\n\r\n", describe=b"RTSP/1.0  200 OK\r\nContent-Length: %d\r\n\r\n" % len(CLT_SDP) + CLT_SDP)), cls="clt-status")
    # the 461 fallback: tcp -> udp, udp -> tcp, refused twice, on the second track
    r461 = rsp(code=b"461", reason=b"Unsupported Transport")
    su = rsp(hdrs=[(b"Transport", b"RTP/AVP/UDP;unicast;client_port=1-2;server_port=7000-7001"), (b"Session", b"s1")])
    st = rsp(hdrs=[(b"Transport", b"RTP/AVP/TCP;unicast;interleaved=0-1"), (b"Session", b"s2")])
    for push, tcp in modes:
        for ss in ([r461, su, su], [r461, st, st], [r461, r461], [su, r461, su], [st, r461, st, r461, st], [r461, su, r461, st], [r461, rsp(code=b"401"), rsp(code=b"401")]):
            yield Case(clt_line(clt_flow(push, tcp, setups=ss, tail=ilv), push, tcp), cls="clt-461")
    # --- Public
    for v in (None, b"", b"GET_PARAMETER", b"get_parameter", b"OPTIONS,GET_PARAMETER,PLAY", b"XGET_PARAMETERX", b"GET_PARAMETE", b"GET PARAMETER", b"OPTIONS"):
        hs = [] if v is None else [(b"Public", v)]
        for tcp in (1, 0):
            yield Case(clt_line(clt_flow(tcp=tcp, options=rsp(hdrs=hs), tail=ilv + rsp() + b"junk"), tcp=tcp), cls="clt-public")
    yield Case(clt_line(clt_flow(options=rsp(hdrs=[(b"Public", b"OPTIONS"), (b"public", b"GET_PARAMETER")]), tail=rsp())), cls="clt-public")
    yield Case(clt_line(clt_flow(options=rsp(hdrs=[(b"PUBLIC", b"x"), (b"Public", b"GET_PARAMETER")]), tail=rsp())), cls="clt-public")
    # --- Session: id and timeout, every numeric extreme; with and without GET_PARAMETER (the keep-alive ticker)
    sess = [None, b"", b"id", b";", b";timeout=60", b"id;", b"id;timeout", b"id;timeout=", b"id; timeout=60", b"id;TIMEOUT=60", b"id;x=1;timeout=60;y", b"a;b;c", b"id;timeout=60;timeout=0", b"i d", b"x" * 5000,
            b"id\ttimeout=5"] + [b"id;timeout=" + n for n in NUM_EXTREMES]
    for v in sess:
        hs = [(b"Transport", b"RTP/AVP/TCP;unicast;interleaved=0-1")] + ([] if v is None else [(b"Session", v)])
        for gp in (True, False):
            yield Case(clt_line(clt_flow(getparam=gp, setups=[rsp(hdrs=hs), rsp(hdrs=hs)], tail=ilv)), cls="clt-session")
        yield Case(clt_line(clt_flow(push=1, getparam=True, setups=[rsp(hdrs=hs), rsp(hdrs=[(b"Session", b"other")])], tail=rsp()), push=1), cls="clt-session")
    yield Case(clt_line(clt_flow(getparam=True, setups=[rsp(hdrs=[(b"Session", b"a;timeout=9223372037"), (b"session", b"b;timeout=1")])] * 2)), cls="clt-session")
    # --- Transport of the SETUP answer: server_port with every numeric extreme, interleaved, malformed
    trs = [None, b"", b"server_port", b"server_port=", b"server_port=5", b"server_port=5-6-7", b"server_port=a-b", b"server_port=-", b"server_port=5-6;server_port=7-8", b"server_port=5-6=7",
           b"RTP/AVP;unicast;client_port=1-2;server_port=0-0;ssrc=1", b"interleaved=0-1", b"interleaved=9-9", b"interleaved=255-256", b"xserver_port=1-2", b" server_port=1-2", b"source=1.2.3.4;server_port=70000-65536"]
    trs += [b"server_port=" + n + b"-" + n for n in NUM_EXTREMES] + [b"server_port=1-" + n for n in NUM_EXTREMES[:12]]
    for v in trs:
        hs = [(b"Session", b"s")] + ([] if v is None else [(b"Transport", v)])
        for push, tcp in ((0, 0), (1, 0)):
            yield Case(clt_line(clt_flow(push, tcp, setups=[rsp(hdrs=hs), rsp(hdrs=hs)]), push, tcp), cls="clt-transport")
    for v in trs[1:17]:
        hs = [(b"Session", b"s"), (b"Transport", v)]
        yield Case(clt_line(clt_flow(setups=[rsp(hdrs=hs), rsp(hdrs=hs)])), cls="clt-transport")
    # --- CSeq of the answers (not looked at), numeric extremes
    for n in NUM_EXTREMES + [None]:
        yield Case(clt_line(b"".join(rsp(cseq=n, hdrs=h, body=b) for h, b in (([], b""), ([], CLT_SDP), ([(b"Session", b"s")], b""), ([(b"Session", b"s")], b""), ([], b"")))), cls="clt-cseq")
    # --- 401 challenges of every shape, at every step, with and without credentials
    challenges = [b'Basic realm="lal"', b"Basic", b"Basic realm=lal", b"basic realm=\"x\"", b'BasicX', b'Digest realm="lal", nonce="abc"', b'Digest realm="lal",nonce="abc",algorithm="MD5"',
                  b'Digest realm="lal", nonce="abc", algorithm="md5"', b'Digest realm="lal", nonce="abc", algorithm="SHA-256"', b'Digest realm="lal", nonce="abc", algorithm=MD5', b'Digest nonce="abc"',
                  b'Digest realm="lal"', b"Digest", b"Digest ", b'Digest realm="lal', b'Digest realm="", nonce=""', b'Digest realm=lal, nonce=abc', b'Digest realm="a\\"b", nonce="c,d"',
                  b'Digest realm="r1", realm="r2", nonce="n1", nonce="n2"', b'Digest xrealm="x", realm="y", nonce="n"', b'Digest realm="lal", nonce="' + b"n" * 3000 + b'"', b'DigestX realm="a"',
                  b'digest realm="a", nonce="b"', b'  Digest realm="sp", nonce="sp"  ', b'\tDigest realm="tab", nonce="n"', b'WWW-Authenticate Digest realm="in", nonce="n"',
                  b'WWW-AuthenticateDigest realm="glued", nonce="n"', b'WWW-Authenticate: Basic realm="x"', b"", b"Negotiate", b'Digest realm="lal", nonce="abc", qop="auth", opaque="o", stale="true"',
                  b'Digest realm="\xe4\xb8\xad", nonce="\xff"', b'Digest realm="a"b", nonce="c"']
    for ch in challenges:
        c401 = rsp(code=b"401", reason=b"Unauthorized", hdrs=[(b"WWW-Authenticate", ch)])
        for user, pwd in ((b"u", b"p"), (b"", b""), (b"admin", b"")):
            yield Case(clt_line([c401, clt_flow()], user=user, pwd=pwd), cls="clt-401")
        yield Case(clt_line(clt_flow(describe=[c401, rsp(body=CLT_SDP)]), user=b"u", pwd=b"p"), cls="clt-401")
        yield Case(clt_line(clt_flow(push=1, tcp=1, setups=[[c401, st], st], play=[c401, rsp()]), push=1, user=b"u", pwd=b"p"), cls="clt-401")
    b401, d401 = rsp(code=b"401", hdrs=[(b"WWW-Authenticate", b'Basic realm="r"')]), rsp(code=b"401", hdrs=[(b"WWW-Authenticate", b'Digest realm="r", nonce="n"')])
    for a in ([b401, b401], [d401, d401], [b401, d401], [rsp(code=b"401"), rsp(code=b"401")], [rsp(code=b"401"), rsp()], [rsp(code=b"401", hdrs=[(b"WWW-Authenticate", b"Basic"), (b"WWW-Authenticate", b'Digest realm="r", nonce="n"')]), rsp()],
              [rsp(code=b"401", hdrs=[(b"www-authenticate", b'Digest realm="r", nonce="n"'), (b"WWW-Authenticate", b"Basic")]), rsp()]):
        yield Case(clt_line(clt_flow(options=a), user=b"u", pwd=b"p"), cls="clt-401")
        yield Case(clt_line(clt_flow(options=[d401, rsp()], describe=a + [rsp(body=CLT_SDP)]), user=b"u", pwd=b"p"), cls="clt-401")
    # --- DESCRIBE body: Content-Length forms, SDP variants, Content-Base
    for v in CL_VALUES[:24]:
        yield Case(clt_line(clt_flow(describe=b"RTSP/1.0 200 OK\r\nCSeq: 2\r\nContent-Length: " + v + b"\r\n\r\n" + CLT_SDP)), cls="clt-describe")
    sdps = [CLT_SDP, CMD_SDP_AUDIO, CMD_SDP_BAD, b"v=0\r\n", CLT_SDP.replace(b"streamid=0", b"rtsp://10.0.0.1/x/track1"), CLT_SDP.replace(b"a=control:streamid=0\r\n", b""), CLT_SDP.replace(b"a=control:streamid=1", b"a=control:"),
            CLT_SDP.replace(b"a=control:streamid=1", b"a=control"), CLT_SDP.replace(b"streamid=1", b"a b\tc"), CLT_SDP.replace(b"streamid=1", b"streamid=0"), b"a=control:*\r\n" + CLT_SDP, CLT_SDP.replace(b"\r\n", b"\n"),
            CLT_SDP + b"m=video 0 RTP/AVP 98\r\na=control:third\r\n", CLT_SDP.replace(b"H264/90000", b"H264"), CLT_SDP.replace(b"streamid=1", b"rtsp://"), CLT_SDP.replace(b"streamid=0", b"x" * 3000)]
    for sd in sdps:
        for push, tcp in modes:
            if push:
                yield Case(clt_line(clt_flow(1, tcp, tail=ilv), 1, tcp, psdp=sd), cls="clt-sdp")
            else:
                yield Case(clt_line(clt_flow(0, tcp, sdp=sd, tail=ilv), 0, tcp), cls="clt-sdp")
    for cb in (b"", b"rtsp://other/", b"x" * 2000, b"\xff"):
        yield Case(clt_line(clt_flow(describe=rsp(hdrs=[(b"Content-Base", cb), (b"content-base", b"rtsp://second/")], body=CLT_SDP))), cls="clt-describe")
    # --- things between the answers: empty lines, interleaved frames, requests of the server, answers glued / doubled
    junk = [b"\r\n", b"\n", ilv, interleaved(0, b""), b"$", b"OPTIONS rtsp://x RTSP/1.0\r\nCSeq: 9\r\n\r\n", rsp(code=b"100", reason=b"Continue"), b"\x00", b"RTSP/1.0 200 OK\r\n", interleaved(0, b"\r\n\r\n"), interleaved(36, b"A B C\r\n\r\n")]
    steps = [rsp(hdrs=[(b"Public", b"GET_PARAMETER")]), rsp(body=CLT_SDP), st, st, rsp()]
    for j in junk:
        for pos in range(len(steps) + 1):
            yield Case(clt_line(b"".join(steps[:pos]) + j + b"".join(steps[pos:]) + ilv), cls="clt-between")
    # --- mutation stream
    seps = [b"\r\n", b"\n", b":", b" ", b";", b"=", b"-", b"$", b'"', b",", b"401", b"461", b"timeout=", b"server_port=", b"GET_PARAMETER", b"9223372036854775807", b"99999999999999999999"]
    for _ in range(500 if quick else 60000):
        push, tcp = rng.choice(modes) if rng.random() < 0.5 else (0, 1)
        gp = rng.random() < 0.5
        if not tcp and gp and quick:
            gp = False
        parts = [rsp(hdrs=[(b"Public", CLT_PUBLIC + (b", GET_PARAMETER" if gp else b""))]), rsp() if push else rsp(body=CLT_SDP), st if tcp else su, st if tcp else su, rsp(hdrs=[(b"Session", b"s")]), ilv, rsp()]
        if rng.random() < 0.3:
            parts.insert(rng.randrange(4), rng.choice([b401, d401, r461]))
        k = rng.randrange(len(parts))
        parts[k] = text_mutate(rng, parts[k], seps)
        yield Case(clt_line(parts, push, tcp, user=rng.choice([b"", b"u"]), pwd=rng.choice([b"", b"p"])), cls="clt-mutation")


def text_mutate(rng, b, seps):
    b = bytearray(b)
    k = rng.randrange(6)
    if k == 0:
        return bytes(b[:rng.randrange(len(b) + 1)])
    if k == 1 and b:
        i = rng.randrange(len(b))
        b[i:i + 1] = rng.choice(seps)
    elif k == 2 and b:
        del b[rng.randrange(len(b))]
    elif k == 3:
        i = rng.randrange(len(b) + 1)
        b[i:i] = rng.choice(seps + [b"0", b"-1", b"99999999999999999999", b" ", b"\t", b"+"])
    elif k == 4 and b:
        i = rng.randrange(len(b))
        j = rng.randrange(i, len(b) + 1)
        b[i:j] = b""
    else:
        i = rng.randrange(len(b) + 1)
        b[i:i] = b[:rng.randrange(len(b) + 1)]
    return bytes(b)


SDP_TEXT = (b"v=0\r\no=- 0 0 IN IP4 127.0.0.1\r\ns=No Name\r\nc=IN IP4 127.0.0.1\r\nt=0 0\r\na=tool:libavformat\r\n"
            b"m=video 0 RTP/AVP 96\r\na=rtpmap:96 H264/90000\r\na=fmtp:96 packetization-mode=1; sprop-parameter-sets=Z2QAIKzZQMApsBEAAAMAAQAAAwAyDxgxlg==,aOvssiw=; profile-level-id=640020\r\na=control:streamid=0\r\n"
            b"m=audio 0 RTP/AVP 97\r\nb=AS:128\r\na=rtpmap:97 MPEG4-GENERIC/44100/2\r\na=fmtp:97 profile-level-id=1;mode=AAC-hbr;sizelength=13;indexlength=3;indexdeltalength=3; config=121056E500\r\na=control:streamid=1\r\n")
SDP_H265 = (b"v=0\r\nm=video 0 RTP/AVP 98\r\na=rtpmap:98 H265/90000\r\na=fmtp:98 sprop-vps=QAEMAf//AWAAAAMAkAAAAwAAAwA/ugJA; sprop-sps=QgEBAWAAAAMAkAAAAwAAAwA/oAUCAXHy5bpKTC8BAQAAAwABAAADAA8I; sprop-pps=RAHAc8GJ\r\na=control:trackID=0\r\n"
            b"m=audio 0 RTP/AVP 8\r\na=control:trackID=1\r\n")


def gen_text(tier, rng):
    seps = [b":", b" ", b"/", b";", b"=", b","]
    rtpmaps = [b"a=rtpmap:96 H264/90000", b"a=rtpmap:97 MPEG4-GENERIC/44100/2", b"a=rtpmap:8 PCMA/8000/1", b"a=rtpmap:-1 x/0", b"a=rtpmap:96 H264", b"a=rtpmap:96", b"a=rtpmap", b"a=rtpmap:",
               b"a=rtpmap: /", b"a=rtpmap:96 /", b"a=rtpmap:96 //", b"a=rtpmap:+5 a/+7/c/d", b"a=rtpmap:9223372036854775807 a/-9223372036854775808", b"a=rtpmap:9223372036854775808 a/1",
               b"a=rtpmap:1 a/-9223372036854775809", b"a=rtpmap:1 a/ 1", b"a=rtpmap:0x10 a/1", b"a=rtpmap:1_0 a/1", b"a=rtpmap:- a/1", b"a=rtpmap:1 a/+", b"a=rtpmap:00000000000000000000001 a/000"]
    for l in rtpmaps:
        yield Case("c13.rtpmap " + hex_tok(l), cls="sdp-rtpmap")
        for t in truncations(l):
            yield Case("c13.rtpmap " + hex_tok(t), cls="sdp-rtpmap")
    fmtps = [b"a=fmtp:96 packetization-mode=1; sprop-parameter-sets=Z2QAIA==,aOvssiw=; profile-level-id=640020", b"a=fmtp:97 profile-level-id=1;mode=AAC-hbr;config=1210;", b"a=fmtp:96 ;a=b", b"a=fmtp:96 a=b;;c=d",
             b"a=fmtp:96 a", b"a=fmtp:96 ", b"a=fmtp:96", b"a=fmtp:", b"a=fmtp", b"a=fmtp:x a=b", b"a=fmtp:96 a=b; a=c;a =d", b"a=fmtp:96 =", b"a=fmtp:96 ;;;", b"a=fmtp:96 \ta=b\t;\r c==d\n"]
    for l in fmtps:
        yield Case("c13.fmtp " + hex_tok(l), cls="sdp-fmtp")
        for t in truncations(l):
            yield Case("c13.fmtp " + hex_tok(t), cls="sdp-fmtp")
    for l in (b"m=video 0 RTP/AVP 96", b"m=audio 0 RTP/AVP 8 0 97", b"m=", b"m", b"", b"m=audio", b"m=audio 0 RTP/AVP", b"m=audio 0 RTP/AVP x", b"m=a  b c", b"video 0 RTP/AVP -7", b"m=m=a 1 2 3"):
        yield Case("c13.sdpm " + hex_tok(l), cls="sdp-m")
    for _ in range(150 if tier == "quick" else 20000):
        yield Case("c13.rtpmap " + hex_tok(text_mutate(rng, rng.choice(rtpmaps), seps)), cls="sdp-rtpmap-mut")
        yield Case("c13.fmtp " + hex_tok(text_mutate(rng, rng.choice(fmtps), seps)), cls="sdp-fmtp-mut")
    # whole SDP through ParseSdp2LogicContext + InitWithSdp + a few RTP packets (library decoding inside: not modelled)
    lines = SDP_TEXT.split(b"\r\n")
    for sd in (SDP_TEXT, SDP_H265):
        yield Case("c13x.sdp " + hex_tok(sd), cls="x-sdp")
        for cut in range(0, len(sd), 1 if tier == "thorough" else 5):
            yield Case("c13x.sdp " + hex_tok(sd[:cut]), cls="x-sdp")
    for clk in CLOCKS:
        yield Case("c13x.sdp " + hex_tok(SDP_TEXT.replace(b"90000", str(clk).encode()).replace(b"44100", str(clk).encode())), cls="x-sdp")
    for _ in range(300 if tier == "quick" else 30000):
        sd = rng.choice([SDP_TEXT, SDP_H265])
        if rng.random() < 0.5:
            ls = sd.split(b"\r\n")
            i = rng.randrange(len(ls))
            ls[i] = text_mutate(rng, ls[i], seps)
            if rng.random() < 0.2:
                del ls[rng.randrange(len(ls))]
            sd = b"\r\n".join(ls)
        else:
            sd = text_mutate(rng, sd, seps + [b"\r\n", b"\n", b"m=", b"a=fmtp", b"a=rtpmap:"])
        yield Case("c13x.sdp " + hex_tok(sd), cls="x-sdp")
    # URLs
    alpha = b"/?a.-=1&"
    texts = [b"/live/test110", b"/live/test110?a=b", b"/test110", b"/", b"", b"//", b"/a/", b"/a?x?y", b"/a/b?x?y", b"/vyun?vhost=thirdVhost?token=88F4/lss_7", b"/a?x?y/z", b"/?x?y", b"/a??",
             b"?x?y", b"/a/b/c/d?e=f&g=h", b"/a?/?/"]
    for t in texts:
        yield Case("c13.rtmpurl " + hex_tok(t), cls="url-rtmp")
    hls = [b"/hls/test110.m3u8", b"/hls/test110/playlist.m3u8", b"/hls/test110/record.m3u8", b"/hls/test110/test110-1620540712084-0.ts", b"/hls/test110-1620540712084-0.ts", b"/playlist.m3u8",
           b"/record.m3u8", b"/.m3u8", b"/.ts", b"/a.ts", b"/a-b.ts", b"/-.ts", b"/--.ts", b"/a--.ts", b"/..-1-2.ts", b"/x/../playlist.m3u8", b"/a.m3u8?x=playlist.m3u8", b"/", b"", b"/a.b.ts", b"/a.ts.m3u8",
           b"/hls/", b"/hls", b"/a.mp4", b"//playlist.m3u8"]
    for t in hls:
        yield Case("c13.hlsreq " + hex_tok(t), cls="url-hls")
        yield Case("c13.rtmpurl " + hex_tok(t), cls="url-rtmp")
    for _ in range(400 if tier == "quick" else 40000):
        n = rng.randrange(0, 12)
        t = bytes(rng.choice(alpha) for _ in range(n))
        if t and not t.startswith(b"/") and not t.startswith(b"?"):
            t = b"/" + t
        yield Case("c13.rtmpurl " + hex_tok(t), cls="url-rtmp-random")
        t2 = t.replace(b"?", b"/") + rng.choice([b".ts", b".m3u8", b"/playlist.m3u8", b"-1-2.ts", b""])
        if not t2.startswith(b"/"):
            t2 = b"/" + t2
        yield Case("c13.hlsreq " + hex_tok(t2), cls="url-hls-random")
    full = b"abc/:?#[]@!$&'()*+,;=%20-._~ \x00\x7f\xff"
    urls = [b"rtmp://127.0.0.1/live/test110", b"rtmp://h:1935/a?x?y", b"rtsp://u:p@h:554/live/x?token=1", b"http://h/hls/a.m3u8", b"http://[::1]:80/a.flv", b"rtmp://h:99999/a/b", b"rtmp://h:-1/a/b",
            b"http://h:x/a.flv", b"rtmp:///a/b", b"rtmp:a", b"://", b"rtmp://h/%zz", b"rtmp://h/a%2fb?c%3fd?e"]
    for u in urls:
        yield Case("c13x.url " + hex_tok(u), cls="x-url")
    for _ in range(300 if tier == "quick" else 30000):
        if rng.random() < 0.5:
            u = text_mutate(rng, rng.choice(urls), [b"/", b"?", b":", b"@", b"#", b"%", b"[", b"]"])
        else:
            u = rng.choice([b"rtmp://", b"http://", b"rtsp://", b""]) + bytes(rng.choice(full) for _ in range(rng.randrange(0, 14)))
        yield Case("c13x.url " + hex_tok(u), cls="x-url")


# ---------------------------------------------------------------- RTSP command sessions, HTTP API bodies (library surface: not modelled)
def rtsp_req(method, uri, cseq, headers=(), body=b""):
    out = ("%s %s RTSP/1.0\r\nCSeq: %s\r\n" % (method, uri, cseq)).encode()
    for k, v in headers:
        out += ("%s: %s\r\n" % (k, v)).encode()
    if body:
        out += ("Content-Length: %d\r\n" % len(body)).encode()
    return out + b"\r\n" + body


def rtsp_pub_exchange(rng, udp=False, sdp=None):
    u = "rtsp://127.0.0.1:5544/live/x"
    sdp = SDP_TEXT if sdp is None else sdp
    tr = lambda a, b: ("RTP/AVP/UDP;unicast;client_port=%d-%d;mode=record" % (40000 + a, 40000 + b)) if udp else ("RTP/AVP/TCP;unicast;interleaved=%d-%d;mode=record" % (a, b))
    parts = [rtsp_req("OPTIONS", u, 1, [("User-Agent", "Lavf58")]),
             rtsp_req("ANNOUNCE", u, 2, [("Content-Type", "application/sdp")], sdp),
             rtsp_req("SETUP", u + "/streamid=0", 3, [("Transport", tr(0, 1))]),
             rtsp_req("SETUP", u + "/streamid=1", 4, [("Transport", tr(2, 3)), ("Session", "191201771")]),
             rtsp_req("RECORD", u, 5, [("Range", "npt=0.000-"), ("Session", "191201771")])]
    if not udp:
        parts += [interleaved(0, rtp(96, 1, 0, 7, h264_stapa([b"\x67\x42\x00\x1e", b"\x68\xce\x38\x80"]))),
                  interleaved(0, rtp(96, 2, 0, 7, b"\x65" + rb(rng, 20))),
                  interleaved(2, rtp(97, 1, 0, 8, au_payload([rb(rng, 9)]))),
                  interleaved(1, rtcp_sr(7, 1, 2, 3, 4, 5)),
                  interleaved(3, rtcp_sr(8, 1, 2, 3, 4, 5))]
    parts.append(rtsp_req("TEARDOWN", u, 6, [("Session", "191201771")]))
    return parts


def rtsp_sub_exchange(rng, udp=False, auth=None):
    u = "rtsp://127.0.0.1:5544/live/x"
    tr = lambda a, b: ("RTP/AVP/UDP;unicast;client_port=%d-%d" % (41000 + a, 41000 + b)) if udp else ("RTP/AVP/TCP;unicast;interleaved=%d-%d" % (a, b))
    ah = [("Authorization", auth)] if auth else []
    return [rtsp_req("OPTIONS", u, 1), rtsp_req("DESCRIBE", u, 2, [("Accept", "application/sdp")] + ah),
            rtsp_req("SETUP", u + "/streamid=0", 3, [("Transport", tr(0, 1))]), rtsp_req("SETUP", u + "/streamid=1", 4, [("Transport", tr(2, 3))]),
            rtsp_req("PLAY", u, 5, [("Range", "npt=0.000-")]), interleaved(1, bytes([0x80, 201, 0, 1]) + rb(rng, 4)), rtsp_req("TEARDOWN", u, 6)]


def ws_wrap(parts, rng):
    return [ws_frame(p, mask=rb(rng, 4)) for p in parts]


HOSTILE_HEADERS = [("CSeq", ""), ("CSeq", "-1"), ("CSeq", "99999999999999999999"), ("Content-Length", "-1"), ("Content-Length", "0"), ("Content-Length", "5"),
                   ("Content-Length", "99999999999"), ("Content-Length", "abc"), ("Content-Length", "+5"), ("Content-Length", "0x10"), ("Content-Length", "1e3"),
                   ("Content-Length", "2147483648"), ("Content-Length", "9223372036854775807"), ("Content-Length", "9223372036854775808"), ("Content-Length", "-9223372036854775808"),
                   ("Content-Length", " 7 "), ("content-length", "-1"), ("CONTENT-LENGTH", "-5"), ("Content-Length", "5\r\nContent-Length: -1"), ("Content-Length", "\r\nContent-Length: -1"), ("Transport", ""), ("Transport", "interleaved="), ("Transport", "RTP/AVP/TCP;interleaved=a-b"),
                   ("Transport", "RTP/AVP/TCP;interleaved=256-70000"), ("Transport", "RTP/AVP/TCP;interleaved=1"), ("Transport", "RTP/AVP/TCP;interleaved=-"),
                   ("Transport", "RTP/AVP;client_port="), ("Transport", "RTP/AVP;client_port=-"), ("Transport", "RTP/AVP;client_port=99999-1"), ("Transport", "RTP/AVP;client_port=1"),
                   ("Transport", "client_port=a-b"), ("Authorization", ""), ("Authorization", "Basic"), ("Authorization", "Basic !!!"), ("Authorization", "Basic dTpw"),
                   ("Authorization", "Digest"), ("Authorization", 'Digest username="u", realm="r", nonce="n", uri="rtsp://x", response="0"'), ("Authorization", "Digest username=,realm"),
                   ("Authorization", 'Digest username="u'), ("Session", ""), ("X", "y" * 300)]


def gen_sessions(tier, rng):
    quick = tier == "quick"
    for ws in (0, 1):
        for udp in (False, True):
            for ex in (rtsp_pub_exchange(rng, udp=udp), rtsp_sub_exchange(rng, udp=udp)):
                parts = ws_wrap(ex, rng) if ws else ex
                yield Case("c13x.rtsp %d 0 %s" % (ws, hex_tok(b"".join(parts))), cls="x-rtsp")
    for auth in (1, 2):
        for a in (None, "Basic dTpw", "Basic dTp4", 'Digest username="u", realm="lal", nonce="x", uri="rtsp://127.0.0.1:5544/live/x", response="0"'):
            yield Case("c13x.rtsp 0 %d %s" % (auth, hex_tok(b"".join(rtsp_sub_exchange(rng, auth=a)))), cls="x-rtsp-auth")
    for ws in (0, 1):
        for ex in (rtsp_pub_exchange(rng), rtsp_sub_exchange(rng)):
            whole = b"".join(ws_wrap(ex, rng) if ws else ex)
            for cut in range(0, len(whole), 11 if quick else 1):
                yield Case("c13x.rtsp %d 0 %s" % (ws, hex_tok(whole[:cut])), cls="x-rtsp-trunc")
            # hostile header values in every request
            for k in range(len(ex)):
                if ex[k][:1] == b"$":
                    continue
                for hk, hv in HOSTILE_HEADERS:
                    line = ("%s: %s\r\n" % (hk, hv)).encode()
                    req = ex[k]
                    pos = req.find(b"\r\n") + 2
                    # replace an existing header of that name, else add it
                    lines = req[pos:].split(b"\r\n")
                    lines = [l for l in lines if not l.lower().startswith(hk.lower().encode() + b":")]
                    mreq = req[:pos] + line + b"\r\n".join(lines)
                    ex2 = ex[:k] + [mreq] + ex[k + 1:]
                    if quick and rng.random() < 0.75:
                        continue
                    yield Case("c13x.rtsp %d %d %s" % (ws, rng.choice([0, 0, 1, 2]), hex_tok(b"".join(ws_wrap(ex2, rng) if ws else ex2))), cls="x-rtsp-header")
    # hostile SDP bodies in ANNOUNCE, then RTP
    seps = [b":", b" ", b"/", b";", b"=", b","]
    for _ in range(60 if quick else 10000):
        sd = rng.choice([SDP_TEXT, SDP_H265])
        ls = sd.split(b"\r\n")
        i = rng.randrange(len(ls))
        ls[i] = text_mutate(rng, ls[i], seps)
        ex = rtsp_pub_exchange(rng, sdp=b"\r\n".join(ls))
        yield Case("c13x.rtsp 0 0 %s" % hex_tok(b"".join(ex)), cls="x-rtsp-sdp")
    for clk in CLOCKS:
        ex = rtsp_pub_exchange(rng, sdp=SDP_TEXT.replace(b"90000", str(clk).encode()).replace(b"44100", str(clk).encode()))
        yield Case("c13x.rtsp 0 0 %s" % hex_tok(b"".join(ex)), cls="x-rtsp-sdp")
    # interleaved data before / without a session, unknown methods, other orders
    u = "rtsp://127.0.0.1:5544/live/x"
    odd = [interleaved(0, rtp(96, 1, 0, 7, b"\x65\x01")), rtsp_req("PLAY", u, 1), rtsp_req("RECORD", u, 1), rtsp_req("SETUP", u, 1, [("Transport", "RTP/AVP/TCP;interleaved=0-1")]),
           rtsp_req("SETUP", u, 1, [("Transport", "RTP/AVP;client_port=1-2")]), rtsp_req("GET_PARAMETER", u, 1), rtsp_req("options", u, 1), rtsp_req("TEARDOWN", u, 1), rtsp_req("ANNOUNCE", u, 1),
           rtsp_req("ANNOUNCE", "http://x/y", 1, [], SDP_TEXT), rtsp_req("ANNOUNCE", "rtsp://", 1, [], SDP_TEXT), rtsp_req("DESCRIBE", "rtsp:///", 1), rtsp_req("DESCRIBE", "%zz", 1),
           b"\r\n\r\n", b"OPTIONS\r\n\r\n", b"OPTIONS a\r\n\r\n", b" \r\n\r\n", b"A B C D\r\n:\r\n\r\n", b"OPTIONS a RTSP/1.0\r\nCSeq\r\n\r\n", b"OPTIONS a RTSP/1.0\nCSeq: 1\n\n"]
    for o in odd:
        yield Case("c13x.rtsp 0 0 %s" % hex_tok(o), cls="x-rtsp-odd")
        yield Case("c13x.rtsp 0 1 %s" % hex_tok(o + rtsp_req("OPTIONS", u, 2)), cls="x-rtsp-odd")
        yield Case("c13x.rtsp 1 0 %s" % hex_tok(ws_frame(o, mask=rb(rng, 4))), cls="x-rtsp-odd")
        ann = rtsp_req("ANNOUNCE", u, 1, [], SDP_TEXT)
        yield Case("c13x.rtsp 0 0 %s" % hex_tok(ann + o), cls="x-rtsp-odd")
    for _ in range(250 if quick else 40000):
        ws = rng.random() < 0.3
        ex = rng.choice([rtsp_pub_exchange(rng), rtsp_sub_exchange(rng)])
        if rng.random() < 0.5:
            k = rng.randrange(len(ex))
            ex = ex[:k] + [text_mutate(rng, ex[k], [b"\r\n", b":", b" ", b";", b"=", b"-", b"$"])] + ex[k + 1:]
            whole = b"".join(ws_wrap(ex, rng) if ws else ex)
        else:
            whole = mutate(rng, b"".join(ws_wrap(ex, rng) if ws else ex))
        yield Case("c13x.rtsp %d %d %s" % (int(ws), rng.choice([0, 0, 0, 1, 2]), hex_tok(whole)), cls="x-rtsp-mutation")
    # RTSP client (relay pull): responses of a hostile origin
    def resp(code, cseq, headers=(), body=b"", reason="OK"):
        out = ("RTSP/1.0 %s %s\r\nCSeq: %s\r\n" % (code, reason, cseq)).encode()
        for k, v in headers:
            out += ("%s: %s\r\n" % (k, v)).encode()
        if body:
            out += ("Content-Length: %d\r\n" % len(body)).encode()
        return out + b"\r\n" + body
    good = [resp(200, 1, [("Public", "OPTIONS, DESCRIBE, SETUP, TEARDOWN, PLAY")]),
            resp(200, 2, [("Content-Base", "rtsp://127.0.0.1/live/x/"), ("Content-Type", "application/sdp")], SDP_TEXT),
            resp(200, 3, [("Transport", "RTP/AVP/TCP;unicast;interleaved=0-1"), ("Session", "12345678;timeout=60")]),
            resp(200, 4, [("Transport", "RTP/AVP/TCP;unicast;interleaved=2-3"), ("Session", "12345678;timeout=60")]),
            resp(200, 5, [("Session", "12345678"), ("RTP-Info", "url=x;seq=1;rtptime=0")]),
            interleaved(0, rtp(96, 1, 0, 7, b"\x65\x01\x02")), interleaved(2, rtp(97, 1, 0, 8, au_payload([b"\x01\x02"]))), interleaved(1, rtcp_sr(7, 1, 2, 3, 4, 5))]
    yield Case("c13x.rtspclient " + hex_tok(b"".join(good)), cls="x-rtspclient")
    digest = resp(401, 2, [("WWW-Authenticate", 'Digest realm="r", nonce="n"')], reason="Unauthorized")
    basic = resp(401, 2, [("WWW-Authenticate", 'Basic realm="r"')], reason="Unauthorized")
    variants = [[good[0], digest] + good[1:], [good[0], basic] + good[1:], [good[0], digest, digest], [digest], [resp(401, 1, [("WWW-Authenticate", "Digest")])] + good,
                [resp(401, 1, [("WWW-Authenticate", 'Digest realm="')])] + good, [resp(401, 1, [("WWW-Authenticate", "")])] + good, [resp(401, 1)] + good,
                [good[0], resp(200, 2, [("Content-Type", "application/sdp")], b"m=video\r\na=rtpmap:96\r\n")], [good[0], resp(200, 2)], [good[0], good[1], resp(200, 3)],
                [good[0], good[1], resp(200, 3, [("Transport", "interleaved=x-y"), ("Session", "")])], [good[0], good[1], resp(200, 3, [("Transport", ""), ("Session", ";")]), good[3], good[4]],
                [resp(200, 1, [("Public", "GET_PARAMETER")])] + good[1:] + [resp(200, 6), interleaved(0, rtp(96, 2, 0, 7, b"\x41"))], [resp(302, 1, [("Location", "rtsp://x")])],
                [b"RTSP/1.0\r\n\r\n"], [b"\r\n\r\n"], [b"HTTP/1.1 200 OK\r\nContent-Length: 99999999999\r\n\r\n"], [b"RTSP/1.0 200 OK\r\nContent-Length: -5\r\n\r\nabc"]]
    for clk in (0, 999, 4294967296000):
        variants.append([good[0], resp(200, 2, [("Content-Type", "application/sdp")], SDP_TEXT.replace(b"90000", str(clk).encode()).replace(b"44100", str(clk).encode()))] + good[2:])
    for v in variants:
        yield Case("c13x.rtspclient " + hex_tok(b"".join(v)), cls="x-rtspclient")
    whole = b"".join(good)
    for cut in range(0, len(whole), 97 if quick else 5):
        yield Case("c13x.rtspclient " + hex_tok(whole[:cut]), cls="x-rtspclient")
    for _ in range(12 if quick else 800):
        k = rng.randrange(len(good))
        g = good[:k] + [text_mutate(rng, good[k], [b"\r\n", b":", b" ", b";", b"=", b"-", b"$"])] + good[k + 1:]
        yield Case("c13x.rtspclient " + hex_tok(b"".join(g)), cls="x-rtspclient")
    # HTTP API JSON bodies
    bodies = {"start_relay_pull": b'{"url": "rtmp://127.0.0.1/live/test110", "stream_name": "test110", "pull_timeout_ms": 10000, "pull_retry_num": 0, "auto_stop_pull_after_no_out_ms": -1, "rtsp_mode": 0}',
              "kick_session": b'{"stream_name": "test110", "session_id": "FLVSUB1"}', "start_rtp_pub": b'{"stream_name": "test110", "port": 0, "timeout_ms": 10000, "is_tcp_flag": 1}',
              "add_ip_blacklist": b'{"ip": "127.0.0.1", "duration_sec": 60}', "stop_relay_pull": b'{"stream_name": "x"}'}
    weird = [b"", b"{", b"}", b"null", b"[]", b"0", b'""', b"{}", b'{"url":null}', b'{"url":1}', b'{"url":[]}', b'{"url":{}}', b'{"url":"a","url":"b"}', b'{"url":"\xff\xfe"}', b'{"url":"\\ud800"}',
             b'{"pull_timeout_ms":1e999,"url":"x"}', b'{"pull_timeout_ms":99999999999999999999,"url":"x"}', b'{"pull_timeout_ms":"1","url":"x"}', b'{"port":-1,"stream_name":"x"}',
             b'{"port":65536.5,"stream_name":"x"}', b'{"duration_sec":-1,"ip":"x"}', b"[" * 2000, b"[" * 20000 + b"]" * 20000, b'{"a":' * 3000 + b"1" + b"}" * 3000, b'{"url":"' + b"a" * 70000 + b'"}',
             b'\xef\xbb\xbf{"url":"x"}', b'{"url":"x"} trailing', b"{'url':'x'}", b'{"url":"x",}', b'{"stream_name":true,"session_id":false}']
    for kind, body in bodies.items():
        yield Case("c13x.api %s %s" % (kind, hex_tok(body)), cls="x-api")
        for w in weird:
            yield Case("c13x.api %s %s" % (kind, hex_tok(w)), cls="x-api")
        for cut in range(0, len(body), 3 if quick else 1):
            yield Case("c13x.api %s %s" % (kind, hex_tok(body[:cut])), cls="x-api")
        for _ in range(40 if quick else 10000):
            yield Case("c13x.api %s %s" % (kind, hex_tok(text_mutate(rng, body, [b'"', b":", b",", b"{", b"}", b"[", b"]", b"\\", b"null", b"1e9", b"-"]))), cls="x-api")


def gen_cases(tier, rng):
    for g in (gen_rtp, gen_rtcp, gen_insess, gen_udpsess, gen_msg, gen_cmd, gen_clt, gen_ilv, gen_ws, gen_ps, gen_rtmpc, gen_text, gen_sessions):
        for c in g(tier, rng):
            yield c


# ---------------------------------------------------------------- evaluation
def tok_len(tok):
    """length of a bytes token without materialising r<len>.<seed> parts (the WebSocket cap cases are 1 MiB each)"""
    n = 0
    for part in tok.split("+"):
        if part == "-":
            continue
        if part[0] == "r":
            n += int(part[1:].split(".")[0])
        else:
            n += len(part) // 2
    return n


def outcome_class(out):
    if out.startswith(("panic@", "crash@")):
        return out
    if out.startswith("timeout"):
        return "timeout"
    return out.split(" ")[0]


def nontrivial(c, out):
    f = c.line.split(" ")
    shape = c.cls
    if f[0] == "c13.insess":
        shape = "%s|%s/%s|%d" % (c.cls, f[1], f[4], min(f[7].count(",") + 1, 8))
        o = out.split(" ")
        evs = o[1] if len(o) > 1 else ""
        return "%s|%s|av%d|rr%d" % (shape, outcome_class(out), min(evs.count("av:"), 4), min(evs.count("rr:"), 3))
    if f[0] == "c13.udpsess":
        o = out.split(" ")
        evs = o[1] if len(o) > 1 else ""
        heads = [e.split(":")[0] + (":" + e.split(":")[1][:1] if e[0] == "s" else "") for e in f[7].split(",")] if f[7] != "-" else []
        return "%s|%s/%s|%s|%s|rr%d|rru%d|ns%d|es%d|av%d" % (c.cls, f[1], f[4], ",".join(heads[:6]), outcome_class(out), min(evs.count("rr:"), 3),
                                                          min(evs.count("rru:"), 3), min(evs.count("nosock"), 2), min(evs.count("errsetup"), 2), min(evs.count("av:"), 3))
    if f[0] == "c13.ps":
        o = out.split(" ")
        evs = o[1] if len(o) > 1 else ""
        return "%s|%s|%s|k%d|e%d|av%d" % (c.cls, f[1], outcome_class(out), min(evs.count("k"), 6), min(evs.count("e"), 4), min(evs.count("av:"), 6))
    if f[0] == "c13.rtspclt":
        o = out.split(" ")
        qs = o[1].split(",") if len(o) > 3 and o[1] != "-" else []
        meth = "".join(bytes.fromhex(q.split(":")[1]).decode("latin1")[:1] if len(q.split(":")) > 1 and q.split(":")[1] != "-" else "?" for q in qs)
        authz = sum(1 for q in qs if "417574686f72697a6174696f6e" in q)
        return "%s|%s%s|%s|%s|a%d|%s" % (c.cls, f[1], f[2], outcome_class(out), meth[:12], min(authz, 3), o[-1] if len(o) > 3 else "")
    if f[0] == "c13.rtspcmd":
        o = out.split(" ")
        evs = o[1].split(";") if len(o) > 2 and o[1] != "-" else []
        shape = ",".join(e if e.startswith("cb:") else e.split(":")[0] + e.split(":")[2][:12] for e in evs[:8])
        return "%s|%s|%s|%s|%s|%s" % (c.cls, "".join(f[1:3]) + f[4] + ("s" if len(f[3]) > 6 else f[3][:2]), outcome_class(out), shape, len(evs), o[-2].split(":")[0] if len(o) > 3 else "")
    if f[0] in ("c13x.udpsess", "c13x.pulludp"):
        return "%s|%s/%s|%s|%d" % (f[0], f[1], f[4], outcome_class(out), min(f[7].count(","), 8))
    n = tok_len(f[-1]) if len(f[-1]) < 4000 else 9999
    return "%s|%s|%s|%d" % (f[0], shape, outcome_class(out), min(n, 40))


def oracle(c, out):
    """C13 on the implementation's observation: the process / goroutine did not die"""
    if out.startswith(("panic@", "crash@", "timeout", "not-run")):
        return (False, "input terminates lal: " + out)
    f = c.line.split(" ")
    if f[0] == "c13.rtp":
        b = tok_bytes(f[1])
        want = ref_rtp(b)
        if want is None:
            return (out == "err", "malformed RTP packet must be refused with an error, got: " + out[:80])
        o = out.split(" ")
        return (o[0] == "ok" and tok_bytes(o[-1]) == want, "well-formed RTP packet: payload differs from the RFC 3550 reference")
    if f[0] == "c13.rtspclt":
        # the upstream has said all it will say and closed its side: the session has to be over (Start failed, or the
        # session reported as ended) unless it waits for the GET_PARAMETER keep-alive, which takes a server that announced it
        # (a header value may be glued from a line without colon: line breaks and blanks are ignored in the search)
        if out.endswith(" running") and b"GET_PARAMETER" not in tok_bytes(f[6]).replace(b"\r", b"").replace(b"\n", b"").replace(b" ", b""):
            return (False, "the rtsp client session is neither over nor running a keep-alive: its read loop spins or its end was never reported")
        return (True, "")
    if f[0] == "c13.rtspcmd":
        # closing that session only: nothing the requests made lal open may outlive the session
        leak = out.rsplit("leak:", 1)
        return (len(leak) == 2 and leak[1] == "0", "the command sequence leaves UDP sockets open after its session is gone: " + out[-60:])
    if f[0].startswith("c13x."):
        return (out == "alive", "unmodelled surface must survive: " + out[:80])
    return (True, "")


def classify_finding(c, out):
    for site, fid in KNOWN_SITES.items():
        if out.startswith(("panic@" + site, "crash@" + site)):
            return fid
    return None


def neighbors(c, rng):
    f = c.line.split(" ")
    if f[0] == "c13.ps":
        if f[2] == "-":
            return
        items = f[2].split(",")
        for k in range(len(items)):
            b = tok_bytes(items[k])
            for t in range(12, len(b)):
                yield "c13.ps %s %s" % (f[1], ",".join(items[:k] + [hex_tok(b[:t])]))
            for _ in range(10):
                yield "c13.ps %s %s" % (f[1], ",".join(items[:k] + [hex_tok(mutate(rng, b, 12))] + items[k + 1:]))
        return
    if f[0] == "c13.rtspclt":
        b = tok_bytes(f[6])
        if len(b) > 6000:
            return
        import re
        starts = [m.start() for m in re.finditer(rb"RTSP/1.0 ", b)] + [len(b)]
        for i in range(len(starts) - 1):
            yield " ".join(f[:6]) + " " + hex_tok(b[:starts[i]])
            yield " ".join(f[:6]) + " " + hex_tok(b[:starts[i]] + b[starts[i + 1]:])
        for _ in range(30):
            yield " ".join(f[:6]) + " " + hex_tok(text_mutate(rng, b, [b"\r\n", b";", b"=", b"-", b"401", b"461"]))
        return
    if f[0] == "c13.rtspcmd":
        if f[1] != "0":
            return
        import re
        b = tok_bytes(f[5])
        starts = [m.start() for m in re.finditer(rb"(OPTIONS|ANNOUNCE|DESCRIBE|SETUP|RECORD|PLAY|TEARDOWN|GET_PARAMETER) rtsp://", b)] + [len(b)]
        if starts[0] != 0:
            starts = [0] + starts
        for i in range(len(starts) - 1):
            yield " ".join(f[:5]) + " " + hex_tok(b[:starts[i]])
            yield " ".join(f[:5]) + " " + hex_tok(b[:starts[i]] + b[starts[i + 1]:])
        for d in ("nosdp", "deny", hex_tok(CMD_SDP)):
            yield " ".join(f[:3]) + " " + d + " " + " ".join(f[4:])
        return
    if f[0] in ("c13.udpsess", "c13x.udpsess", "c13x.pulludp"):
        if f[7] == "-":
            return
        items = f[7].split(",")
        for k in range(len(items)):
            yield " ".join(f[:7]) + " " + (",".join(items[:k] + items[k + 1:]) or "-")
            src, p = items[k].split(":")
            if src in ("sa", "sv"):
                continue
            b = tok_bytes(p)
            for t in (0, 1, 3, 4, 12, 13, 27, 28):
                if t < len(b):
                    yield " ".join(f[:7]) + " " + ",".join(items[:k] + ["%s:%s" % (src, hex_tok(b[:t]))] + items[k + 1:])
            for _ in range(10):
                yield " ".join(f[:7]) + " " + ",".join(items[:k] + ["%s:%s" % (src, hex_tok(mutate(rng, b, 12)))] + items[k + 1:])
        return
    if f[0] == "c13.insess":
        if f[7] == "-":
            return
        items = f[7].split(",")
        for k in range(len(items)):
            ch, p = items[k].split(":")
            b = tok_bytes(p)
            for t in list(range(max(12, len(b) - 6), len(b))) + [12, 13, 14]:
                if t <= len(b):
                    yield " ".join(f[:7]) + " " + ",".join(items[:k] + ["%s:%s" % (ch, hex_tok(b[:t]))])
            for _ in range(20):
                yield " ".join(f[:7]) + " " + ",".join(items[:k] + ["%s:%s" % (ch, hex_tok(mutate(rng, b, 12)))] + items[k + 1:])
    else:
        b = tok_bytes(f[-1])
        if len(b) > 5000:
            return
        for t in range(len(b)):
            yield " ".join(f[:-1] + [hex_tok(b[:t])])
        for _ in range(100):
            yield " ".join(f[:-1] + [hex_tok(mutate(rng, b))])
