# C16 - when an input ends every output is finalised once and the name starts clean
from lib.vf import Case
from gen.common import *
from gen import fanout

ID = "C16"
RULE = ("multi-epoch fan-out histories (publish / unpublish cycles with changing codecs while subscribers of every kind stay "
        "attached, join or leave; recording, relay push and a stream hook enabled) on a real logic.Group; per input epoch the "
        "recording, the push target's session and the hook are observed; a case is non-trivial when it has at least two epochs "
        "or a consumer that joins after a restart")
ASSUMPTIONS = ["HLS segment finalisation and TS audio flush at teardown are decided in C10 / C06 (hls.Muxer, Rtmp2MpegtsRemuxer)",
               "removal of empty groups, idle-input disposal and goroutine/descriptor baselines are ServerManager / runtime behaviour: "
               "measured by the C03 harness where possible, not part of this model (partial)",
               "the stream hook is a modelled consumer: which message every OnMsg carried and the OnStop count per input are compared model == implementation"]
FULL_OUTPUT = True


def gen_idle(tier, rng):
    """liveness sweep: sessions with exactly driven byte counters, ticks around multiples of 120"""
    n = 120 if tier == "quick" else 1500
    for k in range(n):
        ev = []
        sess = {}
        nid = 1
        pub_stage = 0
        for step in range(rng.randrange(3, 14)):
            a = rng.random()
            if a < 0.3 and len(sess) < 5:
                kind = rng.choice(["sr", "sf", "st"] + ([] if any(v == "pr" for v in sess.values()) else ["pr", "pr"]))
                sess[nid] = kind
                ev.append("a:%d:%s" % (nid, kind))
                if kind == "pr":
                    ev.append("b:%d:1537:0" % nid)
                    pub_stage = 1
                nid += 1
            elif a < 0.65 and sess:
                i = rng.choice(list(sess))
                if sess[i] == "pr":
                    if pub_stage == 1:
                        ev.append("b:%d:1536:0" % i)
                        pub_stage = 2
                    else:
                        ev.append("b:%d:%d:0" % (i, 16 * rng.randrange(1, 4)))
                else:
                    ev.append("b:%d:0:%d" % (i, rng.choice([1, 7, 100, 5000])))
            else:
                base = rng.choice([120, 240, 360, 1200, 4294967280])
                ev.append("t:%d" % (base + rng.choice([0, 0, 0, 1, 119, 60])))
        yield Case("c16.idle " + ";".join(ev), cls="idle-sweep")


def idle_oracle(c, out):
    if out.startswith(("panic@", "crash@", "timeout", "err", "bad")):
        return (False, "implementation failed: " + out)
    evs = [e.split(":") for e in c.line.split(" ")[1].split(";") if e]
    st = {}   # id -> dict(kind, r, w, stale, closed)
    for e in evs:
        if e[0] == "a":
            st[e[1]] = dict(kind=e[2], r=0, w=0, stale=None, closed=False)
        elif e[0] == "b":
            x = st[e[1]]
            if not x["closed"]:
                x["r"] += int(e[2]); x["w"] += int(e[3])
        elif e[0] == "t" and int(e[1]) % 120 == 0:
            for x in st.values():
                cur = x["r"] if x["kind"] == "pr" else x["w"]
                if x["stale"] is not None and cur == x["stale"]:
                    x["closed"] = True     # counter did not move since the previous sweep
                x["stale"] = cur
    got = dict(p.split("=") for p in out.split("|"))
    for i, x in st.items():
        if got.get(i) != ("1" if x["closed"] else "0"):
            return (False, "session %s (%s): disposed=%s, the idle rule says %s" % (i, x["kind"], got.get(i), x["closed"]))
    want_inactive = all(x["closed"] for x in st.values())
    if got.get("inactive") != ("1" if want_inactive else "0"):
        return (False, "group.IsInactive()=%s with %d sessions left" % (got.get("inactive"), sum(not x["closed"] for x in st.values())))
    return (True, "")


def gen_cases(tier, rng):
    yield from gen_idle(tier, rng)
    kinds = ["r", "f", "w", "t"]
    names = sorted(fanout.STREAMS)
    n = 260 if tier == "quick" else 3000
    for k in range(n):
        cfg = dict(rng.choice(fanout.CFGS))
        cfg["rec"] = 1
        cfg["hook"] = 1
        cfg["mw"] = rng.choice([0, 0, 1, 8192])
        if k % 3 == 0:
            cfg["push"] = 1
        trec = k % 4 == 1
        if trec:
            # MPEG-TS recording: see the harness - fewer than 16 messages per input, never audio and video together
            cfg["trec"] = 1
        h = fanout.Hist(rng, cfg)
        live = []
        epochs = rng.choice([2, 2, 3, 4])
        was_quick = False
        for e in range(epochs):
            for _ in range(rng.randrange(0, 3)):
                live.append(h.join(rng.choice(kinds)))
            h.start(pat=rng.random() < 0.8)
            if was_quick:
                h.tick()
            if rng.random() < 0.5:
                h.sdp()
            if rng.random() < 0.4:
                h.describe()
            seq = list(fanout.STREAMS[rng.choice(names if not trec else ["video", "audio", "g711", "ehevc"])])
            cut = rng.randrange(0, len(seq) + 1)
            if trec and rng.random() < 0.5:
                h.pat()
            for kind in seq[:cut]:
                a = rng.random()
                if a < 0.2:
                    live.append(h.join(rng.choice(kinds)))
                elif a < 0.3 and live:
                    h.leave(live.pop(rng.randrange(len(live))))
                h.pub(kind)
                if rng.random() < (0.6 if trec else 0.3):
                    h.ts(rng.random() < 0.4)
                if trec and rng.random() < 0.1:
                    h.pat()
            if rng.random() < 0.15:
                h.stop()       # a second stop of the same input must be a no-op
            quick = cfg.get("push") and rng.random() < 0.5 and e + 1 < epochs
            was_quick = bool(quick)
            if e + 1 == epochs and k % 3 == 1:
                break            # server shutdown while this input is attached (Group.Dispose below)
            if quick:
                h.stop_quick()   # the next input follows at once; then a tick
            else:
                h.stop()
            if trec and rng.random() < 0.4:
                h.ts(True)       # TS data handed over while no input is attached: recorded nowhere
            if rng.random() < 0.2:
                h.pub(rng.choice(["aac", "inter"]))   # a frame handed over after the input was removed: no hook, no recording, nothing cached
            if rng.random() < 0.5:
                h.describe()
            if rng.random() < 0.3:
                live.append(h.join(rng.choice(kinds)))
        if cfg.get("push") and k % 3 != 1:
            h.tick()
        if k % 3 == 1 or k % 7 == 0:
            h.dispose()      # with the last input still attached (k % 3 == 1) or after it has ended
        yield Case(h.line(), cls="%d-epochs%s%s" % (epochs, "-push" if cfg.get("push") else "", "-dispose" if h.ev[-1] == "X" else ""))
    # RTSP subscribers across publish / unpublish cycles (DESCRIBE before, during and after inputs; late RTP packets)
    yield from fanout.gen_rtsp_histories(tier, rng, multi_epoch=True)
    # inputs that never announce a sequence header (key frames cached all the same): the GOPs of such an input must be
    # gone when it ends - a consumer of a later input never receives them (seed C16r7-1: Clear() that only drops the
    # GOPs when a remembered header goes away)
    nohdr = [["key", "inter", "inter", "key", "inter"], ["key", "aac", "inter", "aac"], ["hkey", "hinter", "hkey"],
             ["meta", "key", "inter", "key"]]
    for k in range(32 if tier == "quick" else 400):
        cfg = dict(rng.choice(fanout.CFGS))
        cfg["rec"] = 1
        cfg["hook"] = 1
        cfg["mw"] = rng.choice([0, 0, 1, 8192])
        h = fanout.Hist(rng, cfg)
        epochs = rng.choice([2, 3, 4])
        for e in range(epochs):
            if rng.random() < 0.5:
                h.join(rng.choice(kinds))
            h.start(pat=rng.random() < 0.8)
            if e + 1 < epochs or rng.random() < 0.5:
                seq = list(rng.choice(nohdr))
                cut = rng.randrange(2, len(seq) + 1)
            else:
                seq = list(fanout.STREAMS[rng.choice(["av", "video", "hevc"])])
                cut = rng.randrange(0, len(seq) + 1)
            for kind in seq[:cut]:
                if rng.random() < 0.2:
                    h.join(rng.choice(kinds))
                h.pub(kind)
            h.stop()
            if rng.random() < 0.6:
                h.join(rng.choice(kinds))
        yield Case(h.line(), cls="%d-epochs-nohdr" % epochs)


def split_impl(c, out):
    """popen= (relay-push sessions still open at the end) is observed on the implementation only"""
    return "|".join(p for p in out.split("|") if not p.startswith("popen=")) or "-"


def nontrivial(c, out):
    if c.line.startswith("c16.idle"):
        return c.line if "=1" in out else None
    return c.line if c.line.count(";I") + c.line.startswith("c01.hist") >= 2 else None


def oracle(c, out):
    if c.line.startswith("c16.idle"):
        return idle_oracle(c, out)
    if out.startswith(("panic@", "crash@", "timeout", "err", "bad")):
        return (False, "implementation failed: " + out)
    cfg, evs = fanout.parse_case(c.line)
    obs = fanout.parse_obs(out)
    msgs, spans, joins, kinds, leaves = [], [], {}, {}, {}
    sdps, describes = [], {}
    epoch, in_epoch = -1, False
    for pos, e in enumerate(evs):
        if e[0] == "I" and not in_epoch:
            epoch += 1
            in_epoch = True
            spans.append([pos, len(evs)])
        elif e[0] in ("O", "Oq", "X") and in_epoch:
            in_epoch = False
            spans[-1][1] = pos
        elif e[0] == "P":
            p = tok_bytes(e[3])
            msgs.append(dict(t=int(e[1]), p=p, epoch=epoch if in_epoch else None, pos=pos))
        elif e[0] == "S":
            sdps.append(dict(epoch=epoch if in_epoch else None, pos=pos))
        elif e[0] == "D":
            describes[e[1]] = pos
        elif e[0][0] == "J" and e[1] not in joins:
            joins[e[1]] = pos
            kinds[e[1]] = e[0][1]
        elif e[0] == "L":
            leaves.setdefault(e[1], pos)
    nep = len(spans)
    per_epoch = [[i for i, m in enumerate(msgs) if m["epoch"] == ep and len(m["p"]) > 0] for ep in range(nep)]
    # recordings: one per input, closed, complete, parse completely
    recs = obs.get("rec", [])
    if nep and len(recs) != nep:
        return (False, "%d recordings for %d inputs" % (len(recs), nep))
    for ep in range(nep):
        if recs[ep][:1] != ["F"] or recs[ep][1:] != ["t%d" % i for i in per_epoch[ep]]:
            return (False, "recording of input %d is not header + exactly its messages: %s" % (ep, recs[ep][:16]))
    # server shutdown: every session the group held is disposed
    if evs and evs[-1][0] == "X":
        lv = obs.get("live")
        if lv != [[]]:
            return (False, "after Group.Dispose() these sessions are still open: %s" % (lv,))
    # MPEG-TS recording: one file per input, holding exactly the PAT/PMT and TS blobs of that input, in order
    if cfg.get("trec"):
        trecs = obs.get("trec", [])
        if nep and len(trecs) != nep:
            return (False, "%d TS recordings for %d inputs" % (len(trecs), nep))
        na = nt = 0
        want = [[] for _ in range(nep)]
        for pos, e in enumerate(evs):
            if e[0] in ("A", "T"):
                lab = ("a%d" % na) if e[0] == "A" else ("s%d" % nt)
                if e[0] == "A":
                    na += 1
                else:
                    nt += 1
                for ep, sp in enumerate(spans):
                    if sp[0] < pos < sp[1]:
                        want[ep].append(lab)
        for ep in range(nep):
            if trecs[ep] != want[ep]:
                return (False, "TS recording of input %d holds %s, handed to the group during it: %s" % (ep, trecs[ep][:16], want[ep][:16]))
    # stream hook: every non-empty message of the input, exactly one stop
    hk = obs.get("hook")
    if hk is not None and nep:
        if len(hk) != nep:
            return (False, "hook created %d times for %d inputs" % (len(hk), nep))
        for ep in range(nep):
            told, stops = ",".join(hk[ep]).split(":")
            if int(stops) != 1:
                return (False, "hook of input %d told to stop %s times" % (ep, stops))
            told = [] if told == "-" else told.split(",")
            if told != [str(i) for i in per_epoch[ep]]:
                return (False, "hook of input %d was told messages %s, published (non-empty) during it: %s" % (ep, told[:16], per_epoch[ep][:16]))
    # push: one session per input, closed with the input, holding only that input's messages
    for cid, k in kinds.items():
        if k == "p":
            segs = obs.get(cid, [])
            if len(segs) != nep:
                return (False, "push target saw %d sessions for %d inputs" % (len(segs), nep))
            for ep, seg in enumerate(segs):
                bad = [l for l in seg if l[0] == "?" or int(l[1:]) not in per_epoch[ep]]
                if bad:
                    return (False, "push session of input %d received %s" % (ep, bad[:6]))
    # relay-push sessions are closed: none still open at the target when everything ended
    po = obs.get("popen")
    if po is not None and po != [["0"]]:
        return (False, "%s relay-push session(s) still open at the target after the last input ended" % po[0][0])
    # RTSP subscribers: a DESCRIBE is answered with the SDP of the CURRENT input only (never one of an input that has ended)
    r = fanout.check_rtsp(cfg, evs, obs)
    if r:
        return (False, "[%s] %s" % r)
    # clean restart: a consumer that joined during or after input e never receives anything of an earlier input
    for cid, k in kinds.items():
        if k in ("p", "t") or obs.get(cid) == [["!"]]:
            continue
        a = joins[cid]
        first_ep = None
        for ep, sp in enumerate(spans):
            if a < sp[1]:
                first_ep = ep
                break
        if first_ep is None:
            continue
        seg = obs.get(cid, [[]])[0]
        for lab in seg:
            if lab in ("HF", "H"):
                continue
            if lab[0] == "?":
                return (False, "consumer %s received unparseable bytes" % cid)
            ep = msgs[int(lab[1:])]["epoch"]
            if ep is not None and ep < first_ep:
                return (False, "consumer %s joined for input %d but received %s of input %d" % (cid, first_ep, lab, ep))
    return (True, "")


def neighbors(c, rng):
    return []


# ======================================================================================================================
# Extension E3 (keep at the END of this file): "a stream with no sessions left is eventually removed, an input that
# stops sending is disconnected by the idle check" at the SERVER level - a real ServerManager with its tick, op c03.srv,
# generator and oracle in gen/c03tick.py.  The functions above are wrapped, not changed.
from gen import c03tick as _e3

ASSUMPTIONS = [a for a in ASSUMPTIONS if not a.startswith("removal of empty groups, idle-input disposal")] + [
    "goroutine / descriptor baselines are runtime behaviour, not part of the model (partial)",
    "c03.srv (removal of empty groups and the idle check on a real ServerManager): RTSP sessions count RTP payload only, which the harness never "
    "sends; PS publishers have no timeout (timeout_ms = 0); the traffic an event causes moves a byte counter by an unspecified positive amount",
]
RULE += ("; c03.srv: event histories over 1-3 stream names through a real ServerManager and its tick, with exactly driven byte counters and "
         "ticks at, just before and just after multiples of 120")
_e3_gen_cases, _e3_nontrivial, _e3_oracle, _e3_neighbors = gen_cases, nontrivial, oracle, neighbors


def gen_cases(tier, rng):
    yield from _e3_gen_cases(tier, rng)
    yield from _e3.gen_cases(tier, rng)


def nontrivial(c, out):
    return _e3.nontrivial(c, out) if c.line.startswith("c03.srv") else _e3_nontrivial(c, out)


def oracle(c, out):
    return _e3.oracle(c, out) if c.line.startswith("c03.srv") else _e3_oracle(c, out)


def neighbors(c, rng):
    yield from (_e3.neighbors(c, rng) if c.line.startswith("c03.srv") else _e3_neighbors(c, rng))
